/-
C05 — helper lemmas (core Lean only).
-/
import Otel.C05.Spec
namespace Otel
namespace C05
open Spec

/-! ### the byte-string order -/

theorem bLt_irrefl (a : Bytes) : bLt a a = false := by
  induction a with
  | nil => rfl
  | cons x xs ih => simp [bLt, ih]

theorem bLt_trans {a b c : Bytes} (h1 : bLt a b = true) (h2 : bLt b c = true) : bLt a c = true := by
  induction a generalizing b c with
  | nil =>
    cases b with
    | nil => simp [bLt] at h1
    | cons y ys => cases c with
      | nil => simp [bLt] at h2
      | cons z zs => simp [bLt]
  | cons x xs ih =>
    cases b with
    | nil => simp [bLt] at h1
    | cons y ys => cases c with
      | nil => simp [bLt] at h2
      | cons z zs =>
        simp only [bLt, Bool.or_eq_true, Bool.and_eq_true, decide_eq_true_eq] at h1 h2 ⊢
        rcases h1 with h1 | ⟨e1, h1⟩ <;> rcases h2 with h2 | ⟨e2, h2⟩
        · left; omega
        · left; omega
        · left; omega
        · right; exact ⟨by omega, ih h1 h2⟩

theorem bLt_asymm {a b : Bytes} (h : bLt a b = true) : bLt b a = false := by
  cases hb : bLt b a with
  | false => rfl
  | true => have := bLt_trans h hb; rw [bLt_irrefl] at this; cases this

/-- trichotomy -/
theorem bLt_total {a b : Bytes} (h1 : bLt a b = false) (h2 : bLt b a = false) : a = b := by
  induction a generalizing b with
  | nil => cases b with
    | nil => rfl
    | cons y ys => simp [bLt] at h1
  | cons x xs ih => cases b with
    | nil => simp [bLt] at h2
    | cons y ys =>
      simp only [bLt, Bool.or_eq_false_iff, Bool.and_eq_false_iff, decide_eq_false_iff_not] at h1 h2
      have hxy : x.toNat = y.toNat := by omega
      have : x = y := UInt8.toNat_inj.mp hxy
      subst this
      have h1' : bLt xs ys = false := by rcases h1.2 with h | h; exact absurd rfl h; exact h
      have h2' : bLt ys xs = false := by rcases h2.2 with h | h; exact absurd rfl h; exact h
      rw [ih h1' h2']

theorem bLt_ne {a b : Bytes} (h : bLt a b = true) : a ≠ b := by
  intro e; subst e; rw [bLt_irrefl] at h; cases h

/-- `a ≤ b` (i.e. `¬ b < a`) and `b < c` give `a < c` -/
theorem bLe_lt_trans {a b c : Bytes} (h1 : bLt b a = false) (h2 : bLt b c = true) : bLt a c = true := by
  cases hab : bLt a b with
  | true => exact bLt_trans hab h2
  | false => rw [bLt_total hab h1]; exact h2

theorem bLt_le_trans {a b c : Bytes} (h1 : bLt a b = true) (h2 : bLt c b = false) : bLt a c = true := by
  cases hbc : bLt b c with
  | true => exact bLt_trans h1 hbc
  | false => rw [← bLt_total hbc h2]; exact h1

theorem bLe_trans {a b c : Bytes} (h1 : bLt b a = false) (h2 : bLt c b = false) : bLt c a = false := by
  cases h : bLt c a with
  | false => rfl
  | true => have := bLe_lt_trans h2 h; rw [h1] at this; cases this

/-! ### association lookup -/

@[simp] theorem lookup_nil (k : Bytes) : lookup [] k = none := rfl

theorem lookup_cons (x : KV) (l : List KV) (k : Bytes) :
    lookup (x :: l) k = if x.key = k then some x.val else lookup l k := by
  simp [lookup]

theorem lookup_append (a b : List KV) (k : Bytes) : lookup (a ++ b) k = (lookup a k).or (lookup b k) := by
  induction a with
  | nil => simp
  | cons x xs ih =>
    simp only [List.cons_append, lookup_cons]
    split <;> simp [ih]

theorem lookup_eq_none {l : List KV} {k : Bytes} (h : ∀ x ∈ l, x.key ≠ k) : lookup l k = none := by
  induction l with
  | nil => rfl
  | cons x xs ih =>
    rw [lookup_cons, if_neg (h x (by simp))]
    exact ih (fun y hy => h y (by simp [hy]))

theorem lookup_isSome {l : List KV} {k : Bytes} {v : Value} (h : lookup l k = some v) :
    ∃ x ∈ l, x.key = k ∧ x.val = v := by
  induction l with
  | nil => simp at h
  | cons x xs ih =>
    rw [lookup_cons] at h
    split at h
    · exact ⟨x, by simp, by assumption, by simpa using h⟩
    · obtain ⟨y, hy, h1, h2⟩ := ih h
      exact ⟨y, by simp [hy], h1, h2⟩

theorem lookup_head_filter (l : List KV) (k : Bytes) :
    lookup l k = ((l.filter (fun x => x.key == k)).head?).map (·.val) := by
  induction l with
  | nil => rfl
  | cons x xs ih =>
    rw [lookup_cons, List.filter_cons]
    by_cases h : x.key = k <;> simp [h, ih]

theorem lookupLast_filter (l : List KV) (k : Bytes) :
    lookupLast l k = ((l.filter (fun x => x.key == k)).getLast?).map (·.val) := by
  unfold lookupLast
  rw [lookup_head_filter, List.filter_reverse, List.head?_reverse]

theorem lookupLast_append (a b : List KV) (k : Bytes) :
    lookupLast (a ++ b) k = (lookupLast b k).or (lookupLast a k) := by
  simp [lookupLast, lookup_append]

/-! ### sortedness predicates -/

/-- strictly ascending keys -/
def SSorted (l : List KV) : Prop := l.Pairwise (fun a b => bLt a.key b.key = true)
/-- ascending keys (duplicates allowed) -/
def Sorted (l : List KV) : Prop := l.Pairwise (fun a b => bLt b.key a.key = false)

theorem strictSorted_iff (l : List KV) : strictSorted l = true ↔ SSorted l := by
  induction l with
  | nil => simp [strictSorted, SSorted]
  | cons x xs ih =>
    cases xs with
    | nil => simp [strictSorted, SSorted]
    | cons y ys =>
      simp only [strictSorted, Bool.and_eq_true, ih]
      unfold SSorted
      constructor
      · intro ⟨h1, h2⟩
        refine List.pairwise_cons.mpr ⟨?_, h2⟩
        intro z hz
        rcases List.mem_cons.mp hz with e | hz
        · rw [e]; exact h1
        · exact bLt_trans h1 ((List.pairwise_cons.mp h2).1 z hz)
      · intro h
        have h' := List.pairwise_cons.mp h
        exact ⟨h'.1 y (by simp), h'.2⟩

theorem SSorted.sorted {l : List KV} (h : SSorted l) : Sorted l :=
  List.Pairwise.imp (fun h => bLt_asymm h) h

theorem SSorted.tail {x : KV} {l : List KV} (h : SSorted (x :: l)) : SSorted l :=
  (List.pairwise_cons.mp h).2

theorem SSorted.head_lt {x : KV} {l : List KV} (h : SSorted (x :: l)) : ∀ y ∈ l, bLt x.key y.key = true :=
  (List.pairwise_cons.mp h).1

theorem SSorted.lookup_tail_none {x : KV} {l : List KV} (h : SSorted (x :: l)) : lookup l x.key = none :=
  lookup_eq_none (fun y hy e => bLt_ne (h.head_lt y hy) e.symm)

theorem SSorted.filter {l : List KV} (h : SSorted l) (p : KV → Bool) : SSorted (l.filter p) :=
  List.Pairwise.sublist List.filter_sublist h

/-- a strictly sorted list is determined by its lookup function, for any identity `r` on values -/
theorem relList_of_lookup (r : Value → Value → Bool) :
    ∀ (a b : List KV), SSorted a → SSorted b →
      (∀ k, optRel r (lookup a k) (lookup b k) = true) → relList r a b = true
  | [], [], _, _, _ => rfl
  | [], y :: b, _, _, h => by
    have := h y.key; simp [lookup_cons, optRel] at this
  | x :: a, [], _, _, h => by
    have := h x.key; simp [lookup_cons, optRel] at this
  | x :: a, y :: b, ha, hb, h => by
    have hx := h x.key
    have hy := h y.key
    simp only [lookup_cons, if_true] at hx hy
    have hkey : x.key = y.key := by
      apply bLt_total
      · -- ¬ x.key < y.key : otherwise x.key is not bound in y :: b
        cases hlt : bLt x.key y.key with
        | false => rfl
        | true =>
          have : lookup b x.key = none :=
            lookup_eq_none (fun z hz e => bLt_ne (bLt_trans hlt (hb.head_lt z hz)) e.symm)
          rw [if_neg (fun e => bLt_ne hlt e.symm), this] at hx
          simp [optRel] at hx
      · cases hlt : bLt y.key x.key with
        | false => rfl
        | true =>
          have : lookup a y.key = none :=
            lookup_eq_none (fun z hz e => bLt_ne (bLt_trans hlt (ha.head_lt z hz)) e.symm)
          rw [if_neg (fun e => bLt_ne hlt e.symm), this] at hy
          simp [optRel] at hy
    rw [if_pos hkey.symm] at hx
    simp only [optRel] at hx
    have htl : ∀ k, optRel r (lookup a k) (lookup b k) = true := by
      intro k
      by_cases hk : x.key = k
      · subst hk
        rw [ha.lookup_tail_none, hkey, hb.lookup_tail_none]; rfl
      · have := h k
        rw [lookup_cons, lookup_cons, if_neg hk, if_neg (hkey ▸ hk)] at this
        exact this
    simp only [relList, Bool.and_eq_true, beq_iff_eq]
    exact ⟨⟨hkey, hx⟩, relList_of_lookup r a b ha.tail hb.tail htl⟩

theorem lookup_of_relList (r : Value → Value → Bool) :
    ∀ (a b : List KV), relList r a b = true → ∀ k, optRel r (lookup a k) (lookup b k) = true
  | [], [], _, _ => rfl
  | [], _ :: _, h, _ => by simp [relList] at h
  | _ :: _, [], h, _ => by simp [relList] at h
  | x :: a, y :: b, h, k => by
    simp only [relList, Bool.and_eq_true, beq_iff_eq] at h
    rw [lookup_cons, lookup_cons, ← h.1.1]
    split
    · exact h.1.2
    · exact lookup_of_relList r a b h.2 k

theorem relList_beq_iff (a b : List KV) : relList (fun v w => v == w) a b = true ↔ a = b := by
  induction a generalizing b with
  | nil => cases b <;> simp [relList]
  | cons x xs ih =>
    cases b with
    | nil => simp [relList]
    | cons y ys =>
      simp only [relList, Bool.and_eq_true, beq_iff_eq, ih, List.cons.injEq]
      constructor
      · intro ⟨⟨h1, h2⟩, h3⟩
        refine ⟨?_, h3⟩
        cases x; cases y; simp_all
      · intro ⟨h1, h2⟩
        subst h1
        exact ⟨⟨rfl, rfl⟩, h2⟩

theorem optRel_beq_iff (a b : Option Value) : optRel (fun v w => v == w) a b = true ↔ a = b := by
  cases a <;> cases b <;> simp [optRel]

/-- a strictly sorted list is determined by its lookup function -/
theorem eq_of_lookup_eq {a b : List KV} (ha : SSorted a) (hb : SSorted b)
    (h : ∀ k, lookup a k = lookup b k) : a = b :=
  (relList_beq_iff a b).mp (relList_of_lookup _ a b ha hb (fun k => (optRel_beq_iff _ _).mpr (h k)))

/-! ### the stable sort -/

theorem insertKV_perm (x : KV) (l : List KV) : (insertKV x l).Perm (x :: l) := by
  induction l with
  | nil => exact List.Perm.refl _
  | cons y ys ih =>
    unfold insertKV
    split
    · exact ((List.Perm.cons y ih).trans (List.Perm.swap x y ys))
    · exact List.Perm.refl _

theorem sortStable_perm (l : List KV) : (sortStable l).Perm l := by
  induction l with
  | nil => exact List.Perm.refl _
  | cons x xs ih => exact (insertKV_perm x _).trans (List.Perm.cons x ih)

theorem insertKV_sorted (x : KV) (l : List KV) (h : Sorted l) : Sorted (insertKV x l) := by
  induction l with
  | nil => simp [insertKV, Sorted]
  | cons y ys ih =>
    unfold insertKV
    have hy := List.pairwise_cons.mp h
    split
    next hlt =>
      refine List.pairwise_cons.mpr ⟨?_, ih hy.2⟩
      intro z hz
      rcases List.mem_cons.mp ((insertKV_perm x ys).mem_iff.mp hz) with e | hz
      · rw [e]; exact bLt_asymm hlt
      · exact hy.1 z hz
    next hge =>
      refine List.pairwise_cons.mpr ⟨?_, h⟩
      intro z hz
      have hge' : bLt y.key x.key = false := by simpa using hge
      rcases List.mem_cons.mp hz with e | hz
      · rw [e]; exact hge'
      · exact bLe_trans hge' (hy.1 z hz)

theorem sortStable_sorted (l : List KV) : Sorted (sortStable l) := by
  induction l with
  | nil => simp [sortStable, Sorted]
  | cons x xs ih => exact insertKV_sorted x _ ih

/-- stability: the elements with a given key keep their relative order -/
theorem insertKV_filter (x : KV) (l : List KV) (k : Bytes) :
    (insertKV x l).filter (fun z => z.key == k) = (x :: l).filter (fun z => z.key == k) := by
  induction l with
  | nil => rfl
  | cons y ys ih =>
    unfold insertKV
    split
    next hlt =>
      have hne : y.key ≠ x.key := bLt_ne hlt
      rw [List.filter_cons, ih]
      by_cases hx : x.key = k
      · have hy : ¬ y.key = k := fun e => hne (e.trans hx.symm)
        simp [hx, hy]
      · simp [List.filter_cons, hx]
    next => rfl

theorem sortStable_filter (l : List KV) (k : Bytes) :
    (sortStable l).filter (fun z => z.key == k) = l.filter (fun z => z.key == k) := by
  induction l with
  | nil => rfl
  | cons x xs ih =>
    simp only [sortStable]
    rw [insertKV_filter, List.filter_cons, List.filter_cons, ih]

theorem lookupLast_sortStable (l : List KV) (k : Bytes) : lookupLast (sortStable l) k = lookupLast l k := by
  rw [lookupLast_filter, lookupLast_filter, sortStable_filter]

/-! ### the two in-place loops -/

theorem rotR_perm {α : Type} (l : List α) : (rotR l).Perm l := by
  unfold rotR
  cases h : l.getLast? with
  | none => rw [List.getLast?_eq_none_iff.mp h]
  | some y =>
    have hne : l ≠ [] := by intro e; simp [e] at h
    have hy : l.getLast hne = y := by
      have := List.getLast?_eq_some_getLast hne
      rw [this] at h; exact Option.some.inj h
    have := List.dropLast_concat_getLast hne
    rw [hy] at this
    conv => rhs; rw [← this]
    exact (List.perm_append_comm (l₁ := [y]) (l₂ := l.dropLast))

/-- the part of the de-dup loop that decides which elements stay: the middle region plays no role -/
def loopW : List KV → KV → List KV → List KV
  | [], w, ws => w :: ws
  | x :: revA, w, ws => if x.key == w.key then loopW revA w ws else loopW revA x (w :: ws)

theorem dedupLoop_snd (revA m : List KV) (w : KV) (ws : List KV) :
    (dedupLoop revA m w ws).2 = loopW revA w ws := by
  induction revA generalizing m w ws with
  | nil => rfl
  | cons x r ih =>
    unfold dedupLoop loopW
    split <;> exact ih ..

theorem dedupLoop_perm (revA m : List KV) (w : KV) (ws : List KV) :
    ((dedupLoop revA m w ws).1 ++ (dedupLoop revA m w ws).2).Perm (revA.reverse ++ (m ++ w :: ws)) := by
  induction revA generalizing m w ws with
  | nil => simp [dedupLoop]
  | cons x r ih =>
    unfold dedupLoop
    split
    · refine (ih ..).trans ?_
      simp
    · refine (ih ..).trans ?_
      simp only [List.reverse_cons, List.append_assoc, List.singleton_append]
      refine List.Perm.append_left _ ?_
      -- rotR m ++ x :: w :: ws  ~  x :: (m ++ w :: ws)
      refine (List.Perm.append_right _ (rotR_perm m)).trans ?_
      exact List.perm_middle

/-- descending (reversed ascending) list -/
def SortedDesc (l : List KV) : Prop := l.Pairwise (fun a b => bLt a.key b.key = false)

theorem loopW_lookup (revA : List KV) (w : KV) (ws : List KV) (hd : SortedDesc (w :: revA)) (k : Bytes) :
    lookup (loopW revA w ws) k = (lookup (w :: revA) k).or (lookup ws k) := by
  induction revA generalizing w ws with
  | nil => simp [loopW, lookup_cons]; split <;> simp
  | cons x r ih =>
    have hd' := List.pairwise_cons.mp hd
    have hxr : SortedDesc (x :: r) := hd'.2
    have hwr : SortedDesc (w :: r) :=
      List.pairwise_cons.mpr ⟨fun z hz => hd'.1 z (by simp [hz]), (List.pairwise_cons.mp hxr).2⟩
    unfold loopW
    split
    next he =>
      have he' : x.key = w.key := by simpa using he
      rw [ih w ws hwr]
      simp only [lookup_cons, he']
      split <;> rfl
    next hne =>
      have hne' : x.key ≠ w.key := by simpa using hne
      rw [ih x (w :: ws) hxr]
      -- every key of x :: r is strictly below w.key
      have hxw : bLt x.key w.key = true := by
        cases h : bLt x.key w.key with
        | true => rfl
        | false => exact absurd (bLt_total h (hd'.1 x (by simp))) hne'
      by_cases hk : w.key = k
      · have hnone : lookup (x :: r) k = none := by
          apply lookup_eq_none
          intro z hz e
          have hzx : bLt z.key w.key = true := by
            rcases List.mem_cons.mp hz with e1 | hz
            · rw [e1]; exact hxw
            · exact bLe_lt_trans ((List.pairwise_cons.mp hxr).1 z hz) hxw
          exact bLt_ne hzx (e.trans hk.symm)
        rw [hnone]
        simp [lookup_cons, hk]
      · simp only [lookup_cons (x := w), if_neg hk]

theorem loopW_ssorted (revA : List KV) (w : KV) (ws : List KV) (hd : SortedDesc (w :: revA))
    (hs : SSorted (w :: ws)) : SSorted (loopW revA w ws) := by
  induction revA generalizing w ws with
  | nil => exact hs
  | cons x r ih =>
    have hd' := List.pairwise_cons.mp hd
    have hxr : SortedDesc (x :: r) := hd'.2
    have hwr : SortedDesc (w :: r) :=
      List.pairwise_cons.mpr ⟨fun z hz => hd'.1 z (by simp [hz]), (List.pairwise_cons.mp hxr).2⟩
    unfold loopW
    split
    · exact ih w ws hwr hs
    next hne =>
      have hne' : x.key ≠ w.key := by simpa using hne
      have hxw : bLt x.key w.key = true := by
        cases h : bLt x.key w.key with
        | true => rfl
        | false => exact absurd (bLt_total h (hd'.1 x (by simp))) hne'
      apply ih x (w :: ws) hxr
      refine List.pairwise_cons.mpr ⟨?_, hs⟩
      intro z hz
      rcases List.mem_cons.mp hz with e | hz
      · rw [e]; exact hxw
      · exact bLt_trans hxw (hs.head_lt z hz)

theorem sortedDesc_reverse {l : List KV} (h : Sorted l) : SortedDesc l.reverse := by
  unfold SortedDesc
  rw [List.pairwise_reverse]
  exact h

/-- what `filteredToFront` leaves in the two regions -/
theorem ftfLoop_spec (keep : KV → Bool) (revA d k : List KV) :
    (ftfLoop keep revA d k).2 = revA.reverse.filter keep ++ k ∧
    (ftfLoop keep revA d k).1.Perm (revA.reverse.filter (fun x => !keep x) ++ d) := by
  induction revA generalizing d k with
  | nil => simp [ftfLoop]
  | cons x r ih =>
    unfold ftfLoop
    split
    next hk =>
      obtain ⟨h1, h2⟩ := ih (rotR d) (x :: k)
      refine ⟨?_, ?_⟩
      · rw [h1]; simp [List.filter_append, hk]
      · refine h2.trans ?_
        simp only [List.reverse_cons, List.filter_append, List.filter_cons, hk]
        simpa using List.Perm.append_left _ (rotR_perm d)
    next hk =>
      obtain ⟨h1, h2⟩ := ih (x :: d) k
      refine ⟨?_, ?_⟩
      · rw [h1]; simp [List.filter_append, hk]
      · refine h2.trans ?_
        simp [List.filter_append, hk]

theorem filteredToFront_snd (keep : KV → Bool) (l : List KV) : (filteredToFront keep l).2 = l.filter keep := by
  have := (ftfLoop_spec keep l.reverse [] []).1
  simpa [filteredToFront] using this

theorem filteredToFront_fst (keep : KV → Bool) (l : List KV) :
    (filteredToFront keep l).1.Perm (l.filter (fun x => !keep x)) := by
  have := (ftfLoop_spec keep l.reverse [] []).2
  simpa [filteredToFront] using this

/-! ### the reference canonical form -/

theorem mem_upsert {kv z : KV} {m : List KV} (h : z ∈ upsert kv m) : z = kv ∨ z ∈ m := by
  induction m with
  | nil => simp [upsert] at h; exact Or.inl h
  | cons y ys ih =>
    unfold upsert at h
    split at h
    · rcases List.mem_cons.mp h with e | h
      · exact Or.inl e
      · exact Or.inr h
    · split at h
      · rcases List.mem_cons.mp h with e | h
        · exact Or.inl e
        · exact Or.inr (by simp [h])
      · rcases List.mem_cons.mp h with e | h
        · exact Or.inr (by simp [e])
        · rcases ih h with e | h
          · exact Or.inl e
          · exact Or.inr (by simp [h])

theorem upsert_ssorted (kv : KV) (m : List KV) (h : SSorted m) : SSorted (upsert kv m) := by
  induction m with
  | nil => simp [upsert, SSorted]
  | cons y ys ih =>
    unfold upsert
    split
    next hlt =>
      refine List.pairwise_cons.mpr ⟨?_, h⟩
      intro z hz
      rcases List.mem_cons.mp hz with e | hz
      · rw [e]; exact hlt
      · exact bLt_trans hlt (h.head_lt z hz)
    next hge =>
      split
      next he =>
        have he' : kv.key = y.key := by simpa using he
        refine List.pairwise_cons.mpr ⟨?_, h.tail⟩
        intro z hz
        rw [he']; exact h.head_lt z hz
      next hne =>
        have hne' : kv.key ≠ y.key := by simpa using hne
        have hge' : bLt kv.key y.key = false := by simpa using hge
        have hyk : bLt y.key kv.key = true := by
          cases hh : bLt y.key kv.key with
          | true => rfl
          | false => exact absurd (bLt_total hge' hh) hne'
        refine List.pairwise_cons.mpr ⟨?_, ih h.tail⟩
        intro z hz
        rcases mem_upsert hz with e | hz
        · rw [e]; exact hyk
        · exact h.head_lt z hz

theorem lookup_upsert (kv : KV) (m : List KV) (h : SSorted m) (k : Bytes) :
    lookup (upsert kv m) k = if kv.key = k then some kv.val else lookup m k := by
  induction m with
  | nil => simp [upsert, lookup_cons]
  | cons y ys ih =>
    unfold upsert
    split
    next hlt => simp [lookup_cons]
    next hge =>
      split
      next he =>
        have he' : kv.key = y.key := by simpa using he
        simp only [lookup_cons, ← he']
        split <;> rfl
      next hne =>
        have hne' : kv.key ≠ y.key := by simpa using hne
        rw [lookup_cons, ih h.tail, lookup_cons]
        by_cases hy : y.key = k
        · have : ¬ kv.key = k := fun e => hne' (e.trans hy.symm)
          simp [hy, this]
        · simp [hy]

theorem foldl_upsert_spec (kvs acc : List KV) (h : SSorted acc) :
    SSorted (kvs.foldl (fun m kv => upsert kv m) acc) ∧
    ∀ k, lookup (kvs.foldl (fun m kv => upsert kv m) acc) k = (lookupLast kvs k).or (lookup acc k) := by
  induction kvs generalizing acc with
  | nil => exact ⟨h, fun k => by simp [lookupLast]⟩
  | cons x xs ih =>
    obtain ⟨h1, h2⟩ := ih (upsert x acc) (upsert_ssorted x acc h)
    refine ⟨h1, fun k => ?_⟩
    simp only [List.foldl_cons]
    rw [h2 k, lookup_upsert x acc h]
    have : lookupLast (x :: xs) k = (lookupLast xs k).or (lookupLast [x] k) := by
      have := lookupLast_append [x] xs k
      simpa using this
    rw [this]
    simp only [lookupLast, List.reverse_cons, List.reverse_nil, List.nil_append, lookup_cons, lookup_nil]
    split <;> simp

theorem canon_ssorted (kvs : List KV) : SSorted (canon kvs) :=
  (foldl_upsert_spec kvs [] (by simp [SSorted])).1

theorem lookup_canon (kvs : List KV) (k : Bytes) : lookup (canon kvs) k = lookupLast kvs k := by
  have := (foldl_upsert_spec kvs [] (by simp [SSorted])).2 k
  simpa [canon] using this

/-- a strictly sorted list binds each key at most once: the last binding is the first -/
theorem lookupLast_eq_lookup {s : List KV} (hs : SSorted s) (k : Bytes) : lookupLast s k = lookup s k := by
  rw [lookupLast_filter, lookup_head_filter]
  induction s with
  | nil => rfl
  | cons x xs ih =>
    by_cases hx : x.key = k
    · have : xs.filter (fun z => z.key == k) = [] := by
        apply List.filter_eq_nil_iff.mpr
        intro z hz
        have := bLt_ne (hs.head_lt z hz)
        simp only [beq_iff_eq]
        exact fun e => this (hx.trans e.symm)
      simp [hx, this]
    · simp only [List.filter_cons, beq_iff_eq, hx, if_false]
      exact ih hs.tail

/-- the canonical form of a strictly sorted list is the list itself -/
theorem canon_of_ssorted {s : List KV} (hs : SSorted s) : canon s = s :=
  eq_of_lookup_eq (canon_ssorted s) hs (fun k => by rw [lookup_canon, lookupLast_eq_lookup hs])

/-! ### `Set.Filter` -/

theorem splitLastDropped_none {re : KV → Bool} {s : List KV} (h : splitLastDropped re s = none) :
    ∀ x ∈ s, re x = true := by
  induction s with
  | nil => simp
  | cons x r ih =>
    unfold splitLastDropped at h
    split at h
    · cases h
    next hr =>
      split at h
      next hx =>
        intro z hz
        rcases List.mem_cons.mp hz with e | hz
        · rw [e]; exact hx
        · exact ih hr z hz
      · cases h

theorem splitLastDropped_some {re : KV → Bool} {s pre suf : List KV} {kv : KV}
    (h : splitLastDropped re s = some (pre, kv, suf)) :
    s = pre ++ kv :: suf ∧ re kv = false ∧ ∀ x ∈ suf, re x = true := by
  induction s generalizing pre with
  | nil => simp [splitLastDropped] at h
  | cons x r ih =>
    unfold splitLastDropped at h
    split at h
    next pre' kv' suf' hr =>
      simp only [Option.some.injEq, Prod.mk.injEq] at h
      obtain ⟨h1, h2, h3⟩ := h
      subst h1 h2 h3
      obtain ⟨e, h2, h3⟩ := ih hr
      exact ⟨by rw [e]; rfl, h2, h3⟩
    next hr =>
      split at h
      · cases h
      next hx =>
        simp only [Option.some.injEq, Prod.mk.injEq] at h
        obtain ⟨h1, h2, h3⟩ := h
        subst h1 h2 h3
        exact ⟨rfl, by simpa using hx, splitLastDropped_none hr⟩

/-! ### Go `==` on values -/

theorem listRel_ieeeEq_refl (l : List UInt64) : listRel ieeeEq l l = !l.any isNaN := by
  induction l with
  | nil => rfl
  | cons x xs ih =>
    simp only [listRel, ih, List.any_cons, ieeeEq]
    cases isNaN x <;> simp

theorem goEq_refl (v : Value) : goEq v v = !valHasNaN v := by
  cases v <;> simp [goEq, valHasNaN, listRel_ieeeEq_refl]

theorem relList_goEq_refl (s : List KV) : relList goEq s s = !F9_applies s := by
  induction s with
  | nil => rfl
  | cons x xs ih =>
    simp only [relList, ih, F9_applies, List.any_cons, goEq_refl, beq_self_eq_true, Bool.true_and]
    cases valHasNaN x.val <;> simp

/-! ### `sort.Search` and `Set.Value` -/

theorem searchAux_spec (f : Nat → Bool) (n : Nat)
    (hmono : ∀ i j, i ≤ j → j < n → f i = true → f j = true)
    (fuel i j : Nat) (hij : i ≤ j) (hjn : j ≤ n) (hfuel : j - i ≤ fuel)
    (hlo : ∀ t, t < i → f t = false) (hhi : ∀ t, j ≤ t → t < n → f t = true) :
    searchAux f fuel i j ≤ n ∧ (∀ t, t < searchAux f fuel i j → f t = false) ∧
      (∀ t, searchAux f fuel i j ≤ t → t < n → f t = true) := by
  induction fuel generalizing i j with
  | zero =>
    have : i = j := by omega
    subst this
    exact ⟨hjn, hlo, hhi⟩
  | succ fuel ih =>
    unfold searchAux
    by_cases hlt : i < j
    · simp only [hlt, if_true]
      have hh1 : i ≤ (i + j) / 2 := by omega
      have hh2 : (i + j) / 2 < j := by omega
      cases hf : f ((i + j) / 2) with
      | false =>
        simp only [Bool.not_false, if_true]
        apply ih (i := (i + j) / 2 + 1) (j := j) (by omega) hjn (by omega) _ hhi
        intro t ht
        cases hft : f t with
        | false => rfl
        | true =>
          have := hmono t ((i + j) / 2) (by omega) (by omega) hft
          rw [hf] at this; cases this
      | true =>
        simp only [Bool.not_true, Bool.false_eq_true, if_false]
        apply ih (i := i) (j := (i + j) / 2) hh1 (by omega) (by omega) hlo
        intro t ht htn
        exact hmono _ t ht htn hf
    · simp only [hlt, if_false]
      have : i = j := by omega
      subst this
      exact ⟨hjn, hlo, hhi⟩

/-- the predicate handed to `sort.Search` by `Set.Value` -/
def keyGE (s : List KV) (k : Bytes) (i : Nat) : Bool :=
  match s[i]? with
  | some kv => !bLt kv.key k
  | none => true

theorem keyGE_mono {s : List KV} (hs : SSorted s) (k : Bytes) :
    ∀ i j, i ≤ j → j < s.length → keyGE s k i = true → keyGE s k j = true := by
  intro i j hij hj hi
  have hi' : i < s.length := by omega
  unfold keyGE at hi ⊢
  rw [List.getElem?_eq_getElem hi'] at hi
  rw [List.getElem?_eq_getElem hj]
  simp only [Bool.not_eq_true'] at hi ⊢
  by_cases e : i = j
  · subst e; exact hi
  · have hlt : bLt s[i].key s[j].key = true :=
      (List.pairwise_iff_getElem.mp hs) i j hi' hj (by omega)
    cases h : bLt s[j].key k with
    | false => rfl
    | true => have := bLt_trans hlt h; rw [hi] at this; cases this

theorem value_eq_lookup {s : List KV} (hs : SSorted s) (k : Bytes) : value s k = lookup s k := by
  have hsp := searchAux_spec (keyGE s k) s.length (keyGE_mono hs k) s.length 0 s.length
    (Nat.zero_le _) (Nat.le_refl _) (by omega) (fun t ht => by omega) (fun t h1 h2 => by omega)
  have hval : value s k = match s[search s.length (keyGE s k)]? with
      | some kv => if kv.key == k then some kv.val else none
      | none => none := rfl
  rw [hval]
  unfold search
  generalize searchAux (keyGE s k) s.length 0 s.length = r at hsp
  obtain ⟨_, hlo, hhi⟩ := hsp
  have hsplit : lookup s k = (lookup (s.take r) k).or (lookup (s.drop r) k) := by
    rw [← lookup_append, List.take_append_drop]
  have htake : lookup (s.take r) k = none := by
    apply lookup_eq_none
    intro x hx e
    obtain ⟨i, hi, hxi⟩ := List.mem_take_iff_getElem.mp hx
    have hil : i < s.length := by omega
    have := hlo i (by omega)
    unfold keyGE at this
    rw [List.getElem?_eq_getElem hil, hxi] at this
    simp only [e, bLt_irrefl] at this
    cases this
  rw [hsplit, htake, Option.none_or]
  by_cases hr : r < s.length
  · rw [List.getElem?_eq_getElem hr, List.drop_eq_getElem_cons hr, lookup_cons]
    have hge := hhi r (Nat.le_refl _) hr
    unfold keyGE at hge
    rw [List.getElem?_eq_getElem hr] at hge
    simp only [Bool.not_eq_true'] at hge
    by_cases e : s[r].key = k
    · simp [e]
    · have hgt : bLt k s[r].key = true := by
        cases h : bLt k s[r].key with
        | true => rfl
        | false => exact absurd (bLt_total hge h) e
      have hsd : SSorted (s.drop r) := List.Pairwise.sublist (List.drop_sublist r s) hs
      rw [List.drop_eq_getElem_cons hr] at hsd
      have : lookup (s.drop (r + 1)) k = none :=
        lookup_eq_none (fun z hz ez => bLt_ne (bLt_trans hgt (hsd.head_lt z hz)) ez.symm)
      simp [e, this]
  · have : s.length ≤ r := by omega
    rw [List.getElem?_eq_none this, List.drop_eq_nil_of_le this]
    rfl

/-! ### `MergeIterator` -/

theorem mem_mergeAux {f : Nat} {a b : List KV} {z : KV} (h : z ∈ mergeAux f a b) : z ∈ a ∨ z ∈ b := by
  induction f generalizing a b with
  | zero => simp [mergeAux] at h
  | succ f ih =>
    cases a with
    | nil => simp [mergeAux] at h; exact Or.inr h
    | cons x a =>
      cases b with
      | nil => simp [mergeAux] at h; exact Or.inl (by simpa using h)
      | cons y b =>
        simp only [mergeAux] at h
        split at h
        · rcases List.mem_cons.mp h with e | h
          · exact Or.inl (by simp [e])
          · rcases ih h with h | h
            · exact Or.inl (by simp [h])
            · exact Or.inr (by simp [h])
        · split at h
          · rcases List.mem_cons.mp h with e | h
            · exact Or.inl (by simp [e])
            · rcases ih h with h | h
              · exact Or.inl (by simp [h])
              · exact Or.inr h
          · rcases List.mem_cons.mp h with e | h
            · exact Or.inr (by simp [e])
            · rcases ih h with h | h
              · exact Or.inl h
              · exact Or.inr (by simp [h])

theorem mergeAux_spec (f : Nat) (a b : List KV) (hf : a.length + b.length < f)
    (ha : SSorted a) (hb : SSorted b) :
    SSorted (mergeAux f a b) ∧ ∀ k, lookup (mergeAux f a b) k = (lookup a k).or (lookup b k) := by
  induction f generalizing a b with
  | zero => omega
  | succ f ih =>
    cases a with
    | nil => simp [mergeAux, hb]
    | cons x a =>
      cases b with
      | nil => simp [mergeAux, ha]
      | cons y b =>
        simp only [List.length_cons] at hf
        simp only [mergeAux]
        split
        next he =>
          have he' : x.key = y.key := by simpa using he
          obtain ⟨h1, h2⟩ := ih a b (by omega) ha.tail hb.tail
          refine ⟨List.pairwise_cons.mpr ⟨?_, h1⟩, fun k => ?_⟩
          · intro z hz
            rcases mem_mergeAux hz with hz | hz
            · exact ha.head_lt z hz
            · rw [he']; exact hb.head_lt z hz
          · rw [lookup_cons, h2, lookup_cons, lookup_cons, ← he']
            split <;> simp
        next hne =>
          have hne' : x.key ≠ y.key := by simpa using hne
          split
          next hlt =>
            obtain ⟨h1, h2⟩ := ih a (y :: b) (by simp only [List.length_cons]; omega) ha.tail hb
            refine ⟨List.pairwise_cons.mpr ⟨?_, h1⟩, fun k => ?_⟩
            · intro z hz
              rcases mem_mergeAux hz with hz | hz
              · exact ha.head_lt z hz
              · rcases List.mem_cons.mp hz with e | hz
                · rw [e]; exact hlt
                · exact bLt_trans hlt (hb.head_lt z hz)
            · rw [lookup_cons, h2, lookup_cons (x := x)]
              split <;> simp
          next hge =>
            have hge' : bLt x.key y.key = false := by simpa using hge
            have hyx : bLt y.key x.key = true := by
              cases h : bLt y.key x.key with
              | true => rfl
              | false => exact absurd (bLt_total hge' h) hne'
            obtain ⟨h1, h2⟩ := ih (x :: a) b (by simp only [List.length_cons]; omega) ha hb.tail
            refine ⟨List.pairwise_cons.mpr ⟨?_, h1⟩, fun k => ?_⟩
            · intro z hz
              rcases mem_mergeAux hz with hz | hz
              · rcases List.mem_cons.mp hz with e | hz
                · rw [e]; exact hyx
                · exact bLt_trans hyx (ha.head_lt z hz)
              · exact hb.head_lt z hz
            · rw [lookup_cons, h2, lookup_cons (x := y)]
              by_cases hk : y.key = k
              · -- k = y.key is below every key of x :: a
                have : lookup (x :: a) k = none := by
                  apply lookup_eq_none
                  intro z hz e
                  have hlt : bLt y.key z.key = true := by
                    rcases List.mem_cons.mp hz with e1 | hz
                    · rw [e1]; exact hyx
                    · exact bLt_trans hyx (ha.head_lt z hz)
                  exact bLt_ne hlt (hk.trans e.symm)
                simp [hk, this]
              · simp [hk]

end C05
end Otel
