/-
C05 — specification: what an attribute set must be, independent of how `set.go` computes it.
Reference semantics = ordered association list (`canon`, built by ordered upsert = "last value
wins"), association lookup, multiset (permutation) conservation.  All predicates are Bool-valued:
they are the conclusions of the theorems in Props.lean *and* the oracle the driver evaluates on
what the real code returned.
-/
import Otel.C05.Model
namespace Otel
namespace C05
namespace Spec

/-- association lookup: first binding of `k` -/
def lookup : List KV → Bytes → Option Value
  | [], _ => none
  | kv :: r, k => if kv.key == k then some kv.val else lookup r k

/-- the mapping a list of key-values denotes: the value supplied LAST for `k` -/
def lookupLast (kvs : List KV) (k : Bytes) : Option Value := lookup kvs.reverse k

/-- strictly ascending keys (sorted, each key once) -/
def strictSorted : List KV → Bool
  | [] => true
  | [_] => true
  | x :: y :: r => bLt x.key y.key && strictSorted (y :: r)

/-- ordered upsert: replace the binding of `kv.key` or insert it at its sorted place -/
def upsert (kv : KV) : List KV → List KV
  | [] => [kv]
  | y :: ys =>
    if bLt kv.key y.key then kv :: y :: ys
    else if kv.key == y.key then kv :: ys
    else y :: upsert kv ys

/-- canonical form of the last-wins mapping of `kvs` -/
def canon (kvs : List KV) : List KV := kvs.foldl (fun m kv => upsert kv m) []

def keys (l : List KV) : List Bytes := l.map (·.key)

def keepOf (filter : Option (KV → Bool)) : KV → Bool := filter.getD (fun _ => true)

/-- `NewSetWithFiltered(kvs, filter) = (set, dropped)`, caller's slice afterwards `after`:
the set is the kept part of the canonical form, `dropped` the rest of it, the caller's slice is a
permutation of the input whose tail is `dropped ++ set` (so superseded duplicates are in front). -/
def newSetOK (kvs : List KV) (filter : Option (KV → Bool)) (set dropped after : List KV) : Bool :=
  strictSorted set &&
  set == (canon kvs).filter (keepOf filter) &&
  dropped.isPerm ((canon kvs).filter (fun kv => !keepOf filter kv)) &&
  after.isPerm kvs &&
  after.drop (after.length - (dropped.length + set.length)) == dropped ++ set

/-- `s.Filter(re) = (kept, dropped)` and `s` reads `sAfter` afterwards -/
def filterOK (s : List KV) (re : Option (KV → Bool)) (kept dropped sAfter : List KV) : Bool :=
  kept == s.filter (keepOf re) &&
  dropped.isPerm (s.filter (fun kv => !keepOf re kv)) &&
  (kept ++ dropped).isPerm s &&
  sAfter == s

/-- the representation's identity on optional values -/
def optRel (r : Value → Value → Bool) : Option Value → Option Value → Bool
  | none, none => true
  | some v, some w => r v w
  | _, _ => false

/-- same key ↦ value mapping w.r.t. a value identity `r`, checked on every key that occurs -/
def sameMapping (r : Value → Value → Bool) (a b : List KV) : Bool :=
  (keys a ++ keys b).all (fun k => optRel r (lookup a k) (lookup b k))

/-- merged iteration: sorted union, the first set's binding on shared keys -/
def mergeOK (a b out : List KV) : Bool :=
  strictSorted out &&
  (keys a ++ keys b ++ keys out).all (fun k => lookup out k == (lookup a k).or (lookup b k))

/-- reference for the default encoding: escaped `key=value` items joined by `,` -/
def encodeRef (emit : Value → Bytes) (s : List KV) : Bytes :=
  (s.map (encodeItem emit)).intersperse [0x2C] |>.flatten

/-- **results are stable**: what a call returned (Sets, dropped slices, the caller's slice, merged
lists, looked-up values) reads the same after any later calls as it did when it was returned -/
def resultsStable (atReturn atEnd : List (List (List KV))) : Bool := atReturn == atEnd

end Spec
end C05
end Otel
