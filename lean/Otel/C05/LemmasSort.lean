/-
C05 — lemmas about the model of `slices.SortStableFunc` (Model.goSortStable): uniqueness of the
stable sort, the insertion-sort phase, the merge rounds.
-/
import Otel.C05.Lemmas
namespace Otel.C05
open Otel Otel.C05.Spec

abbrev byKey (k : Bytes) : KV → Bool := fun z => z.key == k

theorem sorted_head_le {x : KV} {l : List KV} (h : Sorted (x :: l)) : ∀ z ∈ l, bLt z.key x.key = false :=
  (List.pairwise_cons.mp h).1
theorem sorted_tail {x : KV} {l : List KV} (h : Sorted (x :: l)) : Sorted l := (List.pairwise_cons.mp h).2

private theorem head_key_eq {x y : KV} {a b : List KV} (ha : Sorted (x :: a))
    (h : ∀ k, (x :: a).filter (byKey k) = (y :: b).filter (byKey k)) (hlt : bLt y.key x.key = true) : False := by
  have hy : y ∈ (y :: b).filter (byKey y.key) := by simp [byKey]
  rw [← h y.key] at hy
  have hm := (List.mem_filter.mp hy).1
  rcases List.mem_cons.mp hm with e | hm'
  · rw [e, bLt_irrefl] at hlt; cases hlt
  · have := sorted_head_le ha _ hm'
    rw [hlt] at this; cases this

/-- two lists sorted by key in which, for every key, the elements with that key occur in the same
order are equal -/
theorem sorted_filter_unique {a b : List KV} (ha : Sorted a) (hb : Sorted b)
    (h : ∀ k, a.filter (byKey k) = b.filter (byKey k)) : a = b := by
  induction a generalizing b with
  | nil =>
    cases b with
    | nil => rfl
    | cons y b' =>
      have := h y.key
      simp [byKey] at this
  | cons x a' ih =>
    cases b with
    | nil =>
      have := h x.key
      simp [byKey] at this
    | cons y b' =>
      have hkey : x.key = y.key := by
        apply bLt_total
        · cases hc : bLt x.key y.key with
          | false => rfl
          | true => exact (head_key_eq hb (fun k => (h k).symm) hc).elim
        · cases hc : bLt y.key x.key with
          | false => rfl
          | true => exact (head_key_eq ha h hc).elim
      have h0 := h x.key
      simp only [List.filter_cons, byKey, beq_self_eq_true, if_true, hkey] at h0
      rw [← hkey] at h0
      simp only [hkey] at h0
      obtain ⟨hxy, ht⟩ := List.cons.inj h0
      subst hxy
      congr 1
      apply ih (sorted_tail ha) (sorted_tail hb)
      intro k
      by_cases hk : x.key = k
      · subst hk; exact ht
      · have := h k
        simpa [List.filter_cons, byKey, hk] using this

theorem sortStable_of_sorted {l : List KV} (h : Sorted l) : sortStable l = l :=
  sorted_filter_unique (sortStable_sorted l) h (fun k => sortStable_filter l k)

theorem sortStable_congr {l1 l2 : List KV} (h : ∀ k, l1.filter (byKey k) = l2.filter (byKey k)) :
    sortStable l1 = sortStable l2 :=
  sorted_filter_unique (sortStable_sorted l1) (sortStable_sorted l2)
    (fun k => by rw [sortStable_filter, sortStable_filter]; exact h k)

/-! ### insertion sort, swap by swap -/

theorem mem_sinkLeft {x z : KV} {r : List KV} (h : z ∈ sinkLeft x r) : z = x ∨ z ∈ r := by
  induction r with
  | nil => simpa [sinkLeft] using h
  | cons y ys ih =>
    unfold sinkLeft at h
    split at h
    · rcases List.mem_cons.mp h with e | h'
      · exact Or.inr (by simp [e])
      · rcases ih h' with e | h''
        · exact Or.inl e
        · exact Or.inr (by simp [h''])
    · rcases List.mem_cons.mp h with e | h'
      · exact Or.inl e
      · exact Or.inr h'

theorem sinkLeft_sortedDesc (x : KV) (r : List KV) (h : SortedDesc r) : SortedDesc (sinkLeft x r) := by
  induction r with
  | nil => simp [sinkLeft, SortedDesc]
  | cons y ys ih =>
    have hy := List.pairwise_cons.mp h
    unfold sinkLeft
    split
    next hlt =>
      apply List.pairwise_cons.mpr
      refine ⟨fun z hz => ?_, ih hy.2⟩
      rcases mem_sinkLeft hz with e | hz'
      · rw [e]; exact bLt_asymm hlt
      · exact hy.1 z hz'
    next hnl =>
      have hnl' : bLt x.key y.key = false := by simpa using hnl
      apply List.pairwise_cons.mpr
      refine ⟨fun z hz => ?_, h⟩
      rcases List.mem_cons.mp hz with e | hz'
      · rw [e]; exact hnl'
      · -- z.key ≤ y.key ≤ x.key
        exact bLe_trans (hy.1 z hz') hnl'

theorem sinkLeft_filter (x : KV) (r : List KV) (k : Bytes) :
    (sinkLeft x r).reverse.filter (byKey k) = r.reverse.filter (byKey k) ++ [x].filter (byKey k) := by
  induction r with
  | nil => simp [sinkLeft]
  | cons y ys ih =>
    unfold sinkLeft
    split
    next hlt =>
      have hne : x.key ≠ y.key := bLt_ne hlt
      simp only [List.reverse_cons, List.filter_append, ih, List.append_assoc]
      congr 1
      by_cases hx : x.key = k
      · have hy : ¬ y.key = k := fun e => hne (hx.trans e.symm)
        simp [byKey, hx, hy]
      · simp [byKey, hx]
    next => simp only [List.reverse_cons, List.filter_append, List.append_assoc]

theorem foldl_sinkLeft (seg r : List KV) (hr : SortedDesc r) :
    SortedDesc (seg.foldl (fun revPre x => sinkLeft x revPre) r) ∧
    ∀ k, (seg.foldl (fun revPre x => sinkLeft x revPre) r).reverse.filter (byKey k) =
      (r.reverse ++ seg).filter (byKey k) := by
  induction seg generalizing r with
  | nil => simp [hr]
  | cons x xs ih =>
    obtain ⟨h1, h2⟩ := ih (sinkLeft x r) (sinkLeft_sortedDesc x r hr)
    refine ⟨h1, fun k => ?_⟩
    simp only [List.foldl_cons]
    rw [h2 k, List.filter_append, sinkLeft_filter, List.filter_append, List.append_assoc]
    congr 1
    rw [← List.filter_append]; rfl

theorem sorted_reverse_of_sortedDesc {r : List KV} (h : SortedDesc r) : Sorted r.reverse := by
  unfold Sorted
  rw [List.pairwise_reverse]
  exact h

theorem goInsertionSort_eq_sortStable (seg : List KV) : goInsertionSort seg = sortStable seg := by
  obtain ⟨h1, h2⟩ := foldl_sinkLeft seg [] (by simp [SortedDesc])
  unfold goInsertionSort
  exact sorted_filter_unique (sorted_reverse_of_sortedDesc h1) (sortStable_sorted seg)
    (fun k => by
      have := h2 k
      simp only [List.reverse_nil, List.nil_append] at this
      rw [sortStable_filter]; exact this)

/-! ### stable merge of two sorted runs -/

theorem mem_mergeRunsAux {f : Nat} {a b : List KV} {z : KV} (h : z ∈ mergeRunsAux f a b) : z ∈ a ∨ z ∈ b := by
  induction f generalizing a b with
  | zero => simpa [mergeRunsAux] using h
  | succ f ih =>
    cases a with
    | nil => exact Or.inr (by simpa [mergeRunsAux] using h)
    | cons x a' =>
      cases b with
      | nil => exact Or.inl (by simpa [mergeRunsAux] using h)
      | cons y b' =>
        simp only [mergeRunsAux] at h
        split at h
        · rcases List.mem_cons.mp h with e | h'
          · exact Or.inr (by simp [e])
          · rcases ih h' with h'' | h''
            · exact Or.inl h''
            · exact Or.inr (by simp [h''])
        · rcases List.mem_cons.mp h with e | h'
          · exact Or.inl (by simp [e])
          · rcases ih h' with h'' | h''
            · exact Or.inl (by simp [h''])
            · exact Or.inr h''

theorem mergeRunsAux_spec (f : Nat) (a b : List KV) (hf : a.length + b.length ≤ f) (ha : Sorted a) (hb : Sorted b) :
    Sorted (mergeRunsAux f a b) ∧ ∀ k, (mergeRunsAux f a b).filter (byKey k) = (a ++ b).filter (byKey k) := by
  induction f generalizing a b with
  | zero =>
    have ha0 : a = [] := List.eq_nil_of_length_eq_zero (by omega)
    have hb0 : b = [] := List.eq_nil_of_length_eq_zero (by omega)
    subst ha0 hb0
    simp [mergeRunsAux, Sorted]
  | succ f ih =>
    cases a with
    | nil => simpa [mergeRunsAux] using hb
    | cons x a' =>
      cases b with
      | nil => simpa [mergeRunsAux] using ha
      | cons y b' =>
        simp only [mergeRunsAux]
        split
        next hlt =>
          obtain ⟨s1, s2⟩ := ih (x :: a') b' (by simp at hf ⊢; omega) ha (sorted_tail hb)
          constructor
          · apply List.pairwise_cons.mpr
            refine ⟨fun z hz => ?_, s1⟩
            rcases mem_mergeRunsAux hz with h' | h'
            · rcases List.mem_cons.mp h' with e | h''
              · rw [e]; exact bLt_asymm hlt
              · exact bLe_trans (bLt_asymm hlt) (sorted_head_le ha z h'')
            · exact sorted_head_le hb z h'
          · intro k
            rw [List.filter_cons, s2 k]
            by_cases hy : y.key = k
            · -- nothing of the left run has key k: all its keys are > y.key
              have hnone : (x :: a').filter (byKey k) = [] := by
                apply List.filter_eq_nil_iff.mpr
                intro z hz
                simp only [byKey, beq_iff_eq]
                intro e
                have hle : bLt z.key x.key = false := by
                  rcases List.mem_cons.mp hz with e' | h''
                  · rw [e']; exact bLt_irrefl _
                  · exact sorted_head_le ha z h''
                rw [e, ← hy] at hle
                rw [hle] at hlt; cases hlt
              simp only [List.filter_append, hnone, List.nil_append, List.filter_cons, byKey, hy, beq_self_eq_true, if_true]
            · simp [List.filter_append, List.filter_cons, byKey, hy]
        next hnl =>
          have hnl' : bLt y.key x.key = false := by simpa using hnl
          obtain ⟨s1, s2⟩ := ih a' (y :: b') (by simp at hf ⊢; omega) (sorted_tail ha) hb
          constructor
          · apply List.pairwise_cons.mpr
            refine ⟨fun z hz => ?_, s1⟩
            rcases mem_mergeRunsAux hz with h' | h'
            · exact sorted_head_le ha z h'
            · rcases List.mem_cons.mp h' with e | h''
              · rw [e]; exact hnl'
              · exact bLe_trans hnl' (sorted_head_le hb z h'')
          · intro k
            rw [List.filter_cons, s2 k]
            simp [List.filter_append, List.filter_cons]

theorem mergeRuns_spec (a b : List KV) (ha : Sorted a) (hb : Sorted b) :
    Sorted (mergeRuns a b) ∧ ∀ k, (mergeRuns a b).filter (byKey k) = (a ++ b).filter (byKey k) :=
  mergeRunsAux_spec _ a b (Nat.le_refl _) ha hb

/-! ### rounds -/

theorem mergePairs_spec (rs : List (List KV)) (h : ∀ r ∈ rs, Sorted r) :
    (∀ r ∈ mergePairs rs, Sorted r) ∧ (∀ k, (mergePairs rs).flatten.filter (byKey k) = rs.flatten.filter (byKey k)) ∧
    (mergePairs rs).length = (rs.length + 1) / 2 := by
  match rs with
  | [] => simp [mergePairs]
  | [r] => simpa [mergePairs] using h
  | r1 :: r2 :: rest =>
    have h1 := h r1 (by simp)
    have h2 := h r2 (by simp)
    obtain ⟨i1, i2, i3⟩ := mergePairs_spec rest (fun r hr => h r (by simp [hr]))
    obtain ⟨m1, m2⟩ := mergeRuns_spec r1 r2 h1 h2
    refine ⟨?_, ?_, ?_⟩
    · intro r hr
      simp only [mergePairs, List.mem_cons] at hr
      rcases hr with e | hr
      · rw [e]; exact m1
      · exact i1 r hr
    · intro k
      simp only [mergePairs, List.flatten_cons, List.filter_append, m2 k, i2 k, List.append_assoc]
    · simp only [mergePairs, List.length_cons, i3]; omega

theorem mergeRounds_spec (f : Nat) (rs : List (List KV)) (hf : rs.length ≤ f + 1) (h : ∀ r ∈ rs, Sorted r) :
    mergeRounds f rs = sortStable rs.flatten := by
  induction f generalizing rs with
  | zero =>
    match rs, hf with
    | [], _ => simp [mergeRounds, sortStable]
    | [r], _ => simp [mergeRounds, sortStable_of_sorted (h r (by simp))]
  | succ f ih =>
    match rs, hf, h with
    | [], _, _ => simp [mergeRounds, sortStable]
    | [r], _, h => simp [mergeRounds, sortStable_of_sorted (h r (by simp))]
    | r1 :: r2 :: rest, hf, h =>
      obtain ⟨i1, i2, i3⟩ := mergePairs_spec (r1 :: r2 :: rest) h
      have : mergeRounds (f + 1) (r1 :: r2 :: rest) = mergeRounds f (mergePairs (r1 :: r2 :: rest)) := rfl
      rw [this, ih _ (by rw [i3]; simp at hf ⊢; omega) i1]
      exact sortStable_congr i2

theorem sortBlocks_spec (bs : Nat) (hbs : 0 < bs) (f : Nat) (l : List KV) (hf : l.length ≤ f) :
    (sortBlocks bs f l).flatten = l ∧ (sortBlocks bs f l).length ≤ l.length := by
  induction f generalizing l with
  | zero =>
    have : l = [] := List.eq_nil_of_length_eq_zero (by omega)
    subst this; simp [sortBlocks]
  | succ f ih =>
    unfold sortBlocks
    by_cases h0 : l.length = 0
    · have : l = [] := List.eq_nil_of_length_eq_zero h0
      subst this; simp
    · simp only [h0, if_false]
      obtain ⟨i1, i2⟩ := ih (l.drop bs) (by simp; omega)
      refine ⟨by simp [i1], ?_⟩
      simp only [List.length_cons]
      have : (l.drop bs).length < l.length := by simp; omega
      omega

theorem goSortStable_eq_sortStable (l : List KV) : goSortStable l = sortStable l := by
  unfold goSortStable
  obtain ⟨c1, c2⟩ := sortBlocks_spec 20 (by omega) l.length l (Nat.le_refl _)
  have hmap : (sortBlocks 20 l.length l).map goInsertionSort = (sortBlocks 20 l.length l).map sortStable :=
    List.map_congr_left (fun r _ => goInsertionSort_eq_sortStable r)
  rw [hmap, mergeRounds_spec]
  · apply sortStable_congr
    intro k
    conv => rhs; rw [← c1]
    generalize sortBlocks 20 l.length l = cs
    induction cs with
    | nil => rfl
    | cons c cs ih => simp [List.filter_append, ih, sortStable_filter]
  · simp; omega
  · intro r hr
    obtain ⟨c, _, e⟩ := List.mem_map.mp hr
    rw [← e]; exact sortStable_sorted c

/-- for at most 20 elements `SortStableFunc` is one call of the insertion sort: no merge happens -/
theorem goSortStable_small (l : List KV) (h : l.length ≤ 20) : goSortStable l = goInsertionSort l := by
  unfold goSortStable
  cases hl : l with
  | nil => simp [sortBlocks, mergeRounds, goInsertionSort]
  | cons x xs =>
    have hd : (x :: xs).drop 20 = [] := List.drop_eq_nil_of_le (by rw [← hl]; exact h)
    have ht : (x :: xs).take 20 = x :: xs := List.take_of_length_le (by rw [← hl]; exact h)
    have : sortBlocks 20 (x :: xs).length (x :: xs) = [x :: xs] := by
      simp only [List.length_cons, sortBlocks, Nat.add_one_ne_zero, if_false, hd, ht]
      cases xs.length <;> simp [sortBlocks]
    rw [this]
    simp [mergeRounds]

end Otel.C05
