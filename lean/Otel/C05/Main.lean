import Otel.C05.Drv

def main : IO Unit := Otel.Wire.run () Otel.C05.Drv.stepLine
