/-
C05 driver (line parsing, model run, Spec oracle): one self-contained case per line.
The parsing/printing helpers are reused by the C19 driver.

  newset <gen> <kvs> <filter> => <set> <dropped> <callers-slice-after>
  filter <gen> <kvs> <filter> => <kept> <dropped> <set-after>
  value  <gen> <kvs> x<key>   => <value|->
  equal  <gen> <kvsA> <kvsB>  => <a.Equals(b)> <b.Equals(a)> <a.Equals(a)>
  mapkey <gen> <kvsA> <kvsB>  => <found b in {a}> <len {a,b}>
  merge  <gen> <kvsA> <kvsB>  => <kvs>
  encode <gen> <kvs> <emits>  => x<encoded>
  nilset <gen> <nil|zero|new|empty|filtered> <the same, other operand> x<key> <idx>
         => <Len> <Value ok> <HasValue> <Get ok> <ToSlice> <Iter count> <l.Equals(o)> <o.Equals(l)> <o.Equivalent() found in map{l.Equivalent()}> x<Encoded>
  nilfilter <gen> <nil|zero|new|empty> <filter> => panic | <kept> <dropped>      (Set.Filter through a *Set)
  iter   <gen> <kvs> <k>        => <attributes visited by for it.Next()> <IndexedAttribute indices are 0,1,2,… and Label = Attribute> <it.Len()>
                                   <Attribute() past the end> <Next() past the end> <ToSlice() of a second iterator after k Next calls> <its Next() afterwards>
  seq    <gen> <op> | <op> | …  => <results of op 1> | <results of op 2> | … ;; <the same results read again at the end>
         op = set <kvs> | newset <kvs> <filter> | filter <i> <filter> | merge <i> <j> | value <i> x<key>
         (i, j index the Sets created so far: set, newset and filter append one each);
         results: set ↦ <set>; newset ↦ <set> <dropped> <after>; filter ↦ <kept> <dropped> <sets[i]>;
         merge ↦ <kvs>; value ↦ - | =<val>
The generator tag may end in `~<digits>`: which family of public constructors built the values
(harness only; the typed values on the line are the same whatever the constructor).

kvs = `-` | `<hexkey>=<val>,…`; val = n | b0 | b1 | i<16hex> | f<16hex> | s<hex> | B.1.0 | I.<16hex>… |
F.<16hex>… | S.<hex>… (every slice element is preceded by a dot);
filter = nil | allow.<hexkey>… | deny.<hexkey>… | vt.<type number>… (keep these value types).
-/
import Otel.C05.Spec
open Otel Otel.Wire Otel.C05

namespace Otel.C05.Drv

def hexNat (cs : List Char) : Option Nat :=
  cs.foldlM (fun acc c => (hexVal c).map (fun d => acc * 16 + d)) 0

def parseU64 (s : String) : Option UInt64 :=
  if s.length = 16 then (hexNat s.toList).map UInt64.ofNat else none

def parseBytes (s : String) : Option Bytes := parseHexChars s.toList

/-- elements of a dotted list: "T.a.b" ↦ ["a","b"], "T" ↦ [] -/
def dotted (s : String) : List String := (s.splitOn ".").drop 1

def parseVal (s : String) : Option Value :=
  match s.toList with
  | ['n'] => some .invalid
  | ['b', '0'] => some (.bool false)
  | ['b', '1'] => some (.bool true)
  | 'i' :: r => (parseU64 (String.ofList r)).map .int
  | 'f' :: r => (parseU64 (String.ofList r)).map .float
  | 's' :: r => (parseHexChars r).map .str
  | 'B' :: _ => (dotted s).mapM (fun e => if e = "1" then some true else if e = "0" then some false else none) |>.map .bools
  | 'I' :: _ => (dotted s).mapM parseU64 |>.map .ints
  | 'F' :: _ => (dotted s).mapM parseU64 |>.map .floats
  | 'S' :: _ => (dotted s).mapM parseBytes |>.map .strs
  | _ => none

def parseKV (s : String) : Option KV :=
  match s.splitOn "=" with
  | [k, v] => do
    let kb ← parseBytes k
    let vv ← parseVal v
    pure ⟨kb, vv⟩
  | _ => none

def parseKVs (s : String) : Option (List KV) :=
  if s = "-" then some [] else (s.splitOn ",").mapM parseKV

def hex (b : Bytes) : String := String.ofList (b.flatMap hexOfByte)
def hexU64 (u : UInt64) : String :=
  String.ofList ((List.range 16).reverse.map (fun i => hexDigit ((u.toNat >>> (4 * i)) % 16)))

def showVal : Value → String
  | .invalid => "n"
  | .bool b => if b then "b1" else "b0"
  | .int u => "i" ++ hexU64 u
  | .float u => "f" ++ hexU64 u
  | .str s => "s" ++ hex s
  | .bools l => "B" ++ String.join (l.map (fun b => if b then ".1" else ".0"))
  | .ints l => "I" ++ String.join (l.map (fun u => "." ++ hexU64 u))
  | .floats l => "F" ++ String.join (l.map (fun u => "." ++ hexU64 u))
  | .strs l => "S" ++ String.join (l.map (fun s => "." ++ hex s))

def showKVs (l : List KV) : String :=
  if l.isEmpty then "-" else ",".intercalate (l.map (fun kv => hex kv.key ++ "=" ++ showVal kv.val))

def typeNo : Value → Nat
  | .invalid => 0 | .bool _ => 1 | .int _ => 2 | .float _ => 3 | .str _ => 4
  | .bools _ => 5 | .ints _ => 6 | .floats _ => 7 | .strs _ => 8

/-- outer `none` = unparsable; inner `none` = the nil filter -/
def parseFilter (s : String) : Option (Option (KV → Bool)) :=
  if s = "nil" then some none
  else match (s.splitOn ".").head? with
    | some "allow" => (dotted s).mapM parseBytes |>.map (fun ks => some (allowKeysFilter ks))
    | some "deny" => (dotted s).mapM parseBytes |>.map (fun ks => some (denyKeysFilter ks))
    | some "vt" => (dotted s).mapM String.toNat? |>.map (fun ts => some (fun kv => ts.contains (typeNo kv.val)))
    | _ => none

def b01 (s : String) : Option Bool := if s = "1" then some true else if s = "0" then some false else none
def show01 (b : Bool) : String := if b then "1" else "0"

def tags (l : List (Bool × String)) : String :=
  let t := (l.filter (·.1)).map (·.2)
  if t.isEmpty then "-" else ",".intercalate t

def hasDupKey (l : List KV) : Bool := (Spec.keys l).eraseDups.length != l.length

def okFail (b : Bool) : String := if b then "ok" else "FAIL"

/-- split a token list at every occurrence of `sep` -/
def splitToks (sep : String) (toks : List String) : List (List String) :=
  let r := toks.foldl (fun (acc : List (List String) × List String) t =>
    if t == sep then (acc.1 ++ [acc.2], []) else (acc.1, acc.2 ++ [t])) ([], [])
  r.1 ++ [r.2]

/-- one parsed `seq` op: the model op, and the Spec check of its observed results given the
reference contents of the Sets created so far (returns the reference Set it appends, if any) -/
structure SeqParsed where
  op : SeqOp
  nsets : Nat → Bool                                  -- are the indices in range?
  check : List (List KV) → List (List KV) → Bool      -- reference sets → observed results → ok
  newRef : List (List KV) → Option (List KV)
  tag : List (List KV) → String

def parseSeqOp (toks : List String) : Option SeqParsed :=
  match toks with
  | ["set", kS] => do
    let kvs ← parseKVs kS
    pure { op := .set kvs, nsets := fun _ => true, tag := fun _ => "set",
           check := fun _ o => o == [Spec.canon kvs], newRef := fun _ => some (Spec.canon kvs) }
  | ["newset", kS, fS] => do
    let kvs ← parseKVs kS
    let f ← parseFilter fS
    pure { op := .newset kvs f, nsets := fun _ => true, tag := fun _ => "newset",
           check := fun _ o => match o with
             | [s, d, a] => Spec.newSetOK kvs f s d a
             | _ => false,
           newRef := fun _ => some ((Spec.canon kvs).filter (Spec.keepOf f)) }
  | ["filter", iS, fS] => do
    let i ← iS.toNat?
    let f ← parseFilter fS
    pure { op := .filter i f, nsets := fun n => i < n,
           tag := fun refs => (match f with
             | none => "filter-nil"
             | some re => match splitLastDropped re (refs.getD i []) with
               | none => "filter-nonedropped"
               | some t => if t.1.isEmpty then "filter-first0" else "filter-general"),
           check := fun refs o => match o with
             | [k, d, orig] => Spec.filterOK (refs.getD i []) f k d orig
             | _ => false,
           newRef := fun refs => some ((refs.getD i []).filter (Spec.keepOf f)) }
  | ["merge", iS, jS] => do
    let i ← iS.toNat?
    let j ← jS.toNat?
    pure { op := .merge i j, nsets := fun n => i < n && j < n, tag := fun _ => "merge",
           check := fun refs o => match o with
             | [m] => Spec.mergeOK (refs.getD i []) (refs.getD j []) m
             | _ => false,
           newRef := fun _ => none }
  | ["value", iS, kS] => do
    let i ← iS.toNat?
    let k ← parseHex kS
    pure { op := .value i k, nsets := fun n => i < n, tag := fun _ => "value",
           check := fun refs o => o == [valRes (Spec.lookup (refs.getD i []) k)],
           newRef := fun _ => none }
  | _ => none

def showResults (r : List (List (List KV))) : String :=
  " | ".intercalate (r.map (fun g => " ".intercalate (g.map showKVs)))

def stepSeq (inp obs : List String) : Option Verdict := do
  let ops ← (splitToks "|" inp).mapM parseSeqOp
  let halves := splitToks ";;" obs
  let (retT, endT) ← (match halves with | [a, b] => some (a, b) | _ => none)
  let atReturn ← (splitToks "|" retT).mapM (fun g => g.mapM parseKVs)
  let atEnd ← (splitToks "|" endT).mapM (fun g => g.mapM parseKVs)
  -- indices in range, reference Sets, per-op Spec on the results as returned
  let walk := ops.zip atReturn |>.foldl (fun (acc : Bool × Bool × List (List KV) × List String) (p : SeqParsed × List (List KV)) =>
    let (inRange, ok, refs, tgs) := acc
    (inRange && p.1.nsets refs.length, ok && p.1.check refs p.2,
      (match p.1.newRef refs with | some r => refs ++ [r] | none => refs), tgs ++ [p.1.tag refs])) (true, true, [], [])
  if !walk.1 || ops.length != atReturn.length then none
  let m := (runSeq (ops.map (·.op))).results
  let stable := Spec.resultsStable atReturn atEnd
  let spec := walk.2.1 && stable
  let tgs := walk.2.2.2
  -- a Filter that drops something, after an earlier Filter that dropped something
  let dropping := (tgs.filter (fun t => t == "filter-first0" || t == "filter-general")).length
  let br := tags ((tgs.eraseDups.map (fun t => (true, t))) ++
    [(decide (dropping ≥ 2), "drop-after-drop"), (!stable, "UNSTABLE")])
  pure { agree := m == atReturn && m == atEnd, spec := okFail spec, nontrivial := ops.length ≥ 2,
         branches := br, model := showResults m }

def stepLine (_ : Unit) (toks : List String) : Unit × Option Verdict :=
  let (inp, obs) := splitObs toks
  ((), match inp, obs with
  | ["newset", _, kvsS, fS], [setS, dropS, afterS] => do
    let kvs ← parseKVs kvsS
    let f ← parseFilter fS
    let oset ← parseKVs setS
    let odrop ← parseKVs dropS
    let oafter ← parseKVs afterS
    let m := newSetWithFiltered kvs f
    let agree := m.set == oset && m.dropped == odrop && m.after == oafter
    let spec := Spec.newSetOK kvs f oset odrop oafter
    let br := tags [(kvs.isEmpty, "empty"), (hasDupKey kvs, "dup"), (!kvs.isEmpty && !hasDupKey kvs, "nodup"),
      (f.isNone, "nilfilter"), (f.isSome && m.dropped.isEmpty, "div0"), (!m.dropped.isEmpty, "dropped"),
      (m.set.length ≤ 10 && !m.set.isEmpty, "fixed"), (m.set.length > 10, "reflect"),
      (kvs != sortStable kvs, "unsorted"), (decide (kvs.length > 20), "sort-merge-rounds"),
      (decide (kvs.length ≤ 20) && decide (kvs.length ≥ 2), "sort-insertion-only")]
    pure { agree, spec := okFail spec, nontrivial := kvs.length ≥ 2, branches := br,
           model := s!"{showKVs m.set} {showKVs m.dropped} {showKVs m.after}" }
  | ["filter", _, kvsS, fS], [keptS, dropS, afterS] => do
    let kvs ← parseKVs kvsS
    let f ← parseFilter fS
    let okept ← parseKVs keptS
    let odrop ← parseKVs dropS
    let oafter ← parseKVs afterS
    let s := newSet kvs
    let m := setFilter s f
    let agree := m.1 == okept && m.2 == odrop && s == oafter
    let spec := Spec.filterOK (Spec.canon kvs) f okept odrop oafter
    let sp := f.bind (fun re => splitLastDropped re s)
    let br := tags [(f.isNone, "nil"), (f.isSome && sp.isNone, "nonedropped"),
      (sp.any (fun t => t.1.isEmpty), "first0"), (sp.any (fun t => !t.1.isEmpty), "general"),
      (s.length > 10, "reflect"), (m.1.length > 10, "keptreflect")]
    pure { agree, spec := okFail spec, nontrivial := !s.isEmpty && f.isSome, branches := br,
           model := s!"{showKVs m.1} {showKVs m.2} {showKVs s}" }
  | ["value", _, kvsS, kS], [vS] => do
    let kvs ← parseKVs kvsS
    let k ← parseHex kS
    let ov ← if vS = "-" then some none else (parseVal vS).map some
    let s := newSet kvs
    let m := value s k
    let spec := ov == Spec.lookupLast kvs k
    let br := tags [(m.isSome, "found"), (m.isNone && s.any (fun kv => bLt k kv.key), "absent-inside"),
      (m.isNone && !s.any (fun kv => bLt k kv.key), "absent-past-end"), (s.length > 10, "reflect")]
    pure { agree := m == ov, spec := okFail spec, nontrivial := !s.isEmpty, branches := br,
           model := match m with | some v => showVal v | none => "-" }
  | ["equal", _, aS, bS], [abS, baS, aaS] => do
    let ka ← parseKVs aS
    let kb ← parseKVs bS
    let oab ← b01 abS
    let oba ← b01 baS
    let oaa ← b01 aaS
    let a := newSet ka
    let b := newSet kb
    let mab := equal a b
    let agree := mab == oab && equal b a == oba && equal a a == oaa
    let sa := Spec.canon ka
    let sb := Spec.canon kb
    let same := Spec.sameMapping goEq sa sb
    let spec :=
      if oab != same || oba != same then "FAIL"
      else if !oaa || (sa == sb && !oab) then (if F9_applies sa then "KNOWN:F9" else "FAIL")
      else "ok"
    let br := tags [(mab, "eq"), (!mab && a.length != b.length, "neq-len"), (!mab && a.length == b.length, "neq-elem"),
      (F9_applies a || F9_applies b, "nan"), (mab && a != b, "signed-zero"), (a.length > 10, "reflect")]
    pure { agree, spec, nontrivial := !a.isEmpty && !b.isEmpty, branches := br,
           model := s!"{show01 mab} {show01 (equal b a)} {show01 (equal a a)}" }
  | ["mapkey", _, aS, bS], [fS, nS] => do
    let ka ← parseKVs aS
    let kb ← parseKVs bS
    let ofound ← b01 fS
    let on ← nS.toNat?
    let a := newSet ka
    let b := newSet kb
    let mfound := equal a b
    let mlen := if mfound then 1 else 2
    let sa := Spec.canon ka
    let sb := Spec.canon kb
    let same := Spec.sameMapping goEq sa sb
    let spec :=
      if ofound != same || on != (if same then 1 else 2) then "FAIL"
      else if sa == sb && !ofound then (if F9_applies sa then "KNOWN:F9" else "FAIL")
      else "ok"
    let br := tags [(mfound, "found"), (!mfound, "notfound"), (F9_applies a || F9_applies b, "nan"),
      (a.length > 10, "reflect")]
    pure { agree := mfound == ofound && mlen == on, spec, nontrivial := !a.isEmpty && !b.isEmpty,
           branches := br, model := s!"{show01 mfound} {mlen}" }
  | ["merge", _, aS, bS], [oS] => do
    let ka ← parseKVs aS
    let kb ← parseKVs bS
    let o ← parseKVs oS
    let a := newSet ka
    let b := newSet kb
    let m := mergeIterSM a b   -- the state machine of iterator.go
    let spec := Spec.mergeOK (Spec.canon ka) (Spec.canon kb) o
    let shared := a.any (fun x => b.any (fun y => x.key == y.key))
    let br := tags [(a.isEmpty, "a-empty"), (b.isEmpty, "b-empty"), (shared, "tie"), (!shared, "disjoint")]
    pure { agree := m == o, spec := okFail spec, nontrivial := !a.isEmpty && !b.isEmpty, branches := br,
           model := showKVs m }
  | ["encode", _, kvsS, emS], [oS] => do
    let kvs ← parseKVs kvsS
    let ems ← (dotted emS).mapM parseBytes
    let o ← parseHex oS
    let s := newSet kvs
    if s.length != ems.length then none
    let tbl := (s.map (·.val)).zip ems
    let emit : Value → Bytes := fun v => ((tbl.find? (fun p => p.1 == v)).map (·.2)).getD []
    -- the modelled part of Value.Emit must agree with what the real Emit returned
    let emitsOK := tbl.all (fun p => match emitKnown p.1 with | some e => e == p.2 | none => true)
    let m := encode emit s
    -- the oracle renders every value whose Emit is modelled (all but the float types) itself
    let emitSpec : Value → Bytes := fun v => (emitKnown v).getD (emit v)
    let spec := o == Spec.encodeRef emitSpec (Spec.canon kvs) && emitsOK
    let esc := s.any (fun kv => escape kv.key != kv.key || (match kv.val with | .str x => escape x != x | _ => false))
    let br := tags [(s.isEmpty, "empty"), (s.length == 1, "one"), (s.length > 1, "many"), (esc, "escaped")]
    pure { agree := m == o && emitsOK, spec := okFail spec, nontrivial := !s.isEmpty, branches := br,
           model := hexOf m }
  | ["nilset", _, which, oS, kS, iS], [lenS, okvS, hasS, okgS, slS, itS, eqS, eqrS, mapS, encS] => do
    let mk (w : String) : Option SetP :=
      if w = "nil" then some none else if w = "zero" then some (some none)
      else if w = "new" || w = "empty" || w = "filtered" then some (some (computeDistinct [])) else none
    let l ← mk which
    let o ← mk oS
    let _ ← parseHex kS
    let idx ← iS.toInt?
    let olen ← lenS.toNat?
    let okv ← b01 okvS
    let ohas ← b01 hasS
    let okg ← b01 okgS
    let osl ← parseKVs slS
    let oit ← itS.toNat?
    let oeq ← b01 eqS
    let oeqr ← b01 eqrS
    let omap ← b01 mapS
    let oenc ← parseHex encS
    let agree := olen == setLen l && okv == false && ohas == false && okg == (setGet l idx).isSome && osl == setToSlice l &&
      oit == setLen l && oeq == setEquals l o && oeqr == setEquals o l && omap == distinctEq (setEquivalent l) (setEquivalent o) &&
      oenc == encode (fun _ => []) (setToSlice l)
    let spec := olen == 0 && !okv && !ohas && !okg && osl.isEmpty && oit == 0 && oeq && oeqr && omap && oenc.isEmpty
    pure { agree, spec := okFail spec, nontrivial := which != oS, branches := tags [(true, which), (true, "vs-" ++ oS)],
           model := s!"{setLen l} 0 0 0 - {setLen l} 1 1 1 x" }
  | "nilfilter" :: _ :: which :: fS :: [], obsToks => do
    let f ← parseFilter fS
    let l ← (if which = "nil" then some (none : SetP) else if which = "zero" then some (some none)
      else if which = "new" || which = "empty" then some (some (computeDistinct [])) else none)
    let m := setFilterP l f
    let o ← (match obsToks with
      | ["panic"] => some (none : Option (List KV × List KV))
      | [kS, dS] => do
        let k ← parseKVs kS
        let d ← parseKVs dS
        pure (some (k, d))
      | _ => none)
    -- a nil *Set: the code dereferences nil (observation, outside the property's quantifier); otherwise: empty in, empty out
    let spec := if which = "nil" then "na" else okFail (o == some ([], []))
    pure { agree := m == o, spec, nontrivial := which != "nil", branches := tags [(true, which), (o.isNone, "panic")],
           model := match m with | none => "panic" | some r => s!"{showKVs r.1} {showKVs r.2}" }
  | ["iter", _, kvsS, kS], [gotS, idxS, lenS, afterS, extraS, slS, nxtS] => do
    let kvs ← parseKVs kvsS
    let k ← kS.toNat?
    let ogot ← parseKVs gotS
    let oidx ← b01 idxS
    let olen ← lenS.toNat?
    let oafter ← parseKVs afterS
    let oextra ← b01 extraS
    let osl ← parseKVs slS
    let onxt ← b01 nxtS
    let s := newSet kvs
    let d := Iter.drain (s.length + 1) { storage := s }
    let it2 := (List.range k).foldl (fun (it : Iter) _ => it.next.1) { storage := s }
    let ts := it2.toSlice
    let agree := d.2 == ogot && oidx && olen == s.length && [d.1.attribute] == oafter && d.1.next.2 == oextra &&
      ts.2 == osl && ts.1.next.2 == onxt
    let ref := Spec.canon kvs
    let spec := ogot == ref && oidx && olen == ref.length && oafter == [zeroKV] && !oextra && osl == ref && !onxt
    let br := tags [(s.isEmpty, "empty"), (decide (k == 0), "fresh"), (decide (0 < k && k ≤ s.length), "mid"),
      (decide (k > s.length), "past-end"), (s.length > 10, "reflect")]
    pure { agree, spec := okFail spec, nontrivial := !s.isEmpty, branches := br,
           model := s!"{showKVs d.2} 1 {s.length} {showKVs [d.1.attribute]} {show01 d.1.next.2} {showKVs ts.2} {show01 ts.1.next.2}" }
  | "seq" :: _ :: ops, _ => stepSeq ops obs
  | _, _ => none)

end Otel.C05.Drv
