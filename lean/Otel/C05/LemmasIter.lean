/-
C05 — the iterator state machines of iterator.go against the list functions used elsewhere.
-/
import Otel.C05.Lemmas
namespace Otel.C05
open Otel Otel.C05.Spec

/-- `oi` stands at the head of `l`, the rest of its Set's contents -/
def OneIter.Rep (oi : OneIter) (l : List KV) : Prop :=
  ∃ n : Nat, oi.iter.idx = (n : Int) ∧ l = oi.iter.storage.drop n ∧ n ≤ oi.iter.storage.length ∧
    oi.done = l.isEmpty ∧ ∀ x r, l = x :: r → oi.attr = x

theorem drop_cons_getElem {α : Type} {l : List α} {n : Nat} {x : α} {r : List α} (h : l.drop n = x :: r) :
    n < l.length ∧ l[n]? = some x ∧ l.drop (n + 1) = r := by
  have hlt : n < l.length := by
    apply Nat.lt_of_not_le
    intro hge
    rw [List.drop_eq_nil_of_le hge] at h; cases h
  refine ⟨hlt, ?_, ?_⟩
  · have := List.getElem?_drop (xs := l) (i := n) (j := 0)
    rw [h] at this
    simpa using this.symm
  · have : l.drop (n + 1) = (l.drop n).drop 1 := by rw [List.drop_drop]
    rw [this, h]; rfl

theorem attribute_at (it : Iter) (n : Nat) (x : KV) (h1 : it.idx = (n : Int)) (h2 : it.storage[n]? = some x) :
    it.attribute = x := by
  have hlt : n < it.storage.length := by
    apply Nat.lt_of_not_le
    intro hge
    rw [List.getElem?_eq_none hge] at h2; cases h2
  unfold Iter.attribute
  have : 0 ≤ it.idx ∧ it.idx < (it.storage.length : Int) := by rw [h1]; omega
  rw [if_pos this, h1]
  simp [h2]

theorem advance_rep (oi : OneIter) (x : KV) (r : List KV) (h : oi.Rep (x :: r)) : oi.advance.Rep r := by
  obtain ⟨n, hidx, hl, hn, hdone, hattr⟩ := h
  obtain ⟨hlt, hget, hdrop⟩ := drop_cons_getElem hl.symm
  unfold OneIter.advance Iter.next
  by_cases hok : oi.iter.idx + 1 < (oi.iter.storage.length : Int)
  · simp only [hok, decide_true, if_true]
    have hlt2 : n + 1 < oi.iter.storage.length := by rw [hidx] at hok; omega
    cases hr : r with
    | nil =>
      rw [hr] at hdrop
      have : oi.iter.storage.length ≤ n + 1 := by
        apply Nat.le_of_not_lt
        intro hh
        have := List.drop_eq_nil_iff.mp hdrop
        omega
      omega
    | cons y r' =>
      rw [hr] at hdrop
      obtain ⟨_, hget2, _⟩ := drop_cons_getElem hdrop
      refine ⟨n + 1, by simp [hidx], by simp [hdrop], by simp; omega, by simp, ?_⟩
      intro x' r'' e
      cases e
      exact attribute_at _ (n + 1) y (by simp [hidx]) hget2
  · simp only [hok, decide_false, Bool.false_eq_true, if_false]
    have hge : oi.iter.storage.length ≤ n + 1 := by rw [hidx] at hok; omega
    have hr : r = [] := by rw [← hdrop]; exact List.drop_eq_nil_of_le hge
    refine ⟨n + 1, by simp [hidx], by simp [hr, List.drop_eq_nil_of_le hge], by simp; omega, by simp [hr], ?_⟩
    intro x' r'' e
    rw [hr] at e; cases e

theorem makeOne_rep (s : List KV) : (makeOne s).Rep s := by
  unfold makeOne OneIter.advance Iter.next
  by_cases hok : (-1 : Int) + 1 < (s.length : Int)
  · simp only [hok, decide_true, if_true]
    cases hs : s with
    | nil => rw [hs] at hok; simp at hok
    | cons x r =>
      refine ⟨0, by simp, by simp, by simp, by simp, ?_⟩
      intro x' r' e
      cases e
      exact attribute_at _ 0 x (by simp) (by simp)
  · simp only [hok, decide_false, Bool.false_eq_true, if_false]
    have : s = [] := by
      cases s with
      | nil => rfl
      | cons _ _ => simp at hok
    subst this
    exact ⟨0, by simp, by simp, by simp, by simp, fun x r e => by cases e⟩

theorem mergeAux_nil_right (f : Nat) (a : List KV) : mergeAux (f + 1) a [] = a := by
  cases a <;> rfl

theorem drain_eq_mergeAux (f : Nat) (m : MergeIt) (a b : List KV) (ha : m.one.Rep a) (hb : m.two.Rep b)
    (hf : a.length + b.length < f) : MergeIt.drain f m = mergeAux f a b := by
  induction f generalizing m a b with
  | zero => omega
  | succ f ih =>
    have hda : m.one.done = a.isEmpty := by obtain ⟨_, _, _, _, h, _⟩ := ha; exact h
    have hdb : m.two.done = b.isEmpty := by obtain ⟨_, _, _, _, h, _⟩ := hb; exact h
    cases a with
    | nil =>
      cases b with
      | nil => simp [MergeIt.drain, MergeIt.next, hda, hdb, mergeAux]
      | cons y b' =>
        have hy : m.two.attr = y := by obtain ⟨_, _, _, _, _, h⟩ := hb; exact h y b' rfl
        have hb' := advance_rep m.two y b' hb
        have hf' : 0 < f := by simp at hf; omega
        obtain ⟨f', ef⟩ : ∃ f', f = f' + 1 := ⟨f - 1, by omega⟩
        have := ih { m with current := y, two := m.two.advance } [] b' ha hb' (by simp at hf ⊢; omega)
        simp only [MergeIt.drain, MergeIt.next, hda, hdb, List.isEmpty_nil, List.isEmpty_cons, Bool.true_and,
          Bool.false_eq_true, if_false, if_true, hy, this]
        rw [ef]; rfl
    | cons x a' =>
      have hx : m.one.attr = x := by obtain ⟨_, _, _, _, _, h⟩ := ha; exact h x a' rfl
      have ha' := advance_rep m.one x a' ha
      cases b with
      | nil =>
        obtain ⟨f', ef⟩ : ∃ f', f = f' + 1 := ⟨f - 1, by simp at hf; omega⟩
        have := ih { m with current := x, one := m.one.advance } a' [] ha' hb (by simp at hf ⊢; omega)
        simp only [MergeIt.drain, MergeIt.next, hda, hdb, List.isEmpty_nil, List.isEmpty_cons, Bool.false_and,
          Bool.false_eq_true, if_false, if_true, hx, this]
        rw [ef, mergeAux_nil_right]; rfl
      | cons y b' =>
        have hy : m.two.attr = y := by obtain ⟨_, _, _, _, _, h⟩ := hb; exact h y b' rfl
        have hb' := advance_rep m.two y b' hb
        simp only [MergeIt.drain, MergeIt.next, hda, hdb, List.isEmpty_cons, Bool.false_and, Bool.false_eq_true,
          if_false, hx, hy, mergeAux]
        by_cases hk : (x.key == y.key) = true
        · have e := ih { current := x, one := m.one.advance, two := m.two.advance } a' b' ha' hb'
            (by simp at hf ⊢; omega)
          simp [hk, e]
        · by_cases hl : bLt x.key y.key = true
          · have e := ih { m with current := x, one := m.one.advance } a' (y :: b') ha' hb (by simp at hf ⊢; omega)
            simp [hk, hl, e]
          · have e := ih { m with current := y, two := m.two.advance } (x :: a') b' ha hb' (by simp at hf ⊢; omega)
            simp [hk, hl, e]

theorem mergeIterSM_eq (a b : List KV) : mergeIterSM a b = mergeIter a b :=
  drain_eq_mergeAux _ _ a b (makeOne_rep a) (makeOne_rep b) (by omega)

/-- an iterator standing before position `n` yields the rest of the contents and ends past the end -/
theorem iter_drain_spec (f : Nat) (it : Iter) (n : Nat) (hidx : it.idx = (n : Int) - 1) (hn : n ≤ it.storage.length)
    (hf : it.storage.length - n < f) :
    (Iter.drain f it).2 = it.storage.drop n ∧ (Iter.drain f it).1 = { it with idx := it.storage.length } := by
  induction f generalizing it n with
  | zero => omega
  | succ f ih =>
    unfold Iter.drain Iter.next
    by_cases hok : it.idx + 1 < (it.storage.length : Int)
    · have hlt : n < it.storage.length := by rw [hidx] at hok; omega
      simp only [hok, decide_true, if_true]
      obtain ⟨i1, i2⟩ := ih { it with idx := it.idx + 1 } (n + 1) (by simp [hidx]) hlt (by simp; omega)
      simp only at i1 i2
      refine ⟨?_, i2⟩
      rw [i1]
      have hx : it.storage[n]? = some it.storage[n] := List.getElem?_eq_getElem hlt
      rw [attribute_at { it with idx := it.idx + 1 } n it.storage[n] (by simp [hidx]) hx]
      exact (List.drop_eq_getElem_cons hlt).symm
    · have hge : it.storage.length ≤ n := by rw [hidx] at hok; omega
      have : n = it.storage.length := by omega
      simp only [hok, decide_false, Bool.false_eq_true, if_false]
      refine ⟨by rw [List.drop_eq_nil_of_le hge], ?_⟩
      rw [hidx, this]; simp

end Otel.C05
