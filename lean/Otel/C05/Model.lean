/-
C05 — executable model of `attribute.Set` (attribute/set.go, iterator.go, value.go, encoder.go), core Lean only.

A Go `[]KeyValue` / `[n]KeyValue` is a `List KV`.  The two in-place loops of `NewSetWithFiltered`
(backward de-dup swap loop, `filteredToFront`) are modelled on a *zipper* of the array:
the array is always `unvisited ++ middle ++ tail`, the loop index walks the unvisited part from its
end, and a Go `swap(kvs[i], kvs[j-1])` with `j-1` the last index of the middle region is the step
`middle := rotR middle; tail := x :: tail`.  So the model yields the caller's slice afterwards
element by element (it is compared with the real slice on every `newset` line).

Floats travel as IEEE-754 bit patterns (`UInt64`); there is no `Float` anywhere.
External: `slices.SortStableFunc` is modelled as written in the Go standard library
(`goSortStableSym`: insertion-sorted blocks, merge rounds, `symMergeCmpFunc` with its binary searches
and recursion; only the swap loops / `rotateCmpFunc` by their effect); `sortStable` is the reference
stable sort (Props: `stable_sort_unique`, `symMerge_is_stable_merge`, `sortStableFunc_is_stable_sort`). `sort.Search` is modelled as written in the Go standard library.
-/
import Otel.Base.Utf8
namespace Otel
namespace C05

/-- `attribute.Value`: eight public constructors plus the zero Value (INVALID).
BOOL/INT64/FLOAT64 keep their payload in `numeric` (bits), STRING in `stringly`, the four slice
types as `[n]T` arrays behind an interface. -/
inductive Value where
  | invalid
  | bool (b : Bool)
  | int (bits : UInt64)
  | float (bits : UInt64)
  | str (s : Bytes)
  | bools (l : List Bool)
  | ints (l : List UInt64)
  | floats (l : List UInt64)
  | strs (l : List Bytes)
deriving DecidableEq, Repr, Inhabited

structure KV where
  key : Bytes
  val : Value
deriving DecidableEq, Repr, Inhabited

/-! ### Go string order on keys (bytewise lexicographic) -/

/-- `a < b` for Go strings -/
def bLt : Bytes → Bytes → Bool
  | _, [] => false
  | [], _ :: _ => true
  | a :: as, b :: bs => decide (a.toNat < b.toNat) || (decide (a.toNat = b.toNat) && bLt as bs)

/-! ### Go `==` on values (what array/interface comparison does) -/

def isNaN (b : UInt64) : Bool := decide ((b &&& 0x7FFFFFFFFFFFFFFF).toNat > 0x7FF0000000000000)
def isZero (b : UInt64) : Bool := (b &&& 0x7FFFFFFFFFFFFFFF) == 0

/-- IEEE-754 `==` on bit patterns: NaN differs from everything, `-0 == +0`, otherwise same bits -/
def ieeeEq (a b : UInt64) : Bool := !isNaN a && !isNaN b && (a == b || (isZero a && isZero b))

/-- same length and pointwise related (Go `[n]T == [m]T` behind interfaces: different `n` are
different dynamic types) -/
def listRel {α : Type} (r : α → α → Bool) : List α → List α → Bool
  | [], [] => true
  | a :: as, b :: bs => r a b && listRel r as bs
  | _, _ => false

/-- Go `==` on `attribute.Value`: FLOAT64 scalars are compared as `numeric` bits, FLOAT64SLICE
arrays elementwise with IEEE `==` (F9), everything else structurally -/
def goEq (v w : Value) : Bool :=
  match v, w with
  | .floats a, .floats b => listRel ieeeEq a b
  | _, _ => v == w

/-- Go `==` of two `[n]KeyValue` arrays behind `Distinct.iface`: `Set.Equals`, and map-key identity
of `Equivalent()` -/
def relList (r : Value → Value → Bool) : List KV → List KV → Bool
  | [], [] => true
  | x :: a, y :: b => x.key == y.key && r x.val y.val && relList r a b
  | _, _ => false

def equal (a b : List KV) : Bool := relList goEq a b

/-- the known finding: some FLOAT64SLICE value contains a NaN -/
def valHasNaN : Value → Bool
  | .floats l => l.any isNaN
  | _ => false
def F9_applies (s : List KV) : Bool := s.any (fun kv => valHasNaN kv.val)

/-! ### `Distinct`, `computeDistinct`, nil and zero-value Sets (set.go) -/

/-- a `[n]KeyValue` array value behind `Distinct.iface`; `n` is part of the dynamic type -/
structure ArrVal where
  n : Nat
  elems : List KV
deriving DecidableEq, Repr

/-- `Distinct`: `none` = the nil interface (zero value of `Distinct` / `Set`) -/
abbrev Distinct := Option ArrVal

/-- the conversion `[n]KeyValue(kvs)` (the first `n` elements; the `case n:` guarantees `len(kvs) == n`) -/
def arrOf (n : Nat) (kvs : List KV) : ArrVal := ⟨n, kvs.take n⟩

/-- `computeDistinctFixed`: the `switch len(kvs)` with cases 1…10, `nil` otherwise -/
def computeDistinctFixed (kvs : List KV) : Option ArrVal :=
  match kvs.length with
  | 1 => some (arrOf 1 kvs) | 2 => some (arrOf 2 kvs) | 3 => some (arrOf 3 kvs) | 4 => some (arrOf 4 kvs)
  | 5 => some (arrOf 5 kvs) | 6 => some (arrOf 6 kvs) | 7 => some (arrOf 7 kvs) | 8 => some (arrOf 8 kvs)
  | 9 => some (arrOf 9 kvs) | 10 => some (arrOf 10 kvs)
  | _ => none

/-- `computeDistinctReflect`: `reflect.ArrayOf(len(kvs), keyValueType)`, filled index by index -/
def computeDistinctReflect (kvs : List KV) : ArrVal :=
  ⟨kvs.length, (List.range kvs.length).filterMap (fun i => kvs[i]?)⟩

def computeDistinct (kvs : List KV) : Distinct :=
  match computeDistinctFixed kvs with
  | some a => some a
  | none => some (computeDistinctReflect kvs)

/-- `emptySet.equivalent` = `Distinct{iface: [0]KeyValue{}}` -/
def emptyDistinct : Distinct := some ⟨0, []⟩

/-- a `*Set`: `none` = nil pointer, `some d` = `&Set{equivalent: d}` (`some none` = the zero `Set{}`) -/
abbrev SetP := Option Distinct

/-- `(*Set).Equivalent()` -/
def setEquivalent : SetP → Distinct
  | none => emptyDistinct
  | some none => emptyDistinct
  | some (some a) => some a

/-- `(*Set).Len()` -/
def setLen : SetP → Nat
  | none => 0
  | some none => 0
  | some (some a) => a.n

/-- `(*Set).Get(idx)` -/
def setGet (l : SetP) (idx : Int) : Option KV :=
  match l with
  | none => none
  | some none => none
  | some (some a) => if 0 ≤ idx ∧ idx < a.n then a.elems[idx.toNat]? else none

/-- `(*Set).ToSlice()` (through `Iter`) -/
def setToSlice (l : SetP) : List KV := (List.range (setLen l)).filterMap (fun i => setGet l (Int.ofNat i))

/-- Go `==` on two `Distinct` values: interface comparison (nil, dynamic type `[n]KeyValue`, then elements) -/
def distinctEq : Distinct → Distinct → Bool
  | none, none => true
  | some a, some b => a.n == b.n && relList goEq a.elems b.elems
  | _, _ => false

/-- `(*Set).Equals(o)` -/
def setEquals (l o : SetP) : Bool := distinctEq (setEquivalent l) (setEquivalent o)

/-- the representation's normal form of a value: `-0` and `+0` inside a FLOAT64SLICE are the same array element under `==` -/
def normF (b : UInt64) : UInt64 := if isZero b then 0 else b
def normVal : Value → Value
  | .floats l => .floats (l.map normF)
  | v => v
def normKV (kv : KV) : KV := ⟨kv.key, normVal kv.val⟩

/-! ### `slices.SortStableFunc(kvs, cmp.Compare(a.Key, b.Key))` -/

def insertKV (x : KV) : List KV → List KV
  | [] => [x]
  | y :: ys => if bLt y.key x.key then y :: insertKV x ys else x :: y :: ys

/-- reference: THE stable sort by key (unique: `stable_sort_unique`) -/
def sortStable : List KV → List KV
  | [] => []
  | x :: xs => insertKV x (sortStable xs)

/-! ### `slices.SortStableFunc` as written in the Go standard library (slices/zsortanyfunc.go)

`stableCmpFunc`: insertion-sort blocks of 20 elements, then rounds of `symMergeCmpFunc` on adjacent
runs with doubling block size. The insertion sort is modelled swap by swap; `symMergeCmpFunc`
(rotations + binary searches) by its contract: the stable merge of two adjacent sorted runs.
For `len(kvs) <= 20` (almost every attribute set) no merge happens. -/

/-- inner loop of `insertionSortCmpFunc`: `for j := i; j > a && cmp(data[j], data[j-1]) < 0; j-- { swap(j, j-1) }`.
`revPre` = `data[a:i]` reversed (nearest element first), `x = data[i]`; result: `data[a:i+1]` reversed. -/
def sinkLeft (x : KV) : List KV → List KV
  | [] => [x]
  | y :: ys => if bLt x.key y.key then y :: sinkLeft x ys else x :: y :: ys

/-- `insertionSortCmpFunc(data, a, b)` on the segment `data[a:b]` -/
def goInsertionSort (seg : List KV) : List KV :=
  (seg.foldl (fun revPre x => sinkLeft x revPre) []).reverse

/-- the segments `[0,bs) [bs,2bs) … [a,n)` of the first loop of `stableCmpFunc` (an empty last segment is dropped) -/
def sortBlocks (bs : Nat) : Nat → List KV → List (List KV)
  | 0, _ => []
  | f + 1, l => if l.length = 0 then [] else l.take bs :: sortBlocks bs f (l.drop bs)

/-- contract of `symMergeCmpFunc(data, a, m, b)`: stable merge of the sorted runs `data[a:m]`, `data[m:b]`
(on equal keys the left run's elements come first) -/
def mergeRunsAux : Nat → List KV → List KV → List KV
  | 0, a, b => a ++ b
  | _ + 1, [], b => b
  | _ + 1, a, [] => a
  | f + 1, x :: a, y :: b =>
    if bLt y.key x.key then y :: mergeRunsAux f (x :: a) b else x :: mergeRunsAux f a (y :: b)

def mergeRuns (a b : List KV) : List KV := mergeRunsAux (a.length + b.length) a b

/-- one round of the second loop: merge runs pairwise, a last unpaired run stays -/
def mergePairs : List (List KV) → List (List KV)
  | r1 :: r2 :: rest => mergeRuns r1 r2 :: mergePairs rest
  | rs => rs

/-- `for blockSize < n { …; blockSize *= 2 }`: rounds until one run is left -/
def mergeRounds : Nat → List (List KV) → List KV
  | 0, rs => rs.flatten
  | _ + 1, [] => []
  | _ + 1, [r] => r
  | f + 1, rs => mergeRounds f (mergePairs rs)

/-- `slices.SortStableFunc(kvs, func(a, b) int { return cmp.Compare(a.Key, b.Key) })` -/
def goSortStable (l : List KV) : List KV :=
  mergeRounds l.length ((sortBlocks 20 l.length l).map goInsertionSort)

/-- `KeyValue{}`: what `Get` returns out of range -/
def zeroKV : KV := ⟨[], .invalid⟩

/-- `sort.Search`'s loop (`i, j := 0, n; for i < j { h := (i+j)/2; if !f(h) {i = h+1} else {j = h} }`) -/
def searchAux (f : Nat → Bool) : Nat → Nat → Nat → Nat
  | 0, i, _ => i
  | fuel + 1, i, j =>
    if i < j then
      let h := (i + j) / 2
      if !f h then searchAux f fuel (h + 1) j else searchAux f fuel i h
    else i

/-! ### `symMergeCmpFunc` (slices/zsortanyfunc.go) with its binary searches and its recursion -/

/-- `data[i]` of a segment (the zero KeyValue out of range: never read) -/
def dAt (l : List KV) (i : Nat) : KV := (l[i]?).getD zeroKV

/-- `symMergeCmpFunc(data, a, m, b)` on the segment `data[a:b] = L ++ R` (`L = data[a:m]`, `R = data[m:b]`,
indices relative to `a`). The three binary-search loops are the loop of `searchAux` (same
`h := (i+j)/2`, same update) with the comparison of each site; the swap loops of the two
single-element cases and `rotateCmpFunc` are modelled by their effect (moving one element / exchanging
the two adjacent blocks `data[start:m]`, `data[m:end]`); the two recursive calls and their guards are literal. -/
def symMerge : Nat → List KV → List KV → List KV
  | 0, L, R => L ++ R
  | f + 1, L, R =>
    let M := L.length
    let N := R.length
    let D := L ++ R
    if M = 0 ∨ N = 0 then L ++ R
    else if M = 1 then
      -- `if cmp(data[h], data[a]) < 0 { i = h + 1 } else { j = h }` over [m, b)
      let i := searchAux (fun h => !bLt (dAt D h).key (dAt D 0).key) (M + N) M (M + N)
      R.take (i - M) ++ dAt D 0 :: R.drop (i - M)
    else if N = 1 then
      -- `if !(cmp(data[m], data[h]) < 0) { i = h + 1 } else { j = h }` over [a, m)
      let i := searchAux (fun h => bLt (dAt D M).key (dAt D h).key) (M + N) 0 M
      L.take i ++ dAt D M :: L.drop i
    else
      let mid := (M + N) / 2
      let n := mid + M
      let start0 := if M > mid then n - (M + N) else 0
      let r0 := if M > mid then mid else M
      let p := n - 1
      -- `if !(cmp(data[p-c], data[c]) < 0) { start = c + 1 } else { r = c }`
      let start := searchAux (fun c => bLt (dAt D (p - c)).key (dAt D c).key) (M + N) start0 r0
      let e := n - start
      let L1 := L.take start
      let L2 := L.drop start
      let R1 := R.take (e - M)
      let R2 := R.drop (e - M)
      (if 0 < start ∧ start < mid then symMerge f L1 R1 else L1 ++ R1) ++
        (if mid < e ∧ e < M + N then symMerge f L2 R2 else L2 ++ R2)

/-- one round of the second loop of `stableCmpFunc` with `symMergeCmpFunc` itself -/
def mergePairsSym : List (List KV) → List (List KV)
  | r1 :: r2 :: rest => symMerge (r1.length + r2.length) r1 r2 :: mergePairsSym rest
  | rs => rs

def mergeRoundsSym : Nat → List (List KV) → List KV
  | 0, rs => rs.flatten
  | _ + 1, [] => []
  | _ + 1, [r] => r
  | f + 1, rs => mergeRoundsSym f (mergePairsSym rs)

/-- `slices.SortStableFunc` with nothing left to a contract -/
def goSortStableSym (l : List KV) : List KV :=
  mergeRoundsSym l.length ((sortBlocks 20 l.length l).map goInsertionSort)

/-! ### The in-place loops -/

/-- last element to the front: what `swap(a[i], a[j-1])` does to the region `a[i+1..j)` seen from
the new index `i` -/
def rotR {α : Type} (l : List α) : List α :=
  match l.getLast? with
  | none => []
  | some y => y :: l.dropLast

/-- `for ; offset >= 0; offset-- { if kvs[offset].Key == kvs[position].Key {continue}; position--; swap }`.
Array = `revA.reverse ++ m ++ w :: ws`; `offset` = last index of `revA.reverse`; `position` = index of `w`. -/
def dedupLoop : List KV → List KV → KV → List KV → List KV × List KV
  | [], m, w, ws => (m, w :: ws)
  | x :: revA, m, w, ws =>
    if x.key == w.key then dedupLoop revA (x :: m) w ws
    else dedupLoop revA (rotR m) x (w :: ws)

/-- de-dup of a sorted slice: (superseded duplicates left in the prefix, `kvs[position:]`) -/
def dedup (sorted : List KV) : List KV × List KV :=
  match sorted.reverse with
  | [] => ([], [])
  | w :: revA => dedupLoop revA [] w []

/-- `filteredToFront`: array = `revA.reverse ++ d ++ k`; `i` = last index of `revA.reverse`, `j` = index of `k`'s head -/
def ftfLoop (keep : KV → Bool) : List KV → List KV → List KV → List KV × List KV
  | [], d, k => (d, k)
  | x :: revA, d, k =>
    if keep x then ftfLoop keep revA (rotR d) (x :: k)
    else ftfLoop keep revA (x :: d) k

/-- (`slice[:j]` dropped, `slice[j:]` kept) -/
def filteredToFront (keep : KV → Bool) (slice : List KV) : List KV × List KV :=
  ftfLoop keep slice.reverse [] []

structure NewSetResult where
  set : List KV        -- contents of the returned Set
  dropped : List KV    -- second result (`nil` and empty are not distinguished)
  after : List KV      -- the caller's slice after the call
deriving DecidableEq, Repr

/-- `NewSetWithFiltered(kvs, filter)`; `filter = none` is the nil filter (`NewSet`) -/
def newSetWithFiltered (kvs : List KV) (filter : Option (KV → Bool)) : NewSetResult :=
  if kvs.length = 0 then ⟨[], [], kvs⟩
  else
    let dd := dedup (goSortStableSym kvs)   -- (kvs[:position], kvs[position:])
    match filter with
    | none => ⟨dd.2, [], dd.1 ++ dd.2⟩
    | some keep =>
      let ft := filteredToFront keep dd.2   -- (kvs[:div], kvs[div:])
      if ft.1.length ≠ 0 then ⟨ft.2, ft.1, dd.1 ++ (ft.1 ++ ft.2)⟩
      else ⟨ft.1 ++ ft.2, [], dd.1 ++ (ft.1 ++ ft.2)⟩

def newSet (kvs : List KV) : List KV := (newSetWithFiltered kvs none).set

/-- `NewAllowKeysFilter(keys...)` (filter.go): no keys = deny all; otherwise membership in the key map -/
def allowKeysFilter (keys : List Bytes) : KV → Bool :=
  if keys.length ≤ 0 then fun _ => false else fun kv => keys.contains kv.key

/-- `NewDenyKeysFilter(keys...)`: no keys = allow all; otherwise non-membership -/
def denyKeysFilter (keys : List Bytes) : KV → Bool :=
  if keys.length ≤ 0 then fun _ => true else fun kv => !keys.contains kv.key

/-- split at the last element that is filtered out: `first` of `Set.Filter` -/
def splitLastDropped (re : KV → Bool) : List KV → Option (List KV × KV × List KV)
  | [] => none
  | x :: r =>
    match splitLastDropped re r with
    | some (pre, kv, suf) => some (x :: pre, kv, suf)
    | none => if re x then none else some ([], x, r)

/-- `Set.Filter(re)`: (kept set, dropped slice); `re = none` is the nil filter -/
def setFilter (s : List KV) (re : Option (KV → Bool)) : List KV × List KV :=
  match re with
  | none => (s, [])
  | some re =>
    match splitLastDropped re s with
    | none => (s, [])
    | some (pre, kv, suf) =>
      if pre.length = 0 then (suf, [kv])
      else
        let ft := filteredToFront re pre
        (ft.2 ++ suf, kv :: ft.1)

/-- `(*Set).Filter(re)` on a pointer: `none` = the nil-pointer dereference `*l` of the code (every
other method of `*Set` treats nil as the empty Set; `Filter` does not: quirk, mirrored) -/
def setFilterP (l : SetP) (re : Option (KV → Bool)) : Option (List KV × List KV) :=
  match l with
  | none => none
  | some d => some (setFilter (setToSlice (some d)) re)

/-! ### `Set.Value` : `sort.Search` + exact match -/

def search (n : Nat) (f : Nat → Bool) : Nat := searchAux f n 0 n

def value (s : List KV) (k : Bytes) : Option Value :=
  let idx := search s.length (fun i => match s[i]? with
    | some kv => !bLt kv.key k      -- Key >= k
    | none => true)
  match s[idx]? with
  | some kv => if kv.key == k then some kv.val else none
  | none => none

/-! ### `MergeIterator` -/

def mergeAux : Nat → List KV → List KV → List KV
  | 0, _, _ => []
  | _ + 1, [], b => b
  | _ + 1, a, [] => a
  | f + 1, x :: a, y :: b =>
    if x.key == y.key then x :: mergeAux f a b
    else if bLt x.key y.key then x :: mergeAux f a (y :: b)
    else y :: mergeAux f (x :: a) b

/-- the attributes a `NewMergeIterator(a, b)` yields -/
def mergeIter (a b : List KV) : List KV := mergeAux (a.length + b.length + 1) a b

/-! ### `Iterator`, `oneIterator`, `MergeIterator` as the state machines of iterator.go -/

/-- `Iterator{storage, idx}`; `storage` = the contents of the Set it points to -/
structure Iter where
  storage : List KV
  idx : Int := -1
deriving DecidableEq, Repr

/-- `Next`: `i.idx++; return i.idx < i.Len()` -/
def Iter.next (i : Iter) : Iter × Bool :=
  ({ i with idx := i.idx + 1 }, decide (i.idx + 1 < i.storage.length))

/-- `Attribute` = `storage.Get(idx)` (the zero KeyValue out of range) -/
def Iter.attribute (i : Iter) : KV :=
  if 0 ≤ i.idx ∧ i.idx < i.storage.length then (i.storage[i.idx.toNat]?).getD zeroKV else zeroKV

/-- `for i.Next() { slice = append(slice, i.Attribute()) }` -/
def Iter.drain : Nat → Iter → Iter × List KV
  | 0, i => (i, [])
  | f + 1, i =>
    let n := i.next
    if n.2 then
      let r := Iter.drain f n.1
      (r.1, n.1.attribute :: r.2)
    else (n.1, [])

/-- `ToSlice`: nothing (and the position untouched) for an empty Set; otherwise rewind and run to the end -/
def Iter.toSlice (i : Iter) : Iter × List KV :=
  if i.storage.length = 0 then (i, []) else Iter.drain (i.storage.length + 1) { i with idx := -1 }

structure OneIter where
  iter : Iter
  done : Bool := false
  attr : KV := zeroKV
deriving DecidableEq, Repr

/-- `advance`: `if oi.done = !oi.iter.Next(); !oi.done { oi.attr = oi.iter.Attribute() }` -/
def OneIter.advance (oi : OneIter) : OneIter :=
  let n := oi.iter.next
  if n.2 then { iter := n.1, done := false, attr := n.1.attribute }
  else { oi with iter := n.1, done := true }

/-- `makeOne(set.Iter())` -/
def makeOne (s : List KV) : OneIter := OneIter.advance { iter := { storage := s } }

structure MergeIt where
  one : OneIter
  two : OneIter
  current : KV := zeroKV
deriving DecidableEq, Repr

/-- `MergeIterator.Next` -/
def MergeIt.next (m : MergeIt) : MergeIt × Bool :=
  if m.one.done && m.two.done then (m, false)
  else if m.one.done then ({ m with current := m.two.attr, two := m.two.advance }, true)
  else if m.two.done then ({ m with current := m.one.attr, one := m.one.advance }, true)
  else if m.one.attr.key == m.two.attr.key then
    ({ current := m.one.attr, one := m.one.advance, two := m.two.advance }, true)
  else if bLt m.one.attr.key m.two.attr.key then ({ m with current := m.one.attr, one := m.one.advance }, true)
  else ({ m with current := m.two.attr, two := m.two.advance }, true)

/-- `for it.Next() { got = append(got, it.Attribute()) }` -/
def MergeIt.drain : Nat → MergeIt → List KV
  | 0, _ => []
  | f + 1, m =>
    let n := m.next
    if n.2 then n.1.current :: MergeIt.drain f n.1 else []

/-- what iterating `NewMergeIterator(a, b)` yields, step by step -/
def mergeIterSM (a b : List KV) : List KV :=
  MergeIt.drain (a.length + b.length + 1) { one := makeOne a, two := makeOne b }

/-! ### default encoder -/

/-- `copyAndEscape`: `for _, ch := range val { if ch ∈ {'=', ',', '\\'} {WriteRune('\\')}; WriteRune(ch) }`
(an invalid byte is ranged over as U+FFFD and written as its three bytes) -/
def escape (s : Bytes) : Bytes :=
  (Utf8.chunks s).flatMap (fun c =>
    let out : Bytes := if c.invalid then [0xEF, 0xBF, 0xBD] else c.bytes
    if c.rune = 0x3D ∨ c.rune = 0x2C ∨ c.rune = 0x5C then 0x5C :: out else out)

/-- one `key=value` item; `emit` is `Value.Emit()` of a non-STRING value (strconv/fmt/json: external) -/
def encodeItem (emit : Value → Bytes) (kv : KV) : Bytes :=
  escape kv.key ++ 0x3D :: (match kv.val with
    | .str s => escape s
    | v => emit v)

def encodeLoop (emit : Value → Bytes) : Nat → List KV → Bytes → Bytes
  | _, [], buf => buf
  | i, kv :: r, buf =>
    let buf := if i > 0 then buf ++ [0x2C] else buf
    encodeLoop emit (i + 1) r (buf ++ encodeItem emit kv)

/-- `defaultAttrEncoder.Encode(set.Iter())` -/
def encode (emit : Value → Bytes) (s : List KV) : Bytes := encodeLoop emit 0 s []

/-- the parts of `Value.Emit` that are modelled: BOOL, INT64 (two's complement decimal), INVALID -/
def natDigits (n : Nat) : Bytes := (Nat.toDigits 10 n).map (fun c => UInt8.ofNat c.toNat)
def emitInt (bits : UInt64) : Bytes :=
  if bits.toNat < 2 ^ 63 then natDigits bits.toNat else 0x2D :: natDigits (2 ^ 64 - bits.toNat)
/-- join with a one-byte separator -/
def joinSep (sep : UInt8) : List Bytes → Bytes
  | [] => []
  | [x] => x
  | x :: y :: r => x ++ sep :: joinSep sep (y :: r)

def emitBool (b : Bool) : Bytes := if b then [0x74, 0x72, 0x75, 0x65] else [0x66, 0x61, 0x6c, 0x73, 0x65]

/-- lower-case hex digit (encoding/json's `hex`) -/
def hexLow (n : Nat) : UInt8 := if n < 10 then UInt8.ofNat (0x30 + n) else UInt8.ofNat (0x57 + n)

/-- encoding/json `htmlSafeSet` for ASCII: printable, except `"` `&` `<` `>` `\` -/
def jsonSafe (b : UInt8) : Bool :=
  decide (0x20 ≤ b.toNat) && b != 0x22 && b != 0x26 && b != 0x3C && b != 0x3E && b != 0x5C

/-- what `appendString(dst, src, escapeHTML = true)` writes for one rune of `src` -/
def jsonChunk (c : Utf8.Chunk) : Bytes :=
  if c.invalid then [0x5C, 0x75, 0x66, 0x66, 0x66, 0x64]                      -- \ufffd
  else if c.rune < 0x80 then
    let b := UInt8.ofNat c.rune
    if jsonSafe b then [b]
    else if b == 0x5C || b == 0x22 then [0x5C, b]
    else if b == 0x08 then [0x5C, 0x62]
    else if b == 0x0C then [0x5C, 0x66]
    else if b == 0x0A then [0x5C, 0x6E]
    else if b == 0x0D then [0x5C, 0x72]
    else if b == 0x09 then [0x5C, 0x74]
    else [0x5C, 0x75, 0x30, 0x30, hexLow (c.rune / 16), hexLow (c.rune % 16)]
  else if c.rune = 0x2028 then [0x5C, 0x75, 0x32, 0x30, 0x32, 0x38]
  else if c.rune = 0x2029 then [0x5C, 0x75, 0x32, 0x30, 0x32, 0x39]
  else c.bytes

/-- a JSON string as `json.Marshal` writes it -/
def jsonString (s : Bytes) : Bytes := 0x22 :: ((Utf8.chunks s).flatMap jsonChunk ++ [0x22])

/-- `Value.Emit` (value.go) for every type except FLOAT64 / FLOAT64SLICE (strconv float formatting is
external): BOOL, INT64 via strconv; BOOLSLICE via `fmt.Sprint` (`[true false]`); INT64SLICE and
STRINGSLICE via `json.Marshal` (`[1,-2]`, `["a","b"]` with JSON/HTML escaping); INVALID ↦ "unknown" -/
def emitKnown : Value → Option Bytes
  | .invalid => some "unknown".toUTF8.toList
  | .bool b => some (emitBool b)
  | .int b => some (emitInt b)
  | .bools l => some (0x5B :: (joinSep 0x20 (l.map emitBool) ++ [0x5D]))
  | .ints l => some (0x5B :: (joinSep 0x2C (l.map emitInt) ++ [0x5D]))
  | .strs l => some (0x5B :: (joinSep 0x2C (l.map jsonString) ++ [0x5D]))
  | _ => none

/-! ### scripts: several calls on several Sets whose results all stay alive

Every result of the Go API (a Set, a dropped slice, the caller's slice, a merged list, a looked-up
value) is a *value* here; `results` records, per call, what it returned. -/

inductive SeqOp where
  | set (kvs : List KV)                                   -- s := NewSet(kvs...)
  | newset (kvs : List KV) (filter : Option (KV → Bool))  -- NewSetWithFiltered
  | filter (i : Nat) (re : Option (KV → Bool))            -- sets[i].Filter(re)
  | merge (i j : Nat)                                     -- NewMergeIterator(&sets[i], &sets[j])
  | value (i : Nat) (k : Bytes)                           -- sets[i].Value(k)

/-- a looked-up value as a result: `[]` (absent) or one item with the empty key -/
def valRes : Option Value → List KV
  | none => []
  | some v => [⟨[], v⟩]

structure SeqState where
  sets : List (List KV) := []             -- the Sets created so far (`set`, `newset`, `filter` append one each)
  results : List (List (List KV)) := []   -- per call, the results it returned

def seqStep (st : SeqState) : SeqOp → SeqState
  | .set kvs => ⟨st.sets ++ [newSet kvs], st.results ++ [[newSet kvs]]⟩
  | .newset kvs f =>
    let r := newSetWithFiltered kvs f
    ⟨st.sets ++ [r.set], st.results ++ [[r.set, r.dropped, r.after]]⟩
  | .filter i re =>
    let s := st.sets.getD i []
    let r := setFilter s re
    ⟨st.sets ++ [r.1], st.results ++ [[r.1, r.2, s]]⟩
  | .merge i j => ⟨st.sets, st.results ++ [[mergeIter (st.sets.getD i []) (st.sets.getD j [])]]⟩
  | .value i k => ⟨st.sets, st.results ++ [[valRes (value (st.sets.getD i []) k)]]⟩

def runSeq (ops : List SeqOp) : SeqState := ops.foldl seqStep {}

end C05
end Otel
