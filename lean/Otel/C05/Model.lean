/-
C05 — executable model of `attribute.Set` (attribute/set.go, iterator.go, value.go, encoder.go), core Lean only.

A Go `[]KeyValue` / `[n]KeyValue` is a `List KV`.  The two in-place loops of `NewSetWithFiltered`
(backward de-dup swap loop, `filteredToFront`) are modelled on a *zipper* of the array:
the array is always `unvisited ++ middle ++ tail`, the loop index walks the unvisited part from its
end, and a Go `swap(kvs[i], kvs[j-1])` with `j-1` the last index of the middle region is the step
`middle := rotR middle; tail := x :: tail`.  So the model yields the caller's slice afterwards
element by element (it is compared with the real slice on every `newset` line).

Floats travel as IEEE-754 bit patterns (`UInt64`); there is no `Float` anywhere.
External: `slices.SortStableFunc` is modelled by its contract (a stable sort by key; the stable
sort w.r.t. a total preorder is a unique function, here written as insertion sort so that the
kernel can evaluate it), `sort.Search` is modelled as written in the Go standard library.
-/
import Otel.Base.Utf8
namespace Otel
namespace C05

/-- `attribute.Value`: eight public constructors plus the zero Value (INVALID).
BOOL/INT64/FLOAT64 keep their payload in `numeric` (bits), STRING in `stringly`, the four slice
types as `[n]T` arrays behind an interface. -/
inductive Value where
  | invalid
  | bool (b : Bool)
  | int (bits : UInt64)
  | float (bits : UInt64)
  | str (s : Bytes)
  | bools (l : List Bool)
  | ints (l : List UInt64)
  | floats (l : List UInt64)
  | strs (l : List Bytes)
deriving DecidableEq, Repr, Inhabited

structure KV where
  key : Bytes
  val : Value
deriving DecidableEq, Repr, Inhabited

/-! ### Go string order on keys (bytewise lexicographic) -/

/-- `a < b` for Go strings -/
def bLt : Bytes → Bytes → Bool
  | _, [] => false
  | [], _ :: _ => true
  | a :: as, b :: bs => decide (a.toNat < b.toNat) || (decide (a.toNat = b.toNat) && bLt as bs)

/-! ### Go `==` on values (what array/interface comparison does) -/

def isNaN (b : UInt64) : Bool := decide ((b &&& 0x7FFFFFFFFFFFFFFF).toNat > 0x7FF0000000000000)
def isZero (b : UInt64) : Bool := (b &&& 0x7FFFFFFFFFFFFFFF) == 0

/-- IEEE-754 `==` on bit patterns: NaN differs from everything, `-0 == +0`, otherwise same bits -/
def ieeeEq (a b : UInt64) : Bool := !isNaN a && !isNaN b && (a == b || (isZero a && isZero b))

/-- same length and pointwise related (Go `[n]T == [m]T` behind interfaces: different `n` are
different dynamic types) -/
def listRel {α : Type} (r : α → α → Bool) : List α → List α → Bool
  | [], [] => true
  | a :: as, b :: bs => r a b && listRel r as bs
  | _, _ => false

/-- Go `==` on `attribute.Value`: FLOAT64 scalars are compared as `numeric` bits, FLOAT64SLICE
arrays elementwise with IEEE `==` (F9), everything else structurally -/
def goEq (v w : Value) : Bool :=
  match v, w with
  | .floats a, .floats b => listRel ieeeEq a b
  | _, _ => v == w

/-- Go `==` of two `[n]KeyValue` arrays behind `Distinct.iface`: `Set.Equals`, and map-key identity
of `Equivalent()` -/
def relList (r : Value → Value → Bool) : List KV → List KV → Bool
  | [], [] => true
  | x :: a, y :: b => x.key == y.key && r x.val y.val && relList r a b
  | _, _ => false

def equal (a b : List KV) : Bool := relList goEq a b

/-- the known finding: some FLOAT64SLICE value contains a NaN -/
def valHasNaN : Value → Bool
  | .floats l => l.any isNaN
  | _ => false
def F9_applies (s : List KV) : Bool := s.any (fun kv => valHasNaN kv.val)

/-! ### `slices.SortStableFunc(kvs, cmp.Compare(a.Key, b.Key))` -/

def insertKV (x : KV) : List KV → List KV
  | [] => [x]
  | y :: ys => if bLt y.key x.key then y :: insertKV x ys else x :: y :: ys

/-- stable sort by key (contract of `slices.SortStableFunc`) -/
def sortStable : List KV → List KV
  | [] => []
  | x :: xs => insertKV x (sortStable xs)

/-! ### The in-place loops -/

/-- last element to the front: what `swap(a[i], a[j-1])` does to the region `a[i+1..j)` seen from
the new index `i` -/
def rotR {α : Type} (l : List α) : List α :=
  match l.getLast? with
  | none => []
  | some y => y :: l.dropLast

/-- `for ; offset >= 0; offset-- { if kvs[offset].Key == kvs[position].Key {continue}; position--; swap }`.
Array = `revA.reverse ++ m ++ w :: ws`; `offset` = last index of `revA.reverse`; `position` = index of `w`. -/
def dedupLoop : List KV → List KV → KV → List KV → List KV × List KV
  | [], m, w, ws => (m, w :: ws)
  | x :: revA, m, w, ws =>
    if x.key == w.key then dedupLoop revA (x :: m) w ws
    else dedupLoop revA (rotR m) x (w :: ws)

/-- de-dup of a sorted slice: (superseded duplicates left in the prefix, `kvs[position:]`) -/
def dedup (sorted : List KV) : List KV × List KV :=
  match sorted.reverse with
  | [] => ([], [])
  | w :: revA => dedupLoop revA [] w []

/-- `filteredToFront`: array = `revA.reverse ++ d ++ k`; `i` = last index of `revA.reverse`, `j` = index of `k`'s head -/
def ftfLoop (keep : KV → Bool) : List KV → List KV → List KV → List KV × List KV
  | [], d, k => (d, k)
  | x :: revA, d, k =>
    if keep x then ftfLoop keep revA (rotR d) (x :: k)
    else ftfLoop keep revA (x :: d) k

/-- (`slice[:j]` dropped, `slice[j:]` kept) -/
def filteredToFront (keep : KV → Bool) (slice : List KV) : List KV × List KV :=
  ftfLoop keep slice.reverse [] []

structure NewSetResult where
  set : List KV        -- contents of the returned Set
  dropped : List KV    -- second result (`nil` and empty are not distinguished)
  after : List KV      -- the caller's slice after the call
deriving DecidableEq, Repr

/-- `NewSetWithFiltered(kvs, filter)`; `filter = none` is the nil filter (`NewSet`) -/
def newSetWithFiltered (kvs : List KV) (filter : Option (KV → Bool)) : NewSetResult :=
  if kvs.length = 0 then ⟨[], [], kvs⟩
  else
    let dd := dedup (sortStable kvs)   -- (kvs[:position], kvs[position:])
    match filter with
    | none => ⟨dd.2, [], dd.1 ++ dd.2⟩
    | some keep =>
      let ft := filteredToFront keep dd.2   -- (kvs[:div], kvs[div:])
      if ft.1.length ≠ 0 then ⟨ft.2, ft.1, dd.1 ++ (ft.1 ++ ft.2)⟩
      else ⟨ft.1 ++ ft.2, [], dd.1 ++ (ft.1 ++ ft.2)⟩

def newSet (kvs : List KV) : List KV := (newSetWithFiltered kvs none).set

/-- split at the last element that is filtered out: `first` of `Set.Filter` -/
def splitLastDropped (re : KV → Bool) : List KV → Option (List KV × KV × List KV)
  | [] => none
  | x :: r =>
    match splitLastDropped re r with
    | some (pre, kv, suf) => some (x :: pre, kv, suf)
    | none => if re x then none else some ([], x, r)

/-- `Set.Filter(re)`: (kept set, dropped slice); `re = none` is the nil filter -/
def setFilter (s : List KV) (re : Option (KV → Bool)) : List KV × List KV :=
  match re with
  | none => (s, [])
  | some re =>
    match splitLastDropped re s with
    | none => (s, [])
    | some (pre, kv, suf) =>
      if pre.length = 0 then (suf, [kv])
      else
        let ft := filteredToFront re pre
        (ft.2 ++ suf, kv :: ft.1)

/-! ### `Set.Value` : `sort.Search` + exact match -/

/-- `sort.Search`'s loop (`i, j := 0, n; for i < j { h := (i+j)/2; if !f(h) {i = h+1} else {j = h} }`) -/
def searchAux (f : Nat → Bool) : Nat → Nat → Nat → Nat
  | 0, i, _ => i
  | fuel + 1, i, j =>
    if i < j then
      let h := (i + j) / 2
      if !f h then searchAux f fuel (h + 1) j else searchAux f fuel i h
    else i

def search (n : Nat) (f : Nat → Bool) : Nat := searchAux f n 0 n

def value (s : List KV) (k : Bytes) : Option Value :=
  let idx := search s.length (fun i => match s[i]? with
    | some kv => !bLt kv.key k      -- Key >= k
    | none => true)
  match s[idx]? with
  | some kv => if kv.key == k then some kv.val else none
  | none => none

/-! ### `MergeIterator` -/

def mergeAux : Nat → List KV → List KV → List KV
  | 0, _, _ => []
  | _ + 1, [], b => b
  | _ + 1, a, [] => a
  | f + 1, x :: a, y :: b =>
    if x.key == y.key then x :: mergeAux f a b
    else if bLt x.key y.key then x :: mergeAux f a (y :: b)
    else y :: mergeAux f (x :: a) b

/-- the attributes a `NewMergeIterator(a, b)` yields -/
def mergeIter (a b : List KV) : List KV := mergeAux (a.length + b.length + 1) a b

/-! ### default encoder -/

/-- `copyAndEscape`: `for _, ch := range val { if ch ∈ {'=', ',', '\\'} {WriteRune('\\')}; WriteRune(ch) }`
(an invalid byte is ranged over as U+FFFD and written as its three bytes) -/
def escape (s : Bytes) : Bytes :=
  (Utf8.chunks s).flatMap (fun c =>
    let out : Bytes := if c.invalid then [0xEF, 0xBF, 0xBD] else c.bytes
    if c.rune = 0x3D ∨ c.rune = 0x2C ∨ c.rune = 0x5C then 0x5C :: out else out)

/-- one `key=value` item; `emit` is `Value.Emit()` of a non-STRING value (strconv/fmt/json: external) -/
def encodeItem (emit : Value → Bytes) (kv : KV) : Bytes :=
  escape kv.key ++ 0x3D :: (match kv.val with
    | .str s => escape s
    | v => emit v)

def encodeLoop (emit : Value → Bytes) : Nat → List KV → Bytes → Bytes
  | _, [], buf => buf
  | i, kv :: r, buf =>
    let buf := if i > 0 then buf ++ [0x2C] else buf
    encodeLoop emit (i + 1) r (buf ++ encodeItem emit kv)

/-- `defaultAttrEncoder.Encode(set.Iter())` -/
def encode (emit : Value → Bytes) (s : List KV) : Bytes := encodeLoop emit 0 s []

/-- the parts of `Value.Emit` that are modelled: BOOL, INT64 (two's complement decimal), INVALID -/
def natDigits (n : Nat) : Bytes := (Nat.toDigits 10 n).map (fun c => UInt8.ofNat c.toNat)
def emitInt (bits : UInt64) : Bytes :=
  if bits.toNat < 2 ^ 63 then natDigits bits.toNat else 0x2D :: natDigits (2 ^ 64 - bits.toNat)
def emitKnown : Value → Option Bytes
  | .invalid => some "unknown".toUTF8.toList
  | .bool true => some "true".toUTF8.toList
  | .bool false => some "false".toUTF8.toList
  | .int b => some (emitInt b)
  | _ => none

/-! ### scripts: several calls on several Sets whose results all stay alive

Every result of the Go API (a Set, a dropped slice, the caller's slice, a merged list, a looked-up
value) is a *value* here; `results` records, per call, what it returned. -/

inductive SeqOp where
  | set (kvs : List KV)                                   -- s := NewSet(kvs...)
  | newset (kvs : List KV) (filter : Option (KV → Bool))  -- NewSetWithFiltered
  | filter (i : Nat) (re : Option (KV → Bool))            -- sets[i].Filter(re)
  | merge (i j : Nat)                                     -- NewMergeIterator(&sets[i], &sets[j])
  | value (i : Nat) (k : Bytes)                           -- sets[i].Value(k)

/-- a looked-up value as a result: `[]` (absent) or one item with the empty key -/
def valRes : Option Value → List KV
  | none => []
  | some v => [⟨[], v⟩]

structure SeqState where
  sets : List (List KV) := []             -- the Sets created so far (`set`, `newset`, `filter` append one each)
  results : List (List (List KV)) := []   -- per call, the results it returned

def seqStep (st : SeqState) : SeqOp → SeqState
  | .set kvs => ⟨st.sets ++ [newSet kvs], st.results ++ [[newSet kvs]]⟩
  | .newset kvs f =>
    let r := newSetWithFiltered kvs f
    ⟨st.sets ++ [r.set], st.results ++ [[r.set, r.dropped, r.after]]⟩
  | .filter i re =>
    let s := st.sets.getD i []
    let r := setFilter s re
    ⟨st.sets ++ [r.1], st.results ++ [[r.1, r.2, s]]⟩
  | .merge i j => ⟨st.sets, st.results ++ [[mergeIter (st.sets.getD i []) (st.sets.getD j [])]]⟩
  | .value i k => ⟨st.sets, st.results ++ [[valRes (value (st.sets.getD i []) k)]]⟩

def runSeq (ops : List SeqOp) : SeqState := ops.foldl seqStep {}

end C05
end Otel
