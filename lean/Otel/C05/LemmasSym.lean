/-
C05 — `symMergeCmpFunc` (Model.symMerge) is the stable merge.
-/
import Otel.C05.LemmasSort
namespace Otel.C05
open Otel Otel.C05.Spec

/-- window version of `searchAux_spec`: the loop started at `[i, j)` inside `[lo, n)` -/
theorem searchAux_window (f : Nat → Bool) (lo n : Nat)
    (hmono : ∀ i j, lo ≤ i → i ≤ j → j < n → f i = true → f j = true)
    (fuel i j : Nat) (hli : lo ≤ i) (hij : i ≤ j) (hjn : j ≤ n) (hfuel : j - i ≤ fuel)
    (hlo : ∀ t, lo ≤ t → t < i → f t = false) (hhi : ∀ t, j ≤ t → t < n → f t = true) :
    i ≤ searchAux f fuel i j ∧ searchAux f fuel i j ≤ j ∧
      (∀ t, lo ≤ t → t < searchAux f fuel i j → f t = false) ∧
      (∀ t, searchAux f fuel i j ≤ t → t < n → f t = true) := by
  induction fuel generalizing i j with
  | zero =>
    have : i = j := by omega
    subst this
    exact ⟨Nat.le_refl _, Nat.le_refl _, hlo, hhi⟩
  | succ fuel ih =>
    unfold searchAux
    by_cases hlt : i < j
    · simp only [hlt, if_true]
      have hh1 : i ≤ (i + j) / 2 := by omega
      have hh2 : (i + j) / 2 < j := by omega
      cases hf : f ((i + j) / 2) with
      | false =>
        simp only [Bool.not_false, if_true]
        obtain ⟨a1, a2, a3, a4⟩ := ih (i := (i + j) / 2 + 1) (j := j) (by omega) (by omega) hjn (by omega)
          (by
            intro t htl ht
            cases hft : f t with
            | false => rfl
            | true =>
              have := hmono t ((i + j) / 2) htl (by omega) (by omega) hft
              rw [hf] at this; cases this) hhi
        exact ⟨by omega, a2, a3, a4⟩
      | true =>
        simp only [Bool.not_true, Bool.false_eq_true, if_false]
        obtain ⟨a1, a2, a3, a4⟩ := ih (i := i) (j := (i + j) / 2) hli hh1 (by omega) (by omega) hlo
          (by intro t ht htn; exact hmono _ t (by omega) ht htn hf)
        exact ⟨a1, by omega, a3, a4⟩
    · simp only [hlt, if_false]
      have : i = j := by omega
      subst this
      exact ⟨Nat.le_refl _, Nat.le_refl _, hlo, hhi⟩

theorem dAt_of_lt {l : List KV} {i : Nat} (h : i < l.length) : dAt l i = l[i] := by
  simp [dAt, List.getElem?_eq_getElem h]

theorem dAt_left (L R : List KV) (c : Nat) (h : c < L.length) : dAt (L ++ R) c = dAt L c := by
  simp [dAt, List.getElem?_append_left h]

theorem dAt_right (L R : List KV) (j : Nat) : dAt (L ++ R) (L.length + j) = dAt R j := by
  simp [dAt, List.getElem?_append_right]

theorem sorted_dAt_le {l : List KV} (hs : Sorted l) {i j : Nat} (hij : i ≤ j) (hj : j < l.length) :
    bLt (dAt l j).key (dAt l i).key = false := by
  by_cases e : i = j
  · subst e; exact bLt_irrefl _
  · rw [dAt_of_lt hj, dAt_of_lt (by omega : i < l.length)]
    exact (List.pairwise_iff_getElem.mp hs) i j (by omega) hj (by omega)

theorem sorted_take {l : List KV} (hs : Sorted l) (s : Nat) : Sorted (l.take s) :=
  List.Pairwise.sublist (List.take_sublist s l) hs
theorem sorted_drop {l : List KV} (hs : Sorted l) (s : Nat) : Sorted (l.drop s) :=
  List.Pairwise.sublist (List.drop_sublist s l) hs

theorem drop_cons_dAt (l : List KV) (s : Nat) (h : s < l.length) : l.drop s = dAt l s :: l.drop (s + 1) := by
  rw [dAt_of_lt h]; exact List.drop_eq_getElem_cons h

theorem take_snoc_dAt (l : List KV) (s : Nat) (h : s < l.length) : l.take (s + 1) = l.take s ++ [dAt l s] := by
  rw [dAt_of_lt h, List.take_add_one, List.getElem?_eq_getElem h]; rfl

/-- everything in `l.drop s` is ≥ `l[s]` -/
theorem mem_drop_ge {l : List KV} (hs : Sorted l) (s : Nat) (h : s < l.length) :
    ∀ x ∈ l.drop s, bLt x.key (dAt l s).key = false := by
  intro x hx
  have hsd := sorted_drop hs s
  rw [drop_cons_dAt l s h] at hx hsd
  rcases List.mem_cons.mp hx with e | hx'
  · rw [e]; exact bLt_irrefl _
  · exact sorted_head_le hsd x hx'

/-- everything in `l.take s` is ≤ `l[s-1]` -/
theorem mem_take_le {l : List KV} (hs : Sorted l) (s : Nat) (h0 : 0 < s) (h : s ≤ l.length) :
    ∀ x ∈ l.take s, bLt (dAt l (s - 1)).key x.key = false := by
  obtain ⟨t, rfl⟩ : ∃ t, s = t + 1 := ⟨s - 1, by omega⟩
  intro x hx
  have hst := sorted_take hs (t + 1)
  rw [take_snoc_dAt l t (by omega)] at hx hst
  simp only [Nat.add_sub_cancel]
  rcases List.mem_append.mp hx with hx' | hx'
  · exact (List.pairwise_append.mp hst).2.2 x hx' _ (by simp)
  · rw [List.mem_singleton.mp hx']; exact bLt_irrefl _

/-- **the cut lemma** behind SymMerge: exchanging the blocks `L2` and `R1` and merging each half separately
is the stable merge, provided `L1 ≤ R2` and `R1 < L2` (strictly) -/
theorem cut_lemma (L1 L2 R1 R2 A B : List KV) (hA : A = sortStable (L1 ++ R1)) (hB : B = sortStable (L2 ++ R2))
    (hL : Sorted (L1 ++ L2)) (hR : Sorted (R1 ++ R2))
    (h1 : ∀ x ∈ L1, ∀ y ∈ R2, bLt y.key x.key = false)
    (h2 : ∀ y ∈ R1, ∀ x ∈ L2, bLt y.key x.key = true) :
    A ++ B = sortStable ((L1 ++ L2) ++ (R1 ++ R2)) := by
  subst hA hB
  apply sorted_filter_unique _ (sortStable_sorted _)
  · intro k
    rw [sortStable_filter]
    simp only [List.filter_append, sortStable_filter]
    have hcomm : R1.filter (byKey k) ++ L2.filter (byKey k) = L2.filter (byKey k) ++ R1.filter (byKey k) := by
      cases hr : R1.filter (byKey k) with
      | nil => simp
      | cons y ys =>
        cases hl : L2.filter (byKey k) with
        | nil => simp
        | cons x xs =>
          have hy := List.mem_filter.mp (by rw [hr]; exact List.mem_cons_self : y ∈ R1.filter (byKey k))
          have hx := List.mem_filter.mp (by rw [hl]; exact List.mem_cons_self : x ∈ L2.filter (byKey k))
          have hlt := h2 y hy.1 x hx.1
          have ey : y.key = k := by simpa [byKey] using hy.2
          have ex : x.key = k := by simpa [byKey] using hx.2
          rw [ey, ex, bLt_irrefl] at hlt; cases hlt
    simp only [List.append_assoc]
    congr 1
    rw [← List.append_assoc, hcomm, List.append_assoc]
  · apply List.pairwise_append.mpr
    refine ⟨sortStable_sorted _, sortStable_sorted _, ?_⟩
    intro a ha b hb
    have ha' : a ∈ L1 ++ R1 := (sortStable_perm _).mem_iff.mp ha
    have hb' : b ∈ L2 ++ R2 := (sortStable_perm _).mem_iff.mp hb
    rcases List.mem_append.mp ha' with ha1 | ha1 <;> rcases List.mem_append.mp hb' with hb1 | hb1
    · exact (List.pairwise_append.mp hL).2.2 a ha1 b hb1
    · exact h1 a ha1 b hb1
    · exact bLt_asymm (h2 a ha1 b hb1)
    · exact (List.pairwise_append.mp hR).2.2 a ha1 b hb1

/-- the general step of SymMerge, with the split point `s` abstract: `s` elements of `L` and `mid - s`
elements of `R` form the first half -/
theorem symMerge_cut (L R : List KV) (hL : Sorted L) (hR : Sorted R) (mid s : Nat)
    (hs0 : s ≤ L.length) (hk : mid - s ≤ R.length)
    (hlow : 0 < s → mid - s < R.length → bLt (dAt R (mid - s)).key (dAt L (s - 1)).key = false)
    (hhigh : s < L.length → 0 < mid - s → bLt (dAt R (mid - s - 1)).key (dAt L s).key = true)
    (A B : List KV) (hA : A = sortStable (L.take s ++ R.take (mid - s)))
    (hB : B = sortStable (L.drop s ++ R.drop (mid - s))) :
    A ++ B = sortStable (L ++ R) := by
  have := cut_lemma (L.take s) (L.drop s) (R.take (mid - s)) (R.drop (mid - s)) A B hA hB
    (by rw [List.take_append_drop]; exact hL) (by rw [List.take_append_drop]; exact hR)
    (by
      intro x hx y hy
      by_cases c1 : 0 < s
      · by_cases c2 : mid - s < R.length
        · have e1 := mem_take_le hL s c1 hs0 x hx      -- x ≤ L[s-1]
          have e2 := mem_drop_ge hR (mid - s) c2 y hy  -- R[k] ≤ y
          exact bLe_trans (bLe_trans e1 (hlow c1 c2)) e2
        · have : R.drop (mid - s) = [] := List.drop_eq_nil_of_le (by omega)
          rw [this] at hy; cases hy
      · have : s = 0 := by omega
        subst this; simp at hx)
    (by
      intro y hy x hx
      by_cases c1 : s < L.length
      · by_cases c2 : 0 < mid - s
        · have e1 := mem_take_le hR (mid - s) c2 hk y hy   -- y ≤ R[k-1]
          have e2 := mem_drop_ge hL s c1 x hx              -- L[s] ≤ x
          exact bLt_le_trans (bLe_lt_trans e1 (hhigh c1 c2)) e2
        · have : mid - s = 0 := by omega
          rw [this] at hy; simp at hy
      · have : L.drop s = [] := List.drop_eq_nil_of_le (by omega)
        rw [this] at hx; cases hx)
  rw [this, List.take_append_drop, List.take_append_drop]

theorem symMerge_one_left (L R : List KV) (h1 : L.length = 1) (hR : Sorted R) :
    R.take (searchAux (fun h => !bLt (dAt (L ++ R) h).key (dAt (L ++ R) 0).key) (L.length + R.length) L.length
        (L.length + R.length) - L.length) ++
      dAt (L ++ R) 0 :: R.drop (searchAux (fun h => !bLt (dAt (L ++ R) h).key (dAt (L ++ R) 0).key)
        (L.length + R.length) L.length (L.length + R.length) - L.length) = sortStable (L ++ R) := by
  obtain ⟨x, rfl⟩ : ∃ x, L = [x] := by
    match L, h1 with
    | [x], _ => exact ⟨x, rfl⟩
  have hx0 : dAt ([x] ++ R) 0 = x := rfl
  have hD : ∀ j, dAt ([x] ++ R) (1 + j) = dAt R j := fun j => dAt_right [x] R j
  simp only [List.length_singleton, hx0]
  generalize hr : searchAux (fun h => !bLt (dAt ([x] ++ R) h).key x.key) (1 + R.length) 1 (1 + R.length) = r
  have hsp := searchAux_window (fun h => !bLt (dAt ([x] ++ R) h).key x.key) 1 (1 + R.length)
    (by
      intro i j hi hij hj hfi
      obtain ⟨i', rfl⟩ : ∃ i', i = 1 + i' := ⟨i - 1, by omega⟩
      obtain ⟨j', rfl⟩ : ∃ j', j = 1 + j' := ⟨j - 1, by omega⟩
      simp only [hD, Bool.not_eq_true'] at hfi ⊢
      cases hc : bLt (dAt R j').key x.key with
      | false => rfl
      | true =>
        have := bLe_lt_trans (sorted_dAt_le hR (by omega : i' ≤ j') (by omega)) hc
        rw [hfi] at this; cases this)
    (1 + R.length) 1 (1 + R.length) (Nat.le_refl _) (by omega) (Nat.le_refl _) (by omega)
    (by intro t h1 h2; omega) (by intro t h1 h2; omega)
  rw [hr] at hsp
  obtain ⟨r1, r2, rlo, rhi⟩ := hsp
  have hcut := cut_lemma [] [x] (R.take (r - 1)) (R.drop (r - 1)) (R.take (r - 1)) (x :: R.drop (r - 1))
    (by simp [sortStable_of_sorted (sorted_take hR _)])
    (by
      symm
      apply sortStable_of_sorted
      apply List.pairwise_cons.mpr
      refine ⟨fun y hy => ?_, sorted_drop hR _⟩
      by_cases c : r - 1 < R.length
      · have e2 := mem_drop_ge hR (r - 1) c y hy
        have e1 := rhi r (Nat.le_refl _) (by omega)
        obtain ⟨j, rfl⟩ : ∃ j, r = 1 + j := ⟨r - 1, by omega⟩
        simp only [hD, Bool.not_eq_true'] at e1
        simp only [Nat.add_sub_cancel_left] at e2
        exact bLe_trans e1 e2
      · have : R.drop (r - 1) = [] := List.drop_eq_nil_of_le (by omega)
        rw [this] at hy; cases hy)
    (by simp [Sorted]) (by rw [List.take_append_drop]; exact hR)
    (by intro a ha; cases ha)
    (by
      intro y hy a ha
      rw [List.mem_singleton.mp ha]
      by_cases c : 0 < r - 1
      · have e1 := mem_take_le hR (r - 1) c (by omega) y hy
        have e2 := rlo (r - 1) (by omega) (by omega)
        obtain ⟨j, hj⟩ : ∃ j, r - 1 = 1 + j := ⟨r - 2, by omega⟩
        rw [hj] at e2
        simp only [hD, Bool.not_eq_false'] at e2
        have : r - 1 - 1 = j := by omega
        rw [this] at e1
        exact bLe_lt_trans e1 e2
      · have : r - 1 = 0 := by omega
        rw [this] at hy; simp at hy)
  rw [List.take_append_drop] at hcut
  simpa using hcut

theorem symMerge_one_right (L R : List KV) (h1 : R.length = 1) (hL : Sorted L) :
    L.take (searchAux (fun h => bLt (dAt (L ++ R) L.length).key (dAt (L ++ R) h).key) (L.length + R.length) 0 L.length) ++
      dAt (L ++ R) L.length :: L.drop (searchAux (fun h => bLt (dAt (L ++ R) L.length).key (dAt (L ++ R) h).key)
        (L.length + R.length) 0 L.length) = sortStable (L ++ R) := by
  obtain ⟨y, rfl⟩ : ∃ y, R = [y] := by
    match R, h1 with
    | [y], _ => exact ⟨y, rfl⟩
  have hy0 : dAt (L ++ [y]) L.length = y := by
    have := dAt_right L [y] 0
    rw [Nat.add_zero] at this
    rw [this]; rfl
  simp only [hy0]
  generalize hr : searchAux (fun h => bLt y.key (dAt (L ++ [y]) h).key) (L.length + [y].length) 0 L.length = r
  have hsp := searchAux_window (fun h => bLt y.key (dAt (L ++ [y]) h).key) 0 L.length
    (by
      intro i j _ hij hj hfi
      simp only [dAt_left L [y] i (by omega), dAt_left L [y] j hj] at hfi ⊢
      exact bLt_le_trans hfi (sorted_dAt_le hL hij hj))
    (L.length + [y].length) 0 L.length (Nat.le_refl _) (Nat.zero_le _) (Nat.le_refl _) (by simp)
    (by intro t h1 h2; omega) (by intro t h1 h2; omega)
  rw [hr] at hsp
  obtain ⟨_, r2, rlo, rhi⟩ := hsp
  have hcut := cut_lemma (L.take r) (L.drop r) [y] [] (L.take r ++ [y]) (L.drop r)
    (by
      symm
      apply sortStable_of_sorted
      apply List.pairwise_append.mpr
      refine ⟨sorted_take hL _, by simp, ?_⟩
      intro a ha b hb
      rw [List.mem_singleton.mp hb]
      by_cases c : 0 < r
      · have e1 := mem_take_le hL r c r2 a ha
        have e2 := rlo (r - 1) (Nat.zero_le _) (by omega)
        simp only [dAt_left L [y] (r - 1) (by omega)] at e2
        exact bLe_trans e1 e2
      · have : r = 0 := by omega
        subst this; simp at ha)
    (by simp [sortStable_of_sorted (sorted_drop hL _)])
    (by rw [List.take_append_drop]; exact hL) (by simp [Sorted])
    (by intro a _ b hb; cases hb)
    (by
      intro b hb a ha
      rw [List.mem_singleton.mp hb]
      by_cases c : r < L.length
      · have e2 := mem_drop_ge hL r c a ha
        have e1 := rhi r (Nat.le_refl _) c
        simp only [dAt_left L [y] r c] at e1
        exact bLt_le_trans e1 e2
      · have : L.drop r = [] := List.drop_eq_nil_of_le (by omega)
        rw [this] at ha; cases ha)
  rw [List.take_append_drop] at hcut
  simpa using hcut

/-- the split point the binary search of the general case finds satisfies the two cut conditions -/
theorem symMerge_search (L R : List KV) (hL : Sorted L) (hR : Sorted R) (hM : 2 ≤ L.length) (hN : 2 ≤ R.length) :
    let M := L.length
    let N := R.length
    let mid := (M + N) / 2
    let n := mid + M
    let start0 := if M > mid then n - (M + N) else 0
    let r0 := if M > mid then mid else M
    let s := searchAux (fun c => bLt (dAt (L ++ R) (n - 1 - c)).key (dAt (L ++ R) c).key) (M + N) start0 r0
    s ≤ M ∧ s ≤ mid ∧ mid - s ≤ N ∧
    (0 < s → mid - s < N → bLt (dAt R (mid - s)).key (dAt L (s - 1)).key = false) ∧
    (s < M → 0 < mid - s → bLt (dAt R (mid - s - 1)).key (dAt L s).key = true) := by
  intro M N mid n start0 r0 s
  have hmid : mid = (M + N) / 2 := rfl
  have hs0 : mid - N ≤ start0 ∧ start0 ≤ r0 ∧ r0 ≤ M ∧ r0 ≤ mid ∧ (start0 = 0 ∨ start0 = mid - N) ∧ (r0 = M ∨ r0 = mid) := by
    by_cases c : M > mid
    · have e1 : start0 = n - (M + N) := if_pos c
      have e2 : r0 = mid := if_pos c
      have hn : n = mid + M := rfl
      omega
    · have e1 : start0 = 0 := if_neg c
      have e2 : r0 = M := if_neg c
      omega
  obtain ⟨b1, b2, b3, b4, b5, b6⟩ := hs0
  -- inside the window the two operands are L[c] and R[mid-1-c]
  have hf : ∀ c, start0 ≤ c → c < r0 →
      bLt (dAt (L ++ R) (n - 1 - c)).key (dAt (L ++ R) c).key = bLt (dAt R (mid - 1 - c)).key (dAt L c).key := by
    intro c h1 h2
    have hn : n = mid + M := rfl
    have e : n - 1 - c = L.length + (mid - 1 - c) := by
      show n - 1 - c = M + (mid - 1 - c)
      omega
    rw [e, dAt_right, dAt_left L R c (by show c < M; omega)]
  have hsp := searchAux_window (fun c => bLt (dAt (L ++ R) (n - 1 - c)).key (dAt (L ++ R) c).key) start0 r0
    (by
      intro i j hi hij hj hfi
      simp only [hf i hi (by omega), hf j (by omega) hj] at hfi ⊢
      have e1 : bLt (dAt R (mid - 1 - i)).key (dAt R (mid - 1 - j)).key = false :=
        sorted_dAt_le hR (by omega) (by show mid - 1 - i < N; omega)
      exact bLt_le_trans (bLe_lt_trans e1 hfi) (sorted_dAt_le hL hij (by show j < M; omega)))
    (M + N) start0 r0 (Nat.le_refl _) b2 (Nat.le_refl _) (by omega)
    (by intro t h1 h2; omega) (by intro t h1 h2; omega)
  obtain ⟨s1, s2, slo, shi⟩ := hsp
  refine ⟨by show s ≤ M; omega, by show s ≤ mid; omega, by show mid - s ≤ N; omega, ?_, ?_⟩
  · intro h1 h2
    have hgt : start0 < s := by
      show start0 < s
      rcases b5 with e | e <;> omega
    have := slo (s - 1) (by omega) (by omega)
    simp only [hf (s - 1) (by omega) (by omega)] at this
    have e : mid - 1 - (s - 1) = mid - s := by omega
    rw [e] at this; exact this
  · intro h1 h2
    have hlt : s < r0 := by
      show s < r0
      rcases b6 with e | e <;> omega
    have := shi s (Nat.le_refl _) hlt
    simp only [hf s s1 hlt] at this
    have e : mid - 1 - s = mid - s - 1 := by omega
    rw [e] at this; exact this

/-- **`symMergeCmpFunc` is the stable merge**: for any two sorted runs (and enough fuel for the recursion) -/
theorem symMerge_spec (f : Nat) : ∀ (L R : List KV), L.length + R.length ≤ f → Sorted L → Sorted R →
    symMerge f L R = sortStable (L ++ R) := by
  induction f with
  | zero =>
    intro L R h _ _
    have hl : L = [] := List.eq_nil_of_length_eq_zero (by omega)
    have hr : R = [] := List.eq_nil_of_length_eq_zero (by omega)
    subst hl hr; rfl
  | succ f ih =>
    intro L R hlen hL hR
    have hLR : ∀ (A B : List KV), Sorted A → Sorted B → (A.length = 0 ∨ B.length = 0) →
        A ++ B = sortStable (A ++ B) := by
      intro A B hA hB h0
      rcases h0 with h0 | h0
      · have : A = [] := List.eq_nil_of_length_eq_zero h0
        subst this; simp [sortStable_of_sorted hB]
      · have : B = [] := List.eq_nil_of_length_eq_zero h0
        subst this; simp [sortStable_of_sorted hA]
    unfold symMerge
    simp only []
    by_cases h0 : L.length = 0 ∨ R.length = 0
    · rw [if_pos h0]; exact hLR L R hL hR h0
    · rw [if_neg h0]
      by_cases h1 : L.length = 1
      · rw [if_pos h1]; exact symMerge_one_left L R h1 hR
      · rw [if_neg h1]
        by_cases h2 : R.length = 1
        · rw [if_pos h2]; exact symMerge_one_right L R h2 hL
        · rw [if_neg h2]
          have hM : 2 ≤ L.length := by omega
          have hN : 2 ≤ R.length := by omega
          obtain ⟨c1, c2, c3, c4, c5⟩ := symMerge_search L R hL hR hM hN
          generalize hs : searchAux (fun c => bLt (dAt (L ++ R) ((L.length + R.length) / 2 + L.length - 1 - c)).key
            (dAt (L ++ R) c).key) (L.length + R.length)
            (if L.length > (L.length + R.length) / 2 then (L.length + R.length) / 2 + L.length - (L.length + R.length) else 0)
            (if L.length > (L.length + R.length) / 2 then (L.length + R.length) / 2 else L.length) = s at c1 c2 c3 c4 c5 ⊢
          have he : (L.length + R.length) / 2 + L.length - s - L.length = (L.length + R.length) / 2 - s := by omega
          rw [he]
          apply symMerge_cut L R hL hR ((L.length + R.length) / 2) s c1 c3 c4 c5
          · split
            · rename_i hg
              exact ih _ _ (by simp only [List.length_take]; omega) (sorted_take hL _) (sorted_take hR _)
            · rename_i hg
              apply hLR _ _ (sorted_take hL _) (sorted_take hR _)
              simp only [List.length_take]
              omega
          · split
            · rename_i hg
              exact ih _ _ (by simp only [List.length_drop]; omega) (sorted_drop hL _) (sorted_drop hR _)
            · rename_i hg
              apply hLR _ _ (sorted_drop hL _) (sorted_drop hR _)
              simp only [List.length_drop]
              omega

theorem symMerge_eq_mergeRuns (a b : List KV) (ha : Sorted a) (hb : Sorted b) :
    symMerge (a.length + b.length) a b = mergeRuns a b := by
  rw [symMerge_spec _ a b (Nat.le_refl _) ha hb]
  obtain ⟨h1, h2⟩ := mergeRuns_spec a b ha hb
  exact (sorted_filter_unique h1 (sortStable_sorted _) (fun k => by rw [sortStable_filter]; exact h2 k)).symm

theorem mergePairsSym_eq (rs : List (List KV)) (h : ∀ r ∈ rs, Sorted r) : mergePairsSym rs = mergePairs rs := by
  match rs with
  | [] => rfl
  | [r] => rfl
  | r1 :: r2 :: rest =>
    simp only [mergePairsSym, mergePairs]
    rw [symMerge_eq_mergeRuns r1 r2 (h r1 (by simp)) (h r2 (by simp)),
      mergePairsSym_eq rest (fun r hr => h r (by simp [hr]))]

theorem mergeRoundsSym_eq (f : Nat) (rs : List (List KV)) (h : ∀ r ∈ rs, Sorted r) :
    mergeRoundsSym f rs = mergeRounds f rs := by
  induction f generalizing rs with
  | zero => rfl
  | succ f ih =>
    match rs, h with
    | [], _ => rfl
    | [r], _ => rfl
    | r1 :: r2 :: rest, h =>
      show mergeRoundsSym f (mergePairsSym (r1 :: r2 :: rest)) = mergeRounds f (mergePairs (r1 :: r2 :: rest))
      rw [mergePairsSym_eq _ h]
      exact ih _ (mergePairs_spec _ h).1

theorem goSortStableSym_eq_sortStable (l : List KV) : goSortStableSym l = sortStable l := by
  rw [← goSortStable_eq_sortStable]
  unfold goSortStableSym goSortStable
  apply mergeRoundsSym_eq
  intro r hr
  obtain ⟨c, _, e⟩ := List.mem_map.mp hr
  rw [← e, goInsertionSort_eq_sortStable]; exact sortStable_sorted c

end Otel.C05
