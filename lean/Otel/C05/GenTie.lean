/-
C05 — generated tie.  `Otel.Gen.C05` is regenerated from /repo's current source by tools/go2lean on every run of
bin/check (checks/gentie.json); the theorems below are re-checked against the regenerated text.
Sites (attribute/): the `Type` enumeration (value.go), `computeDistinctFixed` (set.go: the `switch len(kvs)` that
chooses the array type behind `Distinct`), `Value.Emit` (value.go: how each type is rendered by the default
encoder) and the encoder's escape character.  Tied to `Otel.C05.computeDistinctFixed`, `Otel.C05.Value`
(constructor order = Type values) and `emitKnown`.
-/
import Otel.Gen.C05
import Otel.C05.Model

namespace Otel.C05.GenTie
open Otel Otel.C05

/-! ### the Type enumeration -/

/-- the Go `Type` of a model value -/
def typeCode : Value → Int
  | .invalid => Otel.Gen.C05.INVALID
  | .bool _ => Otel.Gen.C05.BOOL
  | .int _ => Otel.Gen.C05.INT64
  | .float _ => Otel.Gen.C05.FLOAT64
  | .str _ => Otel.Gen.C05.STRING
  | .bools _ => Otel.Gen.C05.BOOLSLICE
  | .ints _ => Otel.Gen.C05.INT64SLICE
  | .floats _ => Otel.Gen.C05.FLOAT64SLICE
  | .strs _ => Otel.Gen.C05.STRINGSLICE

/-- INVALID is the zero value; the nine types are numbered 0..8 in the order of the model's constructors -/
theorem gen_type_enumeration :
    [Otel.Gen.C05.INVALID, Otel.Gen.C05.BOOL, Otel.Gen.C05.INT64, Otel.Gen.C05.FLOAT64, Otel.Gen.C05.STRING,
     Otel.Gen.C05.BOOLSLICE, Otel.Gen.C05.INT64SLICE, Otel.Gen.C05.FLOAT64SLICE, Otel.Gen.C05.STRINGSLICE] =
    [0, 1, 2, 3, 4, 5, 6, 7, 8] := by decide

/-! ### computeDistinctFixed -/

/-- the array a tag of the generated switch stands for -/
def interpFixed (tag : String) (kvs : List KV) : Option ArrVal :=
  if tag = "array1" then some (arrOf 1 kvs) else if tag = "array2" then some (arrOf 2 kvs)
  else if tag = "array3" then some (arrOf 3 kvs) else if tag = "array4" then some (arrOf 4 kvs)
  else if tag = "array5" then some (arrOf 5 kvs) else if tag = "array6" then some (arrOf 6 kvs)
  else if tag = "array7" then some (arrOf 7 kvs) else if tag = "array8" then some (arrOf 8 kvs)
  else if tag = "array9" then some (arrOf 9 kvs) else if tag = "array10" then some (arrOf 10 kvs)
  else none

/-- lengths 1..10 select the array type of exactly that length -/
theorem gen_fixed_small :
    (List.range 11).map (fun (m : Nat) => Otel.Gen.C05.computeDistinctFixed (m : Int)) =
      ["nil", "array1", "array2", "array3", "array4", "array5", "array6", "array7", "array8", "array9", "array10"] := by
  decide

/-- every other length falls through to `nil` (the reflect path) -/
theorem gen_fixed_large (n : Int) (h : n < 1 ∨ 10 < n) : Otel.Gen.C05.computeDistinctFixed n = "nil" := by
  have h1 : ¬ n = 1 := by omega
  have h2 : ¬ n = 2 := by omega
  have h3 : ¬ n = 3 := by omega
  have h4 : ¬ n = 4 := by omega
  have h5 : ¬ n = 5 := by omega
  have h6 : ¬ n = 6 := by omega
  have h7 : ¬ n = 7 := by omega
  have h8 : ¬ n = 8 := by omega
  have h9 : ¬ n = 9 := by omega
  have h10 : ¬ n = 10 := by omega
  simp [Otel.Gen.C05.computeDistinctFixed, h1, h2, h3, h4, h5, h6, h7, h8, h9, h10]

/-- `computeDistinctFixed` as written today is the model's `computeDistinctFixed` -/
theorem gen_fixed_eq_model (kvs : List KV) :
    Otel.C05.computeDistinctFixed kvs = interpFixed (Otel.Gen.C05.computeDistinctFixed (kvs.length : Int)) kvs := by
  unfold Otel.C05.computeDistinctFixed
  generalize kvs.length = m
  match m with
  | 0 | 1 | 2 | 3 | 4 | 5 | 6 | 7 | 8 | 9 | 10 => rfl
  | k + 11 =>
    rw [gen_fixed_large _ (by omega)]
    rfl

/-! ### Value.Emit -/

/-- how each type is rendered (the JSON branch reports `invalid: …` if marshalling fails); anything that is not one
of the eight valid types — in particular INVALID — renders as "unknown" -/
theorem gen_emit_table (jsonFails : Bool) :
    (List.range 10).map (fun (t : Nat) => Otel.Gen.C05.valueEmit jsonFails (t : Int)) =
      ["\"unknown\"", "FormatBool", "FormatInt(10)", "Sprint(float)", "stringly", "Sprint(bools)",
       (if jsonFails then "invalid:%v" else "json"), (if jsonFails then "invalid:%v" else "json"),
       (if jsonFails then "invalid:%v" else "json"), "\"unknown\""] := by
  cases jsonFails <;> decide

/-- the renderings the model's `emitKnown` covers are the ones the source uses for those types:
BOOL → strconv.FormatBool, INT64 → strconv.FormatInt(·, 10), INVALID → "unknown" -/
theorem gen_emit_known_types (j : Bool) :
    Otel.Gen.C05.valueEmit j (typeCode (.bool true)) = "FormatBool" ∧
    Otel.Gen.C05.valueEmit j (typeCode (.int 0)) = "FormatInt(10)" ∧
    Otel.Gen.C05.valueEmit j (typeCode .invalid) = "\"unknown\"" ∧
    emitKnown .invalid = some "unknown".toUTF8.toList := by
  cases j <;> exact ⟨by decide, by decide, by decide, rfl⟩

/-- the default encoder escapes with a backslash -/
theorem gen_escape_char : Otel.Gen.C05.escapeChar = 92 := by decide

end Otel.C05.GenTie
