/-
C05 — generated tie.  `Otel.Gen.C05` is regenerated from /repo's current source by tools/go2lean on every run of
bin/check (checks/gentie.json); the theorems below are re-checked against the regenerated text.
Sites (attribute/): the `Type` enumeration (value.go), `computeDistinctFixed` (set.go: the `switch len(kvs)` that
chooses the array type behind `Distinct`), `Value.Emit` (value.go: how each type is rendered by the default
encoder) and the encoder's escape character.  Tied to `Otel.C05.computeDistinctFixed`, `Otel.C05.Value`
(constructor order = Type values) and `emitKnown`.
-/
import Otel.Gen.C05
import Otel.C05.Model

namespace Otel.C05.GenTie
open Otel Otel.C05

/-! ### the Type enumeration -/

/-- the Go `Type` of a model value -/
def typeCode : Value → Int
  | .invalid => Otel.Gen.C05.INVALID
  | .bool _ => Otel.Gen.C05.BOOL
  | .int _ => Otel.Gen.C05.INT64
  | .float _ => Otel.Gen.C05.FLOAT64
  | .str _ => Otel.Gen.C05.STRING
  | .bools _ => Otel.Gen.C05.BOOLSLICE
  | .ints _ => Otel.Gen.C05.INT64SLICE
  | .floats _ => Otel.Gen.C05.FLOAT64SLICE
  | .strs _ => Otel.Gen.C05.STRINGSLICE

/-- INVALID is the zero value; the nine types are numbered 0..8 in the order of the model's constructors -/
theorem gen_type_enumeration :
    [Otel.Gen.C05.INVALID, Otel.Gen.C05.BOOL, Otel.Gen.C05.INT64, Otel.Gen.C05.FLOAT64, Otel.Gen.C05.STRING,
     Otel.Gen.C05.BOOLSLICE, Otel.Gen.C05.INT64SLICE, Otel.Gen.C05.FLOAT64SLICE, Otel.Gen.C05.STRINGSLICE] =
    [0, 1, 2, 3, 4, 5, 6, 7, 8] := by decide

/-! ### computeDistinctFixed -/

/-- the array a tag of the generated switch stands for -/
def interpFixed (tag : String) (kvs : List KV) : Option ArrVal :=
  if tag = "array1" then some (arrOf 1 kvs) else if tag = "array2" then some (arrOf 2 kvs)
  else if tag = "array3" then some (arrOf 3 kvs) else if tag = "array4" then some (arrOf 4 kvs)
  else if tag = "array5" then some (arrOf 5 kvs) else if tag = "array6" then some (arrOf 6 kvs)
  else if tag = "array7" then some (arrOf 7 kvs) else if tag = "array8" then some (arrOf 8 kvs)
  else if tag = "array9" then some (arrOf 9 kvs) else if tag = "array10" then some (arrOf 10 kvs)
  else none

/-- lengths 1..10 select the array type of exactly that length -/
theorem gen_fixed_small :
    (List.range 11).map (fun (m : Nat) => Otel.Gen.C05.computeDistinctFixed (m : Int)) =
      ["nil", "array1", "array2", "array3", "array4", "array5", "array6", "array7", "array8", "array9", "array10"] := by
  decide

/-- every other length falls through to `nil` (the reflect path) -/
theorem gen_fixed_large (n : Int) (h : n < 1 ∨ 10 < n) : Otel.Gen.C05.computeDistinctFixed n = "nil" := by
  have h1 : ¬ n = 1 := by omega
  have h2 : ¬ n = 2 := by omega
  have h3 : ¬ n = 3 := by omega
  have h4 : ¬ n = 4 := by omega
  have h5 : ¬ n = 5 := by omega
  have h6 : ¬ n = 6 := by omega
  have h7 : ¬ n = 7 := by omega
  have h8 : ¬ n = 8 := by omega
  have h9 : ¬ n = 9 := by omega
  have h10 : ¬ n = 10 := by omega
  simp [Otel.Gen.C05.computeDistinctFixed, h1, h2, h3, h4, h5, h6, h7, h8, h9, h10]

/-- `computeDistinctFixed` as written today is the model's `computeDistinctFixed` -/
theorem gen_fixed_eq_model (kvs : List KV) :
    Otel.C05.computeDistinctFixed kvs = interpFixed (Otel.Gen.C05.computeDistinctFixed (kvs.length : Int)) kvs := by
  unfold Otel.C05.computeDistinctFixed
  generalize kvs.length = m
  match m with
  | 0 | 1 | 2 | 3 | 4 | 5 | 6 | 7 | 8 | 9 | 10 => rfl
  | k + 11 =>
    rw [gen_fixed_large _ (by omega)]
    rfl

/-! ### Value.Emit -/

/-- how each type is rendered (the JSON branch reports `invalid: …` if marshalling fails); anything that is not one
of the eight valid types — in particular INVALID — renders as "unknown" -/
theorem gen_emit_table (jsonFails : Bool) :
    (List.range 10).map (fun (t : Nat) => Otel.Gen.C05.valueEmit jsonFails (t : Int)) =
      ["\"unknown\"", "FormatBool", "FormatInt(10)", "Sprint(float)", "stringly", "Sprint(bools)",
       (if jsonFails then "invalid:%v" else "json"), (if jsonFails then "invalid:%v" else "json"),
       (if jsonFails then "invalid:%v" else "json"), "\"unknown\""] := by
  cases jsonFails <;> decide

/-- the renderings the model's `emitKnown` covers are the ones the source uses for those types:
BOOL → strconv.FormatBool, INT64 → strconv.FormatInt(·, 10), INVALID → "unknown" -/
theorem gen_emit_known_types (j : Bool) :
    Otel.Gen.C05.valueEmit j (typeCode (.bool true)) = "FormatBool" ∧
    Otel.Gen.C05.valueEmit j (typeCode (.int 0)) = "FormatInt(10)" ∧
    Otel.Gen.C05.valueEmit j (typeCode .invalid) = "\"unknown\"" ∧
    emitKnown .invalid = some "unknown".toUTF8.toList := by
  cases j <;> exact ⟨by decide, by decide, by decide, rfl⟩

/-- the default encoder escapes with a backslash -/
theorem gen_escape_char : Otel.Gen.C05.escapeChar = 92 := by decide

/-! ### key filters and the encoder's escaping -/

/-- `NewAllowKeysFilter` / `NewDenyKeysFilter`: an empty key list short-circuits to the constant filter (deny all /
allow all); otherwise the filter is (non-)membership in the set built from ALL the keys -/
theorem gen_key_filters_table (n : Int) (hn : 0 ≤ n) :
    Otel.Gen.C05.allowKeysFilter n = (if n ≤ 0 then ("const false", []) else ("member(allowed)", ["allowed=set(keys)"])) ∧
    Otel.Gen.C05.denyKeysFilter n = (if n ≤ 0 then ("const true", []) else ("not member(forbid)", ["forbid=set(keys)"])) := by
  unfold Otel.Gen.C05.allowKeysFilter Otel.Gen.C05.denyKeysFilter
  by_cases h : n ≤ 0 <;> simp [h] <;> (try omega) <;> (repeat' split) <;> (try simp_all) <;> omega

/-- what a leaf of the generated filter constructors denotes in the model -/
def interpFilter (leaf : String × List String) (keys : List Bytes) : KV → Bool :=
  if leaf.1 = "const false" then fun _ => false
  else if leaf.1 = "const true" then fun _ => true
  else if leaf.1 = "member(allowed)" then fun kv => keys.contains kv.key
  else fun kv => !keys.contains kv.key

/-- the two constructors as written today are the model's `allowKeysFilter` / `denyKeysFilter`, empty list included -/
theorem gen_key_filters_eq_model (keys : List Bytes) :
    allowKeysFilter keys = interpFilter (Otel.Gen.C05.allowKeysFilter (keys.length : Int)) keys ∧
    denyKeysFilter keys = interpFilter (Otel.Gen.C05.denyKeysFilter (keys.length : Int)) keys := by
  have h := gen_key_filters_table (keys.length : Int) (by omega)
  rw [h.1, h.2]
  unfold allowKeysFilter denyKeysFilter interpFilter
  cases keys with
  | nil => simp
  | cons k ks =>
    have h1 : ¬ ((k :: ks).length ≤ 0) := by simp
    have h2 : ¬ (((k :: ks).length : Int) ≤ 0) := by simp only [List.length_cons]; omega
    simp only [if_neg h1, if_neg h2]
    constructor <;> simp

/-- one iteration of `copyAndEscape`: the escape character is written before the rune exactly for '=', ',' and the
escape character itself (the three runes of the model's `escape`), and the rune is always written -/
theorem gen_copy_and_escape_step (ch : Int) :
    Otel.Gen.C05.copyAndEscapeStep ch =
      ("<end>", (if ch = 0x3D ∨ ch = 0x2C ∨ ch = 0x5C then ["write(escapeChar)"] else []) ++ ["write(ch)"]) := by
  unfold Otel.Gen.C05.copyAndEscapeStep
  by_cases h : (ch = 0x3D ∨ ch = 0x2C ∨ ch = 0x5C) <;> simp [h] <;> (try omega) <;> (repeat' split) <;> (try simp_all) <;> omega

/-! ### MergeIterator.Next -/

/-- apply one effect of a path of the generated `MergeIterator.Next` to the model's iterator state -/
def applyEffect (m0 : MergeIt) (m : MergeIt) (e : String) : MergeIt :=
  if e = "current=one" then { m with current := m0.one.attr }
  else if e = "current=two" then { m with current := m0.two.attr }
  else if e = "advanceOne" then { m with one := m0.one.advance }
  else if e = "advanceTwo" then { m with two := m0.two.advance }
  else m

def interpMergeNext (leaf : String × List String) (m : MergeIt) : MergeIt × Bool :=
  (leaf.2.foldl (applyEffect m) m, leaf.1 == "true")

/-- the decision table of `MergeIterator.Next`: both done → false; one side done → take the other; equal keys → the
FIRST iterator's attribute wins and both advance; otherwise the smaller key is taken -/
theorem gen_merge_next_table (oneDone twoDone keysEqual oneLess : Bool) :
    Otel.Gen.C05.mergeNext oneDone twoDone keysEqual oneLess =
      (if oneDone && twoDone then ("false", [])
       else if oneDone then ("true", ["current=two", "advanceTwo"])
       else if twoDone then ("true", ["current=one", "advanceOne"])
       else if keysEqual then ("true", ["current=one", "advanceOne", "advanceTwo"])
       else if oneLess then ("true", ["current=one", "advanceOne"])
       else ("true", ["current=two", "advanceTwo"])) := by
  cases oneDone <;> cases twoDone <;> cases keysEqual <;> cases oneLess <;> rfl

/-- `MergeIterator.Next` as written today is the model's `MergeIt.next` -/
theorem gen_merge_next_eq_model (m : MergeIt) :
    m.next = interpMergeNext (Otel.Gen.C05.mergeNext m.one.done m.two.done (m.one.attr.key == m.two.attr.key)
                                (bLt m.one.attr.key m.two.attr.key)) m := by
  rw [gen_merge_next_table]
  unfold MergeIt.next interpMergeNext
  cases m.one.done <;> cases m.two.done <;> cases (m.one.attr.key == m.two.attr.key) <;>
    cases (bLt m.one.attr.key m.two.attr.key) <;> simp [applyEffect]

end Otel.C05.GenTie
