/-
C05 — property theorems about the model of `attribute.Set` (Model.lean), with the Spec predicates
(Spec.lean) that the driver also evaluates on the real code's results.
-/
import Otel.C05.LemmasSym
import Otel.C05.LemmasEnc
import Otel.C05.LemmasIter
namespace Otel.C05
open Otel Otel.C05.Spec

/-- de-duplication of a sorted slice: strictly sorted winners holding the last-wins mapping, and the
slice afterwards (superseded prefix ++ winners) is a permutation of the slice before -/
private theorem dedup_spec (l : List KV) (hl : Sorted l) :
    SSorted (dedup l).2 ∧ (∀ k, lookup (dedup l).2 k = lookupLast l k) ∧ ((dedup l).1 ++ (dedup l).2).Perm l := by
  unfold dedup
  have hd := sortedDesc_reverse hl
  cases hr : l.reverse with
  | nil =>
    have : l = [] := by simpa using hr
    subst this
    exact ⟨by simp [SSorted], fun k => rfl, List.Perm.refl _⟩
  | cons w revA =>
    rw [hr] at hd
    simp only [dedupLoop_snd]
    refine ⟨loopW_ssorted revA w [] hd (by simp [SSorted]), fun k => ?_, ?_⟩
    · rw [loopW_lookup revA w [] hd k, lookupLast, hr]; simp
    · have := dedupLoop_perm revA [] w []
      rw [dedupLoop_snd] at this
      refine this.trans ?_
      have : revA.reverse ++ ([] ++ [w]) = l := by
        have : (w :: revA).reverse = l := by rw [← hr, List.reverse_reverse]
        simpa using this
      rw [this]

private theorem dedup_sortStable_eq_canon (kvs : List KV) : (dedup (sortStable kvs)).2 = canon kvs := by
  obtain ⟨h1, h2, _⟩ := dedup_spec (sortStable kvs) (sortStable_sorted kvs)
  apply eq_of_lookup_eq h1 (canon_ssorted kvs)
  intro k
  rw [h2, lookupLast_sortStable, lookup_canon]

private theorem filter_append_perm' (p : KV → Bool) (l : List KV) :
    (l.filter (fun x => !p x) ++ l.filter p).Perm l := by
  induction l with
  | nil => exact List.Perm.refl _
  | cons x xs ih =>
    by_cases h : p x
    · simp only [List.filter_cons, h, Bool.not_true, Bool.false_eq_true, if_false, if_true]
      exact List.perm_middle.trans (List.Perm.cons x ih)
    · simp only [List.filter_cons, h, Bool.not_false, if_true, List.cons_append]
      exact List.Perm.cons x ih

private theorem filter_true' (l : List KV) : l.filter (fun _ => true) = l :=
  List.filter_eq_self.mpr (fun _ _ => rfl)
private theorem filter_false' (l : List KV) : l.filter (fun _ => !true) = [] :=
  List.filter_eq_nil_iff.mpr (fun _ _ => by simp)

/-- the three results of `NewSetWithFiltered` in terms of the reference canonical form -/
private theorem nswf_fields (kvs : List KV) (filter : Option (KV → Bool)) :
    (newSetWithFiltered kvs filter).set = (canon kvs).filter (keepOf filter) ∧
    (newSetWithFiltered kvs filter).dropped.Perm ((canon kvs).filter (fun kv => !keepOf filter kv)) ∧
    (newSetWithFiltered kvs filter).after.Perm kvs ∧
    ∃ m, (newSetWithFiltered kvs filter).after =
      m ++ ((newSetWithFiltered kvs filter).dropped ++ (newSetWithFiltered kvs filter).set) := by
  by_cases h0 : kvs.length = 0
  · have : kvs = [] := List.eq_nil_of_length_eq_zero h0
    subst this
    have hr : newSetWithFiltered [] filter = ⟨[], [], []⟩ := by simp [newSetWithFiltered]
    rw [hr]
    exact ⟨by simp [canon], by simp [canon], List.Perm.refl _, [], rfl⟩
  · obtain ⟨hss, _, hperm⟩ := dedup_spec (sortStable kvs) (sortStable_sorted kvs)
    have hcan := dedup_sortStable_eq_canon kvs
    have hperm' : ((dedup (sortStable kvs)).1 ++ canon kvs).Perm kvs := by
      rw [← hcan]; exact hperm.trans (sortStable_perm kvs)
    cases filter with
    | none =>
      have hr : newSetWithFiltered kvs none =
          ⟨canon kvs, [], (dedup (sortStable kvs)).1 ++ canon kvs⟩ := by
        simp [newSetWithFiltered, h0, hcan, goSortStableSym_eq_sortStable]
      rw [hr]
      refine ⟨?_, ?_, hperm', (dedup (sortStable kvs)).1, by simp⟩
      · simp [keepOf, filter_true']
      · simp [keepOf]
    | some keep =>
      have hk := filteredToFront_snd keep (canon kvs)
      have hd := filteredToFront_fst keep (canon kvs)
      have hall : ((dedup (sortStable kvs)).1 ++ ((filteredToFront keep (canon kvs)).1 ++ (canon kvs).filter keep)).Perm kvs := by
        refine (List.Perm.append_left _ ?_).trans hperm'
        exact (List.Perm.append_right _ hd).trans (filter_append_perm' keep _)
      simp only [keepOf, Option.getD_some]
      by_cases hdl : (filteredToFront keep (canon kvs)).1.length ≠ 0
      · have hr : newSetWithFiltered kvs (some keep) =
            ⟨(canon kvs).filter keep, (filteredToFront keep (canon kvs)).1,
              (dedup (sortStable kvs)).1 ++ ((filteredToFront keep (canon kvs)).1 ++ (canon kvs).filter keep)⟩ := by
          simp [newSetWithFiltered, h0, hcan, hdl, hk, goSortStableSym_eq_sortStable]
        rw [hr]
        exact ⟨rfl, hd, hall, _, rfl⟩
      · have hnil : (filteredToFront keep (canon kvs)).1 = [] :=
          List.eq_nil_of_length_eq_zero (by omega)
        have hr : newSetWithFiltered kvs (some keep) =
            ⟨(canon kvs).filter keep, [], (dedup (sortStable kvs)).1 ++ (canon kvs).filter keep⟩ := by
          simp [newSetWithFiltered, h0, hcan, hnil, hk, goSortStableSym_eq_sortStable]
        rw [hr]
        rw [hnil] at hd hall
        exact ⟨rfl, hd, by simpa using hall, (dedup (sortStable kvs)).1, by simp⟩

/-- **NewSetWithFiltered, all clauses at once, in the form the oracle checks on the real code**
(`Spec.newSetOK`): for every input slice and every filter (or none) the returned set is strictly
sorted by key and is the kept part of the canonical form of the last-wins mapping; the second
result is (a permutation of) the filtered-out part; the caller's slice afterwards is a permutation
of the input and ends with `dropped ++ set`, i.e. the superseded duplicates stay in front. -/
theorem newSetWithFiltered_ok (kvs : List KV) (filter : Option (KV → Bool)) :
    newSetOK kvs filter (newSetWithFiltered kvs filter).set (newSetWithFiltered kvs filter).dropped
      (newSetWithFiltered kvs filter).after = true := by
  obtain ⟨h1, h2, h3, m, h4⟩ := nswf_fields kvs filter
  unfold newSetOK
  simp only [Bool.and_eq_true, beq_iff_eq, List.isPerm_iff]
  refine ⟨⟨⟨⟨?_, h1⟩, h2⟩, h3⟩, ?_⟩
  · rw [h1]; exact (strictSorted_iff _).mpr ((canon_ssorted kvs).filter _)
  · rw [h4]
    apply List.drop_left'
    simp only [List.length_append]
    omega

/-- **sorted, de-duplicated, last value wins**: `NewSet(kvs)` is strictly sorted by key, equals the
canonical form of the last-wins mapping of `kvs`, and binds every key to the value supplied last. -/
theorem newSet_canonical (kvs : List KV) :
    strictSorted (newSet kvs) = true ∧ newSet kvs = canon kvs ∧ ∀ k, lookup (newSet kvs) k = lookupLast kvs k := by
  have h := newSetWithFiltered_ok kvs none
  simp only [newSetOK, keepOf, Option.getD_none, filter_true', Bool.and_eq_true, beq_iff_eq] at h
  refine ⟨h.1.1.1.1, h.1.1.1.2, fun k => ?_⟩
  unfold newSet
  rw [h.1.1.1.2, lookup_canon]

/-- **order- and duplication-insensitive identity**: two inputs that denote the same last-wins
mapping (in particular: permutations, repetitions, superseded junk) give the same Set. -/
theorem newSet_perm_dup_insensitive (a b : List KV) (h : ∀ k, lookupLast a k = lookupLast b k) :
    newSet a = newSet b := by
  rw [(newSet_canonical a).2.1, (newSet_canonical b).2.1]
  exact eq_of_lookup_eq (canon_ssorted a) (canon_ssorted b) (fun k => by rw [lookup_canon, lookup_canon, h])

private theorem filter_key_length_le_one {l : List KV} (hn : (keys l).Nodup) (k : Bytes) :
    (l.filter (fun z => z.key == k)).length ≤ 1 := by
  induction l with
  | nil => simp
  | cons x xs ih =>
    simp only [keys, List.map_cons, List.nodup_cons] at hn
    by_cases hx : x.key = k
    · have : xs.filter (fun z => z.key == k) = [] := by
        apply List.filter_eq_nil_iff.mpr
        intro z hz
        simp only [beq_iff_eq]
        intro e
        exact hn.1 (List.mem_map.mpr ⟨z, hz, e.trans hx.symm⟩)
      simp [hx, this]
    · simp only [List.filter_cons, beq_iff_eq, hx, if_false]
      exact ih hn.2

/-- **order-insensitive**: any permutation of a slice with distinct keys gives the same Set -/
theorem newSet_perm (a b : List KV) (hp : a.Perm b) (hn : (keys a).Nodup) : newSet a = newSet b := by
  apply newSet_perm_dup_insensitive
  intro k
  rw [lookupLast_filter, lookupLast_filter]
  have hpf := hp.filter (fun z => z.key == k)
  have hla := filter_key_length_le_one hn k
  have hlen := hpf.length_eq
  cases hfa : a.filter (fun z => z.key == k) with
  | nil =>
    rw [hfa] at hlen
    have : b.filter (fun z => z.key == k) = [] := List.eq_nil_of_length_eq_zero (by simpa using hlen.symm)
    rw [this]
  | cons x xs =>
    rw [hfa] at hla hpf
    have : xs = [] := List.eq_nil_of_length_eq_zero (by simpa using hla)
    subst this
    rw [List.singleton_perm.mp hpf]

/-- building a Set from a Set's own contents, or from the input repeated, changes nothing -/
theorem newSet_idem (kvs : List KV) : newSet (newSet kvs) = newSet kvs ∧ newSet (kvs ++ kvs) = newSet kvs := by
  constructor
  · apply eq_of_lookup_eq
    · exact (strictSorted_iff _).mp (newSet_canonical _).1
    · exact (strictSorted_iff _).mp (newSet_canonical _).1
    · intro k
      rw [(newSet_canonical (newSet kvs)).2.2 k]
      exact lookupLast_eq_lookup ((strictSorted_iff _).mp (newSet_canonical kvs).1) k
  · apply newSet_perm_dup_insensitive
    intro k
    rw [lookupLast_append]
    cases lookupLast kvs k <;> rfl

/-- **no input value is lost**: the caller's slice after `NewSetWithFiltered` is a permutation of
the slice before, and it is `superseded ++ dropped ++ set` with every superseded element's key
still bound in `dropped ++ set`. -/
theorem newSet_loses_nothing (kvs : List KV) (filter : Option (KV → Bool)) :
    let r := newSetWithFiltered kvs filter
    r.after.Perm kvs ∧ ∃ superseded, r.after = superseded ++ (r.dropped ++ r.set) ∧
      (superseded ++ (r.dropped ++ r.set)).Perm kvs := by
  intro r
  have h := newSetWithFiltered_ok kvs filter
  simp only [newSetOK, Bool.and_eq_true, beq_iff_eq, List.isPerm_iff] at h
  refine ⟨h.1.2, r.after.take (r.after.length - (r.dropped.length + r.set.length)), ?_, ?_⟩
  · conv => lhs; rw [← List.take_append_drop (r.after.length - (r.dropped.length + r.set.length)) r.after]
    rw [h.2]
  · have : r.after.take (r.after.length - (r.dropped.length + r.set.length)) ++ (r.dropped ++ r.set) = r.after := by
      conv => rhs; rw [← List.take_append_drop (r.after.length - (r.dropped.length + r.set.length)) r.after]
      rw [h.2]
    rw [this]; exact h.1.2

private theorem lookup_none_of_not_mem_keys {l : List KV} {k : Bytes} (h : k ∉ keys l) : lookup l k = none :=
  lookup_eq_none (fun x hx e => h (by simp only [keys, List.mem_map]; exact ⟨x, hx, e⟩))

private theorem sameMapping_iff (r : Value → Value → Bool) (a b : List KV) :
    sameMapping r a b = true ↔ ∀ k, optRel r (lookup a k) (lookup b k) = true := by
  unfold sameMapping
  rw [List.all_eq_true]
  constructor
  · intro h k
    by_cases hk : k ∈ keys a ++ keys b
    · exact h k hk
    · have ha : k ∉ keys a := fun h' => hk (List.mem_append_left _ h')
      have hb : k ∉ keys b := fun h' => hk (List.mem_append_right _ h')
      rw [lookup_none_of_not_mem_keys ha, lookup_none_of_not_mem_keys hb]; rfl
  · intro h k _; exact h k

/-- **Equal / equal map keys exactly when the same mapping is held**: for two Sets (strictly sorted
contents) Go's `==` on the `Distinct` arrays holds iff every key is bound to `==`-identical values
in both (`==` = the representation's identity `goEq`: bits for scalars, IEEE on float-slice elements). -/
theorem equal_iff_same_mapping (a b : List KV) (ha : strictSorted a = true) (hb : strictSorted b = true) :
    (equal a b = true ↔ ∀ k, optRel goEq (lookup a k) (lookup b k) = true) ∧
    equal a b = sameMapping goEq a b := by
  have h1 : equal a b = true ↔ ∀ k, optRel goEq (lookup a k) (lookup b k) = true :=
    ⟨lookup_of_relList goEq a b,
     relList_of_lookup goEq a b ((strictSorted_iff a).mp ha) ((strictSorted_iff b).mp hb)⟩
  refine ⟨h1, ?_⟩
  rw [Bool.eq_iff_iff, h1, sameMapping_iff]

/-- for Sets without FLOAT64SLICE values, Equal is structural identity of the typed mapping -/
theorem equal_iff_eq_noFloatSlice (a b : List KV)
    (hn : ∀ x ∈ a, ∀ l, x.val ≠ .floats l) : equal a b = true ↔ a = b := by
  rw [← relList_beq_iff]
  unfold equal
  induction a generalizing b with
  | nil => cases b <;> simp [relList]
  | cons x xs ih =>
    cases b with
    | nil => simp [relList]
    | cons y ys =>
      have hx := hn x (by simp)
      have : goEq x.val y.val = (x.val == y.val) := by
        cases hv : x.val with
        | floats l => exact absurd hv (hx l)
        | _ => simp [goEq]
      simp only [relList, this, Bool.and_eq_true, ih ys (fun z hz => hn z (by simp [hz]))]

/-- **every Set equals itself — except under the known finding F9**, exactly: `s.Equals(s)` (and
finding `s.Equivalent()` again in a map) holds iff no FLOAT64SLICE value of `s` contains a NaN. -/
theorem equal_refl_partial (s : List KV) (h : F9_applies s = false) : equal s s = true := by
  unfold equal; rw [relList_goEq_refl, h]; rfl

theorem equal_refl_iff (s : List KV) : equal s s = true ↔ F9_applies s = false := by
  unfold equal; rw [relList_goEq_refl]; cases F9_applies s <;> simp

/-- F9 witness: the Set `{k: [NaN]}` built by `NewSet` is not equal to itself -/
theorem equal_irreflexive_witness :
    equal (newSet [⟨[0x6b], .floats [0x7ff8000000000001]⟩]) (newSet [⟨[0x6b], .floats [0x7ff8000000000001]⟩]) = false := by
  decide

/-- the representation identifies `-0` and `+0` inside float slices (not as scalars) -/
theorem equal_signed_zero_witness :
    equal [⟨[0x6b], .floats [0x8000000000000000]⟩] [⟨[0x6b], .floats [0]⟩] = true ∧
    equal [⟨[0x6b], .float 0x8000000000000000⟩] [⟨[0x6b], .float 0⟩] = false := by
  decide

/-- the clause as the property states it (false on the current code: `equal_irreflexive_witness`) -/
def equal_refl_full_statement : Prop := ∀ s : List KV, equal s s = true

/-- **Filter splits a Set into kept and dropped parts** (`Spec.filterOK`): the kept Set is exactly the
elements satisfying the filter in their order, the dropped slice is a permutation of the others,
together they are the original, which (a value in the model) is unchanged. Holds for all three code paths. -/
theorem filter_partition (s : List KV) (re : Option (KV → Bool)) :
    filterOK s re (setFilter s re).1 (setFilter s re).2 s = true := by
  unfold filterOK setFilter
  cases re with
  | none => simp [keepOf, filter_true', List.isPerm_iff, List.filter_eq_nil_iff]
  | some re =>
    simp only [keepOf, Option.getD_some]
    cases hsp : splitLastDropped re s with
    | none =>
      have hall := splitLastDropped_none hsp
      have h1 : s.filter re = s := List.filter_eq_self.mpr hall
      have h2 : s.filter (fun kv => !re kv) = [] :=
        List.filter_eq_nil_iff.mpr (fun x hx => by simp [hall x hx])
      simp [h1, h2, List.isPerm_iff]
    | some t =>
      obtain ⟨pre, kv, suf⟩ := t
      obtain ⟨hs, hkv, hsuf⟩ := splitLastDropped_some hsp
      have h1 : suf.filter re = suf := List.filter_eq_self.mpr hsuf
      have h2 : suf.filter (fun kv => !re kv) = [] :=
        List.filter_eq_nil_iff.mpr (fun x hx => by simp [hsuf x hx])
      have hk : s.filter re = pre.filter re ++ suf := by
        rw [hs, List.filter_append, List.filter_cons]; simp [hkv, h1]
      have hd : s.filter (fun kv => !re kv) = pre.filter (fun kv => !re kv) ++ [kv] := by
        rw [hs, List.filter_append, List.filter_cons]; simp [hkv, h2]
      have hperm := filter_append_perm' re s
      simp only [Bool.and_eq_true, beq_iff_eq, List.isPerm_iff]
      by_cases hp : pre.length = 0
      · have : pre = [] := List.eq_nil_of_length_eq_zero hp
        subst this
        simp only [List.length_nil, if_true]
        refine ⟨⟨⟨by simpa using hk.symm, by rw [hd]; simp⟩, ?_⟩, trivial⟩
        rw [hs]; simp
      · simp only [hp, if_false]
        have f1 := filteredToFront_fst re pre
        have f2 := filteredToFront_snd re pre
        have hdp : (kv :: (filteredToFront re pre).1).Perm (s.filter (fun kv => !re kv)) := by
          rw [hd]
          exact (List.Perm.cons kv f1).trans (List.perm_append_comm (l₁ := [kv]))
        refine ⟨⟨⟨by rw [f2, hk], hdp⟩, ?_⟩, trivial⟩
        rw [f2, ← hk]
        exact (List.Perm.append_left _ hdp).trans (List.perm_append_comm.trans hperm)

/-- **lookups agree with the contents**: `Set.Value` (binary search) is association lookup -/
theorem value_is_lookup (s : List KV) (k : Bytes) (hs : strictSorted s = true) : value s k = lookup s k :=
  value_eq_lookup ((strictSorted_iff s).mp hs) k

/-- … so on a constructed Set it returns the value supplied last for the key -/
theorem value_newSet (kvs : List KV) (k : Bytes) : value (newSet kvs) k = lookupLast kvs k := by
  rw [value_is_lookup _ _ (newSet_canonical kvs).1, (newSet_canonical kvs).2.2]

/-- **merging agrees with the contents** (`Spec.mergeOK`): the merge iterator yields the strictly
sorted union of two Sets, with the first Set's binding on shared keys. -/
theorem merge_first_wins (a b : List KV) (ha : strictSorted a = true) (hb : strictSorted b = true) :
    mergeOK a b (mergeIter a b) = true ∧
    ∀ k, lookup (mergeIter a b) k = (lookup a k).or (lookup b k) := by
  have h := mergeAux_spec (a.length + b.length + 1) a b (by omega)
    ((strictSorted_iff a).mp ha) ((strictSorted_iff b).mp hb)
  refine ⟨?_, h.2⟩
  unfold mergeOK
  simp only [Bool.and_eq_true, List.all_eq_true, beq_iff_eq]
  exact ⟨(strictSorted_iff _).mpr h.1, fun k _ => h.2 k⟩

private theorem encodeLoop_pos (emit : Value → Bytes) (i : Nat) (hi : i > 0) (l : List KV) (buf : Bytes) :
    encodeLoop emit i l buf = buf ++ (l.map (fun kv => 0x2C :: encodeItem emit kv)).flatten := by
  induction l generalizing i buf with
  | nil => simp [encodeLoop]
  | cons x xs ih =>
    unfold encodeLoop
    simp only [hi, if_true]
    rw [ih (i + 1) (by omega)]
    simp

private theorem intersperse_flatten (sep : Bytes) (x : Bytes) (xs : List Bytes) :
    ((x :: xs).intersperse sep).flatten = x ++ (xs.map (fun y => sep ++ y)).flatten := by
  induction xs generalizing x with
  | nil => simp
  | cons y ys ih =>
    rw [List.intersperse_cons_cons, List.flatten_cons, List.flatten_cons, ih]
    simp

/-- **encoding agrees with the contents**: the default encoder's buffer loop produces the escaped
`key=value` items of the Set, in order, joined by `,` -/
theorem encode_is_join (emit : Value → Bytes) (s : List KV) : encode emit s = encodeRef emit s := by
  unfold encode encodeRef
  cases s with
  | nil => rfl
  | cons x xs =>
    unfold encodeLoop
    simp only [Nat.lt_irrefl, if_false, gt_iff_lt, List.nil_append]
    rw [encodeLoop_pos emit 1 (by omega), List.map_cons, intersperse_flatten]
    simp [List.map_map, Function.comp_def]

private theorem foldl_seqStep_results (more : List SeqOp) (st : SeqState) :
    ∃ ext, (more.foldl seqStep st).results = st.results ++ ext := by
  induction more generalizing st with
  | nil => exact ⟨[], by simp⟩
  | cons op rest ih =>
    obtain ⟨ext, h⟩ := ih (seqStep st op)
    have hstep : ∃ e, (seqStep st op).results = st.results ++ e := by
      cases op <;> exact ⟨_, rfl⟩
    obtain ⟨e, he⟩ := hstep
    exact ⟨e ++ ext, by simp only [List.foldl_cons]; rw [h, he, List.append_assoc]⟩

/-- **a result does not change after it was returned** (`Spec.resultsStable`): whatever calls
(`NewSet`, `NewSetWithFiltered`, `Filter`, merge iteration, `Value`, on any Sets) follow a script,
the results of the script read afterwards are what they were when returned. In the model results
are immutable values, so this is the prefix property of the result log; on the real code it is
what the `seq` lines re-observe (kept Sets, dropped slices, caller's slices, merged lists). -/
theorem seq_results_stable (ops more : List SeqOp) :
    resultsStable (runSeq ops).results
      ((runSeq (ops ++ more)).results.take (runSeq ops).results.length) = true := by
  obtain ⟨ext, h⟩ := foldl_seqStep_results more (runSeq ops)
  have : runSeq (ops ++ more) = more.foldl seqStep (runSeq ops) := by simp [runSeq, List.foldl_append]
  rw [this, h, List.take_left']
  · simp [resultsStable]
  · rfl

/-- remark, outside the property's statement: the default encoding does **not** determine the Set
(DESIGN's optional `encode_injective_on_keys` is false on the current code): `copyAndEscape` ranges
over runes, so every invalid UTF-8 byte is written as U+FFFD. (Independently, non-STRING values
are emitted unescaped: see the two STRINGSLICE/STRING lines in harness/corpus/C05/set.trace.) -/
theorem encode_not_injective_witness :
    ∃ a b : List KV, a ≠ b ∧ strictSorted a = true ∧ strictSorted b = true ∧
      ∀ emit, encode emit a = encode emit b := by
  refine ⟨[⟨[0x80], .bool true⟩], [⟨[0xff], .bool true⟩], by decide, by decide, by decide, fun emit => ?_⟩
  have h : escape [0x80] = escape [0xff] := by decide
  simp [encode, encodeLoop, encodeItem, h]


/-! ### session 3: the sort as written in the Go library; `Distinct`; exact identity -/

/-- **the stable sort is unique**: ANY result that is sorted by key and keeps, for every key, the
elements with that key in their input order is the reference `sortStable` (and a permutation of
the input). So modelling `slices.SortStableFunc` by "a stable sort" determines its result. -/
theorem stable_sort_unique (l out : List KV) (hs : Sorted out)
    (hst : ∀ k, out.filter (fun z => z.key == k) = l.filter (fun z => z.key == k)) :
    out = sortStable l ∧ out.Perm l := by
  have e : out = sortStable l :=
    sorted_filter_unique hs (sortStable_sorted l) (fun k => by rw [sortStable_filter]; exact hst k)
  exact ⟨e, e ▸ sortStable_perm l⟩

/-- **`insertionSortCmpFunc`, swap by swap, is the stable sort**, and it is all that
`slices.SortStableFunc` does for at most 20 elements. -/
theorem insertionSort_is_stable_sort (seg : List KV) :
    goInsertionSort seg = sortStable seg ∧ (seg.length ≤ 20 → goSortStable seg = goInsertionSort seg) :=
  ⟨goInsertionSort_eq_sortStable seg, goSortStable_small seg⟩

/-- **`symMergeCmpFunc` is the stable merge** — with its three binary searches (the `h := (i+j)/2` loops,
each with its own comparison), its split `start`/`end`, the exchange of the two inner blocks and
its two guarded recursive calls as written in slices/zsortanyfunc.go: for any two sorted runs the
result is the stable sort of their concatenation, i.e. the contract `mergeRuns` used before. -/
theorem symMerge_is_stable_merge (a b : List KV) (ha : Sorted a) (hb : Sorted b) (f : Nat) (hf : a.length + b.length ≤ f) :
    symMerge f a b = sortStable (a ++ b) ∧ symMerge (a.length + b.length) a b = mergeRuns a b :=
  ⟨symMerge_spec f a b hf ha hb, symMerge_eq_mergeRuns a b ha hb⟩

/-- **`slices.SortStableFunc` with nothing left to a contract** (insertion-sorted blocks of 20, merge rounds
with `symMergeCmpFunc` itself) is the stable sort for every length; this is the function
`NewSetWithFiltered`'s model calls. -/
theorem sortStableFunc_sym_is_stable_sort (l : List KV) :
    goSortStableSym l = sortStable l ∧ goSortStableSym l = goSortStable l := by
  rw [goSortStableSym_eq_sortStable, goSortStable_eq_sortStable]; exact ⟨rfl, rfl⟩

/-- the contract used for `symMergeCmpFunc` (stable merge of two sorted runs) yields the stable sort of the two runs -/
theorem symMerge_contract_is_stable_merge (a b : List KV) (ha : Sorted a) (hb : Sorted b) :
    mergeRuns a b = sortStable (a ++ b) := by
  obtain ⟨h1, h2⟩ := mergeRuns_spec a b ha hb
  exact (stable_sort_unique (a ++ b) _ h1 h2).1

/-- **`slices.SortStableFunc` as structured in the Go library** (insertion-sorted blocks of 20, rounds of
pairwise merges of adjacent runs) **is the stable sort** for every length: sorted by key, a
permutation, equal keys in input order. -/
theorem sortStableFunc_is_stable_sort (l : List KV) :
    goSortStable l = sortStable l ∧ Sorted (goSortStable l) ∧ (goSortStable l).Perm l ∧
    ∀ k, (goSortStable l).filter (fun z => z.key == k) = l.filter (fun z => z.key == k) := by
  rw [goSortStable_eq_sortStable]
  exact ⟨rfl, sortStable_sorted l, sortStable_perm l, sortStable_filter l⟩

private theorem filterMap_range_take (l : List KV) (n : Nat) :
    (List.range n).filterMap (fun i => l[i]?) = l.take n := by
  induction n with
  | zero => simp
  | succ n ih =>
    rw [List.range_succ, List.filterMap_append, ih, List.take_add_one]
    cases h : l[n]? <;> simp [h]

/-- **`computeDistinct`**: both code paths (the `switch` over lengths 1…10 with its array conversions,
and the reflective construction for 0 and for more than 10 elements) build the array value of
exactly the given elements whose dynamic type carries exactly their number. -/
theorem computeDistinct_eq (kvs : List KV) : computeDistinct kvs = some ⟨kvs.length, kvs⟩ := by
  have hr : computeDistinctReflect kvs = ⟨kvs.length, kvs⟩ := by
    simp [computeDistinctReflect, filterMap_range_take]
  have hfix : ∀ a, computeDistinctFixed kvs = some a → a = ⟨kvs.length, kvs⟩ := by
    intro a ha
    unfold computeDistinctFixed at ha
    split at ha
    all_goals first
      | (rename_i h; cases ha; simp only [arrOf, ← h, List.take_length])
      | cases ha
  unfold computeDistinct
  cases hf : computeDistinctFixed kvs with
  | some a => simp [hfix a hf]
  | none => simp [hr]

private theorem isZero_zero : isZero 0 = true := by decide

private theorem ieeeEq_iff (a b : UInt64) :
    ieeeEq a b = true ↔ (isNaN a = false ∧ isNaN b = false ∧ normF a = normF b) := by
  unfold ieeeEq normF
  by_cases hza : isZero a = true <;> by_cases hzb : isZero b = true
  · simp [hza, hzb]
  · have hne : ¬ a = b := fun e => hzb (e ▸ hza)
    have hb0 : ¬ 0 = b := fun e => hzb (e ▸ isZero_zero)
    simp [hza, hzb, hne, hb0]
  · have hne : ¬ a = b := fun e => hza (e ▸ hzb)
    have ha0 : ¬ a = 0 := fun e => hza (e ▸ isZero_zero)
    simp [hza, hzb, hne, ha0]
  · simp [hza, hzb, and_assoc]

private theorem listRel_ieeeEq_iff (l m : List UInt64) :
    listRel ieeeEq l m = true ↔ (l.any isNaN = false ∧ m.any isNaN = false ∧ l.map normF = m.map normF) := by
  induction l generalizing m with
  | nil => cases m <;> simp [listRel]
  | cons x xs ih =>
    cases m with
    | nil => simp [listRel]
    | cons y ys =>
      simp only [listRel, Bool.and_eq_true, ieeeEq_iff, ih, List.any_cons, Bool.or_eq_false_iff, List.map_cons,
        List.cons.injEq]
      constructor
      · rintro ⟨⟨h1, h2, h3⟩, h4, h5, h6⟩; exact ⟨⟨h1, h4⟩, ⟨h2, h5⟩, h3, h6⟩
      · rintro ⟨⟨h1, h4⟩, ⟨h2, h5⟩, h3, h6⟩; exact ⟨⟨h1, h2, h3⟩, h4, h5, h6⟩

private theorem goEq_iff (v w : Value) :
    goEq v w = true ↔ (valHasNaN v = false ∧ valHasNaN w = false ∧ normVal v = normVal w) := by
  cases v <;> cases w <;> simp [goEq, valHasNaN, normVal, listRel_ieeeEq_iff]

/-- **Equal / equal `Equivalent()` map keys, exactly**: two attribute lists are `==` as `Distinct` arrays
iff neither holds a NaN inside a FLOAT64SLICE (known finding F9 — the only exclusion) and they are
the same list of typed key-values up to the sign of zeros inside FLOAT64SLICE values (`normKV`:
the representation's identity). For Sets (sorted, one entry per key) "same list" is "same mapping". -/
theorem equal_iff_norm_eq (a b : List KV) :
    equal a b = true ↔ (F9_applies a = false ∧ F9_applies b = false ∧ a.map normKV = b.map normKV) := by
  unfold equal F9_applies
  induction a generalizing b with
  | nil => cases b <;> simp [relList]
  | cons x xs ih =>
    cases b with
    | nil => simp [relList]
    | cons y ys =>
      simp only [relList, Bool.and_eq_true, beq_iff_eq, goEq_iff, ih, List.any_cons, Bool.or_eq_false_iff,
        List.map_cons, List.cons.injEq, normKV, KV.mk.injEq]
      constructor
      · rintro ⟨⟨hk, h1, h2, h3⟩, h4, h5, h6⟩; exact ⟨⟨h1, h4⟩, ⟨h2, h5⟩, ⟨hk, h3⟩, h6⟩
      · rintro ⟨⟨h1, h4⟩, ⟨h2, h5⟩, ⟨hk, h3⟩, h6⟩; exact ⟨⟨hk, h1, h2, h3⟩, h4, h5, h6⟩

private theorem relList_length {r : Value → Value → Bool} {a b : List KV} (h : relList r a b = true) :
    a.length = b.length := by
  induction a generalizing b with
  | nil => cases b <;> simp_all [relList]
  | cons x xs ih =>
    cases b with
    | nil => simp [relList] at h
    | cons y ys =>
      simp only [relList, Bool.and_eq_true] at h
      simp [ih h.2]

/-- **`Set.Equals` / `Equivalent()` through `computeDistinct`**: comparing the `Distinct` values of two
constructed Sets (interface `==`: dynamic array type, then elements) is `equal` on their contents,
on either side of the 10/11 switch between the fixed-size and the reflective construction. -/
theorem set_equals_is_equal (a b : List KV) :
    setEquals (some (computeDistinct a)) (some (computeDistinct b)) = equal a b := by
  rw [computeDistinct_eq, computeDistinct_eq]
  simp only [setEquals, setEquivalent, distinctEq, equal]
  cases h : relList goEq a b with
  | false => simp
  | true => simp [relList_length h]

/-- **accessors agree with the contents**: `Len`, `Get`, `ToSlice` of a constructed Set -/
theorem set_accessors (kvs : List KV) :
    setLen (some (computeDistinct kvs)) = kvs.length ∧
    setToSlice (some (computeDistinct kvs)) = kvs ∧
    ∀ i : Nat, setGet (some (computeDistinct kvs)) (Int.ofNat i) = kvs[i]? := by
  rw [computeDistinct_eq]
  have hget : ∀ i : Nat, setGet (some (some ⟨kvs.length, kvs⟩)) (Int.ofNat i) = kvs[i]? := by
    intro i
    simp only [setGet]
    by_cases h : i < kvs.length
    · simp [h]
    · simp [h]
  refine ⟨rfl, ?_, hget⟩
  simp only [setToSlice, setLen, hget]
  rw [filterMap_range_take, List.take_length]

/-- **a nil `*Set`, the zero `Set{}` and `NewSet()` are the same empty Set** for every accessor and
for `Equals`/`Equivalent` (all three pairwise, and with `EmptySet()`). -/
theorem nil_zero_empty_sets (l o : SetP) (hl : l = none ∨ l = some none ∨ l = some (computeDistinct []))
    (ho : o = none ∨ o = some none ∨ o = some (computeDistinct [])) (idx : Int) :
    setLen l = 0 ∧ setToSlice l = [] ∧ setGet l idx = none ∧ setEquivalent l = emptyDistinct ∧
    setEquals l o = true := by
  have hc : computeDistinct [] = some ⟨0, []⟩ := computeDistinct_eq []
  rcases hl with rfl | rfl | rfl <;> rcases ho with rfl | rfl | rfl <;>
    simp [hc, setLen, setToSlice, setGet, setEquivalent, emptyDistinct, setEquals, distinctEq, relList] <;> omega

/-- **key filters** (`NewAllowKeysFilter` / `NewDenyKeysFilter`, incl. their empty-list branches): on every Set
the allow-filter keeps exactly the attributes whose key is listed, the deny-filter exactly the
others, and the two kept Sets together are the original (no attribute lost, none in both). -/
theorem allow_deny_partition (s : List KV) (keys : List Bytes) :
    (setFilter s (some (allowKeysFilter keys))).1 = s.filter (fun kv => keys.contains kv.key) ∧
    (setFilter s (some (denyKeysFilter keys))).1 = s.filter (fun kv => !keys.contains kv.key) ∧
    ((setFilter s (some (allowKeysFilter keys))).1 ++ (setFilter s (some (denyKeysFilter keys))).1).Perm s ∧
    (setFilter s (some (allowKeysFilter keys))).2.Perm (setFilter s (some (denyKeysFilter keys))).1 := by
  have ha := filter_partition s (some (allowKeysFilter keys))
  have hd := filter_partition s (some (denyKeysFilter keys))
  simp only [filterOK, keepOf, Option.getD_some, Bool.and_eq_true, beq_iff_eq, List.isPerm_iff] at ha hd
  have ea : allowKeysFilter keys = fun kv => keys.contains kv.key := by
    unfold allowKeysFilter
    split
    · have : keys = [] := List.eq_nil_of_length_eq_zero (by omega)
      subst this; funext kv; simp
    · rfl
  have ed : denyKeysFilter keys = fun kv => !keys.contains kv.key := by
    unfold denyKeysFilter
    split
    · have : keys = [] := List.eq_nil_of_length_eq_zero (by omega)
      subst this; funext kv; simp
    · rfl
  rw [ea] at ha
  rw [ed] at hd
  rw [ea, ed]
  refine ⟨ha.1.1.1, hd.1.1.1, ?_, ?_⟩
  · rw [ha.1.1.1, hd.1.1.1]
    exact List.perm_append_comm.trans (filter_append_perm' (fun kv => keys.contains kv.key) s)
  · rw [hd.1.1.1]; exact ha.1.1.2

/-- **the default encoder's escaping, exactly**: `copyAndEscape` is bytewise backslash-escaping of `=` `,` `\`
applied to the string with every invalid UTF-8 byte replaced by U+FFFD (`sanitize`); on valid
UTF-8 it is bytewise escaping of the string itself; un-escaping gives the sanitized string back. -/
theorem escape_is_bytewise (s : Bytes) :
    escape s = escB (sanitize s) ∧ (Utf8.validString s = true → escape s = escB s) ∧
    unescB (escape s) = sanitize s := by
  refine ⟨escape_eq_escB_sanitize s, fun h => ?_, ?_⟩
  · rw [escape_eq_escB_sanitize, sanitize_of_valid h]
  · rw [escape_eq_escB_sanitize, unescB_escB]

/-- **escaping is injective up to exactly the invalid bytes**: two strings escape to the same bytes iff
they are equal after replacing invalid bytes by U+FFFD; so on valid UTF-8 escaping is injective
(the failure set is the one of `encode_not_injective_witness`, nothing else). -/
theorem escape_injective_iff (s t : Bytes) :
    (escape s = escape t ↔ sanitize s = sanitize t) ∧
    (Utf8.validString s = true → Utf8.validString t = true → escape s = escape t → s = t) := by
  have h1 : escape s = escape t ↔ sanitize s = sanitize t := by
    rw [escape_eq_escB_sanitize, escape_eq_escB_sanitize]
    exact ⟨escB_injective, fun e => by rw [e]⟩
  refine ⟨h1, fun hs ht e => ?_⟩
  have := h1.mp e
  rwa [sanitize_of_valid hs, sanitize_of_valid ht] at this

/-- the sanitized key and (STRING) value of an attribute -/
def sanPair (kv : KV) : Bytes × Bytes :=
  (sanitize kv.key, match kv.val with | .str v => sanitize v | _ => [])

private theorem encode_strings (emit : Value → Bytes) (a : List KV) (ha : ∀ x ∈ a, ∃ v, x.val = .str v) :
    encode emit a = encPairs (a.map sanPair) := by
  rw [encode_is_join, encodeRef, encPairs, List.map_map]
  congr 2
  apply List.map_congr_left
  intro x hx
  obtain ⟨v, hv⟩ := ha x hx
  simp only [encodeItem, hv, Function.comp, sanPair, escape_eq_escB_sanitize]

/-- **the encoding determines a Set of STRING attributes up to invalid bytes** (and determines it
outright when keys and values are valid UTF-8): the escaped `key=value` items joined by `,` parse
back uniquely, because every `=` `,` `\` inside a key or value carries a backslash. Non-STRING
values are emitted unescaped (corpus witnesses), so the statement is about STRING-valued Sets. -/
theorem encode_injective_on_string_sets (emit : Value → Bytes) (a b : List KV)
    (ha : ∀ x ∈ a, ∃ v, x.val = .str v) (hb : ∀ x ∈ b, ∃ v, x.val = .str v) :
    encode emit a = encode emit b ↔ a.map sanPair = b.map sanPair := by
  rw [encode_strings emit a ha, encode_strings emit b hb]
  exact ⟨encPairs_injective _ _, fun e => by rw [e]⟩

private theorem sanPair_valid_inj {x y : KV} (hx : ∃ v, x.val = .str v) (hy : ∃ v, y.val = .str v)
    (vx : Utf8.validString x.key = true ∧ ∀ v, x.val = .str v → Utf8.validString v = true)
    (vy : Utf8.validString y.key = true ∧ ∀ v, y.val = .str v → Utf8.validString v = true)
    (h : sanPair x = sanPair y) : x = y := by
  obtain ⟨v, hv⟩ := hx
  obtain ⟨w, hw⟩ := hy
  obtain ⟨xk, xv⟩ := x
  obtain ⟨yk, yv⟩ := y
  simp only at hv hw vx vy
  subst hv hw
  simp only [sanPair, Prod.mk.injEq] at h
  rw [sanitize_of_valid vx.1, sanitize_of_valid vy.1, sanitize_of_valid (vx.2 v rfl),
    sanitize_of_valid (vy.2 w rfl)] at h
  rw [h.1, h.2]

theorem encode_injective_valid_utf8 (emit : Value → Bytes) (a b : List KV)
    (ha : ∀ x ∈ a, ∃ v, x.val = .str v) (hb : ∀ x ∈ b, ∃ v, x.val = .str v)
    (va : ∀ x ∈ a, Utf8.validString x.key = true ∧ ∀ v, x.val = .str v → Utf8.validString v = true)
    (vb : ∀ x ∈ b, Utf8.validString x.key = true ∧ ∀ v, x.val = .str v → Utf8.validString v = true)
    (h : encode emit a = encode emit b) : a = b := by
  have hm := (encode_injective_on_string_sets emit a b ha hb).mp h
  clear h
  induction a generalizing b with
  | nil => cases b with
    | nil => rfl
    | cons y ys => simp at hm
  | cons x xs ih =>
    cases b with
    | nil => simp at hm
    | cons y ys =>
      simp only [List.map_cons, List.cons.injEq] at hm
      have e := sanPair_valid_inj (ha x (by simp)) (hb y (by simp)) (va x (by simp)) (vb y (by simp)) hm.1
      rw [e, ih ys (fun z hz => ha z (by simp [hz])) (fun z hz => hb z (by simp [hz]))
        (fun z hz => va z (by simp [hz])) (fun z hz => vb z (by simp [hz])) hm.2]

/-- **`MergeIterator`, step by step**: the state machine of iterator.go (two `oneIterator`s with their
`done` flags and look-ahead attributes, `Next` with its six cases) yields exactly the merged list the
other theorems are about — for any two lists; for two Sets that is the sorted first-wins union. -/
theorem mergeIterator_state_machine (a b : List KV) :
    mergeIterSM a b = mergeIter a b ∧
    (strictSorted a = true → strictSorted b = true → mergeOK a b (mergeIterSM a b) = true) := by
  refine ⟨mergeIterSM_eq a b, fun ha hb => ?_⟩
  rw [mergeIterSM_eq]; exact (merge_first_wins a b ha hb).1

/-- **`Iterator`**: `for it.Next() { … it.Attribute() … }` on a fresh iterator visits exactly the contents
in order and ends past the end (where `Attribute` is the zero KeyValue and `Next` stays false);
`ToSlice` from any position returns the contents and leaves the iterator exhausted. -/
theorem iterator_spec (s : List KV) (idx : Int) :
    (Iter.drain (s.length + 1) { storage := s }).2 = s ∧
    (Iter.drain (s.length + 1) { storage := s }).1.attribute = zeroKV ∧
    ((Iter.drain (s.length + 1) { storage := s }).1.next).2 = false ∧
    (Iter.toSlice { storage := s, idx := idx }).2 = s ∧
    (s ≠ [] → ((Iter.toSlice { storage := s, idx := idx }).1.next).2 = false) := by
  obtain ⟨d1, d2⟩ := iter_drain_spec (s.length + 1) { storage := s } 0 (by simp) (by simp) (by simp)
  simp only at d1 d2
  refine ⟨by simpa using d1, ?_, ?_, ?_, ?_⟩
  · rw [d2]; simp [Iter.attribute]
  · rw [d2]; simp only [Iter.next, decide_eq_false_iff_not]; omega
  · unfold Iter.toSlice
    by_cases h0 : s.length = 0
    · have : s = [] := List.eq_nil_of_length_eq_zero h0
      simp [this]
    · obtain ⟨e1, _⟩ := iter_drain_spec (s.length + 1) { storage := s, idx := -1 } 0 (by simp) (by simp) (by simp)
      simp only [h0, if_false]
      simpa using e1
  · intro hne
    unfold Iter.toSlice
    have h0 : ¬ s.length = 0 := fun e => hne (List.eq_nil_of_length_eq_zero e)
    obtain ⟨_, e2⟩ := iter_drain_spec (s.length + 1) { storage := s, idx := -1 } 0 (by simp) (by simp) (by simp)
    simp only [h0, if_false]
    rw [e2]; simp only [Iter.next, decide_eq_false_iff_not]; omega

/-- `Value.Emit` as modelled (everything but the float types) -/
def emitModel (v : Value) : Bytes := (emitKnown v).getD []

/-- **beyond STRING values the default encoding cannot be injective** (so `encode_injective_on_string_sets`
is as far as it goes): values of other types are written by `Value.Emit` without escaping and without
a type mark — a BOOL and the STRING `true` encode alike, and a STRINGSLICE whose JSON text contains
`,` and `=` encodes like two STRING attributes. -/
theorem encode_cross_type_collision_witness :
    encode emitModel [⟨[0x6b], .bool true⟩] = encode emitModel [⟨[0x6b], .str [0x74, 0x72, 0x75, 0x65]⟩] ∧
    encode emitModel [⟨[0x21], .strs [[0x78], [0x7a, 0x3d, 0x63]]⟩] =
      encode emitModel [⟨[0x21], .str [0x5b, 0x22, 0x78, 0x22]⟩, ⟨[0x22, 0x7a], .str [0x63, 0x22, 0x5d]⟩] ∧
    strictSorted [⟨[0x21], .str [0x5b, 0x22, 0x78, 0x22]⟩, ⟨[0x22, 0x7a], .str [0x63, 0x22, 0x5d]⟩] = true := by
  decide

/-! ### non-vacuity: concrete, non-trivial instances evaluated by the kernel -/

/-- duplicates, unsorted input, a filter that drops a winner: set, dropped, caller's slice -/
example :
    newSetWithFiltered [⟨[0x61], .int 1⟩, ⟨[], .str []⟩, ⟨[0x61], .int 2⟩, ⟨[], .invalid⟩, ⟨[0x62], .bool true⟩, ⟨[0x61], .int 3⟩]
      (some (fun kv => kv.key == [0x61])) =
    ⟨[⟨[0x61], .int 3⟩], [⟨[], .invalid⟩, ⟨[0x62], .bool true⟩],
     [⟨[], .str []⟩, ⟨[0x61], .int 2⟩, ⟨[0x61], .int 1⟩, ⟨[], .invalid⟩, ⟨[0x62], .bool true⟩, ⟨[0x61], .int 3⟩]⟩ := by decide
example : setFilter [⟨[0x61], .int 1⟩, ⟨[0x62], .bool true⟩, ⟨[0x63], .bool false⟩, ⟨[0x64], .str []⟩]
      (some (fun kv => kv.key == [0x62] || kv.key == [0x64])) =
    ([⟨[0x62], .bool true⟩, ⟨[0x64], .str []⟩], [⟨[0x63], .bool false⟩, ⟨[0x61], .int 1⟩]) := by decide
example : strictSorted [⟨[0x61], .int 1⟩, ⟨[0x62], .bool true⟩] = true ∧
    value [⟨[0x61], .int 1⟩, ⟨[0x62], .bool true⟩] [0x62] = some (.bool true) := by decide
example : mergeIter [⟨[0x61], .int 1⟩, ⟨[0x62], .bool true⟩] [⟨[0x62], .bool false⟩, ⟨[0x63], .str []⟩] =
    [⟨[0x61], .int 1⟩, ⟨[0x62], .bool true⟩, ⟨[0x63], .str []⟩] := by decide
/-- the seeded shape: Filter dropping only the smallest key, then another Filter on another Set -/
example : (runSeq [.set [⟨[0x41], .str [0x61]⟩, ⟨[0x42], .int 2⟩], .filter 0 (some (fun kv => kv.key != [0x41])),
      .set [⟨[0x58], .str [0x78]⟩, ⟨[0x59], .bool true⟩], .filter 2 (some (fun kv => kv.key != [0x58]))]).results =
    [[[⟨[0x41], .str [0x61]⟩, ⟨[0x42], .int 2⟩]],
     [[⟨[0x42], .int 2⟩], [⟨[0x41], .str [0x61]⟩], [⟨[0x41], .str [0x61]⟩, ⟨[0x42], .int 2⟩]],
     [[⟨[0x58], .str [0x78]⟩, ⟨[0x59], .bool true⟩]],
     [[⟨[0x59], .bool true⟩], [⟨[0x58], .str [0x78]⟩], [⟨[0x58], .str [0x78]⟩, ⟨[0x59], .bool true⟩]]] := by decide
example : F9_applies [⟨[0x6b], .floats [0, 0x3ff8000000000000]⟩, ⟨[0x6c], .float 0x7ff8000000000001⟩] = false := by decide
example : ∃ a b : List KV, a ≠ b ∧ ∀ k, lookupLast a k = lookupLast b k :=
  ⟨[⟨[1], .int 1⟩, ⟨[2], .int 2⟩], [⟨[2], .int 2⟩, ⟨[1], .int 1⟩], by decide, fun k => by
    by_cases h1 : [1] = k
    · subst h1; decide
    · by_cases h2 : [2] = k
      · subst h2; decide
      · simp [lookupLast, lookup, h1, h2]⟩

/-- 25 elements: the blocks-and-merge path of `SortStableFunc`; equal keys keep their input order -/
example : goSortStable ((List.range 25).map (fun i => (⟨[UInt8.ofNat (24 - i) / 2], .int (UInt64.ofNat i)⟩ : KV))) =
    sortStable ((List.range 25).map (fun i => (⟨[UInt8.ofNat (24 - i) / 2], .int (UInt64.ofNat i)⟩ : KV))) := by decide
example : goInsertionSort [⟨[2], .int 1⟩, ⟨[1], .int 2⟩, ⟨[2], .int 3⟩, ⟨[1], .int 4⟩] =
    [⟨[1], .int 2⟩, ⟨[1], .int 4⟩, ⟨[2], .int 1⟩, ⟨[2], .int 3⟩] := by decide
/-- `-0`/`+0` inside a float slice are identified, NaN excludes -/
example : equal [⟨[0x6b], .floats [0x8000000000000000, 1]⟩] [⟨[0x6b], .floats [0, 1]⟩] = true ∧
    [(⟨[0x6b], .floats [0x8000000000000000, 1]⟩ : KV)].map normKV = [(⟨[0x6b], .floats [0, 1]⟩ : KV)].map normKV := by decide
example : setEquals none (some (computeDistinct [])) = true ∧
    setEquals (some (computeDistinct [⟨[1], .int 1⟩])) (some none) = false := by decide

/-- `k=,` ↦ `k\=\,` ; an invalid byte is sanitized to U+FFFD -/
example : escape [0x6b, 0x3d, 0x2c] = [0x6b, 0x5c, 0x3d, 0x5c, 0x2c] ∧ unescB (escape [0x6b, 0x3d, 0x2c]) = [0x6b, 0x3d, 0x2c] ∧
    sanitize [0x61, 0xff] = [0x61, 0xEF, 0xBF, 0xBD] ∧ Utf8.validString [0x6b, 0xC5, 0xA1] = true := by decide

/-- the merge state machine on the empty key and an INVALID value (the seeded sentinel shape) -/
example : mergeIterSM [⟨[], .int 1⟩, ⟨[0x62], .invalid⟩] [⟨[0x61], .bool true⟩, ⟨[0x62], .int 2⟩] =
    [⟨[], .int 1⟩, ⟨[0x61], .bool true⟩, ⟨[0x62], .invalid⟩] := by decide

/-- Emit of slices: `[true false]`, `["a\"","<"]` ↦ `["a\\\"","\\u003c"]`, `[]` -/
example : emitKnown (.bools [true, false]) = some [0x5b, 0x74, 0x72, 0x75, 0x65, 0x20, 0x66, 0x61, 0x6c, 0x73, 0x65, 0x5d] ∧
    emitKnown (.strs [[0x61, 0x22], [0x3c]]) = some [0x5b, 0x22, 0x61, 0x5c, 0x22, 0x22, 0x2c, 0x22, 0x5c, 0x75, 0x30, 0x30, 0x33, 0x63, 0x22, 0x5d] ∧
    emitKnown (.strs []) = some [0x5b, 0x5d] := by decide

/-- symMerge on two runs with ties across them and the general (recursive) case -/
example : symMerge 9 [⟨[1], .int 1⟩, ⟨[3], .int 2⟩, ⟨[3], .int 3⟩, ⟨[5], .int 4⟩] [⟨[0], .int 5⟩, ⟨[3], .int 6⟩, ⟨[4], .int 7⟩, ⟨[5], .int 8⟩, ⟨[6], .int 9⟩] =
    [⟨[0], .int 5⟩, ⟨[1], .int 1⟩, ⟨[3], .int 2⟩, ⟨[3], .int 3⟩, ⟨[3], .int 6⟩, ⟨[4], .int 7⟩, ⟨[5], .int 4⟩, ⟨[5], .int 8⟩, ⟨[6], .int 9⟩] := by decide

end Otel.C05
