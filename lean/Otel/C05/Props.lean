/-
C05 — property theorems about the model of `attribute.Set` (Model.lean), with the Spec predicates
(Spec.lean) that the driver also evaluates on the real code's results.
-/
import Otel.C05.Lemmas
namespace Otel.C05
open Otel Otel.C05.Spec

/-- de-duplication of a sorted slice: strictly sorted winners holding the last-wins mapping, and the
slice afterwards (superseded prefix ++ winners) is a permutation of the slice before -/
private theorem dedup_spec (l : List KV) (hl : Sorted l) :
    SSorted (dedup l).2 ∧ (∀ k, lookup (dedup l).2 k = lookupLast l k) ∧ ((dedup l).1 ++ (dedup l).2).Perm l := by
  unfold dedup
  have hd := sortedDesc_reverse hl
  cases hr : l.reverse with
  | nil =>
    have : l = [] := by simpa using hr
    subst this
    exact ⟨by simp [SSorted], fun k => rfl, List.Perm.refl _⟩
  | cons w revA =>
    rw [hr] at hd
    simp only [dedupLoop_snd]
    refine ⟨loopW_ssorted revA w [] hd (by simp [SSorted]), fun k => ?_, ?_⟩
    · rw [loopW_lookup revA w [] hd k, lookupLast, hr]; simp
    · have := dedupLoop_perm revA [] w []
      rw [dedupLoop_snd] at this
      refine this.trans ?_
      have : revA.reverse ++ ([] ++ [w]) = l := by
        have : (w :: revA).reverse = l := by rw [← hr, List.reverse_reverse]
        simpa using this
      rw [this]

private theorem dedup_sortStable_eq_canon (kvs : List KV) : (dedup (sortStable kvs)).2 = canon kvs := by
  obtain ⟨h1, h2, _⟩ := dedup_spec (sortStable kvs) (sortStable_sorted kvs)
  apply eq_of_lookup_eq h1 (canon_ssorted kvs)
  intro k
  rw [h2, lookupLast_sortStable, lookup_canon]

private theorem filter_append_perm' (p : KV → Bool) (l : List KV) :
    (l.filter (fun x => !p x) ++ l.filter p).Perm l := by
  induction l with
  | nil => exact List.Perm.refl _
  | cons x xs ih =>
    by_cases h : p x
    · simp only [List.filter_cons, h, Bool.not_true, Bool.false_eq_true, if_false, if_true]
      exact List.perm_middle.trans (List.Perm.cons x ih)
    · simp only [List.filter_cons, h, Bool.not_false, if_true, List.cons_append]
      exact List.Perm.cons x ih

private theorem filter_true' (l : List KV) : l.filter (fun _ => true) = l :=
  List.filter_eq_self.mpr (fun _ _ => rfl)
private theorem filter_false' (l : List KV) : l.filter (fun _ => !true) = [] :=
  List.filter_eq_nil_iff.mpr (fun _ _ => by simp)

/-- the three results of `NewSetWithFiltered` in terms of the reference canonical form -/
private theorem nswf_fields (kvs : List KV) (filter : Option (KV → Bool)) :
    (newSetWithFiltered kvs filter).set = (canon kvs).filter (keepOf filter) ∧
    (newSetWithFiltered kvs filter).dropped.Perm ((canon kvs).filter (fun kv => !keepOf filter kv)) ∧
    (newSetWithFiltered kvs filter).after.Perm kvs ∧
    ∃ m, (newSetWithFiltered kvs filter).after =
      m ++ ((newSetWithFiltered kvs filter).dropped ++ (newSetWithFiltered kvs filter).set) := by
  by_cases h0 : kvs.length = 0
  · have : kvs = [] := List.eq_nil_of_length_eq_zero h0
    subst this
    have hr : newSetWithFiltered [] filter = ⟨[], [], []⟩ := by simp [newSetWithFiltered]
    rw [hr]
    exact ⟨by simp [canon], by simp [canon], List.Perm.refl _, [], rfl⟩
  · obtain ⟨hss, _, hperm⟩ := dedup_spec (sortStable kvs) (sortStable_sorted kvs)
    have hcan := dedup_sortStable_eq_canon kvs
    have hperm' : ((dedup (sortStable kvs)).1 ++ canon kvs).Perm kvs := by
      rw [← hcan]; exact hperm.trans (sortStable_perm kvs)
    cases filter with
    | none =>
      have hr : newSetWithFiltered kvs none =
          ⟨canon kvs, [], (dedup (sortStable kvs)).1 ++ canon kvs⟩ := by
        simp [newSetWithFiltered, h0, hcan]
      rw [hr]
      refine ⟨?_, ?_, hperm', (dedup (sortStable kvs)).1, by simp⟩
      · simp [keepOf, filter_true']
      · simp [keepOf]
    | some keep =>
      have hk := filteredToFront_snd keep (canon kvs)
      have hd := filteredToFront_fst keep (canon kvs)
      have hall : ((dedup (sortStable kvs)).1 ++ ((filteredToFront keep (canon kvs)).1 ++ (canon kvs).filter keep)).Perm kvs := by
        refine (List.Perm.append_left _ ?_).trans hperm'
        exact (List.Perm.append_right _ hd).trans (filter_append_perm' keep _)
      simp only [keepOf, Option.getD_some]
      by_cases hdl : (filteredToFront keep (canon kvs)).1.length ≠ 0
      · have hr : newSetWithFiltered kvs (some keep) =
            ⟨(canon kvs).filter keep, (filteredToFront keep (canon kvs)).1,
              (dedup (sortStable kvs)).1 ++ ((filteredToFront keep (canon kvs)).1 ++ (canon kvs).filter keep)⟩ := by
          simp [newSetWithFiltered, h0, hcan, hdl, hk]
        rw [hr]
        exact ⟨rfl, hd, hall, _, rfl⟩
      · have hnil : (filteredToFront keep (canon kvs)).1 = [] :=
          List.eq_nil_of_length_eq_zero (by omega)
        have hr : newSetWithFiltered kvs (some keep) =
            ⟨(canon kvs).filter keep, [], (dedup (sortStable kvs)).1 ++ (canon kvs).filter keep⟩ := by
          simp [newSetWithFiltered, h0, hcan, hnil, hk]
        rw [hr]
        rw [hnil] at hd hall
        exact ⟨rfl, hd, by simpa using hall, (dedup (sortStable kvs)).1, by simp⟩

/-- **NewSetWithFiltered, all clauses at once, in the form the oracle checks on the real code**
(`Spec.newSetOK`): for every input slice and every filter (or none) the returned set is strictly
sorted by key and is the kept part of the canonical form of the last-wins mapping; the second
result is (a permutation of) the filtered-out part; the caller's slice afterwards is a permutation
of the input and ends with `dropped ++ set`, i.e. the superseded duplicates stay in front. -/
theorem newSetWithFiltered_ok (kvs : List KV) (filter : Option (KV → Bool)) :
    newSetOK kvs filter (newSetWithFiltered kvs filter).set (newSetWithFiltered kvs filter).dropped
      (newSetWithFiltered kvs filter).after = true := by
  obtain ⟨h1, h2, h3, m, h4⟩ := nswf_fields kvs filter
  unfold newSetOK
  simp only [Bool.and_eq_true, beq_iff_eq, List.isPerm_iff]
  refine ⟨⟨⟨⟨?_, h1⟩, h2⟩, h3⟩, ?_⟩
  · rw [h1]; exact (strictSorted_iff _).mpr ((canon_ssorted kvs).filter _)
  · rw [h4]
    apply List.drop_left'
    simp only [List.length_append]
    omega

/-- **sorted, de-duplicated, last value wins**: `NewSet(kvs)` is strictly sorted by key, equals the
canonical form of the last-wins mapping of `kvs`, and binds every key to the value supplied last. -/
theorem newSet_canonical (kvs : List KV) :
    strictSorted (newSet kvs) = true ∧ newSet kvs = canon kvs ∧ ∀ k, lookup (newSet kvs) k = lookupLast kvs k := by
  have h := newSetWithFiltered_ok kvs none
  simp only [newSetOK, keepOf, Option.getD_none, filter_true', Bool.and_eq_true, beq_iff_eq] at h
  refine ⟨h.1.1.1.1, h.1.1.1.2, fun k => ?_⟩
  unfold newSet
  rw [h.1.1.1.2, lookup_canon]

/-- **order- and duplication-insensitive identity**: two inputs that denote the same last-wins
mapping (in particular: permutations, repetitions, superseded junk) give the same Set. -/
theorem newSet_perm_dup_insensitive (a b : List KV) (h : ∀ k, lookupLast a k = lookupLast b k) :
    newSet a = newSet b := by
  rw [(newSet_canonical a).2.1, (newSet_canonical b).2.1]
  exact eq_of_lookup_eq (canon_ssorted a) (canon_ssorted b) (fun k => by rw [lookup_canon, lookup_canon, h])

private theorem filter_key_length_le_one {l : List KV} (hn : (keys l).Nodup) (k : Bytes) :
    (l.filter (fun z => z.key == k)).length ≤ 1 := by
  induction l with
  | nil => simp
  | cons x xs ih =>
    simp only [keys, List.map_cons, List.nodup_cons] at hn
    by_cases hx : x.key = k
    · have : xs.filter (fun z => z.key == k) = [] := by
        apply List.filter_eq_nil_iff.mpr
        intro z hz
        simp only [beq_iff_eq]
        intro e
        exact hn.1 (List.mem_map.mpr ⟨z, hz, e.trans hx.symm⟩)
      simp [hx, this]
    · simp only [List.filter_cons, beq_iff_eq, hx, if_false]
      exact ih hn.2

/-- **order-insensitive**: any permutation of a slice with distinct keys gives the same Set -/
theorem newSet_perm (a b : List KV) (hp : a.Perm b) (hn : (keys a).Nodup) : newSet a = newSet b := by
  apply newSet_perm_dup_insensitive
  intro k
  rw [lookupLast_filter, lookupLast_filter]
  have hpf := hp.filter (fun z => z.key == k)
  have hla := filter_key_length_le_one hn k
  have hlen := hpf.length_eq
  cases hfa : a.filter (fun z => z.key == k) with
  | nil =>
    rw [hfa] at hlen
    have : b.filter (fun z => z.key == k) = [] := List.eq_nil_of_length_eq_zero (by simpa using hlen.symm)
    rw [this]
  | cons x xs =>
    rw [hfa] at hla hpf
    have : xs = [] := List.eq_nil_of_length_eq_zero (by simpa using hla)
    subst this
    rw [List.singleton_perm.mp hpf]

/-- building a Set from a Set's own contents, or from the input repeated, changes nothing -/
theorem newSet_idem (kvs : List KV) : newSet (newSet kvs) = newSet kvs ∧ newSet (kvs ++ kvs) = newSet kvs := by
  constructor
  · apply eq_of_lookup_eq
    · exact (strictSorted_iff _).mp (newSet_canonical _).1
    · exact (strictSorted_iff _).mp (newSet_canonical _).1
    · intro k
      rw [(newSet_canonical (newSet kvs)).2.2 k]
      exact lookupLast_eq_lookup ((strictSorted_iff _).mp (newSet_canonical kvs).1) k
  · apply newSet_perm_dup_insensitive
    intro k
    rw [lookupLast_append]
    cases lookupLast kvs k <;> rfl

/-- **no input value is lost**: the caller's slice after `NewSetWithFiltered` is a permutation of
the slice before, and it is `superseded ++ dropped ++ set` with every superseded element's key
still bound in `dropped ++ set`. -/
theorem newSet_loses_nothing (kvs : List KV) (filter : Option (KV → Bool)) :
    let r := newSetWithFiltered kvs filter
    r.after.Perm kvs ∧ ∃ superseded, r.after = superseded ++ (r.dropped ++ r.set) ∧
      (superseded ++ (r.dropped ++ r.set)).Perm kvs := by
  intro r
  have h := newSetWithFiltered_ok kvs filter
  simp only [newSetOK, Bool.and_eq_true, beq_iff_eq, List.isPerm_iff] at h
  refine ⟨h.1.2, r.after.take (r.after.length - (r.dropped.length + r.set.length)), ?_, ?_⟩
  · conv => lhs; rw [← List.take_append_drop (r.after.length - (r.dropped.length + r.set.length)) r.after]
    rw [h.2]
  · have : r.after.take (r.after.length - (r.dropped.length + r.set.length)) ++ (r.dropped ++ r.set) = r.after := by
      conv => rhs; rw [← List.take_append_drop (r.after.length - (r.dropped.length + r.set.length)) r.after]
      rw [h.2]
    rw [this]; exact h.1.2

private theorem lookup_none_of_not_mem_keys {l : List KV} {k : Bytes} (h : k ∉ keys l) : lookup l k = none :=
  lookup_eq_none (fun x hx e => h (by simp only [keys, List.mem_map]; exact ⟨x, hx, e⟩))

private theorem sameMapping_iff (r : Value → Value → Bool) (a b : List KV) :
    sameMapping r a b = true ↔ ∀ k, optRel r (lookup a k) (lookup b k) = true := by
  unfold sameMapping
  rw [List.all_eq_true]
  constructor
  · intro h k
    by_cases hk : k ∈ keys a ++ keys b
    · exact h k hk
    · have ha : k ∉ keys a := fun h' => hk (List.mem_append_left _ h')
      have hb : k ∉ keys b := fun h' => hk (List.mem_append_right _ h')
      rw [lookup_none_of_not_mem_keys ha, lookup_none_of_not_mem_keys hb]; rfl
  · intro h k _; exact h k

/-- **Equal / equal map keys exactly when the same mapping is held**: for two Sets (strictly sorted
contents) Go's `==` on the `Distinct` arrays holds iff every key is bound to `==`-identical values
in both (`==` = the representation's identity `goEq`: bits for scalars, IEEE on float-slice elements). -/
theorem equal_iff_same_mapping (a b : List KV) (ha : strictSorted a = true) (hb : strictSorted b = true) :
    (equal a b = true ↔ ∀ k, optRel goEq (lookup a k) (lookup b k) = true) ∧
    equal a b = sameMapping goEq a b := by
  have h1 : equal a b = true ↔ ∀ k, optRel goEq (lookup a k) (lookup b k) = true :=
    ⟨lookup_of_relList goEq a b,
     relList_of_lookup goEq a b ((strictSorted_iff a).mp ha) ((strictSorted_iff b).mp hb)⟩
  refine ⟨h1, ?_⟩
  rw [Bool.eq_iff_iff, h1, sameMapping_iff]

/-- for Sets without FLOAT64SLICE values, Equal is structural identity of the typed mapping -/
theorem equal_iff_eq_noFloatSlice (a b : List KV)
    (hn : ∀ x ∈ a, ∀ l, x.val ≠ .floats l) : equal a b = true ↔ a = b := by
  rw [← relList_beq_iff]
  unfold equal
  induction a generalizing b with
  | nil => cases b <;> simp [relList]
  | cons x xs ih =>
    cases b with
    | nil => simp [relList]
    | cons y ys =>
      have hx := hn x (by simp)
      have : goEq x.val y.val = (x.val == y.val) := by
        cases hv : x.val with
        | floats l => exact absurd hv (hx l)
        | _ => simp [goEq]
      simp only [relList, this, Bool.and_eq_true, ih ys (fun z hz => hn z (by simp [hz]))]

/-- **every Set equals itself — except under the known finding F9**, exactly: `s.Equals(s)` (and
finding `s.Equivalent()` again in a map) holds iff no FLOAT64SLICE value of `s` contains a NaN. -/
theorem equal_refl_partial (s : List KV) (h : F9_applies s = false) : equal s s = true := by
  unfold equal; rw [relList_goEq_refl, h]; rfl

theorem equal_refl_iff (s : List KV) : equal s s = true ↔ F9_applies s = false := by
  unfold equal; rw [relList_goEq_refl]; cases F9_applies s <;> simp

/-- F9 witness: the Set `{k: [NaN]}` built by `NewSet` is not equal to itself -/
theorem equal_irreflexive_witness :
    equal (newSet [⟨[0x6b], .floats [0x7ff8000000000001]⟩]) (newSet [⟨[0x6b], .floats [0x7ff8000000000001]⟩]) = false := by
  decide

/-- the representation identifies `-0` and `+0` inside float slices (not as scalars) -/
theorem equal_signed_zero_witness :
    equal [⟨[0x6b], .floats [0x8000000000000000]⟩] [⟨[0x6b], .floats [0]⟩] = true ∧
    equal [⟨[0x6b], .float 0x8000000000000000⟩] [⟨[0x6b], .float 0⟩] = false := by
  decide

/-- the clause as the property states it (false on the current code: `equal_irreflexive_witness`) -/
def equal_refl_full_statement : Prop := ∀ s : List KV, equal s s = true

/-- **Filter splits a Set into kept and dropped parts** (`Spec.filterOK`): the kept Set is exactly the
elements satisfying the filter in their order, the dropped slice is a permutation of the others,
together they are the original, which (a value in the model) is unchanged. Holds for all three code paths. -/
theorem filter_partition (s : List KV) (re : Option (KV → Bool)) :
    filterOK s re (setFilter s re).1 (setFilter s re).2 s = true := by
  unfold filterOK setFilter
  cases re with
  | none => simp [keepOf, filter_true', List.isPerm_iff, List.filter_eq_nil_iff]
  | some re =>
    simp only [keepOf, Option.getD_some]
    cases hsp : splitLastDropped re s with
    | none =>
      have hall := splitLastDropped_none hsp
      have h1 : s.filter re = s := List.filter_eq_self.mpr hall
      have h2 : s.filter (fun kv => !re kv) = [] :=
        List.filter_eq_nil_iff.mpr (fun x hx => by simp [hall x hx])
      simp [h1, h2, List.isPerm_iff]
    | some t =>
      obtain ⟨pre, kv, suf⟩ := t
      obtain ⟨hs, hkv, hsuf⟩ := splitLastDropped_some hsp
      have h1 : suf.filter re = suf := List.filter_eq_self.mpr hsuf
      have h2 : suf.filter (fun kv => !re kv) = [] :=
        List.filter_eq_nil_iff.mpr (fun x hx => by simp [hsuf x hx])
      have hk : s.filter re = pre.filter re ++ suf := by
        rw [hs, List.filter_append, List.filter_cons]; simp [hkv, h1]
      have hd : s.filter (fun kv => !re kv) = pre.filter (fun kv => !re kv) ++ [kv] := by
        rw [hs, List.filter_append, List.filter_cons]; simp [hkv, h2]
      have hperm := filter_append_perm' re s
      simp only [Bool.and_eq_true, beq_iff_eq, List.isPerm_iff]
      by_cases hp : pre.length = 0
      · have : pre = [] := List.eq_nil_of_length_eq_zero hp
        subst this
        simp only [List.length_nil, if_true]
        refine ⟨⟨⟨by simpa using hk.symm, by rw [hd]; simp⟩, ?_⟩, trivial⟩
        rw [hs]; simp
      · simp only [hp, if_false]
        have f1 := filteredToFront_fst re pre
        have f2 := filteredToFront_snd re pre
        have hdp : (kv :: (filteredToFront re pre).1).Perm (s.filter (fun kv => !re kv)) := by
          rw [hd]
          exact (List.Perm.cons kv f1).trans (List.perm_append_comm (l₁ := [kv]))
        refine ⟨⟨⟨by rw [f2, hk], hdp⟩, ?_⟩, trivial⟩
        rw [f2, ← hk]
        exact (List.Perm.append_left _ hdp).trans (List.perm_append_comm.trans hperm)

/-- **lookups agree with the contents**: `Set.Value` (binary search) is association lookup -/
theorem value_is_lookup (s : List KV) (k : Bytes) (hs : strictSorted s = true) : value s k = lookup s k :=
  value_eq_lookup ((strictSorted_iff s).mp hs) k

/-- … so on a constructed Set it returns the value supplied last for the key -/
theorem value_newSet (kvs : List KV) (k : Bytes) : value (newSet kvs) k = lookupLast kvs k := by
  rw [value_is_lookup _ _ (newSet_canonical kvs).1, (newSet_canonical kvs).2.2]

/-- **merging agrees with the contents** (`Spec.mergeOK`): the merge iterator yields the strictly
sorted union of two Sets, with the first Set's binding on shared keys. -/
theorem merge_first_wins (a b : List KV) (ha : strictSorted a = true) (hb : strictSorted b = true) :
    mergeOK a b (mergeIter a b) = true ∧
    ∀ k, lookup (mergeIter a b) k = (lookup a k).or (lookup b k) := by
  have h := mergeAux_spec (a.length + b.length + 1) a b (by omega)
    ((strictSorted_iff a).mp ha) ((strictSorted_iff b).mp hb)
  refine ⟨?_, h.2⟩
  unfold mergeOK
  simp only [Bool.and_eq_true, List.all_eq_true, beq_iff_eq]
  exact ⟨(strictSorted_iff _).mpr h.1, fun k _ => h.2 k⟩

private theorem encodeLoop_pos (emit : Value → Bytes) (i : Nat) (hi : i > 0) (l : List KV) (buf : Bytes) :
    encodeLoop emit i l buf = buf ++ (l.map (fun kv => 0x2C :: encodeItem emit kv)).flatten := by
  induction l generalizing i buf with
  | nil => simp [encodeLoop]
  | cons x xs ih =>
    unfold encodeLoop
    simp only [hi, if_true]
    rw [ih (i + 1) (by omega)]
    simp

private theorem intersperse_flatten (sep : Bytes) (x : Bytes) (xs : List Bytes) :
    ((x :: xs).intersperse sep).flatten = x ++ (xs.map (fun y => sep ++ y)).flatten := by
  induction xs generalizing x with
  | nil => simp
  | cons y ys ih =>
    rw [List.intersperse_cons_cons, List.flatten_cons, List.flatten_cons, ih]
    simp

/-- **encoding agrees with the contents**: the default encoder's buffer loop produces the escaped
`key=value` items of the Set, in order, joined by `,` -/
theorem encode_is_join (emit : Value → Bytes) (s : List KV) : encode emit s = encodeRef emit s := by
  unfold encode encodeRef
  cases s with
  | nil => rfl
  | cons x xs =>
    unfold encodeLoop
    simp only [Nat.lt_irrefl, if_false, gt_iff_lt, List.nil_append]
    rw [encodeLoop_pos emit 1 (by omega), List.map_cons, intersperse_flatten]
    simp [List.map_map, Function.comp_def]

private theorem foldl_seqStep_results (more : List SeqOp) (st : SeqState) :
    ∃ ext, (more.foldl seqStep st).results = st.results ++ ext := by
  induction more generalizing st with
  | nil => exact ⟨[], by simp⟩
  | cons op rest ih =>
    obtain ⟨ext, h⟩ := ih (seqStep st op)
    have hstep : ∃ e, (seqStep st op).results = st.results ++ e := by
      cases op <;> exact ⟨_, rfl⟩
    obtain ⟨e, he⟩ := hstep
    exact ⟨e ++ ext, by simp only [List.foldl_cons]; rw [h, he, List.append_assoc]⟩

/-- **a result does not change after it was returned** (`Spec.resultsStable`): whatever calls
(`NewSet`, `NewSetWithFiltered`, `Filter`, merge iteration, `Value`, on any Sets) follow a script,
the results of the script read afterwards are what they were when returned. In the model results
are immutable values, so this is the prefix property of the result log; on the real code it is
what the `seq` lines re-observe (kept Sets, dropped slices, caller's slices, merged lists). -/
theorem seq_results_stable (ops more : List SeqOp) :
    resultsStable (runSeq ops).results
      ((runSeq (ops ++ more)).results.take (runSeq ops).results.length) = true := by
  obtain ⟨ext, h⟩ := foldl_seqStep_results more (runSeq ops)
  have : runSeq (ops ++ more) = more.foldl seqStep (runSeq ops) := by simp [runSeq, List.foldl_append]
  rw [this, h, List.take_left']
  · simp [resultsStable]
  · rfl

/-- remark, outside the property's statement: the default encoding does **not** determine the Set
(DESIGN's optional `encode_injective_on_keys` is false on the current code): `copyAndEscape` ranges
over runes, so every invalid UTF-8 byte is written as U+FFFD. (Independently, non-STRING values
are emitted unescaped: see the two STRINGSLICE/STRING lines in harness/corpus/C05/set.trace.) -/
theorem encode_not_injective_witness :
    ∃ a b : List KV, a ≠ b ∧ strictSorted a = true ∧ strictSorted b = true ∧
      ∀ emit, encode emit a = encode emit b := by
  refine ⟨[⟨[0x80], .bool true⟩], [⟨[0xff], .bool true⟩], by decide, by decide, by decide, fun emit => ?_⟩
  have h : escape [0x80] = escape [0xff] := by decide
  simp [encode, encodeLoop, encodeItem, h]

/-! ### non-vacuity: concrete, non-trivial instances evaluated by the kernel -/

/-- duplicates, unsorted input, a filter that drops a winner: set, dropped, caller's slice -/
example :
    newSetWithFiltered [⟨[0x61], .int 1⟩, ⟨[], .str []⟩, ⟨[0x61], .int 2⟩, ⟨[], .invalid⟩, ⟨[0x62], .bool true⟩, ⟨[0x61], .int 3⟩]
      (some (fun kv => kv.key == [0x61])) =
    ⟨[⟨[0x61], .int 3⟩], [⟨[], .invalid⟩, ⟨[0x62], .bool true⟩],
     [⟨[], .str []⟩, ⟨[0x61], .int 2⟩, ⟨[0x61], .int 1⟩, ⟨[], .invalid⟩, ⟨[0x62], .bool true⟩, ⟨[0x61], .int 3⟩]⟩ := by decide
example : setFilter [⟨[0x61], .int 1⟩, ⟨[0x62], .bool true⟩, ⟨[0x63], .bool false⟩, ⟨[0x64], .str []⟩]
      (some (fun kv => kv.key == [0x62] || kv.key == [0x64])) =
    ([⟨[0x62], .bool true⟩, ⟨[0x64], .str []⟩], [⟨[0x63], .bool false⟩, ⟨[0x61], .int 1⟩]) := by decide
example : strictSorted [⟨[0x61], .int 1⟩, ⟨[0x62], .bool true⟩] = true ∧
    value [⟨[0x61], .int 1⟩, ⟨[0x62], .bool true⟩] [0x62] = some (.bool true) := by decide
example : mergeIter [⟨[0x61], .int 1⟩, ⟨[0x62], .bool true⟩] [⟨[0x62], .bool false⟩, ⟨[0x63], .str []⟩] =
    [⟨[0x61], .int 1⟩, ⟨[0x62], .bool true⟩, ⟨[0x63], .str []⟩] := by decide
/-- the seeded shape: Filter dropping only the smallest key, then another Filter on another Set -/
example : (runSeq [.set [⟨[0x41], .str [0x61]⟩, ⟨[0x42], .int 2⟩], .filter 0 (some (fun kv => kv.key != [0x41])),
      .set [⟨[0x58], .str [0x78]⟩, ⟨[0x59], .bool true⟩], .filter 2 (some (fun kv => kv.key != [0x58]))]).results =
    [[[⟨[0x41], .str [0x61]⟩, ⟨[0x42], .int 2⟩]],
     [[⟨[0x42], .int 2⟩], [⟨[0x41], .str [0x61]⟩], [⟨[0x41], .str [0x61]⟩, ⟨[0x42], .int 2⟩]],
     [[⟨[0x58], .str [0x78]⟩, ⟨[0x59], .bool true⟩]],
     [[⟨[0x59], .bool true⟩], [⟨[0x58], .str [0x78]⟩], [⟨[0x58], .str [0x78]⟩, ⟨[0x59], .bool true⟩]]] := by decide
example : F9_applies [⟨[0x6b], .floats [0, 0x3ff8000000000000]⟩, ⟨[0x6c], .float 0x7ff8000000000001⟩] = false := by decide
example : ∃ a b : List KV, a ≠ b ∧ ∀ k, lookupLast a k = lookupLast b k :=
  ⟨[⟨[1], .int 1⟩, ⟨[2], .int 2⟩], [⟨[2], .int 2⟩, ⟨[1], .int 1⟩], by decide, fun k => by
    by_cases h1 : [1] = k
    · subst h1; decide
    · by_cases h2 : [2] = k
      · subst h2; decide
      · simp [lookupLast, lookup, h1, h2]⟩

end Otel.C05
