/-
C17 — executable model of sdk/log/record.go (attribute storage of a log Record) as the code is now
(after the repairs 258bec2 [F6] and 37a8a38 [F2/F3]).  Core Lean only.

  Rec.front / Rec.back   the inline array `front[:nFront]` (5 slots) and the overflow slice `back`
  dedup, head            record.go:321-347
  applyVal               applyValueLimits (record.go:419-443), returns the limited value and the number of
                         nested map entries it de-duplicated away (the code adds that number to r.dropped)
  addAttrs               record.go:283-296
  setAttributes          record.go:299-319
  addAttributes          record.go:190-258: fresh-record path and index-based merge
  clone                  record.go:408-412 (pure copy here; the aliasing content of Clone is the heap model below)

`truncate` is `Otel.Trunc.truncate` (the same function as in sdk/trace).
-/
import Otel.C17.Val
namespace Otel.C17
open Otel

/-! ### association-list helpers (the `map[string]int` index + the slice it indexes) -/

/-- `_, found := index[k]` for an index built from the keys of `l` -/
def hasKey {α : Type} (k : Bytes) (l : List (Bytes × α)) : Bool := l.any (fun x => x.1 == k)

/-- `unique[idx] = a` where `idx` is the position recorded for key `k` (the first entry with that key) -/
def setKey {α : Type} (k : Bytes) (a : Bytes × α) : List (Bytes × α) → List (Bytes × α)
  | [] => []
  | x :: t => if x.1 == k then a :: t else x :: setKey k a t

/-- one iteration of the loop of `dedup` -/
def dedupStep {α : Type} (st : List (Bytes × α) × Nat) (a : Bytes × α) : List (Bytes × α) × Nat :=
  if hasKey a.1 st.1 then (setKey a.1 a st.1, st.2 + 1) else (st.1 ++ [a], st.2)

/-- `dedup(kvs)`: first position, last value; returns (unique, dropped) -/
def dedup {α : Type} (l : List (Bytes × α)) : List (Bytes × α) × Nat := l.foldl dedupStep ([], 0)

/-- `head(kvs, n)`: `if n > 0 && len(kvs) > n { return kvs[:n], len(kvs)-n }; return kvs, 0` -/
def head {β : Type} (kvs : List β) (n : Int) : List β × Nat :=
  if n > 0 ∧ (kvs.length : Int) > n then (kvs.take n.toNat, kvs.length - n.toNat) else (kvs, 0)

/-! ### applyValueLimits -/

/-- the String case: `if len(s) > limit { val = StringValue(truncate(limit, s)) }` -/
def applyStr (ll : Int) (s : Bytes) : Bytes :=
  if (s.length : Int) > ll then Trunc.truncate ll s else s

/- `applyValueLimits`, with the count of nested map entries dropped by `dedup` as second component.
The Go code de-duplicates a map first and then limits the surviving entries; to stay structurally
recursive (so that the kernel can evaluate it) the model limits every entry, then de-duplicates the
limited entries and adds up the drop counts of the survivors only — the same result and the same count,
because limiting an entry does not look at the other entries (tied to the code by the differential runs). -/
mutual
def applyVal (ll : Int) : LogVal → LogVal × Nat
  | .str s => (.str (applyStr ll s), 0)
  | .slice l => let r := applyList ll l; (.slice r.1, r.2)
  | .map l =>
    let r := dedup (applyKVs ll l)
    (.map (r.1.map (fun x => (x.1, x.2.1))), r.2 + (r.1.map (fun x => x.2.2)).sum)
  | v => (v, 0)
def applyList (ll : Int) : List LogVal → List LogVal × Nat
  | [] => ([], 0)
  | v :: t => let a := applyVal ll v; let b := applyList ll t; (a.1 :: b.1, a.2 + b.2)
def applyKVs (ll : Int) : List (Bytes × LogVal) → List (Bytes × (LogVal × Nat))
  | [] => []
  | (k, v) :: t => (k, applyVal ll v) :: applyKVs ll t
end

/-- `applyAttrLimits` -/
def applyAttr (ll : Int) (a : KV) : KV × Nat := ((a.1, (applyVal ll a.2).1), (applyVal ll a.2).2)

/-- `applyAttrLimits` over a list, drop counts added up -/
def applyAll (ll : Int) (l : List KV) : List KV × Nat :=
  (l.map (fun a => (applyAttr ll a).1), (l.map (fun a => (applyAttr ll a).2)).sum)

/-! ### the record -/

structure Rec where
  front : List KV        -- front[:nFront]
  back : List KV
  dropped : Nat
  nested : Nat           -- ghost: the part of `dropped` that came from nested map de-duplication
  cl : Int               -- attributeCountLimit
  ll : Int               -- attributeValueLengthLimit
deriving Inhabited

def Rec.new (cl ll : Int) : Rec := ⟨[], [], 0, 0, cl, ll⟩

/-- WalkAttributes order -/
def Rec.attrs (r : Rec) : List KV := r.front ++ r.back
/-- AttributesLen -/
def Rec.len (r : Rec) : Nat := r.front.length + r.back.length

/-- `addAttrs`: fill `front` while `nFront < 5`, the rest goes to `back`; every attribute through applyAttrLimits -/
def addAttrs (r : Rec) (attrs : List KV) : Rec :=
  let room := 5 - r.front.length
  let a := applyAll r.ll attrs
  { r with front := r.front ++ a.1.take room, back := r.back ++ a.1.drop room,
           dropped := r.dropped + a.2, nested := r.nested + a.2 }

/-- `SetAttributes` -/
def setAttributes (r : Rec) (attrs : List KV) : Rec :=
  let u := dedup attrs          -- setDropped(drop)
  let h := head u.1 r.cl        -- addDropped(drop)
  let a := applyAll r.ll h.1
  { r with front := a.1.take 5, back := a.1.drop 5, dropped := u.2 + h.2 + a.2, nested := a.2 }

/-- `r.front[-(idx+1)] = a` / `r.back[idx] = a` with `idx` from `attrIndex()`: the index map keeps the
*last* position written for a key -/
def overwriteLast (k : Bytes) (a : KV) : List KV → List KV
  | [] => []
  | x :: t => if hasKey k t then x :: overwriteLast k a t else if x.1 == k then a :: t else x :: t

/-- one iteration of the merge loop of `AddAttributes` (record.go:220-244); state = (record, unique) -/
def mergeStep (st : Rec × List KV) (a : KV) : Rec × List KV :=
  let r := st.1
  let u := st.2
  if hasKey a.1 u then
    ({ r with dropped := r.dropped + 1 }, setKey a.1 a u)
  else if hasKey a.1 r.back then      -- back positions are written to the index after front positions
    let a' := applyAttr r.ll a
    ({ r with back := overwriteLast a.1 a'.1 r.back, dropped := r.dropped + 1 + a'.2, nested := r.nested + a'.2 }, u)
  else if hasKey a.1 r.front then
    let a' := applyAttr r.ll a
    ({ r with front := overwriteLast a.1 a'.1 r.front, dropped := r.dropped + 1 + a'.2, nested := r.nested + a'.2 }, u)
  else (r, u ++ [a])

/-- `AddAttributes` -/
def addAttributes (r : Rec) (attrs : List KV) : Rec :=
  let n := r.len
  if n = 0 then
    let u := dedup attrs
    let h := head u.1 r.cl
    addAttrs { r with dropped := u.2 + h.2, nested := 0 } h.1
  else
    let m := attrs.foldl mergeStep (r, [])
    if r.cl > 0 ∧ (n : Int) + (m.2.length : Int) > r.cl then
      let last := (r.cl - (n : Int)).toNat      -- max(0, limit-n)
      addAttrs { m.1 with dropped := m.1.dropped + (m.2.length - last) } (m.2.take last)
    else addAttrs m.1 m.2

/-- `Clone` (value semantics; see the heap model for what `slices.Clone(r.back)` is needed for) -/
def clone (r : Rec) : Rec := r

def step (r : Rec) : Op → Rec
  | .set l => setAttributes r l
  | .add l => addAttributes r l

/-- a fresh record with the provider's limits, then the script -/
def run (cl ll : Int) (ops : List Op) : Rec := ops.foldl step (Rec.new cl ll)

/-- `logger.newRecord`: the API record's attributes are added one `AddAttributes(kv)` call at a time -/
def emitOps (attrs : List KV) : List Op := attrs.map (fun a => Op.add [a])

/-! ### heap model for `Clone`
`front` is an array inside the struct (copied by assignment); `back` is a slice header that points to an
array on the heap.  `AddAttributes` writes into that array in place (`r.back[idx] = a`; `append` within
capacity — modelled as always in place, the case with the most sharing); `SetAttributes` and `Clone`
allocate a new array (`slices.Clone`).  `hCopy` is the plain struct copy `c := *r` that `Clone` would be
without the `slices.Clone` line. -/

structure HRec where
  front : List KV
  backPtr : Nat
  dropped : Nat
  nested : Nat
  cl : Int
  ll : Int

abbrev Heap := List (List KV)

def load (h : Heap) (x : HRec) : Rec := ⟨x.front, h.getD x.backPtr [], x.dropped, x.nested, x.cl, x.ll⟩

def hStore (x : HRec) (r : Rec) (p : Nat) : HRec := ⟨r.front, p, r.dropped, r.nested, x.cl, x.ll⟩

def hStep (s : Heap × HRec) : Op → Heap × HRec
  | .set l => let r := setAttributes (load s.1 s.2) l; (s.1 ++ [r.back], hStore s.2 r s.1.length)
  | .add l => let r := addAttributes (load s.1 s.2) l; (s.1.set s.2.backPtr r.back, hStore s.2 r s.2.backPtr)

def hClone (s : Heap × HRec) : Heap × HRec := (s.1 ++ [s.1.getD s.2.backPtr []], { s.2 with backPtr := s.1.length })
def hCopy (s : Heap × HRec) : Heap × HRec := s

def hRun (s : Heap × HRec) (ops : List Op) : Heap × HRec := ops.foldl hStep s

end Otel.C17
