/-
C17 — helper lemmas (not counted as obligations) for the two clauses "value supplied last" and "accounting
with the nested term computed from the script": `dedup = dedupRef`, `applyVal = (limitVal, nestedDups)`,
the value half of the merge-loop invariant, the ghost counter `nested` = `Spec.nestedWritten`.
-/
import Otel.C17.Lemmas
namespace Otel.C17
open Otel Otel.C17.Spec

/-! ### `lastVal` -/

theorem lastVal_foldl {α : Type} (k : Bytes) (l : List (Bytes × α)) (init : Option α) :
    l.foldl (fun acc a => if a.1 == k then some a.2 else acc) init = (lastVal k l).or init := by
  induction l using snoc_ind with
  | h0 => simp [lastVal]
  | hs l a ih =>
    rw [lastVal_snoc, List.foldl_append]
    simp only [List.foldl_cons, List.foldl_nil, ih]
    split <;> simp

theorem lastVal_append {α : Type} (k : Bytes) (a b : List (Bytes × α)) :
    lastVal k (a ++ b) = (lastVal k b).or (lastVal k a) := by
  show List.foldl _ none (a ++ b) = _
  rw [List.foldl_append]
  exact lastVal_foldl k b _

theorem lastVal_cons {α : Type} (k : Bytes) (x : Bytes × α) (t : List (Bytes × α)) :
    lastVal k (x :: t) = (lastVal k t).or (if x.1 == k then some x.2 else none) := by
  have := lastVal_append k [x] t
  simpa [lastVal] using this

theorem lastVal_eq_none_iff {α : Type} (k : Bytes) (l : List (Bytes × α)) : lastVal k l = none ↔ k ∉ keys l := by
  induction l using snoc_ind with
  | h0 => simp
  | hs l a ih =>
    rw [lastVal_snoc]
    by_cases h : a.1 = k
    · simp [h]
    · simp only [beq_iff_eq, h, if_false, ih, keys_append, keys_cons, keys_nil, List.mem_append, List.mem_singleton]
      constructor
      · rintro h1 (h2 | h2)
        · exact h1 h2
        · exact h h2.symm
      · intro h1 h2; exact h1 (Or.inl h2)

theorem lastVal_of_not_mem {α : Type} (k : Bytes) (l : List (Bytes × α)) (h : k ∉ keys l) : lastVal k l = none :=
  (lastVal_eq_none_iff k l).mpr h

/-- restricting a sequence to a set of keys does not change the last value of a key of that set -/
theorem lastVal_filter {α : Type} (q : Bytes → Bool) (k : Bytes) (hq : q k = true) (l : List (Bytes × α)) :
    lastVal k (l.filter (fun a => q a.1)) = lastVal k l := by
  induction l using snoc_ind with
  | h0 => rfl
  | hs l a ih =>
    rw [List.filter_append, lastVal_snoc]
    by_cases hqa : q a.1 = true
    · simp only [List.filter_cons, hqa, if_true, List.filter_nil, lastVal_snoc, ih]
    · have hne : ¬ (a.1 = k) := fun e => hqa (e ▸ hq)
      simp only [List.filter_cons, hqa, Bool.false_eq_true, if_false, List.filter_nil, List.append_nil, beq_iff_eq, hne, ih]

/-! ### membership in `setKey` / `overwriteLast` when keys are unique -/

theorem mem_setKey_nodup {α : Type} (k : Bytes) (a x : Bytes × α) (u : List (Bytes × α)) (hn : (keys u).Nodup)
    (h : x ∈ setKey k a u) : x = a ∨ (x ∈ u ∧ x.1 ≠ k) := by
  induction u with
  | nil => simp [setKey] at h
  | cons y t ih =>
    simp only [keys_cons, List.nodup_cons] at hn
    simp only [setKey] at h
    split at h
    · rename_i hy
      simp only [beq_iff_eq] at hy
      simp only [List.mem_cons] at h ⊢
      rcases h with h | h
      · exact Or.inl h
      · right
        refine ⟨Or.inr h, ?_⟩
        intro hx
        apply hn.1
        rw [hy, ← hx]
        exact List.mem_map_of_mem (f := fun a => a.1) h
    · rename_i hy
      simp only [beq_iff_eq] at hy
      simp only [List.mem_cons] at h ⊢
      rcases h with h | h
      · right; subst h; exact ⟨Or.inl rfl, hy⟩
      · rcases ih hn.2 h with h | h
        · exact Or.inl h
        · exact Or.inr ⟨Or.inr h.1, h.2⟩

theorem mem_overwriteLast_nodup (k : Bytes) (a x : KV) (l : List KV) (hn : (keys l).Nodup)
    (h : x ∈ overwriteLast k a l) : x = a ∨ (x ∈ l ∧ x.1 ≠ k) := by
  induction l with
  | nil => simp [overwriteLast] at h
  | cons y t ih =>
    simp only [keys_cons, List.nodup_cons] at hn
    simp only [overwriteLast] at h
    split at h
    · rename_i hk
      have hk' := (hasKey_iff _ _).mp hk
      simp only [List.mem_cons] at h ⊢
      rcases h with h | h
      · right
        subst h
        refine ⟨Or.inl rfl, ?_⟩
        intro hx
        apply hn.1
        rw [hx]; exact hk'
      · rcases ih hn.2 h with h | h
        · exact Or.inl h
        · exact Or.inr ⟨Or.inr h.1, h.2⟩
    · rename_i hk
      have hk' : k ∉ keys t := fun hh => hk ((hasKey_iff _ _).mpr hh)
      split at h
      · simp only [List.mem_cons] at h ⊢
        rcases h with h | h
        · exact Or.inl h
        · right
          refine ⟨Or.inr h, ?_⟩
          intro hx
          apply hk'
          rw [← hx]
          exact List.mem_map_of_mem (f := fun a => a.1) h
      · rename_i hy
        simp only [beq_iff_eq] at hy
        simp only [List.mem_cons] at h ⊢
        right
        rcases h with h | h
        · subst h; exact ⟨Or.inl rfl, hy⟩
        · refine ⟨Or.inr h, ?_⟩
          intro hx
          apply hk'
          rw [← hx]
          exact List.mem_map_of_mem (f := fun a => a.1) h

/-! ### `dedup` is the reference de-duplication -/

theorem dedup_keys_nodup {α : Type} (l : List (Bytes × α)) : (keys (dedup l).1).Nodup := by
  rw [keys_dedup]; exact firstKeys_nodup l

/-- every entry that survives `dedup` carries the value supplied last for its key -/
theorem dedup_lastVal {α : Type} (l : List (Bytes × α)) : ∀ x ∈ (dedup l).1, lastVal x.1 l = some x.2 := by
  induction l using snoc_ind with
  | h0 => simp [dedup]
  | hs l a ih =>
    intro x hx
    rw [dedup_snoc] at hx
    rw [lastVal_snoc]
    unfold dedupStep at hx
    split at hx
    · rcases mem_setKey_nodup _ _ _ _ (dedup_keys_nodup l) hx with h | h
      · subst h; simp
      · have : ¬ (a.1 = x.1) := fun e => h.2 e.symm
        simp only [beq_iff_eq, this, if_false]
        exact ih x h.1
    · rename_i hk
      simp only [List.mem_append, List.mem_singleton] at hx
      rcases hx with h | h
      · have hxk : x.1 ∈ keys (dedup l).1 := List.mem_map_of_mem (f := fun a => a.1) h
        have : ¬ (a.1 = x.1) := by
          intro e
          apply hk
          rw [hasKey_iff, e]; exact hxk
        simp only [beq_iff_eq, this, if_false]
        exact ih x h
      · subst h; simp

/-- a list is determined by its keys once every entry carries the last value of its key -/
theorem eq_filterMap_of_lastVal {α : Type} (l : List (Bytes × α)) (u : List (Bytes × α))
    (h : ∀ x ∈ u, lastVal x.1 l = some x.2) :
    u = (keys u).filterMap (fun k => (lastVal k l).map (fun v => (k, v))) := by
  induction u with
  | nil => rfl
  | cons x t ih =>
    have hx := h x (by simp)
    have ht := ih (fun y hy => h y (by simp [hy]))
    simp only [keys_cons, List.filterMap_cons, hx, Option.map_some]
    rw [← ht]

theorem vals_eq_filterMap_of_lastVal {α : Type} (l : List (Bytes × α)) (u : List (Bytes × α))
    (h : ∀ x ∈ u, lastVal x.1 l = some x.2) :
    u.map (fun x => x.2) = (keys u).filterMap (fun k => lastVal k l) := by
  induction u with
  | nil => rfl
  | cons x t ih =>
    have hx := h x (by simp)
    have ht := ih (fun y hy => h y (by simp [hy]))
    simp only [keys_cons, List.filterMap_cons, hx, List.map_cons]
    rw [← ht]

theorem dedup_eq_dedupRef {α : Type} (l : List (Bytes × α)) : (dedup l).1 = dedupRef l := by
  have := eq_filterMap_of_lastVal l (dedup l).1 (dedup_lastVal l)
  rw [keys_dedup] at this
  exact this

/-! ### `dedup` commutes with a map on the values -/

theorem hasKey_mapVal {α β : Type} (f : α → β) (k : Bytes) (l : List (Bytes × α)) :
    hasKey k (l.map (fun x => (x.1, f x.2))) = hasKey k l := by
  simp [hasKey, List.any_map, Function.comp_def]

theorem setKey_mapVal {α β : Type} (f : α → β) (k : Bytes) (a : Bytes × α) (l : List (Bytes × α)) :
    setKey k (a.1, f a.2) (l.map (fun x => (x.1, f x.2))) = (setKey k a l).map (fun x => (x.1, f x.2)) := by
  induction l with
  | nil => rfl
  | cons x t ih =>
    simp only [List.map_cons, setKey]
    split <;> simp [ih]

theorem dedup_mapVal {α β : Type} (f : α → β) (l : List (Bytes × α)) :
    dedup (l.map (fun x => (x.1, f x.2))) = ((dedup l).1.map (fun x => (x.1, f x.2)), (dedup l).2) := by
  induction l using snoc_ind with
  | h0 => rfl
  | hs l a ih =>
    rw [List.map_append, List.map_cons, List.map_nil, dedup_snoc, dedup_snoc, ih]
    unfold dedupStep
    simp only [hasKey_mapVal]
    split
    · simp [setKey_mapVal]
    · simp

/-! ### the limiter computes the reference value and the reference count -/

theorem applyKVs_keys (ll : Int) (k : Bytes) (l : List (Bytes × LogVal)) :
    (applyKVs ll l).any (fun x => x.1 == k) = l.any (fun x => x.1 == k) := by
  induction l with
  | nil => simp [applyKVs]
  | cons x t ih => obtain ⟨k', v⟩ := x; simp [applyKVs, ih]

mutual
theorem applyVal_fst (ll : Int) : ∀ v, (applyVal ll v).1 = limitVal ll v
  | .str s => by simp only [applyVal, limitVal]; rw [applyStr_eq]
  | .slice l => by simp only [applyVal, limitVal]; rw [applyList_fst ll l]
  | .map l => by
    simp only [applyVal, limitVal]
    have h := dedup_mapVal (fun (x : LogVal × Nat) => x.1) (applyKVs ll l)
    rw [applyKVs_fst ll l] at h
    rw [← dedup_eq_dedupRef, h]
  | .empty => by simp [applyVal, limitVal]
  | .bool _ => by simp [applyVal, limitVal]
  | .int _ => by simp [applyVal, limitVal]
  | .float _ => by simp [applyVal, limitVal]
  | .bytes _ => by simp [applyVal, limitVal]
theorem applyList_fst (ll : Int) : ∀ l, (applyList ll l).1 = limitList ll l
  | [] => by simp [applyList, limitList]
  | v :: t => by simp only [applyList, limitList]; rw [applyVal_fst ll v, applyList_fst ll t]
theorem applyKVs_fst (ll : Int) : ∀ l, (applyKVs ll l).map (fun x => (x.1, x.2.1)) = limitKVs ll l
  | [] => by simp [applyKVs, limitKVs]
  | (k, v) :: t => by
    simp only [applyKVs, limitKVs, List.map_cons]; rw [applyVal_fst ll v, applyKVs_fst ll t]
end

/-- reference count of the entries `dedup` discards, with a cost `c` for what is inside a survivor -/
def dupCost {α : Type} (c : α → Nat) : List (Bytes × α) → Nat
  | [] => 0
  | x :: t => (if t.any (fun y => y.1 == x.1) then 1 else c x.2) + dupCost c t

theorem any_key_iff {α : Type} (k : Bytes) (l : List (Bytes × α)) : l.any (fun y => y.1 == k) = true ↔ k ∈ keys l :=
  hasKey_iff k l

/-- cost of the value currently held for a key -/
def heldCost {α : Type} (c : α → Nat) (k : Bytes) (l : List (Bytes × α)) : Nat :=
  match lastVal k l with
  | some v => c v
  | none => 0

theorem dupCost_snoc {α : Type} (c : α → Nat) (l : List (Bytes × α)) (a : Bytes × α) :
    dupCost c (l ++ [a]) + heldCost c a.1 l = dupCost c l + c a.2 + (if hasKey a.1 l then 1 else 0) := by
  induction l with
  | nil => simp [dupCost, heldCost, hasKey]
  | cons x t ih =>
    simp only [List.cons_append, dupCost]
    have hany : ((t ++ [a]).any (fun y => y.1 == x.1) = true) ↔ (x.1 ∈ keys t ∨ a.1 = x.1) := by
      rw [any_key_iff]; simp [eq_comm]
    have hany' : (t.any (fun y => y.1 == x.1) = true) ↔ x.1 ∈ keys t := any_key_iff _ _
    have hk : (hasKey a.1 (x :: t) = true) ↔ (a.1 = x.1 ∨ a.1 ∈ keys t) := by
      rw [hasKey_iff]; simp
    have hk' : (hasKey a.1 t = true) ↔ a.1 ∈ keys t := hasKey_iff _ _
    have hc : heldCost c a.1 (x :: t) = if a.1 ∈ keys t then heldCost c a.1 t else if x.1 = a.1 then c x.2 else 0 := by
      unfold heldCost
      rw [lastVal_cons]
      by_cases h : a.1 ∈ keys t
      · have : lastVal a.1 t ≠ none := fun e => (lastVal_eq_none_iff _ _).mp e h
        cases hv : lastVal a.1 t with
        | none => exact absurd hv this
        | some v => simp [h]
      · rw [lastVal_of_not_mem _ _ h]
        by_cases hx : x.1 = a.1 <;> simp [h, hx]
    have hc0 : a.1 ∉ keys t → heldCost c a.1 t = 0 := by
      intro h; unfold heldCost; rw [lastVal_of_not_mem _ _ h]
    rw [hc]
    by_cases h1 : x.1 ∈ keys t
    · by_cases h2 : a.1 ∈ keys t
      · have e1 : (t ++ [a]).any (fun y => y.1 == x.1) = true := hany.mpr (Or.inl h1)
        have e2 : t.any (fun y => y.1 == x.1) = true := hany'.mpr h1
        have e3 : hasKey a.1 (x :: t) = true := hk.mpr (Or.inr h2)
        have e4 : hasKey a.1 t = true := hk'.mpr h2
        simp only [e1, e2, e3, e4, h2, if_true] at ih ⊢
        omega
      · have hne : ¬ (a.1 = x.1) := fun e => h2 (e ▸ h1)
        have hne' : ¬ (x.1 = a.1) := fun e => hne e.symm
        have e1 : (t ++ [a]).any (fun y => y.1 == x.1) = true := hany.mpr (Or.inl h1)
        have e2 : t.any (fun y => y.1 == x.1) = true := hany'.mpr h1
        have e3 : ¬ (hasKey a.1 (x :: t) = true) := fun h => by rcases hk.mp h with h | h <;> contradiction
        have e4 : ¬ (hasKey a.1 t = true) := fun h => h2 (hk'.mp h)
        have := hc0 h2
        simp only [e1, e2, e3, e4, h2, hne', if_true, if_false, this] at ih ⊢
        omega
    · by_cases h3 : a.1 = x.1
      · have h2 : a.1 ∉ keys t := h3 ▸ h1
        have e1 : (t ++ [a]).any (fun y => y.1 == x.1) = true := hany.mpr (Or.inr h3)
        have e2 : ¬ (t.any (fun y => y.1 == x.1) = true) := fun h => h1 (hany'.mp h)
        have e3 : hasKey a.1 (x :: t) = true := hk.mpr (Or.inl h3)
        have e4 : ¬ (hasKey a.1 t = true) := fun h => h2 (hk'.mp h)
        have := hc0 h2
        rw [if_pos e1, if_neg e2, if_pos e3, if_neg h2, if_pos h3.symm]
        rw [if_neg e4, this] at ih
        omega
      · have hne' : ¬ (x.1 = a.1) := fun e => h3 e.symm
        have e1 : ¬ ((t ++ [a]).any (fun y => y.1 == x.1) = true) := fun h => by
          rcases hany.mp h with h | h <;> contradiction
        have e2 : ¬ (t.any (fun y => y.1 == x.1) = true) := fun h => h1 (hany'.mp h)
        by_cases h2 : a.1 ∈ keys t
        · have e3 : hasKey a.1 (x :: t) = true := hk.mpr (Or.inr h2)
          have e4 : hasKey a.1 t = true := hk'.mpr h2
          simp only [e1, e2, e3, e4, h2, if_true] at ih ⊢
          omega
        · have e3 : ¬ (hasKey a.1 (x :: t) = true) := fun h => by rcases hk.mp h with h | h <;> contradiction
          have e4 : ¬ (hasKey a.1 t = true) := fun h => h2 (hk'.mp h)
          have := hc0 h2
          simp only [e1, e2, e3, e4, h2, hne', if_false, this] at ih ⊢
          omega

/-- replacing the entry of a key: the sum of the costs changes by the difference -/
theorem setKey_cost {α : Type} (c : α → Nat) (a : Bytes × α) (l : List (Bytes × α)) (u : List (Bytes × α))
    (hn : (keys u).Nodup) (hl : ∀ x ∈ u, lastVal x.1 l = some x.2) (hk : a.1 ∈ keys u) :
    ((setKey a.1 a u).map (fun x => c x.2)).sum + heldCost c a.1 l = (u.map (fun x => c x.2)).sum + c a.2 := by
  induction u with
  | nil => simp at hk
  | cons y t ih =>
    simp only [keys_cons, List.nodup_cons] at hn
    simp only [setKey]
    split
    · rename_i hy
      simp only [beq_iff_eq] at hy
      have := hl y (by simp)
      unfold heldCost
      rw [← hy, this]
      simp only [List.map_cons, List.sum_cons]
      omega
    · rename_i hy
      simp only [beq_iff_eq] at hy
      have hk' : a.1 ∈ keys t := by
        simp only [keys_cons, List.mem_cons] at hk
        rcases hk with h | h
        · exact absurd h.symm hy
        · exact h
      have := ih hn.2 (fun x hx => hl x (by simp [hx])) hk'
      simp only [List.map_cons, List.sum_cons]
      omega

/-- what `dedup` reports as dropped plus the costs of the survivors is the reference count -/
theorem dedup_cost {α : Type} (c : α → Nat) (l : List (Bytes × α)) :
    (dedup l).2 + ((dedup l).1.map (fun x => c x.2)).sum = dupCost c l := by
  induction l using snoc_ind with
  | h0 => rfl
  | hs l a ih =>
    have hs := dupCost_snoc c l a
    have hkey : hasKey a.1 (dedup l).1 = hasKey a.1 l := by
      rw [Bool.eq_iff_iff, hasKey_iff, hasKey_iff, keys_dedup, mem_firstKeys]
    rw [dedup_snoc]
    unfold dedupStep
    rw [hkey]
    by_cases hk : hasKey a.1 l = true
    · have hk' : a.1 ∈ keys (dedup l).1 := by rw [← hasKey_iff, hkey]; exact hk
      have := setKey_cost c a l (dedup l).1 (dedup_keys_nodup l) (dedup_lastVal l) hk'
      simp only [hk, if_true] at hs ⊢
      omega
    · have h0 : heldCost c a.1 l = 0 := by
        unfold heldCost
        rw [lastVal_of_not_mem _ _ (fun h => hk ((hasKey_iff _ _).mpr h))]
      simp only [hk, if_false, Bool.false_eq_true] at hs ⊢
      simp only [List.map_append, List.sum_append, List.map_cons, List.map_nil, List.sum_cons, List.sum_nil]
      omega

mutual
theorem applyVal_snd (ll : Int) : ∀ v, (applyVal ll v).2 = nestedDups v
  | .str s => by simp [applyVal, nestedDups]
  | .slice l => by simp only [applyVal, nestedDups]; exact applyList_snd ll l
  | .map l => by
    simp only [applyVal, nestedDups]
    rw [← applyKVs_snd ll l]
    exact dedup_cost (fun (x : LogVal × Nat) => x.2) (applyKVs ll l)
  | .empty => by simp [applyVal, nestedDups]
  | .bool _ => by simp [applyVal, nestedDups]
  | .int _ => by simp [applyVal, nestedDups]
  | .float _ => by simp [applyVal, nestedDups]
  | .bytes _ => by simp [applyVal, nestedDups]
theorem applyList_snd (ll : Int) : ∀ l, (applyList ll l).2 = nestedList l
  | [] => by simp [applyList, nestedList]
  | v :: t => by simp only [applyList, nestedList]; rw [applyVal_snd ll v, applyList_snd ll t]
theorem applyKVs_snd (ll : Int) : ∀ l, dupCost (fun (x : LogVal × Nat) => x.2) (applyKVs ll l) = nestedKVs l
  | [] => by simp [applyKVs, nestedKVs, dupCost]
  | (k, v) :: t => by
    simp only [applyKVs, nestedKVs, dupCost]
    rw [applyKVs_keys, applyVal_snd ll v, applyKVs_snd ll t]
end

theorem applyAttr_eq (ll : Int) (a : KV) : applyAttr ll a = ((a.1, limitVal ll a.2), nestedDups a.2) := by
  simp [applyAttr, applyVal_fst, applyVal_snd]

theorem applyAll_eq (ll : Int) (l : List KV) :
    applyAll ll l = (l.map (fun a => (a.1, limitVal ll a.2)), (l.map (fun a => nestedDups a.2)).sum) := by
  simp [applyAll, applyAttr_eq]

end Otel.C17
