/-
C17 — the Record as it lies in memory, with Go slice CAPACITIES (sdk/log/record.go):

  front [5]log.KeyValue + nFront   inside the struct: copied by `res := *r`
  back  []log.KeyValue             a slice header (array, len, cap) pointing into the heap
  AddAttributes                    overwrites `r.back[idx] = a` in place; `slices.Grow` + `append` write in place when the
                                   capacity suffices and move to a fresh array otherwise
  SetAttributes                    `r.back = slices.Clone(attrs[i:])`: a fresh array
  Clone                            `res := *r; res.back = slices.Clone(r.back)`

How much capacity a fresh array gets is the runtime's choice (`grow`, a parameter: the theorems hold for every policy).
What the calls compute is the value model (Model.lean `setAttributes` / `addAttributes`); this file adds WHERE the result
is stored. Abstraction: when `append` moves to a fresh array, the in-place overwrites made just before on the old array
are not replayed on it (nobody can observe the old array unless it is shared — which is what the theorems exclude).
The two seeded variants (round 6, C17-8: SetAttributes re-using `r.back[:0]`, Clone skipping an empty `back`) are defined
at the end to show that the theorems tell them apart. Core Lean only.
-/
import Otel.C17.Model
namespace Otel.C17
open Otel

/-- slice header of `back` (offset always 0) -/
structure BSlice where
  arr : Nat
  len : Nat
  cap : Nat
deriving DecidableEq, Repr

structure SRec where
  front : List KV
  back : Option BSlice
  dropped : Nat
  nested : Nat
  cl : Int
  ll : Int
deriving Repr

/-- arrays by id, over their whole capacity -/
abbrev SHeap := List (List KV)

def padKV : KV := ([], LogVal.empty)

def backOf (h : SHeap) : Option BSlice → List KV
  | none => []
  | some s => (h.getD s.arr []).take s.len

def sload (h : SHeap) (x : SRec) : Rec := ⟨x.front, backOf h x.back, x.dropped, x.nested, x.cl, x.ll⟩

/-- a fresh array holding `xs` (nil for nothing) -/
def salloc (grow : Nat → Nat) (h : SHeap) (xs : List KV) : SHeap × Option BSlice :=
  if xs.isEmpty then (h, none)
  else
    let c := max xs.length (grow xs.length)
    (h ++ [xs ++ List.replicate (c - xs.length) padKV], some ⟨h.length, xs.length, c⟩)

/-- where AddAttributes leaves `back` when its content becomes `nb` (`nb` is at least as long as before) -/
def storeAdd (grow : Nat → Nat) (h : SHeap) (b : Option BSlice) (nb : List KV) : SHeap × Option BSlice :=
  match b with
  | none => salloc grow h nb
  | some s =>
    if nb.length ≤ s.cap then (h.modify s.arr (fun l => nb ++ l.drop nb.length), some { s with len := nb.length })
    else salloc grow h nb

def sstore (_x : SRec) (r : Rec) (b : Option BSlice) : SRec := ⟨r.front, b, r.dropped, r.nested, r.cl, r.ll⟩

def sStep (grow : Nat → Nat) (h : SHeap) (x : SRec) : Op → SHeap × SRec
  | .set l =>
    let r := setAttributes (sload h x) l
    let a := salloc grow h r.back
    (a.1, sstore x r a.2)
  | .add l =>
    let r := addAttributes (sload h x) l
    let a := storeAdd grow h x.back r.back
    (a.1, sstore x r a.2)

/-- `Record.Clone` -/
def sClone (grow : Nat → Nat) (h : SHeap) (x : SRec) : SHeap × SRec :=
  let a := salloc grow h (backOf h x.back)
  (a.1, { x with back := a.2 })

inductive Side where
  | orig
  | clone
deriving DecidableEq, Repr

structure Two where
  h : SHeap
  o : SRec
  c : SRec

def step2 (grow : Nat → Nat) (t : Two) (a : Side × Op) : Two :=
  match a.1 with
  | .orig => let r := sStep grow t.h t.o a.2; { t with h := r.1, o := r.2 }
  | .clone => let r := sStep grow t.h t.c a.2; { t with h := r.1, c := r.2 }

def run2 (grow : Nat → Nat) (t : Two) (script : List (Side × Op)) : Two := script.foldl (step2 grow) t

def opsOf (s : Side) (script : List (Side × Op)) : List Op :=
  script.filterMap (fun a => if a.1 = s then some a.2 else none)

/-- a record whose `back` header is consistent with the heap -/
def WFS (h : SHeap) (x : SRec) : Prop :=
  ∀ s, x.back = some s → s.arr < h.length ∧ s.len ≤ s.cap ∧ s.cap ≤ (h.getD s.arr []).length

/-! ### the round-6 seeded variants (C17-8) -/

/-- SetAttributes re-using the record's own storage: `r.back = append(r.back[:0], attrs[i:]...)` -/
def sStepReuse (grow : Nat → Nat) (h : SHeap) (x : SRec) : Op → SHeap × SRec
  | .set l =>
    let r := setAttributes (sload h x) l
    let a := storeAdd grow h (x.back.map (fun s => { s with len := 0 })) r.back
    (a.1, sstore x r (match a.2, x.back with
      | none, some s => some { s with len := 0 }     -- nothing appended: `r.back[:0]`, capacity kept
      | b, _ => b))
  | op => sStep grow h x op

/-- Clone that skips `slices.Clone` when `len(r.back) == 0` -/
def sCloneSkip (grow : Nat → Nat) (h : SHeap) (x : SRec) : SHeap × SRec :=
  match x.back with
  | some s => if s.len = 0 then (h, x) else sClone grow h x
  | none => (h, x)

end Otel.C17
