/-
C17 — "a cloned record shares no mutable state with the original", on the capacity-aware memory model of RecHeap.lean,
for every growth policy of the runtime and every interleaving of SetAttributes/AddAttributes calls on the two records.
-/
import Otel.C17.RecHeap
import Otel.C17.Props
namespace Otel.C17
open Otel

/-- `h'` extends `h` and differs from it on the old arrays at most in array `own` -/
def Frame (h h' : SHeap) (own : Option Nat) : Prop :=
  h.length ≤ h'.length ∧ ∀ j, j < h.length → own ≠ some j → h'.getD j [] = h.getD j []

/-- a slice header consistent with heap `h` -/
def WFB (h : SHeap) (s : BSlice) : Prop := s.arr < h.length ∧ s.len ≤ s.cap ∧ s.cap ≤ (h.getD s.arr []).length

private theorem getD_append_lt (h : SHeap) (x : List KV) (j : Nat) (hj : j < h.length) : (h ++ [x]).getD j [] = h.getD j [] := by
  simp [List.getD_eq_getElem?_getD, List.getElem?_append_left hj]

private theorem getD_append_eq (h : SHeap) (x : List KV) : (h ++ [x]).getD h.length [] = x := by
  simp [List.getD_eq_getElem?_getD]

private theorem salloc_spec (grow : Nat → Nat) (h : SHeap) (xs : List KV) (own : Option Nat) :
    backOf (salloc grow h xs).1 (salloc grow h xs).2 = xs ∧ Frame h (salloc grow h xs).1 own ∧
    ∀ s, (salloc grow h xs).2 = some s → WFB (salloc grow h xs).1 s ∧ h.length ≤ s.arr := by
  unfold salloc
  split
  · rename_i he
    have : xs = [] := by simpa using he
    subst this
    exact ⟨rfl, ⟨Nat.le_refl _, fun _ _ _ => rfl⟩, fun s hs => by cases hs⟩
  · refine ⟨?_, ⟨by simp, fun j hj _ => getD_append_lt h _ j hj⟩, ?_⟩
    · simp only [backOf, getD_append_eq]
      simp
    · intro s hs
      cases hs
      refine ⟨⟨by simp, by simp only; omega, ?_⟩, Nat.le_refl _⟩
      simp only [getD_append_eq, List.length_append, List.length_replicate]
      omega

private theorem storeAdd_spec (grow : Nat → Nat) (h : SHeap) (b : Option BSlice) (nb : List KV)
    (hw : ∀ s, b = some s → WFB h s) :
    backOf (storeAdd grow h b nb).1 (storeAdd grow h b nb).2 = nb ∧
    Frame h (storeAdd grow h b nb).1 (b.map (·.arr)) ∧
    ∀ s', (storeAdd grow h b nb).2 = some s' →
      WFB (storeAdd grow h b nb).1 s' ∧ ((∃ s, b = some s ∧ s'.arr = s.arr) ∨ h.length ≤ s'.arr) := by
  cases b with
  | none =>
    obtain ⟨h1, h2, h3⟩ := salloc_spec grow h nb none
    exact ⟨h1, h2, fun s' hs' => ⟨(h3 s' hs').1, Or.inr (h3 s' hs').2⟩⟩
  | some s =>
    obtain ⟨ha, hlc, hcl⟩ := hw s rfl
    simp only [storeAdd]
    split
    · rename_i hfit
      have hget : (h.modify s.arr (fun l => nb ++ l.drop nb.length)).getD s.arr [] =
          nb ++ (h.getD s.arr []).drop nb.length := by
        simp [List.getD_eq_getElem?_getD, List.getElem?_eq_getElem ha]
      refine ⟨?_, ⟨by simp, ?_⟩, ?_⟩
      · simp only [backOf, hget]
        simp
      · intro j _ hne
        have : s.arr ≠ j := fun e => hne (by simp [e])
        simp [List.getD_eq_getElem?_getD, this]
      · intro s' hs'
        cases hs'
        refine ⟨⟨by simpa using ha, hfit, ?_⟩, Or.inl ⟨s, rfl, rfl⟩⟩
        simp only [hget, List.length_append, List.length_drop]
        omega
    · obtain ⟨h1, h2, h3⟩ := salloc_spec grow h nb (some s.arr)
      exact ⟨h1, h2, fun s' hs' => ⟨(h3 s' hs').1, Or.inr (h3 s' hs').2⟩⟩

/-- one call on a record in memory: it computes what the value model computes, keeps its header consistent, and
writes to no old array but its own `back` array; its `back` afterwards is that array or one allocated by this call -/
theorem sStep_spec (grow : Nat → Nat) (h : SHeap) (x : SRec) (op : Op) (hw : WFS h x) :
    sload (sStep grow h x op).1 (sStep grow h x op).2 = step (sload h x) op ∧
    Frame h (sStep grow h x op).1 (x.back.map (·.arr)) ∧
    ∀ s', (sStep grow h x op).2.back = some s' →
      WFB (sStep grow h x op).1 s' ∧ ((∃ s, x.back = some s ∧ s'.arr = s.arr) ∨ h.length ≤ s'.arr) := by
  cases op with
  | set l =>
    obtain ⟨h1, h2, h3⟩ := salloc_spec grow h (setAttributes (sload h x) l).back (x.back.map (·.arr))
    refine ⟨?_, h2, fun s' hs' => ⟨(h3 s' hs').1, Or.inr (h3 s' hs').2⟩⟩
    simp only [sStep, sload, sstore, step] at h1 ⊢
    rw [h1]
  | add l =>
    obtain ⟨h1, h2, h3⟩ := storeAdd_spec grow h x.back (addAttributes (sload h x) l).back hw
    refine ⟨?_, h2, h3⟩
    simp only [sStep, sload, sstore, step] at h1 ⊢
    rw [h1]

/-- two records in one heap that share no array -/
structure Apart (t : Two) : Prop where
  wo : ∀ s, t.o.back = some s → WFB t.h s
  wc : ∀ s, t.c.back = some s → WFB t.h s
  apart : ∀ so sc, t.o.back = some so → t.c.back = some sc → so.arr ≠ sc.arr

private theorem other_kept (h h' : SHeap) (own : Option Nat) (hf : Frame h h' own) (b : Option BSlice)
    (hw : ∀ s, b = some s → WFB h s) (hne : ∀ s, b = some s → own ≠ some s.arr) :
    backOf h' b = backOf h b ∧ ∀ s, b = some s → WFB h' s := by
  cases b with
  | none => exact ⟨rfl, fun s hs => by cases hs⟩
  | some s =>
    obtain ⟨ha, hlc, hcl⟩ := hw s rfl
    have hg := hf.2 s.arr ha (hne s rfl)
    refine ⟨by simp only [backOf, hg], fun s' hs' => ?_⟩
    cases hs'
    exact ⟨by have := hf.1; omega, hlc, by rw [hg]; exact hcl⟩

/-- one call on either record: that record moves as the value model says, the other record's view does not move,
and the two still share no array -/
theorem step2_spec (grow : Nat → Nat) (t : Two) (a : Side × Op) (hA : Apart t) :
    Apart (step2 grow t a) ∧
    sload (step2 grow t a).h (step2 grow t a).o = (if a.1 = .orig then step (sload t.h t.o) a.2 else sload t.h t.o) ∧
    sload (step2 grow t a).h (step2 grow t a).c = (if a.1 = .clone then step (sload t.h t.c) a.2 else sload t.h t.c) := by
  obtain ⟨sd, op⟩ := a
  cases sd with
  | orig =>
    obtain ⟨h1, h2, h3⟩ := sStep_spec grow t.h t.o op (fun s hs => hA.wo s hs)
    obtain ⟨k1, k2⟩ := other_kept t.h _ _ h2 t.c.back hA.wc
      (fun sc hsc => by
        cases ho : t.o.back with
        | none => simp
        | some so => simp only [Option.map_some, ne_eq, Option.some.injEq]; exact hA.apart so sc ho hsc)
    refine ⟨⟨fun s hs => (h3 s hs).1, k2, ?_⟩, by simpa [step2] using h1, ?_⟩
    · intro so sc hso hsc
      simp only [step2] at hso hsc
      rcases (h3 so hso).2 with ⟨s0, hs0, he⟩ | hge
      · rw [he]; exact hA.apart s0 sc hs0 hsc
      · have := (hA.wc sc hsc).1; omega
    · simp only [step2, sload, k1]; simp
  | clone =>
    obtain ⟨h1, h2, h3⟩ := sStep_spec grow t.h t.c op (fun s hs => hA.wc s hs)
    obtain ⟨k1, k2⟩ := other_kept t.h _ _ h2 t.o.back hA.wo
      (fun so hso => by
        cases hc : t.c.back with
        | none => simp
        | some sc => simp only [Option.map_some, ne_eq, Option.some.injEq]; exact fun e => hA.apart so sc hso hc e.symm)
    refine ⟨⟨k2, fun s hs => (h3 s hs).1, ?_⟩, ?_, by simpa [step2] using h1⟩
    · intro so sc hso hsc
      simp only [step2] at hso hsc
      rcases (h3 sc hsc).2 with ⟨s0, hs0, he⟩ | hge
      · rw [he]; exact hA.apart so s0 hso hs0
      · have := (hA.wo so hso).1; omega
    · simp only [step2, sload, k1]; simp

private theorem run2_spec (grow : Nat → Nat) : ∀ (script : List (Side × Op)) (t : Two), Apart t →
    sload (run2 grow t script).h (run2 grow t script).o = (opsOf .orig script).foldl step (sload t.h t.o) ∧
    sload (run2 grow t script).h (run2 grow t script).c = (opsOf .clone script).foldl step (sload t.h t.c)
  | [], _, _ => ⟨rfl, rfl⟩
  | a :: tl, t, hA => by
    obtain ⟨hA', ho, hc⟩ := step2_spec grow t a hA
    obtain ⟨i1, i2⟩ := run2_spec grow tl (step2 grow t a) hA'
    simp only [run2, List.foldl_cons] at i1 i2 ⊢
    rw [i1, i2, ho, hc]
    obtain ⟨sd, op⟩ := a
    cases sd <;> simp [opsOf]

/-- **A cloned record shares no mutable state with the original.** For every growth policy of the runtime, every
record consistent with its heap and EVERY interleaving of SetAttributes / AddAttributes calls on the original and on
the clone made by `Clone` (struct copy + `slices.Clone(r.back)`): the clone starts out showing what the original
shows; afterwards the original shows exactly what its own calls produce from its state at the time of the clone, and
the clone exactly what ITS calls produce from that same state — no call on one side is visible on the other, whether
it overwrote an overflow attribute in place, appended within capacity, moved to a fresh array or reset the record. -/
theorem clone_shares_no_mutable_state (grow : Nat → Nat) (h : SHeap) (x : SRec) (hw : WFS h x)
    (script : List (Side × Op)) :
    let c := sClone grow h x
    let fin := run2 grow ⟨c.1, x, c.2⟩ script
    sload c.1 c.2 = sload h x ∧
    sload fin.h fin.o = (opsOf .orig script).foldl step (sload h x) ∧
    sload fin.h fin.c = (opsOf .clone script).foldl step (sload h x) := by
  obtain ⟨a1, a2, a3⟩ := salloc_spec grow h (backOf h x.back) none
  have hxo : backOf (sClone grow h x).1 x.back = backOf h x.back ∧ ∀ s, x.back = some s → WFB (sClone grow h x).1 s :=
    other_kept h _ none a2 x.back hw (fun _ _ => by simp)
  have hc0 : sload (sClone grow h x).1 (sClone grow h x).2 = sload h x := by
    simp only [sClone, sload, a1]
  have hA : Apart ⟨(sClone grow h x).1, x, (sClone grow h x).2⟩ :=
    ⟨hxo.2, fun s hs => (a3 s hs).1, fun so sc hso hsc => by
      have := (a3 sc hsc).2; have := (hw so hso).1; omega⟩
  obtain ⟨r1, r2⟩ := run2_spec grow script _ hA
  refine ⟨hc0, ?_, ?_⟩
  · rw [r1]; simp only [sload, hxo.1]
  · rw [r2, hc0]

/-- the theorem is about THIS storage discipline: with the two round-6 variants together (SetAttributes re-using
`r.back[:0]`, Clone skipping `slices.Clone` for an empty `back`) a record that shrank from 6 attributes to 1 and was
then cloned shares its overflow array with the clone — the sixth attribute added to the clone replaces the sixth
attribute added to the original -/
theorem reuse_and_skip_variants_share_state :
    let grow : Nat → Nat := fun n => n + 2
    let k : Nat → KV := fun i => ([UInt8.ofNat i], .int i)
    let s0 := sStep grow [] ⟨[], none, 0, 0, -1, -1⟩ (.add [k 1, k 2, k 3, k 4, k 5, k 6])
    let s1 := sStepReuse grow s0.1 s0.2 (.set [k 1])
    let c := sCloneSkip grow s1.1 s1.2
    let t := run2 grow ⟨c.1, s1.2, c.2⟩
      [(.orig, .add [k 2, k 3, k 4, k 5, k 60]), (.clone, .add [k 2, k 3, k 4, k 5, k 70])]
    beqKVs (sload t.h t.o).attrs ([Op.add [k 2, k 3, k 4, k 5, k 60]].foldl step (sload s1.1 s1.2)).attrs = false ∧
    beqKVs (sload t.h t.o).attrs (sload t.h t.c).attrs = true := by decide

end Otel.C17
