/- C17 — what the harness observes of a model record (used by the driver and by the theorems). -/
import Otel.C17.Model
import Otel.C17.Spec
namespace Otel.C17
/-- WalkAttributes, AttributesLen, DroppedAttributes -/
def observe (r : Rec) : Spec.Obs := ⟨r.attrs, r.len, r.dropped⟩
end Otel.C17
