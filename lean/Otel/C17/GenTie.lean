/-
C17 — generated tie.  `Otel.Gen.C17` is regenerated from /repo's current source by tools/go2lean on every run of
bin/check (checks/gentie.json); the theorems below are re-checked against the regenerated text.
Site: the default log record limits and their environment variable names (sdk/log/provider.go).  The C17 model's
record is parametric in the two limits (`Rec.new cl ll`); the theorems give the default record and its case.
Also the resolvers `getenv` and `fallback` of sdk/log/setting.go (closures; the skeleton starts at the closure's first
statement) whose leaves list the path's effects on the setting — tied to `Otel.C17.getenv` / `fallback`
(Provider.lean), and the defaults tied to `Otel.C17.defaultAttrCntLim` / `defaultAttrValLenLim`.
-/
import Otel.Gen.C17
import Otel.C17.Model
import Otel.C17.Provider

namespace Otel.C17.GenTie
open Otel.C17

/-- a record created by a logger of a provider with the default limits -/
def genDefaultRec : Rec := Rec.new Otel.Gen.C17.defaultAttrCntLim Otel.Gen.C17.defaultAttrValLenLim

theorem gen_default_limits_value :
    Otel.Gen.C17.defaultAttrCntLim = 128 ∧ Otel.Gen.C17.defaultAttrValLenLim = -1 ∧
    genDefaultRec.cl = 128 ∧ genDefaultRec.ll = -1 := by decide

/-- by default values are never truncated (negative = unlimited) and the count limit is a positive bound -/
theorem gen_default_limits_cases : genDefaultRec.ll < 0 ∧ 0 < genDefaultRec.cl := by decide

/-- the environment variables that override the defaults -/
theorem gen_limit_env_names :
    Otel.Gen.C17.envarAttrCntLim = "OTEL_LOGRECORD_ATTRIBUTE_COUNT_LIMIT" ∧
    Otel.Gen.C17.envarAttrValLenLim = "OTEL_LOGRECORD_ATTRIBUTE_VALUE_LENGTH_LIMIT" := by decide

/-! ### provider configuration (Provider.lean) -/

/-- the defaults of the provider model are the constants in the source -/
theorem gen_default_limits_eq_provider_model :
    Otel.Gen.C17.defaultAttrCntLim = Otel.C17.defaultAttrCntLim ∧
    Otel.Gen.C17.defaultAttrValLenLim = Otel.C17.defaultAttrValLenLim := by decide

/-- what a leaf of the generated `getenv` does to a setting (`n` = the parsed integer) -/
def interpGetenv (leaf : String × List String) (s : Setting) (n : Int) : Setting :=
  if leaf = ("s", ["value=env(ms-if-duration)", "set"]) then ⟨n, true⟩ else s

/-- the decision table of `getenv`: an option that is set wins; an empty/unset variable and an unparsable one leave
the setting alone (the latter is reported); otherwise the parsed value is stored and the setting marked set -/
theorem gen_getenv_table (isSet atoiFails : Bool) (env : String) :
    Otel.Gen.C17.getenv isSet atoiFails env =
      (if isSet = false ∧ env ≠ "" then
         (if atoiFails then ("s", ["handleError"]) else ("s", ["value=env(ms-if-duration)", "set"]))
       else ("s", [])) := by
  unfold Otel.Gen.C17.getenv
  by_cases h : env = "" <;> cases isSet <;> cases atoiFails <;> simp [h]

/-- a Go string that is empty exactly when the modelled variable is -/
def envStr (empty : Bool) : String := if empty then "" else "x"

/-- `getenv` as written today is the provider model's `getenv` -/
theorem gen_getenv_eq_model (env : Bytes) (s : Setting) :
    Otel.C17.getenv env s =
      interpGetenv (Otel.Gen.C17.getenv s.set (atoi env).isNone (envStr env.isEmpty)) s ((atoi env).getD 0) := by
  rw [gen_getenv_table]
  unfold Otel.C17.getenv interpGetenv envStr
  cases hs : s.set <;> cases he : env.isEmpty <;> cases ha : atoi env <;> simp

/-- the decision table of `fallback` and its agreement with the model's `fallback` -/
theorem gen_fallback_eq_model (d : Int) (s : Setting) :
    Otel.C17.fallback d s =
      (if Otel.Gen.C17.fallback s.set = ("s", ["value=default", "set"]) then ⟨d, true⟩ else s) ∧
    (∀ b, Otel.Gen.C17.fallback b = if b then ("s", []) else ("s", ["value=default", "set"])) := by
  constructor
  · unfold Otel.C17.fallback
    cases hs : s.set <;> simp [Otel.Gen.C17.fallback] <;> (repeat' split) <;> simp_all
  · intro b; cases b <;> rfl

/-- the inline attribute capacity of a record (`attributesInlineCount`, sdk/log/record.go) is the `5` of the model's
`addAttrs`: five attributes fill `front` exactly and the sixth is the first to go to `back` -/
theorem gen_inline_count_eq_model :
    Otel.Gen.C17.attributesInlineCount = 5 ∧
    ∀ a : KV, (addAttrs (Rec.new 128 (-1)) (List.replicate (Otel.Gen.C17.attributesInlineCount.toNat + 1) a)).front.length =
        Otel.Gen.C17.attributesInlineCount.toNat ∧
      (addAttrs (Rec.new 128 (-1)) (List.replicate (Otel.Gen.C17.attributesInlineCount.toNat + 1) a)).back.length = 1 := by
  refine ⟨by decide, ?_⟩
  intro a
  simp [addAttrs, applyAll, Rec.new, Otel.Gen.C17.attributesInlineCount, List.replicate]

end Otel.C17.GenTie
