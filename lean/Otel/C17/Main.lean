/-
C17 driver.  One script per line:

  rec <gen> <cl> <ll> <op> <attr>* | <op> <attr>* | … => <dump> | <dump> | …

  op    = set | add (on the record) · emit (first op only: logger.newRecord, one AddAttributes per attribute)
          · clone (c := r.Clone()) · cset | cadd (on the clone)
  attr  = <key hex>:<atom>,<atom>…   value in prefix notation; atoms: e · b0|b1 · i<dec> · d<16 hex> ·
          s<hex> · y<hex> · L<n> (then n values) · M<n> (then n times k<hex> and a value)
  dump  = <AttributesLen> <DroppedAttributes> <attr>*  [& <len> <dropped> <attr>*  (the clone, once it exists)]

  prov <gen> <env count|-> <env length|-> <opts|-> <k> => <attributeCountLimit> <attributeValueLengthLimit> <len> <dropped>
  (Provider.lean; env = x<hex> value of the variable, `-` = not set; opts = c<int>|l<int>,… in the order passed;
   k distinct int attributes emitted through Logger.Emit; len/dropped of the record the processor receives)
-/
import Otel.C17.Observe
import Otel.C17.Provider
open Otel Otel.Wire Otel.C17

namespace Otel.C17.Drv

def hexBody (bs : Bytes) : String := String.ofList (bs.flatMap hexOfByte)

partial def renderVal : LogVal → List String
  | .empty => ["e"]
  | .bool b => [if b then "b1" else "b0"]
  | .int i => [s!"i{i}"]
  | .float f => ["d" ++ hexBody ((List.range 8).reverse.map (fun j => UInt8.ofNat ((f.toNat >>> (8 * j)) % 256)))]
  | .str s => ["s" ++ hexBody s]
  | .bytes s => ["y" ++ hexBody s]
  | .slice l => s!"L{l.length}" :: l.flatMap renderVal
  | .map l => s!"M{l.length}" :: l.flatMap (fun kv => ("k" ++ hexBody kv.1) :: renderVal kv.2)

def renderAttr (a : KV) : String := hexBody a.1 ++ ":" ++ ",".intercalate (renderVal a.2)

def renderObs (attrs : List KV) (len dropped : Nat) : String :=
  " ".intercalate (s!"{len}" :: s!"{dropped}" :: attrs.map renderAttr)

def bytesToU64 (bs : Bytes) : UInt64 := UInt64.ofNat (bs.foldl (fun acc b => acc * 256 + b.toNat) 0)

mutual
partial def parseVal : List String → Option (LogVal × List String)
  | [] => none
  | tok :: rest =>
    match tok.toList with
    | ['e'] => some (.empty, rest)
    | ['b', '0'] => some (.bool false, rest)
    | ['b', '1'] => some (.bool true, rest)
    | 'i' :: ds => (String.ofList ds).toInt?.map (fun i => (.int i, rest))
    | 'd' :: hs => match parseHexChars hs with
      | some bs => if bs.length = 8 then some (.float (bytesToU64 bs), rest) else none
      | none => none
    | 's' :: hs => (parseHexChars hs).map (fun b => (.str b, rest))
    | 'y' :: hs => (parseHexChars hs).map (fun b => (.bytes b, rest))
    | 'L' :: ds => match (String.ofList ds).toNat? with
      | some n => (parseVals n rest).map (fun r => (.slice r.1, r.2))
      | none => none
    | 'M' :: ds => match (String.ofList ds).toNat? with
      | some n => (parseKVs n rest).map (fun r => (.map r.1, r.2))
      | none => none
    | _ => none
partial def parseVals : Nat → List String → Option (List LogVal × List String)
  | 0, rest => some ([], rest)
  | n + 1, toks => match parseVal toks with
    | some (v, rest) => (parseVals n rest).map (fun r => (v :: r.1, r.2))
    | none => none
partial def parseKVs : Nat → List String → Option (List KV × List String)
  | 0, rest => some ([], rest)
  | n + 1, tok :: toks => match tok.toList with
    | 'k' :: hs => match parseHexChars hs, parseVal toks with
      | some k, some (v, rest) => (parseKVs n rest).map (fun r => ((k, v) :: r.1, r.2))
      | _, _ => none
    | _ => none
  | _, [] => none
end

def parseAttr (tok : String) : Option KV :=
  match tok.splitOn ":" with
  | [k, v] => match parseHexChars k.toList, parseVal (v.splitOn ",") with
    | some kb, some (val, []) => some (kb, val)
    | _, _ => none
  | _ => none

def parseAttrs : List String → Option (List KV)
  | [] => some []
  | t :: ts => match parseAttr t, parseAttrs ts with
    | some a, some r => some (a :: r)
    | _, _ => none

/-- split a token list at every `|` -/
def groups (toks : List String) : List (List String) :=
  let r := toks.foldl (fun (acc : List (List String) × List String) t =>
    if t == "|" then (acc.1 ++ [acc.2], []) else (acc.1, acc.2 ++ [t])) ([], [])
  r.1 ++ [r.2]

def parseObs1 (toks : List String) : Option Spec.Obs :=
  match toks with
  | l :: d :: as => match l.toNat?, d.toNat?, parseAttrs as with
    | some ln, some dn, some attrs => some ⟨attrs, ln, dn⟩
    | _, _, _ => none
  | _ => none

/-- a dump group: the record's observation and, after `&`, the clone's -/
def parseObs (toks : List String) : Option (Spec.Obs × Option Spec.Obs) :=
  let a := toks.takeWhile (· ≠ "&")
  let b := (toks.dropWhile (· ≠ "&")).drop 1
  match parseObs1 a with
  | none => none
  | some oa => if toks.contains "&" then (parseObs1 b).map (fun ob => (oa, some ob)) else some (oa, none)

def renderRec (r : Rec) : String := renderObs r.attrs r.len r.dropped

/-- branch tags of one call on record `r` (same conditions as the model's branches) -/
def tagsOf (r : Rec) (isSet : Bool) (l : List KV) (r' : Rec) : List String :=
  let d := dedup l
  let base :=
    if isSet then
      ["set"] ++ (if d.2 > 0 then ["dedup"] else []) ++ (if (head d.1 r.cl).2 > 0 then ["head-cut"] else [])
    else if r.len = 0 then
      ["fresh"] ++ (if d.2 > 0 then ["dedup"] else []) ++ (if (head d.1 r.cl).2 > 0 then ["head-cut"] else [])
    else
      let m := l.foldl mergeStep (r, [])
      ["index"] ++ (if l.any (fun a => hasKey a.1 r.front) then ["ow-front"] else [])
        ++ (if l.any (fun a => hasKey a.1 r.back) then ["ow-back"] else [])
        ++ (if (dedup (l.filter (fun a => !hasKey a.1 r.attrs))).2 > 0 then ["dup-new"] else [])
        ++ (if r.cl > 0 ∧ (r.len : Int) + (m.2.length : Int) > r.cl then ["cap"] else [])
  base ++ (if r'.back ≠ [] then ["back"] else []) ++ (if r'.nested > 0 then ["nested-dedup"] else [])
    ++ (if l.any (fun a => !(LogVal.beq (applyVal r.ll a.2).1 a.2)) then ["limited"] else [])

structure St where
  r : Rec
  c : Option Rec
  opsR : List Op
  opsC : List Op
  prevR : Option Spec.Obs
  prevC : Option Spec.Obs
  ok : Bool            -- model == observed so far
  spec : Bool          -- oracle true so far
  tags : List String
  out : List String    -- model dumps

def addTags (old new : List String) : List String := new.foldl (fun acc t => if acc.contains t then acc else acc ++ [t]) old

def checkSide (cl ll : Int) (ops : List Op) (o : Spec.Obs) : Bool := Spec.recordOK cl ll ops o

/-- run one op group against its observed dump group -/
def stepOp (cl ll : Int) (first : Bool) (st : St) (op : List String) (obsToks : List String) : Option St :=
  match op, parseObs obsToks with
  | kind :: as, some (oR, oC) =>
    match parseAttrs as with
    | none => none
    | some attrs =>
      -- which side, which ops
      let applyR (ops : List Op) (tag : List String) : Option St :=
        let r' := ops.foldl step st.r
        let opsR := st.opsR ++ ops
        let tags := addTags st.tags (tag ++ (match ops with
          | [Op.set l] => tagsOf st.r true l r'
          | [Op.add l] => tagsOf st.r false l r'
          | _ => (ops.foldl (fun (acc : Rec × List String) o =>
              let r2 := step acc.1 o
              match o with
              | Op.add l => (r2, addTags acc.2 (tagsOf acc.1 false l r2))
              | Op.set l => (r2, addTags acc.2 (tagsOf acc.1 true l r2))) (st.r, [])).2))
        let dump := renderRec r' ++ (match st.c with | some c => " & " ++ renderRec c | none => "")
        let okC := match st.c, oC, st.prevC with
          | none, none, _ => true
          | some _, some oc, some pc => Spec.unchanged pc oc && checkSide cl ll st.opsC oc
          | _, _, _ => false
        some { st with r := r', opsR := opsR, prevR := some oR, prevC := oC,
                       ok := st.ok && dump == " ".intercalate obsToks,
                       spec := st.spec && checkSide cl ll opsR oR && Spec.accountingWith r'.nested opsR oR && okC,
                       tags := tags, out := st.out ++ [dump] }
      match kind with
      | "set" => applyR [Op.set attrs] []
      | "add" => applyR [Op.add attrs] []
      | "emit" => if first then applyR (emitOps attrs) ["emit"] else none
      | "clone" =>
        let c := clone st.r
        let dump := renderRec st.r ++ " & " ++ renderRec c
        let okS := match oC, st.prevR with
          | some oc, some pr => Spec.unchanged pr oR && Spec.unchanged oR oc && checkSide cl ll st.opsR oc
          | some oc, none => Spec.unchanged oR oc && checkSide cl ll st.opsR oc && checkSide cl ll st.opsR oR
          | none, _ => false
        some { st with c := some c, opsC := st.opsR, prevR := some oR, prevC := oC,
                       ok := st.ok && dump == " ".intercalate obsToks, spec := st.spec && okS,
                       tags := addTags st.tags ["clone"], out := st.out ++ [dump] }
      | "cset" | "cadd" =>
        match st.c, oC with
        | some c, some oc =>
          let o := if kind == "cset" then Op.set attrs else Op.add attrs
          let c' := step c o
          let opsC := st.opsC ++ [o]
          let dump := renderRec st.r ++ " & " ++ renderRec c'
          let okR := match st.prevR with
            | some pr => Spec.unchanged pr oR && checkSide cl ll st.opsR oR
            | none => false
          some { st with c := some c', opsC := opsC, prevR := some oR, prevC := some oc,
                         ok := st.ok && dump == " ".intercalate obsToks,
                         spec := st.spec && okR && checkSide cl ll opsC oc && Spec.accountingWith c'.nested opsC oc,
                         tags := addTags st.tags (["clone-op"] ++ tagsOf c (kind == "cset") attrs c'),
                         out := st.out ++ [dump] }
        | _, _ => none
      | _ => none
  | _, _ => none

def runScript (cl ll : Int) (ops : List (List String)) (obs : List (List String)) : Option St :=
  if ops.length ≠ obs.length then none else
  let init : St := ⟨Rec.new cl ll, none, [], [], none, none, true, true, [], []⟩
  let r := (ops.zip obs).foldl (fun (acc : Option St × Bool) p =>
    match acc.1 with
    | none => (none, false)
    | some st => (stepOp cl ll acc.2 st p.1 p.2, false)) (some init, true)
  r.1

def trivialTags : List String := ["set", "fresh", "index", "emit", "clone", "clone-op"]

def parseEnvTok (s : String) : Option Bytes := if s == "-" then some [] else parseHex s

def parsePOpt (s : String) : Option POpt :=
  match s.toList with
  | 'c' :: ds => (String.ofList ds).toInt?.map .cnt
  | 'l' :: ds => (String.ofList ds).toInt?.map .len
  | _ => none

def parsePOpts (s : String) : Option (List POpt) := if s == "-" then some [] else (s.splitOn ",").mapM parsePOpt

/-- the attributes the harness emits: k<i> = i for i < k -/
def provAttrs (k : Nat) : List KV :=
  (List.range k).map (fun (i : Nat) => ((0x6b : UInt8) :: (toString i).toUTF8.toList, LogVal.int (Int.ofNat i)))

def provLine (ec el os ks : String) (obs : List String) : Option Verdict := do
  let envC ← parseEnvTok ec
  let envL ← parseEnvTok el
  let opts ← parsePOpts os
  let k ← ks.toNat?
  let [a, b, c, d] := obs | none
  let cl ← parseInt a
  let ll ← parseInt b
  let len ← c.toNat?
  let dr ← d.toNat?
  let m := providerLimits opts envC envL
  let r := emitted opts envC envL (provAttrs k)
  let agree := cl == m.1 && ll == m.2 && len == r.len && dr == r.dropped
  let ok := Spec.providerLimitsOK opts envC envL cl ll && Spec.emittedCountOK cl k len dr
  let src (o : Option Int) (env : Bytes) : String :=
    match o with
    | some _ => if env.isEmpty then "opt" else "opt-over-env"
    | none => if env.isEmpty then "default" else match atoi env with
      | some _ => "env"
      | none => "env-bad"
  let tags := ["cnt-" ++ src (Spec.lastCnt opts) envC, "len-" ++ src (Spec.lastLen opts) envL] ++
    (if m.1 > 0 ∧ (k : Int) > m.1 then ["emit-cut"] else ["emit-all"])
  pure { agree := agree, spec := if ok then "ok" else "FAIL",
         nontrivial := tags.any (fun t => t != "cnt-default" && t != "len-default" && t != "emit-all"),
         branches := ",".intercalate tags, model := s!"{m.1} {m.2} {r.len} {r.dropped}" }

def stepLine (_ : Unit) (toks : List String) : Unit × Option Verdict :=
  let (inp, obs) := splitObs toks
  match inp with
  | ["prov", _, ec, el, os, ks] => ((), provLine ec el os ks obs)
  | "rec" :: _ :: cls :: lls :: rest =>
    match parseInt cls, parseInt lls with
    | some cl, some ll =>
      match runScript cl ll (groups rest) (groups obs) with
      | some st =>
        ((), some { agree := st.ok, spec := if st.spec then "ok" else "FAIL",
                    nontrivial := st.tags.any (fun t => !trivialTags.contains t),
                    branches := if st.tags.isEmpty then "-" else ",".intercalate st.tags,
                    model := " | ".intercalate st.out })
      | none => ((), none)
    | _, _ => ((), none)
  | _ => ((), none)

end Otel.C17.Drv

def main : IO Unit := Wire.run () Otel.C17.Drv.stepLine
