/-
C17 — "every string value it holds, whether top-level or nested in slices and maps … truncation never splits a
character": the nested half as theorems about the limiter `applyVal` (record.go applyValueLimits, recursive).
-/
import Otel.C17.Props
namespace Otel.C17
open Otel Otel.C17.Spec

/- every string anywhere inside a value (slice elements, map values, to any depth; map KEYS and Bytes are not strings
the limiter touches) -/
mutual
def strings : LogVal → List Bytes
  | .str s => [s]
  | .slice l => stringsL l
  | .map l => stringsKV l
  | _ => []
def stringsL : List LogVal → List Bytes
  | [] => []
  | v :: t => strings v ++ stringsL t
def stringsKV : List (Bytes × LogVal) → List Bytes
  | [] => []
  | (_, v) :: t => strings v ++ stringsKV t
end

private theorem stringsKV_mem (l : List (Bytes × LogVal)) (x : Bytes × LogVal) (hx : x ∈ l) :
    ∀ s ∈ strings x.2, s ∈ stringsKV l := by
  induction l with
  | nil => cases hx
  | cons y t ih =>
    obtain ⟨k, v⟩ := y
    intro s hs
    simp only [stringsKV, List.mem_append]
    rcases List.mem_cons.mp hx with rfl | hx
    · exact Or.inl hs
    · exact Or.inr (ih hx s hs)

private theorem stringsKV_sub (l u : List (Bytes × LogVal)) (hu : ∀ x ∈ u, x ∈ l) : ∀ s ∈ stringsKV u, s ∈ stringsKV l := by
  induction u with
  | nil => intro s hs; cases hs
  | cons y t ih =>
    obtain ⟨k, v⟩ := y
    intro s hs
    simp only [stringsKV, List.mem_append] at hs
    rcases hs with hs | hs
    · exact stringsKV_mem l (k, v) (hu _ (by simp)) s hs
    · exact ih (fun x hx => hu x (by simp [hx])) s hs

mutual
private theorem strings_limitVal (ll : Int) : ∀ v, ∀ s ∈ strings (limitVal ll v), ∃ s0 ∈ strings v, s = Trunc.refTrunc ll s0
  | .str s0 => by
    intro s hs
    simp only [limitVal, strings, List.mem_singleton] at hs
    exact ⟨s0, by simp [strings], hs⟩
  | .slice l => by
    intro s hs
    simp only [limitVal, strings] at hs ⊢
    exact strings_limitList ll l s hs
  | .map l => by
    intro s hs
    simp only [limitVal, strings] at hs ⊢
    have hsub : ∀ x ∈ dedupRef (limitKVs ll l), x ∈ limitKVs ll l := by
      intro x hx
      rw [← dedup_eq_dedupRef] at hx
      exact mem_dedup _ x hx
    exact strings_limitKVs ll l s (stringsKV_sub _ _ hsub s hs)
  | .empty => by intro s hs; simp [limitVal, strings] at hs
  | .bool _ => by intro s hs; simp [limitVal, strings] at hs
  | .int _ => by intro s hs; simp [limitVal, strings] at hs
  | .float _ => by intro s hs; simp [limitVal, strings] at hs
  | .bytes _ => by intro s hs; simp [limitVal, strings] at hs
private theorem strings_limitList (ll : Int) : ∀ l, ∀ s ∈ stringsL (limitList ll l), ∃ s0 ∈ stringsL l, s = Trunc.refTrunc ll s0
  | [] => by intro s hs; simp [limitList, stringsL] at hs
  | v :: t => by
    intro s hs
    simp only [limitList, stringsL, List.mem_append] at hs ⊢
    rcases hs with hs | hs
    · obtain ⟨s0, h0, e⟩ := strings_limitVal ll v s hs; exact ⟨s0, Or.inl h0, e⟩
    · obtain ⟨s0, h0, e⟩ := strings_limitList ll t s hs; exact ⟨s0, Or.inr h0, e⟩
private theorem strings_limitKVs (ll : Int) : ∀ l, ∀ s ∈ stringsKV (limitKVs ll l), ∃ s0 ∈ stringsKV l, s = Trunc.refTrunc ll s0
  | [] => by intro s hs; simp [limitKVs, stringsKV] at hs
  | (k, v) :: t => by
    intro s hs
    simp only [limitKVs, stringsKV, List.mem_append] at hs ⊢
    rcases hs with hs | hs
    · obtain ⟨s0, h0, e⟩ := strings_limitVal ll v s hs; exact ⟨s0, Or.inl h0, e⟩
    · obtain ⟨s0, h0, e⟩ := strings_limitKVs ll t s hs; exact ⟨s0, Or.inr h0, e⟩
end

/-- **Nested truncation.** Every string anywhere inside what the limiter returns — a slice element, a map value, at
any depth — is the limiter's STRING function applied to a string of the input: the reference truncation, i.e. the
input string itself when there is no limit or it is short enough, else its first `ll` valid characters … -/
theorem nested_strings_are_truncations (ll : Int) (v : LogVal) :
    ∀ s ∈ strings (applyVal ll v).1, ∃ s0 ∈ strings v, s = applyStr ll s0 := by
  intro s hs
  rw [applyVal_fst] at hs
  obtain ⟨s0, h0, e⟩ := strings_limitVal ll v s hs
  exact ⟨s0, h0, by rw [(limit_string_whole_runes ll s0).1]; exact e⟩

/-- … hence never a split character, at any depth: a nested string that was cut consists of whole characters of its
original, in order, and is valid UTF-8 -/
theorem nested_truncation_never_splits_a_character (ll : Int) (v : LogVal) :
    ∀ s ∈ strings (applyVal ll v).1, ∃ s0 ∈ strings v,
      s = s0 ∨ ((Utf8.chunks s).Sublist (Utf8.chunks s0) ∧ Utf8.validString s = true) := by
  intro s hs
  obtain ⟨s0, h0, e⟩ := nested_strings_are_truncations ll v s hs
  refine ⟨s0, h0, ?_⟩
  by_cases hc : ll < 0 ∨ (s0.length : Int) ≤ ll
  · left
    rw [e, (limit_string_whole_runes ll s0).1]
    simp [Trunc.refTrunc, hc]
  · right
    rw [e]
    exact (limit_string_whole_runes ll s0).2 hc

/-- Bytes values are not strings for the limiter: returned as they are, nothing counted -/
theorem bytes_values_untouched (ll : Int) (b : Bytes) : applyVal ll (.bytes b) = (.bytes b, 0) := by
  simp [applyVal]

/-- non-vacuity: a map inside a slice inside a map, limit 2: the 2-byte character is kept whole, the invalid byte goes -/
example :
    LogVal.beq
      (applyVal 2 (.map [([0x6d], .slice [.map [([0x6b], .str [0x61, 0xC5, 0xA1, 0xFF, 0x62])], .bytes [1, 2, 3, 4]])])).1
      (.map [([0x6d], .slice [.map [([0x6b], .str [0x61, 0xC5, 0xA1])], .bytes [1, 2, 3, 4]])]) = true := by decide

end Otel.C17
