/-
C17 — helper lemmas (not counted as obligations): the invariants of a whole script for the clauses
"value supplied last" (`run_lv`) and "the ghost counter of nested drops is `Spec.nestedWritten`" (`run_nested`).
-/
import Otel.C17.Values
namespace Otel.C17
open Otel Otel.C17.Spec

theorem lastVal_snoc_ne {α : Type} (k : Bytes) (l : List (Bytes × α)) (a : Bytes × α) (h : a.1 ≠ k) :
    lastVal k (l ++ [a]) = lastVal k l := by
  rw [lastVal_snoc]; simp [h]

theorem lastVal_snoc_self {α : Type} (l : List (Bytes × α)) (a : Bytes × α) : lastVal a.1 (l ++ [a]) = some a.2 := by
  rw [lastVal_snoc]; simp

theorem mem_keys {α : Type} (x : Bytes × α) (l : List (Bytes × α)) (h : x ∈ l) : x.1 ∈ keys l :=
  List.mem_map_of_mem (f := fun a => a.1) h

theorem mem_capKeys {β : Type} (cl : Int) (l : List β) (x : β) (h : x ∈ capKeys cl l) : x ∈ l := by
  unfold capKeys at h
  split at h
  · exact List.mem_of_mem_take h
  · exact h

theorem capKeys_nil {β : Type} (cl : Int) : capKeys cl ([] : List β) = [] := by
  unfold capKeys; split <;> simp

theorem keysInv_nodup (off : List KV) (r : Rec) (h : KeysInv off r) : (keys r.attrs).Nodup := by
  rw [h.keys]
  unfold capKeys
  split
  · exact (firstKeys_nodup _).sublist (List.take_sublist _ _)
  · exact firstKeys_nodup _

/-! ### "the value supplied last" -/

/-- every attribute held carries the (limited) value offered last for its key -/
def LV (off : List KV) (r : Rec) : Prop :=
  ∀ x ∈ r.attrs, ∃ v, lastVal x.1 off = some v ∧ x.2 = limitVal r.ll v

theorem mem_applyAll (ll : Int) (u : List KV) (x : KV) (h : x ∈ (applyAll ll u).1) :
    ∃ y ∈ u, x = (y.1, limitVal ll y.2) := by
  rw [applyAll_eq] at h
  simp only [List.mem_map] at h
  obtain ⟨y, hy, rfl⟩ := h
  exact ⟨y, hy, rfl⟩

theorem addAttrs_lv (L : List KV) (r : Rec) (u : List KV) (hw : WF r)
    (h : ∀ x ∈ r.attrs, ∃ v, lastVal x.1 L = some v ∧ x.2 = limitVal r.ll v)
    (hu : ∀ y ∈ u, lastVal y.1 L = some y.2) : LV L (addAttrs r u) := by
  unfold LV
  rw [addAttrs_attrs r u hw, (addAttrs_fields r u).2.1]
  intro x hx
  rcases List.mem_append.mp hx with hx | hx
  · exact h x hx
  · obtain ⟨y, hy, rfl⟩ := mem_applyAll _ _ _ hx
    exact ⟨y.2, hu y hy, rfl⟩

theorem mem_head_dedup (cl : Int) (xs : List KV) : ∀ y ∈ (head (dedup xs).1 cl).1, lastVal y.1 xs = some y.2 := by
  intro y hy
  rw [head_fst] at hy
  exact dedup_lastVal xs y (mem_capKeys _ _ _ hy)

theorem setAttributes_lv (r : Rec) (xs : List KV) : LV xs (setAttributes r xs) := by
  unfold LV
  rw [setAttributes_attrs]
  show ∀ x ∈ (applyAll r.ll (head (dedup xs).1 r.cl).1).1, ∃ v, lastVal x.1 xs = some v ∧ x.2 = limitVal r.ll v
  intro x hx
  obtain ⟨y, hy, rfl⟩ := mem_applyAll _ _ _ hx
  exact ⟨y.2, mem_head_dedup _ _ y hy, rfl⟩

/-- the attributes set aside for appending carry the value supplied last in this call -/
theorem merge_uv (r : Rec) (p : List KV) : ∀ x ∈ (p.foldl mergeStep (r, [])).2, lastVal x.1 p = some x.2 := by
  induction p using snoc_ind with
  | h0 => simp
  | hs p a ih =>
    rw [merge_snoc]
    have hu := merge_unique_keys r p
    generalize hm : p.foldl mergeStep (r, []) = m at ih hu
    have hnu : (keys m.2).Nodup := by rw [hu]; exact firstKeys_nodup _
    intro x hx
    unfold mergeStep at hx
    simp only at hx
    split at hx
    · rcases mem_setKey_nodup _ _ _ _ hnu hx with h | h
      · subst h; exact lastVal_snoc_self _ _
      · rw [lastVal_snoc_ne _ _ _ (fun e => h.2 e.symm)]; exact ih x h.1
    · rename_i hk
      have hne : ∀ y ∈ m.2, a.1 ≠ y.1 := by
        intro y hy e
        apply hk
        rw [hasKey_iff, e]; exact mem_keys y _ hy
      split at hx
      · rw [lastVal_snoc_ne _ _ _ (hne x hx)]; exact ih x hx
      · split at hx
        · rw [lastVal_snoc_ne _ _ _ (hne x hx)]; exact ih x hx
        · simp only [List.mem_append, List.mem_singleton] at hx
          rcases hx with hx | hx
          · rw [lastVal_snoc_ne _ _ _ (hne x hx)]; exact ih x hx
          · subst hx; exact lastVal_snoc_self _ _

/-- the keys set aside for appending are not held by the record -/
theorem merge_unique_not_held (r : Rec) (p : List KV) :
    ∀ x ∈ (p.foldl mergeStep (r, [])).2, x.1 ∉ keys r.attrs := by
  intro x hx
  have hk := mem_keys x _ hx
  rw [merge_unique_keys, mem_firstKeys] at hk
  simp only [keys, List.mem_map, List.mem_filter] at hk
  obtain ⟨y, ⟨_, hy⟩, hya⟩ := hk
  rw [← hya]
  simpa [keys] using hy

/-- the value half of the merge-loop invariant: after the prefix `p` of the call every attribute held
carries the value supplied last in `off ++ p` -/
theorem merge_recv (off : List KV) (r : Rec) (hn : (keys r.attrs).Nodup) (h : LV off r) (p : List KV) :
    ∀ x ∈ (p.foldl mergeStep (r, [])).1.attrs, ∃ v, lastVal x.1 (off ++ p) = some v ∧ x.2 = limitVal r.ll v := by
  induction p using snoc_ind with
  | h0 => simp only [List.foldl_nil, List.append_nil]; exact h
  | hs p a ih =>
    rw [merge_snoc, ← List.append_assoc]
    obtain ⟨s1, s2, _, s4⟩ := merge_shape r p
    have hud := merge_unique_not_held r p
    generalize hm : p.foldl mergeStep (r, []) = m at ih s1 s2 s4 hud
    have hn' := hn
    rw [keys_attrs, List.nodup_append] at hn'
    obtain ⟨hnf, hnb, hdis⟩ := hn'
    rw [← s1] at hnf hdis
    rw [← s2] at hnb hdis
    have hka : keys m.1.attrs = keys r.attrs := by rw [keys_attrs, keys_attrs, s1, s2]
    have keep : ∀ x : KV, x ∈ m.1.attrs → a.1 ≠ x.1 →
        ∃ v, lastVal x.1 (off ++ p ++ [a]) = some v ∧ x.2 = limitVal r.ll v := by
      intro x hx hne
      rw [lastVal_snoc_ne _ _ _ hne]
      exact ih x hx
    have new : ∃ v, lastVal (applyAttr m.1.ll a).1.1 (off ++ p ++ [a]) = some v ∧
        (applyAttr m.1.ll a).1.2 = limitVal r.ll v := by
      refine ⟨a.2, lastVal_snoc_self (off ++ p) a, ?_⟩
      rw [applyAttr_eq, s4]
    intro x hx
    unfold mergeStep at hx
    simp only at hx
    split at hx
    · rename_i hk
      refine keep x hx ?_
      intro e
      have h1 := (hasKey_iff _ _).mp hk
      rw [hasKey_iff] at hk
      simp only [keys, List.mem_map] at h1
      obtain ⟨y, hy, hya⟩ := h1
      apply hud y hy
      rw [hya, e, ← hka]
      exact mem_keys x _ hx
    · split at hx
      · rename_i hb
        have hb' := (hasKey_iff _ _).mp hb
        simp only [Rec.attrs, List.mem_append] at hx
        rcases hx with hx | hx
        · refine keep x (by simp [Rec.attrs, hx]) ?_
          intro e
          exact hdis x.1 (mem_keys x _ hx) a.1 hb' e.symm
        · rcases mem_overwriteLast_nodup _ _ _ _ hnb hx with hx | hx
          · subst hx; exact new
          · exact keep x (by simp [Rec.attrs, hx.1]) (fun e => hx.2 e.symm)
      · rename_i hb
        have hb' : a.1 ∉ keys m.1.back := fun hh => hb ((hasKey_iff _ _).mpr hh)
        split at hx
        · simp only [Rec.attrs, List.mem_append] at hx
          rcases hx with hx | hx
          · rcases mem_overwriteLast_nodup _ _ _ _ hnf hx with hx | hx
            · subst hx; exact new
            · exact keep x (by simp [Rec.attrs, hx.1]) (fun e => hx.2 e.symm)
          · refine keep x (by simp [Rec.attrs, hx]) ?_
            intro e
            exact hb' (e ▸ mem_keys x _ hx)
        · rename_i hf
          have hf' : a.1 ∉ keys m.1.front := fun hh => hf ((hasKey_iff _ _).mpr hh)
          refine keep x hx ?_
          intro e
          have := mem_keys x _ hx
          rw [keys_attrs, List.mem_append, ← e] at this
          rcases this with h1 | h1
          · exact hf' h1
          · exact hb' h1

theorem lastVal_append_right {α : Type} (k : Bytes) (a b : List (Bytes × α)) (v : α) (h : lastVal k b = some v) :
    lastVal k (a ++ b) = some v := by
  rw [lastVal_append, h]; rfl

theorem addAttributes_lv (off xs : List KV) (r : Rec) (hk : KeysInv off r) (h : LV off r) :
    LV (off ++ xs) (addAttributes r xs) := by
  unfold addAttributes
  simp only
  by_cases hn : r.len = 0
  · simp only [hn, if_true]
    obtain ⟨hf, hb⟩ := len_zero r hn
    have hoff := off_nil_of_len_zero off r hk hn
    subst hoff
    refine addAttrs_lv _ _ _ hk.wf ?_ ?_
    · intro x hx
      simp [Rec.attrs, hf, hb] at hx
    · simpa using mem_head_dedup r.cl xs
  · simp only [hn, if_false]
    have hr := merge_recv off r (keysInv_nodup off r hk) h xs
    have hu := merge_uv r xs
    have hw := merge_wf r xs hk.wf
    obtain ⟨_, _, _, s4⟩ := merge_shape r xs
    generalize hm : xs.foldl mergeStep (r, []) = m at hr hu hw s4
    rw [← s4] at hr
    split
    · refine addAttrs_lv _ _ _ hw hr ?_
      intro y hy
      exact lastVal_append_right _ _ _ _ (hu y (List.mem_of_mem_take hy))
    · refine addAttrs_lv _ _ _ hw hr ?_
      intro y hy
      exact lastVal_append_right _ _ _ _ (hu y hy)

theorem run_lv (cl ll : Int) (ops : List Op) : LV (offered ops) (run cl ll ops) := by
  induction ops using snoc_ind with
  | h0 => intro a ha; simp [run, Rec.new, Rec.attrs] at ha
  | hs ops op ih =>
    rw [run_snoc, offered_snoc]
    cases op with
    | set l => exact setAttributes_lv _ l
    | add l => exact addAttributes_lv _ l _ (run_inv cl ll ops) ih

/-! ### the ghost counter of nested drops is the reference count `nestedWritten` -/

/-- the values the merge loop writes over held keys are exactly the attributes of the call whose key is held -/
theorem merge_nested (r : Rec) (p : List KV) :
    (p.foldl mergeStep (r, [])).1.nested
      = r.nested + ((p.filter (fun a => (keys r.attrs).contains a.1)).map (fun a => nestedDups a.2)).sum := by
  induction p using snoc_ind with
  | h0 => simp
  | hs p a ih =>
    rw [merge_snoc]
    obtain ⟨s1, s2, _, _⟩ := merge_shape r p
    have hud := merge_unique_not_held r p
    generalize hm : p.foldl mergeStep (r, []) = m at ih s1 s2 hud
    rw [List.filter_append, List.map_append, List.sum_append, ← Nat.add_assoc, ← ih]
    unfold mergeStep
    simp only
    by_cases hu : hasKey a.1 m.2 = true
    · have h1 := (hasKey_iff _ _).mp hu
      simp only [keys, List.mem_map] at h1
      obtain ⟨y, hy, hya⟩ := h1
      have hnk : a.1 ∉ keys r.attrs := hya ▸ hud y hy
      simp [hu, hnk]
    · simp only [hu, Bool.false_eq_true, if_false]
      by_cases hb : hasKey a.1 m.1.back = true
      · have : a.1 ∈ keys r.attrs := by
          rw [keys_attrs, ← s2]; exact List.mem_append_right _ ((hasKey_iff _ _).mp hb)
        simp [hb, this, applyAttr_eq]
      · by_cases hf : hasKey a.1 m.1.front = true
        · have : a.1 ∈ keys r.attrs := by
            rw [keys_attrs, ← s1]; exact List.mem_append_left _ ((hasKey_iff _ _).mp hf)
          simp [hb, hf, this, applyAttr_eq]
        · have : a.1 ∉ keys r.attrs := by
            rw [keys_attrs, ← s1, ← s2]
            intro hh
            rcases List.mem_append.mp hh with h | h
            · exact hf ((hasKey_iff _ _).mpr h)
            · exact hb ((hasKey_iff _ _).mpr h)
          simp [hb, hf, this]

/-- nested drops of the new attributes `u` that a call appends, as the reference computes them -/
theorem appended_nested (ll : Int) (L u : List KV) (hu : ∀ y ∈ u, lastVal y.1 L = some y.2) :
    (applyAll ll u).2 = (((keys u).filterMap (fun k => lastVal k L)).map nestedDups).sum := by
  rw [applyAll_eq, ← vals_eq_filterMap_of_lastVal L u hu, List.map_map]
  rfl

theorem filter_const_true {β : Type} (l : List β) : l.filter (fun _ => true) = l := by
  induction l with
  | nil => rfl
  | cons x t ih => simp [ih]

theorem filter_const_false {β : Type} (l : List β) : l.filter (fun _ => false) = [] := by
  induction l with
  | nil => rfl
  | cons x t ih => simp [ih]

/-- a call on an empty record (SetAttributes, or AddAttributes on a fresh record) -/
theorem fresh_written (cl ll : Int) (xs : List KV) :
    (applyAll ll (head (dedup xs).1 cl).1).2 = ((writtenBy cl [] xs).map nestedDups).sum := by
  rw [appended_nested ll xs _ (mem_head_dedup cl xs), head_fst, keys_capKeys, keys_dedup]
  unfold writtenBy capKeys
  simp [filter_const_true, filter_const_false]

theorem setAttributes_nested (r : Rec) (xs : List KV) :
    (setAttributes r xs).nested = ((writtenBy r.cl [] xs).map nestedDups).sum := by
  rw [← fresh_written r.cl r.ll xs]
  rfl

theorem keys_take {α : Type} (n : Nat) (l : List (Bytes × α)) : keys (l.take n) = (keys l).take n := by
  simp [keys, List.map_take]

theorem addAttributes_nested (xs : List KV) (r : Rec) (hz : r.len = 0 → r.nested = 0) :
    (addAttributes r xs).nested = r.nested + ((writtenBy r.cl (keys r.attrs) xs).map nestedDups).sum := by
  unfold addAttributes
  simp only
  by_cases hn : r.len = 0
  · simp only [hn, if_true]
    obtain ⟨hf, hb⟩ := len_zero r hn
    have hka : keys r.attrs = [] := by simp [Rec.attrs, hf, hb]
    rw [hka, hz hn, (addAttrs_fields _ _).2.2.2]
    exact congrArg (0 + ·) (fresh_written r.cl r.ll xs)
  · simp only [hn, if_false]
    have hu := merge_uv r xs
    have hud := merge_unique_not_held r xs
    have huk := merge_unique_keys r xs
    have hne := merge_nested r xs
    obtain ⟨_, _, _, s4⟩ := merge_shape r xs
    generalize hm : xs.foldl mergeStep (r, []) = m at hu hud huk hne s4
    have hlen : r.len = (keys r.attrs).length := by rw [len_eq, keys_length]
    -- the new attributes carry the last value within the part of the call whose keys are not held
    have hu' : ∀ y ∈ m.2, lastVal y.1 (xs.filter (fun a => !(keys r.attrs).contains a.1)) = some y.2 := by
      intro y hy
      rw [lastVal_filter (fun k => !(keys r.attrs).contains k) y.1 (by simpa using hud y hy)]
      exact hu y hy
    have hul : m.2.length = (firstKeys (xs.filter (fun a => !(keys r.attrs).contains a.1))).length := by
      rw [← huk, keys_length]
    unfold writtenBy
    simp only [List.map_append, List.sum_append, List.map_map]
    split
    · rename_i hc
      obtain ⟨hc1, hc2⟩ := hc
      rw [(addAttrs_fields _ _).2.2.2]
      show m.1.nested + (applyAll m.1.ll _).2 = _
      rw [appended_nested _ _ _ (fun y hy => hu' y (List.mem_of_mem_take hy)), keys_take, huk, hne, Nat.add_assoc]
      simp only [hc1, if_true]
      have : (r.cl - (r.len : Int)).toNat = r.cl.toNat - (keys r.attrs).length := by omega
      rw [this]
      rfl
    · rename_i hc
      rw [(addAttrs_fields _ _).2.2.2]
      rw [appended_nested _ _ _ hu', huk, hne, Nat.add_assoc]
      by_cases hc1 : r.cl > 0
      · have hc2 : ¬ ((r.len : Int) + (m.2.length : Int) > r.cl) := fun hh => hc ⟨hc1, hh⟩
        simp only [hc1, if_true]
        rw [List.take_of_length_le (Nat.le_trans (Nat.le_of_eq hul.symm) (by omega))]
        rfl
      · simp only [hc1, if_false]
        rfl

theorem addAttributes_len_zero (r : Rec) (xs : List KV) :
    (addAttributes r xs).len = 0 → (addAttributes r xs).nested = 0 := by
  unfold addAttributes
  simp only
  by_cases hn : r.len = 0
  · simp only [hn, if_true]
    rw [addAttrs_len, (addAttrs_fields _ _).2.2.2]
    intro h
    have : (head (dedup xs).1 r.cl).1 = [] := List.eq_nil_of_length_eq_zero (by omega)
    rw [this]
    simp [applyAll]
  · simp only [hn, if_false]
    have hl := merge_len r xs
    generalize hm : xs.foldl mergeStep (r, []) = m at hl
    split
    · rw [addAttrs_len]
      intro h
      exact absurd (hl.symm.trans (Nat.add_eq_zero_iff.mp h).1) hn
    · rw [addAttrs_len]
      intro h
      exact absurd (hl.symm.trans (Nat.add_eq_zero_iff.mp h).1) hn

theorem setAttributes_len_zero (r : Rec) (xs : List KV) :
    (setAttributes r xs).len = 0 → (setAttributes r xs).nested = 0 := by
  intro h
  have h1 : (setAttributes r xs).attrs = [] := List.eq_nil_of_length_eq_zero (by rw [← len_eq]; exact h)
  rw [setAttributes_attrs] at h1
  have h2 := congrArg List.length h1
  rw [applyAll_length] at h2
  have h3 : (head (dedup xs).1 r.cl).1 = [] := List.eq_nil_of_length_eq_zero h2
  show (applyAll r.ll (head (dedup xs).1 r.cl).1).2 = 0
  rw [h3]
  simp [applyAll]

theorem run_len_zero (cl ll : Int) (ops : List Op) : (run cl ll ops).len = 0 → (run cl ll ops).nested = 0 := by
  induction ops using snoc_ind with
  | h0 => intro _; rfl
  | hs ops op ih =>
    rw [run_snoc]
    cases op with
    | set l => exact setAttributes_len_zero _ l
    | add l => exact addAttributes_len_zero _ l

theorem nestedFold_fst (cl : Int) (calls : List (List KV)) (acc : List KV × Nat) :
    (calls.foldl (nestedStep cl) acc).1 = acc.1 ++ calls.flatten := by
  induction calls generalizing acc with
  | nil => simp
  | cons c t ih => simp [List.foldl_cons, ih, nestedStep]

theorem run_nested (cl ll : Int) (ops : List Op) : (run cl ll ops).nested = nestedWritten cl ops := by
  induction ops using snoc_ind with
  | h0 => rfl
  | hs ops op ih =>
    rw [run_snoc]
    unfold nestedWritten
    rw [epoch_snoc]
    cases op with
    | set l =>
      show (setAttributes _ l).nested = _
      rw [setAttributes_nested, (run_limits cl ll ops).1]
      simp [epochStep, nestedStep, capKeys_nil]
    | add l =>
      show (addAttributes _ l).nested = _
      rw [addAttributes_nested l _ (run_len_zero cl ll ops), ih,
        (run_inv cl ll ops).keys, (run_limits cl ll ops).1]
      simp only [epochStep, List.foldl_append, List.foldl_cons, List.foldl_nil, nestedStep]
      rw [nestedFold_fst]
      rfl

/-! ### the nested term is bounded by the nested duplicates of everything offered -/

theorem sublist_sum_le {l₁ l₂ : List Nat} (h : l₁.Sublist l₂) : l₁.sum ≤ l₂.sum := by
  induction h with
  | slnil => simp
  | cons a _ ih => simp only [List.sum_cons]; omega
  | cons_cons a _ ih => simp only [List.sum_cons]; omega

/-- the survivors of `dedup` cost no more than the whole sequence -/
theorem dedup_sum_le {α : Type} (c : α → Nat) (l : List (Bytes × α)) :
    ((dedup l).1.map (fun x => c x.2)).sum ≤ (l.map (fun x => c x.2)).sum := by
  induction l using snoc_ind with
  | h0 => simp [dedup]
  | hs l a ih =>
    rw [dedup_snoc]
    unfold dedupStep
    simp only [List.map_append, List.sum_append, List.map_cons, List.map_nil, List.sum_cons, List.sum_nil]
    split
    · rename_i hk
      have := setKey_cost c a l (dedup l).1 (dedup_keys_nodup l) (dedup_lastVal l) ((hasKey_iff _ _).mp hk)
      simp only
      omega
    · simp only [List.map_append, List.sum_append, List.map_cons, List.map_nil, List.sum_cons, List.sum_nil]
      omega

theorem filter_sum_split {β : Type} (q : β → Bool) (f : β → Nat) (l : List β) :
    ((l.filter q).map f).sum + ((l.filter (fun a => !q a)).map f).sum = (l.map f).sum := by
  induction l with
  | nil => rfl
  | cons x t ih =>
    cases h : q x with
    | true =>
      simp only [List.filter_cons, h, if_true, Bool.not_true, Bool.false_eq_true, if_false, List.map_cons, List.sum_cons]
      omega
    | false =>
      simp only [List.filter_cons, h, if_true, Bool.not_false, Bool.false_eq_true, if_false, List.map_cons, List.sum_cons]
      omega

/-- what one call writes has no more nested duplicates than what it offers -/
theorem writtenBy_le (cl : Int) (held : List Bytes) (call : List KV) :
    ((writtenBy cl held call).map nestedDups).sum ≤ (call.map (fun a => nestedDups a.2)).sum := by
  unfold writtenBy
  simp only [List.map_append, List.sum_append, List.map_map]
  have hsplit := filter_sum_split (fun a : KV => held.contains a.1) (fun a => nestedDups a.2) call
  generalize hF : call.filter (fun a => !held.contains a.1) = fresh at hsplit
  have h1 : ((firstKeys fresh).filterMap (fun k => lastVal k fresh)).map nestedDups
      = (dedup fresh).1.map (fun x => nestedDups x.2) := by
    rw [← keys_dedup, ← vals_eq_filterMap_of_lastVal fresh _ (dedup_lastVal fresh), List.map_map]
    rfl
  have h2 := dedup_sum_le nestedDups fresh
  have h3 : ∀ K : List Bytes, K.Sublist (firstKeys fresh) →
      ((K.filterMap (fun k => lastVal k fresh)).map nestedDups).sum ≤ (fresh.map (fun a => nestedDups a.2)).sum := by
    intro K hK
    have := sublist_sum_le ((hK.filterMap (fun k => lastVal k fresh)).map nestedDups)
    rw [h1] at this
    exact Nat.le_trans this h2
  have h4 : ((call.filter (fun a => held.contains a.1)).map (nestedDups ∘ fun a => a.2)).sum
      = ((call.filter (fun a => held.contains a.1)).map (fun a => nestedDups a.2)).sum := rfl
  rw [h4]
  split
  · have := h3 _ (List.take_sublist (cl.toNat - held.length) (firstKeys fresh))
    omega
  · have := h3 _ (List.Sublist.refl _)
    omega

theorem nestedFold_le (cl : Int) (calls : List (List KV)) (acc : List KV × Nat) :
    (calls.foldl (nestedStep cl) acc).2 ≤ acc.2 + (calls.flatten.map (fun a => nestedDups a.2)).sum := by
  induction calls generalizing acc with
  | nil => simp
  | cons c t ih =>
    have h1 := ih (nestedStep cl acc c)
    have h2 := writtenBy_le cl (capKeys cl (firstKeys acc.1)) c
    simp only [List.foldl_cons, List.flatten_cons, List.map_append, List.sum_append]
    simp only [nestedStep] at h1 ⊢
    omega

theorem nestedWritten_le_offered (cl : Int) (ops : List Op) : nestedWritten cl ops ≤ nestedOffered ops := by
  have := nestedFold_le cl (epoch ops) ([], 0)
  simpa [nestedWritten, nestedOffered, offered] using this

end Otel.C17
