/-
C17 — the property, restated without the record's storage layout (no front/back, no index maps, no
de-duplication loops).  Everything is a function of the *script* (the calls made so far, the limits) and of
the *observation* (what WalkAttributes / AttributesLen / DroppedAttributes return).  All predicates are
Bool-valued: they are the conclusions of the theorems in Props.lean and the oracle the driver evaluates on
the implementation's observed result.  Core Lean only.
-/
import Otel.C17.Val
namespace Otel.C17.Spec
open Otel Otel.C17

/-- what an exporter/processor can see of a record's attributes -/
structure Obs where
  attrs : List KV      -- WalkAttributes order
  len : Nat            -- AttributesLen
  dropped : Nat        -- DroppedAttributes

/-! ### reference functions on attribute sequences (left-to-right scans) -/

/-- the distinct keys of a sequence, in order of first occurrence -/
def firstKeys {α : Type} (l : List (Bytes × α)) : List Bytes :=
  l.foldl (fun acc a => if acc.contains a.1 then acc else acc ++ [a.1]) []

/-- the value supplied last for key `k` -/
def lastVal {α : Type} (k : Bytes) (l : List (Bytes × α)) : Option α :=
  l.foldl (fun acc a => if a.1 == k then some a.2 else acc) none

/-- at most `cl` of them when `cl` is positive; `cl ≤ 0` means unlimited -/
def capKeys {β : Type} (cl : Int) (l : List β) : List β := if cl > 0 then l.take cl.toNat else l

/-- reference de-duplication of a key/value sequence: each key once, at its first position, with its last value -/
def dedupRef {α : Type} (l : List (Bytes × α)) : List (Bytes × α) :=
  (firstKeys l).filterMap (fun k => (lastVal k l).map (fun v => (k, v)))

/-! ### the value a record must hold for an offered value -/

/- `limitVal ll v`: every string anywhere in `v` cut to `ll` characters by the reference truncation
(`Otel.Trunc.refTrunc`: unchanged when `ll < 0` or short enough in bytes, else its first `ll` valid
characters), maps de-duplicated (last value wins), nothing else touched. -/
mutual
def limitVal (ll : Int) : LogVal → LogVal
  | .str s => .str (Trunc.refTrunc ll s)
  | .slice l => .slice (limitList ll l)
  | .map l => .map (dedupRef (limitKVs ll l))
  | v => v
def limitList (ll : Int) : List LogVal → List LogVal
  | [] => []
  | v :: t => limitVal ll v :: limitList ll t
def limitKVs (ll : Int) : List (Bytes × LogVal) → List (Bytes × LogVal)
  | [] => []
  | (k, v) :: t => (k, limitVal ll v) :: limitKVs ll t
end

/- number of map entries anywhere inside `v` that de-duplication discards: an entry followed by a later
entry with the same key is discarded (with everything inside it); a surviving entry is searched recursively -/
mutual
def nestedDups : LogVal → Nat
  | .slice l => nestedList l
  | .map l => nestedKVs l
  | _ => 0
def nestedList : List LogVal → Nat
  | [] => 0
  | v :: t => nestedDups v + nestedList t
def nestedKVs : List (Bytes × LogVal) → Nat
  | [] => 0
  | (k, v) :: t => (if t.any (fun x => x.1 == k) then 1 else nestedDups v) + nestedKVs t
end

/- every string anywhere in `v` holds at most `ll` characters (`ll < 0`: no limit) -/
mutual
def valBounded (ll : Int) : LogVal → Bool
  | .str s => ll < 0 || (Utf8.runeCount s : Int) ≤ ll
  | .slice l => listBounded ll l
  | .map l => kvsBounded ll l
  | _ => true
def listBounded (ll : Int) : List LogVal → Bool
  | [] => true
  | v :: t => valBounded ll v && listBounded ll t
def kvsBounded (ll : Int) : List (Bytes × LogVal) → Bool
  | [] => true
  | (_, v) :: t => valBounded ll v && kvsBounded ll t
end

/-! ### the script -/

/-- the calls since (and including) the last SetAttributes — `SetAttributes` replaces everything -/
def epochStep (acc : List (List KV)) : Op → List (List KV)
  | .set l => [l]
  | .add l => acc ++ [l]
def epoch (ops : List Op) : List (List KV) := ops.foldl epochStep []

/-- the attributes offered since the last SetAttributes, in order -/
def offered (ops : List Op) : List KV := (epoch ops).flatten

/-- the values one call writes into the record when the record holds the keys `held` before the call:
every attribute whose key is already held overwrites it (each of them is written); of the other
attributes only the last value of each new key is written, and only for the new keys that still fit. -/
def writtenBy (cl : Int) (held : List Bytes) (call : List KV) : List LogVal :=
  let old := call.filter (fun a => held.contains a.1)
  let fresh := call.filter (fun a => !held.contains a.1)
  let keep := if cl > 0 then (firstKeys fresh).take (cl.toNat - held.length) else firstKeys fresh
  old.map (fun a => a.2) ++ keep.filterMap (fun k => lastVal k fresh)

/-- (attributes offered so far, nested drops so far) after one more call -/
def nestedStep (cl : Int) (acc : List KV × Nat) (call : List KV) : List KV × Nat :=
  (acc.1 ++ call, acc.2 + ((writtenBy cl (capKeys cl (firstKeys acc.1)) call).map nestedDups).sum)

/-- nested map entries de-duplicated away in the values written since the last SetAttributes -/
def nestedWritten (cl : Int) (ops : List Op) : Nat := ((epoch ops).foldl (nestedStep cl) ([], 0)).2

/-- upper bound used by the weaker accounting clause: nested duplicates of everything offered -/
def nestedOffered (ops : List Op) : Nat := ((offered ops).map (fun a => nestedDups a.2)).sum

/-! ### the clauses of the property -/

/-- "holds each key at most once" -/
def keysUnique (o : Obs) : Bool := decide (o.attrs.map (fun a => a.1)).Nodup

/-- "keeps at most the configured number of attributes" (and AttributesLen is the number walked) -/
def countBound (cl : Int) (o : Obs) : Bool :=
  o.len == o.attrs.length && (decide (cl ≤ 0) || decide ((o.attrs.length : Int) ≤ cl))

/-- "with the earliest keys retained": the keys are the first `cl` distinct keys offered, in that order -/
def earliestKept (cl : Int) (ops : List Op) (o : Obs) : Bool :=
  o.attrs.map (fun a => a.1) == capKeys cl (firstKeys (offered ops))

/-- "with the value supplied last" — as limited by `limitVal` (whole-character truncation of every string,
top-level or nested, new or overwriting) -/
def lastValue (ll : Int) (ops : List Op) (o : Obs) : Bool :=
  o.attrs.all (fun a => match lastVal a.1 (offered ops) with
    | some v => LogVal.beq a.2 (limitVal ll v)
    | none => false)

/-- "every string value it holds … holds at most the configured number of characters" -/
def stringsBounded (ll : Int) (o : Obs) : Bool := o.attrs.all (fun a => valBounded ll a.2)

/-- "attribute count plus dropped count equals the number of attributes offered" — plus the nested map
entries de-duplicated away, which the code also counts as dropped (made explicit here) -/
def accounting (cl : Int) (ops : List Op) (o : Obs) : Bool :=
  o.len + o.dropped == (offered ops).length + nestedWritten cl ops

/-- the same equation with the nested term supplied (the model keeps it as a ghost counter) -/
def accountingWith (nested : Nat) (ops : List Op) (o : Obs) : Bool :=
  o.len + o.dropped == (offered ops).length + nested

/- no map anywhere inside `v` has two entries with the same key -/
mutual
def noDupVal : LogVal → Bool
  | .slice l => noDupList l
  | .map l => noDupKVs l
  | _ => true
def noDupList : List LogVal → Bool
  | [] => true
  | v :: t => noDupVal v && noDupList t
def noDupKVs : List (Bytes × LogVal) → Bool
  | [] => true
  | (k, v) :: t => !(t.any (fun x => x.1 == k)) && noDupVal v && noDupKVs t
end

/-- no call of the script offers a value with duplicate keys inside a map -/
def noNestedDup (ops : List Op) : Bool :=
  ops.all (fun op => match op with | .set l => l.all (fun a => noDupVal a.2) | .add l => l.all (fun a => noDupVal a.2))

/-- the statement's equation as worded: count + dropped = offered -/
def accountingPlain (ops : List Op) (o : Obs) : Bool := o.len + o.dropped == (offered ops).length

/-- weaker form that does not need `nestedWritten`: between offered and offered + all nested duplicates offered -/
def accountingBounds (ops : List Op) (o : Obs) : Bool :=
  decide ((offered ops).length ≤ o.len + o.dropped) && decide (o.len + o.dropped ≤ (offered ops).length + nestedOffered ops)

/-- all clauses about one record -/
def recordOK (cl ll : Int) (ops : List Op) (o : Obs) : Bool :=
  keysUnique o && countBound cl o && earliestKept cl ops o && lastValue ll ops o &&
  stringsBounded ll o && accounting cl ops o && accountingBounds ops o

/-- "a cloned record shares no mutable state with the original": a call on one side leaves the other
side's observation as it was -/
def unchanged (before after : Obs) : Bool :=
  beqKVs before.attrs after.attrs && before.len == after.len && before.dropped == after.dropped

end Otel.C17.Spec
