/-
C17 — the value type of log attributes (`log.Value` of /repo/log/keyvalue.go) and the operations of a script.
Core Lean only.  `deriving DecidableEq` does not apply to nested inductives, so equality is a hand-written
Boolean function with its two correctness lemmas.
-/
import Otel.Base.Truncate
namespace Otel.C17
open Otel

/-- `log.Value`: Kind ∈ Empty, Bool, Int64, Float64 (as IEEE bits), String (bytes), Bytes, Slice, Map.
A map is the `[]log.KeyValue` it was built from (order kept, duplicates possible). -/
inductive LogVal where
  | empty
  | bool (b : Bool)
  | int (i : Int)
  | float (bits : UInt64)
  | str (s : Bytes)
  | bytes (b : Bytes)
  | slice (l : List LogVal)
  | map (l : List (Bytes × LogVal))
deriving Repr, Inhabited

/-- `log.KeyValue` -/
abbrev KV := Bytes × LogVal

/-- one call of a script -/
inductive Op where
  | set (attrs : List KV)   -- Record.SetAttributes(attrs...)
  | add (attrs : List KV)   -- Record.AddAttributes(attrs...)
deriving Inhabited

mutual
def LogVal.beq : LogVal → LogVal → Bool
  | .empty, .empty => true
  | .bool a, .bool b => a == b
  | .int a, .int b => a == b
  | .float a, .float b => a == b
  | .str a, .str b => a == b
  | .bytes a, .bytes b => a == b
  | .slice a, .slice b => beqList a b
  | .map a, .map b => beqKVs a b
  | _, _ => false
def beqList : List LogVal → List LogVal → Bool
  | [], [] => true
  | x :: xs, y :: ys => LogVal.beq x y && beqList xs ys
  | _, _ => false
def beqKVs : List (Bytes × LogVal) → List (Bytes × LogVal) → Bool
  | [], [] => true
  | (k, x) :: xs, (k', y) :: ys => k == k' && LogVal.beq x y && beqKVs xs ys
  | _, _ => false
end

mutual
theorem LogVal.beq_refl : ∀ v : LogVal, LogVal.beq v v = true
  | .empty => by simp [LogVal.beq]
  | .bool a => by simp [LogVal.beq]
  | .int a => by simp [LogVal.beq]
  | .float a => by simp [LogVal.beq]
  | .str a => by simp [LogVal.beq]
  | .bytes a => by simp [LogVal.beq]
  | .slice a => by simp [LogVal.beq]; exact beqList_refl a
  | .map a => by simp [LogVal.beq]; exact beqKVs_refl a
theorem beqList_refl : ∀ l, beqList l l = true
  | [] => by simp [beqList]
  | x :: xs => by simp [beqList]; exact ⟨LogVal.beq_refl x, beqList_refl xs⟩
theorem beqKVs_refl : ∀ l, beqKVs l l = true
  | [] => by simp [beqKVs]
  | (k, x) :: xs => by simp [beqKVs]; exact ⟨LogVal.beq_refl x, beqKVs_refl xs⟩
end

mutual
theorem LogVal.eq_of_beq : ∀ a b : LogVal, LogVal.beq a b = true → a = b
  | .empty, b => by cases b <;> simp [LogVal.beq]
  | .bool a, b => by cases b <;> simp [LogVal.beq]
  | .int a, b => by cases b <;> simp [LogVal.beq]
  | .float a, b => by cases b <;> simp [LogVal.beq]
  | .str a, b => by cases b <;> simp [LogVal.beq]
  | .bytes a, b => by cases b <;> simp [LogVal.beq]
  | .slice a, b => by
      cases b <;> simp [LogVal.beq]
      exact eq_of_beqList a _
  | .map a, b => by
      cases b <;> simp [LogVal.beq]
      exact eq_of_beqKVs a _
theorem eq_of_beqList : ∀ a b, beqList a b = true → a = b
  | [], b => by cases b <;> simp [beqList]
  | x :: xs, b => by
      cases b with
      | nil => simp [beqList]
      | cons y ys =>
        simp [beqList]
        intro h1 h2
        exact ⟨LogVal.eq_of_beq x y h1, eq_of_beqList xs ys h2⟩
theorem eq_of_beqKVs : ∀ a b, beqKVs a b = true → a = b
  | [], b => by cases b <;> simp [beqKVs]
  | (k, x) :: xs, b => by
      cases b with
      | nil => simp [beqKVs]
      | cons y ys =>
        obtain ⟨k', y⟩ := y
        simp [beqKVs]
        intro h0 h1 h2
        exact ⟨⟨h0, LogVal.eq_of_beq x y h1⟩, eq_of_beqKVs xs ys h2⟩
end

/-- attribute lists compared with `LogVal.beq` -/
def kvsBeq (a b : List KV) : Bool := beqKVs a b

end Otel.C17
