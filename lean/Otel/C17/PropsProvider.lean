/-
C17 — property theorems about where a record's limits come from (provider.go / setting.go / logger.newRecord):
"under any limits" of the property statement means the limits the PROVIDER resolved — option, else environment
variable, else default — and every emitted record carries exactly those.
-/
import Otel.C17.Provider
import Otel.C17.Props
namespace Otel.C17
open Otel Otel.C17.Spec

private def toSetting : Option Int → Setting
  | some n => ⟨n, true⟩
  | none => ⟨0, false⟩

private theorem fold_applyOpt (opts : List POpt) : ∀ (c : PCfg) (a b : Option Int),
    c.1 = toSetting a → c.2 = toSetting b →
    (opts.foldl applyOpt c).1 =
      toSetting (opts.foldl (fun seen o => match o with | .cnt n => some n | _ => seen) a) ∧
    (opts.foldl applyOpt c).2 =
      toSetting (opts.foldl (fun seen o => match o with | .len n => some n | _ => seen) b) := by
  induction opts with
  | nil => intro c a b h1 h2; exact ⟨h1, h2⟩
  | cons o tl ih =>
    intro c a b h1 h2
    simp only [List.foldl_cons]
    cases o with
    | cnt n => exact ih _ _ _ rfl h2
    | len n => exact ih _ _ _ h1 rfl

private theorem resolve_eq (o : Option Int) (env : Bytes) (d : Int) :
    (fallback d (getenv env (toSetting o))).value = limitFrom o env d := by
  cases o with
  | some n => simp [toSetting, getenv, fallback, limitFrom]
  | none =>
    simp only [toSetting, getenv, limitFrom, Bool.false_eq_true, if_false]
    by_cases he : env.isEmpty = true
    · simp [he, fallback]
    · simp only [he, if_false, Bool.false_eq_true]
      cases atoi env <;> simp [fallback]

/-- **Limit resolution.** For every list of options (any order, repeated, none) and every content of the two
environment variables, the provider's limits — the fold of the option closures over the zero config, then
`Resolve(getenv, fallback)` — are: the last option of that kind; else the environment variable if it is set, non-empty
and `strconv.Atoi` accepts it; else the default (128 attributes, no length limit). -/
theorem provider_limits_follow_precedence (opts : List POpt) (envCnt envLen : Bytes) :
    providerLimits opts envCnt envLen =
      (limitFrom (lastCnt opts) envCnt 128, limitFrom (lastLen opts) envLen (-1)) := by
  obtain ⟨h1, h2⟩ := fold_applyOpt opts ((⟨0, false⟩, ⟨0, false⟩) : PCfg) none none rfl rfl
  simp only [providerLimits, h1, h2, resolve_eq, defaultAttrCntLim, defaultAttrValLenLim, lastCnt, lastLen]
  rfl

/-- the same in the form the driver evaluates on the limits read from the real provider -/
theorem provider_limits_ok (opts : List POpt) (envCnt envLen : Bytes) :
    providerLimitsOK opts envCnt envLen (providerLimits opts envCnt envLen).1 (providerLimits opts envCnt envLen).2 = true := by
  simp [providerLimitsOK, provider_limits_follow_precedence]

/-- an option always beats the environment, whatever the variable holds … -/
theorem option_beats_environment (opts : List POpt) (envCnt envLen : Bytes) (n : Int) (h : lastCnt opts = some n) :
    (providerLimits opts envCnt envLen).1 = n := by
  rw [provider_limits_follow_precedence, h]; rfl

/-- … and an unusable variable (unset/empty, or not an integer for Atoi) never changes the default. -/
theorem bad_environment_ignored (opts : List POpt) (envCnt envLen : Bytes) (h : lastCnt opts = none)
    (hb : envCnt = [] ∨ atoi envCnt = none) : (providerLimits opts envCnt envLen).1 = 128 := by
  rw [provider_limits_follow_precedence, h]
  rcases hb with hb | hb
  · subst hb; rfl
  · simp [limitFrom, hb]

/-- every record that reaches a processor through Logger.Emit satisfies ALL clauses of the property under the limits
the provider resolved (logger.newRecord copies them and adds the attributes one AddAttributes call at a time) -/
theorem emitted_record_obeys_resolved_limits (opts : List POpt) (envCnt envLen : Bytes) (attrs : List KV) :
    recordOK (providerLimits opts envCnt envLen).1 (providerLimits opts envCnt envLen).2 (emitOps attrs)
      (observe (emitted opts envCnt envLen attrs)) = true :=
  rec_all_clauses _ _ _

/-- non-vacuity: options in any order with repeats; Atoi's edge cases ("+7", "-0", "007" accepted; "", "-", "1_000",
" 5", "12x", 2^63 rejected; -2^63 accepted) -/
example :
    providerLimits [.len 1, .cnt 128, .cnt 0] [] [0x35] = (0, 1) ∧
    providerLimits [] [0x2b, 0x37] [0x2d, 0x30] = (7, 0) ∧
    providerLimits [.len 3] [0x30, 0x30, 0x37] [0x39] = (7, 3) ∧
    providerLimits [] [0x2d] [0x31, 0x5f, 0x30, 0x30, 0x30] = (128, -1) ∧
    providerLimits [] [0x20, 0x35] [0x31, 0x32, 0x78] = (128, -1) ∧
    atoi [0x39, 0x32, 0x32, 0x33, 0x33, 0x37, 0x32, 0x30, 0x33, 0x36, 0x38, 0x35, 0x34, 0x37, 0x37, 0x35, 0x38, 0x30, 0x38] = none ∧
    atoi [0x2d, 0x39, 0x32, 0x32, 0x33, 0x33, 0x37, 0x32, 0x30, 0x33, 0x36, 0x38, 0x35, 0x34, 0x37, 0x37, 0x35, 0x38, 0x30, 0x38] =
      some (-9223372036854775808) := by decide

end Otel.C17
