/-
C17 — helper lemmas (not counted as obligations): association lists, `dedup`, the merge loop of
AddAttributes, `applyVal`, the flat view `front ++ back`.
-/
import Otel.C17.Observe
namespace Otel.C17
open Otel Otel.C17.Spec

/-- induction from the left end (scripts and attribute sequences grow at the right) -/
theorem snoc_ind {α : Type} {P : List α → Prop} (h0 : P []) (hs : ∀ l a, P l → P (l ++ [a])) : ∀ l, P l := by
  intro l
  rw [← List.reverse_reverse l]
  induction l.reverse with
  | nil => simpa using h0
  | cons a t ih => simp only [List.reverse_cons]; exact hs _ _ ih

/-- the keys of an attribute list -/
def keys {α : Type} (l : List (Bytes × α)) : List Bytes := l.map (fun a => a.1)

@[simp] theorem keys_nil {α : Type} : keys ([] : List (Bytes × α)) = [] := rfl
@[simp] theorem keys_cons {α : Type} (a : Bytes × α) (l : List (Bytes × α)) : keys (a :: l) = a.1 :: keys l := rfl
@[simp] theorem keys_append {α : Type} (a b : List (Bytes × α)) : keys (a ++ b) = keys a ++ keys b := by simp [keys]
@[simp] theorem keys_length {α : Type} (a : List (Bytes × α)) : (keys a).length = a.length := by simp [keys]

theorem hasKey_iff {α : Type} (k : Bytes) (l : List (Bytes × α)) : hasKey k l = true ↔ k ∈ keys l := by
  simp only [hasKey, keys, List.any_eq_true, List.mem_map, beq_iff_eq]

theorem hasKey_false_iff {α : Type} (k : Bytes) (l : List (Bytes × α)) : hasKey k l = false ↔ k ∉ keys l := by
  rw [← hasKey_iff]; simp

theorem keys_setKey {α : Type} (k : Bytes) (a : Bytes × α) (h : a.1 = k) (u : List (Bytes × α)) :
    keys (setKey k a u) = keys u := by
  induction u with
  | nil => rfl
  | cons x t ih =>
    simp only [setKey]
    split
    · rename_i hx; simp only [beq_iff_eq] at hx; simp [h, hx]
    · simp [ih]

theorem keys_overwriteLast (k : Bytes) (a : KV) (h : a.1 = k) (l : List KV) :
    keys (overwriteLast k a l) = keys l := by
  induction l with
  | nil => rfl
  | cons x t ih =>
    simp only [overwriteLast]
    split
    · simp [ih]
    · split
      · rename_i hx; simp only [beq_iff_eq] at hx; simp [h, hx]
      · rfl

/-! ### Spec scans, one more element -/

theorem firstKeys_snoc {α : Type} (l : List (Bytes × α)) (a : Bytes × α) :
    firstKeys (l ++ [a]) = if (firstKeys l).contains a.1 then firstKeys l else firstKeys l ++ [a.1] := by
  simp [firstKeys, List.foldl_append]

theorem lastVal_snoc {α : Type} (k : Bytes) (l : List (Bytes × α)) (a : Bytes × α) :
    lastVal k (l ++ [a]) = if a.1 == k then some a.2 else lastVal k l := by
  simp [lastVal, List.foldl_append]

@[simp] theorem firstKeys_nil {α : Type} : firstKeys ([] : List (Bytes × α)) = [] := rfl
@[simp] theorem lastVal_nil {α : Type} (k : Bytes) : lastVal k ([] : List (Bytes × α)) = none := rfl

theorem mem_firstKeys {α : Type} (k : Bytes) (l : List (Bytes × α)) : k ∈ firstKeys l ↔ k ∈ keys l := by
  induction l using snoc_ind with
  | h0 => simp
  | hs l a ih =>
    rw [firstKeys_snoc]
    split
    · rename_i h
      simp only [List.contains_eq_mem, decide_eq_true_eq] at h
      simp only [keys_append, keys_cons, keys_nil, List.mem_append, List.mem_singleton, ih]
      constructor
      · intro h1; exact Or.inl h1
      · rintro (h1 | h1)
        · exact h1
        · subst h1; exact ih.mp h
    · simp [ih]

theorem firstKeys_nodup {α : Type} (l : List (Bytes × α)) : (firstKeys l).Nodup := by
  induction l using snoc_ind with
  | h0 => simp
  | hs l a ih =>
    rw [firstKeys_snoc]
    split
    · exact ih
    · rename_i h
      simp only [List.contains_eq_mem, decide_eq_true_eq] at h
      rw [List.nodup_append]
      refine ⟨ih, by simp, ?_⟩
      intro x hx y hy
      simp only [List.mem_singleton] at hy
      subst hy
      intro hxy; subst hxy; exact h hx

theorem firstKeys_length_le {α : Type} (l : List (Bytes × α)) : (firstKeys l).length ≤ l.length := by
  induction l using snoc_ind with
  | h0 => simp
  | hs l a ih =>
    rw [firstKeys_snoc]
    split <;> simp <;> omega

theorem firstKeys_eq_nil {α : Type} (l : List (Bytes × α)) (h : firstKeys l = []) : l = [] := by
  cases l with
  | nil => rfl
  | cons a t =>
    have : a.1 ∈ firstKeys (a :: t) := (mem_firstKeys _ _).mpr (by simp)
    rw [h] at this; simp at this

/-- the keys first seen in `off ++ xs` are those of `off`, then the new ones of `xs` -/
theorem firstKeys_append {α : Type} (off xs : List (Bytes × α)) :
    firstKeys (off ++ xs) = firstKeys off ++ firstKeys (xs.filter (fun a => !(firstKeys off).contains a.1)) := by
  induction xs using snoc_ind with
  | h0 => simp
  | hs xs a ih =>
    rw [← List.append_assoc, firstKeys_snoc, ih, List.filter_append]
    by_cases h1 : a.1 ∈ firstKeys off
    · simp [h1]
    · simp only [List.filter_cons, List.contains_eq_mem, h1, decide_false, Bool.not_false, if_true,
        List.filter_nil, firstKeys_snoc]
      by_cases h2 : a.1 ∈ firstKeys (xs.filter (fun a => !decide (a.1 ∈ firstKeys off)))
      · simp [h1, h2]
      · simp [h1, h2]

/-! ### dedup, keys -/

theorem dedup_snoc {α : Type} (l : List (Bytes × α)) (a : Bytes × α) :
    dedup (l ++ [a]) = dedupStep (dedup l) a := by
  simp [dedup, List.foldl_append]

theorem keys_dedup {α : Type} (l : List (Bytes × α)) : keys (dedup l).1 = firstKeys l := by
  induction l using snoc_ind with
  | h0 => rfl
  | hs l a ih =>
    rw [dedup_snoc, firstKeys_snoc]
    unfold dedupStep
    by_cases h : hasKey a.1 (dedup l).1 = true
    · have h' := (hasKey_iff _ _).mp h
      rw [ih] at h'
      simp [h, h', keys_setKey, ih]
    · have h' : a.1 ∉ firstKeys l := by rw [← ih]; exact fun hh => h ((hasKey_iff _ _).mpr hh)
      simp [h, h', ih]

theorem dedup_count {α : Type} (l : List (Bytes × α)) : (dedup l).2 + (dedup l).1.length = l.length := by
  induction l using snoc_ind with
  | h0 => rfl
  | hs l a ih =>
    rw [dedup_snoc]
    unfold dedupStep
    split
    · have := congrArg List.length (keys_setKey a.1 a rfl (dedup l).1)
      simp only [keys_length] at this
      simp only [List.length_append, List.length_singleton, this]; omega
    · simp only [List.length_append, List.length_singleton]; omega

theorem head_fst {β : Type} (l : List β) (n : Int) : (head l n).1 = capKeys n l := by
  unfold head capKeys
  by_cases h1 : n > 0
  · by_cases h2 : (l.length : Int) > n
    · simp [h1, h2]
    · simp only [h1, h2, and_false, if_false, if_true]
      rw [List.take_of_length_le]; omega
  · simp [h1]

theorem head_count {β : Type} (l : List β) (n : Int) : (head l n).2 + (head l n).1.length = l.length := by
  unfold head
  split
  · simp only [List.length_take]; omega
  · simp

theorem keys_capKeys {α : Type} (cl : Int) (l : List (Bytes × α)) : keys (capKeys cl l) = capKeys cl (keys l) := by
  unfold capKeys keys; split <;> simp [List.map_take]

theorem keys_applyAll (ll : Int) (l : List KV) : keys (applyAll ll l).1 = keys l := by
  simp [applyAll, keys, applyAttr, Function.comp_def]

theorem applyAll_length (ll : Int) (l : List KV) : (applyAll ll l).1.length = l.length := by
  simp [applyAll]

/-! ### the flat view `front ++ back` -/

/-- storage shape: at most 5 inline attributes, and `back` is used only when `front` is full -/
def WF (r : Rec) : Prop := r.front.length ≤ 5 ∧ (r.front.length < 5 → r.back = [])

theorem len_eq (r : Rec) : r.len = r.attrs.length := by simp [Rec.len, Rec.attrs]

theorem addAttrs_attrs (r : Rec) (xs : List KV) (h : WF r) :
    (addAttrs r xs).attrs = r.attrs ++ (applyAll r.ll xs).1 := by
  obtain ⟨h1, h2⟩ := h
  simp only [addAttrs, Rec.attrs]
  by_cases hf : r.front.length < 5
  · rw [h2 hf]; simp [List.take_append_drop]
  · have : 5 - r.front.length = 0 := by omega
    simp [this]

theorem addAttrs_wf (r : Rec) (xs : List KV) (h : WF r) : WF (addAttrs r xs) := by
  obtain ⟨h1, h2⟩ := h
  simp only [addAttrs, WF, List.length_append, List.length_take]
  refine ⟨by omega, ?_⟩
  intro hlt
  have hf : r.front.length < 5 := by omega
  rw [h2 hf]
  simp only [List.nil_append, List.drop_eq_nil_iff]
  omega

theorem addAttrs_fields (r : Rec) (xs : List KV) :
    (addAttrs r xs).cl = r.cl ∧ (addAttrs r xs).ll = r.ll ∧
    (addAttrs r xs).dropped = r.dropped + (applyAll r.ll xs).2 ∧
    (addAttrs r xs).nested = r.nested + (applyAll r.ll xs).2 := by
  simp [addAttrs]

theorem setAttributes_attrs (r : Rec) (xs : List KV) :
    (setAttributes r xs).attrs = (applyAll r.ll (head (dedup xs).1 r.cl).1).1 := by
  simp [setAttributes, Rec.attrs, List.take_append_drop]

theorem setAttributes_wf (r : Rec) (xs : List KV) : WF (setAttributes r xs) := by
  simp only [setAttributes, WF, List.length_take, List.drop_eq_nil_iff]
  omega

/-! ### the merge loop of AddAttributes -/

theorem merge_snoc (r : Rec) (p : List KV) (a : KV) :
    (p ++ [a]).foldl mergeStep (r, []) = mergeStep (p.foldl mergeStep (r, [])) a := by
  simp [List.foldl_append]

theorem applyAttr_key (ll : Int) (a : KV) : (applyAttr ll a).1.1 = a.1 := rfl

theorem mergeStep_shape (m : Rec × List KV) (a : KV) :
    keys (mergeStep m a).1.front = keys m.1.front ∧ keys (mergeStep m a).1.back = keys m.1.back ∧
    (mergeStep m a).1.cl = m.1.cl ∧ (mergeStep m a).1.ll = m.1.ll := by
  unfold mergeStep
  simp only
  split
  · exact ⟨rfl, rfl, rfl, rfl⟩
  · split
    · exact ⟨rfl, keys_overwriteLast a.1 (applyAttr m.1.ll a).1 rfl m.1.back, rfl, rfl⟩
    · split
      · exact ⟨keys_overwriteLast a.1 (applyAttr m.1.ll a).1 rfl m.1.front, rfl, rfl, rfl⟩
      · exact ⟨rfl, rfl, rfl, rfl⟩

/-- the loop never changes which keys sit where, nor the limits -/
theorem merge_shape (r : Rec) (p : List KV) :
    keys (p.foldl mergeStep (r, [])).1.front = keys r.front ∧ keys (p.foldl mergeStep (r, [])).1.back = keys r.back ∧
    (p.foldl mergeStep (r, [])).1.cl = r.cl ∧ (p.foldl mergeStep (r, [])).1.ll = r.ll := by
  induction p using snoc_ind with
  | h0 => simp
  | hs p a ih =>
    rw [merge_snoc]
    obtain ⟨i1, i2, i3, i4⟩ := ih
    obtain ⟨j1, j2, j3, j4⟩ := mergeStep_shape (p.foldl mergeStep (r, [])) a
    exact ⟨j1.trans i1, j2.trans i2, j3.trans i3, j4.trans i4⟩

theorem keys_attrs (r : Rec) : keys r.attrs = keys r.front ++ keys r.back := by simp [Rec.attrs]

/-- the attributes left over for appending: the new keys of the call, in order of first occurrence -/
theorem merge_unique_keys (r : Rec) (p : List KV) :
    keys (p.foldl mergeStep (r, [])).2 = firstKeys (p.filter (fun a => !(keys r.attrs).contains a.1)) := by
  induction p using snoc_ind with
  | h0 => simp
  | hs p a ih =>
    rw [merge_snoc]
    obtain ⟨s1, s2, _, _⟩ := merge_shape r p
    generalize hm : p.foldl mergeStep (r, []) = m at ih s1 s2
    rw [List.filter_append, List.filter_cons, List.filter_nil]
    unfold mergeStep
    simp only
    by_cases hu : hasKey a.1 m.2 = true
    · have hu' := (hasKey_iff _ _).mp hu
      rw [ih, mem_firstKeys] at hu'
      have hnk : a.1 ∉ keys r.attrs := by
        simp only [keys, List.mem_map, List.mem_filter] at hu'
        obtain ⟨x, ⟨_, hx⟩, hxa⟩ := hu'
        rw [← hxa]
        simpa [keys] using hx
      have hu'' : a.1 ∈ firstKeys (p.filter (fun a => !(keys r.attrs).contains a.1)) := by
        rw [mem_firstKeys]; exact hu'
      simp only [List.contains_eq_mem] at hu''
      simp [hu, hnk, keys_setKey, ih, firstKeys_snoc, hu'']
    · simp only [hu, Bool.false_eq_true, if_false]
      have hnu : a.1 ∉ firstKeys (p.filter (fun a => !(keys r.attrs).contains a.1)) := by
        rw [← ih]; exact fun hh => hu ((hasKey_iff _ _).mpr hh)
      by_cases hb : hasKey a.1 m.1.back = true
      · have : a.1 ∈ keys r.attrs := by
          rw [keys_attrs, ← s2]; exact List.mem_append_right _ ((hasKey_iff _ _).mp hb)
        simp [hb, this, ih]
      · by_cases hf : hasKey a.1 m.1.front = true
        · have : a.1 ∈ keys r.attrs := by
            rw [keys_attrs, ← s1]; exact List.mem_append_left _ ((hasKey_iff _ _).mp hf)
          simp [hb, hf, this, ih]
        · have : a.1 ∉ keys r.attrs := by
            rw [keys_attrs, ← s1, ← s2]
            intro hh
            rcases List.mem_append.mp hh with h | h
            · exact hf ((hasKey_iff _ _).mpr h)
            · exact hb ((hasKey_iff _ _).mpr h)
          simp only [List.contains_eq_mem] at hnu
          simp [hb, hf, this, ih, firstKeys_snoc, hnu]

theorem merge_wf (r : Rec) (p : List KV) (h : WF r) : WF (p.foldl mergeStep (r, [])).1 := by
  obtain ⟨s1, s2, _, _⟩ := merge_shape r p
  have l1 := congrArg List.length s1
  have l2 := congrArg List.length s2
  simp only [keys_length] at l1 l2
  obtain ⟨h1, h2⟩ := h
  refine ⟨by omega, ?_⟩
  intro hlt
  have := h2 (by omega)
  rw [this] at l2
  simpa using l2

theorem merge_attrs_keys (r : Rec) (p : List KV) : keys (p.foldl mergeStep (r, [])).1.attrs = keys r.attrs := by
  obtain ⟨s1, s2, _, _⟩ := merge_shape r p
  rw [keys_attrs, keys_attrs, s1, s2]

/-! ### keys invariant: the record holds the first `cl` distinct keys offered since the last SetAttributes -/

/-- the attributes offered since the last SetAttributes, after one more call -/
def offStep (off : List KV) : Op → List KV
  | .set l => l
  | .add l => off ++ l

theorem epoch_snoc (ops : List Op) (op : Op) : epoch (ops ++ [op]) = epochStep (epoch ops) op := by
  simp [epoch, List.foldl_append]

theorem offered_snoc (ops : List Op) (op : Op) : offered (ops ++ [op]) = offStep (offered ops) op := by
  unfold offered
  rw [epoch_snoc]
  cases op <;> simp [epochStep, offStep]

theorem run_snoc (cl ll : Int) (ops : List Op) (op : Op) : run cl ll (ops ++ [op]) = step (run cl ll ops) op := by
  simp [run, List.foldl_append]

structure KeysInv (off : List KV) (r : Rec) : Prop where
  wf : WF r
  keys : keys r.attrs = capKeys r.cl (firstKeys off)

theorem capKeys_eq_nil {β : Type} (cl : Int) (l : List β) (h : capKeys cl l = []) : l = [] := by
  unfold capKeys at h
  split at h
  · rename_i hc
    cases l with
    | nil => rfl
    | cons a t =>
      have : cl.toNat = (cl.toNat - 1) + 1 := by omega
      rw [this] at h; simp at h
  · exact h

theorem keys_addAttrs (r : Rec) (xs : List KV) (h : WF r) : keys (addAttrs r xs).attrs = keys r.attrs ++ keys xs := by
  rw [addAttrs_attrs r xs h, keys_append, keys_applyAll]

theorem keys_set_result (cl ll : Int) (xs : List KV) :
    keys (applyAll ll (head (dedup xs).1 cl).1).1 = capKeys cl (firstKeys xs) := by
  rw [keys_applyAll, head_fst, keys_capKeys, keys_dedup]

theorem setAttributes_inv (xs : List KV) (r : Rec) : KeysInv xs (setAttributes r xs) := by
  refine ⟨setAttributes_wf r xs, ?_⟩
  rw [setAttributes_attrs, keys_set_result]
  rfl

theorem len_zero (r : Rec) (h : r.len = 0) : r.front = [] ∧ r.back = [] := by
  simp only [Rec.len] at h
  exact ⟨List.eq_nil_of_length_eq_zero (by omega), List.eq_nil_of_length_eq_zero (by omega)⟩

/-- an empty record has been offered nothing since the last SetAttributes -/
theorem off_nil_of_len_zero (off : List KV) (r : Rec) (h : KeysInv off r) (hn : r.len = 0) : off = [] := by
  obtain ⟨hf, hb⟩ := len_zero r hn
  have := h.keys
  simp only [Rec.attrs, hf, hb, List.append_nil, keys_nil] at this
  exact firstKeys_eq_nil _ (capKeys_eq_nil _ _ this.symm)

theorem take_cap_append (c : Nat) (F G : List Bytes) :
    (F ++ G).take c = F.take c ++ G.take (c - F.length) := List.take_append

theorem addAttributes_inv (off xs : List KV) (r : Rec) (h : KeysInv off r) : KeysInv (off ++ xs) (addAttributes r xs) := by
  unfold addAttributes
  simp only
  by_cases hn : r.len = 0
  · simp only [hn, if_true]
    obtain ⟨hf, hb⟩ := len_zero r hn
    have hoff := off_nil_of_len_zero off r h hn
    subst hoff
    have wf0 : WF { r with dropped := (dedup xs).2 + (head (dedup xs).1 r.cl).2, nested := 0 } := h.wf
    refine ⟨addAttrs_wf _ _ wf0, ?_⟩
    rw [addAttrs_attrs _ _ wf0]
    simp only [Rec.attrs, hf, hb, List.append_nil, List.nil_append]
    exact keys_set_result r.cl r.ll xs
  · simp only [hn, if_false]
    obtain ⟨s1, s2, s3, s4⟩ := merge_shape r xs
    have hu := merge_unique_keys r xs
    have hwf := merge_wf r xs h.wf
    have hk := merge_attrs_keys r xs
    generalize hm : xs.foldl mergeStep (r, []) = m at s1 s2 s3 s4 hu hwf hk
    have hK := h.keys
    have hlen : r.len = (keys r.attrs).length := by rw [len_eq, keys_length]
    have hFK := firstKeys_append off xs
    generalize hG : firstKeys (xs.filter (fun a => !(firstKeys off).contains a.1)) = G at hFK
    split
    · rename_i hc
      obtain ⟨hc1, hc2⟩ := hc
      have wf1 : WF { m.1 with dropped := m.1.dropped + (m.2.length - (r.cl - (r.len : Int)).toNat) } := hwf
      refine ⟨addAttrs_wf _ _ wf1, ?_⟩
      rw [keys_addAttrs _ _ wf1]
      show keys m.1.attrs ++ keys (m.2.take _) = capKeys m.1.cl _
      rw [hk, s3, hFK]
      have hkt : keys (m.2.take (r.cl - (r.len : Int)).toNat) = (keys m.2).take (r.cl - (r.len : Int)).toNat := by
        simp [keys, List.map_take]
      rw [hkt, hu]
      simp only [capKeys, hc1, if_true] at hK ⊢
      rw [take_cap_append]
      by_cases hsat : (firstKeys off).length ≤ r.cl.toNat
      · have e1 : (firstKeys off).take r.cl.toNat = firstKeys off := List.take_of_length_le hsat
        rw [e1] at hK ⊢
        rw [hK] at hu hlen ⊢
        rw [hG]
        congr 2
        omega
      · have hl : (keys r.attrs).length = r.cl.toNat := by
          rw [hK, List.length_take]; omega
        have z1 : (r.cl - (r.len : Int)).toNat = 0 := by omega
        have z2 : r.cl.toNat - (firstKeys off).length = 0 := by omega
        rw [z1, z2, hK]; simp
    · rename_i hc
      refine ⟨addAttrs_wf _ _ hwf, ?_⟩
      rw [keys_addAttrs _ _ hwf, hk]
      show _ = capKeys m.1.cl _
      rw [s3, hFK, hu]
      have hul : m.2.length = (firstKeys (xs.filter (fun a => !(keys r.attrs).contains a.1))).length := by
        rw [← hu, keys_length]
      by_cases hc1 : r.cl > 0
      · simp only [capKeys, hc1, if_true] at hK ⊢
        have hc2 : ¬ ((r.len : Int) + (m.2.length : Int) > r.cl) := fun hh => hc ⟨hc1, hh⟩
        rw [take_cap_append]
        by_cases hsat : (firstKeys off).length ≤ r.cl.toNat
        · have e1 : (firstKeys off).take r.cl.toNat = firstKeys off := List.take_of_length_le hsat
          rw [e1] at hK ⊢
          rw [hK] at hul hlen ⊢
          rw [hG] at hul ⊢
          congr 1
          rw [List.take_of_length_le]; omega
        · have hl : (keys r.attrs).length = r.cl.toNat := by
            rw [hK, List.length_take]; omega
          have z0 : m.2.length = 0 := by omega
          have z2 : r.cl.toNat - (firstKeys off).length = 0 := by omega
          have : firstKeys (xs.filter (fun a => !(keys r.attrs).contains a.1)) = [] :=
            List.eq_nil_of_length_eq_zero (by omega)
          rw [this, z2, hK]; simp
      · simp only [capKeys, hc1, if_false] at hK ⊢
        rw [hK, hG]

theorem step_inv (off : List KV) (r : Rec) (op : Op) (h : KeysInv off r) : KeysInv (offStep off op) (step r op) := by
  cases op with
  | set l => exact setAttributes_inv l r
  | add l => exact addAttributes_inv off l r h

theorem addAttributes_limits (r : Rec) (xs : List KV) : (addAttributes r xs).cl = r.cl ∧ (addAttributes r xs).ll = r.ll := by
  unfold addAttributes
  obtain ⟨_, _, s3, s4⟩ := merge_shape r xs
  simp only
  split
  · simp [addAttrs]
  · split <;> simp [addAttrs, s3, s4]

theorem step_limits (r : Rec) (op : Op) : (step r op).cl = r.cl ∧ (step r op).ll = r.ll := by
  cases op with
  | set l => simp [step, setAttributes]
  | add l => exact addAttributes_limits r l

theorem run_limits (cl ll : Int) (ops : List Op) : (run cl ll ops).cl = cl ∧ (run cl ll ops).ll = ll := by
  induction ops using snoc_ind with
  | h0 => simp [run, Rec.new]
  | hs ops op ih =>
    rw [run_snoc]
    obtain ⟨a, b⟩ := step_limits (run cl ll ops) op
    exact ⟨a.trans ih.1, b.trans ih.2⟩

theorem run_inv (cl ll : Int) (ops : List Op) : KeysInv (offered ops) (run cl ll ops) := by
  induction ops using snoc_ind with
  | h0 =>
    refine ⟨by simp [WF, run, Rec.new], ?_⟩
    simp [run, Rec.new, Rec.attrs, offered, epoch, capKeys]
  | hs ops op ih =>
    rw [run_snoc, offered_snoc]
    exact step_inv _ _ _ ih

/-! ### accounting -/

theorem setKey_length {α : Type} (k : Bytes) (a : Bytes × α) (u : List (Bytes × α)) : (setKey k a u).length = u.length := by
  induction u with
  | nil => rfl
  | cons x t ih => simp only [setKey]; split <;> simp [ih]

theorem overwriteLast_length (k : Bytes) (a : KV) (l : List KV) : (overwriteLast k a l).length = l.length := by
  induction l with
  | nil => rfl
  | cons x t ih =>
    simp only [overwriteLast]
    split
    · simp [ih]
    · split <;> simp

theorem mergeStep_acc (m : Rec × List KV) (a : KV) :
    (mergeStep m a).1.dropped + (mergeStep m a).2.length + m.1.nested
      = m.1.dropped + m.2.length + 1 + (mergeStep m a).1.nested ∧ m.1.nested ≤ (mergeStep m a).1.nested := by
  unfold mergeStep
  simp only
  split
  · simp [setKey_length]; omega
  · split
    · simp; omega
    · split
      · simp; omega
      · simp; omega

theorem merge_acc (r : Rec) (p : List KV) :
    (p.foldl mergeStep (r, [])).1.dropped + (p.foldl mergeStep (r, [])).2.length + r.nested
      = r.dropped + p.length + (p.foldl mergeStep (r, [])).1.nested ∧ r.nested ≤ (p.foldl mergeStep (r, [])).1.nested := by
  induction p using snoc_ind with
  | h0 => simp
  | hs p a ih =>
    rw [merge_snoc]
    have := mergeStep_acc (p.foldl mergeStep (r, [])) a
    simp only [List.length_append, List.length_singleton]
    omega

theorem addAttrs_len (r : Rec) (xs : List KV) : (addAttrs r xs).len = r.len + xs.length := by
  simp only [addAttrs, Rec.len, List.length_append, List.length_take, List.length_drop, applyAll_length]
  omega

theorem merge_len (r : Rec) (p : List KV) : (p.foldl mergeStep (r, [])).1.len = r.len := by
  obtain ⟨s1, s2, _, _⟩ := merge_shape r p
  have l1 := congrArg List.length s1
  have l2 := congrArg List.length s2
  simp only [keys_length] at l1 l2
  simp [Rec.len, l1, l2]

/-- count + dropped = offered + nested, since the last SetAttributes -/
def AccInv (off : List KV) (r : Rec) : Prop := r.len + r.dropped = off.length + r.nested

theorem fresh_acc (r : Rec) (xs : List KV) (hn : r.len = 0) :
    let r' := addAttrs { r with dropped := (dedup xs).2 + (head (dedup xs).1 r.cl).2, nested := 0 } (head (dedup xs).1 r.cl).1
    r'.len + r'.dropped = xs.length + r'.nested := by
  intro r'
  have h1 := dedup_count xs
  have h2 := head_count (dedup xs).1 r.cl
  have h3 := addAttrs_len { r with dropped := (dedup xs).2 + (head (dedup xs).1 r.cl).2, nested := 0 } (head (dedup xs).1 r.cl).1
  have h4 := addAttrs_fields { r with dropped := (dedup xs).2 + (head (dedup xs).1 r.cl).2, nested := 0 } (head (dedup xs).1 r.cl).1
  have h5 : ({ r with dropped := (dedup xs).2 + (head (dedup xs).1 r.cl).2, nested := 0 } : Rec).len = 0 := hn
  simp only at h4
  show (addAttrs _ _).len + (addAttrs _ _).dropped = xs.length + (addAttrs _ _).nested
  rw [h3, h4.2.2.1, h4.2.2.2, h5]
  omega

theorem setAttributes_acc (r : Rec) (xs : List KV) : AccInv xs (setAttributes r xs) := by
  have h1 := dedup_count xs
  have h2 := head_count (dedup xs).1 r.cl
  simp only [AccInv, setAttributes, Rec.len, List.length_take, List.length_drop, applyAll_length]
  omega

theorem addAttributes_acc (off xs : List KV) (r : Rec) (hk : KeysInv off r) (h : AccInv off r) :
    AccInv (off ++ xs) (addAttributes r xs) := by
  unfold addAttributes
  simp only
  by_cases hn : r.len = 0
  · simp only [hn, if_true]
    have hoff := off_nil_of_len_zero off r hk hn
    subst hoff
    simpa [AccInv] using fresh_acc r xs hn
  · simp only [hn, if_false]
    have ha := merge_acc r xs
    have hl := merge_len r xs
    generalize hm : xs.foldl mergeStep (r, []) = m at ha hl
    unfold AccInv at h ⊢
    split
    · rename_i hc
      have h3 := addAttrs_len { m.1 with dropped := m.1.dropped + (m.2.length - (r.cl - (r.len : Int)).toNat) } (m.2.take (r.cl - (r.len : Int)).toNat)
      have h4 := addAttrs_fields { m.1 with dropped := m.1.dropped + (m.2.length - (r.cl - (r.len : Int)).toNat) } (m.2.take (r.cl - (r.len : Int)).toNat)
      have h5 : ({ m.1 with dropped := m.1.dropped + (m.2.length - (r.cl - (r.len : Int)).toNat) } : Rec).len = r.len := hl
      simp only at h4
      rw [h3, h4.2.2.1, h4.2.2.2, h5]
      simp only [List.length_take, List.length_append]
      omega
    · have h3 := addAttrs_len m.1 m.2
      have h4 := addAttrs_fields m.1 m.2
      rw [h3, h4.2.2.1, h4.2.2.2, hl]
      simp only [List.length_append]
      omega

theorem run_acc (cl ll : Int) (ops : List Op) : AccInv (offered ops) (run cl ll ops) := by
  induction ops using snoc_ind with
  | h0 => simp [AccInv, run, Rec.new, Rec.len, offered, epoch]
  | hs ops op ih =>
    rw [run_snoc, offered_snoc]
    cases op with
    | set l => exact setAttributes_acc _ l
    | add l => exact addAttributes_acc _ l _ (run_inv cl ll ops) ih

/-! ### every string the record holds is bounded -/

open Otel.Utf8 Otel.Trunc in
theorem truncate_eq_ref (limit : Int) (s : Bytes) : Trunc.truncate limit s = Trunc.refTrunc limit s := by
  unfold truncate refTrunc
  split
  · rfl
  · rw [fast_eq limit.toNat s (chunks s) [] 0 (by simp [flat_chunks]) (by omega)]
    simp

open Otel.Utf8 Otel.Trunc in
theorem valid_prefix_wf (s : Bytes) (n : Nat) :
    ∀ c ∈ ((chunks s).filter (fun c => !c.invalid)).take n, c.WF ∧ c.invalid = false := by
  intro c hc
  have h1 := List.mem_of_mem_take hc
  have h2 := List.mem_filter.mp h1
  exact ⟨chunks_wf s c h2.1, by simpa using h2.2⟩

open Otel.Utf8 Otel.Trunc in
theorem refTrunc_rune_bound (limit : Int) (s : Bytes) (h : ¬ (limit < 0 ∨ (s.length : Int) ≤ limit)) :
    (runeCount (refTrunc limit s) : Int) ≤ limit := by
  unfold refTrunc runeCount
  simp only [h, if_false]
  rw [chunks_flat _ (valid_prefix_wf s limit.toNat)]
  simp only [List.length_take]
  omega

open Otel.Utf8 in
theorem flat_length_ge (cs : List Chunk) (h : ∀ c ∈ cs, c.bytes ≠ []) : cs.length ≤ (flat cs).length := by
  induction cs with
  | nil => simp
  | cons c t ih =>
    have h1 := h c (by simp)
    have h2 := ih (fun c hc => h c (by simp [hc]))
    have : 1 ≤ c.bytes.length := by
      cases hb : c.bytes with
      | nil => exact absurd hb h1
      | cons _ _ => simp
    simp only [flat_cons, List.length_append, List.length_cons]
    omega

open Otel.Utf8 in
theorem runeCount_le_length (s : Bytes) : runeCount s ≤ s.length := by
  have := flat_length_ge (chunks s) (fun c hc => (chunks_wf s c hc).1)
  rw [flat_chunks] at this
  exact this

/-- the String case of applyValueLimits is the reference truncation -/
theorem applyStr_eq (ll : Int) (s : Bytes) : applyStr ll s = Trunc.refTrunc ll s := by
  unfold applyStr
  split
  · exact truncate_eq_ref ll s
  · rename_i h
    unfold Trunc.refTrunc
    have : (s.length : Int) ≤ ll := by omega
    simp [this]

theorem refTrunc_bounded (ll : Int) (s : Bytes) : (decide (ll < 0) || decide ((Utf8.runeCount (Trunc.refTrunc ll s) : Int) ≤ ll)) = true := by
  by_cases h : ll < 0 ∨ (s.length : Int) ≤ ll
  · rcases h with h | h
    · simp [h]
    · have h1 := runeCount_le_length s
      have : Trunc.refTrunc ll s = s := by simp [Trunc.refTrunc, h]
      rw [this]
      simp only [Bool.or_eq_true, decide_eq_true_eq]
      right; omega
  · have := refTrunc_rune_bound ll s h
    simp [this]

theorem listBounded_iff (ll : Int) (l : List LogVal) : listBounded ll l = true ↔ ∀ v ∈ l, valBounded ll v = true := by
  induction l with
  | nil => simp [listBounded]
  | cons v t ih => simp [listBounded, ih]

theorem kvsBounded_iff (ll : Int) (l : List (Bytes × LogVal)) : kvsBounded ll l = true ↔ ∀ x ∈ l, valBounded ll x.2 = true := by
  induction l with
  | nil => simp [kvsBounded]
  | cons x t ih => obtain ⟨k, v⟩ := x; simp [kvsBounded, ih]

theorem mem_setKey {α : Type} (k : Bytes) (a x : Bytes × α) (u : List (Bytes × α)) (h : x ∈ setKey k a u) : x = a ∨ x ∈ u := by
  induction u with
  | nil => simp [setKey] at h
  | cons y t ih =>
    simp only [setKey] at h
    split at h
    · simp only [List.mem_cons] at h ⊢; rcases h with h | h <;> simp [h]
    · simp only [List.mem_cons] at h ⊢
      rcases h with h | h
      · simp [h]
      · rcases ih h with h | h <;> simp [h]

theorem mem_overwriteLast (k : Bytes) (a x : KV) (l : List KV) (h : x ∈ overwriteLast k a l) : x = a ∨ x ∈ l := by
  induction l with
  | nil => simp [overwriteLast] at h
  | cons y t ih =>
    simp only [overwriteLast] at h
    split at h
    · simp only [List.mem_cons] at h ⊢
      rcases h with h | h
      · simp [h]
      · rcases ih h with h | h <;> simp [h]
    · split at h
      · simp only [List.mem_cons] at h ⊢; rcases h with h | h <;> simp [h]
      · exact Or.inr h

theorem mem_dedup {α : Type} (l : List (Bytes × α)) (x : Bytes × α) (h : x ∈ (dedup l).1) : x ∈ l := by
  induction l using snoc_ind with
  | h0 => simp [dedup] at h
  | hs l a ih =>
    rw [dedup_snoc] at h
    unfold dedupStep at h
    split at h
    · rcases mem_setKey _ _ _ _ h with h | h
      · simp [h]
      · simp [ih h]
    · simp only [List.mem_append, List.mem_singleton] at h ⊢
      rcases h with h | h
      · exact Or.inl (ih h)
      · exact Or.inr h

mutual
theorem applyVal_bounded (ll : Int) : ∀ v, valBounded ll (applyVal ll v).1 = true
  | .str s => by
    simp only [applyVal, valBounded]; rw [applyStr_eq]; exact refTrunc_bounded ll s
  | .slice l => by
    simp only [applyVal, valBounded]; exact applyList_bounded ll l
  | .map l => by
    simp only [applyVal, valBounded]
    rw [kvsBounded_iff]
    intro x hx
    simp only [List.mem_map] at hx
    obtain ⟨y, hy, rfl⟩ := hx
    exact applyKVs_bounded ll l y (mem_dedup _ _ hy)
  | .empty => by simp [applyVal, valBounded]
  | .bool _ => by simp [applyVal, valBounded]
  | .int _ => by simp [applyVal, valBounded]
  | .float _ => by simp [applyVal, valBounded]
  | .bytes _ => by simp [applyVal, valBounded]
theorem applyList_bounded (ll : Int) : ∀ l, listBounded ll (applyList ll l).1 = true
  | [] => by simp [applyList, listBounded]
  | v :: t => by
    simp only [applyList, listBounded, Bool.and_eq_true]
    exact ⟨applyVal_bounded ll v, applyList_bounded ll t⟩
theorem applyKVs_bounded (ll : Int) : ∀ l, ∀ x ∈ applyKVs ll l, valBounded ll x.2.1 = true
  | [] => by simp [applyKVs]
  | (k, v) :: t => by
    intro x hx
    simp only [applyKVs, List.mem_cons] at hx
    rcases hx with hx | hx
    · subst hx; exact applyVal_bounded ll v
    · exact applyKVs_bounded ll t x hx
end

/-- every attribute held has only bounded strings -/
def SB (r : Rec) : Prop := ∀ a ∈ r.attrs, valBounded r.ll a.2 = true

theorem applyAll_bounded (ll : Int) (xs : List KV) : ∀ a ∈ (applyAll ll xs).1, valBounded ll a.2 = true := by
  intro a ha
  simp only [applyAll, List.mem_map] at ha
  obtain ⟨y, _, rfl⟩ := ha
  exact applyVal_bounded ll y.2

theorem mergeStep_sb (m : Rec × List KV) (a : KV) (h : SB m.1) : SB (mergeStep m a).1 := by
  have hl := (mergeStep_shape m a).2.2.2
  unfold SB at h ⊢
  rw [hl]
  unfold mergeStep
  simp only
  split
  · exact h
  · split
    · intro x hx
      simp only [Rec.attrs, List.mem_append] at hx
      rcases hx with hx | hx
      · exact h x (by simp [Rec.attrs, hx])
      · rcases mem_overwriteLast _ _ _ _ hx with hx | hx
        · subst hx; exact applyVal_bounded _ _
        · exact h x (by simp [Rec.attrs, hx])
    · split
      · intro x hx
        simp only [Rec.attrs, List.mem_append] at hx
        rcases hx with hx | hx
        · rcases mem_overwriteLast _ _ _ _ hx with hx | hx
          · subst hx; exact applyVal_bounded _ _
          · exact h x (by simp [Rec.attrs, hx])
        · exact h x (by simp [Rec.attrs, hx])
      · exact h

theorem merge_sb (r : Rec) (p : List KV) (h : SB r) : SB (p.foldl mergeStep (r, [])).1 := by
  induction p using snoc_ind with
  | h0 => exact h
  | hs p a ih => rw [merge_snoc]; exact mergeStep_sb _ _ ih

theorem addAttrs_sb (r : Rec) (xs : List KV) (hw : WF r) (h : SB r) : SB (addAttrs r xs) := by
  unfold SB
  rw [addAttrs_attrs r xs hw, (addAttrs_fields r xs).2.1]
  intro a ha
  rcases List.mem_append.mp ha with ha | ha
  · exact h a ha
  · exact applyAll_bounded _ _ a ha

theorem step_sb (off : List KV) (r : Rec) (op : Op) (hk : KeysInv off r) (h : SB r) : SB (step r op) := by
  cases op with
  | set l =>
    unfold SB
    show ∀ a ∈ (setAttributes r l).attrs, valBounded r.ll a.2 = true
    rw [setAttributes_attrs]
    exact applyAll_bounded _ _
  | add l =>
    show SB (addAttributes r l)
    unfold addAttributes
    simp only
    split
    · exact addAttrs_sb _ _ hk.wf h
    · have hm := merge_sb r l h
      have hw := merge_wf r l hk.wf
      split
      · exact addAttrs_sb _ _ hw hm
      · exact addAttrs_sb _ _ hw hm

theorem run_sb (cl ll : Int) (ops : List Op) : SB (run cl ll ops) := by
  induction ops using snoc_ind with
  | h0 => intro a ha; simp [run, Rec.new, Rec.attrs] at ha
  | hs ops op ih => rw [run_snoc]; exact step_sb _ _ _ (run_inv cl ll ops) ih

/-! ### heap model: a call writes only to the record's own `back` array or to a fresh one -/

theorem getD_append_left (h : Heap) (x : List KV) (q : Nat) (hq : q < h.length) : (h ++ [x]).getD q [] = h.getD q [] := by
  simp [List.getD_eq_getElem?_getD, List.getElem?_append_left hq]

theorem getD_append_new (h : Heap) (x : List KV) : (h ++ [x]).getD h.length [] = x := by
  simp [List.getD_eq_getElem?_getD]

theorem getD_set_ne (h : Heap) (x : List KV) (p q : Nat) (hne : q ≠ p) : (h.set p x).getD q [] = h.getD q [] := by
  simp [List.getD_eq_getElem?_getD, List.getElem?_set_ne (Ne.symm hne)]

theorem getD_set_eq (h : Heap) (x : List KV) (p : Nat) (hp : p < h.length) : (h.set p x).getD p [] = x := by
  simp [List.getD_eq_getElem?_getD, hp]

theorem hStep_frame (s : Heap × HRec) (op : Op) (hp : s.2.backPtr < s.1.length) :
    s.1.length ≤ (hStep s op).1.length ∧ (hStep s op).2.backPtr < (hStep s op).1.length ∧
    ((hStep s op).2.backPtr = s.2.backPtr ∨ s.1.length ≤ (hStep s op).2.backPtr) ∧
    ∀ q, q < s.1.length → q ≠ s.2.backPtr → (hStep s op).1.getD q [] = s.1.getD q [] := by
  cases op with
  | set l =>
    simp only [hStep, hStore, List.length_append, List.length_singleton]
    refine ⟨by omega, by omega, Or.inr (Nat.le_refl _), ?_⟩
    intro q hq _
    exact getD_append_left _ _ _ hq
  | add l =>
    simp only [hStep, hStore, List.length_set]
    refine ⟨Nat.le_refl _, hp, by simp, ?_⟩
    intro q _ hne
    exact getD_set_ne _ _ _ _ hne

theorem hRun_frame (ops : List Op) (s : Heap × HRec) (hp : s.2.backPtr < s.1.length) (q : Nat)
    (hq : q < s.1.length) (hne : q ≠ s.2.backPtr) : (hRun s ops).1.getD q [] = s.1.getD q [] := by
  induction ops generalizing s with
  | nil => rfl
  | cons op t ih =>
    obtain ⟨f1, f2, f3, f4⟩ := hStep_frame s op hp
    show (hRun (hStep s op) t).1.getD q [] = _
    rw [ih (hStep s op) f2 (by omega) (by rcases f3 with h | h <;> omega)]
    exact f4 q hq hne

theorem rec_eta (r : Rec) : (⟨r.front, r.back, r.dropped, r.nested, r.cl, r.ll⟩ : Rec) = r := rfl

theorem hStep_load (s : Heap × HRec) (op : Op) (hp : s.2.backPtr < s.1.length) :
    load (hStep s op).1 (hStep s op).2 = step (load s.1 s.2) op := by
  have hl := step_limits (load s.1 s.2) op
  cases op with
  | set l =>
    simp only [hStep, hStore, load, getD_append_new]
    simp only [step, load] at hl ⊢
    rw [← rec_eta (setAttributes _ l), hl.1, hl.2]
  | add l =>
    simp only [hStep, hStore, load, getD_set_eq _ _ _ hp]
    simp only [step, load] at hl ⊢
    rw [← rec_eta (addAttributes _ l), hl.1, hl.2]

theorem hRun_load (ops : List Op) (s : Heap × HRec) (hp : s.2.backPtr < s.1.length) :
    load (hRun s ops).1 (hRun s ops).2 = ops.foldl step (load s.1 s.2) := by
  induction ops generalizing s with
  | nil => rfl
  | cons op t ih =>
    show load (hRun (hStep s op) t).1 (hRun (hStep s op) t).2 = t.foldl step (step (load s.1 s.2) op)
    rw [ih (hStep s op) (hStep_frame s op hp).2.1, hStep_load s op hp]

end Otel.C17
