/-
C17 — where a record's two limits come from: sdk/log/provider.go (`newProviderConfig`, `NewLoggerProvider`,
`WithAttributeCountLimit`, `WithAttributeValueLengthLimit`), sdk/log/setting.go (`setting`, `newSetting`, `Resolve`,
`getenv`, `fallback`) and `logger.newRecord` copying the provider's limits into the record. Core Lean only.

  Setting            setting[int]{Value, Set}
  applyOpt           the option closures: `cfg.attrCntLim = newSetting(limit)` / `cfg.attrValLenLim = newSetting(limit)`
  atoi               strconv.Atoi on a 64-bit platform: optional sign, at least one ASCII digit, nothing else, int64 range
  getenv             `if s.Set {return s}; if v := os.Getenv(key); v != "" { n, err := strconv.Atoi(v); if err == nil {s = {n, true}} }`
                     (an unset variable reads as ""; the error is reported to the global handler and otherwise ignored)
  fallback           `if !s.Set { s = {val, true} }`
  newProviderConfig  options in order, then Resolve(getenv, fallback) for each limit

External: the process environment (two parameters of the model).
-/
import Otel.C17.Model
namespace Otel.C17
open Otel

structure Setting where
  value : Int
  set : Bool
deriving DecidableEq, Repr

/-- a LoggerProviderOption that concerns the limits -/
inductive POpt where
  | cnt (n : Int)
  | len (n : Int)
deriving DecidableEq, Repr

/-- providerConfig (attrCntLim, attrValLenLim) -/
abbrev PCfg := Setting × Setting

def applyOpt (c : PCfg) : POpt → PCfg
  | .cnt n => (⟨n, true⟩, c.2)
  | .len n => (c.1, ⟨n, true⟩)

def isDigit (b : UInt8) : Bool := 0x30 ≤ b && b ≤ 0x39

/-- the value of a digit string, most significant first -/
def digitsVal (l : Bytes) : Nat := l.foldl (fun acc b => acc * 10 + (b.toNat - 0x30)) 0

/-- strconv.Atoi (int = int64): `some n` or an error (syntax or range) -/
def atoi (s : Bytes) : Option Int :=
  let (neg, ds) := match s with
    | 0x2d :: t => (true, t)
    | 0x2b :: t => (false, t)
    | t => (false, t)
  if ds.isEmpty || !ds.all isDigit then none
  else
    let v : Int := if neg then -(digitsVal ds : Int) else (digitsVal ds : Int)
    if v < -9223372036854775808 ∨ v > 9223372036854775807 then none else some v

def getenv (env : Bytes) (s : Setting) : Setting :=
  if s.set then s
  else if env.isEmpty then s
  else match atoi env with
    | none => s
    | some n => ⟨n, true⟩

def fallback (d : Int) (s : Setting) : Setting := if !s.set then ⟨d, true⟩ else s

def defaultAttrCntLim : Int := 128
def defaultAttrValLenLim : Int := -1

/-- `newProviderConfig` + `NewLoggerProvider`: (attributeCountLimit, attributeValueLengthLimit) of the provider, which
`logger.newRecord` copies into every record -/
def providerLimits (opts : List POpt) (envCnt envLen : Bytes) : Int × Int :=
  let c := opts.foldl applyOpt ((⟨0, false⟩, ⟨0, false⟩) : PCfg)
  ((fallback defaultAttrCntLim (getenv envCnt c.1)).value, (fallback defaultAttrValLenLim (getenv envLen c.2)).value)

/-- the record the processor receives for an emitted record with the attributes `attrs` -/
def emitted (opts : List POpt) (envCnt envLen : Bytes) (attrs : List KV) : Rec :=
  run (providerLimits opts envCnt envLen).1 (providerLimits opts envCnt envLen).2 (emitOps attrs)

namespace Spec

/-- the last option of each kind -/
def lastCnt (opts : List POpt) : Option Int :=
  opts.foldl (fun seen o => match o with | .cnt n => some n | _ => seen) none
def lastLen (opts : List POpt) : Option Int :=
  opts.foldl (fun seen o => match o with | .len n => some n | _ => seen) none

/-- the documented precedence: the option (the last one given) — else the environment variable when it holds an
integer — else the default -/
def limitFrom (opt : Option Int) (env : Bytes) (dflt : Int) : Int :=
  match opt with
  | some n => n
  | none => match (if env.isEmpty then none else atoi env) with
    | some n => n
    | none => dflt

def providerLimitsOK (opts : List POpt) (envCnt envLen : Bytes) (cl ll : Int) : Bool :=
  cl == limitFrom (lastCnt opts) envCnt 128 && ll == limitFrom (lastLen opts) envLen (-1)

/-- k distinct attributes offered through Emit: all kept, or the first `cl` kept and the rest counted -/
def emittedCountOK (cl : Int) (k len dropped : Nat) : Bool :=
  if cl > 0 ∧ (k : Int) > cl then (len : Int) == cl && len + dropped == k else len == k && dropped == 0

end Spec
end Otel.C17
