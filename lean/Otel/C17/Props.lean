/-
C17 — property theorems.  `run cl ll ops` is the model record after the script `ops` (any sequence of
SetAttributes/AddAttributes calls, `emitOps` for the calls made by logger.newRecord) on a fresh record
with limits `cl` (count) and `ll` (value length); `observe` is what WalkAttributes / AttributesLen /
DroppedAttributes show.  Every theorem holds for ALL limit pairs and ALL scripts; the conclusions are the
Spec predicates the driver evaluates on the implementation's observations.
-/
import Otel.C17.Script
namespace Otel.C17
open Otel Otel.C17.Spec

/-- "a log record holds each key at most once" -/
theorem rec_keys_unique (cl ll : Int) (ops : List Op) : keysUnique (observe (run cl ll ops)) = true := by
  have h := (run_inv cl ll ops).keys
  rw [keysUnique, decide_eq_true_eq]
  show (keys (run cl ll ops).attrs).Nodup
  rw [h]
  unfold capKeys
  split
  · exact (firstKeys_nodup _).sublist (List.take_sublist _ _)
  · exact firstKeys_nodup _

/-- "keeps at most the configured number of attributes" (a limit ≤ 0 means unlimited), and AttributesLen
is the number of attributes walked -/
theorem rec_count_bound (cl ll : Int) (ops : List Op) : countBound cl (observe (run cl ll ops)) = true := by
  have h := congrArg List.length (run_inv cl ll ops).keys
  rw [keys_length, (run_limits cl ll ops).1] at h
  rw [countBound, Bool.and_eq_true, beq_iff_eq, Bool.or_eq_true, decide_eq_true_eq, decide_eq_true_eq]
  show (run cl ll ops).len = (run cl ll ops).attrs.length ∧ (cl ≤ 0 ∨ ((run cl ll ops).attrs.length : Int) ≤ cl)
  refine ⟨len_eq _, ?_⟩
  by_cases hc : cl ≤ 0
  · exact Or.inl hc
  · right
    rw [h]
    have : cl > 0 := by omega
    simp only [capKeys, this, if_true, List.length_take]
    omega

/-- "with the earliest keys retained": the keys held are exactly the first `cl` distinct keys offered since
the last SetAttributes, in the order they were first offered -/
theorem rec_earliest_kept (cl ll : Int) (ops : List Op) : earliestKept cl ops (observe (run cl ll ops)) = true := by
  have h := (run_inv cl ll ops).keys
  rw [(run_limits cl ll ops).1] at h
  simp only [earliestKept, observe, beq_iff_eq]
  exact h

/-- "attribute count plus dropped count equals the number of attributes offered" since the last
SetAttributes — plus the nested map entries de-duplicated away inside the values written, which the code
also adds to the dropped count (`nested` is the model's ghost counter of exactly those) -/
theorem rec_accounting (cl ll : Int) (ops : List Op) :
    accountingWith (run cl ll ops).nested ops (observe (run cl ll ops)) = true := by
  have h := run_acc cl ll ops
  simpa [accountingWith, observe, AccInv] using h

/-- "every string value it holds, whether top-level or nested in slices and maps and whether newly added or
overwriting an existing key, holds at most the configured number of characters" -/
theorem rec_strings_bounded (cl ll : Int) (ops : List Op) : stringsBounded ll (observe (run cl ll ops)) = true := by
  have h := run_sb cl ll ops
  unfold SB at h
  rw [(run_limits cl ll ops).2] at h
  simpa [stringsBounded, observe] using h

/-- the string case of the limiter is the reference truncation: unchanged when there is no limit or the string
is short enough, otherwise its first `ll` valid characters, whole (never a split character) -/
theorem limit_string_whole_runes (ll : Int) (s : Bytes) :
    applyStr ll s = Trunc.refTrunc ll s ∧
    (¬ (ll < 0 ∨ (s.length : Int) ≤ ll) →
      (Utf8.chunks (applyStr ll s)).Sublist (Utf8.chunks s) ∧ Utf8.validString (applyStr ll s) = true) := by
  refine ⟨applyStr_eq ll s, ?_⟩
  intro h
  rw [applyStr_eq]
  unfold Trunc.refTrunc
  simp only [h, if_false]
  rw [Utf8.chunks_flat _ (valid_prefix_wf s ll.toNat)]
  refine ⟨(List.take_sublist _ _).trans List.filter_sublist, ?_⟩
  unfold Utf8.validString
  rw [Utf8.chunks_flat _ (valid_prefix_wf s ll.toNat)]
  simp only [List.all_eq_true]
  intro c hc
  simp [(valid_prefix_wf s ll.toNat c hc).2]

/-- the heap machine (records whose `back` is a pointer into a store of arrays) computes what the value
model computes: everything proved about `run`/`step` holds for records as they lie in memory -/
theorem heap_refines_pure (s : Heap × HRec) (ops : List Op) (hp : s.2.backPtr < s.1.length) :
    load (hRun s ops).1 (hRun s ops).2 = ops.foldl step (load s.1 s.2) := hRun_load ops s hp

/-- "a cloned record shares no mutable state with the original": after `c := r.Clone()` (struct copy +
`slices.Clone(r.back)`) the clone shows what the original shows, and whatever script of
SetAttributes/AddAttributes calls runs on one of them, the other one's view stays what it was -/
theorem clone_independent (h : Heap) (x : HRec) (hp : x.backPtr < h.length) (ops : List Op) :
    load (hClone (h, x)).1 (hClone (h, x)).2 = load h x ∧
    load (hRun (hClone (h, x)) ops).1 x = load h x ∧
    load (hRun ((hClone (h, x)).1, x) ops).1 (hClone (h, x)).2 = load h x := by
  refine ⟨?_, ?_, ?_⟩
  · simp [hClone, load]
  · have := hRun_frame ops (hClone (h, x)) (by simp [hClone]) x.backPtr (by simp [hClone]; omega) (by simp [hClone]; omega)
    simp only [load, this]
    simp only [hClone]
    rw [getD_append_left _ _ _ hp]
  · have := hRun_frame ops ((hClone (h, x)).1, x) (by simp [hClone]; omega) h.length (by simp [hClone]) (by simp; omega)
    simp only [load, hClone] at this ⊢
    rw [this, getD_append_new]

/-- without the `slices.Clone(r.back)` line (plain struct copy) the property fails: overwriting an overflow
attribute through the copy changes the original — the heap model is able to tell the difference -/
theorem shallow_copy_not_independent :
    let s := hRun ([[]], ⟨[], 0, 0, 0, -1, -1⟩)
      [Op.add [([1], .int 1), ([2], .int 2), ([3], .int 3), ([4], .int 4), ([5], .int 5), ([6], .int 6)]]
    let c := hCopy s
    beqKVs (load (hRun c [Op.add [([6], .int 9)]]).1 s.2).attrs (load s.1 s.2).attrs = false := by decide

/-- "with the value supplied last": every value held is `limitVal ll` (reference truncation of every string,
top-level or nested; nested maps de-duplicated, last value wins) of the value offered last for its key since
the last SetAttributes — whether the key was new in that call, overwrote an inline or an overflow attribute,
or was offered several times in one call -/
theorem rec_last_value (cl ll : Int) (ops : List Op) : lastValue ll ops (observe (run cl ll ops)) = true := by
  have h := run_lv cl ll ops
  unfold LV at h
  rw [(run_limits cl ll ops).2] at h
  simp only [lastValue, observe, List.all_eq_true]
  intro a ha
  obtain ⟨v, hv, he⟩ := h a ha
  rw [hv, he]
  exact LogVal.beq_refl _

/-- the limiter is the reference function on values, and the number of nested map entries it reports as
dropped is the reference count: `applyValueLimits` = (`limitVal`, `nestedDups`) for every value and limit -/
theorem limit_value_is_reference (ll : Int) (v : LogVal) : applyVal ll v = (limitVal ll v, nestedDups v) := by
  rw [← applyVal_fst, ← applyVal_snd ll v]

/-- "attribute count plus dropped count equals the number of attributes offered" since the last
SetAttributes, plus the nested map entries de-duplicated away inside the values actually written — that
term computed from the script alone (`Spec.nestedWritten`), not from the model's ghost counter -/
theorem rec_accounting_exact (cl ll : Int) (ops : List Op) : accounting cl ops (observe (run cl ll ops)) = true := by
  have h := rec_accounting cl ll ops
  rw [run_nested] at h
  exact h

/-- the statement's equation as worded (count + dropped = offered, nothing else) holds exactly when no value
written since the last SetAttributes lost a nested map entry to de-duplication (`nestedWritten = 0`) -/
theorem rec_accounting_plain_iff (cl ll : Int) (ops : List Op) :
    accountingPlain ops (observe (run cl ll ops)) = true ↔ nestedWritten cl ops = 0 := by
  have h1 := rec_accounting_exact cl ll ops
  simp only [accounting, accountingPlain, beq_iff_eq] at h1 ⊢
  omega

/-- the weaker two-sided form of the accounting clause that needs no knowledge of which values were written:
offered ≤ count + dropped ≤ offered + nested duplicates of everything offered -/
theorem rec_accounting_bounds (cl ll : Int) (ops : List Op) : accountingBounds ops (observe (run cl ll ops)) = true := by
  have h1 := rec_accounting_exact cl ll ops
  have h2 := nestedWritten_le_offered cl ops
  simp only [accounting, accountingBounds, beq_iff_eq, Bool.and_eq_true, decide_eq_true_eq] at h1 ⊢
  omega

/-- all clauses about one record at once: the predicate the driver evaluates on every observed record
(`Spec.recordOK`) holds of the model for every pair of limits and every script -/
theorem rec_all_clauses (cl ll : Int) (ops : List Op) : recordOK cl ll ops (observe (run cl ll ops)) = true := by
  simp only [recordOK, Bool.and_eq_true]
  exact ⟨⟨⟨⟨⟨⟨rec_keys_unique cl ll ops, rec_count_bound cl ll ops⟩, rec_earliest_kept cl ll ops⟩,
    rec_last_value cl ll ops⟩, rec_strings_bounded cl ll ops⟩, rec_accounting_exact cl ll ops⟩,
    rec_accounting_bounds cl ll ops⟩

/-! non-vacuity: a script that overwrites an inline and an overflow attribute, reaches the count limit in
the middle of a call and truncates a nested string -/
example :
    let ops := [Op.add [([1], .int 1), ([2], .int 2), ([3], .int 3), ([4], .int 4), ([5], .int 5), ([6], .int 6)],
                Op.add [([6], .str [0x61, 0xC5, 0xA1, 0x62]), ([1], .slice [.str [0x61, 0x62, 0x63]]), ([7], .int 7), ([8], .int 8)]]
    beqKVs (run 7 2 ops).attrs [([1], .slice [.str [0x61, 0x62]]), ([2], .int 2), ([3], .int 3), ([4], .int 4), ([5], .int 5),
                           ([6], .str [0x61, 0xC5, 0xA1]), ([7], .int 7)] = true ∧ (run 7 2 ops).dropped = 3 := by decide

/-! non-vacuity for the two clauses above: a key offered twice in one call and again in a later call (inline
overwrite), a nested map with duplicate keys written (counted: 1) and one cut by the count limit (not counted) -/
example :
    let ops := [Op.set [([1], .int 1), ([2], .str [0x61, 0x62, 0x63]), ([1], .int 5)],
                Op.add [([2], .map [([7], .int 1), ([7], .str [0x61, 0x62, 0x63]), ([8], .int 2)]),
                        ([3], .int 3), ([4], .map [([9], .int 1), ([9], .int 2)])]]
    beqKVs (run 3 2 ops).attrs [([1], .int 5), ([2], .map [([7], .str [0x61, 0x62]), ([8], .int 2)]), ([3], .int 3)] = true ∧
    lastValue 2 ops (observe (run 3 2 ops)) = true ∧ nestedWritten 3 ops = 1 ∧ nestedOffered ops = 2 ∧
    (run 3 2 ops).dropped = 4 ∧ accounting 3 ops (observe (run 3 2 ops)) = true := by decide

end Otel.C17
