/-
C01 — no deadlock on the Shutdown path: in every reachable state in which Shutdown has been called and has
not yet returned, some internal step (a step of the worker, of the shutdown goroutine, or the return of the
exporter call in progress — never a new API call) is enabled. The exporter is assumed to return eventually
(its return labels are always enabled while it is busy); fairness/termination is not claimed.
-/
import Otel.C01.Lemmas3
namespace Otel.C01

/-- labels that are not new API calls (`accept`, `endUnsampled`, `ffCall`, `sdCall`, `sdCallLate`) nor context
cancellation -/
def Lbl.internal : Lbl → Bool
  | .accept _ | .endUnsampled _ | .ffCall _ | .sdCall | .sdCallLate _ | .ffCancel _ => false
  | _ => true

theorem shutdown_progress_of_inv (s : St) (hc : InvC s) (hsd : s.sd ≠ .none) (hret : s.sdRetOk = false) :
    ∃ l, l.internal = true ∧ (step s l).isSome = true := by
  -- the exporter call in progress can always return
  cases hb : s.busy with
  | some who =>
    cases who with
    | worker => exact ⟨.exportEnd true, rfl, by simp [step, hb]⟩
    | ff fid => exact ⟨.ffExportEndOk fid, rfl, by simp [step, hb]⟩
  | none =>
    cases hsdv : s.sd with
    | none => exact absurd hsdv hsd
    | called => exact ⟨.sdStore, rfl, by simp [step, hsdv]⟩
    | stored => exact ⟨.sdClose, rfl, by simp [step, hsdv]⟩
    | shut => exact ⟨.sdReturnOk, rfl, by simp [step, hsdv, hret]⟩
    | closed =>
      have hstop : s.stopClosed = true := hc.sdStop (Or.inl hsdv)
      cases hh : s.hand with
      | some id =>
        have hw := hc.handPhase (by simp [hh])
        rcases hw with hw | hw
        · exact ⟨.wAppend, rfl, by simp [step, hh, hb, hw]⟩
        · exact ⟨.wAppend, rfl, by simp [step, hh, hb, hw]⟩
      | none =>
        cases hw : s.w with
        | run => exact ⟨.wStop, rfl, by simp [step, hw, hh, hstop]⟩
        | pend => exact ⟨.wExportStart, rfl, by simp only [step, hw, hb]; split <;> (try split) <;> simp_all⟩
        | dpend => exact ⟨.wExportStart, rfl, by simp only [step, hw, hb]; split <;> (try split) <;> simp_all⟩
        | final => exact ⟨.wExportStart, rfl, by simp only [step, hw, hb]; split <;> (try split) <;> simp_all⟩
        | exited => exact ⟨.sdExporterShutdown, rfl, by simp [step, hsdv, hw]⟩
        | drain =>
          cases hq : s.queue with
          | nil => exact ⟨.wDrainEmpty, rfl, by simp [step, hw, hh, hq]⟩
          | cons x q =>
            cases x with
            | span id => exact ⟨.wRecv, rfl, by simp [step, hw, hh, hq]⟩
            | marker fid => exact ⟨.wRecv, rfl, by simp [step, hw, hh, hq]⟩

/-- the same for a Shutdown call that did not win `stopOnce`: while it has not returned, either the winner's
call is still in progress (and can make progress by the lemma above) or `stopOnce` is done and the call returns -/
theorem shutdown_progress_late (s : St) (hc : InvC s) (hl : InvL s) (c : SD) (hmem : c ∈ s.sds)
    (hret : c.ret = false) : ∃ l, l.internal = true ∧ (step s l).isSome = true := by
  cases hr : s.sdRetOk with
  | false => exact shutdown_progress_of_inv s hc (hl.called (List.ne_nil_of_mem hmem)) hr
  | true =>
    refine ⟨.sdReturnLate c.cid, rfl, ?_⟩
    simp only [step, hr, List.any_eq_true, decide_eq_true_eq, true_and]
    rw [if_pos ⟨c, hmem, rfl, hret⟩]
    rfl

end Otel.C01
