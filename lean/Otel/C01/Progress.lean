/-
C01 — no deadlock on the Shutdown path: in every reachable state in which Shutdown has been called and has
not yet returned, some internal step (a step of the worker, of the shutdown goroutine, or the return of the
exporter call in progress — never a new API call) is enabled. The exporter is assumed to return eventually
(its return labels are always enabled while it is busy); fairness/termination is not claimed.
-/
import Otel.C01.Lemmas3
namespace Otel.C01

/-- labels that are not new API calls (`accept`, `endUnsampled`, `ffCall`, `sdCall`, `sdCallLate`) nor context
cancellation -/
def Lbl.internal : Lbl → Bool
  | .accept _ | .endUnsampled _ | .ffCall _ | .sdCall | .sdCallLate _ | .ffCancel _ | .sdTimeout => false
  | _ => true

theorem shutdown_progress_of_inv (s : St) (hc : InvC s) (hsd : s.sd ≠ .none) (hret : s.sdRetOk = false)
    (hrete : s.sdRetErr = false) :
    ∃ l, l.internal = true ∧ (step s l).isSome = true := by
  -- the exporter call in progress can always return
  cases hb : s.busy with
  | some who =>
    cases who with
    | worker => exact ⟨.exportEnd true, rfl, by simp [step, hb]⟩
    | ff fid => exact ⟨.ffExportEndOk fid, rfl, by simp [step, hb]⟩
  | none =>
    cases hsdv : s.sd with
    | none => exact absurd hsdv hsd
    | called => exact ⟨.sdStore, rfl, by simp [step, hsdv]⟩
    | stored => exact ⟨.sdClose, rfl, by simp [step, hsdv]⟩
    | shut => exact ⟨.sdReturnOk, rfl, by simp [step, hsdv, hret, hrete]⟩
    | closed =>
      have hstop : s.stopClosed = true := hc.sdStop (Or.inl hsdv)
      cases hh : s.hand with
      | some id =>
        have hw := hc.handPhase (by simp [hh])
        rcases hw with hw | hw
        · exact ⟨.wAppend, rfl, by simp [step, hh, hb, hw]⟩
        · exact ⟨.wAppend, rfl, by simp [step, hh, hb, hw]⟩
      | none =>
        cases hw : s.w with
        | run => exact ⟨.wStop, rfl, by simp [step, hw, hh, hstop]⟩
        | pend => exact ⟨.wExportStart, rfl, by simp only [step, hw, hb]; split <;> (try split) <;> simp_all⟩
        | dpend => exact ⟨.wExportStart, rfl, by simp only [step, hw, hb]; split <;> (try split) <;> simp_all⟩
        | final => exact ⟨.wExportStart, rfl, by simp only [step, hw, hb]; split <;> (try split) <;> simp_all⟩
        | exited => exact ⟨.sdExporterShutdown, rfl, by simp [step, hsdv, hw]⟩
        | drain =>
          cases hq : s.queue with
          | nil => exact ⟨.wDrainEmpty, rfl, by simp [step, hw, hh, hq]⟩
          | cons x q =>
            cases x with
            | span id => exact ⟨.wRecv, rfl, by simp [step, hw, hh, hq]⟩
            | marker fid => exact ⟨.wRecv, rfl, by simp [step, hw, hh, hq]⟩

/-- the same for a Shutdown call that did not win `stopOnce`: while it has not returned, either the winner's
call is still in progress (and can make progress by the lemma above) or `stopOnce` is done and the call returns -/
theorem shutdown_progress_late (s : St) (hc : InvC s) (hl : InvL s) (c : SD) (hmem : c ∈ s.sds)
    (hret : c.ret = false) : ∃ l, l.internal = true ∧ (step s l).isSome = true := by
  have late : (s.sdRetOk = true ∨ s.sdRetErr = true) → (step s (.sdReturnLate c.cid)).isSome = true := by
    intro h
    simp only [step, List.any_eq_true, decide_eq_true_eq]
    rw [if_pos ⟨h, c, hmem, rfl, hret⟩]
    rfl
  cases hr : s.sdRetOk with
  | false =>
    cases hre : s.sdRetErr with
    | false => exact shutdown_progress_of_inv s hc (hl.called (List.ne_nil_of_mem hmem)) hr hre
    | true => exact ⟨.sdReturnLate c.cid, rfl, late (Or.inr hre)⟩
  | true => exact ⟨.sdReturnLate c.cid, rfl, late (Or.inl hr)⟩

/-- the shutdown goroutine (close(stopCh); stopWait.Wait(); exporter.Shutdown; close(wait)) never waits for something
that cannot happen, whether or not the Shutdown call that started it is still waiting for it — in particular after that
call has returned its context's error (`sdTimeout`): while the exporter has not been shut down some internal step is
enabled -/
theorem drain_progress_of_inv (s : St) (hc : InvC s) (hsd : s.sd ≠ .none) (hshut : s.sd ≠ .shut) :
    ∃ l, l.internal = true ∧ l ≠ .sdReturnOk ∧ l ≠ .sdTimeout ∧ (step s l).isSome = true := by
  cases hb : s.busy with
  | some who =>
    cases who with
    | worker => exact ⟨.exportEnd true, rfl, by simp, by simp, by simp [step, hb]⟩
    | ff fid => exact ⟨.ffExportEndOk fid, rfl, by simp, by simp, by simp [step, hb]⟩
  | none =>
    cases hsdv : s.sd with
    | none => exact absurd hsdv hsd
    | called => exact ⟨.sdStore, rfl, by simp, by simp, by simp [step, hsdv]⟩
    | stored => exact ⟨.sdClose, rfl, by simp, by simp, by simp [step, hsdv]⟩
    | shut => exact absurd hsdv hshut
    | closed =>
      have hstop : s.stopClosed = true := hc.sdStop (Or.inl hsdv)
      cases hh : s.hand with
      | some id =>
        have hw := hc.handPhase (by simp [hh])
        rcases hw with hw | hw
        · exact ⟨.wAppend, rfl, by simp, by simp, by simp [step, hh, hb, hw]⟩
        · exact ⟨.wAppend, rfl, by simp, by simp, by simp [step, hh, hb, hw]⟩
      | none =>
        cases hw : s.w with
        | run => exact ⟨.wStop, rfl, by simp, by simp, by simp [step, hw, hh, hstop]⟩
        | pend => exact ⟨.wExportStart, rfl, by simp, by simp, by simp only [step, hw, hb]; split <;> (try split) <;> simp_all⟩
        | dpend => exact ⟨.wExportStart, rfl, by simp, by simp, by simp only [step, hw, hb]; split <;> (try split) <;> simp_all⟩
        | final => exact ⟨.wExportStart, rfl, by simp, by simp, by simp only [step, hw, hb]; split <;> (try split) <;> simp_all⟩
        | exited => exact ⟨.sdExporterShutdown, rfl, by simp, by simp, by simp [step, hsdv, hw]⟩
        | drain =>
          cases hq : s.queue with
          | nil => exact ⟨.wDrainEmpty, rfl, by simp, by simp, by simp [step, hw, hh, hq]⟩
          | cons x q =>
            cases x with
            | span id => exact ⟨.wRecv, rfl, by simp, by simp, by simp [step, hw, hh, hq]⟩
            | marker fid => exact ⟨.wRecv, rfl, by simp, by simp, by simp [step, hw, hh, hq]⟩

end Otel.C01
