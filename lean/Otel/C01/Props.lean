/-
C01 — property theorems about the batch span processor LTS (Model.lean), for every reachable state,
i.e. every interleaving of any number of producers, ForceFlush callers, the worker and Shutdown,
every queue capacity, every batch size ≥ 1, blocking or not, every exporter result and delay, and
the batch timer firing at any moment.
-/
import Otel.C01.Lemmas3
import Otel.C01.Progress
import Otel.C01.Spec
namespace Otel.C01

variable {cap maxB : Nat} {blocking : Bool}

/-- S1 — no span is ever exported twice (`Spec.noDuplicate` of the exporter's log). -/
theorem bsp_no_duplicate (hpos : 1 ≤ maxB) (s : St) (h : Reachable cap maxB blocking s) :
    Spec.noDuplicate s.exported = true := by
  have hi := (inv_reachable cap maxB blocking hpos s h).a
  simp only [Spec.noDuplicate, decide_eq_true_eq]
  rw [List.nodup_iff_count]
  intro a
  have h1 := hi.cnt a
  have h2 := (List.nodup_iff_count.mp hi.nodup) a
  simp only [allIds, List.count_append] at h1
  omega

/-- conservation: every accepted span id is in exactly one place (in flight to the queue, queued, in the
worker's hand, in the batch, in the exporter's log, or counted as dropped). -/
theorem bsp_conservation (hpos : 1 ≤ maxB) (s : St) (h : Reachable cap maxB blocking s) (a : Nat) :
    (allIds s).count a = (if a ∈ s.accepted then 1 else 0) := by
  have hi := (inv_reachable cap maxB blocking hpos s h).a
  rw [hi.cnt a]
  split
  · rename_i hm
    have := (List.nodup_iff_count.mp hi.nodup) a
    have hp : 0 < s.accepted.count a := List.count_pos_iff.mpr hm
    omega
  · rename_i hm
    exact List.count_eq_zero.mpr hm

/-- S2 — no export batch is larger than the configured maximum. -/
theorem bsp_batch_bound (hpos : 1 ≤ maxB) (s : St) (h : Reachable cap maxB blocking s) :
    Spec.batchBound s.maxB s.exported = true := by
  have hi := (inv_reachable cap maxB blocking hpos s h).b
  simp only [Spec.batchBound, List.all_eq_true, decide_eq_true_eq]
  exact hi.expB

/-- S6 — only spans whose `OnEnd` was called (sampled, before the processor was stopped) are exported. -/
theorem bsp_only_ended_sampled (hpos : 1 ≤ maxB) (s : St) (h : Reachable cap maxB blocking s) :
    Spec.onlyEnded s.exported s.accepted = true := by
  have hi := (inv_reachable cap maxB blocking hpos s h).a
  simp only [Spec.onlyEnded, List.all_eq_true, List.contains_iff_mem]
  intro a ha
  have h1 := hi.cnt a
  have hp : 0 < s.exported.flatten.count a := List.count_pos_iff.mpr ha
  simp only [allIds, List.count_append] at h1
  exact List.count_pos_iff.mp (by omega)

/-- S3 — the exporter is entered only while nobody else is inside it (the step that appends to the
exporter's log starts from a state where the batch mutex is free and takes it), and the exporter's
`Shutdown` is called only when no `ExportSpans` call is in progress and none can start any more. -/
theorem bsp_exporter_exclusive (hpos : 1 ≤ maxB) (s s' : St) (l : Lbl) (h : Reachable cap maxB blocking s)
    (hs : step s l = some s') :
    (s'.exported ≠ s.exported → s.busy = none ∧ s'.busy ≠ none) ∧
    (l = .sdExporterShutdown → s.busy = none ∧ s.batch = [] ∧ s.hand = none ∧ s.w = .exited) := by
  have hc := (inv_reachable cap maxB blocking hpos s h).c
  constructor
  · intro hne
    cases l <;> simp only [step] at hs
    all_goals (
      repeat' (split at hs)
      all_goals (try (simp at hs))
      all_goals (try subst hs)
      all_goals (first | (exfalso; exact hne rfl) | simp_all))
  · intro hl
    subst hl
    simp only [step] at hs
    split at hs
    · rename_i hg
      have := hc.exitedClean hg.2
      exact ⟨this.2.1, this.1, this.2.2, hg.2⟩
    · simp at hs

/-- S4 — nothing is exported after `Shutdown` has returned nil: from then on no step changes the
exporter's log. -/
theorem bsp_quiet_after_shutdown (hpos : 1 ≤ maxB) (s s' : St) (l : Lbl) (h : Reachable cap maxB blocking s)
    (hret : s.sdRetOk = true) (hs : step s l = some s') : s'.exported = s.exported ∧ s'.sdRetOk = true := by
  have hc := (inv_reachable cap maxB blocking hpos s h).c
  have hw := hc.shutExited (hc.retSd hret)
  have hcl := hc.exitedClean hw
  cases l <;> simp only [step] at hs
  all_goals (
    repeat' (split at hs)
    all_goals (try (simp at hs))
    all_goals (try subst hs)
    all_goals (first | exact ⟨rfl, hret⟩ | simp_all))

/-- S5 for `Shutdown` — when `Shutdown` has returned nil, every span whose `End` had returned before
`Shutdown` was called is in the exporter's log or was counted as dropped; and spans are dropped only in
non-blocking mode. -/
theorem bsp_shutdown_delivers (hpos : 1 ≤ maxB) (s : St) (h : Reachable cap maxB blocking s)
    (hret : s.sdRetOk = true) :
    (∀ id ∈ s.sdPre, id ∈ s.exported.flatten ∨ id ∈ s.droppedIds) ∧ (s.droppedIds ≠ [] → s.blocking = false) := by
  have hi := inv_reachable cap maxB blocking hpos s h
  have hw := hi.c.shutExited (hi.c.retSd hret)
  exact ⟨hi.f.exitedOK hw, hi.d.dropNB⟩

/-- no deadlock on the Shutdown path — in every reachable state in which `Shutdown` has been called and has not
yet returned, some internal step is enabled (a step of the worker or of the shutdown goroutine, or the return
of the exporter call in progress): Shutdown never waits for something that cannot happen. The exporter is
assumed to return eventually; fairness (hence termination) is not claimed. -/
theorem bsp_shutdown_never_stuck (hpos : 1 ≤ maxB) (s : St) (h : Reachable cap maxB blocking s)
    (hsd : s.sd ≠ .none) (hret : s.sdRetOk = false) :
    ∃ l, l.internal = true ∧ (step s l).isSome = true :=
  shutdown_progress_of_inv s (inv_reachable cap maxB blocking hpos s h).c hsd hret

/-- F22 exclusion predicate: this ForceFlush returned nil through one of the two early exits taken when a
Shutdown is in progress (`stopped` already set, or `stopCh` winning the select). -/
def F22_applies (f : FF) : Bool := f.ph == .retEarly

/-- S5 for `ForceFlush`, partial: when a ForceFlush has returned nil after its own export (i.e. not through
the early exits of F22), every span whose `End` had returned before it was called is in the exporter's log
or was counted as dropped. -/
theorem bsp_forceflush_delivers_partial (hpos : 1 ≤ maxB) (s : St) (h : Reachable cap maxB blocking s)
    (f : FF) (hf : f ∈ s.ffs) (hret : f.ph = .retOk) :
    ∀ id ∈ f.pre, id ∈ s.exported.flatten ∨ id ∈ s.droppedIds := by
  have hi := (inv_reachable cap maxB blocking hpos s h).e.ok f hf
  unfold ffOK at hi
  simp only [hret] at hi
  exact hi

/-- the full statement of S5 for ForceFlush (every nil return, including the early exits) — NOT a theorem
of the current code, see the witness below -/
def bsp_forceflush_delivers_full_statement : Prop :=
  ∀ (cap maxB : Nat) (blocking : Bool), 1 ≤ maxB → ∀ s, Reachable cap maxB blocking s →
    ∀ f ∈ s.ffs, (f.ph = .retOk ∨ f.ph = .retEarly) → ∀ id ∈ f.pre, id ∈ s.exported.flatten ∨ id ∈ s.droppedIds

/-- the schedule of F22: two spans are queued, the worker is inside the exporter with the first one,
Shutdown is called, a ForceFlush then returns nil at once although span 2 has not been exported. -/
def f22Schedule : List Lbl :=
  [.accept 1, .send 1, .accept 2, .send 2, .wRecv, .wAppend, .wExportStart, .sdCall, .sdStore,
   .ffCall 7, .ffCheck 7]

theorem bsp_forceflush_early_return_witness :
    ∃ s, run (init 4 1 false) f22Schedule = some s ∧
      ∃ f ∈ s.ffs, F22_applies f = true ∧ ∃ id ∈ f.pre, ¬ (id ∈ s.exported.flatten ∨ id ∈ s.droppedIds) := by
  refine ⟨_, rfl, ?_⟩
  decide

theorem run_reachable (s : St) (ls : List Lbl) (s' : St) (h : Reachable cap maxB blocking s)
    (hr : run s ls = some s') : Reachable cap maxB blocking s' := by
  induction ls generalizing s with
  | nil => simp [run] at hr; subst hr; exact h
  | cons l ls ih =>
    simp only [run] at hr
    split at hr
    · rename_i s1 hs1
      exact ih s1 (Reachable.step l h hs1) hr
    · simp at hr

/-- hence the full statement is false for the model of the current code -/
theorem bsp_forceflush_full_statement_refuted : ¬ bsp_forceflush_delivers_full_statement := by
  intro hfull
  obtain ⟨s, hrun, f, hf, hF, id, hid, hno⟩ := bsp_forceflush_early_return_witness
  have hreach : Reachable 4 1 false s := run_reachable _ _ _ Reachable.init hrun
  have : f.ph = .retEarly := by simpa [F22_applies] using hF
  exact hno (hfull 4 1 false (by omega) s hreach f hf (Or.inr this) id hid)

/-- non-vacuity: a reachable state with two exports (one by the worker because the batch is full, one by
a ForceFlush that returned nil normally), one dropped span and a completed Shutdown. -/
def demoSchedule : List Lbl :=
  [.accept 1, .send 1, .accept 2, .send 2, .accept 3, .send 3,      -- cap 2: span 3 is dropped
   .wRecv, .wAppend, .wRecv, .wAppend, .wExportStart, .exportEnd,    -- batch [1,2] exported by the worker
   .accept 4, .send 4, .ffCall 1, .ffCheck 1, .ffEnqueue 1, .wRecv, .wAppend, .wRecv,
   .ffExportStart 1, .ffExportEndOk 1,                               -- [4] exported by the ForceFlush
   .sdCall, .sdStore, .sdClose, .wStop, .wDrainEmpty, .wExportStart, .sdExporterShutdown, .sdReturnOk]

example : ∃ s, run (init 2 2 false) demoSchedule = some s ∧ s.exported = [[1, 2], [4]] ∧ s.droppedIds = [3] ∧
    s.sdRetOk = true ∧ s.ffs.any (fun f => f.ph == .retOk && f.pre == [4, 3, 2, 1]) = true := by
  refine ⟨_, rfl, ?_⟩
  decide

end Otel.C01
