/-
C01 — property theorems about the batch span processor LTS (Model.lean), for every reachable state,
i.e. every interleaving of any number of producers (sampled and unsampled spans), ForceFlush callers and
Shutdown callers (`sync.Once`: one winner, the others wait for it) and the worker, every queue capacity, every
batch size ≥ 1, blocking or not, every exporter result (nil, error, export-timeout deadline) and delay, and the
batch timer firing at any moment.
-/
import Otel.C01.Lemmas3
import Otel.C01.Progress
import Otel.C01.Spec
import Otel.C01.HistorySim
import Otel.C01.Stuck
import Otel.C01.Timeout
import Otel.C01.Fifo
import Otel.C01.Work
import Otel.C01.HistF47
namespace Otel.C01

variable {cap maxB : Nat} {blocking : Bool}

/-- S1 — no span is ever exported twice (`Spec.noDuplicate` of the exporter's log). -/
theorem bsp_no_duplicate (hpos : 1 ≤ maxB) (s : St) (h : Reachable cap maxB blocking s) :
    Spec.noDuplicate s.exported = true := by
  have hi := (inv_reachable cap maxB blocking hpos s h).a
  simp only [Spec.noDuplicate, decide_eq_true_eq]
  rw [List.nodup_iff_count]
  intro a
  have h1 := hi.cnt a
  have h2 := (List.nodup_iff_count.mp hi.nodup) a
  simp only [allIds, List.count_append] at h1
  omega

/-- conservation: every accepted span id is in exactly one place (in flight to the queue, queued, in the
worker's hand, in the batch, in the exporter's log, or counted as dropped). -/
theorem bsp_conservation (hpos : 1 ≤ maxB) (s : St) (h : Reachable cap maxB blocking s) (a : Nat) :
    (allIds s).count a = (if a ∈ s.accepted then 1 else 0) := by
  have hi := (inv_reachable cap maxB blocking hpos s h).a
  rw [hi.cnt a]
  split
  · rename_i hm
    have := (List.nodup_iff_count.mp hi.nodup) a
    have hp : 0 < s.accepted.count a := List.count_pos_iff.mpr hm
    omega
  · rename_i hm
    exact List.count_eq_zero.mpr hm

/-- S2 — no export batch is larger than the configured maximum. -/
theorem bsp_batch_bound (hpos : 1 ≤ maxB) (s : St) (h : Reachable cap maxB blocking s) :
    Spec.batchBound s.maxB s.exported = true := by
  have hi := (inv_reachable cap maxB blocking hpos s h).b
  simp only [Spec.batchBound, List.all_eq_true, decide_eq_true_eq]
  exact hi.expB

/-- S6 — only spans whose `OnEnd` was called (sampled, before the processor was stopped) are exported. -/
theorem bsp_only_ended_sampled (hpos : 1 ≤ maxB) (s : St) (h : Reachable cap maxB blocking s) :
    Spec.onlyEnded s.exported s.accepted = true := by
  have hi := (inv_reachable cap maxB blocking hpos s h).a
  simp only [Spec.onlyEnded, List.all_eq_true, List.contains_iff_mem]
  intro a ha
  have h1 := hi.cnt a
  have hp : 0 < s.exported.flatten.count a := List.count_pos_iff.mpr ha
  simp only [allIds, List.count_append] at h1
  exact List.count_pos_iff.mp (by omega)

/-- S6, unsampled spans — `OnEnd` of an unsampled span returns without touching the processor: its id is never
queued, batched, handed to the exporter or counted as dropped (`allIds`), in blocking mode as well as in
non-blocking mode (both `enqueue*` functions test `IsSampled` first); in particular no unsampled id occurs in the
exporter's log (`Spec.unsampledNotExported`). Span ids are unique over sampled and unsampled spans. -/
theorem bsp_unsampled_never_exported (hpos : 1 ≤ maxB) (s : St) (h : Reachable cap maxB blocking s) :
    (∀ id ∈ s.unsampled, id ∉ allIds s) ∧ Spec.unsampledNotExported s.exported s.unsampled = true := by
  have hi := (inv_reachable cap maxB blocking hpos s h).a
  have hu := invU_reachable h
  have hall : ∀ id ∈ s.unsampled, id ∉ allIds s := by
    intro id hid hall
    have h1 := hi.cnt id
    have hp : 0 < (allIds s).count id := List.count_pos_iff.mpr hall
    exact hu id hid (List.count_pos_iff.mp (by omega))
  refine ⟨hall, ?_⟩
  simp only [Spec.unsampledNotExported, Bool.not_eq_true', List.any_eq_false, List.contains_iff_mem]
  intro a ha hau
  exact hall a hau (by simp [allIds, ha])

/-- S3 — the exporter is entered only while nobody else is inside it (the step that appends to the
exporter's log starts from a state where the batch mutex is free and takes it), and the exporter's
`Shutdown` is called only when no `ExportSpans` call is in progress and none can start any more. -/
theorem bsp_exporter_exclusive (hpos : 1 ≤ maxB) (s s' : St) (l : Lbl) (h : Reachable cap maxB blocking s)
    (hs : step s l = some s') :
    (s'.exported ≠ s.exported → s.busy = none ∧ s'.busy ≠ none) ∧
    (l = .sdExporterShutdown → s.busy = none ∧ s.batch = [] ∧ s.hand = none ∧ s.w = .exited) := by
  have hc := (inv_reachable cap maxB blocking hpos s h).c
  constructor
  · intro hne
    cases l <;> simp only [step] at hs
    all_goals (
      repeat' (split at hs)
      all_goals (try (simp at hs))
      all_goals (try subst hs)
      all_goals (first | (exfalso; exact hne rfl) | simp_all))
  · intro hl
    subst hl
    simp only [step] at hs
    split at hs
    · rename_i hg
      have := hc.exitedClean hg.2
      exact ⟨this.2.1, this.1, this.2.2, hg.2⟩
    · simp at hs

/-- export timeout / failing exporter ("handed to the span exporter exactly once") — `exportSpans` wraps its
context with `ExportTimeout`, the exporter may return any error including that context's deadline error, and the
batch is reset after the call whatever the result. In the model the return of an exporter call is one of the
labels `exportEnd ok` (the worker's call; `ok = false` covers an exporter error and a timed-out export alike),
`ffExportEndOk fid`, `ffExportEndErr fid` (a ForceFlush's own call). For each of them, from any reachable state:
the spans handed over are in the exporter's log and stay there (`exported` unchanged — with `bsp_no_duplicate`
for all later states: a failed or timed-out export is never re-exported), the pending batch is empty before and
after (nothing of the failed batch goes back into the next batch), and no span moves anywhere else (queue,
worker's hand, in-flight producers and the dropped ids are unchanged — with `bsp_conservation`: it does not lose
track of any span either). The mutex is released. -/
theorem bsp_failed_export_handled_once (hpos : 1 ≤ maxB) (s s' : St) (l : Lbl) (h : Reachable cap maxB blocking s)
    (hl : (∃ ok, l = .exportEnd ok) ∨ (∃ fid, l = .ffExportEndOk fid) ∨ (∃ fid, l = .ffExportEndErr fid))
    (hs : step s l = some s') :
    s.busy ≠ none ∧ s'.busy = none ∧ s.batch = [] ∧ s'.batch = [] ∧ s'.exported = s.exported ∧
    s'.queue = s.queue ∧ s'.hand = s.hand ∧ s'.inflight = s.inflight ∧ s'.droppedIds = s.droppedIds ∧
    s'.accepted = s.accepted := by
  have hb := (inv_reachable cap maxB blocking hpos s h).b.busyEmpty
  rcases hl with ⟨ok, hl⟩ | ⟨fid, hl⟩ | ⟨fid, hl⟩ <;> subst hl <;> simp only [step] at hs
  all_goals (
    repeat' (split at hs)
    all_goals (try (simp at hs))
    all_goals (try subst hs)
    all_goals (rename_i hbusy)
    all_goals (have hne : s.busy ≠ none := by simp [hbusy])
    all_goals (exact ⟨hne, rfl, hb hne, hb hne, rfl, rfl, rfl, rfl, rfl, rfl⟩))

/-- the result of an exporter call does not matter to where the spans are: the worker's `exportEnd false` (error
or timeout) is the same step as `exportEnd true`, and a ForceFlush's `ffExportEndErr` differs from
`ffExportEndOk` only in the phase (return value) of that ForceFlush call. -/
theorem bsp_export_result_irrelevant (s : St) (fid : Nat) :
    step s (.exportEnd false) = step s (.exportEnd true) ∧
    (step s (.ffExportEndErr fid)).map (fun t => { t with ffs := [] }) =
      (step s (.ffExportEndOk fid)).map (fun t => { t with ffs := [] }) := by
  refine ⟨rfl, ?_⟩
  simp only [step]
  split <;> rfl

/-- non-vacuity: an export that fails (or times out), then another span: each span is in the log once. -/
example : ∃ s, run (init 2 1 false)
    [.accept 1, .send 1, .wRecv, .wAppend, .wExportStart, .exportEnd false,
     .accept 2, .send 2, .wRecv, .wAppend, .wExportStart, .exportEnd true] = some s ∧
    s.exported = [[1], [2]] ∧ s.batch = [] := by
  refine ⟨_, rfl, ?_⟩
  decide

/-- some Shutdown call has returned nil, and `pre` is the set of spans whose `End` had returned when THAT call was
called: the call that won `stopOnce` (`sdRetOk`, `sdPre`) or any of the calls that found the once taken and
waited in `sync.Once.Do` (`sds`). A Shutdown context that expires is the label `sdTimeout` (only the winning call can
return an error: the others wait in `Once.Do`, which has no context); the theorems about nil returns below carry the
hypothesis `s.sdRetErr = false` (the winning call's context has not expired) — without it they fail for the waiting
callers: known finding F47, `bsp_shutdown_timeout_late_nil_witness`. -/
def ShutdownReturnedNil (s : St) (pre : List Nat) : Prop :=
  (s.sdRetOk = true ∧ pre = s.sdPre) ∨ ∃ c ∈ s.sds, c.ret = true ∧ pre = c.pre

/-- whichever Shutdown call has returned nil, the winning call's once-function has returned: the worker has
exited and the exporter has been shut down -/
theorem shutdown_returned_done (hpos : 1 ≤ maxB) (s : St) (h : Reachable cap maxB blocking s) (pre : List Nat)
    (hret : ShutdownReturnedNil s pre) (hT : s.sdRetErr = false) : s.sdRetOk = true ∧ s.sd = .shut ∧ s.w = .exited := by
  have hi := inv_reachable cap maxB blocking hpos s h
  have hr : s.sdRetOk = true := by
    rcases hret with ⟨hr, _⟩ | ⟨c, hc, hcr, _⟩
    · exact hr
    · rcases hi.l.retDone c hc hcr with h1 | h1
      · exact h1
      · rw [hT] at h1; cases h1
  exact ⟨hr, hi.c.retSd hr, hi.c.shutExited (hi.c.retSd hr)⟩

/-- S4 — nothing is exported after ANY `Shutdown` call has returned nil (the call that won `stopOnce` or any
other): from then on no step changes the exporter's log, and nobody is inside the exporter. -/
theorem bsp_quiet_after_shutdown (hpos : 1 ≤ maxB) (s s' : St) (l : Lbl) (h : Reachable cap maxB blocking s)
    (pre : List Nat) (hret : ShutdownReturnedNil s pre) (hT : s.sdRetErr = false) (hs : step s l = some s') :
    s'.exported = s.exported ∧ s.busy = none ∧ s'.sdRetOk = true ∧ ShutdownReturnedNil s' s'.sdPre := by
  have hc := (inv_reachable cap maxB blocking hpos s h).c
  obtain ⟨hr, _, hw⟩ := shutdown_returned_done hpos s h pre hret hT
  have hcl := hc.exitedClean hw
  have key : s'.exported = s.exported ∧ s'.sdRetOk = true := by
    cases l <;> simp only [step] at hs
    all_goals (
      repeat' (split at hs)
      all_goals (try (simp at hs))
      all_goals (try subst hs)
      all_goals (first | exact ⟨rfl, hr⟩ | simp_all))
  exact ⟨key.1, hcl.2.1, key.2, Or.inl ⟨key.2, rfl⟩⟩

/-- S5 for `Shutdown`, every call — when ANY `Shutdown` call has returned nil (`pre` = the spans whose `End` had
returned before THAT call was called): (1) every span whose `End` had returned before the FIRST Shutdown call was
called is in the exporter's log or was counted as dropped; (2) every span of `pre` is in the exporter's log, or
was counted as dropped, or — only possible for a call other than the first — is a late span: its `End` raced the
first Shutdown (it passed the `stopped` check before Shutdown stored the flag and completed its send after the
worker's drain had seen the queue empty), so it returned after the first Shutdown was called and the span sits in
the queue of the exited worker (see `bsp_shutdown_late_call_witness`); (3) spans are dropped only in non-blocking
mode. For the first call (`pre = s.sdPre`) clause (1) is the full delivery statement. -/
theorem bsp_shutdown_delivers (hpos : 1 ≤ maxB) (s : St) (h : Reachable cap maxB blocking s)
    (pre : List Nat) (hret : ShutdownReturnedNil s pre) (hT : s.sdRetErr = false) :
    (∀ id ∈ s.sdPre, id ∈ s.exported.flatten ∨ id ∈ s.droppedIds) ∧
    (∀ id ∈ pre, id ∈ s.exported.flatten ∨ id ∈ s.droppedIds ∨ (id ∈ spansOf s.queue ∧ id ∉ s.sdPre)) ∧
    (s.droppedIds ≠ [] → s.blocking = false) := by
  have hi := inv_reachable cap maxB blocking hpos s h
  obtain ⟨hr, _, hw⟩ := shutdown_returned_done hpos s h pre hret hT
  have h1 := hi.f.exitedOK hw
  refine ⟨h1, ?_, hi.d.dropNB⟩
  rcases hret with ⟨_, hp⟩ | ⟨c, hc, _, hp⟩
  · subst hp
    intro id hid
    rcases h1 id hid with h2 | h2
    · exact Or.inl h2
    · exact Or.inr (Or.inl h2)
  · subst hp
    intro id hid
    have hpl := hi.d.seenPlaced id (hi.l.preSeen c hc id hid)
    have hcl := hi.c.exitedClean hw
    unfold placed at hpl
    simp only [hcl.1, hcl.2.2, handL, List.not_mem_nil, false_or] at hpl
    rcases hpl with h2 | h2 | h2
    · by_cases hin : id ∈ s.sdPre
      · rcases h1 id hin with h3 | h3
        · exact Or.inl h3
        · exact Or.inr (Or.inl h3)
      · exact Or.inr (Or.inr ⟨h2, hin⟩)
    · exact Or.inl h2
    · exact Or.inr (Or.inl h2)

/-- S5 for every `Shutdown` call, partial (known finding F41): unless a late span sits in the exited worker's queue
(`LateEnd_applies`), every span whose `End` had returned before a Shutdown call — the first or any other — is in
the exporter's log or was counted as dropped when that call has returned nil. -/
theorem bsp_shutdown_delivers_every_call_partial (hpos : 1 ≤ maxB) (s : St) (h : Reachable cap maxB blocking s)
    (pre : List Nat) (hret : ShutdownReturnedNil s pre) (hT : s.sdRetErr = false) (hno : LateEnd_applies s = false) :
    ∀ id ∈ pre, id ∈ s.exported.flatten ∨ id ∈ s.droppedIds := by
  obtain ⟨_, _, hw⟩ := shutdown_returned_done hpos s h pre hret hT
  have hq : spansOf s.queue = [] := by
    simpa [LateEnd_applies, hw] using hno
  intro id hid
  rcases (bsp_shutdown_delivers hpos s h pre hret hT).2.1 id hid with h1 | h1 | h1
  · exact Or.inl h1
  · exact Or.inr h1
  · rw [hq] at h1; exact absurd h1.1 (by simp)

/-- the F41 classification is tight — if a Shutdown call (the first or any other) has returned nil and a span of its
own `pre` set is neither in the exporter's log nor counted as dropped, then the late-span race has happened
(`LateEnd_applies`: a span sits in the exited worker's queue); in the vocabulary of the oracle: if
`Spec.delivered` fails for that call's own `pre` set, with any reported counter covering the model's drops. -/
theorem bsp_shutdown_missing_implies_late (hpos : 1 ≤ maxB) (s : St) (h : Reachable cap maxB blocking s)
    (pre : List Nat) (hret : ShutdownReturnedNil s pre) (hT : s.sdRetErr = false) :
    ((∃ id ∈ pre, ¬ (id ∈ s.exported.flatten ∨ id ∈ s.droppedIds)) → LateEnd_applies s = true) ∧
    (∀ dropped, s.droppedIds.length ≤ dropped → Spec.delivered s.blocking pre s.exported dropped = false →
      LateEnd_applies s = true) := by
  have hpart := bsp_shutdown_delivers_every_call_partial hpos s h pre hret hT
  have hi := inv_reachable cap maxB blocking hpos s h
  constructor
  · intro ⟨id, hid, hmiss⟩
    cases hl : LateEnd_applies s with
    | true => rfl
    | false => exact absurd (hpart hl id hid) hmiss
  · intro dropped hd hnd
    cases hl : LateEnd_applies s with
    | true => rfl
    | false =>
      have := delivered_of_covered s.blocking pre s.exported s.droppedIds dropped (hpart hl) hd hi.d.dropNB
      rw [hnd] at this
      cases this

/-- the full statement of S5 for every Shutdown call (each call's own `pre`, without the exclusion) — NOT a
theorem of the current code (known finding F41), see the witness below -/
def bsp_shutdown_delivers_every_call_full_statement : Prop :=
  ∀ (cap maxB : Nat) (blocking : Bool), 1 ≤ maxB → ∀ s, Reachable cap maxB blocking s → s.sdRetErr = false →
    ∀ pre, ShutdownReturnedNil s pre → ∀ id ∈ pre, id ∈ s.exported.flatten ∨ id ∈ s.droppedIds

/-- the schedule of the late-span race F41: `OnEnd` of span 1 passes the `stopped` check, a first Shutdown runs to
completion (the worker drains an empty queue and exits), `OnEnd` then sends span 1 into the queue and returns; a
second Shutdown call, made after that `End` returned, returns nil at once although span 1 is never exported. -/
def lateEndSchedule : List Lbl :=
  [.accept 1, .sdCall, .sdStore, .sdClose, .wStop, .wDrainEmpty, .wExportStart, .sdExporterShutdown, .sdReturnOk,
   .send 1, .sdCallLate 1, .sdReturnLate 1]

theorem bsp_shutdown_late_call_witness :
    ∃ s, run (init 4 1 false) lateEndSchedule = some s ∧ LateEnd_applies s = true ∧ s.sdRetErr = false ∧
      ∃ c ∈ s.sds, c.ret = true ∧ ∃ id ∈ c.pre, ¬ (id ∈ s.exported.flatten ∨ id ∈ s.droppedIds) := by
  refine ⟨_, rfl, ?_⟩
  decide

/-- no deadlock on the Shutdown path — in every reachable state in which `Shutdown` has been called and has not
yet returned, some internal step is enabled (a step of the worker or of the shutdown goroutine, or the return
of the exporter call in progress): Shutdown never waits for something that cannot happen. The exporter is
assumed to return eventually; fairness (hence termination) is not claimed. -/
theorem bsp_shutdown_never_stuck (hpos : 1 ≤ maxB) (s : St) (h : Reachable cap maxB blocking s)
    (hsd : s.sd ≠ .none) (hret : s.sdRetOk = false) (hrete : s.sdRetErr = false) :
    ∃ l, l.internal = true ∧ (step s l).isSome = true :=
  shutdown_progress_of_inv s (inv_reachable cap maxB blocking hpos s h).c hsd hret hrete

/-- the same for every Shutdown call that did not win `stopOnce`: while it is blocked in `sync.Once.Do` some
internal step is enabled — of the winner's call, or its own return once the once is done. -/
theorem bsp_shutdown_late_never_stuck (hpos : 1 ≤ maxB) (s : St) (h : Reachable cap maxB blocking s)
    (c : SD) (hc : c ∈ s.sds) (hret : c.ret = false) :
    ∃ l, l.internal = true ∧ (step s l).isSome = true :=
  let hi := inv_reachable cap maxB blocking hpos s h
  shutdown_progress_late s hi.c hi.l c hc hret

/-! ### known finding F42 (property C15 "no call blocks forever"): a producer stuck on the full queue -/

/-- F42 (a) — stuck for ever. When the worker has stopped receiving (final export or exited), the queue is full and
a ForceFlush sits at its marker send (`StuckFF`) or, in blocking mode, an `OnEnd` sits at its send (`StuckEnd`):
that send is disabled, and it is still so after every run of the model — every interleaving of every thread — that
does not cancel that ForceFlush's context. Context expiry: a ForceFlush context that ends is the label `ffCancel`
(the call then returns ctx.Err(): with `context.Background()` it never happens); `OnEnd` sends with
`context.TODO()`, no label ever releases it. -/
theorem bsp_stuck_producer_forever (s s' : St) (ls : List Lbl) (hrun : run s ls = some s') :
    (∀ fid, StuckFF s fid = true → Lbl.ffCancel fid ∉ ls →
      StuckFF s' fid = true ∧ step s' (.ffEnqueue fid) = none) ∧
    (∀ id, StuckEnd s id = true → StuckEnd s' id = true ∧ step s' (.send id) = none) := by
  constructor
  · intro fid h hl
    have := stuckFF_run s s' fid ls hrun hl h
    exact ⟨this, stuckFF_disabled s' fid this⟩
  · intro id h
    have := stuckEnd_run s s' id ls hrun h
    exact ⟨this, stuckEnd_disabled s' id this⟩

/-- F42 (b) — tightness: it only happens after Shutdown has made the worker stop receiving. In every reachable state
in which a producer sits at its send with the queue full — a ForceFlush at its marker send, or in blocking mode an
`OnEnd` at its send — either the F42 predicate holds for that very producer, or the worker has not stopped
receiving and some finite run of worker-side steps (the worker's own steps and the return of the exporter call that
holds the mutex; the exporter is assumed to return) frees a slot, after which that producer's send is enabled. So a
producer for which no continuation ever enables its send is stuck in the sense of `StuckProducer_applies`.
Fairness towards the worker (that it does get to run) is not claimed. -/
theorem bsp_blocked_producer_served_or_stuck (hpos : 1 ≤ maxB) (s : St) (h : Reachable cap maxB blocking s)
    (hfull : s.cap ≤ s.queue.length) (hcap : 1 ≤ s.cap) :
    (∀ fid, hasPh fid .checked s.ffs = true →
      StuckFF s fid = true ∨
      ∃ ls s', (∀ l ∈ ls, l.workerSide = true) ∧ run s ls = some s' ∧ (step s' (.ffEnqueue fid)).isSome = true) ∧
    (∀ id, id ∈ s.inflight → s.blocking = true →
      StuckEnd s id = true ∨
      ∃ ls s', (∀ l ∈ ls, l.workerSide = true) ∧ run s ls = some s' ∧ (step s' (.send id)).isSome = true) := by
  have hQ := invQ_reachable h
  unfold InvQ at hQ
  have hne : s.queue ≠ [] := by
    intro e; rw [e] at hfull; simp at hfull; omega
  constructor
  · intro fid hp
    cases hd : workerDone s with
    | true => left; simp [StuckFF, hd, hfull, hp]
    | false =>
      right
      obtain ⟨ls, s', hall, hrun, hlt⟩ := worker_serves hpos s h hd hne
      have hk := workerSide_run_keeps s s' ls fid hrun hall
      refine ⟨ls, s', hall, hrun, ?_⟩
      have hp' := hk.2.2.2 hp
      have hlen : s'.queue.length < s'.cap := by rw [hk.1]; omega
      simp [step, hp', hlen]
  · intro id hid hbl
    cases hd : workerDone s with
    | true => left; simp [StuckEnd, hd, hfull, hbl, hid]
    | false =>
      right
      obtain ⟨ls, s', hall, hrun, hlt⟩ := worker_serves hpos s h hd hne
      have hk := workerSide_run_keeps s s' ls 0 hrun hall
      refine ⟨ls, s', hall, hrun, ?_⟩
      have hid' : id ∈ s'.inflight := by rw [hk.2.2.1]; exact hid
      have hlen : s'.queue.length < s'.cap := by rw [hk.1]; omega
      simp [step, hid', hlen]

/-- the schedules of F42: a ForceFlush (resp., in blocking mode, a second `OnEnd`) passes its `stopped` check, a
Shutdown runs to completion, the `OnEnd` of span 1 — which had passed its check before — fills the queue of capacity 1;
the ForceFlush's marker send (resp. the second `OnEnd`'s send) can never happen. -/
def stuckFFSchedule : List Lbl :=
  [.accept 1, .ffCall 1, .ffCheck 1, .sdCall, .sdStore, .sdClose, .wStop, .wDrainEmpty, .wExportStart,
   .sdExporterShutdown, .sdReturnOk, .send 1]

def stuckEndSchedule : List Lbl :=
  [.accept 1, .accept 2, .sdCall, .sdStore, .sdClose, .wStop, .wDrainEmpty, .wExportStart,
   .sdExporterShutdown, .sdReturnOk, .send 1]

theorem bsp_stuck_producer_witness :
    (∃ s, run (init 1 1 false) stuckFFSchedule = some s ∧ StuckFF s 1 = true ∧ StuckProducer_applies s = true ∧
      s.sdRetOk = true ∧ s.ffs.any (fun f => f.fid == 1 && f.ph == .checked) = true) ∧
    (∃ s, run (init 1 1 true) stuckEndSchedule = some s ∧ StuckEnd s 2 = true ∧ StuckProducer_applies s = true ∧
      s.sdRetOk = true ∧ s.inflight = [2]) := by
  refine ⟨⟨_, rfl, ?_⟩, ⟨_, rfl, ?_⟩⟩ <;> decide

/-- F22 exclusion predicate: this ForceFlush returned nil through one of the two early exits taken when a
Shutdown is in progress (`stopped` already set, or `stopCh` winning the select). -/
def F22_applies (f : FF) : Bool := f.ph == .retEarly

/-- S5 for `ForceFlush`, partial: when a ForceFlush has returned nil after its own export (i.e. not through
the early exits of F22), every span whose `End` had returned before it was called is in the exporter's log
or was counted as dropped. -/
theorem bsp_forceflush_delivers_partial (hpos : 1 ≤ maxB) (s : St) (h : Reachable cap maxB blocking s)
    (f : FF) (hf : f ∈ s.ffs) (hret : f.ph = .retOk) :
    ∀ id ∈ f.pre, id ∈ s.exported.flatten ∨ id ∈ s.droppedIds := by
  have hi := (inv_reachable cap maxB blocking hpos s h).e.ok f hf
  unfold ffOK at hi
  simp only [hret] at hi
  exact hi

/-- the full statement of S5 for ForceFlush (every nil return, including the early exits) — NOT a theorem
of the current code, see the witness below -/
def bsp_forceflush_delivers_full_statement : Prop :=
  ∀ (cap maxB : Nat) (blocking : Bool), 1 ≤ maxB → ∀ s, Reachable cap maxB blocking s →
    ∀ f ∈ s.ffs, (f.ph = .retOk ∨ f.ph = .retEarly) → ∀ id ∈ f.pre, id ∈ s.exported.flatten ∨ id ∈ s.droppedIds

/-- the schedule of F22: two spans are queued, the worker is inside the exporter with the first one,
Shutdown is called, a ForceFlush then returns nil at once although span 2 has not been exported. -/
def f22Schedule : List Lbl :=
  [.accept 1, .send 1, .accept 2, .send 2, .wRecv, .wAppend, .wExportStart, .sdCall, .sdStore,
   .ffCall 7, .ffCheck 7]

theorem bsp_forceflush_early_return_witness :
    ∃ s, run (init 4 1 false) f22Schedule = some s ∧
      ∃ f ∈ s.ffs, F22_applies f = true ∧ ∃ id ∈ f.pre, ¬ (id ∈ s.exported.flatten ∨ id ∈ s.droppedIds) := by
  refine ⟨_, rfl, ?_⟩
  decide

theorem run_reachable (s : St) (ls : List Lbl) (s' : St) (h : Reachable cap maxB blocking s)
    (hr : run s ls = some s') : Reachable cap maxB blocking s' := by
  induction ls generalizing s with
  | nil => simp [run] at hr; subst hr; exact h
  | cons l ls ih =>
    simp only [run] at hr
    split at hr
    · rename_i s1 hs1
      exact ih s1 (Reachable.step l h hs1) hr
    · simp at hr

/-- hence the full statement is false for the model of the current code -/
theorem bsp_forceflush_full_statement_refuted : ¬ bsp_forceflush_delivers_full_statement := by
  intro hfull
  obtain ⟨s, hrun, f, hf, hF, id, hid, hno⟩ := bsp_forceflush_early_return_witness
  have hreach : Reachable 4 1 false s := run_reachable _ _ _ Reachable.init hrun
  have : f.ph = .retEarly := by simpa [F22_applies] using hF
  exact hno (hfull 4 1 false (by omega) s hreach f hf (Or.inr this) id hid)

/-- hence the full every-call statement of S5 for Shutdown is false for the model of the current code -/
theorem bsp_shutdown_every_call_full_statement_refuted : ¬ bsp_shutdown_delivers_every_call_full_statement := by
  intro hfull
  obtain ⟨s, hrun, _, hT, c, hc, hcr, id, hid, hno⟩ := bsp_shutdown_late_call_witness
  have hreach : Reachable 4 1 false s := run_reachable _ _ _ Reachable.init hrun
  exact hno (hfull 4 1 false (by omega) s hreach hT c.pre (Or.inr ⟨c, hc, hcr, rfl⟩) id hid)

/-- non-vacuity: a reachable state with two exports (one by the worker because the batch is full, one by
a ForceFlush that returned nil normally), one dropped span and a completed Shutdown. -/
def demoSchedule : List Lbl :=
  [.accept 1, .send 1, .accept 2, .send 2, .accept 3, .send 3,      -- cap 2: span 3 is dropped
   .wRecv, .wAppend, .wRecv, .wAppend, .wExportStart, .exportEnd true,    -- batch [1,2] exported by the worker
   .accept 4, .send 4, .ffCall 1, .ffCheck 1, .ffEnqueue 1, .wRecv, .wAppend, .wRecv,
   .ffExportStart 1, .ffExportEndOk 1,                               -- [4] exported by the ForceFlush
   .sdCall, .sdStore, .sdClose, .wStop, .wDrainEmpty, .wExportStart, .sdExporterShutdown, .sdReturnOk]

example : ∃ s, run (init 2 2 false) demoSchedule = some s ∧ s.exported = [[1, 2], [4]] ∧ s.droppedIds = [3] ∧
    s.sdRetOk = true ∧ s.ffs.any (fun f => f.ph == .retOk && f.pre == [4, 3, 2, 1]) = true := by
  refine ⟨_, rfl, ?_⟩
  decide

/-! ### The model's histories pass the run-time history oracle

The free-running stress leg records a history of `Spec.Ev` events from the real code and the driver judges it
with `Spec.histCheck` (through `Spec.histJudge`). `emit` (History.lean) stamps the same events on the steps of
the LTS; `ReachableH cap maxB blocking s h` says that the model can reach `s` producing the history `h`. -/

/-- the scanner of the history oracle, run over any history `h` of the model, mirrors the model's ghost state
(`Sim`, HistorySim.lean): its exporter log is `s.exported`, "inside the exporter" is `s.busy.isSome`, its set of
ended spans is `s.seen`, its `pre` sets of the ForceFlush calls and of the first Shutdown call are the model's, "Shutdown
called / returned nil / exporter shut down" agree with `s.sd` / `s.sdRetOk`, **its list of violated clauses is
empty**, and its F22 flag is raised only if Shutdown has been called and some ForceFlush took an early exit.
`dropped` is the value of the processor's dropped counter reported at the end of the run: any number that is at
least the number of spans the model dropped. -/
theorem bsp_model_history_simulation (hpos : 1 ≤ maxB) (s : St) (h : List Spec.Ev)
    (hr : ReachableH cap maxB blocking s h) (dropped : Nat) (hd : s.droppedIds.length ≤ dropped)
    (hT : s.sdRetErr = false) :
    Sim s (h.foldl (Spec.scanStep s.blocking dropped) {}) := by
  rw [(reachable_cfg hr.reachable).2.2]
  exact sim_reachableH hpos dropped s h hr hd hT

/-- S1–S6 at the level of histories — every history `h` the model can produce passes the very oracle
`Spec.histCheck` that judges the histories recorded from the real code: the list of violated clauses is empty.
Arguments of the oracle: `s.maxB`, `s.blocking` = the configuration; `dropped` = the dropped counter reported
at the end of the run (any value ≥ the number of spans the model dropped; the real counter is exact);
`allEnded := s.accepted` = every sampled span id whose `OnEnd` passed the `stopped` check (a superset of the
ids whose `End` returned); `allUnsampled := s.unsampled` = every unsampled span id whose `End` returned;
`h` = the history. -/
theorem bsp_model_history_passes_oracle (hpos : 1 ≤ maxB) (s : St) (h : List Spec.Ev)
    (hr : ReachableH cap maxB blocking s h) (dropped : Nat) (hd : s.droppedIds.length ≤ dropped)
    (hT : s.sdRetErr = false) :
    (Spec.histCheck s.maxB s.blocking dropped s.accepted s.unsampled h).1 = [] := by
  have hsim := bsp_model_history_simulation hpos s h hr dropped hd hT
  have hreach := hr.reachable
  have h1 := bsp_no_duplicate hpos s hreach
  have h2 := bsp_batch_bound hpos s hreach
  have h6 := bsp_only_ended_sampled hpos s hreach
  have h7 := (bsp_unsampled_never_exported hpos s hreach).2
  simp only [Spec.histCheck, hsim.batches, hsim.bad, h1, h2, h6, h7, if_true]

/-- the same with exactly the arguments the driver passes (`Spec.histJudge`, used by Main.lean): the sets of
ended sampled / unsampled ids are read off the history itself, so S6 is judged against the `ended` events
only — every exported span has an `ended` event in the history, and no exported span has an `endedUnsampled`
event (histories with unsampled spans included). -/
theorem bsp_model_history_passes_driver_oracle (hpos : 1 ≤ maxB) (s : St) (h : List Spec.Ev)
    (hr : ReachableH cap maxB blocking s h) (dropped : Nat) (hd : s.droppedIds.length ≤ dropped)
    (hT : s.sdRetErr = false) :
    (Spec.histJudge s.maxB s.blocking dropped h).1 = [] := by
  have hsim := bsp_model_history_simulation hpos s h hr dropped hd hT
  have hreach := hr.reachable
  have h1 := bsp_no_duplicate hpos s hreach
  have h2 := bsp_batch_bound hpos s hreach
  have hG := invG_reachable hreach
  have hended := scan_ended s.blocking dropped h {}
  rw [hsim.ended] at hended
  have h6 : Spec.onlyEnded s.exported (Spec.endedIds h) = true := by
    simp only [Spec.onlyEnded, List.all_eq_true, List.contains_iff_mem]
    intro a ha
    have : a ∈ s.seen := hG a (Or.inr (Or.inr (Or.inr (Or.inl ha))))
    rw [hended] at this
    simpa using this
  have h7 : Spec.unsampledNotExported s.exported (Spec.unsampledIds h) = true := by
    have := (bsp_unsampled_never_exported hpos s hreach).2
    rw [reachableH_unsampled hr]
    simpa [Spec.unsampledNotExported] using this
  simp only [Spec.histJudge, Spec.histCheck, hsim.batches, hsim.bad, h1, h2, h6, h7, if_true]

/-- known finding F22 at the level of histories — the oracle raises its F22 flag on a history of the model only
if that history contains the `sdCalled` event (a Shutdown had been called before the ForceFlush returned) and
the model took one of ForceFlush's two early exits (`F22_applies`). All other ForceFlush returns pass the
delivery check (previous theorems). -/
theorem bsp_model_history_f22_only_with_shutdown (hpos : 1 ≤ maxB) (s : St) (h : List Spec.Ev)
    (hr : ReachableH cap maxB blocking s h) (dropped : Nat) (hd : s.droppedIds.length ≤ dropped)
    (hT : s.sdRetErr = false) (allEnded allUnsampled : List Nat)
    (hf : (Spec.histCheck s.maxB s.blocking dropped allEnded allUnsampled h).2 = true) :
    Spec.Ev.sdCalled ∈ h ∧ ∃ f ∈ s.ffs, F22_applies f = true := by
  have hsim := bsp_model_history_simulation hpos s h hr dropped hd hT
  simp only [Spec.histCheck] at hf
  refine ⟨?_, ?_⟩
  · rcases scan_sdCalled _ _ h {} (hsim.f22 hf) with hc | hc
    · simp at hc
    · exact hc
  · obtain ⟨f, hfm, hph⟩ := hsim.f22e hf
    exact ⟨f, hfm, by simp [F22_applies, hph]⟩

/-- known finding F41 at the level of histories — the oracle judges every nil return of a Shutdown call with that
call's own `pre` set; on a history of the model it raises its F41 flag only if the late-span race has happened in
the model (`LateEnd_applies`: a span whose `End` raced the first Shutdown sits in the exited worker's queue). All
other nil returns of Shutdown calls pass the own-`pre` delivery check, and no violated clause is ever reported
(`bsp_model_history_passes_driver_oracle`). -/
theorem bsp_model_history_f41_only_late (hpos : 1 ≤ maxB) (s : St) (h : List Spec.Ev)
    (hr : ReachableH cap maxB blocking s h) (dropped : Nat) (hd : s.droppedIds.length ≤ dropped)
    (hT : s.sdRetErr = false)
    (hf : Spec.histF41 s.blocking dropped h = true) : LateEnd_applies s = true := by
  have hfull := fullSim_reachableH hpos dropped s h hr hd hT
  rw [← (reachable_cfg hr.reachable).2.2] at hfull
  exact hfull.f41 hf

/-- the F41 classification cannot hide a real loss — for ANY history (any scanner state, not only the model's):
the oracle newly raises its F41 flag only at a nil return of a Shutdown call, only when every span whose `ended`
event precedes the FIRST `sdCalled` is delivered (`Spec.delivered … sdPre`; otherwise the verdict is the failure
`S5:shutdown`), and only because the own `pre` set of the call is not delivered: whatever is missing then has its
`ended` event after the first `sdCalled`. The list of violated clauses is not touched by that step. -/
theorem hist_f41_never_hides_first_call_loss (bl : Bool) (d : Nat) (c : Spec.Scan) (ev : Spec.Ev)
    (hnew : (Spec.scanStep bl d c ev).f41 = true) (hold : c.f41 = false) :
    ev = .sdReturned true ∧ Spec.delivered bl c.sdPre c.batches d = true ∧
    (∃ pre, c.sdPres[c.sdOkRets]? = some pre ∧ Spec.delivered bl pre c.batches d = false) ∧
    (c.inExport = false → (Spec.scanStep bl d c ev).bad = c.bad) := by
  obtain ⟨h1, h2, pre, h3, h4⟩ := scanStep_f41_new bl d c ev hnew hold
  refine ⟨h1, h2, ⟨pre, h3, h4⟩, ?_⟩
  intro hin
  subst h1
  simp only [Spec.scanStep, Bool.not_true, Bool.false_eq_true, if_false]
  split <;> simp [hin, h2, h3, h4]

/-- hangs at the level of histories — a history of the model contains no hang event (a call that does not return
simply has no return event): the oracle's judgement of hung calls (`Spec.histHangs`, the F42 classification of the
hist leg) reports nothing on it. That a producer CAN stay pending for ever in the model is
`bsp_stuck_producer_forever` / `bsp_stuck_producer_witness`. -/
theorem bsp_model_history_no_hang (s : St) (h : List Spec.Ev) (hr : ReachableH cap maxB blocking s h)
    (bl : Bool) : Spec.histHangs bl h = ([], false) := by
  have hnil : ((List.range h.length).filterMap fun i => h[i]?.bind (Spec.judgeHang bl (h.take i))) = [] := by
    rw [List.filterMap_eq_nil_iff]
    intro i _
    cases hi : h[i]? with
    | none => rfl
    | some ev => exact reachableH_no_hangs hr bl (h.take i) ev (List.mem_of_getElem? hi)
  simp [Spec.histHangs, hnil]

/-- non-vacuity for the hang classification. (1) a hung ForceFlush with the exporter shut down and the queue seen full
is F42; before the exporter's Shutdown, or with the queue not full, it is the failure "hang"; (2) a hung End with the
same pattern is F42 only in blocking mode; (3) a hung Shutdown is always a failure; (4) the history recorded on the
real code before the harness said who hung (`VERIF_SEED=101`, queue capacity 1: ForceFlush 2 was called before the
first Shutdown and is the only call outstanding when the HANG is stamped after the drain; the queue was occupied by
the marker of another ForceFlush) is F42, and the same history with the hang stamped before the exporter's Shutdown,
or with a Shutdown call outstanding, is a failure. -/
example :
    Spec.histHangs false [.ffCalled 1, .sdCalled, .expShutdownStart, .expShutdownEnd, .sdReturned true,
      .ended 1000, .ended 2000, .hangFF 1 true] = ([], true) ∧
    Spec.histHangs false [.ffCalled 1, .ended 1000, .ended 2000, .hangFF 1 true] = (["hang"], false) ∧
    Spec.histHangs false [.ffCalled 1, .sdCalled, .expShutdownStart, .expShutdownEnd, .sdReturned true,
      .ended 1000, .hangFF 1 false] = (["hang"], false) ∧
    Spec.histHangs false [.sdCalled, .expShutdownStart, .expShutdownEnd, .sdReturned true, .ended 1,
      .hangEnd 2 true] = (["hang"], false) ∧
    Spec.histHangs true [.sdCalled, .expShutdownStart, .expShutdownEnd, .sdReturned true, .ended 1,
      .hangEnd 2 true] = ([], true) ∧
    Spec.histHangs false [.sdCalled, .expShutdownStart, .expShutdownEnd, .hangSd] = (["hang"], false) ∧
    Spec.histHangs false [.ffCalled 1, .ffCalled 0, .ffCalled 2, .sdCalled, .ffReturned 1 true, .ended 0,
      .ffReturned 0 true, .exportStart [2000, 1000, 0], .exportEnd, .expShutdownStart, .expShutdownEnd,
      .sdReturned true, .sdCalled, .sdReturned true, .ended 1000, .ended 2000, .hang, .sdCalled, .sdReturned true,
      .ffReturned 2 true] = ([], true) ∧
    Spec.histHangs false [.ffCalled 2, .sdCalled, .hang, .expShutdownStart, .expShutdownEnd, .sdReturned true]
      = (["hang"], false) ∧
    Spec.histHangs false [.ffCalled 2, .sdCalled, .expShutdownStart, .expShutdownEnd, .hang, .sdReturned true]
      = (["hang"], false) ∧
    Spec.histHangs false [.sdCalled, .expShutdownStart, .expShutdownEnd, .sdReturned true, .ffCalled 2, .hang]
      = (["hang"], false) := by
  decide

/-- non-vacuity for F41: the history of `lateEndSchedule` — the second Shutdown call is judged with its own `pre`
set `[1]`, span 1 is never exported: the oracle raises its F41 flag and reports no violated clause; without the
second call (first 10 labels) the flag stays down. -/
example : ∃ r, runH (init 4 1 false) [] lateEndSchedule = some r ∧
    r.2 = [.sdCalled, .expShutdownStart, .expShutdownEnd, .sdReturned true, .ended 1, .sdCalled, .sdReturned true] ∧
    Spec.histJudge 1 false 0 r.2 = ([], false) ∧ Spec.histF41 false 0 r.2 = true ∧
    Spec.histF41 false 0 (r.2.take 5) = false := by
  refine ⟨_, rfl, ?_⟩
  decide

/-- non-vacuity: the history of `demoSchedule` — two exporter calls, a ForceFlush and a Shutdown that returned
nil, one dropped span — and the oracle's verdict on it. -/
example : ∃ r, runH (init 2 2 false) [] demoSchedule = some r ∧
    r.2 = [.ended 1, .ended 2, .ended 3, .exportStart [1, 2], .exportEnd, .ended 4, .ffCalled 1,
           .exportStart [4], .exportEnd, .ffReturned 1 true, .sdCalled, .expShutdownStart, .expShutdownEnd,
           .sdReturned true] ∧
    r.1.droppedIds.length = 1 ∧ Spec.histJudge 2 false 1 r.2 = ([], false) := by
  refine ⟨_, rfl, ?_⟩
  decide

/-- three Shutdown callers (one wins `stopOnce`, two wait in `Once.Do`), an unsampled span, blocking mode, and
the only export fails (error or export timeout). -/
def multiShutdownSchedule : List Lbl :=
  [.endUnsampled 9, .accept 1, .send 1, .sdCall, .sdCallLate 1, .sdStore, .sdClose, .sdCallLate 2, .wStop, .wRecv,
   .wAppend, .wExportStart, .exportEnd false, .wDrainEmpty, .wExportStart, .sdExporterShutdown, .sdReturnOk,
   .sdReturnLate 2, .sdReturnLate 1]

/-- non-vacuity for several Shutdown callers and unsampled spans: the history has three `sdCalled` and three
`sdReturned true` events and an `endedUnsampled`, the oracle accepts it; and a waiting caller cannot return
before the winner has (the schedule with `sdReturnLate 1` moved before `sdReturnOk` is not a run of the model). -/
example : ∃ r, runH (init 2 1 true) [] multiShutdownSchedule = some r ∧
    r.2 = [.endedUnsampled 9, .ended 1, .sdCalled, .sdCalled, .sdCalled, .exportStart [1], .exportEnd,
           .expShutdownStart, .expShutdownEnd, .sdReturned true, .sdReturned true, .sdReturned true] ∧
    Spec.histJudge 1 true 0 r.2 = ([], false) ∧ r.1.unsampled = [9] ∧
    (∀ c ∈ r.1.sds, c.ret = true ∧ c.pre = [1]) ∧
    run (init 2 1 true) (multiShutdownSchedule.take 16 ++ [.sdReturnLate 1]) = none := by
  refine ⟨_, rfl, ?_⟩
  decide

/-- non-vacuity for F22: the history of `f22Schedule` raises the oracle's F22 flag (and nothing else). -/
example : ∃ r, runH (init 4 1 false) [] f22Schedule = some r ∧
    r.2 = [.ended 1, .ended 2, .exportStart [1], .sdCalled, .ffCalled 7, .ffReturned 7 true] ∧
    Spec.histJudge 1 false 0 r.2 = ([], true) := by
  refine ⟨_, rfl, ?_⟩
  decide

/-! ### Shutdown with a context that ends (label `sdTimeout`)

`Shutdown(ctx)`: the call that wins `stopOnce` stores `stopped`, starts the shutdown goroutine (close(stopCh); join the
worker; exporter.Shutdown; close(wait)) and waits in `select { case <-wait: case <-ctx.Done(): err = ctx.Err() }`. If
the context wins, the once-function returns, the call returns ctx.Err() — and the goroutine goes on. The safety
theorems above (S1, S2, S3, S6, conservation, unsampled, failed exports) are about every reachable state, hence cover
those runs as they are; the theorems below are about what is specific to them. -/

/-- `stopped` is stored before the winning call reaches its `select` -/
private theorem invT_reachable {s : St} (hr : Reachable cap maxB blocking s) :
    (s.sd = .stored ∨ s.sd = .closed ∨ s.sd = .shut) → s.stopped = true := by
  induction hr with
  | init => simp [init]
  | step l _ hs ih =>
    rename_i s0 s1
    cases l <;> simp only [step] at hs
    all_goals (
      repeat' (split at hs)
      all_goals (try (simp at hs))
      all_goals (try subst hs)
      all_goals (first | exact ih | simp_all))

/-- the winning Shutdown call returns exactly once — nil (`sdRetOk`) or its context's error (`sdRetErr`), never both —
and an error return happens only after `stopped` was stored: from then on no `OnEnd` is accepted any more (the label
`accept` is disabled), although the drain may still be running. -/
theorem bsp_shutdown_timeout_exclusive (hpos : 1 ≤ maxB) (s : St) (h : Reachable cap maxB blocking s) :
    ¬ (s.sdRetOk = true ∧ s.sdRetErr = true) ∧
    (ShutdownTimedOut_applies s = true → s.stopped = true ∧ ∀ id, step s (.accept id) = none) := by
  have hc := (inv_reachable cap maxB blocking hpos s h).c
  refine ⟨fun ⟨h1, h2⟩ => (by rw [hc.okErr h1] at h2; cases h2), ?_⟩
  intro hT
  have hst := invT_reachable h (hc.errSd hT)
  exact ⟨hst, fun id => by simp [step, hst]⟩

/-- the shutdown goroutine never waits for something that cannot happen, whether or not the call that started it is
still waiting for it (in particular after that call returned its context's error): as long as Shutdown has been called
and the exporter has not been shut down, some internal step other than a return of the Shutdown call is enabled — a
step of the worker, of the goroutine, or the return of the exporter call in progress (assumed to return). -/
theorem bsp_shutdown_drain_never_stuck (hpos : 1 ≤ maxB) (s : St) (h : Reachable cap maxB blocking s)
    (hsd : s.sd ≠ .none) (hshut : s.sd ≠ .shut) :
    ∃ l, l.internal = true ∧ l ≠ .sdReturnOk ∧ l ≠ .sdTimeout ∧ (step s l).isSome = true :=
  drain_progress_of_inv s (inv_reachable cap maxB blocking hpos s h).c hsd hshut

/-- when the shutdown goroutine has finished (`sd = shut`: the worker joined, the exporter shut down) — whatever the
Shutdown calls have returned, in particular after the winning call returned ctx.Err() — the worker has exited, every
span whose `End` had returned before the first Shutdown call was called is in the exporter's log or was counted as
dropped, and from then on no step changes the exporter's log, nobody is inside the exporter, and the phase stays. The
spans lost by a Shutdown whose context ended are at most the late spans of F41. -/
theorem bsp_shutdown_drain_done (hpos : 1 ≤ maxB) (s : St) (h : Reachable cap maxB blocking s) (hshut : s.sd = .shut) :
    s.w = .exited ∧ (∀ id ∈ s.sdPre, id ∈ s.exported.flatten ∨ id ∈ s.droppedIds) ∧ s.busy = none ∧
    ∀ l s', step s l = some s' → s'.exported = s.exported ∧ s'.sd = .shut := by
  have hi := inv_reachable cap maxB blocking hpos s h
  have hw := hi.c.shutExited hshut
  have hcl := hi.c.exitedClean hw
  refine ⟨hw, hi.f.exitedOK hw, hcl.2.1, ?_⟩
  intro l s' hs
  cases l <;> simp only [step] at hs
  all_goals (
    repeat' (split at hs)
    all_goals (try (simp at hs))
    all_goals (try subst hs)
    all_goals (first | exact ⟨rfl, hshut⟩ | simp_all))

/-- the schedule of F47: span 1 is queued, a Shutdown call wins `stopOnce`, stores `stopped`, and its context ends at
once (`sdTimeout`: it returns ctx.Err()); a second Shutdown call finds the once done and returns nil immediately; only
then does the goroutine of the first call close `stopCh`, and the worker exports span 1. -/
def timeoutLateNilSchedule : List Lbl :=
  [.accept 1, .send 1, .sdCall, .sdStore, .sdTimeout, .sdCallLate 1, .sdReturnLate 1,
   .sdClose, .wStop, .wRecv, .wAppend, .wExportStart]

/-- known finding F47 (witness): after the winning Shutdown call's context ended, another Shutdown call returns nil
(`ShutdownReturnedNil`) although span 1 — ended before either call — has not been handed to the exporter, and the
exporter is entered afterwards. -/
theorem bsp_shutdown_timeout_late_nil_witness :
    ∃ s s', run (init 4 1 false) (timeoutLateNilSchedule.take 7) = some s ∧
      run (init 4 1 false) timeoutLateNilSchedule = some s' ∧
      ShutdownTimedOut_applies s = true ∧ ShutdownReturnedNil s [1] ∧ s.exported = [] ∧ s.droppedIds = [] ∧
      s.w = .run ∧ s'.exported = [[1]] ∧ s'.busy = some .worker := by
  refine ⟨_, _, rfl, rfl, ?_⟩
  refine ⟨by decide, Or.inr ⟨⟨1, [1], true⟩, by decide, rfl, rfl⟩, by decide, by decide, by decide, by decide, by decide⟩

/-- S4 and S5 for every nil return of a Shutdown call, without the hypothesis that the winning call's context did not
end — NOT a theorem of the current code (known finding F47) -/
def bsp_shutdown_nil_return_full_statement : Prop :=
  ∀ (cap maxB : Nat) (blocking : Bool), 1 ≤ maxB → ∀ s, Reachable cap maxB blocking s →
    ∀ pre, ShutdownReturnedNil s pre → s.w = .exited ∧ ∀ id ∈ s.sdPre, id ∈ s.exported.flatten ∨ id ∈ s.droppedIds

theorem bsp_shutdown_nil_return_full_statement_refuted : ¬ bsp_shutdown_nil_return_full_statement := by
  intro hfull
  obtain ⟨s, _, hrun, _, _, hret, _, _, hw, _, _⟩ := bsp_shutdown_timeout_late_nil_witness
  have hreach : Reachable 4 1 false s := run_reachable _ _ _ Reachable.init hrun
  have h1 := (hfull 4 1 false (by omega) s hreach [1] hret).1
  rw [hw] at h1
  cases h1

/-- the F47 classification is tight: a Shutdown call other than the winner returns nil before the winner's once-function
has returned nil only if the winner's context has ended (`ShutdownTimedOut_applies`) — otherwise every nil return has
all the guarantees (`shutdown_returned_done`, `bsp_quiet_after_shutdown`, `bsp_shutdown_delivers`). -/
theorem bsp_shutdown_early_nil_implies_timeout (hpos : 1 ≤ maxB) (s : St) (h : Reachable cap maxB blocking s)
    (pre : List Nat) (hret : ShutdownReturnedNil s pre) (hnot : s.sdRetOk = false) :
    ShutdownTimedOut_applies s = true := by
  have hi := inv_reachable cap maxB blocking hpos s h
  rcases hret with ⟨hr, _⟩ | ⟨c, hc, hcr, _⟩
  · rw [hnot] at hr; cases hr
  · rcases hi.l.retDone c hc hcr with h1 | h1
    · rw [hnot] at h1; cases h1
    · exact h1

/-- non-vacuity: the winning call's context ends while the worker is inside the exporter; the goroutine goes on, the
drain completes, both spans are delivered, the exporter is shut down; a Shutdown call made after that returns nil. -/
example : ∃ s, run (init 4 1 false)
    [.accept 1, .send 1, .accept 2, .send 2, .wRecv, .wAppend, .wExportStart, .sdCall, .sdStore, .sdClose, .sdTimeout,
     .exportEnd true, .wStop, .wRecv, .wAppend, .wExportStart, .exportEnd false, .wDrainEmpty, .wExportStart,
     .sdExporterShutdown, .sdCallLate 1, .sdReturnLate 1] = some s ∧
    s.exported = [[1], [2]] ∧ s.sd = .shut ∧ s.sdRetErr = true ∧ s.sdRetOk = false ∧
    step s .sdReturnOk = none ∧ s.sds = [⟨1, [2, 1], true⟩] := by
  refine ⟨_, rfl, ?_⟩
  decide

/-! ### Refinement: the processor behaves like a bounded FIFO buffer with a drop counter -/

/-- refinement — seen through the abstraction `absF` (buffer = batch ++ the worker's hand ++ the spans of the queue,
oldest first; output = the exporter's log; the dropped ids; `pushed` = the ghost order of the successful queue sends),
every step of the LTS — any thread, any interleaving, the whole ForceFlush / Shutdown / timeout protocol — is a step of
the specification `Spec.fifoStep` (SpecFifo.lean: nothing / a span enters the buffer / a span is dropped, only in
non-blocking mode / the oldest `k ≤ maxB` spans leave as one batch), and every reachable state maps to a reachable
state of the specification. -/
theorem bsp_refines_fifo (hpos : 1 ≤ maxB) (s : St) (h : Reachable cap maxB blocking s) :
    Spec.FifoReach cap maxB blocking (absF s) ∧
    ∀ l s', step s l = some s' → Spec.fifoStep cap maxB blocking (absF s) (absF s') := by
  refine ⟨refines_reachable hpos h, ?_⟩
  intro l s' hs
  have hcfg := reachable_cfg h
  have := refines_step s s' l (inv_reachable cap maxB blocking hpos s h).b (invQ_reachable h) hs
  rw [hcfg.1, hcfg.2.1, hcfg.2.2] at this
  exact this

/-- first in, first out — obtained from the specification alone (`Spec.fifoReach_facts`) through the refinement: in
every reachable state the exporter's log, followed by the batch, the worker's hand and the spans of the queue, is
exactly the sequence of spans in the order of their successful queue sends: no span overtakes another, none is lost or
duplicated on the way; no export batch is empty or larger than `maxB`; at most `cap + maxB + 1` spans are buffered. -/
theorem bsp_fifo_order (hpos : 1 ≤ maxB) (s : St) (h : Reachable cap maxB blocking s) :
    s.exported.flatten ++ (s.batch ++ handL s.hand ++ spansOf s.queue) = s.sent ∧
    (∀ b ∈ s.exported, 1 ≤ b.length ∧ b.length ≤ maxB) ∧
    (s.batch ++ handL s.hand ++ spansOf s.queue).length ≤ cap + maxB + 1 :=
  let f := Spec.fifoReach_facts (refines_reachable hpos h)
  ⟨f.1, f.2.1, f.2.2.1⟩

/-- bounded buffer with drop — the `send` step of an `OnEnd` (`enqueueDrop` / `enqueueBlockOnQueueFull`): if the queue
channel has a free slot the span is appended to it and nothing is counted; the dropped counter moves only when the
channel is full and the processor is in non-blocking mode, and then by exactly this span. (A flush marker occupies a
slot of the channel like a span: "full" is about the channel, not about the number of spans.) -/
theorem bsp_drop_only_when_queue_full (s s' : St) (id : Nat) (hs : step s (.send id) = some s') :
    (s.queue.length < s.cap → s'.queue = s.queue ++ [.span id] ∧ s'.droppedIds = s.droppedIds) ∧
    (s'.droppedIds ≠ s.droppedIds →
      s.cap ≤ s.queue.length ∧ s.blocking = false ∧ s'.droppedIds = id :: s.droppedIds ∧ s'.queue = s.queue) := by
  simp only [step] at hs
  repeat' (split at hs)
  all_goals (try (simp at hs))
  all_goals (try subst hs)
  all_goals (constructor <;> intro h1 <;> simp_all <;> omega)

/-- non-vacuity: `demoSchedule` — three spans entered the buffer in the order 1, 2, 4 (span 3 was dropped) and left it
in that order. -/
example : ∃ s, run (init 2 2 false) demoSchedule = some s ∧ s.sent = [1, 2, 4] ∧ s.exported.flatten = [1, 2, 4] ∧
    (absF s).dropped = [3] := by
  refine ⟨_, rfl, ?_⟩
  decide

/-! ### Liveness under explicit fairness hypotheses, in quantitative form -/

/-- the worker's work is bounded by the offered load — for EVERY run of the LTS from a reachable state (every
interleaving of every thread, timers, cancellations, Shutdown): the number of disciplined worker-side steps taken in
the run (`fairCount`: the steps of the worker goroutine and the returns of exporter calls; a firing of the batch timer
counts only when the queue is empty and the batch is not) plus the remaining potential is at most the initial
potential `workPot s` plus the load offered during the run (`loadSum`: 5 per span or flush marker that enters the
queue, 1 per export made by a ForceFlush, 2 per firing of the timer while the worker had something else to do). So, under
the fairness hypotheses (i) the worker and the exporter keep taking steps and (ii) the timer does not fire for ever
between two receives (in the program it fires once per BatchTimeout), a run in which the other threads stop offering
work contains only finitely many worker steps: it reaches a state in which none is enabled — and that state is
characterised by `bsp_worker_quiescent_delivered`. -/
theorem bsp_worker_work_bounded (hpos : 1 ≤ maxB) (s s' : St) (ls : List Lbl) (h : Reachable cap maxB blocking s)
    (hr : run s ls = some s') :
    workPot s' + fairCount s ls ≤ workPot s + loadSum s ls :=
  work_run s s' ls (inv_reachable cap maxB blocking hpos s h) hr

/-- every accepted span is eventually exported or dropped if the worker keeps taking steps — the end point: in a
reachable state in which no disciplined worker-side step is enabled (`WorkerQuiescent`: the worker has done everything
it can do), either the worker sits in `processQueue` with the queue, its hand and the batch empty, nobody inside the
exporter and `stopCh` open, and EVERY span whose `End` has returned is in the exporter's log or was counted as dropped;
or the worker has exited (after a Shutdown), and every such span is in the exporter's log, counted as dropped, or a late
span left in the queue (known finding F41). -/
theorem bsp_worker_quiescent_delivered (hpos : 1 ≤ maxB) (s : St) (h : Reachable cap maxB blocking s)
    (hq : WorkerQuiescent s) :
    (s.w = .run ∧ s.queue = [] ∧ s.busy = none ∧
      ∀ id ∈ s.seen, id ∈ s.exported.flatten ∨ id ∈ s.droppedIds) ∨
    (s.w = .exited ∧ s.busy = none ∧
      ∀ id ∈ s.seen, id ∈ s.exported.flatten ∨ id ∈ s.droppedIds ∨ (LateEnd_applies s = true ∧ id ∈ spansOf s.queue)) := by
  have hi := inv_reachable cap maxB blocking hpos s h
  rcases quiescent_shape s hi.c hq with ⟨hw, hqu, hh, hb, hbz, _⟩ | ⟨hw, hbz⟩
  · left
    refine ⟨hw, hqu, hbz, ?_⟩
    intro id hid
    have hpl := hi.d.seenPlaced id hid
    unfold placed at hpl
    simpa [hqu, hh, hb, spansOf, handL] using hpl
  · right
    refine ⟨hw, hbz, ?_⟩
    intro id hid
    have hcl := hi.c.exitedClean hw
    have hpl := hi.d.seenPlaced id hid
    unfold placed at hpl
    simp only [hcl.1, hcl.2.2, handL, List.not_mem_nil, false_or] at hpl
    rcases hpl with h1 | h1 | h1
    · refine Or.inr (Or.inr ⟨?_, h1⟩)
      have hne : spansOf s.queue ≠ [] := List.ne_nil_of_mem h1
      simp [LateEnd_applies, hw, hne]
    · exact Or.inl h1
    · exact Or.inr (Or.inl h1)

/-- with no load offered the worker finishes within `workPot s` steps: a run that consists of disciplined worker-side
steps only has length at most `workPot s` (no livelock of the worker under the timer discipline). -/
theorem bsp_worker_terminates (hpos : 1 ≤ maxB) (s s' : St) (ls : List Lbl) (h : Reachable cap maxB blocking s)
    (hr : run s ls = some s') (hfair : fairCount s ls = ls.length) (hload : loadSum s ls = 0) :
    ls.length ≤ workPot s := by
  have := bsp_worker_work_bounded hpos s s' ls h hr
  omega

/-- non-vacuity: three queued spans, batch size 2: the worker alone (receive, append, receive, append, export, return,
receive, append, timer, export, return — 11 disciplined steps, no load, potential 21) reaches a quiescent state with
everything exported. -/
example : ∃ s s', run (init 4 2 false) [.accept 1, .send 1, .accept 2, .send 2, .accept 3, .send 3] = some s ∧
    run s [.wRecv, .wAppend, .wRecv, .wAppend, .wExportStart, .exportEnd true, .wRecv, .wAppend, .wTimer,
           .wExportStart, .exportEnd false] = some s' ∧
    workPot s = 21 ∧ workPot s' = 6 ∧ s'.exported = [[1, 2], [3]] ∧ s'.queue = [] ∧ s'.batch = [] ∧
    fairCount s [.wRecv, .wAppend, .wRecv, .wAppend, .wExportStart, .exportEnd true, .wRecv, .wAppend, .wTimer,
           .wExportStart, .exportEnd false] = 11 ∧
    loadSum s [.wRecv, .wAppend, .wRecv, .wAppend, .wExportStart, .exportEnd true, .wRecv, .wAppend, .wTimer,
           .wExportStart, .exportEnd false] = 0 := by
  refine ⟨_, _, rfl, rfl, ?_⟩
  decide

/-! ### Known finding F47 at the level of histories -/

/-- the F47 classification cannot hide anything else — for ANY history (any scanner state): the oracle newly raises its
F47 flag only at a nil return of a Shutdown call, only after some Shutdown call has returned an error (only the call
that won `stopOnce` can: its context ended) and before the exporter's Shutdown has ended; the step adds no violated
clause and does not mark Shutdown as returned (so S4 is not applied to the exports of the drain that is still running).
Every clause that does not depend on a nil return — S1, S2, S3 (overlap, exporter Shutdown during an export, export
after the exporter's Shutdown), S6 — is judged as before, and nil returns after the exporter's Shutdown are judged in
full. -/
theorem hist_f47_only_after_error_return (bl : Bool) (d : Nat) (c : Spec.Scan) (ev : Spec.Ev)
    (hnew : (Spec.scanStep bl d c ev).f47 = true) (hold : c.f47 = false) :
    ev = .sdReturned true ∧ c.sdErr = true ∧ c.expShutdownDone = false ∧ (Spec.scanStep bl d c ev).bad = c.bad ∧
    (Spec.scanStep bl d c ev).sdReturnedOk = c.sdReturnedOk :=
  scanStep_f47_new bl d c ev hnew hold

/-- F47 at the level of the model's histories — for EVERY history of the model (runs with Shutdown contexts that end
included): the scanner's "a Shutdown call returned an error" flag is the model's `sdRetErr`, and the oracle raises its
F47 flag only if the winning call's context has ended in that run (`ShutdownTimedOut_applies`). -/
theorem bsp_model_history_f47_only_timeout (s : St) (h : List Spec.Ev) (hr : ReachableH cap maxB blocking s h)
    (bl : Bool) (dropped : Nat) :
    (h.foldl (Spec.scanStep bl dropped) {}).sdErr = s.sdRetErr ∧
    (Spec.histF47 bl dropped h = true → ShutdownTimedOut_applies s = true) := by
  have he := scan_sdErr_eq hr bl dropped
  refine ⟨he, ?_⟩
  intro hf
  have := foldl_f47_inv bl dropped h {} (by simp) hf
  rw [he] at this
  exact this

/-- non-vacuity for F47: the history of `timeoutLateNilSchedule` — the winning call returns an error, the second call
returns nil at once, the export of span 1 follows: the oracle raises its F47 flag and reports no violated clause; and
the history of the run in which the drain completes before a further call returns nil raises nothing; after the
exporter's Shutdown a nil return is judged in full again (a missing span is S5, a later export S3 and S4). -/
example : ∃ r, runH (init 4 1 false) [] timeoutLateNilSchedule = some r ∧
    r.2 = [.ended 1, .sdCalled, .sdReturned false, .sdCalled, .sdReturned true, .exportStart [1]] ∧
    Spec.histJudge 1 false 0 r.2 = ([], false) ∧ Spec.histF47 false 0 r.2 = true ∧
    Spec.histF47 false 0 [.ended 1, .sdCalled, .sdReturned false, .exportStart [1], .exportEnd, .expShutdownStart,
      .expShutdownEnd, .sdCalled, .sdReturned true] = false ∧
    Spec.histJudge 1 false 0 [.ended 1, .ended 2, .sdCalled, .sdReturned false, .exportStart [1], .exportEnd,
      .expShutdownStart, .expShutdownEnd, .sdCalled, .sdReturned true, .exportStart [2]] =
      (["S3:export-after-exporter-shutdown", "S4:export-after-shutdown", "S5:shutdown"], false) := by
  refine ⟨_, rfl, ?_⟩
  decide

/-! ### Liveness over infinite runs -/

/-- every accepted span is eventually exported or dropped — infinite runs. `σ`/`lb` is an infinite run of the LTS from a
reachable state (any interleaving of all threads). Hypotheses: (finite load) from some index `N` on no step offers new
work to the worker (`load = 0`: no span or flush marker enters the queue, no ForceFlush export starts, the batch timer
fires only when the worker is otherwise idle with a non-empty batch); (fairness towards the worker) infinitely often
the step taken is a disciplined worker-side step, or none is enabled. Conclusion: for every index `n` there is a later
index `m` at which no worker-side step is enabled, i.e. (`bsp_worker_quiescent_delivered`) every span whose `End` has
returned by then is in the exporter's log or counted as dropped — or the worker has exited after a Shutdown and what
remains are late spans of F41. The variant is `workPot`: from `N` on it never increases and every disciplined
worker-side step decreases it (`work_step`). -/
theorem bsp_fair_run_delivers (hpos : 1 ≤ maxB) (σ : Nat → St) (lb : Nat → Lbl)
    (h0 : Reachable cap maxB blocking (σ 0)) (hrun : ∀ n, step (σ n) (lb n) = some (σ (n + 1)))
    (N : Nat) (hload : ∀ n, N ≤ n → load (σ n) (lb n) = 0)
    (hfair : ∀ n, ∃ m, n ≤ m ∧ (fairWorker (σ m) (lb m) = true ∨ WorkerQuiescent (σ m))) :
    ∀ n, ∃ m, n ≤ m ∧ WorkerQuiescent (σ m) ∧
      (((σ m).w = .run ∧ (σ m).queue = [] ∧ (σ m).busy = none ∧
        ∀ id ∈ (σ m).seen, id ∈ (σ m).exported.flatten ∨ id ∈ (σ m).droppedIds) ∨
      ((σ m).w = .exited ∧ (σ m).busy = none ∧
        ∀ id ∈ (σ m).seen, id ∈ (σ m).exported.flatten ∨ id ∈ (σ m).droppedIds ∨
          (LateEnd_applies (σ m) = true ∧ id ∈ spansOf (σ m).queue))) := by
  have hreach : ∀ n, Reachable cap maxB blocking (σ n) := by
    intro n
    induction n with
    | zero => exact h0
    | succ k ih => exact Reachable.step (lb k) ih (hrun k)
  have hI : ∀ n, Inv (σ n) := fun n => inv_reachable cap maxB blocking hpos _ (hreach n)
  have hstep : ∀ n, N ≤ n →
      workPot (σ (n + 1)) + (if fairWorker (σ n) (lb n) then 1 else 0) ≤ workPot (σ n) := by
    intro n hn
    have := work_step (σ n) (σ (n + 1)) (lb n) (hI n).b (hI n).c (hrun n)
    rw [hload n hn] at this
    exact this
  have hmono : ∀ k n, N ≤ n → workPot (σ (n + k)) ≤ workPot (σ n) := by
    intro k
    induction k with
    | zero => intro n _; exact Nat.le_refl _
    | succ k ih =>
      intro n hn
      have h1 := hstep (n + k) (by omega)
      have h2 := ih n hn
      have : n + (k + 1) = n + k + 1 := by omega
      rw [this]
      omega
  -- from every index at or after N a quiescent state is reached: induction on the variant
  have key : ∀ p n, N ≤ n → workPot (σ n) ≤ p → ∃ m, n ≤ m ∧ WorkerQuiescent (σ m) := by
    intro p
    induction p with
    | zero =>
      intro n hn hp
      obtain ⟨m, hm, hf⟩ := hfair n
      rcases hf with hf | hf
      · exfalso
        have h1 := hstep m (by omega)
        have h2 := hmono (m - n) n hn
        have : n + (m - n) = m := by omega
        rw [this] at h2
        simp only [hf, if_true] at h1
        omega
      · exact ⟨m, hm, hf⟩
    | succ p ih =>
      intro n hn hp
      obtain ⟨m, hm, hf⟩ := hfair n
      rcases hf with hf | hf
      · have h1 := hstep m (by omega)
        have h2 := hmono (m - n) n hn
        have : n + (m - n) = m := by omega
        rw [this] at h2
        simp only [hf, if_true] at h1
        obtain ⟨m', hm', hq⟩ := ih (m + 1) (by omega) (by omega)
        exact ⟨m', by omega, hq⟩
      · exact ⟨m, hm, hf⟩
  intro n
  obtain ⟨m, hm, hq⟩ := key (workPot (σ (max n N))) (max n N) (Nat.le_max_right n N) (Nat.le_refl _)
  refine ⟨m, by have := Nat.le_max_left n N; omega, hq, ?_⟩
  exact bsp_worker_quiescent_delivered hpos (σ m) (hreach m) hq

end Otel.C01
