/-
C01 — property theorems about the batch span processor LTS (Model.lean), for every reachable state,
i.e. every interleaving of any number of producers, ForceFlush callers, the worker and Shutdown,
every queue capacity, every batch size ≥ 1, blocking or not, every exporter result and delay, and
the batch timer firing at any moment.
-/
import Otel.C01.Lemmas3
import Otel.C01.Progress
import Otel.C01.Spec
import Otel.C01.HistorySim
namespace Otel.C01

variable {cap maxB : Nat} {blocking : Bool}

/-- S1 — no span is ever exported twice (`Spec.noDuplicate` of the exporter's log). -/
theorem bsp_no_duplicate (hpos : 1 ≤ maxB) (s : St) (h : Reachable cap maxB blocking s) :
    Spec.noDuplicate s.exported = true := by
  have hi := (inv_reachable cap maxB blocking hpos s h).a
  simp only [Spec.noDuplicate, decide_eq_true_eq]
  rw [List.nodup_iff_count]
  intro a
  have h1 := hi.cnt a
  have h2 := (List.nodup_iff_count.mp hi.nodup) a
  simp only [allIds, List.count_append] at h1
  omega

/-- conservation: every accepted span id is in exactly one place (in flight to the queue, queued, in the
worker's hand, in the batch, in the exporter's log, or counted as dropped). -/
theorem bsp_conservation (hpos : 1 ≤ maxB) (s : St) (h : Reachable cap maxB blocking s) (a : Nat) :
    (allIds s).count a = (if a ∈ s.accepted then 1 else 0) := by
  have hi := (inv_reachable cap maxB blocking hpos s h).a
  rw [hi.cnt a]
  split
  · rename_i hm
    have := (List.nodup_iff_count.mp hi.nodup) a
    have hp : 0 < s.accepted.count a := List.count_pos_iff.mpr hm
    omega
  · rename_i hm
    exact List.count_eq_zero.mpr hm

/-- S2 — no export batch is larger than the configured maximum. -/
theorem bsp_batch_bound (hpos : 1 ≤ maxB) (s : St) (h : Reachable cap maxB blocking s) :
    Spec.batchBound s.maxB s.exported = true := by
  have hi := (inv_reachable cap maxB blocking hpos s h).b
  simp only [Spec.batchBound, List.all_eq_true, decide_eq_true_eq]
  exact hi.expB

/-- S6 — only spans whose `OnEnd` was called (sampled, before the processor was stopped) are exported. -/
theorem bsp_only_ended_sampled (hpos : 1 ≤ maxB) (s : St) (h : Reachable cap maxB blocking s) :
    Spec.onlyEnded s.exported s.accepted = true := by
  have hi := (inv_reachable cap maxB blocking hpos s h).a
  simp only [Spec.onlyEnded, List.all_eq_true, List.contains_iff_mem]
  intro a ha
  have h1 := hi.cnt a
  have hp : 0 < s.exported.flatten.count a := List.count_pos_iff.mpr ha
  simp only [allIds, List.count_append] at h1
  exact List.count_pos_iff.mp (by omega)

/-- S3 — the exporter is entered only while nobody else is inside it (the step that appends to the
exporter's log starts from a state where the batch mutex is free and takes it), and the exporter's
`Shutdown` is called only when no `ExportSpans` call is in progress and none can start any more. -/
theorem bsp_exporter_exclusive (hpos : 1 ≤ maxB) (s s' : St) (l : Lbl) (h : Reachable cap maxB blocking s)
    (hs : step s l = some s') :
    (s'.exported ≠ s.exported → s.busy = none ∧ s'.busy ≠ none) ∧
    (l = .sdExporterShutdown → s.busy = none ∧ s.batch = [] ∧ s.hand = none ∧ s.w = .exited) := by
  have hc := (inv_reachable cap maxB blocking hpos s h).c
  constructor
  · intro hne
    cases l <;> simp only [step] at hs
    all_goals (
      repeat' (split at hs)
      all_goals (try (simp at hs))
      all_goals (try subst hs)
      all_goals (first | (exfalso; exact hne rfl) | simp_all))
  · intro hl
    subst hl
    simp only [step] at hs
    split at hs
    · rename_i hg
      have := hc.exitedClean hg.2
      exact ⟨this.2.1, this.1, this.2.2, hg.2⟩
    · simp at hs

/-- S4 — nothing is exported after `Shutdown` has returned nil: from then on no step changes the
exporter's log. -/
theorem bsp_quiet_after_shutdown (hpos : 1 ≤ maxB) (s s' : St) (l : Lbl) (h : Reachable cap maxB blocking s)
    (hret : s.sdRetOk = true) (hs : step s l = some s') : s'.exported = s.exported ∧ s'.sdRetOk = true := by
  have hc := (inv_reachable cap maxB blocking hpos s h).c
  have hw := hc.shutExited (hc.retSd hret)
  have hcl := hc.exitedClean hw
  cases l <;> simp only [step] at hs
  all_goals (
    repeat' (split at hs)
    all_goals (try (simp at hs))
    all_goals (try subst hs)
    all_goals (first | exact ⟨rfl, hret⟩ | simp_all))

/-- S5 for `Shutdown` — when `Shutdown` has returned nil, every span whose `End` had returned before
`Shutdown` was called is in the exporter's log or was counted as dropped; and spans are dropped only in
non-blocking mode. -/
theorem bsp_shutdown_delivers (hpos : 1 ≤ maxB) (s : St) (h : Reachable cap maxB blocking s)
    (hret : s.sdRetOk = true) :
    (∀ id ∈ s.sdPre, id ∈ s.exported.flatten ∨ id ∈ s.droppedIds) ∧ (s.droppedIds ≠ [] → s.blocking = false) := by
  have hi := inv_reachable cap maxB blocking hpos s h
  have hw := hi.c.shutExited (hi.c.retSd hret)
  exact ⟨hi.f.exitedOK hw, hi.d.dropNB⟩

/-- no deadlock on the Shutdown path — in every reachable state in which `Shutdown` has been called and has not
yet returned, some internal step is enabled (a step of the worker or of the shutdown goroutine, or the return
of the exporter call in progress): Shutdown never waits for something that cannot happen. The exporter is
assumed to return eventually; fairness (hence termination) is not claimed. -/
theorem bsp_shutdown_never_stuck (hpos : 1 ≤ maxB) (s : St) (h : Reachable cap maxB blocking s)
    (hsd : s.sd ≠ .none) (hret : s.sdRetOk = false) :
    ∃ l, l.internal = true ∧ (step s l).isSome = true :=
  shutdown_progress_of_inv s (inv_reachable cap maxB blocking hpos s h).c hsd hret

/-- F22 exclusion predicate: this ForceFlush returned nil through one of the two early exits taken when a
Shutdown is in progress (`stopped` already set, or `stopCh` winning the select). -/
def F22_applies (f : FF) : Bool := f.ph == .retEarly

/-- S5 for `ForceFlush`, partial: when a ForceFlush has returned nil after its own export (i.e. not through
the early exits of F22), every span whose `End` had returned before it was called is in the exporter's log
or was counted as dropped. -/
theorem bsp_forceflush_delivers_partial (hpos : 1 ≤ maxB) (s : St) (h : Reachable cap maxB blocking s)
    (f : FF) (hf : f ∈ s.ffs) (hret : f.ph = .retOk) :
    ∀ id ∈ f.pre, id ∈ s.exported.flatten ∨ id ∈ s.droppedIds := by
  have hi := (inv_reachable cap maxB blocking hpos s h).e.ok f hf
  unfold ffOK at hi
  simp only [hret] at hi
  exact hi

/-- the full statement of S5 for ForceFlush (every nil return, including the early exits) — NOT a theorem
of the current code, see the witness below -/
def bsp_forceflush_delivers_full_statement : Prop :=
  ∀ (cap maxB : Nat) (blocking : Bool), 1 ≤ maxB → ∀ s, Reachable cap maxB blocking s →
    ∀ f ∈ s.ffs, (f.ph = .retOk ∨ f.ph = .retEarly) → ∀ id ∈ f.pre, id ∈ s.exported.flatten ∨ id ∈ s.droppedIds

/-- the schedule of F22: two spans are queued, the worker is inside the exporter with the first one,
Shutdown is called, a ForceFlush then returns nil at once although span 2 has not been exported. -/
def f22Schedule : List Lbl :=
  [.accept 1, .send 1, .accept 2, .send 2, .wRecv, .wAppend, .wExportStart, .sdCall, .sdStore,
   .ffCall 7, .ffCheck 7]

theorem bsp_forceflush_early_return_witness :
    ∃ s, run (init 4 1 false) f22Schedule = some s ∧
      ∃ f ∈ s.ffs, F22_applies f = true ∧ ∃ id ∈ f.pre, ¬ (id ∈ s.exported.flatten ∨ id ∈ s.droppedIds) := by
  refine ⟨_, rfl, ?_⟩
  decide

theorem run_reachable (s : St) (ls : List Lbl) (s' : St) (h : Reachable cap maxB blocking s)
    (hr : run s ls = some s') : Reachable cap maxB blocking s' := by
  induction ls generalizing s with
  | nil => simp [run] at hr; subst hr; exact h
  | cons l ls ih =>
    simp only [run] at hr
    split at hr
    · rename_i s1 hs1
      exact ih s1 (Reachable.step l h hs1) hr
    · simp at hr

/-- hence the full statement is false for the model of the current code -/
theorem bsp_forceflush_full_statement_refuted : ¬ bsp_forceflush_delivers_full_statement := by
  intro hfull
  obtain ⟨s, hrun, f, hf, hF, id, hid, hno⟩ := bsp_forceflush_early_return_witness
  have hreach : Reachable 4 1 false s := run_reachable _ _ _ Reachable.init hrun
  have : f.ph = .retEarly := by simpa [F22_applies] using hF
  exact hno (hfull 4 1 false (by omega) s hreach f hf (Or.inr this) id hid)

/-- non-vacuity: a reachable state with two exports (one by the worker because the batch is full, one by
a ForceFlush that returned nil normally), one dropped span and a completed Shutdown. -/
def demoSchedule : List Lbl :=
  [.accept 1, .send 1, .accept 2, .send 2, .accept 3, .send 3,      -- cap 2: span 3 is dropped
   .wRecv, .wAppend, .wRecv, .wAppend, .wExportStart, .exportEnd,    -- batch [1,2] exported by the worker
   .accept 4, .send 4, .ffCall 1, .ffCheck 1, .ffEnqueue 1, .wRecv, .wAppend, .wRecv,
   .ffExportStart 1, .ffExportEndOk 1,                               -- [4] exported by the ForceFlush
   .sdCall, .sdStore, .sdClose, .wStop, .wDrainEmpty, .wExportStart, .sdExporterShutdown, .sdReturnOk]

example : ∃ s, run (init 2 2 false) demoSchedule = some s ∧ s.exported = [[1, 2], [4]] ∧ s.droppedIds = [3] ∧
    s.sdRetOk = true ∧ s.ffs.any (fun f => f.ph == .retOk && f.pre == [4, 3, 2, 1]) = true := by
  refine ⟨_, rfl, ?_⟩
  decide

/-! ### The model's histories pass the run-time history oracle

The free-running stress leg records a history of `Spec.Ev` events from the real code and the driver judges it
with `Spec.histCheck` (through `Spec.histJudge`). `emit` (History.lean) stamps the same events on the steps of
the LTS; `ReachableH cap maxB blocking s h` says that the model can reach `s` producing the history `h`. -/

/-- the scanner of the history oracle, run over any history `h` of the model, mirrors the model's ghost state
(`Sim`, HistorySim.lean): its exporter log is `s.exported`, "inside the exporter" is `s.busy.isSome`, its set of
ended spans is `s.seen`, its `pre` sets of the ForceFlush calls and of Shutdown are the model's, "Shutdown
called / returned nil / exporter shut down" agree with `s.sd` / `s.sdRetOk`, **its list of violated clauses is
empty**, and its F22 flag is raised only if Shutdown has been called and some ForceFlush took an early exit.
`dropped` is the value of the processor's dropped counter reported at the end of the run: any number that is at
least the number of spans the model dropped. -/
theorem bsp_model_history_simulation (hpos : 1 ≤ maxB) (s : St) (h : List Spec.Ev)
    (hr : ReachableH cap maxB blocking s h) (dropped : Nat) (hd : s.droppedIds.length ≤ dropped) :
    Sim s (h.foldl (Spec.scanStep s.blocking dropped) {}) := by
  rw [(reachable_cfg hr.reachable).2.2]
  exact sim_reachableH hpos dropped s h hr hd

/-- S1–S6 at the level of histories — every history `h` the model can produce passes the very oracle
`Spec.histCheck` that judges the histories recorded from the real code: the list of violated clauses is empty.
Arguments of the oracle: `s.maxB`, `s.blocking` = the configuration; `dropped` = the dropped counter reported
at the end of the run (any value ≥ the number of spans the model dropped; the real counter is exact);
`allEnded := s.accepted` = every sampled span id whose `OnEnd` passed the `stopped` check (a superset of the
ids whose `End` returned); `allUnsampled := []` (unsampled spans are not modelled: the processor discards them
before touching shared state); `h` = the history. -/
theorem bsp_model_history_passes_oracle (hpos : 1 ≤ maxB) (s : St) (h : List Spec.Ev)
    (hr : ReachableH cap maxB blocking s h) (dropped : Nat) (hd : s.droppedIds.length ≤ dropped) :
    (Spec.histCheck s.maxB s.blocking dropped s.accepted [] h).1 = [] := by
  have hsim := bsp_model_history_simulation hpos s h hr dropped hd
  have hreach := hr.reachable
  have h1 := bsp_no_duplicate hpos s hreach
  have h2 := bsp_batch_bound hpos s hreach
  have h6 := bsp_only_ended_sampled hpos s hreach
  simp only [Spec.histCheck, hsim.batches, hsim.bad, h1, h2, h6, if_true]
  simp

/-- the same with exactly the arguments the driver passes (`Spec.histJudge`, used by Main.lean): the sets of
ended sampled / unsampled ids are read off the history itself, so S6 is judged against the `ended` events
only — every exported span has an `ended` event in the history. -/
theorem bsp_model_history_passes_driver_oracle (hpos : 1 ≤ maxB) (s : St) (h : List Spec.Ev)
    (hr : ReachableH cap maxB blocking s h) (dropped : Nat) (hd : s.droppedIds.length ≤ dropped) :
    (Spec.histJudge s.maxB s.blocking dropped h).1 = [] := by
  have hsim := bsp_model_history_simulation hpos s h hr dropped hd
  have hreach := hr.reachable
  have h1 := bsp_no_duplicate hpos s hreach
  have h2 := bsp_batch_bound hpos s hreach
  have hG := invG_reachable hreach
  have hended := scan_ended s.blocking dropped h {}
  rw [hsim.ended] at hended
  have h6 : Spec.onlyEnded s.exported (Spec.endedIds h) = true := by
    simp only [Spec.onlyEnded, List.all_eq_true, List.contains_iff_mem]
    intro a ha
    have : a ∈ s.seen := hG a (Or.inr (Or.inr (Or.inr (Or.inl ha))))
    rw [hended] at this
    simpa using this
  simp only [Spec.histJudge, Spec.histCheck, hsim.batches, hsim.bad, h1, h2, h6, if_true,
    (reachableH_no_unsampled hr).1]
  simp

/-- known finding F22 at the level of histories — the oracle raises its F22 flag on a history of the model only
if that history contains the `sdCalled` event (a Shutdown had been called before the ForceFlush returned) and
the model took one of ForceFlush's two early exits (`F22_applies`). All other ForceFlush returns pass the
delivery check (previous theorems). -/
theorem bsp_model_history_f22_only_with_shutdown (hpos : 1 ≤ maxB) (s : St) (h : List Spec.Ev)
    (hr : ReachableH cap maxB blocking s h) (dropped : Nat) (hd : s.droppedIds.length ≤ dropped)
    (allEnded allUnsampled : List Nat)
    (hf : (Spec.histCheck s.maxB s.blocking dropped allEnded allUnsampled h).2 = true) :
    Spec.Ev.sdCalled ∈ h ∧ ∃ f ∈ s.ffs, F22_applies f = true := by
  have hsim := bsp_model_history_simulation hpos s h hr dropped hd
  simp only [Spec.histCheck] at hf
  refine ⟨?_, ?_⟩
  · rcases scan_sdCalled _ _ h {} (hsim.f22 hf) with hc | hc
    · simp at hc
    · exact hc
  · obtain ⟨f, hfm, hph⟩ := hsim.f22e hf
    exact ⟨f, hfm, by simp [F22_applies, hph]⟩

/-- non-vacuity: the history of `demoSchedule` — two exporter calls, a ForceFlush and a Shutdown that returned
nil, one dropped span — and the oracle's verdict on it. -/
example : ∃ r, runH (init 2 2 false) [] demoSchedule = some r ∧
    r.2 = [.ended 1, .ended 2, .ended 3, .exportStart [1, 2], .exportEnd, .ended 4, .ffCalled 1,
           .exportStart [4], .exportEnd, .ffReturned 1 true, .sdCalled, .expShutdownStart, .expShutdownEnd,
           .sdReturned true] ∧
    r.1.droppedIds.length = 1 ∧ Spec.histJudge 2 false 1 r.2 = ([], false) := by
  refine ⟨_, rfl, ?_⟩
  decide

/-- non-vacuity for F22: the history of `f22Schedule` raises the oracle's F22 flag (and nothing else). -/
example : ∃ r, runH (init 4 1 false) [] f22Schedule = some r ∧
    r.2 = [.ended 1, .ended 2, .exportStart [1], .sdCalled, .ffCalled 7, .ffReturned 7 true] ∧
    Spec.histJudge 1 false 0 r.2 = ([], true) := by
  refine ⟨_, rfl, ?_⟩
  decide

end Otel.C01
