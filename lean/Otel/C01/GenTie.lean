/-
C01 — generated tie.  `Otel.Gen.C01` is regenerated from /repo's current source by tools/go2lean on every run of
bin/check (checks/gentie.json); the theorems below are re-checked against the regenerated text.
Site: the exported defaults of the batch span processor (sdk/trace/batch_span_processor.go).  The C01 model is
parametric in the queue capacity `cap` and the maximum batch size `maxB`; its theorems need `1 ≤ maxB`.  The
theorems below state that the *default* configuration is an instance the C01 theorems apply to.
Also the two waiting protocols, as decision skeletons in which every `select` is a choice made by the environment (a
String parameter naming the communication that fires) and the leaves list the path's effects: the once-function of
`Shutdown` (stopped flag, drain goroutine, then wait-or-context: the model's labels sdReturnOk / sdTimeout) and
`ForceFlush` (guards, marker enqueue, stop / flushed / context: ffStopWins / ffExportStart / ffCancel, then
export-or-context).
-/
import Otel.Gen.C01
import Otel.C01.Model

namespace Otel.C01.GenTie
open Otel.C01

/-- the default queue capacity / batch size as the parameters of the C01 transition system -/
def genCap : Nat := Otel.Gen.C01.DefaultMaxQueueSize.toNat
def genMaxB : Nat := Otel.Gen.C01.DefaultMaxExportBatchSize.toNat

/-- values (sizes in spans; durations in milliseconds) -/
theorem gen_defaults_values :
    Otel.Gen.C01.DefaultMaxQueueSize = 2048 ∧ Otel.Gen.C01.DefaultMaxExportBatchSize = 512 ∧
    Otel.Gen.C01.DefaultScheduleDelay = 5000 ∧ Otel.Gen.C01.DefaultExportTimeout = 30000 := by decide

/-- the hypothesis `hpos : 1 ≤ maxB` of every C01 theorem holds for the default batch size, the default batch
fits the default queue, and the defaults are non-negative (so `NewBatchSpanProcessor` does not replace them) -/
theorem gen_defaults_side_conditions :
    1 ≤ genMaxB ∧ genMaxB ≤ genCap ∧ 0 ≤ Otel.Gen.C01.DefaultMaxQueueSize ∧ 0 ≤ Otel.Gen.C01.DefaultMaxExportBatchSize ∧
    0 < Otel.Gen.C01.DefaultScheduleDelay ∧ 0 < Otel.Gen.C01.DefaultExportTimeout := by decide

/-- the default-configured processor is the C01 transition system `init genCap genMaxB blocking`, whose initial
state is reachable — i.e. an instance every C01 theorem (quantified over `Reachable cap maxB blocking`) covers -/
theorem gen_default_instance_reachable (blocking : Bool) :
    Reachable genCap genMaxB blocking (init genCap genMaxB blocking) ∧ (init genCap genMaxB blocking).cap = 2048 ∧
    (init genCap genMaxB blocking).maxB = 512 := by
  exact ⟨Reachable.init, rfl, rfl⟩

/-! ### Shutdown: the function run under `stopOnce` -/

/-- the stopped flag is stored first, then the drain goroutine (close stopCh; wait for the worker; shut the exporter
down; close wait) is started, then the caller waits: `<-wait` returns nil (sdReturnOk), `<-ctx.Done()` returns
ctx.Err() (sdTimeout) — there is no third way out -/
theorem gen_shutdown_once_table (sel : String) :
    Otel.Gen.C01.shutdownOnce sel =
      (let pre := ["stopped=true", "go{close(stopCh);stopWait.Wait;exporter.Shutdown;close(wait)}"]
       if sel = "waitDone" then ("<end>", pre ++ ["select:waitDone"])
       else if sel = "ctxDone" then ("<end>", pre ++ ["select:ctxDone", "err=ctx.Err()"])
       else ("<blocked>", pre)) := by
  unfold Otel.Gen.C01.shutdownOnce
  by_cases h1 : sel = "waitDone" <;> by_cases h2 : sel = "ctxDone" <;> simp_all

/-! ### ForceFlush -/

/-- the effects of the export phase of ForceFlush: start the export goroutine, then export-done or context -/
def exportPhase (pre : List String) (sel2 : String) : String × List String :=
  if sel2 = "exportDone" then ("err", pre ++ ["go{wait<-exportSpans}", "select:exportDone"])
  else if sel2 = "ctxDone" then ("err", pre ++ ["go{wait<-exportSpans}", "select:ctxDone", "err=ctx.Err()"])
  else ("<blocked>", pre ++ ["go{wait<-exportSpans}"])

/-- `ForceFlush`: a cancelled context or a stopped processor return at once; without an exporter nothing happens;
otherwise the marker span is enqueued (blocking) and, if it was, the caller waits for stop (→ nil, nothing exported:
ffStopWins), the marker being flushed (→ export phase: ffExportStart) or the context (→ ctx.Err(): ffCancel); if the
marker could not be enqueued the export phase runs directly -/
theorem gen_force_flush_table (ctxDone stopped hasExp enq : Bool) (sel1 sel2 : String) :
    Otel.Gen.C01.forceFlush ctxDone stopped hasExp enq sel1 sel2 =
      (if ctxDone then ("err", [])
       else if stopped then ("nil", [])
       else if !hasExp then ("err", [])
       else if !enq then exportPhase [] sel2
       else if sel1 = "stopCh" then ("nil", ["select:stopCh"])
       else if sel1 = "flushed" then exportPhase ["select:flushed"] sel2
       else if sel1 = "ctxDone" then ("ctx.Err()", ["select:ctxDone"])
       else ("<blocked>", [])) := by
  unfold Otel.Gen.C01.forceFlush exportPhase
  cases ctxDone <;> cases stopped <;> cases hasExp <;> cases enq <;>
    by_cases h1 : sel1 = "stopCh" <;> by_cases h2 : sel1 = "flushed" <;> by_cases h3 : sel1 = "ctxDone" <;>
    by_cases h4 : sel2 = "exportDone" <;> by_cases h5 : sel2 = "ctxDone" <;> simp_all

/-- an export is started by ForceFlush only on a live processor with an exporter and a live context, and never after
the stop channel won the first select -/
theorem gen_force_flush_exports_only_when_live (ctxDone stopped hasExp enq : Bool) (sel1 sel2 : String)
    (h : "go{wait<-exportSpans}" ∈ (Otel.Gen.C01.forceFlush ctxDone stopped hasExp enq sel1 sel2).2) :
    ctxDone = false ∧ stopped = false ∧ hasExp = true ∧ (enq = true → sel1 = "flushed") := by
  rw [gen_force_flush_table] at h
  unfold exportPhase at h
  cases ctxDone <;> cases stopped <;> cases hasExp <;> cases enq <;>
    by_cases h1 : sel1 = "stopCh" <;> by_cases h2 : sel1 = "flushed" <;> by_cases h3 : sel1 = "ctxDone" <;>
    by_cases h4 : sel2 = "exportDone" <;> by_cases h5 : sel2 = "ctxDone" <;> simp_all

end Otel.C01.GenTie
