/-
C01 — specification predicates (no model internals): what an observer of the processor's API and of
the exporter may rely on. Each is executable; the driver evaluates them on histories recorded from the
real code, the theorems in Props.lean prove them for every reachable state of the model.
-/
namespace Otel.C01.Spec

/-- S1: no span id occurs twice in the exporter's log -/
def noDuplicate (batches : List (List Nat)) : Bool := decide batches.flatten.Nodup

/-- S2: no export batch is larger than the configured maximum -/
def batchBound (maxB : Nat) (batches : List (List Nat)) : Bool := batches.all (·.length ≤ maxB)

/-- S6: only spans that were ended (and sampled) are exported -/
def onlyEnded (batches : List (List Nat)) (ended : List Nat) : Bool := batches.flatten.all (ended.contains ·)

/-- S6, second half: no unsampled span id occurs in the exporter's log -/
def unsampledNotExported (batches : List (List Nat)) (unsampled : List Nat) : Bool :=
  !batches.flatten.any (unsampled.contains ·)

/-- S5 in its observable form: the spans ended before the call that are not in the exporter's log are
covered by the dropped counter, and nothing may be missing in blocking mode -/
def delivered (blocking : Bool) (pre : List Nat) (batches : List (List Nat)) (dropped : Nat) : Bool :=
  let missing := (pre.eraseDups.filter (fun id => !batches.flatten.contains id)).length
  missing ≤ dropped && (missing = 0 || !blocking)

/-! History events, in the order of their (linearizable) stamps. -/
inductive Ev where
  | ended (id : Nat)              -- End of a sampled span returned
  | endedUnsampled (id : Nat)
  | exportStart (b : List Nat)
  | exportEnd
  | ffCalled (fid : Nat)
  | ffReturned (fid : Nat) (ok : Bool)
  | sdCalled
  | sdReturned (ok : Bool)
  | expShutdownStart
  | expShutdownEnd
  | hang                          -- some ForceFlush or Shutdown call did not return within the harness's watchdog time
                                  -- (histories recorded before the events below existed do not say which)
  | hangSd                        -- … a Shutdown call
  | hangFF (fid : Nat) (full : Bool)   -- … the ForceFlush call `fid`; `full`: the harness (white-box) saw the queue
                                       -- filled to its capacity when the watchdog fired
  | hangEnd (id : Nat) (full : Bool)   -- … the End of span `id`, which had passed the processor's stopped check
deriving Repr, DecidableEq

structure Scan where
  ended : List Nat := []
  batches : List (List Nat) := []
  inExport : Bool := false
  inExpShutdown : Bool := false
  expShutdownDone : Bool := false
  sdCalled : Bool := false
  sdPre : List Nat := []
  sdReturnedOk : Bool := false
  ffPre : List (Nat × List Nat) := []
  bad : List String := []        -- violated clauses
  f22 : Bool := false            -- an early ForceFlush return during Shutdown with something missing [F22]
  sdPres : List (List Nat) := [] -- the spans ended before each Shutdown call, in call order
  sdOkRets : Nat := 0            -- number of Shutdown calls that have returned nil
  f41 : Bool := false            -- a later Shutdown call returned nil with only late spans of its own pre set missing [F41]
  sdErr : Bool := false          -- a Shutdown call has returned an error: only the call that won `stopOnce` can, its context ended
  f47 : Bool := false            -- a Shutdown call returned nil after that and before the exporter was shut down [F47]

def scanStep (blocking : Bool) (dropped : Nat) (s : Scan) : Ev → Scan
  | .ended id => { s with ended := id :: s.ended }
  | .endedUnsampled _ => s
  | .exportStart b =>
    let s := if s.inExport || s.inExpShutdown then { s with bad := "S3:overlap" :: s.bad } else s
    let s := if s.sdReturnedOk then { s with bad := "S4:export-after-shutdown" :: s.bad } else s
    let s := if s.expShutdownDone then { s with bad := "S3:export-after-exporter-shutdown" :: s.bad } else s
    { s with batches := s.batches ++ [b], inExport := true }
  | .exportEnd => { s with inExport := false }
  | .ffCalled fid => { s with ffPre := (fid, s.ended) :: s.ffPre }
  | .ffReturned fid ok =>
    if !ok then s else
    match s.ffPre.lookup fid with
    | none => { s with bad := "ff-return-without-call" :: s.bad }
    | some pre =>
      if delivered blocking pre s.batches dropped then s
      else if s.sdCalled then { s with f22 := true }     -- ForceFlush raced a Shutdown that had been called
      else { s with bad := "S5:forceflush" :: s.bad }
  | .sdCalled =>
    let s := { s with sdPres := s.sdPres ++ [s.ended] }
    if s.sdCalled then s else { s with sdCalled := true, sdPre := s.ended }
  | .sdReturned ok =>
    -- an error return: the context of the call that won `stopOnce` ended (the other calls wait in `Once.Do`, which has no
    -- context); the call is judged by the clauses that hold regardless (S1, S2, S3, S6, the exporter shut down at most once)
    if !ok then { s with sdErr := true } else
    -- known finding F47: after that, a Shutdown call returns nil at once although the shutdown goroutine is still draining;
    -- as long as the exporter has not been shut down such a nil return promises nothing (no S3-at-return, S4, S5 for it)
    if s.sdErr && !s.expShutdownDone then { s with f47 := true, sdOkRets := s.sdOkRets + 1 } else
    -- the events carry no caller identity: the j-th nil return is judged with the pre set of the j-th call. Among
    -- the calls that have returned nil by then at least one was called no earlier than the j-th call, so the
    -- demand is never more than what some returned call owes (and exact when calls return in call order).
    let own := s.sdPres[s.sdOkRets]?
    let s := { s with sdReturnedOk := true, sdOkRets := s.sdOkRets + 1 }
    if s.inExport then { s with bad := "S3:shutdown-returned-during-export" :: s.bad }
    else if delivered blocking s.sdPre s.batches dropped then
      -- everything ended before the FIRST Shutdown call is delivered; now the call's own pre set (the statement
      -- as written): what can still be missing ended after the first `sdCalled` — the late-span race F41
      match own with
      | none => { s with bad := "shutdown-return-without-call" :: s.bad }
      | some pre => if delivered blocking pre s.batches dropped then s else { s with f41 := true }
    else { s with bad := "S5:shutdown" :: s.bad }
  | .expShutdownStart =>
    let s := if s.inExport then { s with bad := "S3:exporter-shutdown-during-export" :: s.bad } else s
    { s with inExpShutdown := true }
  | .expShutdownEnd => { s with inExpShutdown := false, expShutdownDone := true }
  | .hang | .hangSd | .hangFF _ _ | .hangEnd _ _ => s     -- hung calls are judged by `histHangs`

/-- the whole-history oracle: returns the violated clauses (empty = ok) and the F22 flag; the F41 flag of the same
scan is `histF41` -/
def histCheck (maxB : Nat) (blocking : Bool) (dropped : Nat) (allEnded allUnsampled : List Nat) (h : List Ev) :
    List String × Bool :=
  let s := h.foldl (scanStep blocking dropped) {}
  let bad := s.bad
  let bad := if noDuplicate s.batches then bad else "S1:duplicate" :: bad
  let bad := if batchBound maxB s.batches then bad else "S2:batch-too-large" :: bad
  let bad := if onlyEnded s.batches allEnded then bad else "S6:unknown-span-exported" :: bad
  let bad := if unsampledNotExported s.batches allUnsampled then bad else "S6:unsampled-exported" :: bad
  (bad, s.f22)

/-- the F41 flag of the oracle: some Shutdown call other than the first returned nil while spans of its own pre set
were missing, all spans ended before the first Shutdown call being delivered (known finding F41) -/
def histF41 (blocking : Bool) (dropped : Nat) (h : List Ev) : Bool :=
  (h.foldl (scanStep blocking dropped) {}).f41

/-- the F47 flag of the oracle: a Shutdown call returned nil after another one had returned an error (the context of the
call that won `stopOnce` ended) and before the exporter's Shutdown ended (known finding F47) -/
def histF47 (blocking : Bool) (dropped : Nat) (h : List Ev) : Bool :=
  (h.foldl (scanStep blocking dropped) {}).f47

/-- what a history shows at the moment a hang event is stamped (`pre` = the events before it): has the exporter's
Shutdown ended (the processor calls it after the worker has exited), is a Shutdown call outstanding, and which
ForceFlush calls made before the first `sdCalled` have not returned -/
def hangDone (pre : List Ev) : Bool := pre.contains .expShutdownEnd

def hangSdOutstanding (pre : List Ev) : Bool :=
  (pre.filter fun | .sdReturned _ => true | _ => false).length < (pre.filter (· == .sdCalled)).length

def hangEarlyFF (pre : List Ev) : List Nat :=
  let beforeSd := pre.takeWhile (· != .sdCalled)
  let called := beforeSd.filterMap fun | .ffCalled fid => some fid | _ => none
  called.filter fun fid => !pre.any (fun | .ffReturned g _ => g == fid | _ => false)

/-- the verdict on one hang event: `none` = not a hang event, `some true` = known finding F42 (a producer stuck on the
full queue after the worker exited — the model's `StuckFF` / `StuckEnd`), `some false` = the failure "hang".
* `hangFF fid full` / `hangEnd id full` (the harness says who hung and, white-box, whether the queue was filled to its
  capacity when the watchdog fired): F42 iff the exporter's Shutdown had ended before and the queue was full, a hung End
  only in blocking mode. That the call sits at its send is known by elimination (it passed its stopped check and has
  not returned).
* `hangSd`: a hung Shutdown call is always a failure.
* `hang` (recorded before the harness said who hung; the queue occupancy is not in the history): F42 iff the exporter's
  Shutdown had ended before, no Shutdown call is outstanding, and some ForceFlush called before the first `sdCalled`
  has not returned — a ForceFlush that found `stopped` set would have returned at once, so the hung one passed its
  check before the flag was stored, and the worker exited before it could be served. -/
def judgeHang (blocking : Bool) (pre : List Ev) : Ev → Option Bool
  | .hangFF _ full => some (hangDone pre && full)
  | .hangEnd _ full => some (hangDone pre && full && blocking)
  | .hangSd => some false
  | .hang => some (hangDone pre && !hangSdOutstanding pre && !(hangEarlyFF pre).isEmpty)
  | _ => none

/-- the hung calls of a history: returns the failures and the F42 flag -/
def histHangs (blocking : Bool) (h : List Ev) : List String × Bool :=
  let js := (List.range h.length).filterMap fun i => h[i]?.bind (judgeHang blocking (h.take i))
  (if js.any (· == false) then ["hang"] else [], js.any (· == true))

/-- the ids of the `ended` events of a history -/
def endedIds (h : List Ev) : List Nat := h.filterMap fun | .ended id => some id | _ => none

/-- the ids of the `endedUnsampled` events of a history -/
def unsampledIds (h : List Ev) : List Nat := h.filterMap fun | .endedUnsampled id => some id | _ => none

/-- the oracle exactly as the driver applies it to a recorded history: the sets of ended sampled / unsampled
span ids are read off the history itself -/
def histJudge (maxB : Nat) (blocking : Bool) (dropped : Nat) (h : List Ev) : List String × Bool :=
  histCheck maxB blocking dropped (endedIds h) (unsampledIds h) h

end Otel.C01.Spec
