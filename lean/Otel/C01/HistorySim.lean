/-
C01 — simulation between the run-time history scanner (`Spec.scanStep`) and the LTS: for every history the
model can produce, the scanner's state mirrors the model's ghost state and its list of violated clauses is
empty.
-/
import Otel.C01.History
namespace Otel.C01

open Spec (Ev Scan scanStep)

/-- the (fid, pre) pairs of the ForceFlush calls -/
def ffKeys (ffs : List FF) : List (Nat × List Nat) := ffs.map fun f => (f.fid, f.pre)

theorem ffKeys_setPh (fid : Nat) (a b : FPhase) (ffs : List FF) : ffKeys (setPh fid a b ffs) = ffKeys ffs := by
  simp only [ffKeys, setPh, List.map_map]
  congr 1
  funext f
  simp only [Function.comp]
  split <;> rfl

theorem ffKeys_cancel (fid : Nat) (ffs : List FF) :
    ffKeys (ffs.map fun f =>
      if f.fid = fid ∧ (f.ph = .called ∨ f.ph = .checked ∨ f.ph = .queued ∨ f.ph = .flushed ∨ f.ph = .exporting)
      then { f with ph := .retErr } else f) = ffKeys ffs := by
  simp only [ffKeys, List.map_map]
  congr 1
  funext f
  simp only [Function.comp]
  split <;> rfl

theorem mem_ffKeys_of_hasPh (fid : Nat) (p : FPhase) (ffs : List FF) (h : hasPh fid p ffs = true) :
    ∃ f ∈ ffs, f.fid = fid ∧ f.ph = p ∧ (fid, f.pre) ∈ ffKeys ffs := by
  obtain ⟨f, hf, hfid, hph⟩ := hasPh_exists _ _ _ h
  refine ⟨f, hf, hfid, hph, ?_⟩
  simp only [ffKeys, List.mem_map]
  exact ⟨f, hf, by simp [hfid]⟩

/-- some ForceFlush call returned nil through one of the early exits (known finding F22) -/
def hasEarly (ffs : List FF) : Prop := ∃ f ∈ ffs, f.ph = .retEarly

theorem hasEarly_setPh (fid : Nat) (a b : FPhase) (ffs : List FF) (ha : a ≠ .retEarly) (h : hasEarly ffs) :
    hasEarly (setPh fid a b ffs) := by
  obtain ⟨f, hf, hph⟩ := h
  refine ⟨f, ?_, hph⟩
  simp only [setPh, List.mem_map]
  refine ⟨f, hf, ?_⟩
  have : ¬ (f.fid = fid ∧ f.ph = a) := fun hc => ha (hc.2.symm.trans hph)
  simp [this]

theorem hasEarly_setPh_new (fid : Nat) (a : FPhase) (ffs : List FF) (h : hasPh fid a ffs = true) :
    hasEarly (setPh fid a .retEarly ffs) := by
  obtain ⟨f, hf, hfid, hph⟩ := hasPh_exists _ _ _ h
  refine ⟨{ f with ph := .retEarly }, ?_, rfl⟩
  simp only [setPh, List.mem_map]
  exact ⟨f, hf, by simp [hfid, hph]⟩

theorem hasEarly_cancel (fid : Nat) (ffs : List FF) (h : hasEarly ffs) :
    hasEarly (ffs.map fun f =>
      if f.fid = fid ∧ (f.ph = .called ∨ f.ph = .checked ∨ f.ph = .queued ∨ f.ph = .flushed ∨ f.ph = .exporting)
      then { f with ph := .retErr } else f) := by
  obtain ⟨f, hf, hph⟩ := h
  refine ⟨f, ?_, hph⟩
  simp only [List.mem_map]
  refine ⟨f, hf, ?_⟩
  simp [hph]

theorem hasEarly_cons (f : FF) (ffs : List FF) (h : hasEarly ffs) : hasEarly (f :: ffs) := by
  obtain ⟨g, hg, hph⟩ := h
  exact ⟨g, List.mem_cons_of_mem _ hg, hph⟩

/-- the simulation relation between the LTS state and the scanner state -/
structure Sim (s : St) (c : Scan) : Prop where
  batches : c.batches = s.exported
  inExport : c.inExport = s.busy.isSome
  ended : c.ended = s.seen
  sdCalled : c.sdCalled = true ↔ s.sd ≠ .none
  sdPre : c.sdPre = s.sdPre
  sdRet : c.sdReturnedOk = s.sdRetOk
  ffPre : ∀ p ∈ ffKeys s.ffs, c.ffPre.lookup p.1 = some p.2
  inExpSd : c.inExpShutdown = false
  expSdDone : c.expShutdownDone = true ↔ s.sd = .shut
  bad : c.bad = []
  f22 : c.f22 = true → c.sdCalled = true
  f22e : c.f22 = true → hasEarly s.ffs

theorem sim_init (cap maxB : Nat) (blocking : Bool) : Sim (init cap maxB blocking) {} := by
  refine ⟨?_, ?_, ?_, ?_, ?_, ?_, ?_, ?_, ?_, ?_, ?_, ?_⟩ <;> simp [init, ffKeys]

/-- labels without observable event -/
theorem sim_silent (s s' : St) (l : Lbl) (c : Scan) (h : Sim s c) (hs : step s l = some s')
    (hl : l = .wRecv ∨ l = .wAppend ∨ l = .wTimer ∨ l = .wStop ∨ l = .wDrainEmpty ∨ l = .sdStore ∨ l = .sdClose ∨
      (∃ id, l = .accept id) ∨ (∃ fid, l = .ffEnqueue fid)) : Sim s' c := by
  obtain ⟨h1, h2, h3, h4, h5, h6, h7, h8, h9, h10, h11, h12⟩ := h
  rcases hl with hl | hl | hl | hl | hl | hl | hl | ⟨id, hl⟩ | ⟨fid, hl⟩ <;> subst hl <;> simp only [step] at hs
  all_goals (
    repeat' (split at hs)
    all_goals (try (simp at hs))
    all_goals (try subst hs)
    all_goals (first
      | exact ⟨h1, h2, h3, h4, h5, h6, h7, h8, h9, h10, h11, h12⟩
      | (refine ⟨h1, h2, h3, ?_, h5, h6, h7, h8, ?_, h10, h11, h12⟩ <;> simp_all)
      | exact ⟨h1, h2, h3, h4, h5, h6, by simpa [ffKeys_setPh] using h7, h8, h9, h10, h11,
          fun e => hasEarly_setPh _ _ _ _ (by decide) (h12 e)⟩))

theorem sim_send (s s' : St) (id : Nat) (c : Scan) (bl : Bool) (dropped : Nat) (h : Sim s c)
    (hs : step s (.send id) = some s') :
    Sim s' ((emitRaw s (.send id)).foldl (scanStep bl dropped) c) := by
  obtain ⟨h1, h2, h3, h4, h5, h6, h7, h8, h9, h10, h11, h12⟩ := h
  simp only [emitRaw, List.foldl_cons, List.foldl_nil, scanStep]
  simp only [step] at hs
  repeat' (split at hs)
  all_goals (try (simp at hs))
  all_goals (try subst hs)
  all_goals (refine ⟨h1, h2, by simp [h3], h4, h5, h6, h7, h8, h9, h10, h11, h12⟩)

theorem sim_endUnsampled (s s' : St) (id : Nat) (c : Scan) (bl : Bool) (dropped : Nat) (h : Sim s c)
    (hs : step s (.endUnsampled id) = some s') :
    Sim s' ((emitRaw s (.endUnsampled id)).foldl (scanStep bl dropped) c) := by
  obtain ⟨h1, h2, h3, h4, h5, h6, h7, h8, h9, h10, h11, h12⟩ := h
  simp only [emitRaw, List.foldl_cons, List.foldl_nil, scanStep]
  simp only [step] at hs
  split at hs
  · simp at hs
  · simp at hs; subst hs
    exact ⟨h1, h2, h3, h4, h5, h6, h7, h8, h9, h10, h11, h12⟩

theorem sim_wExportStart (s s' : St) (c : Scan) (bl : Bool) (dropped : Nat) (hC : InvC s) (h : Sim s c)
    (hs : step s .wExportStart = some s') :
    Sim s' ((emitRaw s .wExportStart).foldl (scanStep bl dropped) c) := by
  obtain ⟨h1, h2, h3, h4, h5, h6, h7, h8, h9, h10, h11, h12⟩ := h
  simp only [step] at hs
  split at hs
  · rename_i hg
    have hne : s.w ≠ .exited := by rcases hg.1 with hw | hw | hw <;> simp [hw]
    have hnshut : s.sd ≠ .shut := fun e => hne (hC.shutExited e)
    have hnret : s.sdRetOk = false := by
      cases hr : s.sdRetOk with
      | false => rfl
      | true => exact absurd (hC.retSd hr) hnshut
    split at hs
    · rename_i hb
      simp at hs; subst hs
      simp only [emitRaw, hb, if_true, List.foldl_nil]
      exact ⟨h1, h2, h3, h4, h5, h6, h7, h8, h9, h10, h11, h12⟩
    · rename_i hb
      simp at hs; subst hs
      have hdone : c.expShutdownDone = false := by
        cases hr : c.expShutdownDone with
        | false => rfl
        | true => exact absurd (h9.mp hr) hnshut
      have hin : c.inExport = false := by rw [h2, hg.2]; rfl
      have hret : c.sdReturnedOk = false := h6.trans hnret
      simp only [emitRaw, hb, if_false, List.foldl_cons, List.foldl_nil, scanStep, hin, h8, hret, hdone,
        Bool.or_self, Bool.false_eq_true]
      refine ⟨?_, ?_, ?_, ?_, ?_, ?_, h7, ?_, ?_, ?_, ?_, h12⟩ <;> simp_all
  · simp at hs

/-- a ForceFlush returning nil: the scanner's delivered check passes, or (early exits, F22) the scanner has
seen `sdCalled` and only raises its `f22` flag -/
theorem sim_ffReturned (s : St) (c : Scan) (dropped fid : Nat) (pre : List Nat) (h : Sim s c)
    (hk : (fid, pre) ∈ ffKeys s.ffs)
    (hgood : (∀ id ∈ pre, id ∈ s.exported.flatten ∨ id ∈ s.droppedIds) ∨ (s.sd ≠ .none ∧ hasEarly s.ffs))
    (hd : s.droppedIds.length ≤ dropped) (hnb : s.droppedIds ≠ [] → s.blocking = false) :
    Sim s (scanStep s.blocking dropped c (.ffReturned fid true)) := by
  obtain ⟨h1, h2, h3, h4, h5, h6, h7, h8, h9, h10, h11, h12⟩ := h
  have hl := h7 _ hk
  simp only at hl
  simp only [scanStep, Bool.not_true, Bool.false_eq_true, if_false, hl]
  rcases hgood with hg | hg
  · have := delivered_of_covered s.blocking pre s.exported s.droppedIds dropped hg hd hnb
    rw [h1, this]
    exact ⟨h1, h2, h3, h4, h5, h6, h7, h8, h9, h10, h11, h12⟩
  · have hsd : c.sdCalled = true := h4.mpr hg.1
    split
    · exact ⟨h1, h2, h3, h4, h5, h6, h7, h8, h9, h10, h11, h12⟩
    · exact ⟨h1, h2, h3, h4, h5, h6, h7, h8, h9, h10, fun _ => hsd, fun _ => hg.2⟩

theorem sim_exportEnd (s s' : St) (ok : Bool) (c : Scan) (bl : Bool) (dropped : Nat) (h : Sim s c)
    (hs : step s (.exportEnd ok) = some s') :
    Sim s' ((emitRaw s (.exportEnd ok)).foldl (scanStep bl dropped) c) := by
  obtain ⟨h1, h2, h3, h4, h5, h6, h7, h8, h9, h10, h11, h12⟩ := h
  simp only [emitRaw, List.foldl_cons, List.foldl_nil, scanStep]
  simp only [step] at hs
  repeat' (split at hs)
  all_goals (try (simp at hs))
  all_goals (try subst hs)
  all_goals (exact ⟨h1, by simp, h3, h4, h5, h6, h7, h8, h9, h10, h11, h12⟩)

theorem sim_ffCall (s s' : St) (fid : Nat) (c : Scan) (bl : Bool) (dropped : Nat) (h : Sim s c)
    (hs : step s (.ffCall fid) = some s') :
    Sim s' ((emitRaw s (.ffCall fid)).foldl (scanStep bl dropped) c) := by
  obtain ⟨h1, h2, h3, h4, h5, h6, h7, h8, h9, h10, h11, h12⟩ := h
  simp only [emitRaw, List.foldl_cons, List.foldl_nil, scanStep]
  simp only [step] at hs
  split at hs
  · simp at hs
  · rename_i hfresh
    simp at hs; subst hs
    refine ⟨h1, h2, h3, h4, h5, h6, ?_, h8, h9, h10, h11, fun e => hasEarly_cons _ _ (h12 e)⟩
    intro p hp
    simp only [ffKeys, List.map_cons, List.mem_cons] at hp
    rcases hp with hp | hp
    · subst hp; simp [List.lookup, h3]
    · have hne : p.1 ≠ fid := by
        intro e
        apply hfresh
        simp only [List.mem_map] at hp
        obtain ⟨f, hf, he⟩ := hp
        simp only [List.any_eq_true, decide_eq_true_eq]
        exact ⟨f, hf, by rw [← e, ← he]⟩
      have := h7 p hp
      simp only [List.lookup]
      have hb : (p.1 == fid) = false := by simpa using hne
      rw [hb]
      exact this

/-- a step that only changes phases of `ffs` keeps the simulation -/
theorem sim_setPh (s : St) (c : Scan) (fid : Nat) (a b : FPhase) (ha : a ≠ .retEarly) (h : Sim s c) :
    Sim { s with ffs := setPh fid a b s.ffs } c := by
  obtain ⟨h1, h2, h3, h4, h5, h6, h7, h8, h9, h10, h11, h12⟩ := h
  exact ⟨h1, h2, h3, h4, h5, h6, by simpa [ffKeys_setPh] using h7, h8, h9, h10, h11,
    fun e => hasEarly_setPh _ _ _ _ ha (h12 e)⟩

theorem sim_ffCheck (s s' : St) (fid : Nat) (c : Scan) (dropped : Nat) (hS : InvS s) (hD : InvD s) (h : Sim s c)
    (hs : step s (.ffCheck fid) = some s') (hd : s.droppedIds.length ≤ dropped) :
    Sim s' ((emitRaw s (.ffCheck fid)).foldl (scanStep s.blocking dropped) c) := by
  simp only [step] at hs
  split at hs
  · rename_i hp
    simp at hs; subst hs
    obtain ⟨f, _, _, _, hk⟩ := mem_ffKeys_of_hasPh _ _ _ hp
    have h' := sim_setPh s c fid .called (if s.stopped then .retEarly else .checked) (by decide) h
    by_cases hst : s.stopped = true
    · simp only [emitRaw, hst, if_true, List.foldl_cons, List.foldl_nil] at h' ⊢
      exact sim_ffReturned _ c dropped fid f.pre h' (by simpa [ffKeys_setPh] using hk)
        (Or.inr ⟨hS hst, hasEarly_setPh_new _ _ _ hp⟩) hd hD.dropNB
    · simp only [emitRaw, hst] at h' ⊢
      exact h'
  · simp at hs

theorem sim_ffStopWins (s s' : St) (fid : Nat) (c : Scan) (dropped : Nat) (hC : InvC s) (hD : InvD s) (h : Sim s c)
    (hs : step s (.ffStopWins fid) = some s') (hd : s.droppedIds.length ≤ dropped) :
    Sim s' ((emitRaw s (.ffStopWins fid)).foldl (scanStep s.blocking dropped) c) := by
  simp only [step] at hs
  split at hs
  · rename_i hp
    simp at hs; subst hs
    obtain ⟨f, _, _, _, hk⟩ := mem_ffKeys_of_hasPh _ _ _ hp.1
    have h' := sim_setPh s c fid .queued .retEarly (by decide) h
    have hsd : s.sd ≠ .none := by rcases hC.stopSd hp.2 with e | e <;> simp [e]
    simp only [emitRaw, List.foldl_cons, List.foldl_nil]
    exact sim_ffReturned _ c dropped fid f.pre h' (by simpa [ffKeys_setPh] using hk)
      (Or.inr ⟨hsd, hasEarly_setPh_new _ _ _ hp.1⟩) hd hD.dropNB
  · simp at hs

theorem sim_ffExportStart (s s' : St) (fid : Nat) (c : Scan) (dropped : Nat) (hC : InvC s) (hD : InvD s)
    (hE : InvE s) (h : Sim s c) (hs : step s (.ffExportStart fid) = some s') (hd : s.droppedIds.length ≤ dropped) :
    Sim s' ((emitRaw s (.ffExportStart fid)).foldl (scanStep s.blocking dropped) c) := by
  simp only [step] at hs
  split at hs
  · rename_i hg
    obtain ⟨f, hf, hfid, hph, hk⟩ := mem_ffKeys_of_hasPh _ _ _ hg.1
    split at hs
    · rename_i hb
      simp only [Option.some.injEq] at hs; subst hs
      have h' := sim_setPh s c fid .flushed .retOk (by decide) h
      simp only [emitRaw, hb, if_true, List.foldl_cons, List.foldl_nil] at h' ⊢
      refine sim_ffReturned _ c dropped fid f.pre h' (by simpa [ffKeys_setPh] using hk) (Or.inl ?_) hd hD.dropNB
      have hok := hE.ok f hf
      unfold ffOK at hok
      simp only [hph] at hok
      intro x hx
      have := hok x hx
      simpa [P2, P3, hb] using this
    · rename_i hb
      simp at hs; subst hs
      obtain ⟨h1, h2, h3, h4, h5, h6, h7, h8, h9, h10, h11, h12⟩ := h
      -- a ForceFlush that reached `flushed` was enqueued while the worker was in processQueue; the exporter's
      -- Shutdown cannot have happened while the batch is non-empty
      have hne : s.w ≠ .exited := fun e => hb (hC.exitedClean e).1
      have hnshut : s.sd ≠ .shut := fun e => hne (hC.shutExited e)
      have hnret : s.sdRetOk = false := by
        cases hr : s.sdRetOk with
        | false => rfl
        | true => exact absurd (hC.retSd hr) hnshut
      have hdone : c.expShutdownDone = false := by
        cases hr : c.expShutdownDone with
        | false => rfl
        | true => exact absurd (h9.mp hr) hnshut
      have hin : c.inExport = false := by rw [h2, hg.2]; rfl
      have hret : c.sdReturnedOk = false := h6.trans hnret
      simp only [emitRaw, hb, if_false, List.foldl_cons, List.foldl_nil, scanStep, hin, h8, hret, hdone,
        Bool.or_self, Bool.false_eq_true]
      refine ⟨?_, ?_, ?_, ?_, ?_, ?_, by simpa [ffKeys_setPh] using h7, ?_, ?_, ?_, ?_,
        fun e => hasEarly_setPh _ _ _ _ (by decide) (h12 e)⟩ <;> simp_all
  · simp at hs

theorem sim_ffExportEndOk (s s' : St) (fid : Nat) (c : Scan) (dropped : Nat) (hD : InvD s)
    (hE : InvE s) (h : Sim s c) (hs : step s (.ffExportEndOk fid) = some s') (hd : s.droppedIds.length ≤ dropped) :
    Sim s' ((emitRaw s (.ffExportEndOk fid)).foldl (scanStep s.blocking dropped) c) := by
  simp only [step] at hs
  split at hs
  · simp at hs; subst hs
    have h1 : Sim { s with busy := none, ffs := setPh fid .exporting .retOk s.ffs }
        (scanStep s.blocking dropped c .exportEnd) := by
      obtain ⟨h1, h2, h3, h4, h5, h6, h7, h8, h9, h10, h11, h12⟩ := h
      exact ⟨h1, by simp [scanStep], h3, h4, h5, h6, by simpa [ffKeys_setPh, scanStep] using h7, h8, h9, h10, h11,
        fun e => hasEarly_setPh _ _ _ _ (by decide) (h12 e)⟩
    simp only [emitRaw, List.foldl_cons]
    split
    · rename_i hp
      obtain ⟨f, hf, hfid, hph, hk⟩ := mem_ffKeys_of_hasPh _ _ _ hp
      simp only [List.foldl_cons, List.foldl_nil]
      refine sim_ffReturned _ _ dropped fid f.pre h1 (by simpa [ffKeys_setPh] using hk) (Or.inl ?_) hd hD.dropNB
      have hok := hE.ok f hf
      unfold ffOK at hok
      simp only [hph] at hok
      intro x hx
      have := hok x hx
      simpa [P3] using this
    · simpa using h1
  · simp at hs

theorem sim_ffExportEndErr (s s' : St) (fid : Nat) (c : Scan) (bl : Bool) (dropped : Nat)
    (h : Sim s c) (hs : step s (.ffExportEndErr fid) = some s') :
    Sim s' ((emitRaw s (.ffExportEndErr fid)).foldl (scanStep bl dropped) c) := by
  simp only [step] at hs
  split at hs
  · simp at hs; subst hs
    have h1 : Sim { s with busy := none, ffs := setPh fid .exporting .retErr s.ffs }
        (scanStep bl dropped c .exportEnd) := by
      obtain ⟨h1, h2, h3, h4, h5, h6, h7, h8, h9, h10, h11, h12⟩ := h
      exact ⟨h1, by simp [scanStep], h3, h4, h5, h6, by simpa [ffKeys_setPh, scanStep] using h7, h8, h9, h10, h11,
        fun e => hasEarly_setPh _ _ _ _ (by decide) (h12 e)⟩
    simp only [emitRaw, List.foldl_cons]
    split
    · simpa [scanStep] using h1
    · simpa using h1
  · simp at hs

theorem sim_ffCancel (s s' : St) (fid : Nat) (c : Scan) (bl : Bool) (dropped : Nat)
    (h : Sim s c) (hs : step s (.ffCancel fid) = some s') :
    Sim s' ((emitRaw s (.ffCancel fid)).foldl (scanStep bl dropped) c) := by
  simp only [step] at hs
  simp at hs; subst hs
  have h1 : Sim { s with ffs := s.ffs.map fun f =>
      if f.fid = fid ∧ (f.ph = .called ∨ f.ph = .checked ∨ f.ph = .queued ∨ f.ph = .flushed ∨ f.ph = .exporting)
      then { f with ph := .retErr } else f } c := by
    obtain ⟨h1, h2, h3, h4, h5, h6, h7, h8, h9, h10, h11, h12⟩ := h
    exact ⟨h1, h2, h3, h4, h5, h6, by simpa [ffKeys_cancel] using h7, h8, h9, h10, h11,
      fun e => hasEarly_cancel _ _ (h12 e)⟩
  simp only [emitRaw]
  split
  · simpa [scanStep] using h1
  · simpa using h1

theorem sim_sdCall (s s' : St) (c : Scan) (bl : Bool) (dropped : Nat)
    (h : Sim s c) (hs : step s .sdCall = some s') :
    Sim s' ((emitRaw s .sdCall).foldl (scanStep bl dropped) c) := by
  obtain ⟨h1, h2, h3, h4, h5, h6, h7, h8, h9, h10, h11, h12⟩ := h
  simp only [step] at hs
  split at hs
  · rename_i hsd
    simp at hs; subst hs
    have hc : c.sdCalled = false := by
      cases hr : c.sdCalled with
      | false => rfl
      | true => exact absurd hsd (h4.mp hr)
    simp only [emitRaw, List.foldl_cons, List.foldl_nil, scanStep, hc, Bool.false_eq_true, if_false]
    refine ⟨h1, h2, h3, ?_, ?_, h6, h7, h8, ?_, h10, ?_, h12⟩ <;> simp_all
  · simp at hs

theorem sim_sdExporterShutdown (s s' : St) (c : Scan) (bl : Bool) (dropped : Nat) (hC : InvC s)
    (h : Sim s c) (hs : step s .sdExporterShutdown = some s') :
    Sim s' ((emitRaw s .sdExporterShutdown).foldl (scanStep bl dropped) c) := by
  obtain ⟨h1, h2, h3, h4, h5, h6, h7, h8, h9, h10, h11, h12⟩ := h
  simp only [step] at hs
  split at hs
  · rename_i hg
    simp at hs; subst hs
    have hin : c.inExport = false := by rw [h2, (hC.exitedClean hg.2).2.1]; rfl
    simp only [emitRaw, List.foldl_cons, List.foldl_nil, scanStep, hin, Bool.false_eq_true, if_false]
    refine ⟨h1, ?_, h3, ?_, h5, h6, h7, ?_, ?_, h10, h11, h12⟩ <;> simp_all
  · simp at hs

theorem sim_sdReturnOk (s s' : St) (c : Scan) (dropped : Nat) (hC : InvC s) (hD : InvD s) (hF : InvF s)
    (h : Sim s c) (hs : step s .sdReturnOk = some s') (hd : s.droppedIds.length ≤ dropped) :
    Sim s' ((emitRaw s .sdReturnOk).foldl (scanStep s.blocking dropped) c) := by
  obtain ⟨h1, h2, h3, h4, h5, h6, h7, h8, h9, h10, h11, h12⟩ := h
  simp only [step] at hs
  split at hs
  · rename_i hg
    simp at hs; subst hs
    have hw := hC.shutExited hg.1
    have hin : c.inExport = false := by rw [h2, (hC.exitedClean hw).2.1]; rfl
    have hdl := delivered_of_covered s.blocking s.sdPre s.exported s.droppedIds dropped (hF.exitedOK hw) hd hD.dropNB
    rw [← h1, ← h5] at hdl
    simp only [emitRaw, List.foldl_cons, List.foldl_nil, scanStep, Bool.not_true, Bool.false_eq_true, if_false, hin,
      hdl, if_true]
    refine ⟨h1, ?_, h3, h4, h5, ?_, h7, h8, h9, h10, h11, h12⟩ <;> simp_all
  · simp at hs

/-- a further Shutdown call: the scanner keeps the `pre` set of the first call -/
theorem sim_sdCallLate (s s' : St) (cid : Nat) (c : Scan) (bl : Bool) (dropped : Nat)
    (h : Sim s c) (hs : step s (.sdCallLate cid) = some s') :
    Sim s' ((emitRaw s (.sdCallLate cid)).foldl (scanStep bl dropped) c) := by
  obtain ⟨h1, h2, h3, h4, h5, h6, h7, h8, h9, h10, h11, h12⟩ := h
  simp only [step] at hs
  split at hs
  · simp at hs
  · rename_i hg
    simp at hs; subst hs
    have hc : c.sdCalled = true := h4.mpr (fun e => hg (Or.inl e))
    simp only [emitRaw, List.foldl_cons, List.foldl_nil, scanStep, hc, if_true]
    exact ⟨h1, h2, h3, h4, h5, h6, h7, h8, h9, h10, h11, h12⟩

/-- a further Shutdown call returns nil: only after the winner's once-function returned, i.e. after the worker
exited and the exporter was shut down — the scanner's checks pass as for the first call -/
theorem sim_sdReturnLate (s s' : St) (cid : Nat) (c : Scan) (dropped : Nat) (hC : InvC s) (hD : InvD s)
    (hF : InvF s) (h : Sim s c) (hs : step s (.sdReturnLate cid) = some s') (hd : s.droppedIds.length ≤ dropped) :
    Sim s' ((emitRaw s (.sdReturnLate cid)).foldl (scanStep s.blocking dropped) c) := by
  obtain ⟨h1, h2, h3, h4, h5, h6, h7, h8, h9, h10, h11, h12⟩ := h
  simp only [step] at hs
  split at hs
  · rename_i hg
    simp only [Option.some.injEq] at hs; subst hs
    have hw := hC.shutExited (hC.retSd hg.1)
    have hin : c.inExport = false := by rw [h2, (hC.exitedClean hw).2.1]; rfl
    have hdl := delivered_of_covered s.blocking s.sdPre s.exported s.droppedIds dropped (hF.exitedOK hw) hd hD.dropNB
    rw [← h1, ← h5] at hdl
    simp only [emitRaw, List.foldl_cons, List.foldl_nil, scanStep, Bool.not_true, Bool.false_eq_true, if_false, hin,
      hdl, if_true]
    refine ⟨h1, ?_, h3, h4, h5, ?_, h7, h8, h9, h10, h11, h12⟩ <;> simp_all
  · simp at hs

/-- one step of the LTS, followed by the scanner on the events it emits, preserves the simulation -/
theorem sim_step (s s' : St) (l : Lbl) (c : Scan) (dropped : Nat) (hI : Inv s) (hS : InvS s) (h : Sim s c)
    (hs : step s l = some s') (hd : s.droppedIds.length ≤ dropped) :
    Sim s' ((emit s l).foldl (scanStep s.blocking dropped) c) := by
  rw [emit_of_step hs]
  cases l
  case send id => exact sim_send s s' id c _ dropped h hs
  case endUnsampled id => exact sim_endUnsampled s s' id c _ dropped h hs
  case wExportStart => exact sim_wExportStart s s' c _ dropped hI.c h hs
  case exportEnd ok => exact sim_exportEnd s s' ok c _ dropped h hs
  case ffCall fid => exact sim_ffCall s s' fid c _ dropped h hs
  case ffCheck fid => exact sim_ffCheck s s' fid c dropped hS hI.d h hs hd
  case ffStopWins fid => exact sim_ffStopWins s s' fid c dropped hI.c hI.d h hs hd
  case ffExportStart fid => exact sim_ffExportStart s s' fid c dropped hI.c hI.d hI.e h hs hd
  case ffExportEndOk fid => exact sim_ffExportEndOk s s' fid c dropped hI.d hI.e h hs hd
  case ffExportEndErr fid => exact sim_ffExportEndErr s s' fid c _ dropped h hs
  case ffCancel fid => exact sim_ffCancel s s' fid c _ dropped h hs
  case sdCall => exact sim_sdCall s s' c _ dropped h hs
  case sdExporterShutdown => exact sim_sdExporterShutdown s s' c _ dropped hI.c h hs
  case sdReturnOk => exact sim_sdReturnOk s s' c dropped hI.c hI.d hI.f h hs hd
  case sdCallLate cid => exact sim_sdCallLate s s' cid c _ dropped h hs
  case sdReturnLate cid => exact sim_sdReturnLate s s' cid c dropped hI.c hI.d hI.f h hs hd
  all_goals exact sim_silent s s' _ c h hs (by simp)

/-- the simulation holds along every history of the model, for every reported counter that covers the dropped ids -/
theorem sim_reachableH {cap maxB : Nat} {blocking : Bool} (hpos : 1 ≤ maxB) (dropped : Nat) (s : St) (h : List Ev)
    (hr : ReachableH cap maxB blocking s h) (hd : s.droppedIds.length ≤ dropped) :
    Sim s (h.foldl (scanStep blocking dropped) {}) := by
  induction hr with
  | init => exact sim_init cap maxB blocking
  | @step s s' h l hr' hs ih =>
    have hreach := hr'.reachable
    have hI := inv_reachable cap maxB blocking hpos s hreach
    have hS := invS_reachable hreach
    have hd' : s.droppedIds.length ≤ dropped := Nat.le_trans (step_dropped_mono s s' l hs) hd
    have hbl : s.blocking = blocking := (reachable_cfg hreach).2.2
    rw [List.foldl_append]
    have := sim_step s s' l _ dropped hI hS (ih hd') hs hd'
    rw [hbl] at this
    exact this

/-! ### facts about the scanner alone and about the events the model emits -/

theorem endedIds_append (a b : List Ev) : Spec.endedIds (a ++ b) = Spec.endedIds a ++ Spec.endedIds b := by
  simp [Spec.endedIds]

theorem unsampledIds_append (a b : List Ev) :
    Spec.unsampledIds (a ++ b) = Spec.unsampledIds a ++ Spec.unsampledIds b := by
  simp [Spec.unsampledIds]

theorem scanStep_ended (bl : Bool) (d : Nat) (c : Scan) (ev : Ev) :
    (scanStep bl d c ev).ended = (Spec.endedIds [ev]).reverse ++ c.ended := by
  cases ev <;> simp only [scanStep, Spec.endedIds, List.filterMap_cons, List.filterMap_nil] <;>
    (repeat' split) <;> simp

/-- the scanner's `ended` list is the list of `ended` events, newest first -/
theorem scan_ended (bl : Bool) (d : Nat) (h : List Ev) (c : Scan) :
    (h.foldl (scanStep bl d) c).ended = (Spec.endedIds h).reverse ++ c.ended := by
  induction h generalizing c with
  | nil => simp [Spec.endedIds]
  | cons ev r ih =>
    rw [List.foldl_cons, ih, scanStep_ended]
    have : Spec.endedIds (ev :: r) = Spec.endedIds [ev] ++ Spec.endedIds r := endedIds_append [ev] r
    rw [this]
    simp

theorem scanStep_sdCalled (bl : Bool) (d : Nat) (c : Scan) (ev : Ev)
    (h : (scanStep bl d c ev).sdCalled = true) : c.sdCalled = true ∨ ev = .sdCalled := by
  cases ev <;> simp only [scanStep] at h <;> (repeat' (split at h)) <;> simp_all

/-- the scanner believes Shutdown was called only if the history says so -/
theorem scan_sdCalled (bl : Bool) (d : Nat) (h : List Ev) (c : Scan)
    (hc : (h.foldl (scanStep bl d) c).sdCalled = true) : c.sdCalled = true ∨ Ev.sdCalled ∈ h := by
  induction h generalizing c with
  | nil => exact Or.inl hc
  | cons ev r ih =>
    rw [List.foldl_cons] at hc
    rcases ih _ hc with h1 | h1
    · rcases scanStep_sdCalled bl d c ev h1 with h2 | h2
      · exact Or.inl h2
      · exact Or.inr (by simp [h2])
    · exact Or.inr (List.mem_cons_of_mem _ h1)

/-- the model never emits `hang` -/
theorem emit_no_hang (s : St) (l : Lbl) : Ev.hang ∉ emit s l := by
  unfold emit
  split
  · cases l <;> simp only [emitRaw] <;> (repeat' split) <;> simp
  · simp

theorem reachableH_no_hang {cap maxB : Nat} {blocking : Bool} {s : St} {h : List Ev}
    (hr : ReachableH cap maxB blocking s h) : Ev.hang ∉ h := by
  induction hr with
  | init => simp
  | @step s s' h l _ _ ih =>
    have := emit_no_hang s l
    simp [ih, this]

/-- the `endedUnsampled` events of a step are exactly the ids it adds to the ghost `unsampled` -/
theorem step_unsampled (s s' : St) (l : Lbl) (hs : step s l = some s') :
    s'.unsampled = (Spec.unsampledIds (emit s l)).reverse ++ s.unsampled := by
  rw [emit_of_step hs]
  cases l <;> simp only [step] at hs
  all_goals (
    repeat' (split at hs)
    all_goals (try (simp at hs))
    all_goals (try subst hs)
    all_goals (simp only [emitRaw])
    all_goals (repeat' split)
    all_goals (simp [Spec.unsampledIds]))

/-- the `endedUnsampled` events of a history of the model are the ghost `unsampled` of the state reached -/
theorem reachableH_unsampled {cap maxB : Nat} {blocking : Bool} {s : St} {h : List Ev}
    (hr : ReachableH cap maxB blocking s h) : Spec.unsampledIds h = s.unsampled.reverse := by
  induction hr with
  | init => simp [Spec.unsampledIds, init]
  | @step s s' h l _ hs ih =>
    rw [unsampledIds_append, ih, step_unsampled s s' l hs]
    simp

end Otel.C01
