/-
C01 — simulation between the run-time history scanner (`Spec.scanStep`) and the LTS: for every history the
model can produce, the scanner's state mirrors the model's ghost state and its list of violated clauses is
empty.
-/
import Otel.C01.History
namespace Otel.C01

open Spec (Ev Scan scanStep)

/-- the (fid, pre) pairs of the ForceFlush calls -/
def ffKeys (ffs : List FF) : List (Nat × List Nat) := ffs.map fun f => (f.fid, f.pre)

theorem ffKeys_setPh (fid : Nat) (a b : FPhase) (ffs : List FF) : ffKeys (setPh fid a b ffs) = ffKeys ffs := by
  simp only [ffKeys, setPh, List.map_map]
  congr 1
  funext f
  simp only [Function.comp]
  split <;> rfl

theorem ffKeys_cancel (fid : Nat) (ffs : List FF) :
    ffKeys (ffs.map fun f =>
      if f.fid = fid ∧ (f.ph = .called ∨ f.ph = .checked ∨ f.ph = .queued ∨ f.ph = .flushed ∨ f.ph = .exporting)
      then { f with ph := .retErr } else f) = ffKeys ffs := by
  simp only [ffKeys, List.map_map]
  congr 1
  funext f
  simp only [Function.comp]
  split <;> rfl

theorem mem_ffKeys_of_hasPh (fid : Nat) (p : FPhase) (ffs : List FF) (h : hasPh fid p ffs = true) :
    ∃ f ∈ ffs, f.fid = fid ∧ f.ph = p ∧ (fid, f.pre) ∈ ffKeys ffs := by
  obtain ⟨f, hf, hfid, hph⟩ := hasPh_exists _ _ _ h
  refine ⟨f, hf, hfid, hph, ?_⟩
  simp only [ffKeys, List.mem_map]
  exact ⟨f, hf, by simp [hfid]⟩

/-- some ForceFlush call returned nil through one of the early exits (known finding F22) -/
def hasEarly (ffs : List FF) : Prop := ∃ f ∈ ffs, f.ph = .retEarly

theorem hasEarly_setPh (fid : Nat) (a b : FPhase) (ffs : List FF) (ha : a ≠ .retEarly) (h : hasEarly ffs) :
    hasEarly (setPh fid a b ffs) := by
  obtain ⟨f, hf, hph⟩ := h
  refine ⟨f, ?_, hph⟩
  simp only [setPh, List.mem_map]
  refine ⟨f, hf, ?_⟩
  have : ¬ (f.fid = fid ∧ f.ph = a) := fun hc => ha (hc.2.symm.trans hph)
  simp [this]

theorem hasEarly_setPh_new (fid : Nat) (a : FPhase) (ffs : List FF) (h : hasPh fid a ffs = true) :
    hasEarly (setPh fid a .retEarly ffs) := by
  obtain ⟨f, hf, hfid, hph⟩ := hasPh_exists _ _ _ h
  refine ⟨{ f with ph := .retEarly }, ?_, rfl⟩
  simp only [setPh, List.mem_map]
  exact ⟨f, hf, by simp [hfid, hph]⟩

theorem hasEarly_cancel (fid : Nat) (ffs : List FF) (h : hasEarly ffs) :
    hasEarly (ffs.map fun f =>
      if f.fid = fid ∧ (f.ph = .called ∨ f.ph = .checked ∨ f.ph = .queued ∨ f.ph = .flushed ∨ f.ph = .exporting)
      then { f with ph := .retErr } else f) := by
  obtain ⟨f, hf, hph⟩ := h
  refine ⟨f, ?_, hph⟩
  simp only [List.mem_map]
  refine ⟨f, hf, ?_⟩
  simp [hph]

theorem hasEarly_cons (f : FF) (ffs : List FF) (h : hasEarly ffs) : hasEarly (f :: ffs) := by
  obtain ⟨g, hg, hph⟩ := h
  exact ⟨g, List.mem_cons_of_mem _ hg, hph⟩

/-- the simulation relation between the LTS state and the scanner state -/
structure Sim (s : St) (c : Scan) : Prop where
  batches : c.batches = s.exported
  inExport : c.inExport = s.busy.isSome
  ended : c.ended = s.seen
  sdCalled : c.sdCalled = true ↔ s.sd ≠ .none
  sdPre : c.sdPre = s.sdPre
  sdRet : c.sdReturnedOk = s.sdRetOk
  ffPre : ∀ p ∈ ffKeys s.ffs, c.ffPre.lookup p.1 = some p.2
  inExpSd : c.inExpShutdown = false
  expSdDone : c.expShutdownDone = true ↔ s.sd = .shut
  bad : c.bad = []
  f22 : c.f22 = true → c.sdCalled = true
  f22e : c.f22 = true → hasEarly s.ffs

theorem sim_init (cap maxB : Nat) (blocking : Bool) : Sim (init cap maxB blocking) {} := by
  refine ⟨?_, ?_, ?_, ?_, ?_, ?_, ?_, ?_, ?_, ?_, ?_, ?_⟩ <;> simp [init, ffKeys]

/-- labels without observable event -/
theorem sim_silent (s s' : St) (l : Lbl) (c : Scan) (h : Sim s c) (hs : step s l = some s')
    (hl : l = .wRecv ∨ l = .wAppend ∨ l = .wTimer ∨ l = .wStop ∨ l = .wDrainEmpty ∨ l = .sdStore ∨ l = .sdClose ∨
      (∃ id, l = .accept id) ∨ (∃ fid, l = .ffEnqueue fid)) : Sim s' c := by
  obtain ⟨h1, h2, h3, h4, h5, h6, h7, h8, h9, h10, h11, h12⟩ := h
  rcases hl with hl | hl | hl | hl | hl | hl | hl | ⟨id, hl⟩ | ⟨fid, hl⟩ <;> subst hl <;> simp only [step] at hs
  all_goals (
    repeat' (split at hs)
    all_goals (try (simp at hs))
    all_goals (try subst hs)
    all_goals (first
      | exact ⟨h1, h2, h3, h4, h5, h6, h7, h8, h9, h10, h11, h12⟩
      | (refine ⟨h1, h2, h3, ?_, h5, h6, h7, h8, ?_, h10, h11, h12⟩ <;> simp_all)
      | exact ⟨h1, h2, h3, h4, h5, h6, by simpa [ffKeys_setPh] using h7, h8, h9, h10, h11,
          fun e => hasEarly_setPh _ _ _ _ (by decide) (h12 e)⟩))

theorem sim_send (s s' : St) (id : Nat) (c : Scan) (bl : Bool) (dropped : Nat) (h : Sim s c)
    (hs : step s (.send id) = some s') :
    Sim s' ((emitRaw s (.send id)).foldl (scanStep bl dropped) c) := by
  obtain ⟨h1, h2, h3, h4, h5, h6, h7, h8, h9, h10, h11, h12⟩ := h
  simp only [emitRaw, List.foldl_cons, List.foldl_nil, scanStep]
  simp only [step] at hs
  repeat' (split at hs)
  all_goals (try (simp at hs))
  all_goals (try subst hs)
  all_goals (refine ⟨h1, h2, by simp [h3], h4, h5, h6, h7, h8, h9, h10, h11, h12⟩)

theorem sim_endUnsampled (s s' : St) (id : Nat) (c : Scan) (bl : Bool) (dropped : Nat) (h : Sim s c)
    (hs : step s (.endUnsampled id) = some s') :
    Sim s' ((emitRaw s (.endUnsampled id)).foldl (scanStep bl dropped) c) := by
  obtain ⟨h1, h2, h3, h4, h5, h6, h7, h8, h9, h10, h11, h12⟩ := h
  simp only [emitRaw, List.foldl_cons, List.foldl_nil, scanStep]
  simp only [step] at hs
  split at hs
  · simp at hs
  · simp at hs; subst hs
    exact ⟨h1, h2, h3, h4, h5, h6, h7, h8, h9, h10, h11, h12⟩

theorem sim_wExportStart (s s' : St) (c : Scan) (bl : Bool) (dropped : Nat) (hC : InvC s) (h : Sim s c)
    (hs : step s .wExportStart = some s') :
    Sim s' ((emitRaw s .wExportStart).foldl (scanStep bl dropped) c) := by
  obtain ⟨h1, h2, h3, h4, h5, h6, h7, h8, h9, h10, h11, h12⟩ := h
  simp only [step] at hs
  split at hs
  · rename_i hg
    have hne : s.w ≠ .exited := by rcases hg.1 with hw | hw | hw <;> simp [hw]
    have hnshut : s.sd ≠ .shut := fun e => hne (hC.shutExited e)
    have hnret : s.sdRetOk = false := by
      cases hr : s.sdRetOk with
      | false => rfl
      | true => exact absurd (hC.retSd hr) hnshut
    split at hs
    · rename_i hb
      simp at hs; subst hs
      simp only [emitRaw, hb, if_true, List.foldl_nil]
      exact ⟨h1, h2, h3, h4, h5, h6, h7, h8, h9, h10, h11, h12⟩
    · rename_i hb
      simp at hs; subst hs
      have hdone : c.expShutdownDone = false := by
        cases hr : c.expShutdownDone with
        | false => rfl
        | true => exact absurd (h9.mp hr) hnshut
      have hin : c.inExport = false := by rw [h2, hg.2]; rfl
      have hret : c.sdReturnedOk = false := h6.trans hnret
      simp only [emitRaw, hb, if_false, List.foldl_cons, List.foldl_nil, scanStep, hin, h8, hret, hdone,
        Bool.or_self, Bool.false_eq_true]
      refine ⟨?_, ?_, ?_, ?_, ?_, ?_, h7, ?_, ?_, ?_, ?_, h12⟩ <;> simp_all
  · simp at hs

/-- a ForceFlush returning nil: the scanner's delivered check passes, or (early exits, F22) the scanner has
seen `sdCalled` and only raises its `f22` flag -/
theorem sim_ffReturned (s : St) (c : Scan) (dropped fid : Nat) (pre : List Nat) (h : Sim s c)
    (hk : (fid, pre) ∈ ffKeys s.ffs)
    (hgood : (∀ id ∈ pre, id ∈ s.exported.flatten ∨ id ∈ s.droppedIds) ∨ (s.sd ≠ .none ∧ hasEarly s.ffs))
    (hd : s.droppedIds.length ≤ dropped) (hnb : s.droppedIds ≠ [] → s.blocking = false) :
    Sim s (scanStep s.blocking dropped c (.ffReturned fid true)) := by
  obtain ⟨h1, h2, h3, h4, h5, h6, h7, h8, h9, h10, h11, h12⟩ := h
  have hl := h7 _ hk
  simp only at hl
  simp only [scanStep, Bool.not_true, Bool.false_eq_true, if_false, hl]
  rcases hgood with hg | hg
  · have := delivered_of_covered s.blocking pre s.exported s.droppedIds dropped hg hd hnb
    rw [h1, this]
    exact ⟨h1, h2, h3, h4, h5, h6, h7, h8, h9, h10, h11, h12⟩
  · have hsd : c.sdCalled = true := h4.mpr hg.1
    split
    · exact ⟨h1, h2, h3, h4, h5, h6, h7, h8, h9, h10, h11, h12⟩
    · exact ⟨h1, h2, h3, h4, h5, h6, h7, h8, h9, h10, fun _ => hsd, fun _ => hg.2⟩

theorem sim_exportEnd (s s' : St) (ok : Bool) (c : Scan) (bl : Bool) (dropped : Nat) (h : Sim s c)
    (hs : step s (.exportEnd ok) = some s') :
    Sim s' ((emitRaw s (.exportEnd ok)).foldl (scanStep bl dropped) c) := by
  obtain ⟨h1, h2, h3, h4, h5, h6, h7, h8, h9, h10, h11, h12⟩ := h
  simp only [emitRaw, List.foldl_cons, List.foldl_nil, scanStep]
  simp only [step] at hs
  repeat' (split at hs)
  all_goals (try (simp at hs))
  all_goals (try subst hs)
  all_goals (exact ⟨h1, by simp, h3, h4, h5, h6, h7, h8, h9, h10, h11, h12⟩)

theorem sim_ffCall (s s' : St) (fid : Nat) (c : Scan) (bl : Bool) (dropped : Nat) (h : Sim s c)
    (hs : step s (.ffCall fid) = some s') :
    Sim s' ((emitRaw s (.ffCall fid)).foldl (scanStep bl dropped) c) := by
  obtain ⟨h1, h2, h3, h4, h5, h6, h7, h8, h9, h10, h11, h12⟩ := h
  simp only [emitRaw, List.foldl_cons, List.foldl_nil, scanStep]
  simp only [step] at hs
  split at hs
  · simp at hs
  · rename_i hfresh
    simp at hs; subst hs
    refine ⟨h1, h2, h3, h4, h5, h6, ?_, h8, h9, h10, h11, fun e => hasEarly_cons _ _ (h12 e)⟩
    intro p hp
    simp only [ffKeys, List.map_cons, List.mem_cons] at hp
    rcases hp with hp | hp
    · subst hp; simp [List.lookup, h3]
    · have hne : p.1 ≠ fid := by
        intro e
        apply hfresh
        simp only [List.mem_map] at hp
        obtain ⟨f, hf, he⟩ := hp
        simp only [List.any_eq_true, decide_eq_true_eq]
        exact ⟨f, hf, by rw [← e, ← he]⟩
      have := h7 p hp
      simp only [List.lookup]
      have hb : (p.1 == fid) = false := by simpa using hne
      rw [hb]
      exact this

/-- a step that only changes phases of `ffs` keeps the simulation -/
theorem sim_setPh (s : St) (c : Scan) (fid : Nat) (a b : FPhase) (ha : a ≠ .retEarly) (h : Sim s c) :
    Sim { s with ffs := setPh fid a b s.ffs } c := by
  obtain ⟨h1, h2, h3, h4, h5, h6, h7, h8, h9, h10, h11, h12⟩ := h
  exact ⟨h1, h2, h3, h4, h5, h6, by simpa [ffKeys_setPh] using h7, h8, h9, h10, h11,
    fun e => hasEarly_setPh _ _ _ _ ha (h12 e)⟩

theorem sim_ffCheck (s s' : St) (fid : Nat) (c : Scan) (dropped : Nat) (hS : InvS s) (hD : InvD s) (h : Sim s c)
    (hs : step s (.ffCheck fid) = some s') (hd : s.droppedIds.length ≤ dropped) :
    Sim s' ((emitRaw s (.ffCheck fid)).foldl (scanStep s.blocking dropped) c) := by
  simp only [step] at hs
  split at hs
  · rename_i hp
    simp at hs; subst hs
    obtain ⟨f, _, _, _, hk⟩ := mem_ffKeys_of_hasPh _ _ _ hp
    have h' := sim_setPh s c fid .called (if s.stopped then .retEarly else .checked) (by decide) h
    by_cases hst : s.stopped = true
    · simp only [emitRaw, hst, if_true, List.foldl_cons, List.foldl_nil] at h' ⊢
      exact sim_ffReturned _ c dropped fid f.pre h' (by simpa [ffKeys_setPh] using hk)
        (Or.inr ⟨hS hst, hasEarly_setPh_new _ _ _ hp⟩) hd hD.dropNB
    · simp only [emitRaw, hst] at h' ⊢
      exact h'
  · simp at hs

theorem sim_ffStopWins (s s' : St) (fid : Nat) (c : Scan) (dropped : Nat) (hC : InvC s) (hD : InvD s) (h : Sim s c)
    (hs : step s (.ffStopWins fid) = some s') (hd : s.droppedIds.length ≤ dropped) :
    Sim s' ((emitRaw s (.ffStopWins fid)).foldl (scanStep s.blocking dropped) c) := by
  simp only [step] at hs
  split at hs
  · rename_i hp
    simp at hs; subst hs
    obtain ⟨f, _, _, _, hk⟩ := mem_ffKeys_of_hasPh _ _ _ hp.1
    have h' := sim_setPh s c fid .queued .retEarly (by decide) h
    have hsd : s.sd ≠ .none := by rcases hC.stopSd hp.2 with e | e <;> simp [e]
    simp only [emitRaw, List.foldl_cons, List.foldl_nil]
    exact sim_ffReturned _ c dropped fid f.pre h' (by simpa [ffKeys_setPh] using hk)
      (Or.inr ⟨hsd, hasEarly_setPh_new _ _ _ hp.1⟩) hd hD.dropNB
  · simp at hs

theorem sim_ffExportStart (s s' : St) (fid : Nat) (c : Scan) (dropped : Nat) (hC : InvC s) (hD : InvD s)
    (hE : InvE s) (h : Sim s c) (hs : step s (.ffExportStart fid) = some s') (hd : s.droppedIds.length ≤ dropped) :
    Sim s' ((emitRaw s (.ffExportStart fid)).foldl (scanStep s.blocking dropped) c) := by
  simp only [step] at hs
  split at hs
  · rename_i hg
    obtain ⟨f, hf, hfid, hph, hk⟩ := mem_ffKeys_of_hasPh _ _ _ hg.1
    split at hs
    · rename_i hb
      simp only [Option.some.injEq] at hs; subst hs
      have h' := sim_setPh s c fid .flushed .retOk (by decide) h
      simp only [emitRaw, hb, if_true, List.foldl_cons, List.foldl_nil] at h' ⊢
      refine sim_ffReturned _ c dropped fid f.pre h' (by simpa [ffKeys_setPh] using hk) (Or.inl ?_) hd hD.dropNB
      have hok := hE.ok f hf
      unfold ffOK at hok
      simp only [hph] at hok
      intro x hx
      have := hok x hx
      simpa [P2, P3, hb] using this
    · rename_i hb
      simp at hs; subst hs
      obtain ⟨h1, h2, h3, h4, h5, h6, h7, h8, h9, h10, h11, h12⟩ := h
      -- a ForceFlush that reached `flushed` was enqueued while the worker was in processQueue; the exporter's
      -- Shutdown cannot have happened while the batch is non-empty
      have hne : s.w ≠ .exited := fun e => hb (hC.exitedClean e).1
      have hnshut : s.sd ≠ .shut := fun e => hne (hC.shutExited e)
      have hnret : s.sdRetOk = false := by
        cases hr : s.sdRetOk with
        | false => rfl
        | true => exact absurd (hC.retSd hr) hnshut
      have hdone : c.expShutdownDone = false := by
        cases hr : c.expShutdownDone with
        | false => rfl
        | true => exact absurd (h9.mp hr) hnshut
      have hin : c.inExport = false := by rw [h2, hg.2]; rfl
      have hret : c.sdReturnedOk = false := h6.trans hnret
      simp only [emitRaw, hb, if_false, List.foldl_cons, List.foldl_nil, scanStep, hin, h8, hret, hdone,
        Bool.or_self, Bool.false_eq_true]
      refine ⟨?_, ?_, ?_, ?_, ?_, ?_, by simpa [ffKeys_setPh] using h7, ?_, ?_, ?_, ?_,
        fun e => hasEarly_setPh _ _ _ _ (by decide) (h12 e)⟩ <;> simp_all
  · simp at hs

theorem sim_ffExportEndOk (s s' : St) (fid : Nat) (c : Scan) (dropped : Nat) (hD : InvD s)
    (hE : InvE s) (h : Sim s c) (hs : step s (.ffExportEndOk fid) = some s') (hd : s.droppedIds.length ≤ dropped) :
    Sim s' ((emitRaw s (.ffExportEndOk fid)).foldl (scanStep s.blocking dropped) c) := by
  simp only [step] at hs
  split at hs
  · simp at hs; subst hs
    have h1 : Sim { s with busy := none, ffs := setPh fid .exporting .retOk s.ffs }
        (scanStep s.blocking dropped c .exportEnd) := by
      obtain ⟨h1, h2, h3, h4, h5, h6, h7, h8, h9, h10, h11, h12⟩ := h
      exact ⟨h1, by simp [scanStep], h3, h4, h5, h6, by simpa [ffKeys_setPh, scanStep] using h7, h8, h9, h10, h11,
        fun e => hasEarly_setPh _ _ _ _ (by decide) (h12 e)⟩
    simp only [emitRaw, List.foldl_cons]
    split
    · rename_i hp
      obtain ⟨f, hf, hfid, hph, hk⟩ := mem_ffKeys_of_hasPh _ _ _ hp
      simp only [List.foldl_cons, List.foldl_nil]
      refine sim_ffReturned _ _ dropped fid f.pre h1 (by simpa [ffKeys_setPh] using hk) (Or.inl ?_) hd hD.dropNB
      have hok := hE.ok f hf
      unfold ffOK at hok
      simp only [hph] at hok
      intro x hx
      have := hok x hx
      simpa [P3] using this
    · simpa using h1
  · simp at hs

theorem sim_ffExportEndErr (s s' : St) (fid : Nat) (c : Scan) (bl : Bool) (dropped : Nat)
    (h : Sim s c) (hs : step s (.ffExportEndErr fid) = some s') :
    Sim s' ((emitRaw s (.ffExportEndErr fid)).foldl (scanStep bl dropped) c) := by
  simp only [step] at hs
  split at hs
  · simp at hs; subst hs
    have h1 : Sim { s with busy := none, ffs := setPh fid .exporting .retErr s.ffs }
        (scanStep bl dropped c .exportEnd) := by
      obtain ⟨h1, h2, h3, h4, h5, h6, h7, h8, h9, h10, h11, h12⟩ := h
      exact ⟨h1, by simp [scanStep], h3, h4, h5, h6, by simpa [ffKeys_setPh, scanStep] using h7, h8, h9, h10, h11,
        fun e => hasEarly_setPh _ _ _ _ (by decide) (h12 e)⟩
    simp only [emitRaw, List.foldl_cons]
    split
    · simpa [scanStep] using h1
    · simpa using h1
  · simp at hs

theorem sim_ffCancel (s s' : St) (fid : Nat) (c : Scan) (bl : Bool) (dropped : Nat)
    (h : Sim s c) (hs : step s (.ffCancel fid) = some s') :
    Sim s' ((emitRaw s (.ffCancel fid)).foldl (scanStep bl dropped) c) := by
  simp only [step] at hs
  simp at hs; subst hs
  have h1 : Sim { s with ffs := s.ffs.map fun f =>
      if f.fid = fid ∧ (f.ph = .called ∨ f.ph = .checked ∨ f.ph = .queued ∨ f.ph = .flushed ∨ f.ph = .exporting)
      then { f with ph := .retErr } else f } c := by
    obtain ⟨h1, h2, h3, h4, h5, h6, h7, h8, h9, h10, h11, h12⟩ := h
    exact ⟨h1, h2, h3, h4, h5, h6, by simpa [ffKeys_cancel] using h7, h8, h9, h10, h11,
      fun e => hasEarly_cancel _ _ (h12 e)⟩
  simp only [emitRaw]
  split
  · simpa [scanStep] using h1
  · simpa using h1

/-! ### the scanner's per-call bookkeeping of Shutdown calls (`sdPres`, `sdOkRets`) mirrors the model -/

/-- the `pre` sets of the Shutdown calls in call order: the call that won `stopOnce`, then the others -/
def sdPresOf (s : St) : List (List Nat) := (if s.sd = .none then [] else [s.sdPre]) ++ s.sds.reverse.map (·.pre)

/-- the number of Shutdown calls that have returned nil -/
def sdOkCount (s : St) : Nat := (if s.sdRetOk then 1 else 0) + s.sds.countP (·.ret)

structure SimSd (s : St) (c : Scan) : Prop where
  pres : c.sdPres = sdPresOf s
  oks : c.sdOkRets = sdOkCount s

theorem simSd_init (cap maxB : Nat) (blocking : Bool) : SimSd (init cap maxB blocking) {} := by
  constructor <;> simp [init, sdPresOf, sdOkCount]

theorem scanStep_sd_other (bl : Bool) (d : Nat) (c : Scan) (ev : Ev) (h1 : ev ≠ .sdCalled)
    (h2 : ev ≠ .sdReturned true) :
    (scanStep bl d c ev).sdPres = c.sdPres ∧ (scanStep bl d c ev).sdOkRets = c.sdOkRets := by
  cases ev <;> simp only [scanStep] <;> (repeat' split) <;> simp_all

theorem foldl_sd_other (bl : Bool) (d : Nat) (evs : List Ev) (c : Scan)
    (h : ∀ ev ∈ evs, ev ≠ .sdCalled ∧ ev ≠ .sdReturned true) :
    (evs.foldl (scanStep bl d) c).sdPres = c.sdPres ∧ (evs.foldl (scanStep bl d) c).sdOkRets = c.sdOkRets := by
  induction evs generalizing c with
  | nil => exact ⟨rfl, rfl⟩
  | cons ev r ih =>
    rw [List.foldl_cons]
    have h0 := h ev (List.mem_cons_self ..)
    have := scanStep_sd_other bl d c ev h0.1 h0.2
    have ih' := ih (scanStep bl d c ev) (fun e he => h e (List.mem_cons_of_mem _ he))
    exact ⟨ih'.1.trans this.1, ih'.2.trans this.2⟩

/-- every label except the four Shutdown call / return labels leaves the bookkeeping alone on both sides -/
theorem simSd_other (s s' : St) (l : Lbl) (c : Scan) (bl : Bool) (d : Nat) (h : SimSd s c)
    (hs : step s l = some s')
    (hl : l ≠ .sdCall ∧ l ≠ .sdReturnOk ∧ (∀ cid, l ≠ .sdCallLate cid) ∧ (∀ cid, l ≠ .sdReturnLate cid)) :
    SimSd s' ((emitRaw s l).foldl (scanStep bl d) c) := by
  have hev : ∀ ev ∈ emitRaw s l, ev ≠ .sdCalled ∧ ev ≠ .sdReturned true := by
    obtain ⟨a1, a2, a3, a4⟩ := hl
    cases l <;> simp only [emitRaw] <;> (repeat' split) <;> simp_all
  have hsc := foldl_sd_other bl d (emitRaw s l) c hev
  have hm : sdPresOf s' = sdPresOf s ∧ sdOkCount s' = sdOkCount s := by
    obtain ⟨a1, a2, a3, a4⟩ := hl
    cases l <;> simp only [step] at hs
    all_goals (
      repeat' (split at hs)
      all_goals (try (simp at hs))
      all_goals (try subst hs)
      all_goals (first
        | exact ⟨rfl, rfl⟩
        | (simp_all [sdPresOf, sdOkCount])))
  exact ⟨hsc.1.trans (h.pres.trans hm.1.symm), hsc.2.trans (h.oks.trans hm.2.symm)⟩

theorem countP_setRet (cid : Nat) (sds : List SD) (huniq : (sds.map (·.cid)).Nodup)
    (h : ∃ c ∈ sds, c.cid = cid ∧ c.ret = false) :
    (sds.map fun c => if c.cid = cid then { c with ret := true } else c).countP (·.ret) =
      sds.countP (·.ret) + 1 := by
  induction sds with
  | nil => obtain ⟨c, hc, _⟩ := h; simp at hc
  | cons x r ih =>
    simp only [List.map_cons, List.nodup_cons, List.mem_map, not_exists, not_and] at huniq
    obtain ⟨c, hc, hcid, hret⟩ := h
    simp only [List.mem_cons] at hc
    by_cases hx : x.cid = cid
    · -- the entry is `x`; nothing in the rest has that cid
      have hrest : (r.map fun c => if c.cid = cid then { c with ret := true } else c) = r := by
        have : (r.map fun c => if c.cid = cid then { c with ret := true } else c) = r.map id :=
          List.map_congr_left (fun y hy => by
            have : y.cid ≠ cid := fun e => huniq.1 y hy (e.trans hx.symm)
            simp [this])
        simpa using this
      have hxr : x.ret = false := by
        rcases hc with hc | hc
        · rw [← hc]; exact hret
        · exact absurd (hcid.trans hx.symm) (huniq.1 c hc)
      simp only [List.map_cons, hx, if_true, hrest, List.countP_cons, hxr]
      simp
    · have hc' : c ∈ r := by
        rcases hc with hc | hc
        · exact absurd (hc ▸ hcid) hx
        · exact hc
      have := ih huniq.2 ⟨c, hc', hcid, hret⟩
      simp only [List.map_cons, hx, if_false, List.countP_cons, this]
      omega

theorem countP_lt_of_exists (sds : List SD) (h : ∃ c ∈ sds, c.ret = false) :
    sds.countP (·.ret) < sds.length := by
  obtain ⟨c, hc, hr⟩ := h
  have hle := List.countP_le_length (p := fun c : SD => c.ret) (l := sds)
  rcases Nat.lt_or_ge (sds.countP (·.ret)) sds.length with hlt | hge
  · exact hlt
  · have heq : sds.countP (·.ret) = sds.length := Nat.le_antisymm hle hge
    have := (List.countP_eq_length.mp heq) c hc
    simp [hr] at this

theorem length_sdPresOf (s : St) (h : s.sd ≠ .none) : (sdPresOf s).length = 1 + s.sds.length := by
  simp [sdPresOf, h]
  omega

theorem mem_sdPresOf (s : St) (p : List Nat) (h : p ∈ sdPresOf s) :
    (s.sd ≠ .none ∧ p = s.sdPre) ∨ ∃ c ∈ s.sds, p = c.pre := by
  simp only [sdPresOf, List.mem_append, List.mem_map, List.mem_reverse] at h
  rcases h with h | ⟨c, hc, he⟩
  · split at h
    · simp at h
    · rename_i hn
      simp at h
      exact Or.inl ⟨hn, h⟩
  · exact Or.inr ⟨c, hc, he.symm⟩

theorem sim_sdCall (s s' : St) (c : Scan) (bl : Bool) (dropped : Nat)
    (h : Sim s c) (hs : step s .sdCall = some s') :
    Sim s' ((emitRaw s .sdCall).foldl (scanStep bl dropped) c) := by
  obtain ⟨h1, h2, h3, h4, h5, h6, h7, h8, h9, h10, h11, h12⟩ := h
  simp only [step] at hs
  split at hs
  · rename_i hsd
    simp at hs; subst hs
    have hc : c.sdCalled = false := by
      cases hr : c.sdCalled with
      | false => rfl
      | true => exact absurd hsd (h4.mp hr)
    simp only [emitRaw, List.foldl_cons, List.foldl_nil, scanStep, hc, Bool.false_eq_true, if_false]
    refine ⟨h1, h2, h3, ?_, ?_, h6, h7, h8, ?_, h10, ?_, h12⟩ <;> simp_all
  · simp at hs

theorem sim_sdExporterShutdown (s s' : St) (c : Scan) (bl : Bool) (dropped : Nat) (hC : InvC s)
    (h : Sim s c) (hs : step s .sdExporterShutdown = some s') :
    Sim s' ((emitRaw s .sdExporterShutdown).foldl (scanStep bl dropped) c) := by
  obtain ⟨h1, h2, h3, h4, h5, h6, h7, h8, h9, h10, h11, h12⟩ := h
  simp only [step] at hs
  split at hs
  · rename_i hg
    simp at hs; subst hs
    have hin : c.inExport = false := by rw [h2, (hC.exitedClean hg.2).2.1]; rfl
    simp only [emitRaw, List.foldl_cons, List.foldl_nil, scanStep, hin, Bool.false_eq_true, if_false]
    refine ⟨h1, ?_, h3, ?_, h5, h6, h7, ?_, ?_, h10, h11, h12⟩ <;> simp_all
  · simp at hs

theorem sim_sdReturnOk (s s' : St) (c : Scan) (dropped : Nat) (hC : InvC s) (hD : InvD s) (hF : InvF s)
    (h : Sim s c) (hown : ∃ pre, c.sdPres[c.sdOkRets]? = some pre)
    (hs : step s .sdReturnOk = some s') (hd : s.droppedIds.length ≤ dropped) :
    Sim s' ((emitRaw s .sdReturnOk).foldl (scanStep s.blocking dropped) c) := by
  obtain ⟨h1, h2, h3, h4, h5, h6, h7, h8, h9, h10, h11, h12⟩ := h
  simp only [step] at hs
  split at hs
  · rename_i hg
    simp at hs; subst hs
    have hw := hC.shutExited hg.1
    have hdone : c.expShutdownDone = true := h9.mpr hg.1
    have hin : c.inExport = false := by rw [h2, (hC.exitedClean hw).2.1]; rfl
    have hdl := delivered_of_covered s.blocking s.sdPre s.exported s.droppedIds dropped (hF.exitedOK hw) hd hD.dropNB
    rw [← h1, ← h5] at hdl
    obtain ⟨pre, hpre⟩ := hown
    simp only [emitRaw, List.foldl_cons, List.foldl_nil, scanStep, Bool.not_true, Bool.false_eq_true, if_false, hin,
      hdl, if_true, hpre, hdone, Bool.and_false]
    split <;> (refine ⟨h1, ?_, h3, h4, h5, ?_, h7, h8, ?_, h10, h11, h12⟩ <;> simp_all)
  · simp at hs

/-- a further Shutdown call: the scanner keeps the `pre` set of the first call -/
theorem sim_sdCallLate (s s' : St) (cid : Nat) (c : Scan) (bl : Bool) (dropped : Nat)
    (h : Sim s c) (hs : step s (.sdCallLate cid) = some s') :
    Sim s' ((emitRaw s (.sdCallLate cid)).foldl (scanStep bl dropped) c) := by
  obtain ⟨h1, h2, h3, h4, h5, h6, h7, h8, h9, h10, h11, h12⟩ := h
  simp only [step] at hs
  split at hs
  · simp at hs
  · rename_i hg
    simp at hs; subst hs
    have hc : c.sdCalled = true := h4.mpr (fun e => hg (Or.inl e))
    simp only [emitRaw, List.foldl_cons, List.foldl_nil, scanStep, hc, if_true]
    refine ⟨h1, h2, h3, ?_, h5, h6, h7, h8, h9, h10, ?_, h12⟩ <;> simp_all

/-- a further Shutdown call returns nil: only after the winner's once-function returned, i.e. after the worker
exited and the exporter was shut down — the scanner's checks pass as for the first call -/
theorem sim_sdReturnLate (s s' : St) (cid : Nat) (c : Scan) (dropped : Nat) (hC : InvC s) (hD : InvD s)
    (hF : InvF s) (h : Sim s c) (hown : ∃ pre, c.sdPres[c.sdOkRets]? = some pre)
    (hs : step s (.sdReturnLate cid) = some s') (hd : s.droppedIds.length ≤ dropped) (hT : s.sdRetErr = false) :
    Sim s' ((emitRaw s (.sdReturnLate cid)).foldl (scanStep s.blocking dropped) c) := by
  obtain ⟨h1, h2, h3, h4, h5, h6, h7, h8, h9, h10, h11, h12⟩ := h
  simp only [step] at hs
  split at hs
  · rename_i hg
    have hgo : s.sdRetOk = true := by rcases hg.1 with h | h; exact h; rw [hT] at h; cases h
    simp only [Option.some.injEq] at hs; subst hs
    have hw := hC.shutExited (hC.retSd hgo)
    have hdone : c.expShutdownDone = true := h9.mpr (hC.retSd hgo)
    have hin : c.inExport = false := by rw [h2, (hC.exitedClean hw).2.1]; rfl
    have hdl := delivered_of_covered s.blocking s.sdPre s.exported s.droppedIds dropped (hF.exitedOK hw) hd hD.dropNB
    rw [← h1, ← h5] at hdl
    obtain ⟨pre, hpre⟩ := hown
    simp only [emitRaw, List.foldl_cons, List.foldl_nil, scanStep, Bool.not_true, Bool.false_eq_true, if_false, hin,
      hdl, if_true, hpre, hdone, Bool.and_false]
    split <;> (refine ⟨h1, ?_, h3, h4, h5, ?_, h7, h8, ?_, h10, h11, h12⟩ <;> simp_all)
  · simp at hs

theorem scanStep_sdCalled_pres (bl : Bool) (d : Nat) (c : Scan) :
    (scanStep bl d c .sdCalled).sdPres = c.sdPres ++ [c.ended] ∧
    (scanStep bl d c .sdCalled).sdOkRets = c.sdOkRets := by
  simp only [scanStep]
  split <;> simp

theorem scanStep_sdReturned_pres (bl : Bool) (d : Nat) (c : Scan) :
    (scanStep bl d c (.sdReturned true)).sdPres = c.sdPres ∧
    (scanStep bl d c (.sdReturned true)).sdOkRets = c.sdOkRets + 1 := by
  simp only [scanStep]
  repeat' split
  all_goals simp_all

theorem map_pre_setRet (cid : Nat) (sds : List SD) :
    (sds.map fun c => if c.cid = cid then { c with ret := true } else c).map (·.pre) = sds.map (·.pre) := by
  simp only [List.map_map]
  congr 1
  funext c
  simp only [Function.comp]
  split <;> rfl

/-- at a nil return of a Shutdown call the scanner finds a `pre` set for it, and it is one of the model's -/
theorem own_pre_exists (s : St) (c : Scan) (hsd : SimSd s c) (hne : s.sd ≠ .none)
    (hlt : sdOkCount s < 1 + s.sds.length) :
    ∃ pre, c.sdPres[c.sdOkRets]? = some pre ∧ pre ∈ sdPresOf s := by
  rw [hsd.pres, hsd.oks]
  have hl : sdOkCount s < (sdPresOf s).length := by rw [length_sdPresOf s hne]; exact hlt
  exact ⟨(sdPresOf s)[sdOkCount s], List.getElem?_eq_getElem hl, List.getElem_mem hl⟩

theorem own_pre_sdReturnOk (s s' : St) (c : Scan) (hsd : SimSd s c) (hs : step s .sdReturnOk = some s') :
    ∃ pre, c.sdPres[c.sdOkRets]? = some pre ∧ pre ∈ sdPresOf s := by
  simp only [step] at hs
  split at hs
  · rename_i hg
    have hne : s.sd ≠ .none := by simp [hg.1]
    apply own_pre_exists s c hsd hne
    have := List.countP_le_length (p := fun c : SD => c.ret) (l := s.sds)
    simp only [sdOkCount, hg.2]
    simp only [Bool.false_eq_true, if_false]
    omega
  · simp at hs

theorem own_pre_sdReturnLate (s s' : St) (cid : Nat) (c : Scan) (hC : InvC s) (hsd : SimSd s c)
    (hs : step s (.sdReturnLate cid) = some s') (hT : s.sdRetErr = false) :
    ∃ pre, c.sdPres[c.sdOkRets]? = some pre ∧ pre ∈ sdPresOf s := by
  simp only [step] at hs
  split at hs
  · rename_i hg
    have hgo : s.sdRetOk = true := by rcases hg.1 with h | h; exact h; rw [hT] at h; cases h
    have hne : s.sd ≠ .none := by simp [hC.retSd hgo]
    apply own_pre_exists s c hsd hne
    have hex : ∃ c0 ∈ s.sds, c0.ret = false := by
      have := hg.2
      simp only [List.any_eq_true, decide_eq_true_eq] at this
      obtain ⟨c0, hc0, _, hr⟩ := this
      exact ⟨c0, hc0, hr⟩
    have := countP_lt_of_exists s.sds hex
    simp only [sdOkCount, hgo, if_true]
    omega
  · simp at hs

/-- the four Shutdown call / return labels keep the bookkeeping in step -/
theorem simSd_sd (s s' : St) (l : Lbl) (c : Scan) (bl : Bool) (d : Nat) (hL : InvL s) (hsim : Sim s c)
    (h : SimSd s c) (hs : step s l = some s')
    (hl : l = .sdCall ∨ l = .sdReturnOk ∨ (∃ cid, l = .sdCallLate cid) ∨ (∃ cid, l = .sdReturnLate cid)) :
    SimSd s' ((emitRaw s l).foldl (scanStep bl d) c) := by
  obtain ⟨hp, ho⟩ := h
  rcases hl with hl | hl | ⟨cid, hl⟩ | ⟨cid, hl⟩ <;> subst hl <;> simp only [step] at hs <;> split at hs
  · -- sdCall
    rename_i hg
    simp at hs; subst hs
    have hsds : s.sds = [] := by
      apply Classical.byContradiction
      intro hne
      exact hL.called hne hg
    have hc := scanStep_sdCalled_pres bl d c
    simp only [emitRaw, List.foldl_cons, List.foldl_nil]
    constructor
    · rw [hc.1, hp, hsim.ended]
      simp [sdPresOf, hg, hsds]
    · rw [hc.2, ho]
      simp [sdOkCount]
  · simp at hs
  · -- sdReturnOk
    rename_i hg
    simp at hs; subst hs
    have hc := scanStep_sdReturned_pres bl d c
    simp only [emitRaw, List.foldl_cons, List.foldl_nil]
    constructor
    · rw [hc.1, hp]
      simp [sdPresOf]
    · rw [hc.2, ho]
      simp [sdOkCount, hg.2]
      omega
  · simp at hs
  · simp at hs
  · -- sdCallLate
    rename_i hg
    simp at hs; subst hs
    have hne : s.sd ≠ .none := fun e => hg (Or.inl e)
    have hc := scanStep_sdCalled_pres bl d c
    simp only [emitRaw, List.foldl_cons, List.foldl_nil]
    constructor
    · rw [hc.1, hp, hsim.ended]
      simp [sdPresOf, hne]
    · rw [hc.2, ho]
      simp [sdOkCount]
  · -- sdReturnLate
    rename_i hg
    simp only [Option.some.injEq] at hs; subst hs
    have hc := scanStep_sdReturned_pres bl d c
    simp only [emitRaw, List.foldl_cons, List.foldl_nil]
    have hex : ∃ c0 ∈ s.sds, c0.cid = cid ∧ c0.ret = false := by
      have := hg.2
      simpa only [List.any_eq_true, decide_eq_true_eq] using this
    constructor
    · rw [hc.1, hp]
      simp only [sdPresOf, ← List.map_reverse, map_pre_setRet]
    · rw [hc.2, ho]
      simp only [sdOkCount, countP_setRet cid s.sds hL.uniq hex]
      omega
  · simp at hs

/-- one step of the LTS, followed by the scanner on the events it emits, preserves the simulation -/
theorem sim_step (s s' : St) (l : Lbl) (c : Scan) (dropped : Nat) (hI : Inv s) (hS : InvS s) (h : Sim s c)
    (hsd : SimSd s c) (hs : step s l = some s') (hd : s.droppedIds.length ≤ dropped)
    (hT : s.sdRetErr = false) (hT' : s'.sdRetErr = false) :
    Sim s' ((emit s l).foldl (scanStep s.blocking dropped) c) := by
  rw [emit_of_step hs]
  cases l
  case sdTimeout =>
    exfalso
    simp only [step] at hs
    split at hs
    · simp only [Option.some.injEq] at hs; subst hs; simp at hT'
    · simp at hs
  case send id => exact sim_send s s' id c _ dropped h hs
  case endUnsampled id => exact sim_endUnsampled s s' id c _ dropped h hs
  case wExportStart => exact sim_wExportStart s s' c _ dropped hI.c h hs
  case exportEnd ok => exact sim_exportEnd s s' ok c _ dropped h hs
  case ffCall fid => exact sim_ffCall s s' fid c _ dropped h hs
  case ffCheck fid => exact sim_ffCheck s s' fid c dropped hS hI.d h hs hd
  case ffStopWins fid => exact sim_ffStopWins s s' fid c dropped hI.c hI.d h hs hd
  case ffExportStart fid => exact sim_ffExportStart s s' fid c dropped hI.c hI.d hI.e h hs hd
  case ffExportEndOk fid => exact sim_ffExportEndOk s s' fid c dropped hI.d hI.e h hs hd
  case ffExportEndErr fid => exact sim_ffExportEndErr s s' fid c _ dropped h hs
  case ffCancel fid => exact sim_ffCancel s s' fid c _ dropped h hs
  case sdCall => exact sim_sdCall s s' c _ dropped h hs
  case sdExporterShutdown => exact sim_sdExporterShutdown s s' c _ dropped hI.c h hs
  case sdReturnOk =>
    obtain ⟨pre, hpre, _⟩ := own_pre_sdReturnOk s s' c hsd hs
    exact sim_sdReturnOk s s' c dropped hI.c hI.d hI.f h ⟨pre, hpre⟩ hs hd
  case sdCallLate cid => exact sim_sdCallLate s s' cid c _ dropped h hs
  case sdReturnLate cid =>
    obtain ⟨pre, hpre, _⟩ := own_pre_sdReturnLate s s' cid c hI.c hsd hs hT
    exact sim_sdReturnLate s s' cid c dropped hI.c hI.d hI.f h ⟨pre, hpre⟩ hs hd hT
  all_goals exact sim_silent s s' _ c h hs (by simp)

theorem simSd_step (s s' : St) (l : Lbl) (c : Scan) (bl : Bool) (d : Nat) (hL : InvL s) (hsim : Sim s c)
    (h : SimSd s c) (hs : step s l = some s') : SimSd s' ((emit s l).foldl (scanStep bl d) c) := by
  rw [emit_of_step hs]
  by_cases hl : l = .sdCall ∨ l = .sdReturnOk ∨ (∃ cid, l = .sdCallLate cid) ∨ (∃ cid, l = .sdReturnLate cid)
  · exact simSd_sd s s' l c bl d hL hsim h hs hl
  · refine simSd_other s s' l c bl d h hs ?_
    simp only [not_or, not_exists] at hl
    exact hl

/-! ### the F41 flag is raised only when a late span sits in the exited worker's queue -/

theorem scanStep_f41_other (bl : Bool) (d : Nat) (c : Scan) (ev : Ev) (h : ev ≠ .sdReturned true) :
    (scanStep bl d c ev).f41 = c.f41 := by
  cases ev <;> simp only [scanStep] <;> (repeat' split) <;> simp_all

theorem foldl_f41_other (bl : Bool) (d : Nat) (evs : List Ev) (c : Scan) (h : ∀ ev ∈ evs, ev ≠ .sdReturned true) :
    (evs.foldl (scanStep bl d) c).f41 = c.f41 := by
  induction evs generalizing c with
  | nil => rfl
  | cons ev r ih =>
    rw [List.foldl_cons, ih _ (fun e he => h e (List.mem_cons_of_mem _ he)),
      scanStep_f41_other bl d c ev (h ev (List.mem_cons_self ..))]

/-- about ANY scanner state (any history, not only the model's): the F41 flag is newly raised only by a nil
return of a Shutdown call, only when every span ended before the FIRST Shutdown call is delivered
(`delivered … sdPre`), and only because the call's own `pre` set is not — a span whose `ended` precedes the
first `sdCalled` is never classified F41, its loss is the failure `S5:shutdown` -/
theorem scanStep_f41_new (bl : Bool) (d : Nat) (c : Scan) (ev : Ev) (hnew : (scanStep bl d c ev).f41 = true)
    (hold : c.f41 = false) :
    ev = .sdReturned true ∧ Spec.delivered bl c.sdPre c.batches d = true ∧
    ∃ pre, c.sdPres[c.sdOkRets]? = some pre ∧ Spec.delivered bl pre c.batches d = false := by
  by_cases hev : ev = .sdReturned true
  · subst hev
    simp only [scanStep, Bool.not_true, Bool.false_eq_true, if_false] at hnew
    repeat' (split at hnew)
    all_goals (first
      | (simp [hold] at hnew; done)
      | (rename_i hd1 _ pre hpre hd2
         exact ⟨rfl, hd1, pre, hpre, by simpa using hd2⟩))
  · rw [scanStep_f41_other bl d c ev hev, hold] at hnew
    cases hnew

theorem emit_ret_only (s : St) (l : Lbl) (hl : l ≠ .sdReturnOk ∧ ∀ cid, l ≠ .sdReturnLate cid) :
    ∀ ev ∈ emitRaw s l, ev ≠ .sdReturned true := by
  obtain ⟨a1, a2⟩ := hl
  cases l <;> simp only [emitRaw] <;> (repeat' split) <;> simp_all

/-- in the model, when the worker has exited and no late span sits in its queue, every `pre` set of a Shutdown
call is delivered in the oracle's sense -/
theorem delivered_own_of_no_late (s : St) (dropped : Nat) (hI : Inv s) (hw : s.w = .exited)
    (hno : LateEnd_applies s = false) (pre : List Nat) (hpre : pre ∈ sdPresOf s)
    (hd : s.droppedIds.length ≤ dropped) : Spec.delivered s.blocking pre s.exported dropped = true := by
  have hq : spansOf s.queue = [] := by simpa [LateEnd_applies, hw] using hno
  have hseen : ∀ id ∈ pre, id ∈ s.seen := by
    rcases mem_sdPresOf s pre hpre with ⟨_, he⟩ | ⟨c, hc, he⟩
    · subst he; exact hI.f.preSeen
    · subst he; exact hI.l.preSeen c hc
  have hcl := hI.c.exitedClean hw
  apply delivered_of_covered s.blocking pre s.exported s.droppedIds dropped ?_ hd hI.d.dropNB
  intro id hid
  have hpl := hI.d.seenPlaced id (hseen id hid)
  unfold placed at hpl
  simp only [hq, hcl.1, hcl.2.2, handL, List.not_mem_nil, false_or] at hpl
  exact hpl

theorem f41_step (s s' : St) (l : Lbl) (c : Scan) (dropped : Nat) (hI : Inv s) (hsim : Sim s c) (hsd : SimSd s c)
    (hf : c.f41 = true → LateEnd_applies s = true) (hs : step s l = some s')
    (hd : s.droppedIds.length ≤ dropped) (hT : s.sdRetErr = false) :
    ((emit s l).foldl (scanStep s.blocking dropped) c).f41 = true → LateEnd_applies s' = true := by
  rw [emit_of_step hs]
  intro hnew
  apply lateEnd_step s s' l hs
  by_cases hl : l = .sdReturnOk ∨ ∃ cid, l = .sdReturnLate cid
  · -- a Shutdown call returns nil: the worker has exited
    have hw : s.w = .exited ∧ emitRaw s l = [.sdReturned true] := by
      rcases hl with hl | ⟨cid, hl⟩ <;> subst hl <;> simp only [step] at hs <;> split at hs
      · rename_i hg; exact ⟨hI.c.shutExited hg.1, rfl⟩
      · simp at hs
      · rename_i hg
        have hgo : s.sdRetOk = true := by rcases hg.1 with h | h; exact h; rw [hT] at h; cases h
        exact ⟨hI.c.shutExited (hI.c.retSd hgo), rfl⟩
      · simp at hs
    rw [hw.2, List.foldl_cons, List.foldl_nil] at hnew
    cases hold : c.f41 with
    | true => exact hf hold
    | false =>
      obtain ⟨_, _, pre, hpre, hnd⟩ := scanStep_f41_new s.blocking dropped c _ hnew hold
      cases hno : LateEnd_applies s with
      | true => rfl
      | false =>
        have hmem : pre ∈ sdPresOf s := by
          rw [hsd.pres, hsd.oks] at hpre
          exact List.mem_of_getElem? hpre
        have := delivered_own_of_no_late s dropped hI hw.1 hno pre hmem hd
        rw [← hsim.batches, hnd] at this
        cases this
  · simp only [not_or, not_exists] at hl
    rw [foldl_f41_other _ _ _ _ (emit_ret_only s l hl)] at hnew
    exact hf hnew

/-- the whole simulation: the mirror of the ghost state, the per-call bookkeeping, and the F41 flag -/
structure FullSim (s : St) (c : Scan) : Prop where
  sim : Sim s c
  sd : SimSd s c
  f41 : c.f41 = true → LateEnd_applies s = true

/-- `sdRetErr` (the winning Shutdown call returned its context's error) is never reset -/
theorem step_sdRetErr_mono (s s' : St) (l : Lbl) (hs : step s l = some s') (h : s.sdRetErr = true) :
    s'.sdRetErr = true := by
  cases l <;> simp only [step] at hs
  all_goals (
    repeat' (split at hs)
    all_goals (try (simp at hs))
    all_goals (try subst hs)
    all_goals (first | exact h | simp_all))

/-- the simulation holds along every history of the model in which no Shutdown context has expired (`sdRetErr = false`
in the last state, hence in every state of the run), for every reported counter that covers the dropped ids -/
theorem fullSim_reachableH {cap maxB : Nat} {blocking : Bool} (hpos : 1 ≤ maxB) (dropped : Nat) (s : St)
    (h : List Ev) (hr : ReachableH cap maxB blocking s h) (hd : s.droppedIds.length ≤ dropped)
    (hT : s.sdRetErr = false) :
    FullSim s (h.foldl (scanStep blocking dropped) {}) := by
  induction hr with
  | init => exact ⟨sim_init cap maxB blocking, simSd_init cap maxB blocking, by simp⟩
  | @step s s' h l hr' hs ih =>
    have hT0 : s.sdRetErr = false := by
      cases he : s.sdRetErr with
      | false => rfl
      | true => rw [step_sdRetErr_mono s s' l hs he] at hT; cases hT
    have hreach := hr'.reachable
    have hI := inv_reachable cap maxB blocking hpos s hreach
    have hS := invS_reachable hreach
    have hd' : s.droppedIds.length ≤ dropped := Nat.le_trans (step_dropped_mono s s' l hs) hd
    have hbl : s.blocking = blocking := (reachable_cfg hreach).2.2
    obtain ⟨i1, i2, i3⟩ := ih hd' hT0
    rw [List.foldl_append]
    have a1 := sim_step s s' l _ dropped hI hS i1 i2 hs hd' hT0 hT
    have a2 := simSd_step s s' l _ blocking dropped hI.l i1 i2 hs
    have a3 := f41_step s s' l _ dropped hI i1 i2 i3 hs hd' hT0
    rw [hbl] at a1 a3
    exact ⟨a1, a2, a3⟩

theorem sim_reachableH {cap maxB : Nat} {blocking : Bool} (hpos : 1 ≤ maxB) (dropped : Nat) (s : St) (h : List Ev)
    (hr : ReachableH cap maxB blocking s h) (hd : s.droppedIds.length ≤ dropped) (hT : s.sdRetErr = false) :
    Sim s (h.foldl (scanStep blocking dropped) {}) :=
  (fullSim_reachableH hpos dropped s h hr hd hT).sim

/-! ### facts about the scanner alone and about the events the model emits -/

theorem endedIds_append (a b : List Ev) : Spec.endedIds (a ++ b) = Spec.endedIds a ++ Spec.endedIds b := by
  simp [Spec.endedIds]

theorem unsampledIds_append (a b : List Ev) :
    Spec.unsampledIds (a ++ b) = Spec.unsampledIds a ++ Spec.unsampledIds b := by
  simp [Spec.unsampledIds]

theorem scanStep_ended (bl : Bool) (d : Nat) (c : Scan) (ev : Ev) :
    (scanStep bl d c ev).ended = (Spec.endedIds [ev]).reverse ++ c.ended := by
  cases ev <;> simp only [scanStep, Spec.endedIds, List.filterMap_cons, List.filterMap_nil] <;>
    (repeat' split) <;> simp

/-- the scanner's `ended` list is the list of `ended` events, newest first -/
theorem scan_ended (bl : Bool) (d : Nat) (h : List Ev) (c : Scan) :
    (h.foldl (scanStep bl d) c).ended = (Spec.endedIds h).reverse ++ c.ended := by
  induction h generalizing c with
  | nil => simp [Spec.endedIds]
  | cons ev r ih =>
    rw [List.foldl_cons, ih, scanStep_ended]
    have : Spec.endedIds (ev :: r) = Spec.endedIds [ev] ++ Spec.endedIds r := endedIds_append [ev] r
    rw [this]
    simp

theorem scanStep_sdCalled (bl : Bool) (d : Nat) (c : Scan) (ev : Ev)
    (h : (scanStep bl d c ev).sdCalled = true) : c.sdCalled = true ∨ ev = .sdCalled := by
  cases ev <;> simp only [scanStep] at h <;> (repeat' (split at h)) <;> simp_all

/-- the scanner believes Shutdown was called only if the history says so -/
theorem scan_sdCalled (bl : Bool) (d : Nat) (h : List Ev) (c : Scan)
    (hc : (h.foldl (scanStep bl d) c).sdCalled = true) : c.sdCalled = true ∨ Ev.sdCalled ∈ h := by
  induction h generalizing c with
  | nil => exact Or.inl hc
  | cons ev r ih =>
    rw [List.foldl_cons] at hc
    rcases ih _ hc with h1 | h1
    · rcases scanStep_sdCalled bl d c ev h1 with h2 | h2
      · exact Or.inl h2
      · exact Or.inr (by simp [h2])
    · exact Or.inr (List.mem_cons_of_mem _ h1)

/-- the model never emits `hang` -/
theorem emit_no_hang (s : St) (l : Lbl) : Ev.hang ∉ emit s l := by
  unfold emit
  split
  · cases l <;> simp only [emitRaw] <;> (repeat' split) <;> simp
  · simp

theorem reachableH_no_hang {cap maxB : Nat} {blocking : Bool} {s : St} {h : List Ev}
    (hr : ReachableH cap maxB blocking s h) : Ev.hang ∉ h := by
  induction hr with
  | init => simp
  | @step s s' h l _ _ ih =>
    have := emit_no_hang s l
    simp [ih, this]

/-- the model emits no hang event of any kind -/
theorem emit_no_hangX (s : St) (l : Lbl) (bl : Bool) (pre : List Ev) :
    ∀ ev ∈ emit s l, Spec.judgeHang bl pre ev = none := by
  unfold emit
  split
  · cases l <;> simp only [emitRaw] <;> (repeat' split) <;> simp [Spec.judgeHang]
  · simp

theorem reachableH_no_hangs {cap maxB : Nat} {blocking : Bool} {s : St} {h : List Ev}
    (hr : ReachableH cap maxB blocking s h) (bl : Bool) (pre : List Ev) :
    ∀ ev ∈ h, Spec.judgeHang bl pre ev = none := by
  induction hr with
  | init => simp
  | @step s s' h l _ _ ih =>
    intro ev hev
    simp only [List.mem_append] at hev
    rcases hev with hev | hev
    · exact ih ev hev
    · exact emit_no_hangX s l bl pre ev hev

/-- the `endedUnsampled` events of a step are exactly the ids it adds to the ghost `unsampled` -/
theorem step_unsampled (s s' : St) (l : Lbl) (hs : step s l = some s') :
    s'.unsampled = (Spec.unsampledIds (emit s l)).reverse ++ s.unsampled := by
  rw [emit_of_step hs]
  cases l <;> simp only [step] at hs
  all_goals (
    repeat' (split at hs)
    all_goals (try (simp at hs))
    all_goals (try subst hs)
    all_goals (simp only [emitRaw])
    all_goals (repeat' split)
    all_goals (simp [Spec.unsampledIds]))

/-- the `endedUnsampled` events of a history of the model are the ghost `unsampled` of the state reached -/
theorem reachableH_unsampled {cap maxB : Nat} {blocking : Bool} {s : St} {h : List Ev}
    (hr : ReachableH cap maxB blocking s h) : Spec.unsampledIds h = s.unsampled.reverse := by
  induction hr with
  | init => simp [Spec.unsampledIds, init]
  | @step s s' h l _ hs ih =>
    rw [unsampledIds_append, ih, step_unsampled s s' l hs]
    simp

end Otel.C01
