/-
C01 — deterministic scheduler over the LTS, used by the driver to replay *controlled schedules*
(harness leg `sched`): the harness issues one API call at a time and waits for quiescence; `settle`
runs the internal labels in a fixed priority order until none is enabled. It only ever takes LTS steps
(`settle_reachable`), so whatever it reaches is covered by the theorems.
-/
import Otel.C01.Model
namespace Otel.C01

/-- internal (non-API, non-exporter-return) labels in priority order; blocked senders first (Go hands a
blocked sender's item over at the moment a receiver frees a slot), oldest first. Where the Go code itself
chooses at random — a `select` with several ready cases — the variant number `v` picks the preference:
bit 0: the worker prefers `<-stopCh` over `<-queue` in processQueue; bit 1: a waiting ForceFlush prefers
`<-stopCh` over `<-flushCh`. The driver accepts an observation that matches any variant. -/
def internalOrder (v : Nat) (s : St) : List Lbl :=
  let worker : List Lbl := if v % 2 = 1 then [.wStop, .wRecv, .wAppend, .wExportStart, .wDrainEmpty]
                           else [.wRecv, .wAppend, .wExportStart, .wStop, .wDrainEmpty]
  let ffStop : List Lbl := s.ffs.reverse.map fun f => .ffStopWins f.fid
  let ffExp : List Lbl := s.ffs.reverse.map fun f => .ffExportStart f.fid
  (s.inflight.reverse.map .send) ++
  -- a ForceFlush blocked on sending its marker is a blocked sender too: it is served as soon as a slot is free,
  -- before the worker looks at the queue again (in the controlled scripts it always arrived after the blocked producers)
  (s.ffs.reverse.flatMap fun f => [.ffCheck f.fid, .ffEnqueue f.fid]) ++
  (if (v / 2) % 2 = 1 then ffStop ++ worker ++ ffExp else worker ++ ffExp ++ ffStop) ++
  [.sdStore, .sdClose, .sdExporterShutdown, .sdReturnOk]

def firstEnabled (s : St) : List Lbl → Option St
  | [] => none
  | l :: ls => match step s l with
    | some s' => some s'
    | none => firstEnabled s ls

def settle (v : Nat) : Nat → St → St
  | 0, s => s
  | fuel + 1, s => match firstEnabled s (internalOrder v s) with
    | some s' => settle v fuel s'
    | none => s

theorem firstEnabled_step (s s' : St) (ls : List Lbl) (h : firstEnabled s ls = some s') :
    ∃ l, step s l = some s' := by
  induction ls with
  | nil => simp [firstEnabled] at h
  | cons l ls ih =>
    simp only [firstEnabled] at h
    split at h
    · rename_i s1 hs1
      cases h
      exact ⟨l, hs1⟩
    · exact ih h

theorem settle_reachable {cap maxB : Nat} {blocking : Bool} (v fuel : Nat) (s : St)
    (h : Reachable cap maxB blocking s) : Reachable cap maxB blocking (settle v fuel s) := by
  induction fuel generalizing s with
  | zero => exact h
  | succ n ih =>
    simp only [settle]
    split
    · rename_i s' hs'
      obtain ⟨l, hl⟩ := firstEnabled_step s s' _ hs'
      exact ih s' (Reachable.step l h hl)
    · exact h

/-- script operations of a controlled schedule -/
inductive Op where
  | end_ (id : Nat)      -- OnEnd of a sampled span (runs in its own goroutine; may block in blocking mode)
  | gate (ok : Bool)     -- let the exporter call in progress return nil / an error
  | ff (fid : Nat)       -- ForceFlush(ctx) in its own goroutine
  | sd                   -- Shutdown(ctx) in its own goroutine
deriving Repr

/-- apply an API op: take its first label(s) if enabled; the rest happens in `settle` -/
def applyOp (s : St) : Op → St
  | .end_ id => match step s (.accept id) with
    | some s' => s'
    | none => s                     -- stopped (or id reused): OnEnd returns at once
  | .gate ok =>
    match s.busy with
    | some .worker => (step s .exportEnd).getD s
    | some (.ff fid) => (step s (if ok then .ffExportEndOk fid else .ffExportEndErr fid)).getD s
    | none => s
  | .ff fid => (step s (.ffCall fid)).getD s
  | .sd => (step s .sdCall).getD s

theorem applyOp_reachable {cap maxB : Nat} {blocking : Bool} (s : St) (op : Op)
    (h : Reachable cap maxB blocking s) : Reachable cap maxB blocking (applyOp s op) := by
  cases op <;> simp only [applyOp]
  case end_ id =>
    split
    · rename_i s' hs'; exact Reachable.step _ h hs'
    · exact h
  case gate ok =>
    split
    · cases hs : step s .exportEnd with
      | none => simpa [hs] using h
      | some s' => simpa [hs] using Reachable.step _ h hs
    · rename_i fid _
      cases hs : step s (if ok then .ffExportEndOk fid else .ffExportEndErr fid) with
      | none => simpa [hs] using h
      | some s' => simpa [hs] using Reachable.step _ h hs
    · exact h
  case ff fid =>
    cases hs : step s (.ffCall fid) with
    | none => simpa [hs] using h
    | some s' => simpa [hs] using Reachable.step _ h hs
  case sd =>
    cases hs : step s .sdCall with
    | none => simpa [hs] using h
    | some s' => simpa [hs] using Reachable.step _ h hs

end Otel.C01
