/-
C01 — deterministic scheduler over the LTS, used by the driver to replay *controlled schedules*
(harness legs `sched` and `park`): the harness issues one API call at a time and waits for quiescence;
`settle` runs the internal labels in a fixed priority order until none is enabled. It only ever takes
LTS steps (`settle_reachable`), so whatever it reaches is covered by the theorems.
-/
import Otel.C01.Model
namespace Otel.C01

/-- goroutines parked by the harness at a `verifPoint` hook (build tag `verif`): an `OnEnd` after its `stopped`
check (before the send), a `ForceFlush` after its `stopped` check (before the marker is sent), `Shutdown` after
it stored `stopped` (before `stopCh` is closed). A parked goroutine takes no step until it is released. -/
structure Parked where
  spans : List Nat := []
  ffs : List Nat := []
  sd : Bool := false
  /-- the order in which producers reached their channel send (a blocked sender queue is FIFO in that order):
  an ordinary `OnEnd` at its call, a parked one when it is released -/
  sendOrder : List Nat := []
deriving Repr

/-- internal (non-API, non-exporter-return) labels in priority order; blocked senders first (Go hands a
blocked sender's item over at the moment a receiver frees a slot), oldest first. Where the Go code itself
chooses at random — a `select` with several ready cases — the variant number `v` picks the preference:
bit 0: the worker prefers `<-stopCh` over `<-queue` in processQueue; bit 1: a waiting ForceFlush prefers
`<-stopCh` over `<-flushCh`. The driver accepts an observation that matches any variant. -/
def internalOrder (v : Nat) (pk : Parked) (s : St) : List Lbl :=
  let worker : List Lbl := if v % 2 = 1 then [.wStop, .wRecv, .wAppend, .wExportStart, .wDrainEmpty]
                           else [.wRecv, .wAppend, .wExportStart, .wStop, .wDrainEmpty]
  let ffStop : List Lbl := s.ffs.reverse.map fun f => .ffStopWins f.fid
  let ffExp : List Lbl := s.ffs.reverse.map fun f => .ffExportStart f.fid
  ((pk.sendOrder.filter fun id => s.inflight.contains id && !pk.spans.contains id).map .send) ++
  -- a ForceFlush blocked on sending its marker is a blocked sender too: it is served as soon as a slot is free,
  -- before the worker looks at the queue again (in the controlled scripts it always arrived after the blocked producers)
  (s.ffs.reverse.flatMap fun f =>
    if pk.ffs.contains f.fid then [.ffCheck f.fid] else [.ffCheck f.fid, .ffEnqueue f.fid]) ++
  (if (v / 2) % 2 = 1 then ffStop ++ worker ++ ffExp else worker ++ ffExp ++ ffStop) ++
  (if pk.sd then [.sdStore] else [.sdStore, .sdClose]) ++ [.sdExporterShutdown, .sdReturnOk] ++
  -- the Shutdown calls waiting in `Once.Do` return once the winner's function has returned
  (s.sds.reverse.map fun c => .sdReturnLate c.cid)

def firstEnabled (s : St) : List Lbl → Option St
  | [] => none
  | l :: ls => match step s l with
    | some s' => some s'
    | none => firstEnabled s ls

def settle (v : Nat) (pk : Parked) : Nat → St → St
  | 0, s => s
  | fuel + 1, s => match firstEnabled s (internalOrder v pk s) with
    | some s' => settle v pk fuel s'
    | none => s

theorem firstEnabled_step (s s' : St) (ls : List Lbl) (h : firstEnabled s ls = some s') :
    ∃ l, step s l = some s' := by
  induction ls with
  | nil => simp [firstEnabled] at h
  | cons l ls ih =>
    simp only [firstEnabled] at h
    split at h
    · rename_i s1 hs1
      cases h
      exact ⟨l, hs1⟩
    · exact ih h

theorem settle_reachable {cap maxB : Nat} {blocking : Bool} (v : Nat) (pk : Parked) (fuel : Nat) (s : St)
    (h : Reachable cap maxB blocking s) : Reachable cap maxB blocking (settle v pk fuel s) := by
  induction fuel generalizing s with
  | zero => exact h
  | succ n ih =>
    simp only [settle]
    split
    · rename_i s' hs'
      obtain ⟨l, hl⟩ := firstEnabled_step s s' _ hs'
      exact ih s' (Reachable.step l h hl)
    · exact h

/-- script operations of a controlled schedule -/
inductive Op where
  | end_ (id : Nat)      -- OnEnd of a sampled span (runs in its own goroutine; may block in blocking mode)
  | endU (id : Nat)      -- OnEnd of an unsampled span: returns at once, nothing is queued or counted
  | gate (ok : Bool)     -- let the exporter call in progress return nil / an error
  | ff (fid : Nat)       -- ForceFlush(ctx) in its own goroutine
  | sd                   -- Shutdown(ctx) in its own goroutine; any number of them (the first wins `stopOnce`)
  | sdT                  -- Shutdown(ctx) with a context that has already ended: if it wins `stopOnce` it stores `stopped`,
                         -- starts the shutdown goroutine and returns ctx.Err() from its select at once; otherwise it
                         -- waits in `Once.Do` like any other call (no context there) and returns nil
  | parkEnd (id : Nat)   -- OnEnd that is parked right after its `stopped` check
  | releaseEnd (id : Nat)
  | parkFF (fid : Nat)   -- ForceFlush parked right after its `stopped` check
  | releaseFF (fid : Nat)
  | parkSd               -- Shutdown parked right after storing `stopped` (only the call that wins `stopOnce` gets there)
  | releaseSd
deriving Repr

/-- a Shutdown call: the first one wins `stopOnce` (label `sdCall`), every later one finds the once taken
(label `sdCallLate` with the next free caller id) -/
def callShutdown (s : St) : Option St :=
  if s.sd = .none then step s .sdCall else step s (.sdCallLate s.sds.length)

theorem callShutdown_step (s s' : St) (h : callShutdown s = some s') : ∃ l, step s l = some s' := by
  unfold callShutdown at h
  split at h
  · exact ⟨_, h⟩
  · exact ⟨_, h⟩

/-- apply an API op: take its first label(s) if enabled; the rest happens in `settle` -/
def applyOp (ps : Parked × St) : Op → Parked × St
  | .end_ id => match step ps.2 (.accept id) with
    | some s' => ({ ps.1 with sendOrder := ps.1.sendOrder ++ [id] }, s')
    | none => ps                     -- stopped (or id reused): OnEnd returns at once
  | .endU id => (ps.1, (step ps.2 (.endUnsampled id)).getD ps.2)
  | .gate ok =>
    match ps.2.busy with
    | some .worker => (ps.1, (step ps.2 (.exportEnd ok)).getD ps.2)
    | some (.ff fid) => (ps.1, (step ps.2 (if ok then .ffExportEndOk fid else .ffExportEndErr fid)).getD ps.2)
    | none => ps
  | .ff fid => (ps.1, (step ps.2 (.ffCall fid)).getD ps.2)
  | .sd => (ps.1, (callShutdown ps.2).getD ps.2)
  | .sdT =>
    if ps.2.sd = .none then
      match step ps.2 .sdCall with
      | some s1 => match step s1 .sdStore with
        | some s2 => match step s2 .sdTimeout with
          | some s3 => (ps.1, s3)
          | none => (ps.1, s2)
        | none => (ps.1, s1)
      | none => ps
    else (ps.1, (callShutdown ps.2).getD ps.2)
  | .parkEnd id => match step ps.2 (.accept id) with
    | some s' => ({ ps.1 with spans := id :: ps.1.spans }, s')
    | none => ps                     -- already stopped: returns before the hook, nothing is parked
  | .releaseEnd id =>
    if ps.1.spans.contains id then
      ({ ps.1 with spans := ps.1.spans.filter (· != id), sendOrder := ps.1.sendOrder ++ [id] }, ps.2)
    else ps
  | .parkFF fid => match step ps.2 (.ffCall fid) with
    | some s' => if s'.stopped then (ps.1, s') else ({ ps.1 with ffs := fid :: ps.1.ffs }, s')
    | none => ps
  | .releaseFF fid => ({ ps.1 with ffs := ps.1.ffs.filter (· != fid) }, ps.2)
  | .parkSd =>
    if ps.2.sd = .none then
      match step ps.2 .sdCall with
      | some s' => ({ ps.1 with sd := true }, s')
      | none => ps
    else (ps.1, (callShutdown ps.2).getD ps.2)   -- not the first Shutdown: it waits in `Once.Do`, never reaches the hook
  | .releaseSd => ({ ps.1 with sd := false }, ps.2)

theorem applyOp_reachable {cap maxB : Nat} {blocking : Bool} (ps : Parked × St) (op : Op)
    (h : Reachable cap maxB blocking ps.2) : Reachable cap maxB blocking (applyOp ps op).2 := by
  cases op <;> simp only [applyOp]
  case end_ id =>
    split
    · rename_i s' hs'; exact Reachable.step _ h hs'
    · exact h
  case endU id =>
    cases hs : step ps.2 (.endUnsampled id) with
    | none => simpa [hs] using h
    | some s' => simpa [hs] using Reachable.step _ h hs
  case gate ok =>
    split
    · cases hs : step ps.2 (.exportEnd ok) with
      | none => simpa [hs] using h
      | some s' => simpa [hs] using Reachable.step _ h hs
    · rename_i fid _
      cases hs : step ps.2 (if ok then .ffExportEndOk fid else .ffExportEndErr fid) with
      | none => simpa [hs] using h
      | some s' => simpa [hs] using Reachable.step _ h hs
    · exact h
  case ff fid =>
    cases hs : step ps.2 (.ffCall fid) with
    | none => simpa [hs] using h
    | some s' => simpa [hs] using Reachable.step _ h hs
  case sd =>
    cases hs : callShutdown ps.2 with
    | none => simpa [hs] using h
    | some s' =>
      obtain ⟨l, hl⟩ := callShutdown_step _ _ hs
      simpa [hs] using Reachable.step l h hl
  case sdT =>
    split
    · split
      · rename_i s1 hs1
        have h1 := Reachable.step _ h hs1
        split
        · rename_i s2 hs2
          have h2 := Reachable.step _ h1 hs2
          split
          · rename_i s3 hs3; exact Reachable.step _ h2 hs3
          · exact h2
        · exact h1
      · exact h
    · cases hs : callShutdown ps.2 with
      | none => simpa [hs] using h
      | some s' =>
        obtain ⟨l, hl⟩ := callShutdown_step _ _ hs
        simpa [hs] using Reachable.step l h hl
  case parkEnd id =>
    split
    · rename_i s' hs'; exact Reachable.step _ h hs'
    · exact h
  case releaseEnd id => split <;> exact h
  case parkFF fid =>
    split
    · rename_i s' hs'
      split <;> exact Reachable.step _ h hs'
    · exact h
  case releaseFF fid => exact h
  case parkSd =>
    split
    · split
      · rename_i s' hs'; exact Reachable.step _ h hs'
      · exact h
    · cases hs : callShutdown ps.2 with
      | none => simpa [hs] using h
      | some s' =>
        obtain ⟨l, hl⟩ := callShutdown_step _ _ hs
        simpa [hs] using Reachable.step l h hl
  case releaseSd => exact h

end Otel.C01
