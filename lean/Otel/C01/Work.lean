/-
C01 — quantitative liveness: a potential `workPot` that every step of the worker goroutine (and every return of an
exporter call) strictly decreases, unless it is a firing of the batch timer while the worker has something better to
do, and that the other threads increase only by a bounded amount per item they offer (a span or flush marker sent to
the queue, a ForceFlush's own export). Consequences (Props.lean): in ANY run — every interleaving of every thread — the
number of worker steps is bounded by the initial potential plus the offered load, so a run in which the worker keeps
taking steps while the environment has stopped offering reaches a state where no worker step is enabled; and in such a
state every span whose `End` has returned is exported or counted as dropped (or the worker has exited).
-/
import Otel.C01.Stuck
namespace Otel.C01

/-- position of the worker in its loops, refined by whether it is inside the exporter -/
def phW (s : St) : Nat :=
  match s.w with
  | .exited => 0
  | .final => if s.busy = some .worker then 1 else 2
  | .drain => 3
  | .dpend => if s.busy = some .worker then 4 else 5
  | .run => 6
  | .pend => if s.busy = some .worker then 7 else 8

def ffBusy (s : St) : Nat := match s.busy with | some (.ff _) => 1 | _ => 0

/-- remaining work of the worker: 5 per queued item (receive, append, timer or size trigger, export start, export
return), 4 for a span in its hand, 3 for a non-empty batch that waits for the timer, plus the phase -/
def workPot (s : St) : Nat :=
  5 * s.queue.length + (if s.hand.isSome then 4 else 0) + (if s.batch ≠ [] ∧ s.w = .run then 3 else 0) + phW s + ffBusy s

/-- the worker-side steps under the timer discipline: the steps of the worker goroutine (`processQueue`/`drainQueue`:
receive, append, `<-stopCh`, the `default` of the drain, export start), the returns of the exporter calls, and the batch
timer only when it is the only thing left to do in `processQueue` (empty queue, non-empty batch) — in the Go code the
timer fires once per `BatchTimeout`, in the LTS `wTimer` is enabled at any moment (over-approximation for safety), so a
schedule that fires it for ever between two receives is a run of the LTS but not of the program -/
def fairWorker (s : St) : Lbl → Bool
  | .wRecv | .wAppend | .wExportStart | .wStop | .wDrainEmpty | .exportEnd _ | .ffExportEndOk _ | .ffExportEndErr _ => true
  | .wTimer => s.queue.isEmpty && !s.batch.isEmpty
  | _ => false

/-- what a step of another thread (or an undisciplined timer firing) adds to the worker's work -/
def load (s : St) : Lbl → Nat
  | .send _ => if s.queue.length < s.cap then 5 else 0
  | .ffEnqueue _ => 5
  | .ffExportStart _ => if s.batch = [] then 0 else 1
  | .wTimer => if s.queue.isEmpty && !s.batch.isEmpty then 0 else 2
  | _ => 0

theorem work_step (s s' : St) (l : Lbl) (hB : InvB s) (hC : InvC s) (hs : step s l = some s') :
    workPot s' + (if fairWorker s l then 1 else 0) ≤ workPot s + load s l := by
  have hbe := hB.busyEmpty
  have hbw := hC.busyWorker
  cases l <;> simp only [step] at hs
  all_goals (
    repeat' (split at hs)
    all_goals (try (simp at hs))
    all_goals (try subst hs)
    all_goals (simp only [workPot, phW, ffBusy, fairWorker, load])
    all_goals (cases hw : s.w <;> cases hbz : s.busy <;> simp_all [afterExport] <;> (try split) <;> (try simp_all) <;> (try omega)))

/-- number of disciplined worker-side steps in a run -/
def fairCount (s : St) : List Lbl → Nat
  | [] => 0
  | l :: ls => match step s l with
    | some s' => (if fairWorker s l then 1 else 0) + fairCount s' ls
    | none => 0

/-- the load offered by the other threads (and by undisciplined timer firings) along a run -/
def loadSum (s : St) : List Lbl → Nat
  | [] => 0
  | l :: ls => match step s l with
    | some s' => load s l + loadSum s' ls
    | none => 0

theorem work_run (s s' : St) (ls : List Lbl) (hI : Inv s) (hr : run s ls = some s') :
    workPot s' + fairCount s ls ≤ workPot s + loadSum s ls := by
  induction ls generalizing s with
  | nil => simp [run] at hr; subst hr; simp [fairCount, loadSum]
  | cons l ls ih =>
    simp only [run] at hr
    cases hs : step s l with
    | none => simp [hs] at hr
    | some s1 =>
      simp only [hs] at hr
      have h1 := work_step s s1 l hI.b hI.c hs
      have h2 := ih s1 (inv_step s s1 l hI hs) hr
      simp only [fairCount, loadSum, hs]
      omega

/-- no disciplined worker-side step is enabled -/
def WorkerQuiescent (s : St) : Prop := ∀ l, fairWorker s l = true → step s l = none

theorem quiescent_shape (s : St) (hC : InvC s) (hq : WorkerQuiescent s) :
    (s.w = .run ∧ s.queue = [] ∧ s.hand = none ∧ s.batch = [] ∧ s.busy = none ∧ s.stopClosed = false) ∨
    (s.w = .exited ∧ s.busy = none) := by
  cases hb : s.busy with
  | some who =>
    exfalso
    cases who with
    | worker => have := hq (.exportEnd true) rfl; simp [step, hb] at this
    | ff fid => have := hq (.ffExportEndOk fid) rfl; simp [step, hb] at this
  | none =>
    cases hh : s.hand with
    | some id =>
      exfalso
      have := hq .wAppend rfl
      rcases hC.handPhase (by simp [hh]) with hw | hw <;> simp [step, hh, hb, hw] at this
    | none =>
      cases hw : s.w with
      | exited => exact Or.inr ⟨rfl, rfl⟩
      | pend => exfalso; have := hq .wExportStart rfl; simp only [step, hw, hb] at this; split at this <;> (try split at this) <;> simp_all
      | dpend => exfalso; have := hq .wExportStart rfl; simp only [step, hw, hb] at this; split at this <;> (try split at this) <;> simp_all
      | final => exfalso; have := hq .wExportStart rfl; simp only [step, hw, hb] at this; split at this <;> (try split at this) <;> simp_all
      | drain =>
        exfalso
        cases hqu : s.queue with
        | nil => have := hq .wDrainEmpty rfl; simp [step, hw, hh, hqu] at this
        | cons x q =>
          have := hq .wRecv rfl
          cases x <;> simp [step, hw, hh, hqu] at this
      | run =>
        left
        cases hqu : s.queue with
        | cons x q =>
          exfalso
          have := hq .wRecv rfl
          cases x <;> simp [step, hw, hh, hqu] at this
        | nil =>
          have hbatch : s.batch = [] := by
            cases hbt : s.batch with
            | nil => rfl
            | cons a r =>
              exfalso
              have := hq .wTimer (by simp [fairWorker, hqu, hbt])
              simp [step, hw, hh] at this
          have hst : s.stopClosed = false := by
            cases hsc : s.stopClosed with
            | false => rfl
            | true =>
              exfalso
              have := hq .wStop rfl
              simp [step, hw, hh, hsc] at this
          exact ⟨rfl, rfl, rfl, hbatch, rfl, hst⟩

end Otel.C01
