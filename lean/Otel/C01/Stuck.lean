/-
C01 — known finding F42 (property C15): after Shutdown has made the worker stop receiving, a producer that passed its
`stopped` check earlier blocks on the FULL queue with nobody left to receive — a ForceFlush at its marker send
(`enqueueBlockOnQueueFull` selects only on `queue <- sd` and `ctx.Done()`, there is no `stopCh` case), and in blocking
mode an `OnEnd` at its send (its context is `context.TODO()`).

`StuckFF` / `StuckEnd` / `StuckProducer_applies` are the model predicates; they are closed under every step except the
context cancellation of that ForceFlush (`stuckFF_step`, `stuckEnd_step`), and the producer's own send is disabled
(`stuckFF_disabled`, `stuckEnd_disabled`): stuck for ever. Conversely (`worker_serves`) while the worker has not stopped
receiving, a non-empty queue is always served by a finite run of worker-side steps, so a blocked producer is not
stuck before that.

Context expiry: a ForceFlush context that ends is the nondeterministic label `ffCancel fid` (the call then returns
ctx.Err()); `OnEnd` has no context of its own (`context.TODO()`), no label cancels it.
-/
import Otel.C01.Lemmas3
import Otel.C01.Progress
namespace Otel.C01

/-- the worker will never receive from the queue again: it has seen the queue empty in `drainQueue` and is making its
final export (`final`), or it has exited -/
def workerDone (s : St) : Bool := s.w == .final || s.w == .exited

/-- the ForceFlush call `fid` sits at its marker send, the queue is full and the worker has stopped receiving -/
def StuckFF (s : St) (fid : Nat) : Bool :=
  workerDone s && decide (s.cap ≤ s.queue.length) && hasPh fid .checked s.ffs

/-- blocking mode: the `OnEnd` of span `id` sits at its send, the queue is full and the worker has stopped receiving -/
def StuckEnd (s : St) (id : Nat) : Bool :=
  workerDone s && s.blocking && decide (s.cap ≤ s.queue.length) && s.inflight.contains id

/-- F42 predicate: some producer is stuck for ever on the full queue -/
def StuckProducer_applies (s : St) : Bool :=
  s.ffs.any (fun f => StuckFF s f.fid) || s.inflight.any (fun id => StuckEnd s id)

theorem hasPh_setPh_other (fid g : Nat) (p a b : FPhase) (ffs : List FF) (ha : a ≠ p)
    (h : hasPh fid p ffs = true) : hasPh fid p (setPh g a b ffs) = true := by
  obtain ⟨f, hf, hfid, hph⟩ := hasPh_exists _ _ _ h
  simp only [hasPh, List.any_eq_true, decide_eq_true_eq]
  refine ⟨f, ?_, hfid, hph⟩
  simp only [setPh, List.mem_map]
  refine ⟨f, hf, ?_⟩
  have : ¬ (f.fid = g ∧ f.ph = a) := fun hc => ha (hc.2.symm.trans hph)
  simp [this]

theorem hasPh_cons (fid : Nat) (p : FPhase) (f : FF) (ffs : List FF) (h : hasPh fid p ffs = true) :
    hasPh fid p (f :: ffs) = true := by
  simp only [hasPh, List.any_cons, Bool.or_eq_true] at h ⊢
  exact Or.inr h

theorem hasPh_cancel_other (fid g : Nat) (ffs : List FF) (hg : g ≠ fid) (h : hasPh fid .checked ffs = true) :
    hasPh fid .checked (ffs.map fun f =>
      if f.fid = g ∧ (f.ph = .called ∨ f.ph = .checked ∨ f.ph = .queued ∨ f.ph = .flushed ∨ f.ph = .exporting)
      then { f with ph := .retErr } else f) = true := by
  obtain ⟨f, hf, hfid, hph⟩ := hasPh_exists _ _ _ h
  simp only [hasPh, List.any_eq_true, decide_eq_true_eq]
  refine ⟨f, ?_, hfid, hph⟩
  simp only [List.mem_map]
  refine ⟨f, hf, ?_⟩
  have : ¬ f.fid = g := fun e => hg (e.symm.trans hfid)
  simp [this]

/-- the worker never starts receiving again, and the queue of a worker that has stopped receiving never shrinks -/
theorem workerDone_step (s s' : St) (l : Lbl) (hs : step s l = some s') (h : workerDone s = true) :
    workerDone s' = true ∧ s'.cap = s.cap ∧ s'.blocking = s.blocking ∧ s.queue.length ≤ s'.queue.length := by
  simp only [workerDone, Bool.or_eq_true, beq_iff_eq] at h ⊢
  cases l <;> simp only [step] at hs
  all_goals (
    repeat' (split at hs)
    all_goals (try (simp at hs))
    all_goals (try subst hs)
    all_goals (first
      | exact ⟨h, rfl, rfl, Nat.le_refl _⟩
      | (simp_all [afterExport] <;> omega)
      | (rcases h with h | h <;> simp_all [afterExport])))

/-- F42 (a), ForceFlush: the marker send of a stuck ForceFlush is disabled … -/
theorem stuckFF_disabled (s : St) (fid : Nat) (h : StuckFF s fid = true) : step s (.ffEnqueue fid) = none := by
  simp only [StuckFF, Bool.and_eq_true, decide_eq_true_eq] at h
  simp only [step]
  rw [if_neg]
  intro hc
  omega

/-- … and it stays stuck under every step of every thread except the cancellation of its own context -/
theorem stuckFF_step (s s' : St) (l : Lbl) (fid : Nat) (hs : step s l = some s') (hl : l ≠ .ffCancel fid)
    (h : StuckFF s fid = true) : StuckFF s' fid = true := by
  have hw := workerDone_step s s' l hs (by simp only [StuckFF, Bool.and_eq_true] at h; exact h.1.1)
  simp only [StuckFF, Bool.and_eq_true, decide_eq_true_eq] at h ⊢
  obtain ⟨⟨_, hq⟩, hp⟩ := h
  refine ⟨⟨hw.1, by rw [hw.2.1]; omega⟩, ?_⟩
  cases l <;> simp only [step] at hs
  case ffEnqueue g =>
    split at hs
    · rename_i hg; omega
    · simp at hs
  case ffCancel g =>
    simp at hs; subst hs
    exact hasPh_cancel_other fid g s.ffs (fun e => hl (by rw [e])) hp
  all_goals (
    repeat' (split at hs)
    all_goals (try (simp at hs))
    all_goals (try subst hs)
    all_goals (first
      | exact hp
      | exact hasPh_setPh_other fid _ .checked _ _ s.ffs (by decide) hp
      | exact hasPh_cons fid .checked _ s.ffs hp))

/-- F42 (a), blocking-mode `OnEnd`: the send of a stuck `OnEnd` is disabled … -/
theorem stuckEnd_disabled (s : St) (id : Nat) (h : StuckEnd s id = true) : step s (.send id) = none := by
  simp only [StuckEnd, Bool.and_eq_true, decide_eq_true_eq, List.contains_iff_mem] at h
  obtain ⟨⟨⟨_, hb⟩, hq⟩, hi⟩ := h
  simp only [step, hi, if_true, hb]
  rw [if_neg (by omega)]

/-- … and it stays stuck under every step of every thread (`OnEnd` has no context that could end) -/
theorem stuckEnd_step (s s' : St) (l : Lbl) (id : Nat) (hs : step s l = some s') (h : StuckEnd s id = true) :
    StuckEnd s' id = true := by
  have hw := workerDone_step s s' l hs (by simp only [StuckEnd, Bool.and_eq_true] at h; exact h.1.1.1)
  simp only [StuckEnd, Bool.and_eq_true, decide_eq_true_eq, List.contains_iff_mem] at h ⊢
  obtain ⟨⟨⟨_, hb⟩, hq⟩, hi⟩ := h
  refine ⟨⟨⟨hw.1, by rw [hw.2.2.1]; exact hb⟩, by rw [hw.2.1]; omega⟩, ?_⟩
  cases l <;> simp only [step] at hs
  case send j =>
    split at hs
    · split at hs
      · omega
      · simp at hs
    · simp at hs
  all_goals (
    repeat' (split at hs)
    all_goals (try (simp at hs))
    all_goals (try subst hs)
    all_goals (first
      | exact hi
      | exact List.mem_cons_of_mem _ hi))

/-- stuck for ever: along every run of the model that does not cancel the ForceFlush's context -/
theorem stuckFF_run (s s' : St) (fid : Nat) (ls : List Lbl) (hr : run s ls = some s') (hl : Lbl.ffCancel fid ∉ ls)
    (h : StuckFF s fid = true) : StuckFF s' fid = true := by
  induction ls generalizing s with
  | nil => simp [run] at hr; subst hr; exact h
  | cons l ls ih =>
    simp only [run] at hr
    split at hr
    · rename_i s1 hs1
      simp only [List.mem_cons, not_or] at hl
      exact ih s1 hr hl.2 (stuckFF_step s s1 l fid hs1 (fun e => hl.1 e.symm) h)
    · simp at hr

theorem stuckEnd_run (s s' : St) (id : Nat) (ls : List Lbl) (hr : run s ls = some s')
    (h : StuckEnd s id = true) : StuckEnd s' id = true := by
  induction ls generalizing s with
  | nil => simp [run] at hr; subst hr; exact h
  | cons l ls ih =>
    simp only [run] at hr
    split at hr
    · rename_i s1 hs1
      exact ih s1 hr (stuckEnd_step s s1 l id hs1 h)
    · simp at hr

/-! ### before the worker stops receiving, a non-empty queue is always served -/

/-- the steps of the worker goroutine and the return of the exporter call that holds the batch mutex -/
def Lbl.workerSide : Lbl → Bool
  | .wRecv | .wAppend | .wExportStart | .exportEnd _ | .ffExportEndOk _ | .ffExportEndErr _ => true
  | _ => false

/-- how far the worker is from its next receive -/
def serveRank (s : St) : Nat :=
  match s.hand with
  | some _ => if s.busy.isSome then 5 else 4
  | none =>
    if s.w = .run ∨ s.w = .drain then 0
    else match s.busy with
      | some .worker => 1
      | none => 2
      | some (.ff _) => 3

theorem serve_step (s : St) (hI : Inv s) (hnd : workerDone s = false) (hq : s.queue ≠ []) :
    ∃ l s', l.workerSide = true ∧ step s l = some s' ∧
      (s'.queue.length < s.queue.length ∨
        (s'.queue = s.queue ∧ workerDone s' = false ∧ serveRank s' < serveRank s)) := by
  have hC := hI.c
  simp only [workerDone, Bool.or_eq_false_iff, beq_eq_false_iff_ne, ne_eq] at hnd
  cases hh : s.hand with
  | some id =>
    have hw := hC.handPhase (by simp [hh])
    cases hb : s.busy with
    | none =>
      refine ⟨.wAppend, ?_⟩
      rcases hw with hw | hw <;>
        (simp only [Lbl.workerSide, step, hh, hb, hw, Option.isSome_none, Bool.false_eq_true, if_false, if_true,
           true_and]
         refine ⟨_, rfl, Or.inr ⟨rfl, ?_, ?_⟩⟩
         · simp only [workerDone]; split <;> simp
         · simp only [serveRank, hh, hb]; split <;> simp)
    | some who =>
      cases who with
      | worker =>
        have := hC.busyWorker hb
        rcases hw with hw | hw <;> simp [hw] at this
      | ff fid =>
        refine ⟨.ffExportEndOk fid, ?_⟩
        simp only [Lbl.workerSide, step, hb, if_true, true_and]
        refine ⟨_, rfl, Or.inr ⟨rfl, ?_, ?_⟩⟩
        · simp [workerDone, hnd.1, hnd.2]
        · simp [serveRank, hh, hb]
  | none =>
    have recv : (s.w = .run ∨ s.w = .drain) → ∃ s', step s .wRecv = some s' ∧ s'.queue.length < s.queue.length := by
      intro hw
      cases hqq : s.queue with
      | nil => exact absurd hqq hq
      | cons x q =>
        cases x with
        | span id =>
          simp only [step, hw, hh, hqq, and_self, if_true]
          exact ⟨_, rfl, by simp⟩
        | marker fid =>
          simp only [step, hw, hh, hqq, and_self, if_true]
          split <;> exact ⟨_, rfl, by simp⟩
    have pendCase : (s.w = .pend ∨ s.w = .dpend) → ∃ l s', l.workerSide = true ∧ step s l = some s' ∧
        (s'.queue = s.queue ∧ workerDone s' = false ∧ serveRank s' < serveRank s) := by
      intro hw
      have hr0 : ¬ (s.w = .run ∨ s.w = .drain) := by rcases hw with hw | hw <;> simp [hw]
      cases hb : s.busy with
      | none =>
        refine ⟨.wExportStart, ?_⟩
        have hg : (s.w = .pend ∨ s.w = .dpend ∨ s.w = .final) := by
          rcases hw with hw | hw
          · exact Or.inl hw
          · exact Or.inr (Or.inl hw)
        simp only [Lbl.workerSide, step, hb, hg, and_self, if_true, true_and]
        by_cases hbt : s.batch = []
        · simp only [hbt, if_true]
          refine ⟨_, rfl, rfl, ?_, ?_⟩
          · rcases hw with hw | hw <;> simp [workerDone, hw, afterExport]
          · rcases hw with hw | hw <;> simp [serveRank, hh, hb, hw, afterExport]
        · simp only [hbt, if_false]
          refine ⟨_, rfl, rfl, ?_, ?_⟩
          · rcases hw with hw | hw <;> simp [workerDone, hw]
          · rcases hw with hw | hw <;> simp [serveRank, hh, hb, hw]
      | some who =>
        cases who with
        | worker =>
          refine ⟨.exportEnd true, ?_⟩
          simp only [Lbl.workerSide, step, hb, true_and]
          refine ⟨_, rfl, rfl, ?_, ?_⟩
          · rcases hw with hw | hw <;> simp [workerDone, hw, afterExport]
          · rcases hw with hw | hw <;> simp [serveRank, hh, hb, hw, afterExport]
        | ff fid =>
          refine ⟨.ffExportEndOk fid, ?_⟩
          simp only [Lbl.workerSide, step, hb, if_true, true_and]
          refine ⟨_, rfl, rfl, ?_, ?_⟩
          · rcases hw with hw | hw <;> simp [workerDone, hw]
          · rcases hw with hw | hw <;> simp [serveRank, hh, hb, hw]
    cases hw : s.w with
    | final => exact absurd hw hnd.1
    | exited => exact absurd hw hnd.2
    | run =>
      obtain ⟨s', h1, h2⟩ := recv (Or.inl hw)
      exact ⟨.wRecv, s', rfl, h1, Or.inl h2⟩
    | drain =>
      obtain ⟨s', h1, h2⟩ := recv (Or.inr hw)
      exact ⟨.wRecv, s', rfl, h1, Or.inl h2⟩
    | pend =>
      obtain ⟨l, s', h0, h1, h2⟩ := pendCase (Or.inl hw)
      exact ⟨l, s', h0, h1, Or.inr h2⟩
    | dpend =>
      obtain ⟨l, s', h0, h1, h2⟩ := pendCase (Or.inr hw)
      exact ⟨l, s', h0, h1, Or.inr h2⟩

/-- F42 (b): while the worker has not stopped receiving, a non-empty queue is served — some finite run of
worker-side steps (the worker's own steps and the return of the exporter call holding the mutex; the exporter is
assumed to return) ends with a receive that frees a slot. Fairness towards the worker is not claimed. -/
theorem worker_serves {cap maxB : Nat} {blocking : Bool} (hpos : 1 ≤ maxB) (s : St)
    (hr : Reachable cap maxB blocking s) (hnd : workerDone s = false) (hq : s.queue ≠ []) :
    ∃ ls s', (∀ l ∈ ls, l.workerSide = true) ∧ run s ls = some s' ∧ s'.queue.length < s.queue.length := by
  generalize hn : serveRank s = n
  induction n using Nat.strongRecOn generalizing s with
  | _ n ih =>
    obtain ⟨l, s1, hl, hs1, hcase⟩ := serve_step s (inv_reachable cap maxB blocking hpos s hr) hnd hq
    rcases hcase with hlt | ⟨hqe, hnd1, hrk⟩
    · exact ⟨[l], s1, by simpa using hl, by simp [run, hs1], hlt⟩
    · obtain ⟨ls, s2, hall, hrun, hlt⟩ :=
        ih (serveRank s1) (hn ▸ hrk) s1 (Reachable.step l hr hs1) hnd1 (hqe ▸ hq) rfl
      refine ⟨l :: ls, s2, ?_, by simp [run, hs1, hrun], hqe ▸ hlt⟩
      intro x hx
      simp only [List.mem_cons] at hx
      rcases hx with hx | hx
      · rw [hx]; exact hl
      · exact hall x hx

/-! ### the queue never holds more than its capacity; worker-side steps leave the producers alone -/

def InvQ (s : St) : Prop := s.queue.length ≤ s.cap

theorem invQ_reachable {cap maxB : Nat} {blocking : Bool} {s : St} (hr : Reachable cap maxB blocking s) :
    InvQ s := by
  induction hr with
  | init => simp [InvQ, init]
  | @step s s' l _ hs ih =>
    unfold InvQ at *
    cases l <;> simp only [step] at hs
    all_goals (
      repeat' (split at hs)
      all_goals (try (simp at hs))
      all_goals (try subst hs)
      all_goals (first
        | exact ih
        | (simp_all <;> omega)))

theorem workerSide_keeps (s s' : St) (l : Lbl) (fid : Nat) (hs : step s l = some s') (hl : l.workerSide = true) :
    s'.cap = s.cap ∧ s'.blocking = s.blocking ∧ s'.inflight = s.inflight ∧ s'.queue.length ≤ s.queue.length ∧
    (hasPh fid .checked s.ffs = true → hasPh fid .checked s'.ffs = true) := by
  cases l <;> (try (simp [Lbl.workerSide] at hl; done)) <;> simp only [step] at hs
  all_goals (
    repeat' (split at hs)
    all_goals (try (simp at hs))
    all_goals (try subst hs)
    all_goals (first
      | exact ⟨rfl, rfl, rfl, Nat.le_refl _, fun h => h⟩
      | exact ⟨rfl, rfl, rfl, by simp_all, fun h => h⟩
      | exact ⟨rfl, rfl, rfl, by simp_all, fun h => hasPh_setPh_other fid _ .checked _ _ s.ffs (by decide) h⟩
      | exact ⟨rfl, rfl, rfl, Nat.le_refl _, fun h => hasPh_setPh_other fid _ .checked _ _ s.ffs (by decide) h⟩))

theorem workerSide_run_keeps (s s' : St) (ls : List Lbl) (fid : Nat) (hr : run s ls = some s')
    (hl : ∀ l ∈ ls, l.workerSide = true) :
    s'.cap = s.cap ∧ s'.blocking = s.blocking ∧ s'.inflight = s.inflight ∧
    (hasPh fid .checked s.ffs = true → hasPh fid .checked s'.ffs = true) := by
  induction ls generalizing s with
  | nil => simp [run] at hr; subst hr; exact ⟨rfl, rfl, rfl, fun h => h⟩
  | cons l ls ih =>
    simp only [run] at hr
    split at hr
    · rename_i s1 hs1
      have h1 := workerSide_keeps s s1 l fid hs1 (hl l (List.mem_cons_self ..))
      have h2 := ih s1 hr (fun x hx => hl x (List.mem_cons_of_mem _ hx))
      exact ⟨h2.1.trans h1.1, h2.2.1.trans h1.2.1, h2.2.2.1.trans h1.2.2.1, fun h => h2.2.2.2 (h1.2.2.2.2 h)⟩
    · simp at hr

end Otel.C01
