/-
C01 — refinement: the LTS of the batch span processor, seen through the abstraction `absF`, only ever takes steps of the
FIFO-with-drop specification `Spec.fifoStep` (SpecFifo.lean). The ghost `sent` records the order of the successful queue
sends.
-/
import Otel.C01.Stuck
import Otel.C01.History
import Otel.C01.SpecFifo
namespace Otel.C01

/-- the spans between the queue and the exporter, oldest first: batch, then the worker's hand, then the queue
(flush markers are not spans) -/
def pendingL (s : St) : List Nat := s.batch ++ handL s.hand ++ spansOf s.queue

/-- the abstraction function -/
def absF (s : St) : Spec.Fifo :=
  { pending := pendingL s, out := s.exported, dropped := s.droppedIds, pushed := s.sent }

theorem spansOf_length_le (q : List Item) : (spansOf q).length ≤ q.length := by
  induction q with
  | nil => simp [spansOf]
  | cons x r ih => cases x <;> simp [spansOf] <;> omega

theorem handL_length_le (h : Option Nat) : (handL h).length ≤ 1 := by
  cases h <;> simp [handL]

/-- every step of the LTS is a step of the specification -/
theorem refines_step (s s' : St) (l : Lbl) (hB : InvB s) (hQ : InvQ s) (hs : step s l = some s') :
    Spec.fifoStep s.cap s.maxB s.blocking (absF s) (absF s') := by
  cases l <;> simp only [step] at hs
  case send id =>
    split at hs
    · split at hs
      · rename_i hlt
        simp only [Option.some.injEq] at hs; subst hs
        refine Or.inr (Or.inl ⟨id, ?_, ?_⟩)
        · have h1 := spansOf_length_le s.queue
          have h2 := handL_length_le s.hand
          have h3 := hB.bound
          simp only [absF, pendingL, List.length_append]
          omega
        · simp [absF, pendingL, spansOf_append, spansOf]
      · split at hs
        · simp at hs
        · rename_i hnb
          simp only [Option.some.injEq] at hs; subst hs
          exact Or.inr (Or.inr (Or.inl ⟨id, by simpa using hnb, rfl⟩))
    · simp at hs
  case wRecv =>
    split at hs
    · rename_i hg
      split at hs
      · simp at hs
      · simp only [Option.some.injEq] at hs; subst hs
        rename_i id q hq
        left
        simp [absF, pendingL, hg.2, hq, handL, spansOf]
      · rename_i fid q hq
        split at hs <;> (simp only [Option.some.injEq] at hs; subst hs; left; simp [absF, pendingL, hq, spansOf])
    · simp at hs
  case wAppend =>
    split at hs
    · simp at hs
    · rename_i id hh
      split at hs
      · simp at hs
      · split at hs
        · simp only [Option.some.injEq] at hs; subst hs
          left; simp [absF, pendingL, hh, handL]
        · split at hs
          · simp only [Option.some.injEq] at hs; subst hs
            left; simp [absF, pendingL, hh, handL]
          · simp at hs
  case wExportStart =>
    split at hs
    · split at hs
      · simp only [Option.some.injEq] at hs; subst hs
        exact Or.inl rfl
      · rename_i hne
        simp only [Option.some.injEq] at hs; subst hs
        refine Or.inr (Or.inr (Or.inr ⟨s.batch.length, ?_, hB.bound, ?_, ?_⟩))
        · cases hb : s.batch with
          | nil => exact absurd hb hne
          | cons => simp
        · simp [absF, pendingL]
        · simp [absF, pendingL, List.append_assoc]
    · simp at hs
  case ffExportStart fid =>
    split at hs
    · split at hs
      · simp only [Option.some.injEq] at hs; subst hs
        exact Or.inl rfl
      · rename_i hne
        simp only [Option.some.injEq] at hs; subst hs
        refine Or.inr (Or.inr (Or.inr ⟨s.batch.length, ?_, hB.bound, ?_, ?_⟩))
        · cases hb : s.batch with
          | nil => exact absurd hb hne
          | cons => simp
        · simp [absF, pendingL]
        · simp [absF, pendingL, List.append_assoc]
    · simp at hs
  all_goals (
    repeat' (split at hs)
    all_goals (try (simp at hs))
    all_goals (try subst hs)
    all_goals (first | exact Or.inl rfl | (left; simp [absF, pendingL, spansOf_append, spansOf])))

/-- hence every reachable state of the LTS maps to a reachable state of the specification -/
theorem refines_reachable {cap maxB : Nat} {blocking : Bool} (hpos : 1 ≤ maxB) {s : St}
    (h : Reachable cap maxB blocking s) : Spec.FifoReach cap maxB blocking (absF s) := by
  induction h with
  | init => exact Spec.FifoReach.init
  | @step s s' l hr hs ih =>
    have hI := inv_reachable cap maxB blocking hpos s hr
    have hQ := invQ_reachable hr
    have hcfg := reachable_cfg hr
    have := refines_step s s' l hI.b hQ hs
    rw [hcfg.1, hcfg.2.1, hcfg.2.2] at this
    exact Spec.FifoReach.step ih this

end Otel.C01
