/-
C01 — batch span processor (sdk/trace/batch_span_processor.go) as a labelled transition system.

Labels are the atomic actions of the Go code (one per synchronisation point: atomic load/store,
channel send/receive, mutex-protected region, exporter call/return). Producers (`OnEnd`) and
`ForceFlush` callers form unbounded pools (`inflight`, `ffs`); there is one worker goroutine
(`processQueue` then `drainQueue`). `Shutdown` may be called by any number of goroutines: the call that wins
`stopOnce` (`sync.Once.Do`) runs the once-body and its goroutine (labels `sdCall` … `sdReturnOk`, phases `SPhase`);
every other call (`sdCallLate cid`) finds the once taken, blocks inside `Once.Do` until the winner's function has
returned, and then returns nil (`sdReturnLate cid`) — pool `sds`. The winner's context may end while it waits for the
shutdown goroutine (`sdTimeout`): the call returns ctx.Err(), `stopOnce` is done (the waiting callers return nil at
once), and the goroutine it started goes on closing `stopCh`, joining the worker and shutting the exporter down.

Ghost components (not in the Go state): `accepted`, `seen`, `droppedIds`, `exported` (the
exporter's log, appended at ExportSpans entry), the `pre` sets of ForceFlush/Shutdown.
Unsampled spans: `OnEnd` of an unsampled span passes the `stopped` check and is then discarded by
`enqueueDrop` / `enqueueBlockOnQueueFull` (`IsSampled` test first, in both modes) before any shared state is
touched — it is neither queued nor counted as dropped: label `endUnsampled`, a no-op on the Go state that only
records the id in the ghost `unsampled`. Span ids are unique over sampled and unsampled spans.
-/
namespace Otel.C01

inductive Item where
  | span (id : Nat)
  | marker (fid : Nat)
deriving DecidableEq, Repr

/-- worker phases: `run` = select in processQueue; `pend` = appended/timer fired, exportSpans next,
then back to `run`; `drain` = loop of drainQueue; `dpend` = exportSpans next, then back to `drain`;
`final` = queue seen empty, final exportSpans next; `exited` -/
inductive WPhase where
  | run | pend | drain | dpend | final | exited
deriving DecidableEq, Repr

/-- ForceFlush call phases -/
inductive FPhase where
  | called      -- entered, `pre` recorded (ghost)
  | checked     -- ctx ok, `stopped` loaded false
  | queued      -- marker sent to the queue, waiting in the 3-way select
  | flushed     -- `flushed` channel closed by the worker
  | exporting   -- own exportSpans holds the mutex inside the exporter
  | retOk       -- returned nil after its own exportSpans returned nil
  | retEarly    -- returned nil because `stopped` was set / `stopCh` won the select  [F22]
  | retErr      -- returned an error (ctx or exporter)
deriving DecidableEq, Repr

structure FF where
  fid : Nat
  pre : List Nat        -- ghost: ids whose End had returned when ForceFlush was called
  ph : FPhase
deriving DecidableEq, Repr

inductive Who where
  | worker
  | ff (fid : Nat)
deriving DecidableEq, Repr

/-- Shutdown (the `stopOnce` body and its goroutine): `none` not called; `called` pre recorded;
`stored` stopped=true; `closed` stopCh closed (waiting for the worker); `shut` exporter.Shutdown done -/
inductive SPhase where
  | none | called | stored | closed | shut
deriving DecidableEq, Repr

/-- a Shutdown call that did not win `stopOnce`: blocked in `sync.Once.Do` until the winner's function has
returned (`done` stored, once-mutex released), then it returns nil -/
structure SD where
  cid : Nat
  pre : List Nat        -- ghost: ids whose End had returned when this Shutdown was called
  ret : Bool            -- returned nil
deriving DecidableEq, Repr

structure St where
  cap : Nat
  maxB : Nat
  blocking : Bool
  queue : List Item := []
  hand : Option Nat := none      -- span received by the worker, not yet appended (waiting for the mutex)
  batch : List Nat := []
  busy : Option Who := none      -- batchMutex held across an exporter call
  exported : List (List Nat) := []   -- ghost: exporter log (batches at ExportSpans entry)
  droppedIds : List Nat := []    -- ghost: the counter `dropped` is its length
  inflight : List Nat := []      -- OnEnd passed the `stopped` check, not yet sent
  accepted : List Nat := []      -- ghost: every id that passed the check
  seen : List Nat := []          -- ghost: ids whose End returned (sent or dropped)
  unsampled : List Nat := []     -- ghost: ids of unsampled spans whose End returned (never queued, never counted)
  stopped : Bool := false
  stopClosed : Bool := false
  w : WPhase := .run
  ffs : List FF := []
  sd : SPhase := .none
  sdPre : List Nat := []         -- ghost: `seen` when Shutdown was called
  sdRetOk : Bool := false        -- the winning Shutdown call returned nil (its once-function returned: `stopOnce` is done)
  sds : List SD := []            -- the Shutdown calls that did not win `stopOnce`
  sdRetErr : Bool := false       -- the winning Shutdown call returned ctx.Err(): its context ended while it waited for
                                 -- the shutdown goroutine (`case <-ctx.Done()`); `stopOnce` is done, the goroutine goes on
  sent : List Nat := []          -- ghost: the span ids in the order of their successful queue sends
deriving Repr

inductive Lbl where
  | accept (id : Nat)            -- OnEnd: stopped.Load() == false (sampled span, exporter non-nil)
  | send (id : Nat)              -- enqueueDrop / enqueueBlockOnQueueFull
  | endUnsampled (id : Nat)      -- OnEnd of an unsampled span: `IsSampled` false in enqueue*, returns at once
  | wRecv                        -- worker: receive from queue (span → hand, marker → close(flushed) / ignored in drain)
  | wAppend                      -- worker: Lock; append; shouldExport; Unlock
  | wTimer                       -- worker: <-timer.C in processQueue
  | wStop                        -- worker: <-stopCh in processQueue
  | wDrainEmpty                  -- worker: `default:` branch of drainQueue
  | wExportStart                 -- worker: exportSpans: Lock; len>0 ⇒ ExportSpans entry, else Unlock at once
  | exportEnd (ok : Bool)        -- the worker's ExportSpans call returns nil (`ok`) or an error — an exporter
                                 -- failure or the deadline of the ExportTimeout context; the batch is reset and the
                                 -- mutex released REGARDLESS of the result (the worker only reports the error)
  | ffCall (fid : Nat)
  | ffCheck (fid : Nat)
  | ffEnqueue (fid : Nat)
  | ffStopWins (fid : Nat)       -- `case <-bsp.stopCh: return nil`
  | ffExportStart (fid : Nat)
  | ffExportEndOk (fid : Nat)
  | ffExportEndErr (fid : Nat)
  | ffCancel (fid : Nat)         -- ctx.Done wins any of ForceFlush's selects
  | sdCall | sdStore | sdClose | sdExporterShutdown | sdReturnOk   -- the Shutdown call that wins `stopOnce`
  | sdTimeout                    -- the winning call's `select`: `case <-ctx.Done(): err = ctx.Err()` — the once-function
                                 -- returns, Shutdown returns the context's error; the goroutine it started keeps running
  | sdCallLate (cid : Nat)       -- a Shutdown call that finds `stopOnce` taken: blocked in `Once.Do`
  | sdReturnLate (cid : Nat)     -- `Once.Do` returns after the winner's function returned: Shutdown returns nil
deriving DecidableEq, Repr

def spansOf : List Item → List Nat
  | [] => []
  | .span id :: r => id :: spansOf r
  | .marker _ :: r => spansOf r

def handL (h : Option Nat) : List Nat := match h with | some x => [x] | none => []

def setPh (fid : Nat) (from_ to : FPhase) (ffs : List FF) : List FF :=
  ffs.map fun f => if f.fid = fid ∧ f.ph = from_ then { f with ph := to } else f

def hasPh (fid : Nat) (p : FPhase) (ffs : List FF) : Bool :=
  ffs.any fun f => f.fid = fid ∧ f.ph = p

/-- after the worker's exportSpans: where it continues -/
def afterExport : WPhase → WPhase
  | .pend => .run
  | .dpend => .drain
  | .final => .exited
  | p => p

def step (s : St) : Lbl → Option St
  | .accept id =>
    if s.stopped ∨ id ∈ s.accepted ∨ id ∈ s.unsampled then none
    else some { s with inflight := id :: s.inflight, accepted := id :: s.accepted }
  | .endUnsampled id =>
    if id ∈ s.accepted ∨ id ∈ s.unsampled then none
    else some { s with unsampled := id :: s.unsampled }
  | .send id =>
    if id ∈ s.inflight then
      if s.queue.length < s.cap then
        some { s with inflight := s.inflight.erase id, queue := s.queue ++ [.span id], seen := id :: s.seen,
                      sent := s.sent ++ [id] }
      else if s.blocking then none      -- blocked on the full channel
      else some { s with inflight := s.inflight.erase id, droppedIds := id :: s.droppedIds, seen := id :: s.seen }
    else none
  | .wRecv =>
    if (s.w = .run ∨ s.w = .drain) ∧ s.hand = none then
      match s.queue with
      | [] => none
      | .span id :: q => some { s with queue := q, hand := some id }
      | .marker fid :: q =>
        if s.w = .run then some { s with queue := q, ffs := setPh fid .queued .flushed s.ffs }
        else some { s with queue := q }       -- drainQueue ignores flush requests
    else none
  | .wAppend =>
    match s.hand with
    | none => none
    | some id =>
      if s.busy.isSome then none else
      let b := s.batch ++ [id]
      if s.w = .run then
        some { s with hand := none, batch := b, w := if b.length ≥ s.maxB then .pend else .run }
      else if s.w = .drain then
        some { s with hand := none, batch := b, w := if b.length = s.maxB then .dpend else .drain }
      else none
  | .wTimer => if s.w = .run ∧ s.hand = none then some { s with w := .pend } else none
  | .wStop => if s.w = .run ∧ s.hand = none ∧ s.stopClosed then some { s with w := .drain } else none
  | .wDrainEmpty => if s.w = .drain ∧ s.hand = none ∧ s.queue = [] then some { s with w := .final } else none
  | .wExportStart =>
    if (s.w = .pend ∨ s.w = .dpend ∨ s.w = .final) ∧ s.busy = none then
      if s.batch = [] then some { s with w := afterExport s.w }
      else some { s with busy := some .worker, exported := s.exported ++ [s.batch], batch := [] }
    else none
  | .exportEnd _ =>
    match s.busy with
    | some .worker => some { s with busy := none, w := afterExport s.w }
    | _ => none
  | .ffCall fid =>
    if s.ffs.any (·.fid = fid) then none
    else some { s with ffs := { fid := fid, pre := s.seen, ph := .called } :: s.ffs }
  | .ffCheck fid =>
    if hasPh fid .called s.ffs then
      some { s with ffs := setPh fid .called (if s.stopped then .retEarly else .checked) s.ffs }
    else none
  | .ffEnqueue fid =>
    if hasPh fid .checked s.ffs ∧ s.queue.length < s.cap then
      some { s with queue := s.queue ++ [.marker fid], ffs := setPh fid .checked .queued s.ffs }
    else none
  | .ffStopWins fid =>
    if hasPh fid .queued s.ffs ∧ s.stopClosed then some { s with ffs := setPh fid .queued .retEarly s.ffs }
    else none
  | .ffExportStart fid =>
    if hasPh fid .flushed s.ffs ∧ s.busy = none then
      if s.batch = [] then some { s with ffs := setPh fid .flushed .retOk s.ffs }
      else some { s with busy := some (.ff fid), exported := s.exported ++ [s.batch], batch := [],
                         ffs := setPh fid .flushed .exporting s.ffs }
    else none
  | .ffExportEndOk fid =>
    if s.busy = some (.ff fid) then some { s with busy := none, ffs := setPh fid .exporting .retOk s.ffs }
    else none
  | .ffExportEndErr fid =>
    if s.busy = some (.ff fid) then some { s with busy := none, ffs := setPh fid .exporting .retErr s.ffs }
    else none
  | .ffCancel fid =>
    -- the caller returns ctx.Err(); a spawned exportSpans goroutine keeps the mutex until it ends
    some { s with ffs := s.ffs.map fun f =>
      if f.fid = fid ∧ (f.ph = .called ∨ f.ph = .checked ∨ f.ph = .queued ∨ f.ph = .flushed ∨ f.ph = .exporting)
      then { f with ph := .retErr } else f }
  | .sdCall => if s.sd = .none then some { s with sd := .called, sdPre := s.seen } else none
  | .sdStore => if s.sd = .called then some { s with sd := .stored, stopped := true } else none
  | .sdClose => if s.sd = .stored then some { s with sd := .closed, stopClosed := true } else none
  | .sdExporterShutdown => if s.sd = .closed ∧ s.w = .exited then some { s with sd := .shut } else none
  | .sdReturnOk =>
    if s.sd = .shut ∧ s.sdRetOk = false ∧ s.sdRetErr = false then some { s with sdRetOk := true } else none
  | .sdTimeout =>
    -- the select is reached after `stopped.Store(true)` and the `go` statement; from then on the context may win it at any
    -- moment before the call has returned (also when `wait` is closed as well: Go picks a ready case at random)
    if (s.sd = .stored ∨ s.sd = .closed ∨ s.sd = .shut) ∧ s.sdRetOk = false ∧ s.sdRetErr = false then
      some { s with sdRetErr := true }
    else none
  | .sdCallLate cid =>
    if s.sd = .none ∨ s.sds.any (·.cid = cid) then none
    else some { s with sds := { cid := cid, pre := s.seen, ret := false } :: s.sds }
  | .sdReturnLate cid =>
    -- `Once.Do` returns as soon as the winner's function has returned — with nil or with its context's error
    if (s.sdRetOk ∨ s.sdRetErr) ∧ s.sds.any (fun c => c.cid = cid ∧ c.ret = false) then
      some { s with sds := s.sds.map fun c => if c.cid = cid then { c with ret := true } else c }
    else none

def init (cap maxB : Nat) (blocking : Bool) : St := { cap := cap, maxB := maxB, blocking := blocking }

/-- run a label sequence; `none` if some label is not enabled -/
def run (s : St) : List Lbl → Option St
  | [] => some s
  | l :: ls => match step s l with
    | some s' => run s' ls
    | none => none

inductive Reachable (cap maxB : Nat) (blocking : Bool) : St → Prop where
  | init : Reachable cap maxB blocking (init cap maxB blocking)
  | step {s s' : St} (l : Lbl) : Reachable cap maxB blocking s → step s l = some s' → Reachable cap maxB blocking s'

end Otel.C01
