/-
C01 — the simple specification the batch span processor is a refinement of: a FIFO buffer of span ids with a drop
counter. `pending` = the accepted spans not yet handed to the exporter (oldest first), `out` = the batches handed to the
exporter (in order), `dropped` = the spans counted as dropped, `pushed` (ghost) = every span that entered the buffer, in
order. No threads, no queue/hand/batch distinction, no flush markers, no shutdown protocol.
-/
namespace Otel.C01.Spec

structure Fifo where
  pending : List Nat := []
  out : List (List Nat) := []
  dropped : List Nat := []
  pushed : List Nat := []

/-- one step of the specification: nothing; a span enters the buffer (only while it holds fewer than
`cap + maxB + 1` spans: queue capacity + the batch + the one span in the worker's hand); a span is dropped (only in
non-blocking mode); the oldest `k` spans, `1 ≤ k ≤ maxB`, leave as one export batch -/
def fifoStep (cap maxB : Nat) (blocking : Bool) (f g : Fifo) : Prop :=
  g = f ∨
  (∃ id, f.pending.length < cap + maxB + 1 ∧
    g = { f with pending := f.pending ++ [id], pushed := f.pushed ++ [id] }) ∨
  (∃ id, blocking = false ∧ g = { f with dropped := id :: f.dropped }) ∨
  (∃ k, 1 ≤ k ∧ k ≤ maxB ∧ k ≤ f.pending.length ∧
    g = { f with pending := f.pending.drop k, out := f.out ++ [f.pending.take k] })

inductive FifoReach (cap maxB : Nat) (blocking : Bool) : Fifo → Prop where
  | init : FifoReach cap maxB blocking {}
  | step {f g : Fifo} : FifoReach cap maxB blocking f → fifoStep cap maxB blocking f g → FifoReach cap maxB blocking g

/-- what the specification guarantees, proved about the specification alone: the exporter's log followed by the buffer
is exactly the sequence of spans that entered the buffer (first in, first out, nothing lost, nothing duplicated,
nothing invented), every export batch has between 1 and `maxB` spans, the buffer never holds more than
`cap + maxB + 1` spans, and spans are dropped only in non-blocking mode -/
theorem fifoReach_facts {cap maxB : Nat} {blocking : Bool} {f : Fifo} (h : FifoReach cap maxB blocking f) :
    f.out.flatten ++ f.pending = f.pushed ∧ (∀ b ∈ f.out, 1 ≤ b.length ∧ b.length ≤ maxB) ∧
    f.pending.length ≤ cap + maxB + 1 ∧ (f.dropped ≠ [] → blocking = false) := by
  induction h with
  | init => simp
  | step _ hs ih =>
    obtain ⟨i1, i2, i3, i4⟩ := ih
    rcases hs with hs | ⟨id, hlt, hs⟩ | ⟨id, hb, hs⟩ | ⟨k, h1, h2, h3, hs⟩ <;> subst hs
    · exact ⟨i1, i2, i3, i4⟩
    · refine ⟨?_, i2, ?_, i4⟩
      · simp only [← List.append_assoc, i1]
      · simp only [List.length_append, List.length_cons, List.length_nil]; omega
    · exact ⟨i1, i2, i3, fun _ => hb⟩
    · refine ⟨?_, ?_, ?_, i4⟩
      · simp only [List.flatten_append, List.flatten_cons, List.flatten_nil, List.append_nil, List.append_assoc,
          List.take_append_drop]
        exact i1
      · intro b hb
        simp only [List.mem_append, List.mem_cons, List.not_mem_nil, or_false] at hb
        rcases hb with hb | hb
        · exact i2 b hb
        · subst hb
          simp only [List.length_take]
          omega
      · simp only [List.length_drop]; omega

end Otel.C01.Spec
