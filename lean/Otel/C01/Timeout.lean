/-
C01 — `Shutdown(ctx)` whose context ends (label `sdTimeout`, Model.lean): the exclusion predicate of known finding F47,
shared by the theorems (Props.lean) and the driver (Main.lean).
-/
import Otel.C01.Model
namespace Otel.C01

/-- F47 exclusion predicate: the context of the Shutdown call that won `stopOnce` ended before the shutdown goroutine
had finished; that call returned ctx.Err(), `stopOnce` is done, and every Shutdown call that waits (or arrives later)
returns nil at once while the goroutine may still be draining the queue -/
def ShutdownTimedOut_applies (s : St) : Bool := s.sdRetErr

end Otel.C01
