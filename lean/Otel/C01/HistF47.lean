/-
C01 — the history oracle and Shutdown contexts that end: the scanner's `sdErr` flag mirrors the model's `sdRetErr` along
EVERY history of the model (with or without timeouts), and its F47 flag is raised only after an error return.
-/
import Otel.C01.HistorySim
namespace Otel.C01

open Spec (Ev Scan scanStep)

theorem scanStep_sdErr (bl : Bool) (d : Nat) (c : Scan) (ev : Ev) :
    (scanStep bl d c ev).sdErr = (c.sdErr || ev == .sdReturned false) := by
  cases ev <;> simp only [scanStep] <;> (repeat' split) <;> simp_all

theorem foldl_sdErr (bl : Bool) (d : Nat) (evs : List Ev) (c : Scan) :
    (evs.foldl (scanStep bl d) c).sdErr = (c.sdErr || evs.any (· == .sdReturned false)) := by
  induction evs generalizing c with
  | nil => simp
  | cons ev r ih => rw [List.foldl_cons, ih, scanStep_sdErr]; simp [Bool.or_assoc]

/-- only the label `sdTimeout` emits an error return of a Shutdown call, and only it sets `sdRetErr` -/
theorem emit_sdErr (s s' : St) (l : Lbl) (hs : step s l = some s') :
    (emitRaw s l).any (· == .sdReturned false) = decide (l = .sdTimeout) ∧
    s'.sdRetErr = (s.sdRetErr || decide (l = .sdTimeout)) := by
  cases l <;> simp only [step] at hs
  all_goals (
    repeat' (split at hs)
    all_goals (try (simp at hs))
    all_goals (try subst hs)
    all_goals (simp only [emitRaw])
    all_goals ((repeat' split) <;> simp_all))

/-- along every history of the model the scanner's `sdErr` is the model's `sdRetErr` -/
theorem scan_sdErr_eq {cap maxB : Nat} {blocking : Bool} {s : St} {h : List Ev}
    (hr : ReachableH cap maxB blocking s h) (bl : Bool) (d : Nat) :
    (h.foldl (scanStep bl d) {}).sdErr = s.sdRetErr := by
  induction hr with
  | init => rfl
  | @step s s' h l _ hs ih =>
    have he := emit_sdErr s s' l hs
    rw [List.foldl_append, foldl_sdErr, ih, emit_of_step hs, he.1, he.2]

/-- about ANY scanner state: the F47 flag is newly raised only by a nil return of a Shutdown call that follows an error
return of a Shutdown call and precedes the end of the exporter's Shutdown; that step reports no violated clause and
leaves `sdReturnedOk` alone -/
theorem scanStep_f47_new (bl : Bool) (d : Nat) (c : Scan) (ev : Ev) (hnew : (scanStep bl d c ev).f47 = true)
    (hold : c.f47 = false) :
    ev = .sdReturned true ∧ c.sdErr = true ∧ c.expShutdownDone = false ∧ (scanStep bl d c ev).bad = c.bad ∧
    (scanStep bl d c ev).sdReturnedOk = c.sdReturnedOk := by
  cases ev <;> simp only [scanStep] at hnew ⊢
  all_goals (
    repeat' (split at hnew)
    all_goals (try (simp [hold] at hnew; done)))
  all_goals simp_all

theorem scanStep_f47_inv (bl : Bool) (d : Nat) (c : Scan) (ev : Ev) (h : c.f47 = true → c.sdErr = true) :
    (scanStep bl d c ev).f47 = true → (scanStep bl d c ev).sdErr = true := by
  intro hnew
  rw [scanStep_sdErr]
  cases hold : c.f47 with
  | true =>
    have : (scanStep bl d c ev).f47 = true := hnew
    simp [h hold]
  | false => simp [(scanStep_f47_new bl d c ev hnew hold).2.1]

theorem foldl_f47_inv (bl : Bool) (d : Nat) (evs : List Ev) (c : Scan) (h : c.f47 = true → c.sdErr = true) :
    (evs.foldl (scanStep bl d) c).f47 = true → (evs.foldl (scanStep bl d) c).sdErr = true := by
  induction evs generalizing c with
  | nil => exact h
  | cons ev r ih => rw [List.foldl_cons]; exact ih _ (scanStep_f47_inv bl d c ev h)

end Otel.C01
