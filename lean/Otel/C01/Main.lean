import Otel.Base.Wire
import Otel.C01.Sched
import Otel.C01.Spec
import Otel.C01.History
import Otel.C01.Stuck
import Otel.C01.Timeout
open Otel Otel.Wire Otel.C01

/-! Line kinds
`sched <gen> <cap> <maxB> <blocking> | <op> <op> … => <obs> <obs> …`   one observation per op
   ops: `e<id>` `u<id>` (OnEnd of an unsampled span) `g+` `g-` `gt` (exporter returns when its context is done: export timeout) `f<fid>` `s`
        `st` (Shutdown with a context that has already ended); leg `park` (build tag verif) adds `p<id>`/`r<id>` (OnEnd parked after its stopped check /
        released), `fp<fid>`/`fr<fid>` (ForceFlush likewise), `sp`/`sr` (Shutdown parked after storing stopped / released)
   obs: `L=<b1/b2/…>;X=<0|1>;F=<fid>:<p|o|e>,…;S=<n | one of p|o|e per Shutdown call, in call order>;D=<dropped>;Q=<len(queue)>;E=<ids whose OnEnd returned>`
        batches/ids as dot-separated lists, `-` when empty; `H` = number of exporter Shutdown calls so far
`hist <gen> <cap> <maxB> <blocking> <dropped> | <ev> <ev> … => -`      free-running history (oracle only)
   evs: `E<id>` `U<id>` `XS:<ids>` `XE` `FC<fid>` `FR<fid>+|-` `SC` `SR+|-` `DS` `DE`; watchdog: `HS` (a Shutdown call did not return),
        `HF<fid>+|-` (ForceFlush fid did not return; + = the queue was seen full), `HE<id>+|-` (the End of span id, accepted, did not
        return), `HANG` (older recordings: some ForceFlush or Shutdown call did not return)
-/

def dropS (s : String) (n : Nat) : String := (s.drop n).toString
def dropR (s : String) (n : Nat) : String := (s.dropEnd n).toString

def dotList (l : List Nat) : String := if l.isEmpty then "-" else ".".intercalate (l.map toString)
def parseDot (s : String) : Option (List Nat) :=
  if s == "-" then some [] else (s.splitOn ".").mapM (·.toNat?)

def parseOp (t : String) : Option Op :=
  if t == "g+" then some (.gate true) else if t == "g-" || t == "gt" then some (.gate false)
  else if t == "s" then some .sd
  else if t == "st" then some .sdT
  else if t == "sp" then some .parkSd
  else if t == "sr" then some .releaseSd
  else if t.startsWith "fp" then (dropS t 2).toNat?.map .parkFF
  else if t.startsWith "fr" then (dropS t 2).toNat?.map .releaseFF
  else if t.startsWith "e" then (dropS t 1).toNat?.map .end_
  else if t.startsWith "u" then (dropS t 1).toNat?.map .endU
  else if t.startsWith "f" then (dropS t 1).toNat?.map .ff
  else if t.startsWith "p" then (dropS t 1).toNat?.map .parkEnd
  else if t.startsWith "r" then (dropS t 1).toNat?.map .releaseEnd
  else none

def phChar (p : FPhase) : String :=
  match p with
  | .retOk | .retEarly => "o"
  | .retErr => "e"
  | _ => "p"

def insertSorted (x : Nat × String) : List (Nat × String) → List (Nat × String)
  | [] => [x]
  | y :: r => if x.1 ≤ y.1 then x :: y :: r else y :: insertSorted x r

def obsOf (s : St) : String :=
  let l := if s.exported.isEmpty then "-" else "/".intercalate (s.exported.map dotList)
  let fs := (s.ffs.map fun f => (f.fid, phChar f.ph)).foldr insertSorted []
  let f := if fs.isEmpty then "-" else ",".intercalate (fs.map fun (a, b) => s!"{a}:{b}")
  -- one character per Shutdown call in call order: the call that won `stopOnce`, then the ones waiting in `Once.Do`
  let sd := if s.sd = .none then "n" else
    (if s.sdRetOk then "o" else if s.sdRetErr then "e" else "p") ++ String.join (s.sds.reverse.map fun c => if c.ret then "o" else "p")
  let ended := (s.seen.foldr (fun x acc => insertSorted (x, "") acc) []).map (·.1)
  s!"L={l};X={if s.busy.isSome then 1 else 0};F={f};S={sd};D={s.droppedIds.length};Q={s.queue.length};E={dotList ended};H={if s.sd = .shut then 1 else 0}"

def runSchedP (v : Nat) (ps : Parked × St) (ops : List Op) : List String × (Parked × St) :=
  match ops with
  | [] => ([], ps)
  | op :: r =>
    let ps1 := applyOp ps op
    let ps' := (ps1.1, settle v ps1.1 4000 ps1.2)
    let (rest, fin) := runSchedP v ps' r
    (obsOf ps'.2 :: rest, fin)

def runSched (v : Nat) (s : St) (ops : List Op) : List String := (runSchedP v ({}, s) ops).1

/-- fields of an observation -/
def field (obs : String) (k : String) : Option String :=
  ((obs.splitOn ";").find? (·.startsWith (k ++ "="))).map (dropS · (k.length + 1))

def parseBatches (s : String) : Option (List (List Nat)) :=
  if s == "-" then some [] else (s.splitOn "/").mapM parseDot

def parseFF (s : String) : List (Nat × String) :=
  if s == "-" then [] else (s.splitOn ",").filterMap fun e =>
    match e.splitOn ":" with
    | [a, b] => a.toNat?.map (·, b)
    | _ => none

/-- the ids of the unsampled spans of a script -/
def scriptUnsampled (ops : List Op) : List Nat := ops.filterMap fun | .endU id => some id | _ => none

/-- Spec oracle on the observations of a controlled schedule: S1, S2 on every log; S5 at the first
observation in which a ForceFlush / Shutdown shows as returned nil; F22 classification. -/
def schedOracle (maxB : Nat) (blocking : Bool) (lateIds : List Nat) (ops : List Op) (obs : List String) :
    List String × Bool × Bool × Bool :=
  let rec go (allU : List Nat) (ops : List Op) (obs : List String) (prevE : List Nat) (ffPre : List (Nat × List Nat))
      (sdPre : Option (List Nat)) (doneFF : List Nat) (sdPres : List (List Nat)) (prevS : List Char)
      (sdKinds : List Bool) (bad : List String) (f22 f41 f47 : Bool) :
      List String × Bool × Bool × Bool :=
    match ops, obs with
    | op :: ops', o :: obs' =>
      let batches := ((field o "L").bind parseBatches).getD []
      let dropped := ((field o "D").bind (·.toNat?)).getD 0
      let ended := ((field o "E").bind parseDot).getD []
      let inX := (field o "X") == some "1"
      let expSd := ((field o "H").bind (·.toNat?)).getD 0
      let bad := if expSd > 1 then "exporter-shutdown-twice" :: bad else bad
      let bad := if expSd ≥ 1 && inX then "S3:exporter-shutdown-during-export" :: bad else bad
      let bad := if Spec.noDuplicate batches then bad else "S1" :: bad
      let bad := if Spec.batchBound maxB batches then bad else "S2" :: bad
      let bad := if Spec.unsampledNotExported batches allU then bad else "S6:unsampled-exported" :: bad
      let bad := if Spec.onlyEnded batches (ended ++ (ops.filterMap fun | .end_ id => some id | .parkEnd id => some id | _ => none) ++ prevE) then bad else "S6" :: bad
      let ffPre := match op with | .ff fid => (fid, prevE) :: ffPre | .parkFF fid => (fid, prevE) :: ffPre | _ => ffPre
      let sdPre := match op, sdPre with | .sd, none => some prevE | .sdT, none => some prevE | .parkSd, none => some prevE | _, p => p
      let ffs := parseFF ((field o "F").getD "-")
      let newly := ffs.filter fun (fid, st) => st == "o" && !doneFF.contains fid
      let (bad, f22) := newly.foldl (fun (acc : List String × Bool) (fid, _) =>
        match ffPre.lookup fid with
        | none => ("ff-unknown" :: acc.1, acc.2)
        | some pre =>
          if Spec.delivered blocking pre batches dropped then acc
          else if sdPre.isSome then (acc.1, true) else ("S5:forceflush" :: acc.1, acc.2)) (bad, f22)
      let doneFF := doneFF ++ newly.map (·.1)
      -- every Shutdown call (one status character per call, in call order) that newly shows as returned nil is
      -- judged with its OWN pre set (the statement as written). A span can be missing from it legitimately only
      -- through the late-span race F41: `lateIds` = the spans that sit in the exited worker's queue in the model's run
      -- of the script (`LateEnd_applies`; a parked OnEnd released after the worker's drain had seen the queue empty).
      -- Everything else missing is S5; and a KNOWN verdict counts only if implementation and model agree on the line.
      let sdPres := match op with | .sd => sdPres ++ [prevE] | .sdT => sdPres ++ [prevE] | .parkSd => sdPres ++ [prevE] | _ => sdPres
      let sdKinds := match op with | .sd => sdKinds ++ [false] | .sdT => sdKinds ++ [true] | .parkSd => sdKinds ++ [false] | _ => sdKinds
      let sdField := ((field o "S").getD "n").toList
      let sdNow := sdField.any (· == 'o')
      -- a Shutdown call may return an error only if it is the call that won `stopOnce` (the first one) and its context
      -- had ended (`st`); every other call waits in `Once.Do` and returns nil
      let bad := if (List.range sdField.length).any (fun i => sdField[i]? == some 'e' && !(i == 0 && sdKinds[i]? == some true))
        then "shutdown-error" :: bad else bad
      -- known finding F47: the winning call returned its context's error; the calls that waited in `Once.Do` return nil
      -- at once, while the shutdown goroutine is still draining — what their nil return fails to guarantee then (S3
      -- return during an export, S4 exports afterwards, S5 delivery) is classified F47, as long as the exporter has not
      -- been shut down (afterwards everything holds again: `bsp_shutdown_drain_done`)
      let winnerErr := sdField[0]? == some 'e'
      let newlyOk := (List.range sdField.length).filter fun i => sdField[i]? == some 'o' && prevS[i]? != some 'o'
      let (bad, f41, f47) := newlyOk.foldl (fun (acc : List String × Bool × Bool) i =>
        let own := sdPres[i]?.getD []
        let fail (m : String) : List String × Bool × Bool :=
          if winnerErr && expSd == 0 then (acc.1, acc.2.1, true) else (m :: acc.1, acc.2.1, acc.2.2)
        if inX then fail "S3:shutdown-returned-during-export"
        else if !Spec.delivered blocking (sdPre.getD []) batches dropped then fail "S5:shutdown"
        else if !Spec.delivered blocking (own.filter (!lateIds.contains ·)) batches dropped then
          fail "S5:shutdown-own-pre"
        else if !Spec.delivered blocking own batches dropped then (acc.1, true, acc.2.2)   -- only late spans missing [F41]
        else acc) (bad, f41, f47)
      -- S4: after Shutdown returned the log must not grow: checked by comparing with the next observation
      let grows := match obs' with | o2 :: _ => (field o2 "L") != (field o "L") | [] => false
      let bad := if grows && (expSd ≥ 1 || (sdNow && !winnerErr)) then "S4" :: bad else bad
      let f47 := f47 || (grows && sdNow && winnerErr && expSd == 0)
      go allU ops' obs' ended ffPre sdPre doneFF sdPres sdField sdKinds bad f22 f41 f47
    | _, _ => (bad, f22, f41, f47)
  go (scriptUnsampled ops) ops obs [] [] none [] [] [] [] [] false false false

def parseEv (t : String) : Option Spec.Ev :=
  if t == "XE" then some .exportEnd
  else if t == "HANG" then some .hang
  else if t == "HS" then some .hangSd
  else if t.startsWith "HF" then (dropR (dropS t 2) 1).toNat?.map (.hangFF · (t.endsWith "+"))
  else if t.startsWith "HE" then (dropR (dropS t 2) 1).toNat?.map (.hangEnd · (t.endsWith "+"))
  else if t == "SC" then some .sdCalled
  else if t == "SR+" then some (.sdReturned true)
  else if t == "SR-" then some (.sdReturned false)
  else if t == "DS" then some .expShutdownStart
  else if t == "DE" then some .expShutdownEnd
  else if t.startsWith "XS:" then (parseDot (dropS t 3)).map .exportStart
  else if t.startsWith "FC" then (dropS t 2).toNat?.map .ffCalled
  else if t.startsWith "FR" then
    let body := dropS t 2
    let ok := body.endsWith "+"
    (dropR body 1).toNat?.map (.ffReturned · ok)
  else if t.startsWith "E" then (dropS t 1).toNat?.map .ended
  else if t.startsWith "U" then (dropS t 1).toNat?.map .endedUnsampled
  else none

def stepLine (_ : Unit) (toks : List String) : Unit × Option Verdict :=
  let (inp, obs) := splitObs toks
  match inp with
  | kind :: _ :: cap :: maxB :: bl :: "|" :: opToks =>
    if kind != "sched" && kind != "park" then ((), none) else
    match cap.toNat?, maxB.toNat?, opToks.mapM parseOp with
    | some cap, some maxB, some ops =>
      let blocking := bl == "1"
      let model := runSched 0 (init cap maxB blocking) ops
      -- where the Go code chooses at random among ready select cases, any of the scheduler variants is accepted
      let agreeV := [0, 1, 2, 3].find? fun v => runSched v (init cap maxB blocking) ops == obs
      let vv := agreeV.getD 0
      let final := (runSchedP vv ({}, init cap maxB blocking) ops).2.2
      -- the late spans of the model's run: what sits in the queue of the exited worker (`LateEnd_applies`)
      let lateIds := if LateEnd_applies final then spansOf final.queue else []
      let (bad, f22, f41, f47) := schedOracle maxB blocking lateIds ops obs
      -- F47 is accepted only when the winning call's context has ended in the model's run (`ShutdownTimedOut_applies`)
      let f47model := ShutdownTimedOut_applies final
      -- F22 is accepted only when the model itself took one of ForceFlush's early exits (`F22_applies`)
      let f22model := final.ffs.any (fun f => f.ph == .retEarly)
      -- F41 likewise only when the late-span race has happened in the model (`LateEnd_applies`, History.lean)
      let f41model := LateEnd_applies final
      -- F42: a ForceFlush / blocked End that is still pending at the end of the script is the known finding only if that
      -- very caller is stuck in the model's final state (`StuckFF` / `StuckEnd`, Stuck.lean: worker done, queue full,
      -- the caller at its send) and the last observation shows it pending; a call that is pending although the model
      -- says it returned is a DIFF (the runner accepts a KNOWN verdict only when implementation and model agree)
      let lastObs := obs.getLast?.getD ""
      let lastFF := parseFF ((field lastObs "F").getD "-")
      let lastE := ((field lastObs "E").bind parseDot).getD []
      let stuckFFs := (final.ffs.filter fun f => StuckFF final f.fid).map (·.fid)
      let stuckEnds := final.inflight.filter fun id => StuckEnd final id
      let f42 := StuckProducer_applies final &&
        stuckFFs.all (fun fid => lastFF.lookup fid == some "p") && stuckEnds.all (fun id => !lastE.contains id)
      let spec := if !bad.isEmpty then "FAIL"
        else if f42 then "KNOWN:F42"
        else if f47 && f47model then "KNOWN:F47" else if f47 then "FAIL:F47-not-in-model"
        else if f41 && f41model then "KNOWN:F41" else if f41 then "FAIL:F41-not-in-model"
        else if f22 && f22model then "KNOWN:F22" else if f22 then "FAIL" else "ok"
      let br := (if final.droppedIds.isEmpty then [] else ["drop"]) ++
        (if final.exported.length ≥ 2 then ["multi-export"] else []) ++
        (if final.ffs.any (·.ph == .retOk) then ["ff-ok"] else []) ++
        (if final.ffs.any (·.ph == .retEarly) then ["ff-early"] else []) ++
        (if final.ffs.any (·.ph == .retErr) then ["ff-err"] else []) ++
        (if final.sdRetOk then ["sd-ok"] else []) ++
        (if final.sds.isEmpty then [] else ["sd-multi"]) ++
        (if final.sds.any (·.ret) then ["sd-late-ok"] else []) ++
        (if final.sdRetErr then ["sd-timeout"] else []) ++ (if f47 then ["sd-timeout-late-nil"] else []) ++
        (if final.unsampled.isEmpty then [] else ["unsampled"]) ++
        (if f41model then ["late-end"] else []) ++
        (if stuckFFs.isEmpty then [] else ["stuck-ff"]) ++ (if stuckEnds.isEmpty then [] else ["stuck-end"]) ++
        (if final.w == .exited then ["exited"] else []) ++
        (if vv != 0 then [s!"variant{vv}"] else [])
      ((), some { agree := agreeV.isSome, spec := spec ++ (if bad.isEmpty then "" else ":" ++ ",".intercalate bad),
                  nontrivial := !final.exported.isEmpty,
                  branches := if br.isEmpty then "-" else ",".intercalate br,
                  model := " ".intercalate model })
    | _, _, _ => ((), none)
  | "hist" :: _ :: _cap :: maxB :: bl :: dropped :: "|" :: evToks =>
    match maxB.toNat?, dropped.toNat?, evToks.mapM parseEv with
    | some maxB, some dropped, some evs =>
      let blocking := bl == "1"
      -- `histJudge` = `histCheck` with the ended sampled / unsampled ids read off the history (Spec.lean); it is the
      -- function of theorem `bsp_model_history_passes_driver_oracle`
      let (bad, f22) := Spec.histJudge maxB blocking dropped evs
      -- F41: a later Shutdown call returned nil with spans of its own pre set missing while everything ended before the
      -- FIRST `sdCalled` is delivered (`hist_f41_never_hides_first_call_loss`); theorem `bsp_model_history_f41_only_late`
      let f41 := Spec.histF41 blocking dropped evs
      -- hung ForceFlush / End calls: F42 if the exporter had been shut down and the queue was seen full (`Spec.histHangs`),
      -- else the failure "hang"
      let (hbad, f42) := Spec.histHangs blocking evs
      let bad := bad ++ hbad
      -- F47: a Shutdown call returned nil after another one had returned an error (the winning call's context ended) and
      -- before the exporter's Shutdown ended (`hist_f47_only_after_error_return`, `bsp_model_history_f47_only_timeout`)
      let f47 := Spec.histF47 blocking dropped evs
      let sdErr := evs.any (fun | .sdReturned false => true | _ => false)
      let spec := if !bad.isEmpty then "FAIL" else if f42 then "KNOWN:F42" else if f47 then "KNOWN:F47"
        else if f41 then "KNOWN:F41"
        else if f22 then "KNOWN:F22" else "ok"
      let nExp := (evs.filter fun | .exportStart _ => true | _ => false).length
      let br := (if dropped > 0 then ["drop"] else []) ++ (if nExp ≥ 2 then ["multi-export"] else []) ++
        (if evs.any (fun | .ffReturned _ true => true | _ => false) then ["ff-ok"] else []) ++
        (if evs.any (fun | .sdReturned true => true | _ => false) then ["sd-ok"] else []) ++
        (if f22 then ["f22"] else []) ++ (if f41 then ["f41"] else []) ++ (if f42 then ["f42"] else []) ++
        (if sdErr then ["sd-timeout"] else []) ++ (if f47 then ["f47"] else [])
      ((), some { agree := true, spec := spec ++ (if bad.isEmpty then "" else ":" ++ ",".intercalate bad),
                  nontrivial := nExp ≥ 1, branches := if br.isEmpty then "-" else ",".intercalate br,
                  model := "-" })
    | _, _, _ => ((), none)
  | _ => ((), none)

def main : IO Unit := Wire.run () stepLine
