import Otel.C01.Lemmas
namespace Otel.C01

/-! ### Part E: ForceFlush delivery -/

def isNot (m x : Item) : Bool := x != m

def P3 (s : St) (id : Nat) : Prop := id ∈ s.exported.flatten ∨ id ∈ s.droppedIds
def P2 (s : St) (id : Nat) : Prop := id ∈ s.batch ∨ P3 s id
def P1 (s : St) (fid : Nat) (id : Nat) : Prop :=
  id ∈ spansOf (s.queue.takeWhile (isNot (.marker fid))) ∨ id ∈ handL s.hand ∨ P2 s id

def ffOK (s : St) (f : FF) : Prop :=
  match f.ph with
  | .called | .checked => ∀ id ∈ f.pre, id ∈ s.seen
  | .queued => ∀ id ∈ f.pre, P1 s f.fid id
  | .flushed => ∀ id ∈ f.pre, P2 s id
  | .exporting | .retOk => ∀ id ∈ f.pre, P3 s id
  | .retEarly | .retErr => True

structure InvE (s : St) : Prop where
  ok : ∀ f ∈ s.ffs, ffOK s f
  uniq : (s.ffs.map (·.fid)).Nodup
  markerHas : ∀ fid, Item.marker fid ∈ s.queue → ∃ f ∈ s.ffs, f.fid = fid
  markerPh : ∀ fid, Item.marker fid ∈ s.queue → ∀ f ∈ s.ffs, f.fid = fid → f.ph ≠ .called ∧ f.ph ≠ .checked

theorem ffOK_mono (s s' : St) (f : FF)
    (hseen : ∀ id, id ∈ s.seen → id ∈ s'.seen)
    (h1 : ∀ fid id, P1 s fid id → P1 s' fid id)
    (h2 : ∀ id, P2 s id → P2 s' id)
    (h3 : ∀ id, P3 s id → P3 s' id) (h : ffOK s f) : ffOK s' f := by
  unfold ffOK at *
  split <;> simp_all

theorem spansOf_takeWhile_append (p : Item → Bool) (q r : List Item) (id : Nat)
    (h : id ∈ spansOf (q.takeWhile p)) : id ∈ spansOf ((q ++ r).takeWhile p) := by
  induction q with
  | nil => simp [spansOf] at h
  | cons x q ih =>
    simp only [List.cons_append, List.takeWhile_cons] at h ⊢
    split
    · rename_i hp
      simp only [hp, if_true] at h
      cases x <;> simp_all [spansOf]
      rcases h with h | h
      · exact Or.inl h
      · exact Or.inr (ih h)
    · rename_i hp
      simp [hp, spansOf] at h

theorem takeWhile_ne_of_not_mem (m : Item) (q : List Item) (h : m ∉ q) :
    q.takeWhile (isNot m) = q := by
  induction q with
  | nil => rfl
  | cons x q ih =>
    simp only [List.mem_cons, not_or] at h
    have hx : isNot m x = true := by
      simp only [isNot, bne_iff_ne, ne_eq]; exact fun e => h.1 e.symm
    rw [List.takeWhile_cons, hx]
    simp [ih h.2]

theorem mem_setPh (fid : Nat) (a b : FPhase) (ffs : List FF) (f' : FF) (h : f' ∈ setPh fid a b ffs) :
    ∃ f ∈ ffs, f' = (if f.fid = fid ∧ f.ph = a then { f with ph := b } else f) := by
  simp only [setPh, List.mem_map] at h
  obtain ⟨f, hf, he⟩ := h
  exact ⟨f, hf, he.symm⟩

theorem map_fid_setPh (fid : Nat) (a b : FPhase) (ffs : List FF) :
    (setPh fid a b ffs).map (·.fid) = ffs.map (·.fid) := by
  simp only [setPh, List.map_map]
  congr 1
  funext f
  simp only [Function.comp]
  split <;> rfl

@[simp] theorem spansOf_nil : spansOf [] = [] := rfl

theorem isNot_span (fid id : Nat) : isNot (.marker fid) (.span id) = true := by
  simp [isNot]

theorem isNot_marker_self (fid : Nat) : isNot (.marker fid) (.marker fid) = false := by
  simp [isNot]

theorem isNot_marker_ne (fid g : Nat) (h : g ≠ fid) : isNot (.marker fid) (.marker g) = true := by
  simp [isNot, h]

/-- frame rule: a step that leaves `ffs` alone and only moves ids forward preserves Part E's `ok` -/
theorem ok_frame (s s' : St) (h : ∀ f ∈ s.ffs, ffOK s f) (hf : s'.ffs = s.ffs)
    (hseen : ∀ id, id ∈ s.seen → id ∈ s'.seen)
    (h1 : ∀ fid id, P1 s fid id → P1 s' fid id)
    (h2 : ∀ id, P2 s id → P2 s' id)
    (h3 : ∀ id, P3 s id → P3 s' id) : ∀ f ∈ s'.ffs, ffOK s' f := by
  intro f hfm
  rw [hf] at hfm
  exact ffOK_mono s s' f hseen h1 h2 h3 (h f hfm)

theorem stepE_send (s s' : St) (id : Nat) (h : InvE s) (hs : step s (.send id) = some s') : InvE s' := by
  obtain ⟨hok, huniq, hmh, hmp⟩ := h
  simp only [step] at hs
  split at hs
  · split at hs
    · simp at hs; subst hs
      refine ⟨ok_frame s _ hok rfl ?_ ?_ ?_ ?_, huniq, ?_, ?_⟩
      · intro x hx; simp [hx]
      · intro fid x hx
        simp only [P1] at hx ⊢
        rcases hx with hx | hx
        · exact Or.inl (spansOf_takeWhile_append _ _ _ _ hx)
        · exact Or.inr hx
      · intro x hx; exact hx
      · intro x hx; exact hx
      · intro fid hm; simp at hm; exact hmh fid hm
      · intro fid hm; simp at hm; exact hmp fid hm
    · split at hs
      · simp at hs
      · simp at hs; subst hs
        refine ⟨ok_frame s _ hok rfl ?_ ?_ ?_ ?_, huniq, hmh, hmp⟩
        · intro x hx; simp [hx]
        · intro fid x hx
          simp only [P1, P2, P3] at hx ⊢
          simp only [List.mem_cons]
          rcases hx with hx | hx | hx | hx | hx
          · exact Or.inl hx
          · exact Or.inr (Or.inl hx)
          · exact Or.inr (Or.inr (Or.inl hx))
          · exact Or.inr (Or.inr (Or.inr (Or.inl hx)))
          · exact Or.inr (Or.inr (Or.inr (Or.inr (Or.inr hx))))
        · intro x hx
          simp only [P2, P3, List.mem_cons] at hx ⊢
          rcases hx with hx | hx | hx
          · exact Or.inl hx
          · exact Or.inr (Or.inl hx)
          · exact Or.inr (Or.inr (Or.inr hx))
        · intro x hx
          simp only [P3, List.mem_cons] at hx ⊢
          rcases hx with hx | hx
          · exact Or.inl hx
          · exact Or.inr (Or.inr hx)
  · simp at hs

/-- labels that touch none of queue/hand/batch/exported/droppedIds/seen/ffs -/
theorem stepE_trivial (s s' : St) (l : Lbl) (h : InvE s) (hs : step s l = some s')
    (hl : l = .sdTimeout ∨ l = .wTimer ∨ l = .wStop ∨ l = .wDrainEmpty ∨ l = .sdCall ∨ l = .sdStore ∨ l = .sdClose ∨
          l = .sdExporterShutdown ∨ l = .sdReturnOk ∨ (∃ ok, l = .exportEnd ok) ∨ (∃ id, l = .accept id) ∨
          (∃ id, l = .endUnsampled id) ∨ (∃ cid, l = .sdCallLate cid) ∨ (∃ cid, l = .sdReturnLate cid)) : InvE s' := by
  obtain ⟨hok, huniq, hmh, hmp⟩ := h
  rcases hl with hl | hl | hl | hl | hl | hl | hl | hl | hl | ⟨ok, hl⟩ | ⟨id, hl⟩ | ⟨id, hl⟩ | ⟨cid, hl⟩ | ⟨cid, hl⟩ <;> subst hl <;> simp only [step] at hs
  all_goals (
    repeat' (split at hs)
    all_goals (try (simp at hs))
    all_goals (try subst hs)
    all_goals exact ⟨ok_frame s _ hok rfl (fun _ h => h) (fun _ _ h => h) (fun _ h => h) (fun _ h => h), huniq, hmh, hmp⟩)

theorem stepE_wRecv (s s' : St) (h : InvE s) (hs : step s .wRecv = some s') : InvE s' := by
  obtain ⟨hok, huniq, hmh, hmp⟩ := h
  simp only [step] at hs
  split at hs
  · rename_i hg
    split at hs
    · simp at hs
    · -- span id :: q
      rename_i id q hq
      simp at hs; subst hs
      refine ⟨ok_frame s _ hok rfl (fun _ h => h) ?_ (fun _ h => h) (fun _ h => h), huniq, ?_, ?_⟩
      · intro fid x hx
        simp only [P1, hq, List.takeWhile_cons, isNot_span, if_true, spansOf, List.mem_cons, hg.2, handL] at hx ⊢
        rcases hx with (hx | hx) | hx | hx
        · exact Or.inr (Or.inl (by simp [hx]))
        · exact Or.inl hx
        · simp at hx
        · exact Or.inr (Or.inr hx)
      · intro fid hm; exact hmh fid (by rw [hq]; exact List.mem_cons_of_mem _ hm)
      · intro fid hm; exact hmp fid (by rw [hq]; exact List.mem_cons_of_mem _ hm)
    · -- marker fid :: q
      rename_i fid q hq
      split at hs
      · -- run: close(flushed)
        simp at hs; subst hs
        refine ⟨?_, by simpa [map_fid_setPh] using huniq, ?_, ?_⟩
        · intro f' hf'
          obtain ⟨f, hf, he⟩ := mem_setPh _ _ _ _ _ hf'
          have hof := hok f hf
          subst he
          split
          · rename_i hc
            -- queued → flushed: the prefix before the marker is empty
            unfold ffOK at hof ⊢
            simp only [hc.2] at hof
            simp only
            intro x hx
            have := hof x hx
            simp only [P1, hq, hc.1, List.takeWhile_cons, isNot_marker_self, hg.2, handL] at this
            have h2 : P2 s x := by simpa using this
            exact h2
          · -- untouched entry: queue shrinks by a marker
            refine ffOK_mono s _ f (fun _ h => h) ?_ (fun _ h => h) (fun _ h => h) hof
            intro g x hx
            simp only [P1, hq, List.takeWhile_cons] at hx ⊢
            by_cases hgf : fid = g
            · subst hgf
              simp only [isNot_marker_self] at hx
              simp at hx
              exact Or.inr hx
            · simp only [isNot_marker_ne g fid hgf, if_true, spansOf] at hx
              exact hx
        · intro g hm
          obtain ⟨f, hf, he⟩ := hmh g (by rw [hq]; exact List.mem_cons_of_mem _ hm)
          refine ⟨_, List.mem_map_of_mem (f := fun f => if f.fid = fid ∧ f.ph = FPhase.queued then { f with ph := FPhase.flushed } else f) hf, ?_⟩
          split <;> simpa using he
        · intro g hm f' hf' hfid
          obtain ⟨f, hf, he⟩ := mem_setPh _ _ _ _ _ hf'
          subst he
          have := hmp g (by rw [hq]; exact List.mem_cons_of_mem _ hm) f hf
          by_cases hc : f.fid = fid ∧ f.ph = FPhase.queued
          · simp [hc]
          · simp only [hc, if_false] at hfid ⊢
            exact this hfid
      · -- drain: marker ignored
        simp at hs; subst hs
        refine ⟨ok_frame s _ hok rfl (fun _ h => h) ?_ (fun _ h => h) (fun _ h => h), huniq, ?_, ?_⟩
        · intro g x hx
          simp only [P1, hq, List.takeWhile_cons] at hx ⊢
          by_cases hgf : fid = g
          · subst hgf
            simp only [isNot_marker_self] at hx
            simp at hx
            exact Or.inr hx
          · simp only [isNot_marker_ne g fid hgf, if_true, spansOf] at hx
            exact hx
        · intro g hm; exact hmh g (by rw [hq]; exact List.mem_cons_of_mem _ hm)
        · intro g hm; exact hmp g (by rw [hq]; exact List.mem_cons_of_mem _ hm)
  · simp at hs

theorem stepE_wAppend (s s' : St) (h : InvE s) (hs : step s .wAppend = some s') : InvE s' := by
  obtain ⟨hok, huniq, hmh, hmp⟩ := h
  simp only [step] at hs
  split at hs
  · simp at hs
  · rename_i id hh
    repeat' (split at hs)
    all_goals (try (simp at hs))
    all_goals (try subst hs)
    all_goals (
      refine ⟨ok_frame s _ hok rfl (fun _ h => h) ?_ ?_ (fun _ h => h), huniq, hmh, hmp⟩
      · intro fid x hx
        simp only [P1, P2, P3, hh, handL, List.mem_append, List.mem_cons, List.not_mem_nil, or_false] at hx ⊢
        grind
      · intro x hx
        simp only [P2, P3, List.mem_append, List.mem_cons, List.not_mem_nil, or_false] at hx ⊢
        grind)

theorem stepE_wExportStart (s s' : St) (h : InvE s) (hs : step s .wExportStart = some s') : InvE s' := by
  obtain ⟨hok, huniq, hmh, hmp⟩ := h
  simp only [step] at hs
  split at hs
  · split at hs
    · simp at hs; subst hs
      exact ⟨ok_frame s _ hok rfl (fun _ h => h) (fun _ _ h => h) (fun _ h => h) (fun _ h => h), huniq, hmh, hmp⟩
    · simp at hs; subst hs
      refine ⟨ok_frame s _ hok rfl (fun _ h => h) ?_ ?_ ?_, huniq, hmh, hmp⟩
      · intro fid x hx
        simp only [P1, P2, P3, List.flatten_append, List.mem_append, List.flatten_cons, List.flatten_nil, List.append_nil, List.not_mem_nil, false_or] at hx ⊢
        grind
      · intro x hx
        simp only [P2, P3, List.flatten_append, List.mem_append, List.flatten_cons, List.flatten_nil, List.append_nil, List.not_mem_nil, false_or] at hx ⊢
        grind
      · intro x hx
        simp only [P3, List.flatten_append, List.mem_append, List.flatten_cons, List.flatten_nil, List.append_nil] at hx ⊢
        grind
  · simp at hs

theorem stepE_ffCall (s s' : St) (fid : Nat) (h : InvE s) (hs : step s (.ffCall fid) = some s') : InvE s' := by
  obtain ⟨hok, huniq, hmh, hmp⟩ := h
  simp only [step] at hs
  split at hs
  · simp at hs
  · rename_i hfresh
    simp at hs; subst hs
    have hfresh' : ∀ f ∈ s.ffs, f.fid ≠ fid := by
      intro f hf he
      apply hfresh
      simp only [List.any_eq_true, decide_eq_true_eq]
      exact ⟨f, hf, he⟩
    refine ⟨?_, ?_, ?_, ?_⟩
    · intro f hf
      simp only [List.mem_cons] at hf
      rcases hf with hf | hf
      · subst hf; simp [ffOK]
      · exact hok f hf
    · simp only [List.map_cons, List.nodup_cons]
      refine ⟨?_, huniq⟩
      intro hm
      simp only [List.mem_map] at hm
      obtain ⟨f, hf, he⟩ := hm
      exact hfresh' f hf he
    · intro g hm
      obtain ⟨f, hf, he⟩ := hmh g hm
      exact ⟨f, List.mem_cons_of_mem _ hf, he⟩
    · intro g hm f hf hfid
      simp only [List.mem_cons] at hf
      rcases hf with hf | hf
      · subst hf
        obtain ⟨f', hf', he⟩ := hmh g hm
        exact absurd (he.trans hfid.symm) (hfresh' f' hf')
      · exact hmp g hm f hf hfid

/-- phase change of the entries `fid` in phase `a`; everything else only moves forward -/
theorem ok_setPh (s s' : St) (fid : Nat) (a b : FPhase) (hok : ∀ f ∈ s.ffs, ffOK s f)
    (hf : s'.ffs = setPh fid a b s.ffs)
    (htrans : ∀ f ∈ s.ffs, f.fid = fid → f.ph = a → ffOK s f → ffOK s' { f with ph := b })
    (hmono : ∀ f ∈ s.ffs, ffOK s f → ffOK s' f) : ∀ f ∈ s'.ffs, ffOK s' f := by
  intro f' hf'
  rw [hf] at hf'
  obtain ⟨f, hfm, he⟩ := mem_setPh _ _ _ _ _ hf'
  subst he
  split
  · rename_i hc
    exact htrans f hfm hc.1 hc.2 (hok f hfm)
  · exact hmono f hfm (hok f hfm)

theorem markerHas_setPh (s : St) (fid : Nat) (a b : FPhase) (q : List Item)
    (hmh : ∀ g, Item.marker g ∈ q → ∃ f ∈ s.ffs, f.fid = g) :
    ∀ g, Item.marker g ∈ q → ∃ f ∈ setPh fid a b s.ffs, f.fid = g := by
  intro g hm
  obtain ⟨f, hf, he⟩ := hmh g hm
  refine ⟨_, List.mem_map_of_mem (f := fun f => if f.fid = fid ∧ f.ph = a then { f with ph := b } else f) hf, ?_⟩
  split <;> simpa using he

theorem markerPh_setPh (s : St) (fid : Nat) (a b : FPhase) (q : List Item)
    (hb : b ≠ .called ∧ b ≠ .checked)
    (hmp : ∀ g, Item.marker g ∈ q → ∀ f ∈ s.ffs, f.fid = g → f.ph ≠ .called ∧ f.ph ≠ .checked) :
    ∀ g, Item.marker g ∈ q → ∀ f ∈ setPh fid a b s.ffs, f.fid = g → f.ph ≠ .called ∧ f.ph ≠ .checked := by
  intro g hm f' hf' hfid
  obtain ⟨f, hf, he⟩ := mem_setPh _ _ _ _ _ hf'
  subst he
  by_cases hc : f.fid = fid ∧ f.ph = a
  · simp only [hc, and_self, if_true]; exact hb
  · simp only [hc, if_false] at hfid ⊢
    exact hmp g hm f hf hfid

theorem stepE_ffCheck (s s' : St) (fid : Nat) (h : InvE s) (hs : step s (.ffCheck fid) = some s') : InvE s' := by
  obtain ⟨hok, huniq, hmh, hmp⟩ := h
  simp only [step] at hs
  split at hs
  · simp at hs; subst hs
    refine ⟨ok_setPh s _ fid .called _ hok rfl ?_ (fun _ _ h => h), by simpa [map_fid_setPh] using huniq,
      markerHas_setPh s fid _ _ s.queue hmh, ?_⟩
    · intro f _ _ hph hof
      unfold ffOK at hof ⊢
      simp only [hph] at hof
      by_cases hst : s.stopped = true
      · simp [hst]
      · simp only [hst]
        exact hof
    · -- a `called` entry with a marker in the queue does not exist
      intro g hm f' hf' hfid
      obtain ⟨f, hf, he⟩ := mem_setPh _ _ _ _ _ hf'
      subst he
      by_cases hc : f.fid = fid ∧ f.ph = .called
      · have := hmp g hm f hf (by simpa [hc] using hfid)
        exact absurd hc.2 this.1
      · simp only [hc, if_false] at hfid ⊢
        exact hmp g hm f hf hfid
  · simp at hs

theorem stepE_ffStopWins (s s' : St) (fid : Nat) (h : InvE s) (hs : step s (.ffStopWins fid) = some s') : InvE s' := by
  obtain ⟨hok, huniq, hmh, hmp⟩ := h
  simp only [step] at hs
  split at hs
  · simp at hs; subst hs
    exact ⟨ok_setPh s _ fid .queued .retEarly hok rfl (fun _ _ _ _ _ => by simp [ffOK]) (fun _ _ h => h),
      by simpa [map_fid_setPh] using huniq, markerHas_setPh s fid _ _ s.queue hmh,
      markerPh_setPh s fid _ _ s.queue (by simp) hmp⟩
  · simp at hs

theorem stepE_ffExportEnd (s s' : St) (fid : Nat) (h : InvE s)
    (hs : step s (.ffExportEndOk fid) = some s' ∨ step s (.ffExportEndErr fid) = some s') : InvE s' := by
  obtain ⟨hok, huniq, hmh, hmp⟩ := h
  rcases hs with hs | hs <;> simp only [step] at hs <;> split at hs
  · simp at hs; subst hs
    refine ⟨ok_setPh s _ fid .exporting .retOk hok rfl ?_ (fun _ _ h => h),
      by simpa [map_fid_setPh] using huniq, markerHas_setPh s fid _ _ s.queue hmh,
      markerPh_setPh s fid _ _ s.queue (by simp) hmp⟩
    intro f _ _ hph hof
    unfold ffOK at hof ⊢
    simp only [hph] at hof
    exact hof
  · simp at hs
  · simp at hs; subst hs
    exact ⟨ok_setPh s _ fid .exporting .retErr hok rfl (fun _ _ _ _ _ => by simp [ffOK]) (fun _ _ h => h),
      by simpa [map_fid_setPh] using huniq, markerHas_setPh s fid _ _ s.queue hmh,
      markerPh_setPh s fid _ _ s.queue (by simp) hmp⟩
  · simp at hs

theorem uniq_fid (ffs : List FF) (h : (ffs.map (·.fid)).Nodup) (f g : FF) (hf : f ∈ ffs) (hg : g ∈ ffs)
    (he : f.fid = g.fid) : f = g := by
  induction ffs with
  | nil => simp at hf
  | cons x r ih =>
    simp only [List.map_cons, List.nodup_cons, List.mem_map, not_exists, not_and] at h
    simp only [List.mem_cons] at hf hg
    rcases hf with hf | hf <;> rcases hg with hg | hg
    · rw [hf, hg]
    · subst hf; exact absurd he.symm (h.1 g hg)
    · subst hg; exact absurd he (h.1 f hf)
    · exact ih h.2 hf hg

theorem takeWhile_append_marker (m : Item) (q : List Item) (h : m ∉ q) :
    (q ++ [m]).takeWhile (isNot m) = q := by
  induction q with
  | nil => simp [List.takeWhile_cons, isNot]
  | cons x q ih =>
    simp only [List.mem_cons, not_or] at h
    have hx : isNot m x = true := by
      simp only [isNot, bne_iff_ne, ne_eq]; exact fun e => h.1 e.symm
    simp only [List.cons_append, List.takeWhile_cons, hx, if_true, ih h.2]

theorem hasPh_exists (fid : Nat) (p : FPhase) (ffs : List FF) (h : hasPh fid p ffs = true) :
    ∃ f ∈ ffs, f.fid = fid ∧ f.ph = p := by
  simp only [hasPh, List.any_eq_true, decide_eq_true_eq] at h
  exact h

theorem stepE_ffEnqueue (s s' : St) (fid : Nat) (h : InvE s) (hD : InvD s)
    (hs : step s (.ffEnqueue fid) = some s') : InvE s' := by
  obtain ⟨hok, huniq, hmh, hmp⟩ := h
  simp only [step] at hs
  split at hs
  · rename_i hg
    simp at hs; subst hs
    obtain ⟨f0, hf0, hfid0, hph0⟩ := hasPh_exists _ _ _ hg.1
    have hnm : Item.marker fid ∉ s.queue := by
      intro hm
      exact (hmp fid hm f0 hf0 hfid0).2 hph0
    refine ⟨ok_setPh s _ fid .checked .queued hok rfl ?_ ?_, by simpa [map_fid_setPh] using huniq, ?_, ?_⟩
    · intro f _ hfid hph hof
      unfold ffOK at hof ⊢
      simp only [hph] at hof
      simp only
      intro x hx
      have hp := hD.seenPlaced x (hof x hx)
      simp only [P1, hfid, takeWhile_append_marker _ _ hnm]
      exact hp
    · intro f _ hof
      refine ffOK_mono s _ f (fun _ h => h) ?_ (fun _ h => h) (fun _ h => h) hof
      intro g x hx
      simp only [P1] at hx ⊢
      rcases hx with hx | hx
      · exact Or.inl (spansOf_takeWhile_append _ _ _ _ hx)
      · exact Or.inr hx
    · intro g hm
      simp only [List.mem_append, List.mem_cons, List.not_mem_nil, or_false] at hm
      rcases hm with hm | hm
      · exact markerHas_setPh s fid _ _ s.queue hmh g hm
      · cases hm
        refine ⟨_, List.mem_map_of_mem (f := fun f => if f.fid = fid ∧ f.ph = FPhase.checked then { f with ph := FPhase.queued } else f) hf0, ?_⟩
        simp [hfid0, hph0]
    · intro g hm
      simp only [List.mem_append, List.mem_cons, List.not_mem_nil, or_false] at hm
      rcases hm with hm | hm
      · exact markerPh_setPh s fid _ _ s.queue (by simp) hmp g hm
      · cases hm
        intro f' hf' hfid'
        obtain ⟨f, hf, he⟩ := mem_setPh _ _ _ _ _ hf'
        subst he
        by_cases hc : f.fid = fid ∧ f.ph = .checked
        · simp [hc]
        · simp only [hc, if_false] at hfid' ⊢
          have : f = f0 := uniq_fid s.ffs huniq f f0 hf hf0 (hfid'.trans hfid0.symm)
          subst this
          exact absurd ⟨hfid0, hph0⟩ hc
  · simp at hs

theorem stepE_ffExportStart (s s' : St) (fid : Nat) (h : InvE s)
    (hs : step s (.ffExportStart fid) = some s') : InvE s' := by
  obtain ⟨hok, huniq, hmh, hmp⟩ := h
  simp only [step] at hs
  split at hs
  · split at hs
    · rename_i hb
      simp at hs; subst hs
      refine ⟨ok_setPh s _ fid .flushed .retOk hok rfl ?_ (fun _ _ h => h), by simpa [map_fid_setPh] using huniq,
        markerHas_setPh s fid _ _ s.queue hmh, markerPh_setPh s fid _ _ s.queue (by simp) hmp⟩
      intro f _ _ hph hof
      unfold ffOK at hof ⊢
      simp only [hph] at hof
      simp only
      intro x hx
      have := hof x hx
      simp only [P2, hb, List.not_mem_nil, false_or] at this
      exact this
    · simp at hs; subst hs
      refine ⟨ok_setPh s _ fid .flushed .exporting hok rfl ?_ ?_, by simpa [map_fid_setPh] using huniq,
        markerHas_setPh s fid _ _ s.queue hmh, markerPh_setPh s fid _ _ s.queue (by simp) hmp⟩
      · intro f _ _ hph hof
        unfold ffOK at hof ⊢
        simp only [hph] at hof
        simp only
        intro x hx
        have := hof x hx
        simp only [P2, P3, List.flatten_append, List.mem_append, List.flatten_cons, List.flatten_nil, List.append_nil] at this ⊢
        grind
      · intro f _ hof
        refine ffOK_mono s _ f (fun _ h => h) ?_ ?_ ?_ hof
        · intro g x hx
          simp only [P1, P2, P3, List.flatten_append, List.mem_append, List.flatten_cons, List.flatten_nil, List.append_nil, List.not_mem_nil, false_or] at hx ⊢
          grind
        · intro x hx
          simp only [P2, P3, List.flatten_append, List.mem_append, List.flatten_cons, List.flatten_nil, List.append_nil, List.not_mem_nil, false_or] at hx ⊢
          grind
        · intro x hx
          simp only [P3, List.flatten_append, List.mem_append, List.flatten_cons, List.flatten_nil, List.append_nil] at hx ⊢
          grind
  · simp at hs

theorem stepE_ffCancel (s s' : St) (fid : Nat) (h : InvE s)
    (hs : step s (.ffCancel fid) = some s') : InvE s' := by
  obtain ⟨hok, huniq, hmh, hmp⟩ := h
  simp only [step] at hs
  simp at hs; subst hs
  refine ⟨?_, ?_, ?_, ?_⟩
  · intro f' hf'
    simp only [List.mem_map] at hf'
    obtain ⟨f, hf, he⟩ := hf'
    subst he
    split
    · simp [ffOK]
    · exact hok f hf
  · have : (s.ffs.map fun f => if f.fid = fid ∧ (f.ph = .called ∨ f.ph = .checked ∨ f.ph = .queued ∨ f.ph = .flushed ∨ f.ph = .exporting)
        then ({ f with ph := .retErr } : FF) else f).map (·.fid) = s.ffs.map (·.fid) := by
      simp only [List.map_map]
      congr 1
      funext f
      simp only [Function.comp]
      split <;> rfl
    simpa [this] using huniq
  · intro g hm
    obtain ⟨f, hf, he⟩ := hmh g hm
    refine ⟨_, List.mem_map_of_mem hf, ?_⟩
    split <;> simpa using he
  · intro g hm f' hf' hfid
    simp only [List.mem_map] at hf'
    obtain ⟨f, hf, he⟩ := hf'
    subst he
    by_cases hc : f.fid = fid ∧ (f.ph = .called ∨ f.ph = .checked ∨ f.ph = .queued ∨ f.ph = .flushed ∨ f.ph = .exporting)
    · simp [hc]
    · simp only [hc, if_false] at hfid ⊢
      exact hmp g hm f hf hfid

theorem stepE (s s' : St) (l : Lbl) (h : InvE s) (hD : InvD s) (hs : step s l = some s') : InvE s' := by
  cases l
  case send id => exact stepE_send s s' id h hs
  case wRecv => exact stepE_wRecv s s' h hs
  case wAppend => exact stepE_wAppend s s' h hs
  case wExportStart => exact stepE_wExportStart s s' h hs
  case ffCall fid => exact stepE_ffCall s s' fid h hs
  case ffCheck fid => exact stepE_ffCheck s s' fid h hs
  case ffEnqueue fid => exact stepE_ffEnqueue s s' fid h hD hs
  case ffStopWins fid => exact stepE_ffStopWins s s' fid h hs
  case ffExportStart fid => exact stepE_ffExportStart s s' fid h hs
  case ffExportEndOk fid => exact stepE_ffExportEnd s s' fid h (Or.inl hs)
  case ffExportEndErr fid => exact stepE_ffExportEnd s s' fid h (Or.inr hs)
  case ffCancel fid => exact stepE_ffCancel s s' fid h hs
  case accept id => exact stepE_trivial s s' _ h hs (by simp)
  all_goals exact stepE_trivial s s' _ h hs (by simp)
end Otel.C01
