/-
C01 — ghost history of the LTS: the observable events (`Spec.Ev`) that a step of the model produces, stamped
where the harness stamps them on the real code, and the history-indexed reachability relation `ReachableH`.
The history lives OUTSIDE the state; `emit` is computed from the pre-state and the label. Every Shutdown call
(the one that wins `stopOnce` and the ones that wait in `Once.Do`) stamps `sdCalled` / `sdReturned`, `OnEnd` of an
unsampled span stamps `endedUnsampled`. Each event is stamped at the step that is its linearization point (`ended` at the queue send / drop,
`ffCalled`/`sdCalled` at the call step, `ffReturned`/`sdReturned` at the step that decides the return value,
`exportStart`/`exportEnd` at ExportSpans entry / return, the exporter's Shutdown as one step); the harness
stamps `…Called` before the call and `…Returned`/`ended` after the return, i.e. calls no later and returns no
earlier than here. This file also holds the list-counting lemmas behind `Spec.delivered` and the small invariants
(`InvS`, `InvG`, `InvU`) that the simulation with the scanner (`HistorySim.lean`) and the S6 clauses need on top
of `Inv`.
-/
import Otel.C01.Lemmas3
import Otel.C01.Spec
namespace Otel.C01

open Spec (Ev Scan scanStep)

/-- a ForceFlush call with this id that has not returned yet -/
def ffPending (fid : Nat) (ffs : List FF) : Bool :=
  ffs.any fun f => f.fid = fid ∧
    (f.ph = .called ∨ f.ph = .checked ∨ f.ph = .queued ∨ f.ph = .flushed ∨ f.ph = .exporting)

/-- the events of label `l` taken from state `s`, assuming the step is enabled -/
def emitRaw (s : St) : Lbl → List Ev
  | .send id => [.ended id]                                   -- End returned (sent or dropped)
  | .endUnsampled id => [.endedUnsampled id]                  -- End of an unsampled span returned
  | .wExportStart => if s.batch = [] then [] else [.exportStart s.batch]
  | .exportEnd _ => [.exportEnd]
  | .ffCall fid => [.ffCalled fid]
  | .ffCheck fid => if s.stopped then [.ffReturned fid true] else []        -- early return nil [F22]
  | .ffStopWins fid => [.ffReturned fid true]                               -- early return nil [F22]
  | .ffExportStart fid => if s.batch = [] then [.ffReturned fid true] else [.exportStart s.batch]
  | .ffExportEndOk fid =>
    -- the caller may already have returned ctx.Err() (ffCancel) while its export goroutine was still running
    .exportEnd :: (if hasPh fid .exporting s.ffs then [.ffReturned fid true] else [])
  | .ffExportEndErr fid =>
    .exportEnd :: (if hasPh fid .exporting s.ffs then [.ffReturned fid false] else [])
  | .ffCancel fid => if ffPending fid s.ffs then [.ffReturned fid false] else []
  | .sdCall => [.sdCalled]
  | .sdExporterShutdown => [.expShutdownStart, .expShutdownEnd]
  | .sdReturnOk => [.sdReturned true]
  | .sdTimeout => [.sdReturned false]                                       -- the winning call returns ctx.Err()
  | .sdCallLate _ => [.sdCalled]                                            -- a further Shutdown call
  | .sdReturnLate _ => [.sdReturned true]                                   -- … returns nil once `stopOnce` is done
  | _ => []

/-- the observable events produced by taking label `l` in state `s`: nothing unless the step is enabled -/
def emit (s : St) (l : Lbl) : List Ev :=
  if (step s l).isSome then emitRaw s l else []

theorem emit_of_step {s s' : St} {l : Lbl} (hs : step s l = some s') : emit s l = emitRaw s l := by
  simp [emit, hs]

theorem emit_of_disabled {s : St} {l : Lbl} (hs : step s l = none) : emit s l = [] := by
  simp [emit, hs]

/-- reachability together with the history of observable events produced on the way -/
inductive ReachableH (cap maxB : Nat) (blocking : Bool) : St → List Ev → Prop where
  | init : ReachableH cap maxB blocking (init cap maxB blocking) []
  | step {s s' : St} {h : List Ev} (l : Lbl) :
      ReachableH cap maxB blocking s h → step s l = some s' → ReachableH cap maxB blocking s' (h ++ emit s l)

theorem ReachableH.reachable {cap maxB : Nat} {blocking : Bool} {s : St} {h : List Ev}
    (hr : ReachableH cap maxB blocking s h) : Reachable cap maxB blocking s := by
  induction hr with
  | init => exact Reachable.init
  | step l _ hs ih => exact Reachable.step l ih hs

/-- conversely every reachable state carries some history -/
theorem Reachable.history {cap maxB : Nat} {blocking : Bool} {s : St}
    (hr : Reachable cap maxB blocking s) : ∃ h, ReachableH cap maxB blocking s h := by
  induction hr with
  | init => exact ⟨[], ReachableH.init⟩
  | step l _ hs ih =>
    obtain ⟨h, hh⟩ := ih
    exact ⟨_, ReachableH.step l hh hs⟩

/-- run a label sequence and collect the history; `none` if some label is not enabled -/
def runH (s : St) (h : List Ev) : List Lbl → Option (St × List Ev)
  | [] => some (s, h)
  | l :: ls => match step s l with
    | some s' => runH s' (h ++ emit s l) ls
    | none => none

theorem runH_reachable {cap maxB : Nat} {blocking : Bool} (s : St) (h : List Ev) (ls : List Lbl) (s' : St)
    (h' : List Ev) (hr : ReachableH cap maxB blocking s h) (hrun : runH s h ls = some (s', h')) :
    ReachableH cap maxB blocking s' h' := by
  induction ls generalizing s h with
  | nil => simp [runH] at hrun; obtain ⟨rfl, rfl⟩ := hrun; exact hr
  | cons l ls ih =>
    simp only [runH] at hrun
    split at hrun
    · rename_i s1 hs1
      exact ih s1 _ (ReachableH.step l hr hs1) hrun
    · simp at hrun

/-! ### configuration and monotone ghosts -/

theorem reachable_cfg {cap maxB : Nat} {blocking : Bool} {s : St} (hr : Reachable cap maxB blocking s) :
    s.cap = cap ∧ s.maxB = maxB ∧ s.blocking = blocking := by
  induction hr with
  | init => exact ⟨rfl, rfl, rfl⟩
  | step l _ hs ih =>
    obtain ⟨h1, h2, h3⟩ := step_cfg _ _ l hs
    exact ⟨h1.trans ih.1, h2.trans ih.2.1, h3.trans ih.2.2⟩

/-- the dropped counter never decreases -/
theorem step_dropped_mono (s s' : St) (l : Lbl) (hs : step s l = some s') :
    s.droppedIds.length ≤ s'.droppedIds.length := by
  cases l <;> simp only [step] at hs
  all_goals (
    repeat' (split at hs)
    all_goals (try (simp at hs))
    all_goals (try subst hs)
    all_goals (simp))

/-! ### small invariant: `stopped` is set only by Shutdown -/

/-- `stopped` is only ever stored by the Shutdown body, after it was called -/
def InvS (s : St) : Prop := s.stopped = true → s.sd ≠ .none

theorem invS_init (cap maxB : Nat) (blocking : Bool) : InvS (init cap maxB blocking) := by
  simp [InvS, init]

theorem stepS (s s' : St) (l : Lbl) (h : InvS s) (hs : step s l = some s') : InvS s' := by
  unfold InvS at *
  cases l <;> simp only [step] at hs
  all_goals (
    repeat' (split at hs)
    all_goals (try (simp at hs))
    all_goals (try subst hs)
    all_goals (first | exact h | simp_all))

theorem invS_reachable {cap maxB : Nat} {blocking : Bool} {s : St} (hr : Reachable cap maxB blocking s) :
    InvS s := by
  induction hr with
  | init => exact invS_init cap maxB blocking
  | step l _ hs ih => exact stepS _ _ l ih hs

/-! ### small invariant: whatever sits between the queue and the exporter has ended

(the converse of `InvD.seenPlaced`; needed to judge S6 with exactly the `ended` events of the history) -/

def InvG (s : St) : Prop := ∀ id, placed s id → id ∈ s.seen

theorem invG_init (cap maxB : Nat) (blocking : Bool) : InvG (init cap maxB blocking) := by
  simp [InvG, init, placed, handL]

theorem stepG (s s' : St) (l : Lbl) (h : InvG s) (hs : step s l = some s') : InvG s' := by
  unfold InvG placed at *
  cases l <;> simp only [step] at hs
  all_goals (
    repeat' (split at hs)
    all_goals (try (simp at hs))
    all_goals (try subst hs)
    all_goals (first
      | exact h
      | (simp_all [spansOf_append, spansOf, handL] <;> grind)))

theorem invG_reachable {cap maxB : Nat} {blocking : Bool} {s : St} (hr : Reachable cap maxB blocking s) :
    InvG s := by
  induction hr with
  | init => exact invG_init cap maxB blocking
  | step l _ hs ih => exact stepG _ _ l ih hs

/-! ### small invariant: unsampled span ids never enter the processor

`OnEnd` of an unsampled span touches no shared state, and span ids are unique: an id recorded in the ghost
`unsampled` is never accepted, hence (conservation) never queued, batched, exported or counted as dropped. -/

def InvU (s : St) : Prop := ∀ id ∈ s.unsampled, id ∉ s.accepted

theorem invU_init (cap maxB : Nat) (blocking : Bool) : InvU (init cap maxB blocking) := by
  simp [InvU, init]

theorem stepU (s s' : St) (l : Lbl) (h : InvU s) (hs : step s l = some s') : InvU s' := by
  unfold InvU at *
  cases l <;> simp only [step] at hs
  all_goals (
    repeat' (split at hs)
    all_goals (try (simp at hs))
    all_goals (try subst hs)
    all_goals (first
      | exact h
      | (simp_all <;> grind)))

theorem invU_reachable {cap maxB : Nat} {blocking : Bool} {s : St} (hr : Reachable cap maxB blocking s) :
    InvU s := by
  induction hr with
  | init => exact invU_init cap maxB blocking
  | step l _ hs ih => exact stepU _ _ l ih hs

/-! ### the late-span race (known finding F41) -/

/-- exclusion predicate of the late-span race F41: a span was enqueued after the worker had exited (its `End` passed
the `stopped` check before the first Shutdown stored the flag and sent after the drain) — it stays in the queue -/
def LateEnd_applies (s : St) : Bool := s.w == .exited && !(spansOf s.queue).isEmpty

/-- once a late span sits in the exited worker's queue it stays there -/
theorem lateEnd_step (s s' : St) (l : Lbl) (hs : step s l = some s') (h : LateEnd_applies s = true) :
    LateEnd_applies s' = true := by
  simp only [LateEnd_applies, Bool.and_eq_true, beq_iff_eq, Bool.not_eq_true', List.isEmpty_eq_false_iff] at h ⊢
  obtain ⟨hw, hq⟩ := h
  cases l <;> simp only [step] at hs
  all_goals (
    repeat' (split at hs)
    all_goals (try (simp at hs))
    all_goals (try subst hs)
    all_goals (first
      | exact ⟨hw, hq⟩
      | (simp_all [spansOf_append, afterExport])))

/-! ### counting lemmas behind `Spec.delivered` -/

/-- a duplicate-free list contained in another list is not longer -/
theorem nodup_subset_length_le (l m : List Nat) (hn : l.Nodup) (hsub : ∀ x ∈ l, x ∈ m) :
    l.length ≤ m.length := by
  induction l generalizing m with
  | nil => simp
  | cons a t ih =>
    rw [List.nodup_cons] at hn
    have ha : a ∈ m := hsub a (List.mem_cons_self ..)
    have ht : ∀ x ∈ t, x ∈ m.erase a := by
      intro x hx
      have hxa : x ≠ a := fun e => hn.1 (e ▸ hx)
      exact (List.mem_erase_of_ne hxa).2 (hsub x (List.mem_cons_of_mem _ hx))
    have := ih (m.erase a) hn.2 ht
    have hl : (m.erase a).length = m.length - 1 := by rw [List.length_erase]; simp [ha]
    have hp : 0 < m.length := List.length_pos_of_mem ha
    simp only [List.length_cons]
    omega

theorem nodup_eraseDups_aux (n : Nat) : ∀ l : List Nat, l.length ≤ n → l.eraseDups.Nodup := by
  induction n with
  | zero =>
    intro l hl
    have : l = [] := List.eq_nil_of_length_eq_zero (by omega)
    subst this; simp
  | succ n ih =>
    intro l hl
    cases l with
    | nil => simp
    | cons a t =>
      rw [List.eraseDups_cons, List.nodup_cons]
      refine ⟨?_, ih _ ?_⟩
      · simp
      · have := List.length_filter_le (fun b => !b == a) t
        simp only [List.length_cons] at hl
        omega

theorem nodup_eraseDups (l : List Nat) : l.eraseDups.Nodup := nodup_eraseDups_aux l.length l (Nat.le_refl _)

/-- the observable delivery predicate follows from the state invariant "every id of `pre` is in the log or
was counted as dropped", provided the reported counter covers the dropped ids and nothing is dropped in
blocking mode -/
theorem delivered_of_covered (blocking : Bool) (pre : List Nat) (log : List (List Nat)) (droppedIds : List Nat)
    (dropped : Nat) (hcov : ∀ id ∈ pre, id ∈ log.flatten ∨ id ∈ droppedIds)
    (hd : droppedIds.length ≤ dropped) (hnb : droppedIds ≠ [] → blocking = false) :
    Spec.delivered blocking pre log dropped = true := by
  have hsub : ∀ x ∈ pre.eraseDups.filter (fun id => !log.flatten.contains id), x ∈ droppedIds := by
    intro x hx
    simp only [List.mem_filter, List.mem_eraseDups, Bool.not_eq_true', List.contains_eq_mem,
      decide_eq_false_iff_not] at hx
    rcases hcov x hx.1 with h | h
    · exact absurd h hx.2
    · exact h
  have hn : (pre.eraseDups.filter (fun id => !log.flatten.contains id)).Nodup :=
    (nodup_eraseDups pre).sublist List.filter_sublist
  have hle := nodup_subset_length_le _ _ hn hsub
  simp only [Spec.delivered, Bool.and_eq_true, decide_eq_true_eq, Bool.or_eq_true, Bool.not_eq_true']
  refine ⟨by omega, ?_⟩
  cases hb : blocking with
  | false => exact Or.inr rfl
  | true =>
    left
    have : droppedIds = [] := by
      apply Classical.byContradiction
      intro hne
      have := hnb hne
      rw [hb] at this
      cases this
    subst this
    simpa using hle

end Otel.C01
