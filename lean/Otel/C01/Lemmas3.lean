import Otel.C01.Lemmas2
namespace Otel.C01

/-! ### Part F: Shutdown delivery -/
structure InvF (s : St) : Prop where
  preSeen : ∀ id ∈ s.sdPre, id ∈ s.seen
  finalOK : s.w = .final → ∀ id ∈ s.sdPre, P2 s id
  exitedOK : s.w = .exited → ∀ id ∈ s.sdPre, P3 s id

theorem stepF (s s' : St) (l : Lbl) (h : InvF s) (hB : InvB s) (hC : InvC s) (hD : InvD s)
    (hs : step s l = some s') : InvF s' := by
  obtain ⟨h1, h2, h3⟩ := h
  have hbe := hB.busyEmpty
  have hsp := hD.seenPlaced
  obtain ⟨c1, c2, c3, c4, c5, c6, c7, c8, c9, c10⟩ := hC
  unfold placed at hsp
  unfold P2 P3 at *
  cases l <;> simp only [step] at hs
  case send id =>
    split at hs
    · split at hs
      · simp at hs; subst hs
        exact ⟨fun x hx => List.mem_cons_of_mem _ (h1 x hx), h2, h3⟩
      · split at hs
        · simp at hs
        · simp at hs; subst hs
          refine ⟨fun x hx => List.mem_cons_of_mem _ (h1 x hx), ?_, ?_⟩
          · intro hw x hx
            rcases h2 hw x hx with h | h | h
            · exact Or.inl h
            · exact Or.inr (Or.inl h)
            · exact Or.inr (Or.inr (List.mem_cons_of_mem _ h))
          · intro hw x hx
            rcases h3 hw x hx with h | h
            · exact Or.inl h
            · exact Or.inr (List.mem_cons_of_mem _ h)
    · simp at hs
  case wDrainEmpty =>
    split at hs
    · rename_i hg
      simp at hs; subst hs
      refine ⟨h1, ?_, by intro hw; simp at hw⟩
      intro _ x hx
      have := hsp x (h1 x hx)
      simp only [hg.2.1, hg.2.2, handL, spansOf, List.not_mem_nil, false_or] at this
      exact this
    · simp at hs
  case wExportStart =>
    split at hs
    · rename_i hg
      split at hs
      · rename_i hb
        simp at hs; subst hs
        refine ⟨h1, ?_, ?_⟩
        · intro hw
          rcases hg.1 with hw' | hw' | hw' <;> simp [hw', afterExport] at hw
        · intro hw x hx
          rcases hg.1 with hw' | hw' | hw'
          · simp [hw', afterExport] at hw
          · simp [hw', afterExport] at hw
          · have := h2 hw' x hx
            simp only [hb, List.not_mem_nil, false_or] at this
            exact this
      · simp at hs; subst hs
        refine ⟨h1, ?_, ?_⟩
        · intro hw x hx
          have := h2 hw x hx
          show _ ∈ ([] : List Nat) ∨ _ ∈ (s.exported ++ [s.batch]).flatten ∨ _
          simp only [List.flatten_append, List.mem_append, List.flatten_cons, List.flatten_nil, List.append_nil, List.not_mem_nil, false_or]
          grind
        · intro hw x hx
          have := h3 hw x hx
          show _ ∈ (s.exported ++ [s.batch]).flatten ∨ _
          simp only [List.flatten_append, List.mem_append, List.flatten_cons, List.flatten_nil, List.append_nil]
          grind
    · simp at hs
  case exportEnd ok =>
    split at hs
    · rename_i hb
      simp at hs; subst hs
      have hbatch : s.batch = [] := hbe (by simp [hb])
      have hw := c3 hb
      refine ⟨h1, ?_, ?_⟩
      · intro hw'
        rcases hw with hw | hw | hw <;> simp [hw, afterExport] at hw'
      · intro hw' x hx
        rcases hw with hw | hw | hw
        · simp [hw, afterExport] at hw'
        · simp [hw, afterExport] at hw'
        · have := h2 hw x hx
          simp only [hbatch, List.not_mem_nil, false_or] at this
          exact this
    · simp at hs
  case ffExportStart fid =>
    split at hs
    · split at hs
      · simp at hs; subst hs
        exact ⟨h1, h2, h3⟩
      · simp at hs; subst hs
        refine ⟨h1, ?_, ?_⟩
        · intro hw x hx
          have := h2 hw x hx
          show _ ∈ ([] : List Nat) ∨ _ ∈ (s.exported ++ [s.batch]).flatten ∨ _
          simp only [List.flatten_append, List.mem_append, List.flatten_cons, List.flatten_nil, List.append_nil, List.not_mem_nil, false_or]
          grind
        · intro hw x hx
          have := h3 hw x hx
          show _ ∈ (s.exported ++ [s.batch]).flatten ∨ _
          simp only [List.flatten_append, List.mem_append, List.flatten_cons, List.flatten_nil, List.append_nil]
          grind
    · simp at hs
  all_goals (
    repeat' (split at hs)
    all_goals (try (simp at hs))
    all_goals (try subst hs)
    all_goals (first
      | exact ⟨h1, h2, h3⟩
      | (refine ⟨?_, ?_, ?_⟩ <;> simp_all [afterExport, handL, spansOf] <;> grind)))

/-! ### Part L: the Shutdown calls that did not win `stopOnce` -/
structure InvL (s : St) : Prop where
  retDone : ∀ c ∈ s.sds, c.ret = true → (s.sdRetOk = true ∨ s.sdRetErr = true)
  preSeen : ∀ c ∈ s.sds, ∀ id ∈ c.pre, id ∈ s.seen
  called : s.sds ≠ [] → s.sd ≠ .none
  uniq : (s.sds.map (·.cid)).Nodup

theorem map_cid_setRet (cid : Nat) (sds : List SD) :
    (sds.map fun c => if c.cid = cid then { c with ret := true } else c).map (·.cid) = sds.map (·.cid) := by
  simp only [List.map_map]
  congr 1
  funext c
  simp only [Function.comp]
  split <;> rfl

theorem stepL (s s' : St) (l : Lbl) (h : InvL s) (hs : step s l = some s') : InvL s' := by
  obtain ⟨h1, h2, h3, h4⟩ := h
  cases l <;> simp only [step] at hs
  case sdReturnLate cid =>
    split at hs
    · rename_i hg
      simp at hs; subst hs
      refine ⟨fun _ _ _ => hg.1, ?_, ?_, by rw [map_cid_setRet]; exact h4⟩
      · intro c hc
        simp only [List.mem_map] at hc
        obtain ⟨c0, hc0, he⟩ := hc
        subst he
        split <;> exact h2 c0 hc0
      · intro _
        apply h3
        intro he
        have := hg.2
        simp [he] at this
    · simp at hs
  case sdCallLate cid =>
    split at hs
    · simp at hs
    · rename_i hg
      simp at hs; subst hs
      refine ⟨?_, ?_, fun _ e => hg (Or.inl e), ?_⟩
      · intro c hc
        simp only [List.mem_cons] at hc
        rcases hc with hc | hc
        · subst hc; simp
        · exact h1 c hc
      · intro c hc
        simp only [List.mem_cons] at hc
        rcases hc with hc | hc
        · subst hc; exact fun id hid => hid
        · exact h2 c hc
      · simp only [List.map_cons, List.nodup_cons]
        refine ⟨?_, h4⟩
        intro hm
        apply hg
        right
        simp only [List.mem_map] at hm
        obtain ⟨c, hc, he⟩ := hm
        simp only [List.any_eq_true, decide_eq_true_eq]
        exact ⟨c, hc, he⟩
  all_goals (
    repeat' (split at hs)
    all_goals (try (simp at hs))
    all_goals (try subst hs)
    all_goals (first
      | exact ⟨h1, h2, h3, h4⟩
      | (refine ⟨?_, ?_, ?_, h4⟩ <;> simp_all <;> grind)))

/-! ### The full invariant -/
structure Inv (s : St) : Prop where
  a : InvA s
  b : InvB s
  c : InvC s
  d : InvD s
  e : InvE s
  f : InvF s
  l : InvL s

theorem inv_init (cap maxB : Nat) (blocking : Bool) (hpos : 1 ≤ maxB) : Inv (init cap maxB blocking) := by
  refine ⟨⟨?_, ?_⟩, ⟨hpos, ?_, ?_, ?_, ?_⟩, ⟨?_, ?_, ?_, ?_, ?_, ?_, ?_, ?_, ?_, ?_⟩, ⟨?_, ?_⟩, ⟨?_, ?_, ?_, ?_⟩, ⟨?_, ?_, ?_⟩, ⟨?_, ?_, ?_, ?_⟩⟩ <;>
    simp [init, allIds, spansOf, handL] <;> omega

theorem inv_step (s s' : St) (l : Lbl) (h : Inv s) (hs : step s l = some s') : Inv s' :=
  ⟨stepA s s' l h.a hs, stepB s s' l h.b hs, stepC s s' l h.c h.b hs, stepD s s' l h.d hs,
   stepE s s' l h.e h.d hs, stepF s s' l h.f h.b h.c h.d hs, stepL s s' l h.l hs⟩

theorem step_cfg (s s' : St) (l : Lbl) (hs : step s l = some s') :
    s'.cap = s.cap ∧ s'.maxB = s.maxB ∧ s'.blocking = s.blocking := by
  cases l <;> simp only [step] at hs
  all_goals (
    repeat' (split at hs)
    all_goals (try (simp at hs))
    all_goals (try subst hs)
    all_goals exact ⟨rfl, rfl, rfl⟩)

theorem inv_reachable (cap maxB : Nat) (blocking : Bool) (hpos : 1 ≤ maxB) (s : St)
    (h : Reachable cap maxB blocking s) : Inv s := by
  induction h with
  | init => exact inv_init cap maxB blocking hpos
  | step l _ hs ih => exact inv_step _ _ l ih hs

end Otel.C01
