import Otel.C01.Model
namespace Otel.C01

def allIds (s : St) : List Nat :=
  s.inflight ++ spansOf s.queue ++ handL s.hand ++ s.batch ++ s.exported.flatten ++ s.droppedIds

theorem spansOf_append (a b : List Item) : spansOf (a ++ b) = spansOf a ++ spansOf b := by
  induction a with
  | nil => rfl
  | cons x r ih => cases x <;> simp [spansOf, ih]

/-- Part A: conservation of span ids -/
structure InvA (s : St) : Prop where
  cnt : ∀ a, (allIds s).count a = s.accepted.count a
  nodup : s.accepted.Nodup

theorem count_erase_mem (l : List Nat) (id a : Nat) (h : id ∈ l) :
    (l.erase id).count a + (if a = id then 1 else 0) = l.count a := by
  by_cases ha : a = id
  · subst ha
    have := List.count_erase_self (a := a) (l := l)
    have hp : 0 < l.count a := List.count_pos_iff.mpr h
    simp; omega
  · have : (l.erase id).count a = l.count a := List.count_erase_of_ne ha
    simp [ha, this]

theorem stepA (s s' : St) (l : Lbl) (h : InvA s) (hs : step s l = some s') : InvA s' := by
  have hc := h.cnt
  cases l <;> simp only [step] at hs
  case accept id =>
    split at hs
    · simp at hs
    · rename_i hn
      simp at hs; subst hs
      have hn' : id ∉ s.accepted := fun hh => hn (Or.inr (Or.inl hh))
      refine ⟨?_, List.nodup_cons.mpr ⟨hn', h.nodup⟩⟩
      intro a
      have := hc a
      simp only [allIds, List.count_append, List.count_cons] at this ⊢
      omega
  case send id =>
    split at hs
    · rename_i hin
      split at hs
      · simp at hs; subst hs
        refine ⟨?_, h.nodup⟩
        intro a
        have := hc a
        have he := count_erase_mem s.inflight id a hin
        simp only [allIds, List.count_append, spansOf_append, spansOf, List.count_cons, List.count_nil] at this ⊢
        by_cases ha : a = id
        · subst ha; simp at he ⊢; omega
        · have ha' : ¬ id = a := fun e => ha e.symm
          simp [ha, ha'] at he ⊢; omega
      · split at hs
        · simp at hs
        · simp at hs; subst hs
          refine ⟨?_, h.nodup⟩
          intro a
          have := hc a
          have he := count_erase_mem s.inflight id a hin
          simp only [allIds, List.count_append, List.count_cons] at this ⊢
          by_cases ha : a = id
          · subst ha; simp at he ⊢; omega
          · have ha' : ¬ id = a := fun e => ha e.symm
            simp [ha, ha'] at he ⊢; omega
    · simp at hs
  all_goals (
    repeat' (split at hs)
    all_goals (try (simp at hs))
    all_goals (try subst hs)
    all_goals (first
      | exact ⟨by simpa [allIds] using hc, h.nodup⟩
      | (refine ⟨?_, h.nodup⟩
         intro a
         have := hc a
         simp [allIds, spansOf_append, spansOf, handL, List.count_append, List.count_cons, *] at this ⊢
         omega)
      | skip))

/-- Part B: batch bound -/
structure InvB (s : St) : Prop where
  pos : 1 ≤ s.maxB
  bound : s.batch.length ≤ s.maxB
  strict : (s.w = .run ∨ s.w = .drain ∨ s.w = .final ∨ s.w = .exited) → s.batch.length < s.maxB
  busyEmpty : s.busy ≠ none → s.batch = []
  expB : ∀ b ∈ s.exported, b.length ≤ s.maxB

theorem stepB (s s' : St) (l : Lbl) (h : InvB s) (hs : step s l = some s') : InvB s' := by
  obtain ⟨hpos, hbound, hstrict, hbusy, hexp⟩ := h
  cases l <;> simp only [step] at hs
  case wAppend =>
    split at hs
    · simp at hs
    · split at hs
      · simp at hs
      · rename_i hb
        have hnb : s.busy = none := by simpa using hb
        split at hs
        · rename_i hw
          simp at hs; subst hs
          have := hstrict (Or.inl hw)
          refine ⟨hpos, by simp; omega, ?_, by simp [hnb], hexp⟩
          simp only [List.length_append, List.length_cons, List.length_nil]
          split <;> simp <;> omega
        · split at hs
          · rename_i hw
            simp at hs; subst hs
            have := hstrict (Or.inr (Or.inl hw))
            refine ⟨hpos, by simp; omega, ?_, by simp [hnb], hexp⟩
            simp only [List.length_append, List.length_cons, List.length_nil]
            split <;> simp <;> omega
          · simp at hs
  case wExportStart =>
    split at hs
    · rename_i hw
      split at hs
      · rename_i hb
        simp at hs; subst hs
        refine ⟨hpos, hbound, ?_, hbusy, hexp⟩
        intro _; simp [hb]; omega
      · simp at hs; subst hs
        refine ⟨hpos, by simp, by intro _; simp; omega, by simp, ?_⟩
        intro b hb
        simp at hb
        rcases hb with hb | hb
        · exact hexp b hb
        · subst hb; exact hbound
    · simp at hs
  case exportEnd ok =>
    split at hs
    · rename_i hw
      simp at hs; subst hs
      have hb : s.batch = [] := hbusy (by simp [hw])
      refine ⟨hpos, hbound, ?_, by simp, hexp⟩
      intro _; simp [hb]; omega
    · simp at hs
  case ffExportStart fid =>
    split at hs
    · split at hs
      · simp at hs; subst hs
        exact ⟨hpos, hbound, hstrict, hbusy, hexp⟩
      · simp at hs; subst hs
        refine ⟨hpos, by simp, by intro _; simp; omega, by simp, ?_⟩
        intro b hb
        simp at hb
        rcases hb with hb | hb
        · exact hexp b hb
        · subst hb; exact hbound
    · simp at hs
  all_goals (
    repeat' (split at hs)
    all_goals (try (simp at hs))
    all_goals (try subst hs)
    all_goals (first
      | exact ⟨hpos, hbound, hstrict, hbusy, hexp⟩
      | (refine ⟨hpos, ?_, ?_, ?_, ?_⟩ <;> simp_all <;> (try split) <;> simp_all <;> omega)
      | skip))

/-- Part C: control-flow facts about the worker and Shutdown -/
structure InvC (s : St) : Prop where
  exitedClean : s.w = .exited → s.batch = [] ∧ s.busy = none ∧ s.hand = none
  handPhase : s.hand ≠ none → (s.w = .run ∨ s.w = .drain)
  busyWorker : s.busy = some .worker → (s.w = .pend ∨ s.w = .dpend ∨ s.w = .final)
  drainStop : (s.w = .drain ∨ s.w = .dpend ∨ s.w = .final ∨ s.w = .exited) → s.stopClosed = true
  stopSd : s.stopClosed = true → (s.sd = .closed ∨ s.sd = .shut)
  shutExited : s.sd = .shut → s.w = .exited
  retSd : s.sdRetOk = true → s.sd = .shut
  sdStop : (s.sd = .closed ∨ s.sd = .shut) → s.stopClosed = true
  errSd : s.sdRetErr = true → (s.sd = .stored ∨ s.sd = .closed ∨ s.sd = .shut)
  okErr : s.sdRetOk = true → s.sdRetErr = false

theorem stepC (s s' : St) (l : Lbl) (h : InvC s) (hB : InvB s) (hs : step s l = some s') : InvC s' := by
  obtain ⟨h1, h2, h3, h4, h5, h6, h7, h8, h9, h10⟩ := h
  have hbe := hB.busyEmpty
  cases l <;> simp only [step] at hs
  all_goals (
    repeat' (split at hs)
    all_goals (try (simp at hs))
    all_goals (try subst hs)
    all_goals (first
      | exact ⟨h1, h2, h3, h4, h5, h6, h7, h8, h9, h10⟩
      | (refine ⟨?_, ?_, ?_, ?_, ?_, ?_, ?_, ?_, ?_, ?_⟩ <;> simp_all [afterExport] <;> grind)
      | skip))

def placed (s : St) (id : Nat) : Prop :=
  id ∈ spansOf s.queue ∨ id ∈ handL s.hand ∨ id ∈ s.batch ∨ id ∈ s.exported.flatten ∨ id ∈ s.droppedIds

/-- Part D: every span whose End returned is somewhere between the queue and the exporter, or counted as dropped -/
structure InvD (s : St) : Prop where
  seenPlaced : ∀ id ∈ s.seen, placed s id
  dropNB : s.droppedIds ≠ [] → s.blocking = false

theorem stepD (s s' : St) (l : Lbl) (h : InvD s) (hs : step s l = some s') : InvD s' := by
  obtain ⟨h1, h2⟩ := h
  unfold placed at h1
  cases l <;> simp only [step] at hs
  all_goals (
    repeat' (split at hs)
    all_goals (try (simp at hs))
    all_goals (try subst hs)
    all_goals (first
      | exact ⟨h1, h2⟩
      | (refine ⟨?_, ?_⟩ <;> simp_all [placed, spansOf_append, spansOf, handL] <;> grind)
      | skip))

end Otel.C01
