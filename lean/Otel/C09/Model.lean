/-
C09 — executable model of sdk/trace's sampling and span-start logic (core Lean only).

Mirrors, branch by branch:
  * sampling.go      TraceIDRatioBased / traceIDRatioSampler.ShouldSample / AlwaysSample / NeverSample /
                     ParentBased (+ its four options) / parentBased.ShouldSample
  * tracer.go        tracer.newSpan (parent handling, WithNewRoot, id generation, sampler call, flags,
                     recording vs non-recording span)
  * span.go          isRecording / isSampled, recordingSpan.End -> OnEnd, nonRecordingSpan.End (no-op)
  * simple_span_processor.go / batch_span_processor.go   forward only spans whose sampled flag is set
                     (OnEnd; enqueueDrop and enqueueBlockOnQueueFull) — every stock configuration
  * id_generator.go  randomIDGenerator.NewIDs / NewSpanID (retry loops) over math/rand's byte stream
  * sampler_env.go   samplerFromEnv / parseTraceIDRatio

No Lean `Float`: a ratio travels as its IEEE-754 binary64 bit pattern (`UInt64`).
External calls that are parameters of the model: `strconv.ParseFloat` (its result is an input of
`samplerFromEnv`), `uint64(NaN)` (platform-defined conversion: the value is an input `nan`), the
`math/rand` byte stream (an input list of bytes).
-/
import Otel.Base.Wire
namespace Otel.C09
open Otel

/-! ## IEEE-754 binary64 fields of a bit pattern -/

def fSign (b : UInt64) : Nat := b.toNat / 2 ^ 63
def fExp (b : UInt64) : Nat := (b.toNat / 2 ^ 52) % 2048
def fFrac (b : UInt64) : Nat := b.toNat % 2 ^ 52

def isNaN (b : UInt64) : Bool := fExp b == 2047 && fFrac b != 0

/-- significand as an integer: hidden bit for normal numbers -/
def fMant (b : UInt64) : Nat := if fExp b == 0 then fFrac b else 2 ^ 52 + fFrac b
/-- biased exponent with the subnormal adjustment: value = fMant * 2^(fExpAdj - 1075) -/
def fExpAdj (b : UInt64) : Nat := if fExp b == 0 then 1 else fExp b

/-- Go `fraction >= 1` (false for NaN) -/
def geOne (b : UInt64) : Bool := !isNaN b && fSign b == 0 && fExp b ≥ 1023
/-- Go `fraction <= 0` (false for NaN; true for -0, negatives, -Inf) -/
def leZero (b : UInt64) : Bool := !isNaN b && (fSign b == 1 || (fExp b == 0 && fFrac b == 0))

/-- `uint64(fraction * (1 << 63))` for 0 < fraction < 1: the product is exact in binary64
(it only changes the exponent and the result is < 2^63), the conversion truncates:
⌊m · 2^(e-1075) · 2^63⌋ = ⌊m · 2^e / 2^1012⌋. -/
def scaled (b : UInt64) : Nat := fMant b * 2 ^ fExpAdj b
def floorBound (b : UInt64) : Nat := scaled b / 2 ^ 1012

/-! ## Span contexts, samplers -/

structure Ctx where
  tid : Bytes
  sid : Bytes
  flags : Nat       -- trace flags byte
  ts : Bytes        -- TraceState.String() as an opaque byte string
  remote : Bool
deriving DecidableEq, Repr, Inhabited

def zeros (n : Nat) : Bytes := List.replicate n 0
/-- the zero value `trace.SpanContext{}` (also what `SpanContextFromContext` yields without a span) -/
def Ctx.zero : Ctx := ⟨zeros 16, zeros 8, 0, [], false⟩

/-- `TraceID.IsValid` / `SpanID.IsValid`: not all bytes zero -/
def idValid (id : Bytes) : Bool := id.any (· != 0)
/-- `SpanContext.IsValid` -/
def Ctx.valid (c : Ctx) : Bool := idValid c.tid && idValid c.sid
/-- `SpanContext.IsSampled` -/
def Ctx.sampled (c : Ctx) : Bool := c.flags % 2 == 1

/-- sampling decisions are the raw `uint8`: 0 Drop, 1 RecordOnly, 2 RecordAndSample, others possible
from a custom sampler -/
abbrev Decision := Nat
def dDrop : Nat := 0
def dRecordOnly : Nat := 1
def dRecordAndSample : Nat := 2

inductive Sampler where
  | always
  | never
  /-- `traceIDRatioSampler{traceIDUpperBound}` -/
  | ratioB (bound : Nat)
  /-- a user sampler whose answer is scripted per call: decision and either an own tracestate or the
  one of the parent context it was given -/
  | custom
  | parentBased (root rs rns ls lns : Sampler)
deriving DecidableEq, Repr, Inhabited

/-- how the harness builds a sampler through the public constructors: `AlwaysSample()`, `NeverSample()`,
`TraceIDRatioBased(f)`, a user sampler, `ParentBased(root, WithRemoteParentSampled(rs), …)` -/
inductive SExpr where
  | always
  | never
  | ratio (bits : UInt64)
  | custom
  | pb (root rs rns ls lns : SExpr)
deriving DecidableEq, Repr, Inhabited

/-- `TraceIDRatioBased(fraction)`; `nan` = what `uint64(NaN)` yields on this platform -/
def traceIDRatioBased (bits : UInt64) (nan : Nat) : Sampler :=
  if geOne bits then .always
  else if leZero bits then .ratioB 0
  else if isNaN bits then .ratioB nan
  else .ratioB (floorBound bits)

/-- the constructors applied: `ParentBased` stores its five samplers -/
def build (nan : Nat) : SExpr → Sampler
  | .always => .always
  | .never => .never
  | .ratio bits => traceIDRatioBased bits nan
  | .custom => .custom
  | .pb root rs rns ls lns => .parentBased (build nan root) (build nan rs) (build nan rns) (build nan ls) (build nan lns)

/-- `ParentBased(root)` with the default configuration -/
def parentBasedDefault (root : Sampler) : Sampler := .parentBased root .always .never .always .never

/-- big-endian value of a byte string -/
def beNat (bs : Bytes) : Nat := bs.foldl (fun acc b => acc * 256 + b.toNat) 0

/-- `binary.BigEndian.Uint64(traceID[8:16]) >> 1` -/
def tidField (tid : Bytes) : Nat := beNat ((tid.drop 8).take 8) / 2

/-- scripted answer of the custom sampler for one call -/
structure Script where
  dec : Nat
  ts : Option Bytes     -- none: answer with the parent context's tracestate (as the stock samplers do)
deriving DecidableEq, Repr, Inhabited

/-- `Sampler.ShouldSample(p)`: `psc` is the span context found in `p.ParentContext`. Returns
(decision, tracestate, branch tag). -/
def shouldSample : Sampler → Script → Ctx → Bytes → Nat × Bytes × String
  | .always, _, psc, _ => (dRecordAndSample, psc.ts, "always")
  | .never, _, psc, _ => (dDrop, psc.ts, "never")
  | .ratioB bound, _, psc, tid =>
    if tidField tid < bound then (dRecordAndSample, psc.ts, "ratio-in") else (dDrop, psc.ts, "ratio-out")
  | .custom, sc, psc, _ => (sc.dec, sc.ts.getD psc.ts, "custom")
  | .parentBased root rs rns ls lns, sc, psc, tid =>
    if psc.valid then
      if psc.remote then
        if psc.sampled then shouldSample rs sc psc tid else shouldSample rns sc psc tid
      else
        if psc.sampled then shouldSample ls sc psc tid else shouldSample lns sc psc tid
    else shouldSample root sc psc tid

/-! ## tracer.newSpan -/

inductive GenCall where | newIDs | newSpanID
deriving DecidableEq, Repr, Inhabited

structure StartIn where
  parent : Ctx          -- span context found in ctx (zero value if none)
  newRoot : Bool
  genTid : Bytes        -- what the IDGenerator returns when asked
  genSid : Bytes
  script : Script
deriving Repr, Inhabited

structure StartOut where
  ctx : Ctx             -- SpanContext of the started span
  recording : Bool      -- recordingSpan vs nonRecordingSpan
  call : GenCall
  ansDec : Nat     -- what the sampler answered
  ansTs : Bytes
  seenTid : Bytes       -- SamplingParameters.TraceID
  seenP : Ctx           -- span context in SamplingParameters.ParentContext
  psc : Ctx             -- recorded as the span's Parent()
  branch : String
deriving Repr, Inhabited

def isRecording (d : Nat) : Bool := d == dRecordOnly || d == dRecordAndSample
def isSampled (d : Nat) : Bool := d == dRecordAndSample

/-- `psc.TraceFlags() | FlagsSampled` -/
def flagsSet (f : Nat) : Nat := f ||| 1
/-- `psc.TraceFlags() &^ FlagsSampled` (flags are one byte) -/
def flagsClear (f : Nat) : Nat := f &&& 254

def newSpan (s : Sampler) (i : StartIn) : StartOut :=
  -- WithNewRoot: a zero SpanContext replaces the parent, also in the context handed to the sampler
  let psc := if i.newRoot then Ctx.zero else i.parent
  let (tid, call) := if !idValid psc.tid then (i.genTid, GenCall.newIDs) else (psc.tid, GenCall.newSpanID)
  let sid := i.genSid
  let (dec, ts, br) := shouldSample s i.script psc tid
  let flags := if isSampled dec then flagsSet psc.flags else flagsClear psc.flags
  { ctx := ⟨tid, sid, flags, ts, false⟩
    recording := isRecording dec
    call := call, ansDec := dec, ansTs := ts, seenTid := tid, seenP := psc, psc := psc
    branch := (if i.newRoot then "newroot," else if idValid psc.tid then "inherit," else "fresh,") ++ br }

/-! ## span trees: every node's parent is the external parent (-1) or an earlier node -/

structure NodeIn where
  parentIdx : Int
  newRoot : Bool
  genTid : Bytes
  genSid : Bytes
  script : Script
deriving Repr, Inhabited

def parentCtx (ext : Ctx) (done : List StartOut) (idx : Int) : Ctx :=
  if idx < 0 then ext else (done.getD idx.toNat default).ctx

/-- start the nodes in order; `done` holds the already started ones (in order) -/
def runTree (s : Sampler) (ext : Ctx) : List NodeIn → List StartOut → List StartOut
  | [], done => done
  | n :: rest, done =>
    let o := newSpan s ⟨parentCtx ext done n.parentIdx, n.newRoot, n.genTid, n.genSid, n.script⟩
    runTree s ext rest (done ++ [o])

structure Exported where
  sid : Bytes
  tid : Bytes
  ptid : Bytes
  psid : Bytes
deriving DecidableEq, Repr, Inhabited

/-- `End` on every span in reverse start order, then shutdown: a recording span reaches `OnEnd`;
simple and batch processor hand it to the exporter only if its sampled flag is set;
`nonRecordingSpan.End` does nothing. -/
def exportedOf (outs : List StartOut) : List Exported :=
  (outs.reverse.filter (fun o => o.recording && o.ctx.sampled)).map
    (fun o => ⟨o.ctx.sid, o.ctx.tid, o.psc.tid, o.psc.sid⟩)

/-- the stock span-processor configurations a provider can carry side by side (each with its own exporter):
`NewSimpleSpanProcessor`; `NewBatchSpanProcessor` with default options; `WithBlocking()`;
a small `WithMaxExportBatchSize`; `WithBlocking()` with queue and batch size 1 -/
inductive Proc where
  | simple | batch | batchBlocking | batchSmall | batchBlockingSmall
deriving DecidableEq, Repr, Inhabited

/-- what the exporter behind processor `p` holds after every span was ended (reverse start order) and the
provider was flushed and shut down. Every configuration applies the same filter:
  * simple: `OnEnd` tests `s.SpanContext().TraceFlags().IsSampled()`;
  * batch, default: `OnEnd → enqueue → enqueueDrop` tests `sd.SpanContext().IsSampled()`;
  * batch, `WithBlocking()`: `OnEnd → enqueue → enqueueBlockOnQueueFull` tests `sd.SpanContext().IsSampled()`;
  * queue/batch sizes only change how the queue is cut into `ExportSpans` calls, not what is delivered once
    flushed (no drop: the trees are smaller than any queue that does not block);
so there is one definition. -/
def exportedBy (_p : Proc) (outs : List StartOut) : List Exported := exportedOf outs

def Proc.all : List Proc := [.simple, .batch, .batchBlocking, .batchSmall, .batchBlockingSmall]

/-- the tag the harness prints for each exporter -/
def Proc.tag : Proc → String
  | .simple => "exp:S" | .batch => "exp:B" | .batchBlocking => "exp:K" | .batchSmall => "exp:Q"
  | .batchBlockingSmall => "exp:R"

/-! ## id_generator.go: retry loops over the math/rand byte stream -/

/-- `for { Read(id[:]); if id.IsValid() { break } }` reading `n` bytes per attempt;
`fuel` bounds the attempts (the stream is finite here); none = stream exhausted. -/
def readValid (n : Nat) : Nat → Bytes → Option (Bytes × Bytes)
  | 0, _ => none
  | fuel + 1, st =>
    if st.length < n then none
    else if idValid (st.take n) then some (st.take n, st.drop n)
    else readValid n fuel (st.drop n)

/-- `randomIDGenerator.NewIDs` -/
def genNewIDs (st : Bytes) : Option (Bytes × Bytes × Bytes) :=
  match readValid 16 (st.length + 1) st with
  | none => none
  | some (tid, st1) =>
    match readValid 8 (st1.length + 1) st1 with
    | none => none
    | some (sid, st2) => some (tid, sid, st2)

/-- `randomIDGenerator.NewSpanID` -/
def genNewSpanID (st : Bytes) : Option (Bytes × Bytes) := readValid 8 (st.length + 1) st

/-- a script of generator calls: `true` = NewIDs, `false` = NewSpanID; returns the ids in order and the
unread rest of the stream -/
def genRun : List Bool → Bytes → Option (List Bytes × Bytes)
  | [], st => some ([], st)
  | true :: ops, st =>
    match genNewIDs st with
    | none => none
    | some (tid, sid, st') => (genRun ops st').map (fun (r, rest) => (tid :: sid :: r, rest))
  | false :: ops, st =>
    match genNewSpanID st with
    | none => none
    | some (sid, st') => (genRun ops st').map (fun (r, rest) => (sid :: r, rest))

/-! ## sampler_env.go -/

def isAsciiSpace (b : UInt8) : Bool := b == 32 || (9 ≤ b && b ≤ 13)
def asciiLower (b : UInt8) : UInt8 := if 65 ≤ b && b ≤ 90 then b + 32 else b
/-- `strings.TrimSpace` on ASCII input -/
def trimSpace (s : Bytes) : Bytes := ((s.dropWhile isAsciiSpace).reverse.dropWhile isAsciiSpace).reverse
/-- `strings.ToLower(strings.TrimSpace(s))` on ASCII input -/
def normName (s : Bytes) : Bytes := (trimSpace s).map asciiLower

/-- bytes of an ASCII string literal (kernel-reducible, unlike `String.toUTF8`) -/
def str (s : String) : Bytes := s.toList.map (fun c => UInt8.ofNat c.toNat)

/-- result of `strconv.ParseFloat(strings.TrimSpace(arg), 64)`: a parameter of the model -/
inductive PF where | err | val (bits : UInt64)
deriving DecidableEq, Repr, Inhabited

inductive EnvErr where | ok | unsupported | parse | negative | gt1
deriving DecidableEq, Repr, Inhabited

/-- Go `v < 0.0` -/
def ltZero (b : UInt64) : Bool := !isNaN b && fSign b == 1 && !(fExp b == 0 && fFrac b == 0)
/-- Go `v > 1.0` -/
def gtOne (b : UInt64) : Bool := !isNaN b && fSign b == 0 && (fExp b > 1023 || (fExp b == 1023 && fFrac b != 0))

def onePointZero : UInt64 := 0x3FF0000000000000

/-- `parseTraceIDRatio` -/
def parseTraceIDRatio (pf : PF) (nan : Nat) : Sampler × EnvErr :=
  match pf with
  | .err => (traceIDRatioBased onePointZero nan, .parse)
  | .val v =>
    if ltZero v then (traceIDRatioBased onePointZero nan, .negative)
    else if gtOne v then (traceIDRatioBased onePointZero nan, .gt1)
    else (traceIDRatioBased v nan, .ok)

/-- `samplerFromEnv`: `name`/`hasArg` from `os.LookupEnv` -/
def samplerFromEnv (name : Option Bytes) (hasArg : Bool) (pf : PF) (nan : Nat) : Option Sampler × EnvErr :=
  match name with
  | none => (none, .ok)
  | some raw =>
    let n := normName raw
    if n == str "always_on" then (some .always, .ok)
    else if n == str "always_off" then (some .never, .ok)
    else if n == str "traceidratio" then
      if !hasArg then (some (traceIDRatioBased onePointZero nan), .ok)
      else let (s, e) := parseTraceIDRatio pf nan; (some s, e)
    else if n == str "parentbased_always_on" then (some (parentBasedDefault .always), .ok)
    else if n == str "parentbased_always_off" then (some (parentBasedDefault .never), .ok)
    else if n == str "parentbased_traceidratio" then
      if !hasArg then (some (parentBasedDefault (traceIDRatioBased onePointZero nan)), .ok)
      else let (s, e) := parseTraceIDRatio pf nan; (some (parentBasedDefault s), e)
    else (none, .unsupported)


/-! ## provider.go: which sampler a TracerProvider ends up with

`NewTracerProvider(opts...)`: `applyTracerProviderEnvConfigs` first — `samplerFromEnv()`; an error is handed to
`otel.Handle`; a non-nil sampler is applied through `WithSampler` — then the caller's options in order
(`WithSampler(s)`: `if s != nil { cfg.sampler = s }`), then `ensureValidTracerProviderConfig`:
`if cfg.sampler == nil { cfg.sampler = ParentBased(AlwaysSample()) }`. -/

/-- `WithSampler(s).apply(cfg)` on the sampler field -/
def withSampler (cfg : Option Sampler) (s : Option Sampler) : Option Sampler :=
  match s with
  | some x => some x
  | none => cfg

/-- the sampler of `NewTracerProvider(WithSampler(o₁), …, WithSampler(oₙ))` under the environment `env` (the result of
`samplerFromEnv`), and whether an error was handed to the global error handler -/
def providerSampler (env : Option Sampler × EnvErr) (opts : List (Option Sampler)) : Sampler × Bool :=
  let fromEnv := withSampler none env.1
  ((opts.foldl withSampler fromEnv).getD (parentBasedDefault .always), env.2 != .ok)

/-! ## tracer.go: what the sampler is shown of the start configuration, and what it contributes to the span

`newSpan` hands the sampler `SamplingParameters{Name, Kind: config.SpanKind(), Attributes: config.Attributes(),
Links: config.Links()}` — the RAW kind. `newRecordingSpan` stores `trace.ValidateSpanKind(config.SpanKind())`
(unspecified and out-of-range kinds become Internal) and calls `s.SetAttributes(sr.Attributes...)` and THEN
`s.SetAttributes(config.Attributes()...)`: on a key both set, the start option's value wins, at the position of the
sampler's attribute (de-duplication keeps the first position and the last value). Keys are small numbers, values
integers (no limit is reached, nothing is truncated: that is C04's business). -/

abbrev AttrKV := Nat × Int

/-- `trace.ValidateSpanKind` on the numeric kind (Internal = 1 … Consumer = 5) -/
def validateKind (k : Nat) : Nat := if 1 ≤ k ∧ k ≤ 5 then k else 1

/-- one iteration of the span's read-time de-duplication (first position, last value) -/
def upsertKV : List AttrKV → AttrKV → List AttrKV
  | [], a => [a]
  | b :: tl, a => if b.1 = a.1 then a :: tl else b :: upsertKV tl a

/-- the attributes a reader of the started span sees -/
def startAttrs (samplerAttrs cfgAttrs : List AttrKV) : List AttrKV := (samplerAttrs ++ cfgAttrs).foldl upsertKV []

structure SPOut where
  seenName : Bytes
  seenKind : Nat
  seenAttrs : List AttrKV
  seenLinks : Nat
  recording : Bool
  spanKind : Nat
  attrs : List AttrKV      -- [] when not recording
deriving DecidableEq, Repr

def startParams (kind : Nat) (name : Bytes) (cfgAttrs : List AttrKV) (nLinks : Nat) (dec : Nat)
    (samplerAttrs : List AttrKV) : SPOut :=
  { seenName := name, seenKind := kind, seenAttrs := cfgAttrs, seenLinks := nLinks,
    recording := isRecording dec,
    spanKind := if isRecording dec then validateKind kind else 0,
    attrs := if isRecording dec then startAttrs samplerAttrs cfgAttrs else [] }

end Otel.C09
