/-
C09 — `Sampler.Description()` of the stock samplers (sampling.go): API-visible text (TracerProvider debug output, tests
compare it). Strings are `List Char`. `TraceIDRatioBased{%g}`: the `%g` rendering of the fraction is a PARAMETER (the
harness passes `strconv.FormatFloat(f, 'g', -1, 64)`, which is what `fmt`'s `%g` prints); what the model decides is
WHICH text is printed: `fraction >= 1` gives `AlwaysSample()` (so "AlwaysOnSampler"), `fraction <= 0` is replaced by 0
(so "TraceIDRatioBased{0}"), otherwise the rendering of the fraction as given.
-/
import Otel.C09.Model
namespace Otel.C09
open Otel

/-- a stock sampler as its description sees it -/
inductive DS where
  | always
  | never
  | ratio (g : List Char)
  | pb (root rs rns ls lns : DS)
deriving DecidableEq, Repr

def litA : List Char := ['A', 'l', 'w', 'a', 'y', 's', 'O', 'n', 'S', 'a', 'm', 'p', 'l', 'e', 'r']
def litN : List Char := ['A', 'l', 'w', 'a', 'y', 's', 'O', 'f', 'f', 'S', 'a', 'm', 'p', 'l', 'e', 'r']
def litR : List Char := ['T', 'r', 'a', 'c', 'e', 'I', 'D', 'R', 'a', 't', 'i', 'o', 'B', 'a', 's', 'e', 'd', '{']
def litP0 : List Char := ['P', 'a', 'r', 'e', 'n', 't', 'B', 'a', 's', 'e', 'd', '{', 'r', 'o', 'o', 't', ':']
def litP1 : List Char := [',', 'r', 'e', 'm', 'o', 't', 'e', 'P', 'a', 'r', 'e', 'n', 't', 'S', 'a', 'm', 'p', 'l', 'e', 'd', ':']
def litP2 : List Char := [',', 'r', 'e', 'm', 'o', 't', 'e', 'P', 'a', 'r', 'e', 'n', 't', 'N', 'o', 't', 'S', 'a', 'm', 'p', 'l', 'e', 'd', ':']
def litP3 : List Char := [',', 'l', 'o', 'c', 'a', 'l', 'P', 'a', 'r', 'e', 'n', 't', 'S', 'a', 'm', 'p', 'l', 'e', 'd', ':']
def litP4 : List Char := [',', 'l', 'o', 'c', 'a', 'l', 'P', 'a', 'r', 'e', 'n', 't', 'N', 'o', 't', 'S', 'a', 'm', 'p', 'l', 'e', 'd', ':']

def describe : DS → List Char
  | .always => litA
  | .never => litN
  | .ratio g => litR ++ (g ++ ['}'])
  | .pb r a b c d =>
    litP0 ++ (describe r ++ (litP1 ++ (describe a ++ (litP2 ++ (describe b ++ (litP3 ++ (describe c ++
      (litP4 ++ (describe d ++ ['}'])))))))))

/-- `%g` never prints a closing brace -/
def DS.wf : DS → Bool
  | .always | .never => true
  | .ratio g => !g.contains '}'
  | .pb r a b c d => r.wf && a.wf && b.wf && c.wf && d.wf

/-- `TraceIDRatioBased(fraction)` as seen by Description(); `g` = the `%g` rendering of `fraction` -/
def ratioDS (bits : UInt64) (g : List Char) : DS :=
  if geOne bits then .always else if leZero bits then .ratio ['0'] else .ratio g

/-- the description view of a sampler expression built through the public constructors; `g` renders each ratio leaf -/
def dsOf (g : UInt64 → List Char) : SExpr → Option DS
  | .always => some .always
  | .never => some .never
  | .ratio bits => some (ratioDS bits (g bits))
  | .custom => none
  | .pb r a b c d => do pure (.pb (← dsOf g r) (← dsOf g a) (← dsOf g b) (← dsOf g c) (← dsOf g d))

end Otel.C09
