/-
C09 driver: one verdict per trace line (see harness/wb/sdk/trace/zz_verif_c09_*_test.go for the formats).

  ratio <gen> f<bits> <nanconv> x<tid> => <decision>
  tree  <gen> <S|B> <nanconv> <sampler expr> <none|ctx> <ext tid> <ext sid> <flags> <ts> <remote>
        | <pidx> <newroot> <genTid> <genSid> <dec> <ts|P> | …
        => <tid> <sid> <flags> <ts> <remote> <rec> <T|S> <ansDec> <ansTs> <seenTid> <ptid> <psid> <pflags> <pts> <premote> | … | exp:S <sid/tid/ptid/psid> … | exp:B … | exp:K … | exp:Q … | exp:R …
  ids   <gen> x<stream> <ops T/S…> => x<id>,x<id>,…
  env   <gen> <x<name>|-> <hasArg> <err|f<bits>> <nanconv> => <sampler struct|-> <errclass>
-/
import Otel.C09.Spec
import Otel.C09.Desc
open Otel Otel.Wire Otel.C09

namespace Otel.C09.Drv

def hexNat (cs : List Char) : Option Nat :=
  cs.foldlM (fun acc c => (hexVal c).map (fun v => acc * 16 + v)) 0

/-- `f<16 hex digits>` -/
def parseF (s : String) : Option UInt64 :=
  match s.toList with
  | 'f' :: rest => if rest.length == 16 then (hexNat rest).map UInt64.ofNat else none
  | _ => none

def parseBool (s : String) : Option Bool :=
  if s == "1" then some true else if s == "0" then some false else none

def parseId (n : Nat) (s : String) : Option Bytes :=
  match parseHex s with
  | some b => if b.length == n then some b else none
  | none => none

def parseSExpr : Nat → List String → Option (SExpr × List String)
  | 0, _ => none
  | _, [] => none
  | fuel + 1, t :: rest =>
    if t == "A" then some (.always, rest)
    else if t == "N" then some (.never, rest)
    else if t == "C" then some (.custom, rest)
    else if t == "P" then do
      let (a, r1) ← parseSExpr fuel rest
      let (b, r2) ← parseSExpr fuel r1
      let (c, r3) ← parseSExpr fuel r2
      let (d, r4) ← parseSExpr fuel r3
      let (e, r5) ← parseSExpr fuel r4
      pure (.pb a b c d e, r5)
    else match t.toList with
      | 'R' :: h => if h.length == 16 then (hexNat h).map (fun v => (.ratio (UInt64.ofNat v), rest)) else none
      | _ => none

def parseSampler (s : String) : Option SExpr :=
  -- `D`: the provider's default sampler (ensureValidTracerProviderConfig): ParentBased(AlwaysSample())
  if s == "D" then some (.pb .always .always .never .always .never) else
  match parseSExpr 64 (s.splitOn ",") with
  | some (e, []) => some e
  | _ => none

/-- white-box structure of a sampler as printed by the harness -/
def renderSampler : Sampler → String
  | .always => "A"
  | .never => "N"
  | .ratioB b => s!"B{b}"
  | .custom => "C"
  | .parentBased a b c d e =>
    s!"P,{renderSampler a},{renderSampler b},{renderSampler c},{renderSampler d},{renderSampler e}"

def parseStruct : Nat → List String → Option (Sampler × List String)
  | 0, _ => none
  | _, [] => none
  | fuel + 1, t :: rest =>
    if t == "A" then some (.always, rest)
    else if t == "N" then some (.never, rest)
    else if t == "C" then some (.custom, rest)
    else if t == "P" then do
      let (a, r1) ← parseStruct fuel rest
      let (b, r2) ← parseStruct fuel r1
      let (c, r3) ← parseStruct fuel r2
      let (d, r4) ← parseStruct fuel r3
      let (e, r5) ← parseStruct fuel r4
      pure (.parentBased a b c d e, r5)
    else match t.toList with
      | 'B' :: d => (String.ofList d).toNat?.map (fun v => (.ratioB v, rest))
      | _ => none

def splitGroups (toks : List String) : List (List String) :=
  let rec go : List String → List String → List (List String)
    | [], cur => [cur.reverse]
    | t :: rest, cur => if t == "|" then cur.reverse :: go rest [] else go rest (t :: cur)
  go toks []

def parseCtx : List String → Option Ctx
  | [tid, sid, fl, ts, rem] => do
    let t ← parseId 16 tid
    let s ← parseId 8 sid
    let f ← parseNat fl
    if f ≥ 256 then none
    let tsb ← parseHex ts
    let r ← parseBool rem
    pure ⟨t, s, f, tsb, r⟩
  | _ => none

def parseNode : List String → Option NodeIn
  | [pidx, nr, gt, gs, dec, ts] => do
    let p ← parseInt pidx
    let n ← parseBool nr
    let t ← parseId 16 gt
    let s ← parseId 8 gs
    let d ← parseNat dec
    let tsv ← if ts == "P" then some none else (parseHex ts).map some
    pure ⟨p, n, t, s, ⟨d, tsv⟩⟩
  | _ => none

def parseObs : List String → Option Spec.Obs
  | [tid, sid, fl, ts, rem, rec, call, ad, ats, stid, ptid, psid, pfl, pts, prem] => do
    let c ← parseCtx [tid, sid, fl, ts, rem]
    let r ← parseBool rec
    let cl ← if call == "T" then some GenCall.newIDs else if call == "S" then some GenCall.newSpanID else none
    let d ← parseNat ad
    let a ← parseHex ats
    let st ← parseId 16 stid
    let p ← parseCtx [ptid, psid, pfl, pts, prem]
    pure ⟨c, r, cl, d, a, st, p⟩
  | _ => none

def parseExported (s : String) : Option Exported :=
  match s.splitOn "/" with
  | [a, b, c, d] => do
    let sid ← parseId 8 a
    let tid ← parseId 16 b
    let ptid ← parseId 16 c
    let psid ← parseId 8 d
    pure ⟨sid, tid, ptid, psid⟩
  | _ => none

open Otel.C09.Spec (obsOf)

def b01 (b : Bool) : String := if b then "1" else "0"

def renderCtx (c : Ctx) : String := s!"{hexOf c.tid} {hexOf c.sid} {c.flags} {hexOf c.ts} {b01 c.remote}"

def renderObs (o : Spec.Obs) : String :=
  s!"{renderCtx o.ctx} {b01 o.recording} {if o.call == GenCall.newIDs then "T" else "S"} {o.ansDec} {hexOf o.ansTs} {hexOf o.seenTid} {renderCtx o.seenP}"

def renderExported (e : Exported) : String := s!"{hexOf e.sid}/{hexOf e.tid}/{hexOf e.ptid}/{hexOf e.psid}"

def dedup (xs : List String) : List String := xs.foldl (fun acc x => if acc.contains x then acc else acc ++ [x]) []

def errName : EnvErr → String
  | .ok => "ok" | .unsupported => "unsupported" | .parse => "parse" | .negative => "negative" | .gt1 => "gt1"

def parseErr (s : String) : Option EnvErr :=
  [EnvErr.ok, .unsupported, .parse, .negative, .gt1].find? (fun e => errName e == s)

/-- `desc` line: prefix encoding of a stock sampler: `A` · `N` · `R <ftok> <hex %g text>` · `P` + five sub-expressions -/
def parseDS : Nat → List String → Option (DS × List String)
  | 0, _ => none
  | _, [] => none
  | fuel + 1, t :: rest =>
    if t == "A" then some (.always, rest)
    else if t == "N" then some (.never, rest)
    else if t == "R" then
      match rest with
      | f :: g :: rest' => do
        let bits ← parseF f
        let gb ← parseHex g
        pure (ratioDS bits (gb.map fun b => Char.ofNat b.toNat), rest')
      | _ => none
    else if t == "P" then do
      let (a, r1) ← parseDS fuel rest
      let (b, r2) ← parseDS fuel r1
      let (c, r3) ← parseDS fuel r2
      let (d, r4) ← parseDS fuel r3
      let (e, r5) ← parseDS fuel r4
      pure (.pb a b c d e, r5)
    else none

def dsDepth : DS → Nat
  | .pb a b c d e => 1 + max (dsDepth a) (max (dsDepth b) (max (dsDepth c) (max (dsDepth d) (dsDepth e))))
  | _ => 0

def stepLine (_ : Unit) (toks : List String) : Unit × Option Verdict :=
  let (inp, obs) := splitObs toks
  let r : Option Verdict :=
    match inp with
    | ["ratio", _, f, nanc, tid] => do
      let bits ← parseF f
      let nc ← parseNat nanc
      let t ← parseId 16 tid
      let od ← match obs with | [d] => parseNat d | _ => none
      let s := traceIDRatioBased bits nc
      let (d, _, br) := shouldSample s default Ctx.zero t
      let spec := if Spec.nan bits then "na" else if od == (if Spec.ratioRef bits (Spec.tidLow63 t) then 2 else 0) then "ok" else "FAIL"
      let kind := if isNaN bits then "nan" else if geOne bits then "ge1" else if leZero bits then "le0" else "frac"
      pure { agree := d == od, spec := spec, nontrivial := kind == "frac", branches := s!"{kind},{br}", model := toString d }
    | "tree" :: _ :: proc :: nanc :: samp :: kind :: rest => do
      -- S/B: lines of older corpora; A: all stock processor configurations side by side (always what is run)
      if proc != "S" && proc != "B" && proc != "A" then none
      let nc ← parseNat nanc
      let e ← parseSampler samp
      let groups := splitGroups rest
      let ext ← parseCtx groups.head!
      if kind == "none" && ext != Ctx.zero then none
      if kind != "none" && kind != "ctx" then none
      let nodes ← (groups.drop 1).mapM parseNode
      let ogroups := splitGroups obs
      let np := Proc.all.length
      if ogroups.length < np then none
      let oNodes ← (ogroups.take (ogroups.length - np)).mapM parseObs
      -- one group per exporter, in the fixed order of `Proc.all`, each tagged
      let oExps ← ((ogroups.drop (ogroups.length - np)).zip Proc.all).mapM (fun (g, p) =>
        match g with
        | t :: es => if t == p.tag then (es.mapM parseExported).map (fun x => (p, x)) else none
        | [] => none)
      let outs := runTree (build nc e) ext nodes []
      let mObs := outs.map obsOf
      let agree := mObs == oNodes && oExps.all (fun (p, x) => exportedBy p outs == x)
      -- the oracle: every exporter, whatever processor feeds it, holds exactly the sampled spans
      let spec := Spec.treeOK e ext nodes oNodes && oExps.all (fun (_, x) => Spec.exportOK ext nodes oNodes x)
      let mExp := exportedOf outs
      let recOnly := outs.any (fun o => o.recording && !o.ctx.sampled)
      let brs := dedup ((outs.flatMap (fun o => o.branch.splitOn ",")) ++
        [if mExp.isEmpty then "noexport" else "export", if recOnly then "recordonly" else "norecordonly", "proc" ++ proc])
      let nontriv := nodes.length > 0
      pure { agree := agree, spec := if spec then "ok" else "FAIL", nontrivial := nontriv,
             branches := ",".intercalate brs,
             model := " | ".intercalate (mObs.map renderObs ++
               Proc.all.map (fun p => " ".intercalate (p.tag :: (exportedBy p outs).map renderExported))) }
    | ["ids", _, stream, ops] => do
      let st ← parseHex stream
      let os ← ops.toList.mapM (fun c => if c == 'T' then some true else if c == 'S' then some false else none)
      let oids ← match obs with
        | [l] => (l.splitOn ",").mapM parseHex
        | _ => none
      let m := (genRun os st).map (·.1)
      let retried : Bool := match genRun os st with
        | some (ids, rest) => decide (st.length - rest.length > (ids.map List.length).sum)
        | none => false
      pure { agree := m == some oids, spec := if Spec.genOK os st oids then "ok" else "FAIL",
             nontrivial := true, branches := if m.isNone then "exhausted" else if retried then "retry" else "straight",
             model := match m with | some ids => ",".intercalate (ids.map hexOf) | none => "exhausted" }
    | ["uniq", _, cnt] => do
      let _ ← parseNat cnt
      let (d, z) ← match obs with
        | [d, z] => do pure ((← parseNat d), (← parseNat z))
        | _ => none
      -- observation only: no duplicate span id, no zero id among the generated ones
      let good := d == 0 && z == 0
      pure { agree := good, spec := if good then "ok" else "FAIL", nontrivial := true, branches := "uniq", model := "0 0" }
    | ["uniq2", _, np, ng, per] => do
      let _ ← parseNat np; let _ ← parseNat ng; let _ ← parseNat per
      let (d, z, p) ← match obs with
        | [d, z, p] => do pure ((← parseNat d), (← parseNat z), (← parseBool p))
        | _ => none
      -- observation only: through the API, several providers x goroutines: no duplicate span id, every context valid,
      -- children keep the trace id; and the SDK does NOT de-duplicate: a custom generator's repeated id comes through
      let good := d == 0 && z == 0 && p
      pure { agree := good, spec := if good then "ok" else "FAIL", nontrivial := true, branches := "uniq-api,repeat-passthrough",
             model := "0 0 1" }
    | ["env", _, name, ha, pf, nanc] => do
      let nm ← if name == "-" then some none else (parseHex name).map some
      let h ← parseBool ha
      let p ← if pf == "err" then some PF.err else (parseF pf).map PF.val
      let nc ← parseNat nanc
      let (os, oe) ← match obs with
        | [s, e] => do
          let e' ← parseErr e
          let s' ← if s == "-" then some none else
            match parseStruct 64 (s.splitOn ",") with
            | some (x, []) => some (some x)
            | _ => none
          pure (s', e')
        | _ => none
      let m := samplerFromEnv nm h p nc
      pure { agree := m == (os, oe), spec := if Spec.envOK nm h p nc (os, oe) then "ok" else "FAIL",
             nontrivial := nm.isSome, branches := errName m.2 ++ (match m.1 with | some s => "," ++ (renderSampler s).take 1 | none => ",nil"),
             model := (match m.1 with | some s => renderSampler s | none => "-") ++ " " ++ errName m.2 }
    | ["prov", _, name, ha, pf, nanc, optTok] => do
      let nm ← if name == "-" then some none else (parseHex name).map some
      let h ← parseBool ha
      let p ← if pf == "err" then some PF.err else (parseF pf).map PF.val
      let nc ← parseNat nanc
      let parseOpt (t : String) : Option (Option Sampler) :=
        if t == "nil" then some none
        else if t == "A" then some (some .always)
        else if t == "N" then some (some .never)
        else if t == "PA" then some (some (parentBasedDefault .always))
        else if t == "PN" then some (some (parentBasedDefault .never))
        else if t.startsWith "PR" then (parseF ((t.drop 2).toString)).map fun b => some (parentBasedDefault (traceIDRatioBased b nc))
        else if t.startsWith "R" then (parseF ((t.drop 1).toString)).map fun b => some (traceIDRatioBased b nc)
        else none
      let opts ← if optTok == "-" then some [] else (optTok.splitOn ";").mapM parseOpt
      let (os, oh) ← match obs with
        | [s, e] => do
          let s' ← match parseStruct 64 (s.splitOn ",") with
            | some (x, []) => some x
            | _ => none
          pure (s', ← parseBool e)
        | _ => none
      let env := samplerFromEnv nm h p nc
      let m := providerSampler env opts
      -- the oracle resolves the environment through the independent table (Spec.envRef), not through the model
      let (re, rerr) := Spec.envRef nm h p
      let envRef : Option Sampler × EnvErr := (re.map (Spec.shape nc), rerr)
      let lastSome := (opts.reverse.find? (·.isSome)).isSome
      pure { agree := m == (os, oh), spec := if Spec.providerOK envRef opts (os, oh) then "ok" else "FAIL",
             nontrivial := nm.isSome || !opts.isEmpty,
             branches := (if lastSome then "option" else if env.1.isSome then "env" else "default") ++
                         (if opts.contains none then ",nil-option" else "") ++ (if m.2 then ",env-error" else "") ++
                         (if lastSome && env.1.isSome then ",option-over-env" else ""),
             model := renderSampler m.1 ++ " " ++ (if m.2 then "1" else "0") }
    | ["sparams", _, kind, name, cfgT, nl, dec, saT] => do
      let parseAttrs (t : String) : Option (List (Nat × Int)) :=
        if t == "-" then some [] else (t.splitOn ";").mapM fun e =>
          match e.splitOn "=" with
          | [k, v] => do pure (← k.toNat?, ← v.toInt?)
          | _ => none
      let k ← parseNat kind
      let nm ← parseHex name
      let cfg ← parseAttrs cfgT
      let n ← parseNat nl
      let d ← parseNat dec
      let sa ← parseAttrs saT
      let (sn, sk, sat, sl, rec, spk, att) ← match obs with
        | [a, b, c, e, f, g, h] => do
          pure (← parseHex a, ← parseNat b, ← parseAttrs c, ← parseNat e, ← parseBool f, ← parseNat g, ← parseAttrs h)
        | _ => none
      let m := startParams k nm cfg n d sa
      let o : SPOut := ⟨sn, sk, sat, sl, rec, spk, att⟩
      let overlap := sa.any fun a => cfg.any (·.1 == a.1)
      pure { agree := m == o, spec := if Spec.startParamsOK k nm cfg n d sa sn sk sat sl rec spk att then "ok" else "FAIL",
             nontrivial := !cfg.isEmpty || !sa.isEmpty || k != 0,
             branches := (if m.recording then "recording" else "dropped") ++ (if overlap then ",key-overlap" else "") ++
                         (if k == 0 || k > 5 then ",kind-invalid" else ",kind-valid") ++ (if n > 0 then ",links" else "") ++
                         (if sa.isEmpty then "" else ",sampler-attrs"),
             model := "=" }
    | "desc" :: _ :: toks => do
      let (d, rest) ← parseDS 64 toks
      if !rest.isEmpty then none
      let o ← match obs with | [x] => parseHex x | _ => none
      let want := (describe d).map fun c => UInt8.ofNat c.toNat
      let ok := o == want
      let hasRatio := toks.contains "R"
      pure { agree := ok, spec := if ok && d.wf then "ok" else "FAIL", nontrivial := dsDepth d ≥ 1 || hasRatio,
             branches := s!"depth{dsDepth d}" ++ (if hasRatio then ",ratio" else "") ++
               (match d with | .pb _ a b c e => (if a != .always || b != .never || c != .always || e != .never then ",options" else ",defaults") | _ => ""),
             model := hexOf want }
    | _ => none
  ((), r)

end Otel.C09.Drv

def main : IO Unit := Wire.run () Otel.C09.Drv.stepLine
