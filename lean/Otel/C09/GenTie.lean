/-
C09 — generated tie.  `Otel.Gen.C09` is regenerated from /repo's current source by tools/go2lean on every run of
bin/check (checks/gentie.json); the theorems below are re-checked against the regenerated text.
Sites: `parentBased.ShouldSample` (sdk/trace/sampling.go) as a skeleton over psc.IsValid()/IsRemote()/IsSampled()
whose leaves name the delegate sampler; `samplerFromEnv` (sdk/trace/sampler_env.go) as a skeleton over the
(lower-cased, trimmed) OTEL_TRACES_SAMPLER value and the presence of OTEL_TRACES_SAMPLER_ARG.
They are tied to the model's `shouldSample (.parentBased …)`, `samplerFromEnv` and to the specification's `table`.
Also the three leaf samplers: `traceIDRatioSampler.ShouldSample` (skeleton over `x < ts.traceIDUpperBound`, with the
definition of `x` pinned as an effect), `alwaysOnSampler` / `alwaysOffSampler.ShouldSample`; leaves = the returned
Decision and where the Tracestate comes from.  Tied to `shouldSample .always / .never / (.ratioB bound)`.
-/
import Otel.Gen.C09
import Otel.C09.Spec

namespace Otel.C09.GenTie
open Otel Otel.C09 Otel.C09.Spec

/-! ### parentBased.ShouldSample -/

/-- which of the five configured samplers a tag of the generated skeleton names -/
def pickDelegate (tag : String) (root rs rns ls lns : Sampler) : Sampler :=
  if tag = "remoteParentSampled" then rs
  else if tag = "remoteParentNotSampled" then rns
  else if tag = "localParentSampled" then ls
  else if tag = "localParentNotSampled" then lns
  else root

/-- the delegate table, exhaustively: (valid, remote, sampled) ↦ delegate; on every path `psc` is the span context
of `p.ParentContext` (the definition of `psc` is pinned as the path's only effect) -/
theorem gen_parent_based_table :
    ∀ valid remote sampled : Bool,
      Otel.Gen.C09.parentBasedShouldSample valid remote sampled =
        ((match valid, remote, sampled with
          | false, _, _ => "root"
          | true, true, true => "remoteParentSampled"
          | true, true, false => "remoteParentNotSampled"
          | true, false, true => "localParentSampled"
          | true, false, false => "localParentNotSampled"), ["psc=parent"]) := by
  intro v r s; cases v <;> cases r <;> cases s <;> rfl

/-- `parentBased.ShouldSample` as written today delegates to exactly the sampler the model's
`shouldSample (.parentBased …)` delegates to, for every parent span context -/
theorem gen_parent_based_eq_model (root rs rns ls lns : Sampler) (sc : Script) (psc : Ctx) (tid : Bytes) :
    shouldSample (.parentBased root rs rns ls lns) sc psc tid =
      shouldSample (pickDelegate (Otel.Gen.C09.parentBasedShouldSample psc.valid psc.remote psc.sampled).1
        root rs rns ls lns) sc psc tid := by
  rw [gen_parent_based_table]
  conv => lhs; unfold shouldSample
  cases psc.valid <;> cases psc.remote <;> cases psc.sampled <;> simp [pickDelegate]

/-- an invalid parent (no parent) is always handed to the root sampler; a valid one never is -/
theorem gen_parent_based_root_iff (valid remote sampled : Bool) :
    (Otel.Gen.C09.parentBasedShouldSample valid remote sampled).1 = "root" ↔ valid = false := by
  rw [gen_parent_based_table]
  cases valid <;> cases remote <;> cases sampled <;> decide

/-! ### the leaf samplers -/

/-- the model's decision code of a Go `SamplingDecision` name -/
def decisionOfTag (tag : String) : Nat :=
  if tag = "RecordAndSample,parentTracestate" then dRecordAndSample
  else if tag = "RecordOnly,parentTracestate" then dRecordOnly else dDrop

/-- AlwaysSample / NeverSample as written today: the model's `.always` / `.never` (decision and parent tracestate) -/
theorem gen_always_never_eq_model (sc : Script) (psc : Ctx) (tid : Bytes) :
    (shouldSample .always sc psc tid).1 = decisionOfTag Otel.Gen.C09.alwaysOnShouldSample ∧
    (shouldSample .never sc psc tid).1 = decisionOfTag Otel.Gen.C09.alwaysOffShouldSample ∧
    (shouldSample .always sc psc tid).2.1 = psc.ts ∧ (shouldSample .never sc psc tid).2.1 = psc.ts := by
  refine ⟨by rfl, by rfl, by rfl, by rfl⟩

/-- the ratio sampler: RecordAndSample iff x < bound, else Drop; both keep the parent's tracestate; `x` is the low
63 bits of the big-endian second half of the trace id (the model's `tidField`) -/
theorem gen_ratio_table (x bound : Int) :
    Otel.Gen.C09.ratioShouldSample x bound =
      (if x < bound then "RecordAndSample,parentTracestate" else "Drop,parentTracestate",
       ["psc=parent", "x=BE64(traceID[8:16])>>1"]) := by
  unfold Otel.Gen.C09.ratioShouldSample
  by_cases h : x < bound <;> simp [h] <;> (try omega) <;> (repeat' split) <;> (try simp_all) <;> omega

/-- `traceIDRatioSampler.ShouldSample` as written today is the model's `.ratioB bound` -/
theorem gen_ratio_eq_model (bound : Nat) (sc : Script) (psc : Ctx) (tid : Bytes) :
    (shouldSample (.ratioB bound) sc psc tid).1 =
      decisionOfTag (Otel.Gen.C09.ratioShouldSample (tidField tid : Int) (bound : Int)).1 ∧
    (shouldSample (.ratioB bound) sc psc tid).2.1 = psc.ts := by
  rw [gen_ratio_table]
  unfold shouldSample
  by_cases h : tidField tid < bound
  · have h' : (tidField tid : Int) < (bound : Int) := by omega
    simp [h, h', decisionOfTag]
  · have h' : ¬ (tidField tid : Int) < (bound : Int) := by omega
    simp [h, h', decisionOfTag]

/-! ### samplerFromEnv -/

/-- the sampler names `samplerFromEnv` recognises are exactly the names of the specification's table -/
theorem gen_env_supported_iff (hasArg : Bool) (s : String) :
    Otel.Gen.C09.samplerFromEnv true hasArg s ≠ "unsupported" ↔ s ∈ table.map (·.1) := by
  unfold Otel.Gen.C09.samplerFromEnv table
  cases hasArg <;> simp <;> (repeat' split) <;> simp_all

/-- an unset OTEL_TRACES_SAMPLER yields no sampler and no error, whatever else is set -/
theorem gen_env_unset (hasArg : Bool) (s : String) :
    Otel.Gen.C09.samplerFromEnv false hasArg s = "unset" := by
  unfold Otel.Gen.C09.samplerFromEnv; simp

/-- what each arm of `samplerFromEnv` returns, in terms of the model (`pf` = result of ParseFloat on the argument) -/
def interpEnv (tag : String) (pf : PF) (nan : Nat) : Option Sampler × EnvErr :=
  if tag = "unset" then (none, .ok)
  else if tag = "AlwaysSample" then (some .always, .ok)
  else if tag = "NeverSample" then (some .never, .ok)
  else if tag = "TraceIDRatioBased(1.0)" then (some (traceIDRatioBased onePointZero nan), .ok)
  else if tag = "parseTraceIDRatio" then (some (parseTraceIDRatio pf nan).1, (parseTraceIDRatio pf nan).2)
  else if tag = "ParentBased(AlwaysSample)" then (some (parentBasedDefault .always), .ok)
  else if tag = "ParentBased(NeverSample)" then (some (parentBasedDefault .never), .ok)
  else if tag = "ParentBased(TraceIDRatioBased(1.0))" then (some (parentBasedDefault (traceIDRatioBased onePointZero nan)), .ok)
  else if tag = "ParentBased(parseTraceIDRatio)" then
    (some (parentBasedDefault (parseTraceIDRatio pf nan).1), (parseTraceIDRatio pf nan).2)
  else (none, .unsupported)

/-- on every name of the specification's table (already lower-cased and trimmed), with and without an argument,
the model's `samplerFromEnv` returns what the corresponding arm of the Go switch returns today -/
theorem gen_env_eq_model_on_table (hasArg : Bool) (pf : PF) (nan : Nat) :
    ∀ n ∈ table.map (·.1),
      Otel.C09.samplerFromEnv (some (str n)) hasArg pf nan = interpEnv (Otel.Gen.C09.samplerFromEnv true hasArg n) pf nan := by
  intro n hn
  simp [table] at hn
  rcases hn with h | h | h | h | h | h <;> subst h <;> cases hasArg <;> rfl

/-- the unset case of the model -/
theorem gen_env_eq_model_unset (hasArg : Bool) (pf : PF) (nan : Nat) (s : String) :
    Otel.C09.samplerFromEnv none hasArg pf nan = interpEnv (Otel.Gen.C09.samplerFromEnv false hasArg s) pf nan := by
  rw [gen_env_unset]; rfl

/-- the environment variable names read by `samplerFromEnv` -/
theorem gen_env_keys :
    Otel.Gen.C09.tracesSamplerKey = "OTEL_TRACES_SAMPLER" ∧ Otel.Gen.C09.tracesSamplerArgKey = "OTEL_TRACES_SAMPLER_ARG" := by
  decide

/-! ### which sampler a TracerProvider ends up with -/

/-- `NewTracerProvider` resolves its configuration in this order: built-in span limits, environment
(OTEL_TRACES_SAMPLER…), the caller's options, and only then the defaults for what is still unset — so an option
overrides the environment and the environment overrides the default sampler -/
theorem gen_new_tracer_provider_order :
    Otel.Gen.C09.newTracerProviderOrder = ("<cut>", ["o={spanLimits:NewSpanLimits()}", "env", "options", "defaults"]) := by
  decide

/-- `WithSampler(nil)` leaves the configured sampler alone; a non-nil sampler replaces it -/
theorem gen_with_sampler_nil_guard (given : Bool) :
    Otel.Gen.C09.withSampler given = ("cfg", if given then ["sampler=s"] else []) := by
  cases given <;> rfl

/-- the default sampler is `ParentBased(AlwaysSample())` (the model's `parentBasedDefault .always`) and is installed
exactly when no sampler is configured after environment and options -/
theorem gen_default_sampler_iff (noSampler noIDGen noResource : Bool) :
    "sampler=ParentBased(AlwaysSample)" ∈ (Otel.Gen.C09.ensureValidConfig noSampler noIDGen noResource).2 ↔ noSampler = true := by
  cases noSampler <;> cases noIDGen <;> cases noResource <;> decide

end Otel.C09.GenTie
