/-
C09 — the stock samplers' descriptions form a prefix code (helper for Props.description_determines_sampler).
-/
import Otel.C09.Desc
namespace Otel.C09
open Otel

theorem split_unique (c : Char) : ∀ (l1 l2 r1 r2 : List Char), l1.contains c = false → l2.contains c = false →
    l1 ++ c :: r1 = l2 ++ c :: r2 → l1 = l2 ∧ r1 = r2
  | [], [], r1, r2, _, _, h => by simp at h; exact ⟨rfl, h⟩
  | [], b :: l2, r1, r2, _, h2, h => by
    simp only [List.nil_append, List.cons_append, List.cons.injEq] at h
    simp [h.1] at h2
  | a :: l1, [], r1, r2, h1, _, h => by
    simp only [List.nil_append, List.cons_append, List.cons.injEq] at h
    simp [h.1] at h1
  | a :: l1, b :: l2, r1, r2, h1, h2, h => by
    simp only [List.cons_append, List.cons.injEq] at h
    simp only [List.contains_cons, Bool.or_eq_false_iff] at h1 h2
    obtain ⟨e1, e2⟩ := split_unique c l1 l2 r1 r2 h1.2 h2.2 h.2
    exact ⟨by rw [h.1, e1], e2⟩

/-- the descriptions form a prefix code -/
theorem describe_prefix_free : ∀ (a b : DS) (r1 r2 : List Char), a.wf = true → b.wf = true →
    describe a ++ r1 = describe b ++ r2 → a = b ∧ r1 = r2 := by
  intro a
  induction a with
  | always =>
    intro b r1 r2 _ hb h
    cases b with
    | always => simp only [describe] at h; exact ⟨rfl, List.append_cancel_left h⟩
    | never => simp [describe, litA, litN] at h
    | ratio g => simp [describe, litA, litR] at h
    | pb _ _ _ _ _ => simp [describe, litA, litP0] at h
  | never =>
    intro b r1 r2 _ hb h
    cases b with
    | always => simp [describe, litA, litN] at h
    | never => simp only [describe] at h; exact ⟨rfl, List.append_cancel_left h⟩
    | ratio g => simp [describe, litN, litR] at h
    | pb _ _ _ _ _ => simp [describe, litN, litP0] at h
  | ratio g =>
    intro b r1 r2 ha hb h
    cases b with
    | always => simp [describe, litA, litR] at h
    | never => simp [describe, litN, litR] at h
    | ratio g' =>
      simp only [describe, List.append_assoc] at h
      have h' := List.append_cancel_left h
      simp only [List.singleton_append] at h'
      simp only [DS.wf, Bool.not_eq_true'] at ha hb
      obtain ⟨e1, e2⟩ := split_unique '}' g g' r1 r2 ha hb h'
      exact ⟨by rw [e1], e2⟩
    | pb _ _ _ _ _ => simp [describe, litR, litP0] at h
  | pb r a1 a2 a3 a4 ihr ih1 ih2 ih3 ih4 =>
    intro b r1 r2 ha hb h
    cases b with
    | always => simp [describe, litA, litP0] at h
    | never => simp [describe, litN, litP0] at h
    | ratio g => simp [describe, litR, litP0] at h
    | pb r' b1 b2 b3 b4 =>
      simp only [DS.wf, Bool.and_eq_true] at ha hb
      simp only [describe, List.append_assoc] at h
      have h0 := List.append_cancel_left h
      obtain ⟨e0, h0⟩ := ihr r' _ _ ha.1.1.1.1 hb.1.1.1.1 h0
      have h1 := List.append_cancel_left h0
      obtain ⟨e1, h1⟩ := ih1 b1 _ _ ha.1.1.1.2 hb.1.1.1.2 h1
      have h2 := List.append_cancel_left h1
      obtain ⟨e2, h2⟩ := ih2 b2 _ _ ha.1.1.2 hb.1.1.2 h2
      have h3 := List.append_cancel_left h2
      obtain ⟨e3, h3⟩ := ih3 b3 _ _ ha.1.2 hb.1.2 h3
      have h4 := List.append_cancel_left h3
      obtain ⟨e4, h4⟩ := ih4 b4 _ _ ha.2 hb.2 h4
      simp only [List.singleton_append, List.cons.injEq, true_and] at h4
      exact ⟨by rw [e0, e1, e2, e3, e4], h4⟩


end Otel.C09
