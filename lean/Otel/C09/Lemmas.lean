/-
C09 — helper lemmas for Props.lean (core Lean only).
-/
import Otel.C09.Spec
set_option exponentiation.threshold 2100
namespace Otel.C09
open Otel

theorem fields (b : UInt64) :
    b.toNat = fSign b * 2^63 + fExp b * 2^52 + fFrac b ∧ fSign b < 2 ∧ fExp b < 2048 ∧ fFrac b < 2^52 := by
  have := b.toNat_lt
  unfold fSign fExp fFrac; omega

theorem scaled_eq_num (b : UInt64) : scaled b = Spec.num b := by
  unfold scaled Spec.num fMant fExpAdj fExp fFrac
  by_cases h : b.toNat / 2 ^ 52 % 2048 = 0 <;> simp [h]

theorem isNaN_eq (b : UInt64) : isNaN b = Spec.nan b := by
  have := b.toNat_lt
  unfold isNaN Spec.nan fExp fFrac
  rw [Bool.eq_iff_iff]; simp; omega

theorem leZero_eq (b : UInt64) (hn : isNaN b = false) : leZero b = Spec.negOrZero b := by
  have := b.toNat_lt
  unfold leZero; rw [hn]
  unfold Spec.negOrZero fSign fExp fFrac
  rw [Bool.eq_iff_iff]; simp; omega

/-- the numerator in terms of the fields -/
theorem num_fields (b : UInt64) : Spec.num b = if fExp b = 0 then fFrac b * 2 else (2^52 + fFrac b) * 2 ^ fExp b := by
  unfold Spec.num fExp fFrac; rfl

theorem num_lt_of_exp_le (b : UInt64) (h : fExp b ≤ 1022) : Spec.num b < 2 ^ 1075 := by
  rw [num_fields]
  have hf := (fields b).2.2.2
  split
  · calc fFrac b * 2 < 2^52 * 2 := by omega
      _ = 2^53 := by decide
      _ ≤ 2^1075 := Nat.pow_le_pow_right (by decide) (by decide)
  · calc (2^52 + fFrac b) * 2 ^ fExp b < 2^53 * 2 ^ fExp b := by
          apply Nat.mul_lt_mul_of_pos_right (by omega) (Nat.pow_pos (by decide))
      _ ≤ 2^53 * 2^1022 := Nat.mul_le_mul_left _ (Nat.pow_le_pow_right (by decide) h)
      _ = 2^1075 := by rw [← Nat.pow_add]

theorem num_ge_of_exp_ge (b : UInt64) (h : 1023 ≤ fExp b) : 2 ^ 1075 ≤ Spec.num b := by
  rw [num_fields]
  have : fExp b ≠ 0 := by omega
  simp only [this, if_false]
  calc 2^1075 = 2^52 * 2^1023 := by rw [← Nat.pow_add]
    _ ≤ 2^52 * 2 ^ fExp b := Nat.mul_le_mul_left _ (Nat.pow_le_pow_right (by decide) h)
    _ ≤ (2^52 + fFrac b) * 2 ^ fExp b := Nat.mul_le_mul_right _ (by omega)

theorem geOne_eq (b : UInt64) (hn : isNaN b = false) :
    geOne b = (!Spec.negOrZero b && decide (Spec.num b ≥ 2 ^ 1075)) := by
  have hb := b.toNat_lt
  have hf := fields b
  unfold geOne; rw [hn]
  rw [Bool.eq_iff_iff]
  simp only [Bool.not_false, Bool.true_and, Bool.and_eq_true, beq_iff_eq, decide_eq_true_eq, Bool.not_eq_true']
  constructor
  · rintro ⟨hs, he⟩
    refine ⟨?_, num_ge_of_exp_ge b he⟩
    unfold Spec.negOrZero; simp; omega
  · rintro ⟨hz, hnum⟩
    unfold Spec.negOrZero at hz; simp at hz
    refine ⟨by omega, ?_⟩
    by_cases he : fExp b ≤ 1022
    · have := num_lt_of_exp_le b he; omega
    · omega

/-- on non-negative non-NaN patterns the value grows with the bit pattern -/
theorem num_mono (a b : UInt64) (ha : a.toNat < 2 ^ 63) (hab : a.toNat ≤ b.toNat) (hb : b.toNat < 2 ^ 63) :
    Spec.num a ≤ Spec.num b := by
  have fa := fields a
  have fb := fields b
  rw [num_fields, num_fields]
  have hsa : fSign a = 0 := by omega
  have hsb : fSign b = 0 := by omega
  have hle : fExp a < fExp b ∨ (fExp a = fExp b ∧ fFrac a ≤ fFrac b) := by omega
  rcases hle with hlt | ⟨heq, hfr⟩
  · have hb0 : fExp b ≠ 0 := by omega
    simp only [hb0, if_false]
    have h2 : 2 ≤ 2 ^ fExp b := by
      calc 2 = 2 ^ 1 := by decide
        _ ≤ 2 ^ fExp b := Nat.pow_le_pow_right (by decide) (by omega)
    split
    · calc fFrac a * 2 ≤ 2 ^ 52 * 2 := by omega
        _ ≤ 2 ^ 52 * 2 ^ fExp b := Nat.mul_le_mul_left _ h2
        _ ≤ (2 ^ 52 + fFrac b) * 2 ^ fExp b := Nat.mul_le_mul_right _ (by omega)
    · calc (2 ^ 52 + fFrac a) * 2 ^ fExp a ≤ (2 ^ 52 * 2) * 2 ^ fExp a := Nat.mul_le_mul_right _ (by omega)
        _ = 2 ^ 52 * 2 ^ (fExp a + 1) := by
            rw [show 2 ^ (fExp a + 1) = 2 ^ fExp a * 2 from Nat.pow_succ ..]
            generalize 2 ^ fExp a = p; omega
        _ ≤ 2 ^ 52 * 2 ^ fExp b := Nat.mul_le_mul_left _ (Nat.pow_le_pow_right (by decide) (by omega))
        _ ≤ (2 ^ 52 + fFrac b) * 2 ^ fExp b := Nat.mul_le_mul_right _ (by omega)
  · rw [heq]
    split
    · omega
    · exact Nat.mul_le_mul_right _ (by omega)

theorem ratioB_dec (b : Nat) (sc : Script) (psc : Ctx) (tid : Bytes) :
    (shouldSample (.ratioB b) sc psc tid).1 = if tidField tid < b then dRecordAndSample else dDrop := by
  unfold shouldSample; split <;> rfl

/-- decision of the ratio sampler as a Bool -/
def ratioSampled (bits : UInt64) (nan : Nat) (tid : Bytes) : Bool :=
  (shouldSample (traceIDRatioBased bits nan) default Ctx.zero tid).1 == dRecordAndSample

theorem ratio_decision (bits : UInt64) (nan : Nat) (sc : Script) (psc : Ctx) (tid : Bytes) (hn : isNaN bits = false) :
    (shouldSample (traceIDRatioBased bits nan) sc psc tid).1 =
      if Spec.ratioRef bits (tidField tid) then dRecordAndSample else dDrop := by
  unfold traceIDRatioBased Spec.ratioRef
  rw [geOne_eq bits hn, leZero_eq bits hn, hn]
  by_cases hz : Spec.negOrZero bits = true
  · simp [hz, shouldSample]
  · simp only [Bool.not_eq_true] at hz
    by_cases hg : Spec.num bits ≥ 2 ^ 1075
    · simp [hz, hg, shouldSample]
    · simp only [hz, hg, Bool.not_false, Bool.true_and, decide_false, Bool.false_eq_true, if_false, shouldSample]
      unfold floorBound
      rw [scaled_eq_num]
      have : (tidField tid < Spec.num bits / 2 ^ 1012) ↔ ((tidField tid + 1) * 2 ^ 1012 ≤ Spec.num bits) := by
        rw [Nat.lt_iff_add_one_le, Nat.le_div_iff_mul_le (Nat.pow_pos (by decide))]
      by_cases hx : tidField tid < Spec.num bits / 2 ^ 1012
      · simp [hx, this.mp hx]
      · have h2 : ¬ ((tidField tid + 1) * 2 ^ 1012 ≤ Spec.num bits) := fun h => hx (this.mpr h)
        simp [hx, h2]

theorem ratioRef_mono (r r' : UInt64)
    (hle : Spec.ieeeLe r r' = true) (x : Nat) (h : Spec.ratioRef r x = true) : Spec.ratioRef r' x = true := by
  have hr := r.toNat_lt
  have hr' := r'.toNat_lt
  unfold Spec.ratioRef at h ⊢
  by_cases hz : Spec.negOrZero r = true
  · simp [hz] at h
  · simp only [hz] at h
    unfold Spec.negOrZero at hz
    simp only [Bool.or_eq_true, decide_eq_true_eq, not_or, Nat.not_le] at hz
    unfold Spec.ieeeLe Spec.key at hle
    simp only [decide_eq_true_eq] at hle
    have hpos : r.toNat ≤ r'.toNat ∧ r'.toNat < 2 ^ 63 := by
      simp only [hz.1, if_true] at hle
      split at hle <;> omega
    have hz' : Spec.negOrZero r' = false := by
      unfold Spec.negOrZero; simp; omega
    have hm := num_mono r r' hz.1 hpos.1 hpos.2
    simp only [hz', Bool.false_eq_true, if_false]
    by_cases hg : Spec.num r ≥ 2 ^ 1075
    · have : Spec.num r' ≥ 2 ^ 1075 := by omega
      simp [this]
    · simp [hg] at h
      by_cases hg' : Spec.num r' ≥ 2 ^ 1075
      · simp [hg']
      · simp only [hg', if_false, decide_eq_true_eq]; omega

/-! ### the 63-bit field -/

theorem beNat_foldl (bs : Bytes) (acc : Nat) :
    bs.foldl (fun acc b => acc * 256 + b.toNat) acc = acc * 256 ^ bs.length + beNat bs := by
  induction bs generalizing acc with
  | nil => simp [beNat]
  | cons b bs ih =>
    unfold beNat
    simp only [List.foldl_cons, List.length_cons]
    rw [ih, ih (0 * 256 + b.toNat), Nat.pow_succ]
    simp only [Nat.zero_mul, Nat.zero_add, Nat.add_mul, Nat.mul_assoc, Nat.mul_comm (256 ^ bs.length) 256, Nat.add_assoc]

theorem beNat_append (a b : Bytes) : beNat (a ++ b) = beNat a * 256 ^ b.length + beNat b := by
  unfold beNat
  rw [List.foldl_append, beNat_foldl]
  rfl

theorem foldl_lt (bs : Bytes) (acc : Nat) :
    bs.foldl (fun acc b => acc * 256 + b.toNat) acc < (acc + 1) * 256 ^ bs.length := by
  induction bs generalizing acc with
  | nil => simp
  | cons b bs ih =>
    simp only [List.foldl_cons, List.length_cons]
    have hb : b.toNat < 256 := b.toNat_lt
    calc _ < (acc * 256 + b.toNat + 1) * 256 ^ bs.length := ih _
      _ ≤ ((acc + 1) * 256) * 256 ^ bs.length := Nat.mul_le_mul_right _ (by omega)
      _ = (acc + 1) * 256 ^ (bs.length + 1) := by rw [Nat.pow_succ, Nat.mul_assoc, Nat.mul_comm 256]

theorem beNat_lt (bs : Bytes) : beNat bs < 256 ^ bs.length := by
  have := foldl_lt bs 0
  simpa [beNat] using this

/-- for a 16-byte trace id the model's field (bytes 8..16, big endian, shifted) is the number the
specification speaks about -/
theorem tidField_eq (tid : Bytes) (h : tid.length = 16) : tidField tid = Spec.tidLow63 tid := by
  unfold tidField Spec.tidLow63
  have hsplit : tid = tid.take 8 ++ tid.drop 8 := (List.take_append_drop 8 tid).symm
  have hlen : (tid.drop 8).length = 8 := by simp [h]
  have htake : (tid.drop 8).take 8 = tid.drop 8 := List.take_of_length_le (by omega)
  rw [htake]
  conv => rhs; rw [hsplit, beNat_append, hlen]
  have hlt := beNat_lt (tid.drop 8)
  rw [hlen] at hlt
  have : (256 : Nat) ^ 8 = 2 ^ 64 := by decide
  rw [this] at hlt ⊢
  rw [Nat.mul_add_mod_self_right, Nat.mod_eq_of_lt hlt]

theorem tidField_lt (tid : Bytes) : tidField tid < 2 ^ 63 := by
  unfold tidField
  have h := beNat_lt ((tid.drop 8).take 8)
  have hl : ((tid.drop 8).take 8).length ≤ 8 := by simp [List.length_take]; omega
  have : (256 : Nat) ^ ((tid.drop 8).take 8).length ≤ 256 ^ 8 := Nat.pow_le_pow_right (by decide) hl
  have h8 : (256 : Nat) ^ 8 = 2 ^ 64 := by decide
  omega

/-! ### counting -/

theorem count_lt (n b : Nat) (h : b ≤ n) : ((List.range n).filter (fun x => decide (x < b))).length = b := by
  induction n with
  | zero => simp at h; simp [h]
  | succ n ih =>
    rw [List.range_succ, List.filter_append, List.length_append]
    by_cases hb : b ≤ n
    · rw [ih hb]; simp; omega
    · have hbn : b = n + 1 := by omega
      have hall : (List.range n).filter (fun x => decide (x < b)) = List.range n := by
        apply List.filter_eq_self.mpr
        intro x hx; have := List.mem_range.mp hx; simp; omega
      rw [hall]; simp [hbn]

theorem floorBound_lt (bits : UInt64) (hg : geOne bits = false) (hn : isNaN bits = false) (hz : leZero bits = false) :
    floorBound bits < 2 ^ 63 := by
  unfold floorBound
  rw [scaled_eq_num]
  rw [geOne_eq bits hn, ← leZero_eq bits hn, hz] at hg
  simp at hg
  rw [Nat.div_lt_iff_lt_mul (Nat.pow_pos (by decide))]
  calc Spec.num bits < 2 ^ 1075 := hg
    _ = 2 ^ 63 * 2 ^ 1012 := by rw [← Nat.pow_add]

/-! ### trace flags -/

set_option maxRecDepth 8192 in
theorem flags_set : ∀ f, f < 256 → (flagsSet f) % 2 = 1 ∧ (flagsSet f) / 2 = f / 2 := by
  unfold flagsSet; decide
set_option maxRecDepth 8192 in
theorem flags_clear : ∀ f, f < 256 → (flagsClear f) % 2 = 0 ∧ (flagsClear f) / 2 = f / 2 := by
  unfold flagsClear; decide

/-! ### id generator -/

theorem zeros_invalid (n : Nat) : idValid (zeros n) = false := by
  unfold idValid zeros
  induction n with
  | zero => rfl
  | succ n ih => simp [List.replicate_succ, ih]

theorem readValid_sound (n fuel : Nat) (st id rest : Bytes) (h : readValid n fuel st = some (id, rest)) :
    idValid id = true ∧ id.length = n ∧ rest.length ≤ st.length := by
  induction fuel generalizing st with
  | zero => simp [readValid] at h
  | succ fuel ih =>
    unfold readValid at h
    split at h
    · simp at h
    · split at h
      · simp at h
        obtain ⟨h1, h2⟩ := h
        subst h1 h2
        refine ⟨by assumption, ?_, ?_⟩
        · simp [List.length_take]; omega
        · simp
      · have := ih _ h
        simp at this
        refine ⟨this.1, this.2.1, ?_⟩; omega

theorem readValid_complete (n : Nat) (k : Nat) (id rest : Bytes) (hl : id.length = n)
    (hv : idValid id = true) (fuel : Nat) (hf : k < fuel) :
    readValid n fuel (zeros (k * n) ++ id ++ rest) = some (id, rest) := by
  induction k generalizing fuel with
  | zero =>
    cases fuel with
    | zero => omega
    | succ fuel =>
      unfold readValid
      simp [zeros, hl, hv]
  | succ k ih =>
    cases fuel with
    | zero => omega
    | succ fuel =>
      have hz : zeros ((k + 1) * n) = zeros n ++ zeros (k * n) := by
        unfold zeros; rw [Nat.succ_mul, Nat.add_comm, List.replicate_append_replicate]
      have hlen : (zeros n).length = n := by simp [zeros]
      unfold readValid
      rw [hz, List.append_assoc, List.append_assoc]
      have ht : List.take n (zeros n ++ (zeros (k * n) ++ (id ++ rest))) = zeros n := by
        rw [List.take_append_of_le_length (by omega), List.take_of_length_le (by omega)]
      have hd : List.drop n (zeros n ++ (zeros (k * n) ++ (id ++ rest))) = zeros (k * n) ++ (id ++ rest) := by
        rw [List.drop_append_of_le_length (by omega), List.drop_of_length_le (by omega)]; rfl
      rw [ht, hd, zeros_invalid]
      have hlt : ¬ (zeros n ++ (zeros (k * n) ++ (id ++ rest))).length < n := by simp [zeros]
      simp only [hlt, if_false, Bool.false_eq_true]
      rw [← List.append_assoc]
      exact ih fuel (by omega)

theorem genRun_valid (ops : List Bool) (st rest : Bytes) (ids : List Bytes) (h : genRun ops st = some (ids, rest)) :
    ∀ id ∈ ids, idValid id = true := by
  induction ops generalizing st ids rest with
  | nil =>
    simp [genRun] at h
    obtain ⟨h1, _⟩ := h
    subst h1; simp
  | cons op ops ih =>
    cases op
    · unfold genRun at h
      split at h
      · simp at h
      · rename_i sid st' h1
        cases h2 : genRun ops st' with
        | none => simp [h2] at h
        | some r =>
          obtain ⟨r, rest'⟩ := r
          simp [h2] at h
          obtain ⟨hh, _⟩ := h
          subst hh
          intro id hid
          simp at hid
          rcases hid with rfl | hid
          · exact (readValid_sound _ _ _ _ _ h1).1
          · exact ih _ _ _ h2 id hid
    · unfold genRun at h
      split at h
      · simp at h
      · rename_i tid sid st' h1
        cases h2 : genRun ops st' with
        | none => simp [h2] at h
        | some r =>
          obtain ⟨r, rest'⟩ := r
          simp [h2] at h
          obtain ⟨hh, _⟩ := h
          subst hh
          unfold genNewIDs at h1
          split at h1
          · simp at h1
          · rename_i tid' st1 h3
            split at h1
            · simp at h1
            · rename_i sid' st2 h4
              simp at h1
              obtain ⟨e1, e2, e3⟩ := h1
              subst e1 e2 e3
              intro id hid
              simp at hid
              rcases hid with rfl | rfl | hid
              · exact (readValid_sound _ _ _ _ _ h3).1
              · exact (readValid_sound _ _ _ _ _ h4).1
              · exact ih _ _ _ h2 id hid

/-! ### environment table -/

theorem forall_u8 (P : UInt8 → Prop) (h : ∀ n : Fin 256, P (UInt8.ofNat n.val)) : ∀ b, P b := by
  intro b
  have := h ⟨b.toNat, b.toNat_lt⟩
  simpa using this

set_option maxRecDepth 8192 in
theorem space_eq : ∀ b : UInt8, isAsciiSpace b = (b == 32 || b == 9 || b == 10 || b == 11 || b == 12 || b == 13) := by
  apply forall_u8
  decide

set_option maxRecDepth 8192 in
theorem lower_eq : ∀ b : UInt8, asciiLower b = (if b ≥ 65 && b ≤ 90 then b + 32 else b) := by
  apply forall_u8
  decide

theorem normName_eq (s : Bytes) : normName s = Spec.lowerTrim s := by
  unfold normName trimSpace Spec.lowerTrim
  have h1 : isAsciiSpace = (fun (b : UInt8) => b == 32 || b == 9 || b == 10 || b == 11 || b == 12 || b == 13) := funext space_eq
  have h2 : asciiLower = (fun (b : UInt8) => if b ≥ 65 && b ≤ 90 then b + 32 else b) := funext lower_eq
  rw [h1, h2]

theorem ratioLeaf_eq (v : UInt64) (nan : Nat) : traceIDRatioBased v nan = Spec.ratioLeaf v nan := by
  unfold traceIDRatioBased Spec.ratioLeaf
  cases hn : isNaN v
  · have hn' : Spec.nan v = false := by rw [← isNaN_eq]; exact hn
    rw [geOne_eq v hn, leZero_eq v hn, hn']
    cases hz : Spec.negOrZero v
    · by_cases hg : Spec.num v ≥ 2 ^ 1075
      · simp [hg]
      · simp [hg, floorBound, scaled_eq_num]
    · simp
  · have hn' : Spec.nan v = true := by rw [← isNaN_eq]; exact hn
    simp [geOne, leZero, hn, hn']

theorem ltZero_eq (v : UInt64) (hn : Spec.nan v = false) : ltZero v = decide (Spec.key v < 0) := by
  have hb := v.toNat_lt
  have hf := fields v
  have hn2 : isNaN v = false := by rw [isNaN_eq]; exact hn
  unfold ltZero Spec.key
  rw [hn2, Bool.eq_iff_iff]
  simp
  split <;> omega

theorem gtOne_eq (v : UInt64) (hn : Spec.nan v = false) : gtOne v = decide (Spec.key v > Spec.key onePointZero) := by
  have hb := v.toNat_lt
  have hf := fields v
  have hn2 : isNaN v = false := by rw [isNaN_eq]; exact hn
  have h1 : Spec.key onePointZero = ((1023 * 2 ^ 52 : Nat) : Int) := by decide
  unfold gtOne
  rw [h1, hn2, Bool.eq_iff_iff]
  unfold Spec.key
  simp
  split <;> omega

/-- the argument handling shared by `traceidratio` and `parentbased_traceidratio` -/
theorem arg_case (hasArg : Bool) (pf : PF) (nan : Nat) (mk : SExpr → SExpr) (wrap : Sampler → Sampler)
    (hw : ∀ r, Spec.shape nan (mk r) = wrap (Spec.shape nan r)) :
    (if (!hasArg) = true then (some (wrap (traceIDRatioBased onePointZero nan)), EnvErr.ok)
      else (some (wrap (parseTraceIDRatio pf nan).1), (parseTraceIDRatio pf nan).2))
    = (((match Spec.argClass hasArg pf with
        | .absent => (some (mk (.ratio onePointZero)), EnvErr.ok)
        | .garbage => (some (mk (.ratio onePointZero)), .parse)
        | .negative => (some (mk (.ratio onePointZero)), .negative)
        | .tooBig => (some (mk (.ratio onePointZero)), .gt1)
        | .ratio v => (some (mk (.ratio v)), .ok)) : Option SExpr × EnvErr).1.map (Spec.shape nan),
       ((match Spec.argClass hasArg pf with
        | .absent => (some (mk (.ratio onePointZero)), EnvErr.ok)
        | .garbage => (some (mk (.ratio onePointZero)), .parse)
        | .negative => (some (mk (.ratio onePointZero)), .negative)
        | .tooBig => (some (mk (.ratio onePointZero)), .gt1)
        | .ratio v => (some (mk (.ratio v)), .ok)) : Option SExpr × EnvErr).2) := by
  cases hasArg
  · simp [Spec.argClass, hw, Spec.shape, ratioLeaf_eq]
  · cases pf with
    | err => simp [Spec.argClass, parseTraceIDRatio, hw, Spec.shape, ratioLeaf_eq]
    | val v =>
      cases hn : Spec.nan v
      · simp only [Spec.argClass, parseTraceIDRatio, ltZero_eq v hn, gtOne_eq v hn, hn]
        by_cases h1 : Spec.key v < 0
        · simp [h1, hw, Spec.shape, ratioLeaf_eq]
        · by_cases h2 : Spec.key v > Spec.key onePointZero
          · simp [h1, h2, hw, Spec.shape, ratioLeaf_eq]
          · simp [h1, h2, hw, Spec.shape, ratioLeaf_eq]
      · have hn2 : isNaN v = true := by rw [isNaN_eq]; exact hn
        simp [Spec.argClass, parseTraceIDRatio, ltZero, gtOne, hn, hn2, hw, Spec.shape, ratioLeaf_eq]


/-! ### sampler answers, export -/

theorem sampled_recording (s : Sampler) (i : StartIn) (hf : i.parent.flags < 256) :
    (newSpan s i).ctx.sampled = true → (newSpan s i).recording = true := by
  have hz : Ctx.zero.flags = 0 := rfl
  unfold newSpan
  simp only []
  generalize shouldSample s i.script (if i.newRoot = true then Ctx.zero else i.parent) _ = r
  obtain ⟨dec, ts, br⟩ := r
  simp only []
  cases hnr : i.newRoot <;> by_cases hs : dec = 2 <;>
    simp [Ctx.sampled, isSampled, isRecording, dRecordOnly, dRecordAndSample, hs, hz, flags_set, flags_clear, hf]


theorem answer_ref (nan : Nat) (e : SExpr) (sc : Script) (psc : Ctx) (tid : Bytes) (hl : tid.length = 16) :
    ∀ d ts, Spec.refAnswer e sc psc tid = some (d, ts) →
      (shouldSample (build nan e) sc psc tid).1 = d ∧ (shouldSample (build nan e) sc psc tid).2.1 = ts := by
  induction e with
  | always => intro d ts h; simp [Spec.refAnswer, Spec.pick] at h; simp [build, shouldSample, dRecordAndSample, h.1.symm, h.2.symm]
  | never => intro d ts h; simp [Spec.refAnswer, Spec.pick] at h; simp [build, shouldSample, dDrop, h.1.symm, h.2.symm]
  | custom =>
    intro d ts h; simp [Spec.refAnswer, Spec.pick] at h
    obtain ⟨h1, h2⟩ := h
    subst h1 h2
    simp [build, shouldSample]
    cases sc.ts <;> rfl
  | ratio r =>
    intro d ts h
    simp [Spec.refAnswer, Spec.pick] at h
    obtain ⟨hn, h1, h2⟩ := h
    have hn' : isNaN r = false := by rw [isNaN_eq]; exact hn
    refine ⟨?_, ?_⟩
    · simp only [build]
      rw [ratio_decision r nan sc psc tid hn', tidField_eq tid hl, ← h1]
      simp [dRecordAndSample, dDrop]
    · rw [← h2]; simp only [build]
      unfold traceIDRatioBased
      split
      · rfl
      · split
        · unfold shouldSample; split <;> rfl
        · split <;> (unfold shouldSample; split <;> rfl)
  | pb root rs rns ls lns ih1 ih2 ih3 ih4 ih5 =>
    intro d ts h
    have hv : psc.valid = (idValid psc.tid && idValid psc.sid) := rfl
    have hs : psc.sampled = (psc.flags % 2 == 1) := rfl
    unfold Spec.refAnswer at h
    rw [Spec.pick] at h
    simp only [build]
    rw [shouldSample]
    rw [hv, hs]
    cases h1 : (idValid psc.tid && idValid psc.sid)
    · simp only [h1, Bool.not_false, if_true, Bool.false_eq_true, if_false] at h ⊢
      exact ih1 d ts (by unfold Spec.refAnswer; exact h)
    · cases h2 : psc.remote <;> cases h3 : (psc.flags % 2 == 1) <;>
        simp only [h1, h2, h3, Bool.not_true, Bool.false_eq_true, if_false, if_true] at h ⊢
      · exact ih5 d ts (by unfold Spec.refAnswer; exact h)
      · exact ih4 d ts (by unfold Spec.refAnswer; exact h)
      · exact ih3 d ts (by unfold Spec.refAnswer; exact h)
      · exact ih2 d ts (by unfold Spec.refAnswer; exact h)

theorem newSpan_ans (s : Sampler) (i : StartIn) :
    (newSpan s i).ansDec = (shouldSample s i.script (newSpan s i).seenP (newSpan s i).seenTid).1
    ∧ (newSpan s i).ansTs = (shouldSample s i.script (newSpan s i).seenP (newSpan s i).seenTid).2.1 := by
  unfold newSpan
  simp

/-! ### span trees: the recursion of `runTree`

`runTree` starts the nodes in order and threads the list `done` of already started spans; a node looks its
parent up in `done`. The lemmas below are stated for an arbitrary accumulator `done` (the induction needs it)
and instantiated with `[]` at the end (`runTree_zip`). -/

/-- executable form of "every parent index refers to an earlier node": the node at position `j` of `nodes`
is node number `k + j` of the tree -/
def wfFrom : Nat → List NodeIn → Bool
  | _, [] => true
  | k, n :: rest => decide (n.parentIdx < (k : Int)) && wfFrom (k + 1) rest

theorem wfFrom_iff (k : Nat) (nodes : List NodeIn) :
    wfFrom k nodes = true ↔
      ∀ (j : Nat) (n : NodeIn), nodes[j]? = some n → n.parentIdx < ((k + j : Nat) : Int) := by
  induction nodes generalizing k with
  | nil => simp [wfFrom]
  | cons n rest ih =>
    simp only [wfFrom, Bool.and_eq_true, decide_eq_true_eq, ih]
    constructor
    · rintro ⟨h0, h⟩ j m hj
      cases j with
      | zero =>
        simp only [List.getElem?_cons_zero, Option.some.injEq] at hj
        subst hj; simpa using h0
      | succ j =>
        simp only [List.getElem?_cons_succ] at hj
        have := h j m hj
        rw [show k + (j + 1) = k + 1 + j by omega]; exact this
    · intro h
      refine ⟨by simpa using h 0 n (by simp), fun j m hj => ?_⟩
      have := h (j + 1) m (by simpa using hj)
      rw [show k + 1 + j = k + (j + 1) by omega]; exact this

/-- for a whole tree: `wfFrom 0` says exactly that every parent index is below the node's own index -/
theorem wfFrom_zero_iff (nodes : List NodeIn) :
    wfFrom 0 nodes = true ↔ ∀ (k : Nat) (n : NodeIn), nodes[k]? = some n → n.parentIdx < (k : Int) := by
  rw [wfFrom_iff]; simp only [Nat.zero_add]

/-- the span the model starts for node `n` when the started spans are `outs` -/
def nodeOut (s : Sampler) (ext : Ctx) (outs : List StartOut) (n : NodeIn) : StartOut :=
  newSpan s ⟨parentCtx ext outs n.parentIdx, n.newRoot, n.genTid, n.genSid, n.script⟩

theorem runTree_length (s : Sampler) (ext : Ctx) (nodes : List NodeIn) (done : List StartOut) :
    (runTree s ext nodes done).length = done.length + nodes.length := by
  induction nodes generalizing done with
  | nil => simp [runTree]
  | cons n rest ih => simp only [runTree, ih, List.length_append, List.length_cons, List.length_nil]; omega

/-- the spans already started are final: `done` is a prefix of the result -/
theorem runTree_prefix (s : Sampler) (ext : Ctx) (nodes : List NodeIn) (done : List StartOut) :
    ∀ j, j < done.length → (runTree s ext nodes done)[j]? = done[j]? := by
  induction nodes generalizing done with
  | nil => intro j _; simp [runTree]
  | cons n rest ih =>
    intro j hj
    simp only [runTree]
    rw [ih _ j (by simp only [List.length_append, List.length_cons, List.length_nil]; omega),
      List.getElem?_append_left hj]

/-- looking a parent up below the length of a prefix gives the same context in the longer list -/
theorem parentCtx_prefix (ext : Ctx) (done outs : List StartOut) (idx : Int)
    (hp : ∀ j, j < done.length → outs[j]? = done[j]?) (hi : idx < (done.length : Int)) :
    parentCtx ext outs idx = parentCtx ext done idx := by
  unfold parentCtx
  split
  · rfl
  · rw [List.getD_eq_getElem?_getD, List.getD_eq_getElem?_getD, hp _ (by omega)]

/-- **every node's span is `newSpan` applied to the context its parent has in the final result**:
when node `done.length + j` is started its parent (an earlier node, by `wfFrom`) is already in `done`, and
appending the later spans does not change that entry -/
theorem runTree_node (s : Sampler) (ext : Ctx) (nodes : List NodeIn) (done : List StartOut)
    (hwf : wfFrom done.length nodes = true) :
    ∀ (j : Nat) (n : NodeIn), nodes[j]? = some n →
      (runTree s ext nodes done)[done.length + j]? = some (nodeOut s ext (runTree s ext nodes done) n) := by
  induction nodes generalizing done with
  | nil => intro j n h; simp at h
  | cons m rest ih =>
    simp only [wfFrom, Bool.and_eq_true, decide_eq_true_eq] at hwf
    obtain ⟨hm, hrest⟩ := hwf
    intro j n hj
    simp only [runTree]
    generalize ho : newSpan s ⟨parentCtx ext done m.parentIdx, m.newRoot, m.genTid, m.genSid, m.script⟩ = o
    have hlen : (done ++ [o]).length = done.length + 1 := by simp
    have hpre := runTree_prefix s ext rest (done ++ [o])
    cases j with
    | zero =>
      simp only [List.getElem?_cons_zero, Option.some.injEq] at hj
      subst hj
      rw [Nat.add_zero, hpre _ (by omega), List.getElem?_append_right (Nat.le_refl _)]
      simp only [Nat.sub_self, List.getElem?_cons_zero, Option.some.injEq]
      unfold nodeOut
      rw [parentCtx_prefix ext done (runTree s ext rest (done ++ [o])) m.parentIdx
        (fun i hi => by rw [hpre i (by omega), List.getElem?_append_left hi]) hm]
      exact ho.symm
    | succ j =>
      simp only [List.getElem?_cons_succ] at hj
      have := ih _ (by rw [hlen]; exact hrest) j n hj
      rw [hlen] at this
      rw [show done.length + (j + 1) = done.length + 1 + j by omega]
      exact this

/-- the invariant threaded through the tree: flags fit in a byte, the trace id has 16 bytes -/
def ctxGood (c : Ctx) : Prop := c.flags < 256 ∧ c.tid.length = 16

theorem newSpan_good (s : Sampler) (i : StartIn) (hp : ctxGood i.parent) (hg : i.genTid.length = 16) :
    ctxGood (newSpan s i).ctx ∧ (newSpan s i).seenTid.length = 16 := by
  obtain ⟨hf, ht⟩ := hp
  have hz : Ctx.zero.flags = 0 := rfl
  have hzt : Ctx.zero.tid.length = 16 := by decide
  have hs := flags_set
  have hc := flags_clear
  unfold ctxGood newSpan
  simp only []
  generalize shouldSample s i.script (if i.newRoot = true then Ctx.zero else i.parent) _ = r
  obtain ⟨dec, ts, br⟩ := r
  simp only []
  have hfl : (if i.newRoot = true then Ctx.zero else i.parent).flags < 256 := by
    split
    · rw [hz]; omega
    · exact hf
  have htl : (if i.newRoot = true then Ctx.zero else i.parent).tid.length = 16 := by
    split
    · exact hzt
    · exact ht
  generalize (if i.newRoot = true then Ctx.zero else i.parent) = p at hfl htl
  have h1 := hs p.flags hfl
  have h2 := hc p.flags hfl
  have htid : (if (!idValid p.tid) = true then (i.genTid, GenCall.newIDs) else (p.tid, GenCall.newSpanID)).1.length = 16 := by
    split
    · exact hg
    · exact htl
  refine ⟨⟨?_, htid⟩, htid⟩
  split <;> omega

theorem parentCtx_good (ext : Ctx) (outs : List StartOut) (idx : Int) (he : ctxGood ext)
    (ho : ∀ o ∈ outs, ctxGood o.ctx) (hi : idx < (outs.length : Int)) : ctxGood (parentCtx ext outs idx) := by
  unfold parentCtx
  split
  · exact he
  · have hlt : idx.toNat < outs.length := by omega
    rw [List.getD_eq_getElem?_getD, List.getElem?_eq_getElem hlt]
    exact ho _ (List.getElem_mem hlt)

/-- every span started in a well-formed tree keeps the invariant -/
theorem runTree_good (s : Sampler) (ext : Ctx) (nodes : List NodeIn) (done : List StartOut) (he : ctxGood ext)
    (hg : ∀ n ∈ nodes, n.genTid.length = 16) (hwf : wfFrom done.length nodes = true)
    (hd : ∀ o ∈ done, ctxGood o.ctx) : ∀ o ∈ runTree s ext nodes done, ctxGood o.ctx := by
  induction nodes generalizing done with
  | nil => simpa [runTree] using hd
  | cons m rest ih =>
    simp only [wfFrom, Bool.and_eq_true, decide_eq_true_eq] at hwf
    obtain ⟨hm, hrest⟩ := hwf
    simp only [runTree]
    apply ih
    · intro n hn; exact hg n (List.mem_cons_of_mem _ hn)
    · simpa using hrest
    · intro o ho
      rcases List.mem_append.mp ho with ho | ho
      · exact hd o ho
      · simp only [List.mem_singleton] at ho
        subst ho
        exact (newSpan_good s _ (parentCtx_good ext done m.parentIdx he hd hm) (hg m List.mem_cons_self)).1

/-- the whole tree, started from the empty accumulator: as many spans as nodes, and every pair
(node, its span) satisfies: the span is `newSpan` on the parent's context *in the final result*, and that
parent context keeps the invariant needed by the per-span theorems -/
theorem runTree_zip (s : Sampler) (ext : Ctx) (nodes : List NodeIn) (he : ctxGood ext)
    (hg : ∀ n ∈ nodes, n.genTid.length = 16) (hwf : wfFrom 0 nodes = true) :
    (runTree s ext nodes []).length = nodes.length ∧
    ∀ n o, (n, o) ∈ nodes.zip (runTree s ext nodes []) →
      o = nodeOut s ext (runTree s ext nodes []) n
      ∧ ctxGood (parentCtx ext (runTree s ext nodes []) n.parentIdx) ∧ n.genTid.length = 16 := by
  have hlen : (runTree s ext nodes []).length = nodes.length := by simp [runTree_length]
  refine ⟨hlen, ?_⟩
  intro n o hmem
  obtain ⟨j, hj⟩ := List.mem_iff_getElem?.mp hmem
  obtain ⟨hn, ho⟩ := List.getElem?_zip_eq_some.mp hj
  simp only [] at hn ho
  have hnode := runTree_node s ext nodes [] hwf j n hn
  simp only [List.length_nil, Nat.zero_add] at hnode
  rw [hnode] at ho
  have hjl : j < nodes.length := by
    rcases Nat.lt_or_ge j nodes.length with h | h
    · exact h
    · rw [List.getElem?_eq_none h] at hn; cases hn
  have hp := (wfFrom_iff 0 nodes).mp hwf j n hn
  refine ⟨(Option.some.inj ho).symm, ?_, hg n (List.of_mem_zip hmem).1⟩
  apply parentCtx_good ext _ _ he (runTree_good s ext nodes [] he hg hwf (by simp))
  rw [hlen]; omega

/-- the specification's parent lookup in the observations is the model's lookup in the results -/
theorem parentOf_map (ext : Ctx) (outs : List StartOut) (idx : Int) :
    Spec.parentOf ext (outs.map Spec.obsOf) idx = parentCtx ext outs idx := by
  unfold Spec.parentOf parentCtx
  split
  · rfl
  · rw [List.getD_eq_getElem?_getD, List.getD_eq_getElem?_getD, List.getElem?_map]
    cases outs[idx.toNat]? <;> rfl

/-- what `newSpan` records as the span's parent -/
theorem newSpan_psc (s : Sampler) (i : StartIn) :
    (newSpan s i).psc = if i.newRoot then Ctx.zero else i.parent := rfl

/-- the model's export filter (recording and sampled) is the specification's (sampled flag) for a span whose
sampled flag implies recording -/
theorem export_pred (o : StartOut) (h : o.ctx.sampled = true → o.recording = true) :
    (o.recording && o.ctx.sampled) = (o.ctx.flags % 2 == 1) := by
  have hs : o.ctx.sampled = (o.ctx.flags % 2 == 1) := rfl
  rw [← hs]
  cases hc : o.ctx.sampled
  · simp
  · simp [h hc]

/-- the exporter's contents of a tree: if every (node, span) pair records iff sampled-and-recording and names
the parent the specification expects, `exportedOf` is what `Spec.exportOK` asks for -/
theorem export_zip (ext : Ctx) (nodes : List NodeIn) (outs : List StartOut) (hlen : outs.length = nodes.length)
    (h : ∀ n o, (n, o) ∈ nodes.zip outs →
      (o.recording && o.ctx.sampled) = (o.ctx.flags % 2 == 1)
      ∧ o.psc = if n.newRoot then Ctx.zero else parentCtx ext outs n.parentIdx) :
    Spec.exportOK ext nodes (outs.map Spec.obsOf) (exportedOf outs) = true := by
  have hs : outs = (nodes.zip outs).map Prod.snd := (List.map_snd_zip (Nat.le_of_eq hlen)).symm
  unfold Spec.exportOK exportedOf
  simp only [beq_iff_eq]
  rw [List.zip_map_right]
  conv => lhs; rw [hs]
  simp only [← List.map_reverse, List.filter_map, List.map_map]
  have hf : (nodes.zip outs).reverse.filter
        ((fun o : StartOut => o.recording && o.ctx.sampled) ∘ Prod.snd)
      = (nodes.zip outs).reverse.filter
        ((fun x : NodeIn × Spec.Obs => x.2.ctx.flags % 2 == 1) ∘ Prod.map id Spec.obsOf) := by
    apply List.filter_congr
    rintro ⟨n, o⟩ hx
    exact (h n o (List.mem_reverse.mp hx)).1
  rw [hf]
  apply List.map_congr_left
  rintro ⟨n, o⟩ hx
  have hp := (h n o (List.mem_reverse.mp (List.mem_filter.mp hx).1)).2
  simp only [Function.comp, Prod.map, id, Spec.obsOf, parentOf_map, hp]

/-! ## attributes of a started span: de-duplication keeps the last value -/

def getKV (l : List AttrKV) (k : Nat) : Option Int := (l.find? (·.1 == k)).map (·.2)

theorem getKV_upsert (l : List AttrKV) (a : AttrKV) (k : Nat) :
    getKV (upsertKV l a) k = if a.1 = k then some a.2 else getKV l k := by
  induction l with
  | nil => by_cases hk : a.1 = k <;> simp [upsertKV, getKV, List.find?, hk]
  | cons b tl ih =>
    unfold upsertKV
    by_cases hb : b.1 = a.1
    · simp only [hb, if_true]
      by_cases hk : a.1 = k
      · simp [getKV, List.find?, hk]
      · have hbk : (b.1 == k) = false := by simp [hb, hk]
        have hak : (a.1 == k) = false := by simp [hk]
        simp [getKV, List.find?, hbk, hak]
        intro h; exact absurd h hk
    · simp only [hb, if_false]
      by_cases hk : b.1 = k
      · have : a.1 ≠ k := by intro h; exact hb (hk.trans h.symm)
        simp [getKV, List.find?, hk, this]
      · have hbk : (b.1 == k) = false := by simp [hk]
        have := ih
        simp only [getKV] at this ⊢
        simp only [List.find?, hbk]
        exact this

theorem getKV_foldl (l : List AttrKV) (acc : List AttrKV) (k : Nat) :
    getKV (l.foldl upsertKV acc) k = match Spec.lastValue l k with
      | some v => some v
      | none => getKV acc k := by
  induction l generalizing acc with
  | nil => simp [Spec.lastValue]
  | cons a tl ih =>
    rw [List.foldl_cons, ih]
    simp only [Spec.lastValue, List.reverse_cons, List.find?_append]
    cases h : tl.reverse.find? (·.1 == k) with
    | some x => simp
    | none =>
      simp only [Option.none_or, Option.map_none]
      rw [getKV_upsert]
      by_cases hk : a.1 = k
      · simp [List.find?, hk]
      · have hak : (a.1 == k) = false := by simp [hk]
        simp [List.find?, hak, getKV]
        intro h; exact absurd h hk

end Otel.C09
