/-
C09 — property theorems. Every theorem is about the executable model of Model.lean (the same constants the
driver runs against the implementation) and concludes a predicate of Spec.lean (the same predicates the driver
evaluates on what the implementation returned). Helper lemmas: Lemmas.lean.
-/
import Otel.C09.Lemmas
import Otel.C09.DescLemmas
set_option exponentiation.threshold 2100
namespace Otel.C09
open Otel

/-! ## The ratio sampler -/

/-- **deterministic function of the trace id**: the decision of `TraceIDRatioBased(r)` depends on nothing but
bytes 8..16 of the trace id (not on the parent context, the scripted state, or the other id bytes). -/
theorem ratio_deterministic (bits : UInt64) (nan : Nat) (sc sc' : Script) (psc psc' : Ctx) (tid tid' : Bytes)
    (h : (tid.drop 8).take 8 = (tid'.drop 8).take 8) :
    (shouldSample (traceIDRatioBased bits nan) sc psc tid).1 = (shouldSample (traceIDRatioBased bits nan) sc' psc' tid').1 := by
  unfold traceIDRatioBased
  split
  · simp [shouldSample]
  · split
    · rw [ratioB_dec, ratioB_dec]; unfold tidField; rw [h]
    · split <;> (rw [ratioB_dec, ratioB_dec]; unfold tidField; rw [h])

/-- the model's decision is the reference decision of Spec.lean (`x + 1 ≤ r·2^63` over exact rationals),
for every non-NaN ratio and every 16-byte trace id -/
theorem ratio_matches_reference (bits : UInt64) (nan : Nat) (sc : Script) (psc : Ctx) (tid : Bytes)
    (hn : Spec.nan bits = false) (hl : tid.length = 16) :
    (shouldSample (traceIDRatioBased bits nan) sc psc tid).1 =
      if Spec.ratioRef bits (Spec.tidLow63 tid) then dRecordAndSample else dDrop := by
  rw [ratio_decision bits nan sc psc tid (by rw [isNaN_eq]; exact hn), tidField_eq tid hl]

/-- **monotone in the ratio**: a trace sampled at `r` is sampled at every `r' ≥ r` (IEEE order, both not NaN) -/
theorem ratio_monotone (r r' : UInt64) (nan : Nat) (sc sc' : Script) (psc psc' : Ctx) (tid : Bytes)
    (hn : Spec.nan r = false) (hn' : Spec.nan r' = false) (hle : Spec.ieeeLe r r' = true)
    (h : (shouldSample (traceIDRatioBased r nan) sc psc tid).1 = dRecordAndSample) :
    (shouldSample (traceIDRatioBased r' nan) sc' psc' tid).1 = dRecordAndSample := by
  rw [ratio_decision r nan sc psc tid (by rw [isNaN_eq]; exact hn)] at h
  rw [ratio_decision r' nan sc' psc' tid (by rw [isNaN_eq]; exact hn')]
  by_cases hx : Spec.ratioRef r (tidField tid) = true
  · simp [ratioRef_mono r r' hle _ hx]
  · simp [hx, dDrop, dRecordAndSample] at h

/-- **0 samples nothing** (also -0, every negative ratio and -Inf) -/
theorem ratio_zero_none (bits : UInt64) (nan : Nat) (sc : Script) (psc : Ctx) (tid : Bytes)
    (h : Spec.ieeeLe bits 0 = true) (hn : Spec.nan bits = false) :
    (shouldSample (traceIDRatioBased bits nan) sc psc tid).1 = dDrop := by
  rw [ratio_decision bits nan sc psc tid (by rw [isNaN_eq]; exact hn)]
  have hb := bits.toNat_lt
  have : Spec.negOrZero bits = true := by
    unfold Spec.ieeeLe Spec.key at h
    unfold Spec.negOrZero
    simp at h ⊢
    split at h <;> omega
  simp [Spec.ratioRef, this]

/-- **1 samples everything** (also every ratio > 1 and +Inf) -/
theorem ratio_one_all (bits : UInt64) (nan : Nat) (sc : Script) (psc : Ctx) (tid : Bytes)
    (h : Spec.ieeeLe onePointZero bits = true) (hn : Spec.nan bits = false) :
    (shouldSample (traceIDRatioBased bits nan) sc psc tid).1 = dRecordAndSample := by
  rw [ratio_decision bits nan sc psc tid (by rw [isNaN_eq]; exact hn)]
  have hone : Spec.ratioRef onePointZero (tidField tid) = true := by
    unfold Spec.ratioRef
    have h1 : Spec.negOrZero onePointZero = false := by decide
    have h2 : Spec.num onePointZero ≥ 2 ^ 1075 := by decide
    simp [h1, h2]
  simp [ratioRef_mono onePointZero bits h _ hone]

/-- **the sampled share tracks r**, as an exact counting statement: for 0 < r < 1 the sampler built for `r`
samples exactly the 63-bit numbers below `B = ⌊r·2^63⌋`; there are exactly `B` of them among the `2^63`
possible ones; and `B/2^63 ≤ r < (B+1)/2^63` (with `r = num/2^1075`: `B·2^1012 ≤ num < (B+1)·2^1012`),
i.e. `|B/2^63 − r| < 2^-63`. -/
theorem ratio_share (bits : UInt64) (nan : Nat)
    (hn : Spec.nan bits = false) (hpos : Spec.ieeeLe bits 0 = false) (hlt : Spec.ieeeLe onePointZero bits = false) :
    ∃ B, traceIDRatioBased bits nan = .ratioB B
      ∧ (∀ sc psc tid, (shouldSample (.ratioB B) sc psc tid).1 = dRecordAndSample ↔ tidField tid < B)
      ∧ ((List.range (2 ^ 63)).filter (fun x => decide (x < B))).length = B
      ∧ B * 2 ^ 1012 ≤ Spec.num bits ∧ Spec.num bits < (B + 1) * 2 ^ 1012 := by
  have hb := bits.toNat_lt
  have hnn : isNaN bits = false := by rw [isNaN_eq]; exact hn
  have hz : leZero bits = false := by
    rw [leZero_eq bits hnn]
    unfold Spec.ieeeLe Spec.key at hpos
    unfold Spec.negOrZero
    simp at hpos ⊢
    split at hpos <;> omega
  have hg : geOne bits = false := by
    rw [geOne_eq bits hnn, ← leZero_eq bits hnn, hz]
    simp
    -- bits < bit pattern of 1.0, so the exponent field is ≤ 1022
    apply num_lt_of_exp_le
    have hf := fields bits
    unfold Spec.ieeeLe Spec.key at hlt hpos
    have : onePointZero.toNat = 1023 * 2 ^ 52 := by decide
    simp [this] at hlt hpos
    split at hlt <;> split at hpos <;> omega
  refine ⟨floorBound bits, ?_, ?_, ?_, ?_, ?_⟩
  · simp [traceIDRatioBased, hg, hz, hnn]
  · intro sc psc tid
    by_cases hx : tidField tid < floorBound bits <;> simp [shouldSample, hx, dRecordAndSample, dDrop]
  · exact count_lt _ _ (Nat.le_of_lt (floorBound_lt bits hg hnn hz))
  · unfold floorBound; rw [scaled_eq_num]; exact Nat.div_mul_le_self _ _
  · unfold floorBound; rw [scaled_eq_num, Nat.mul_comm]; exact Nat.lt_mul_div_succ _ (Nat.pow_pos (by decide))

/-- non-vacuity: at ratio 0.5 the id field 2^62 - 1 is sampled and 2^62 is not; 0.5 ≤ 0.75 in `ieeeLe` -/
example : (shouldSample (traceIDRatioBased 0x3FE0000000000000 0) default Ctx.zero
    ([0,0,0,0,0,0,0,0] ++ [0x7f,0xff,0xff,0xff,0xff,0xff,0xff,0xff])).1 = dRecordAndSample
  ∧ (shouldSample (traceIDRatioBased 0x3FE0000000000000 0) default Ctx.zero
    ([0,0,0,0,0,0,0,0] ++ [0x80,0,0,0,0,0,0,0])).1 = dDrop
  ∧ Spec.ieeeLe 0x3FE0000000000000 0x3FE8000000000000 = true := by decide

/-! ## One started span (`tracer.newSpan`), for every sampler (stock, composed, custom), every parent, every
generator output -/

/-- **sampled flag ⇔ the sampler answered RecordAndSample**; the other seven flag bits are the parent's
(zero for a new root) — including those of an *invalid* parent, as the code does. -/
theorem span_flags (s : Sampler) (i : StartIn) (hf : i.parent.flags < 256) :
    Spec.flagsOK (if i.newRoot then 0 else i.parent.flags) (Spec.obsOf (newSpan s i)) = true := by
  have hz : Ctx.zero.flags = 0 := rfl
  unfold Spec.flagsOK Spec.obsOf newSpan
  simp only []
  generalize shouldSample s i.script (if i.newRoot = true then Ctx.zero else i.parent) _ = r
  obtain ⟨dec, ts, br⟩ := r
  simp only []
  cases hnr : i.newRoot <;> by_cases hs : dec = 2 <;>
    simp [isSampled, dRecordAndSample, hs, hz, flags_set, flags_clear, hf]

/-- **records ⇔ the answer is RecordOnly or RecordAndSample** … -/
theorem span_recording (s : Sampler) (i : StartIn) : Spec.recordingOK (Spec.obsOf (newSpan s i)) = true := by
  unfold Spec.recordingOK Spec.obsOf newSpan
  simp only []
  generalize shouldSample s i.script (if i.newRoot = true then Ctx.zero else i.parent) _ = r
  obtain ⟨dec, ts, br⟩ := r
  simp [isRecording, dRecordOnly, dRecordAndSample]

/-- … which for the three valid decisions is: **records exactly when the answer is not Drop**
(an out-of-range decision of a custom sampler is treated like Drop). -/
theorem span_recording_valid (s : Sampler) (i : StartIn) (h : (newSpan s i).ansDec ≤ 2) :
    (newSpan s i).recording = true ↔ (newSpan s i).ansDec ≠ dDrop := by
  have := span_recording s i
  unfold Spec.recordingOK Spec.obsOf at this
  simp at this
  rw [this]; simp [dDrop]; omega

/-- **trace continuity**: the span keeps the parent's trace id iff that id is valid and the span is not a
new root, otherwise it gets the generator's fresh trace id (`NewIDs`); the span id is always the
generator's (`NewSpanID` when the trace id is inherited) — generator ids are taken verbatim. -/
theorem span_trace_inheritance (s : Sampler) (i : StartIn) :
    Spec.idsOK i.parent i.newRoot i.genTid i.genSid (Spec.obsOf (newSpan s i)) = true := by
  have hz : idValid Ctx.zero.tid = false := by decide
  unfold Spec.idsOK Spec.obsOf newSpan
  simp only []
  cases hnr : i.newRoot <;> cases hv : idValid i.parent.tid <;> simp [hv, hz]

/-- **the span's tracestate is the one the sampler returned** (and the new context is not remote) -/
theorem span_tracestate (s : Sampler) (i : StartIn) : Spec.tracestateOK (Spec.obsOf (newSpan s i)) = true := by
  unfold Spec.tracestateOK Spec.obsOf newSpan
  simp only []
  generalize shouldSample s i.script (if i.newRoot = true then Ctx.zero else i.parent) _ = r
  obtain ⟨dec, ts, br⟩ := r
  simp

/-- every stock sampler (and composition of stock samplers; a custom one that does not supply its own)
answers with the tracestate of the parent it sees: **the parent's tracestate is kept unless the sampler
supplies another** -/
theorem stock_keeps_parent_tracestate (s : Sampler) (sc : Script) (psc : Ctx) (tid : Bytes) (h : sc.ts = none) :
    (shouldSample s sc psc tid).2.1 = psc.ts := by
  induction s with
  | always => rfl
  | never => rfl
  | ratioB b => unfold shouldSample; split <;> rfl
  | custom => simp [shouldSample, h]
  | parentBased root rs rns ls lns ih1 ih2 ih3 ih4 ih5 =>
    unfold shouldSample
    split
    · split
      · split <;> assumption
      · split <;> assumption
    · assumption

/-- the sampler is asked about the span's own trace id and is shown the parent — nothing for a new root -/
theorem span_sampler_view (s : Sampler) (i : StartIn) :
    Spec.seenOK i.parent i.newRoot (Spec.obsOf (newSpan s i)) = true := by
  unfold Spec.seenOK Spec.obsOf newSpan
  simp only []
  cases hnr : i.newRoot <;> simp

/-- all clauses together: the oracle predicate `Spec.spanOK` holds of the model's span -/
theorem span_ok (s : Sampler) (i : StartIn) (hf : i.parent.flags < 256) :
    Spec.spanOK i.parent i.newRoot i.genTid i.genSid (Spec.obsOf (newSpan s i)) = true := by
  unfold Spec.spanOK
  have h1 := span_flags s i hf
  have h1' : (if i.newRoot = true then 0 else i.parent.flags) = (if i.newRoot then 0 else i.parent.flags) := rfl
  simp [h1, span_recording s i, span_trace_inheritance s i, span_tracestate s i, span_sampler_view s i]

/-- non-vacuity: RecordOnly under a sampled remote parent with flags 0xff: flag cleared, other bits kept,
recording, trace id inherited, sampler's tracestate -/
example :
    let o := newSpan .custom ⟨⟨zeros 15 ++ [7], zeros 7 ++ [9], 255, [97], true⟩, false, zeros 15 ++ [1], zeros 7 ++ [2], ⟨1, some [98]⟩⟩
    o.ctx.flags = 254 ∧ o.recording = true ∧ o.ctx.tid = zeros 15 ++ [7] ∧ o.ctx.sid = zeros 7 ++ [2] ∧ o.ctx.ts = [98] := by
  decide

/-- a span whose sampled flag is set is a recording span (so its `End` reaches the processors) -/
theorem span_sampled_is_recording (s : Sampler) (i : StartIn) (hf : i.parent.flags < 256) :
    (newSpan s i).ctx.sampled = true → (newSpan s i).recording = true :=
  sampled_recording s i hf

/-- **a span reaches the exporter exactly when it is sampled**: after ending every started span (any set of
spans produced by `newSpan`, any sampler), the simple/batch processor model hands over exactly the spans whose
sampled flag is set — once each, in `End` order, with their parent link. -/
theorem span_exported_iff_sampled (outs : List StartOut)
    (h : ∀ o ∈ outs, ∃ s i, i.parent.flags < 256 ∧ o = newSpan s i) :
    exportedOf outs = (outs.reverse.filter (fun o => o.ctx.sampled)).map
      (fun o => ⟨o.ctx.sid, o.ctx.tid, o.psc.tid, o.psc.sid⟩) := by
  unfold exportedOf
  congr 1
  apply List.filter_congr
  intro o ho
  obtain ⟨s, i, hf, rfl⟩ := h o (List.mem_reverse.mp ho)
  cases hs : (newSpan s i).ctx.sampled
  · simp
  · simp [sampled_recording s i hf hs]

/-- **every sampler composition answers as the reference semantics of Spec.lean says** (always / never /
ratio over exact rationals / custom script / parent-based delegate chosen by the parent's validity,
remoteness and sampled flag, nested arbitrarily): the oracle predicate `Spec.answerOK` holds of the model's
span. (For a NaN ratio the specification leaves the answer open.) -/
theorem sampler_answer_ok (nan : Nat) (e : SExpr) (i : StartIn)
    (hl : (newSpan (build nan e) i).seenTid.length = 16) :
    Spec.answerOK e i.script (Spec.obsOf (newSpan (build nan e) i)) = true := by
  unfold Spec.answerOK Spec.obsOf
  simp only []
  have ha := newSpan_ans (build nan e) i
  cases hr : Spec.refAnswer e i.script (newSpan (build nan e) i).seenP (newSpan (build nan e) i).seenTid with
  | none => rfl
  | some r =>
    obtain ⟨d, ts⟩ := r
    have := answer_ref nan e i.script _ _ hl d ts hr
    simp [ha.1, ha.2, this.1, this.2]

/-! ## Parent-based sampling -/

/-- **the default parent-based sampler gives a child the decision of its local or remote parent** (valid
parent: sampled ⇒ RecordAndSample, not sampled ⇒ Drop, tracestate kept); without a valid parent the root
sampler decides. -/
theorem parent_based_follows_parent (root : Sampler) (sc : Script) (psc : Ctx) (tid : Bytes) :
    shouldSample (parentBasedDefault root) sc psc tid =
      if psc.valid then
        (if psc.sampled then (dRecordAndSample, psc.ts, "always") else (dDrop, psc.ts, "never"))
      else shouldSample root sc psc tid := by
  unfold parentBasedDefault
  rw [shouldSample]
  cases psc.valid <;> cases psc.remote <;> cases psc.sampled <;> simp [shouldSample]

/-- … hence, through `newSpan`: a child of a valid parent (not a new root) carries the parent's sampled flag,
whether the parent is local or remote -/
theorem child_follows_parent (root : Sampler) (i : StartIn) (hf : i.parent.flags < 256)
    (hv : i.parent.valid = true) (hnr : i.newRoot = false) :
    (newSpan (parentBasedDefault root) i).ctx.sampled = i.parent.sampled
    ∧ (newSpan (parentBasedDefault root) i).ctx.tid = i.parent.tid
    ∧ (newSpan (parentBasedDefault root) i).ctx.ts = i.parent.ts := by
  have hvt : idValid i.parent.tid = true := by
    unfold Ctx.valid at hv; simp at hv; exact hv.1
  unfold newSpan
  simp only [hnr, Bool.false_eq_true, if_false, hvt, Bool.not_true]
  rw [parent_based_follows_parent]
  simp only [hv, if_true]
  cases hs : i.parent.sampled
  · have := flags_clear _ hf
    simp [isSampled, dDrop, dRecordAndSample, Ctx.sampled, this]
  · have := flags_set _ hf
    simp [isSampled, dRecordAndSample, Ctx.sampled, this]

/-! ## The stock id generator (retry loops over the math/rand byte stream) -/

/-- **every id the stock generator returns is valid (non-zero)**, for every script of `NewIDs`/`NewSpanID`
calls and every byte stream -/
theorem ids_valid (ops : List Bool) (st rest : Bytes) (ids : List Bytes) (h : genRun ops st = some (ids, rest)) :
    ∀ id ∈ ids, idValid id = true :=
  genRun_valid ops st rest ids h

/-- **the retry loop terminates on every stream that is not all-zero from here on**, returning the first
non-zero chunk: `k` all-zero 8-byte reads followed by a non-zero one yield that one (`NewSpanID`) … -/
theorem ids_retry_span (k : Nat) (sid rest : Bytes) (hl : sid.length = 8) (hv : idValid sid = true) :
    genNewSpanID (zeros (k * 8) ++ sid ++ rest) = some (sid, rest) := by
  unfold genNewSpanID
  apply readValid_complete 8 k sid rest hl hv
  simp [zeros]; omega

/-- … and the same for both loops of `NewIDs` (16-byte reads for the trace id, then 8-byte reads) -/
theorem ids_retry_both (k j : Nat) (tid sid rest : Bytes) (hlt : tid.length = 16) (hvt : idValid tid = true)
    (hls : sid.length = 8) (hvs : idValid sid = true) :
    genNewIDs (zeros (k * 16) ++ tid ++ (zeros (j * 8) ++ sid ++ rest)) = some (tid, sid, rest) := by
  unfold genNewIDs
  rw [readValid_complete 16 k tid _ hlt hvt _ (by simp [zeros]; omega)]
  simp only []
  rw [readValid_complete 8 j sid rest hls hvs _ (by simp [zeros]; omega)]

/-- non-vacuity: two all-zero span-id reads are skipped -/
example : genNewSpanID (zeros 16 ++ [0,0,0,0,0,0,0,5] ++ [1,2,3]) = some ([0,0,0,0,0,0,0,5], [1,2,3]) := by decide

/-! ## OTEL_TRACES_SAMPLER / OTEL_TRACES_SAMPLER_ARG -/

/-- **`samplerFromEnv` implements the table of Spec.lean** for every name (any ASCII case, surrounding
blanks), with the argument absent / unparsable / negative / above one / a ratio (including NaN, which
ParseFloat accepts): sampler structure and error class. `ParseFloat`'s result is a parameter. -/
theorem env_sampler_table (name : Option Bytes) (hasArg : Bool) (pf : PF) (nan : Nat) :
    Spec.envOK name hasArg pf nan (samplerFromEnv name hasArg pf nan) = true := by
  unfold Spec.envOK Spec.envRef samplerFromEnv
  cases name with
  | none => simp
  | some raw =>
    simp only []
    rw [normName_eq]
    generalize Spec.lowerTrim raw = n
    unfold Spec.table
    by_cases h1 : (n == str "always_on") = true
    · simp [h1, Spec.shape]
    · by_cases h2 : (n == str "always_off") = true
      · simp [h1, h2, Spec.shape]
      · by_cases h3 : (n == str "traceidratio") = true
        · simp only [List.find?_cons, h1, h2, h3]
          have := arg_case hasArg pf nan (fun r => r) (fun s => s) (fun r => rfl)
          simp at this ⊢
          exact this
        · by_cases h4 : (n == str "parentbased_always_on") = true
          · simp [h1, h2, h3, h4, Spec.shape, parentBasedDefault]
          · by_cases h5 : (n == str "parentbased_always_off") = true
            · simp [h1, h2, h3, h4, h5, Spec.shape, parentBasedDefault]
            · by_cases h6 : (n == str "parentbased_traceidratio") = true
              · simp only [List.find?_cons, h1, h2, h3, h4, h5, h6]
                have := arg_case hasArg pf nan (fun r => .pb r .always .never .always .never) parentBasedDefault
                  (fun r => by simp [Spec.shape, parentBasedDefault])
                simp at this ⊢
                exact this
              · simp [h1, h2, h3, h4, h5, h6]

/-- non-vacuity: " ParentBased_TraceIDRatio " with argument 0.25 -/
example : samplerFromEnv (some (str " ParentBased_TraceIDRatio ")) true (.val 0x3FD0000000000000) 0
    = (some (parentBasedDefault (.ratioB (2 ^ 61))), .ok) := by decide

/-! ## A whole span tree (one provider, nodes started in order, each under the external parent or an earlier node) -/

/-- every parent index refers to an earlier node -/
def WellFormed (nodes : List NodeIn) : Prop :=
  ∀ (k : Nat) (n : NodeIn), nodes[k]? = some n → n.parentIdx < (k : Int)

/-- `WellFormed` is decidable (by the executable check `wfFrom 0`, see `wfFrom_zero_iff`) -/
instance (nodes : List NodeIn) : Decidable (WellFormed nodes) :=
  decidable_of_iff (wfFrom 0 nodes = true) (wfFrom_zero_iff nodes)

/-- **the per-span theorems compose along a whole span tree**: running any well-formed tree on the model (any
sampler expression, any external parent, any per-node options / generator ids / scripted answers) satisfies
`Spec.treeOK` — every node fulfils `Spec.spanOK` and `Spec.answerOK` w.r.t. the context *its parent ended up
with* — and `Spec.exportOK` — the exporter holds exactly the sampled spans, in `End` order, each naming its
parent. Composition of `span_ok`, `sampler_answer_ok`, `span_sampled_is_recording` through the recursion of
`runTree` (`runTree_zip`: the spans started before a node are final, later spans do not change them). -/
theorem tree_spec (nan : Nat) (e : SExpr) (ext : Ctx) (nodes : List NodeIn)
    (hf : ext.flags < 256) (ht : ext.tid.length = 16) (hg : ∀ n ∈ nodes, n.genTid.length = 16)
    (hwf : WellFormed nodes) :
    let outs := runTree (build nan e) ext nodes []
    Spec.treeOK e ext nodes (outs.map Spec.obsOf) = true
    ∧ Spec.exportOK ext nodes (outs.map Spec.obsOf) (exportedOf outs) = true := by
  intro outs
  obtain ⟨hlen, hz⟩ := runTree_zip (build nan e) ext nodes ⟨hf, ht⟩ hg ((wfFrom_zero_iff nodes).mpr hwf)
  constructor
  · unfold Spec.treeOK
    simp only [Bool.and_eq_true, beq_iff_eq, List.all_eq_true, List.length_map]
    refine ⟨hlen.symm, ?_⟩
    rw [List.zip_map_right]
    rintro ⟨n, ob⟩ hmem
    obtain ⟨⟨n', o⟩, hmem', heq⟩ := List.mem_map.mp hmem
    simp only [Prod.map, id, Prod.mk.injEq] at heq
    obtain ⟨rfl, rfl⟩ := heq
    obtain ⟨ho, hgood, hgt⟩ := hz n' o hmem'
    simp only [parentOf_map]
    rw [ho]
    exact ⟨span_ok (build nan e) ⟨parentCtx ext outs n'.parentIdx, n'.newRoot, n'.genTid, n'.genSid, n'.script⟩ hgood.1,
      sampler_answer_ok nan e ⟨parentCtx ext outs n'.parentIdx, n'.newRoot, n'.genTid, n'.genSid, n'.script⟩
        (newSpan_good _ _ hgood hgt).2⟩
  · apply export_zip ext nodes _ hlen
    intro n o hmem
    obtain ⟨ho, hgood, _⟩ := hz n o hmem
    rw [ho]
    exact ⟨export_pred _ (span_sampled_is_recording (build nan e)
      ⟨parentCtx ext outs n.parentIdx, n.newRoot, n.genTid, n.genSid, n.script⟩ hgood.1), rfl⟩

/-- **whatever stock span processor feeds the exporter** — simple, batch, batch `WithBlocking()`, batch with a
small export batch, blocking batch with queue and batch size 1 — after ending the spans and flushing it holds
exactly the sampled spans of the tree (`Spec.exportOK`): the model has one filter for all configurations
(`exportedBy`), the driver checks every configuration's exporter against it on every tree line. -/
theorem tree_export_every_processor (p : Proc) (nan : Nat) (e : SExpr) (ext : Ctx) (nodes : List NodeIn)
    (hf : ext.flags < 256) (ht : ext.tid.length = 16) (hg : ∀ n ∈ nodes, n.genTid.length = 16)
    (hwf : WellFormed nodes) :
    let outs := runTree (build nan e) ext nodes []
    Spec.exportOK ext nodes (outs.map Spec.obsOf) (exportedBy p outs) = true :=
  (tree_spec nan e ext nodes hf ht hg hwf).2

/-- in particular a RecordOnly span (recording, sampled flag clear) is never handed to any exporter -/
theorem record_only_never_exported (p : Proc) (outs : List StartOut) (o : StartOut)
    (ho : o.ctx.sampled = false) :
    ∀ x ∈ exportedBy p (outs ++ [o]), x ∈ exportedBy p outs := by
  intro x hx
  unfold exportedBy exportedOf at hx ⊢
  simp only [List.reverse_append, List.reverse_cons, List.reverse_nil, List.nil_append, List.singleton_append,
    List.filter_cons, ho, Bool.and_false, Bool.false_eq_true, if_false] at hx
  exact hx

/-- non-vacuity: a RecordOnly span next to a sampled one: only the sampled one is exported, by every processor -/
example :
    let outs := runTree .custom Ctx.zero
      [⟨-1, false, zeros 15 ++ [1], zeros 7 ++ [1], ⟨1, none⟩⟩, ⟨-1, false, zeros 15 ++ [2], zeros 7 ++ [2], ⟨2, none⟩⟩] []
    outs.map (·.recording) = [true, true] ∧ outs.map (·.ctx.sampled) = [false, true]
    ∧ ∀ p ∈ Proc.all, (exportedBy p outs).map (·.sid) = [zeros 7 ++ [2]] := by
  decide

/-- non-vacuity: a well-formed tree of four nodes under a sampled remote parent with default `ParentBased(never)`:
a root-level child (0), a child of it (1), a child of that child (2), and a new root (3) hanging under node 1.
The hypotheses hold, the conclusions compute to true, and the exporter gets nodes 2, 1, 0 (not the new root,
which the root sampler `never` drops). -/
example :
    let e : SExpr := .pb .never .always .never .always .never
    let ext : Ctx := ⟨zeros 15 ++ [7], zeros 7 ++ [9], 1, [97], true⟩
    let nodes : List NodeIn :=
      [⟨-1, false, zeros 15 ++ [1], zeros 7 ++ [1], default⟩, ⟨0, false, zeros 15 ++ [2], zeros 7 ++ [2], default⟩,
       ⟨1, false, zeros 15 ++ [3], zeros 7 ++ [3], default⟩, ⟨1, true, zeros 15 ++ [4], zeros 7 ++ [4], default⟩]
    let outs := runTree (build 0 e) ext nodes []
    ext.flags < 256 ∧ ext.tid.length = 16 ∧ (∀ n ∈ nodes, n.genTid.length = 16) ∧ WellFormed nodes
    ∧ Spec.treeOK e ext nodes (outs.map Spec.obsOf) = true
    ∧ Spec.exportOK ext nodes (outs.map Spec.obsOf) (exportedOf outs) = true
    ∧ (exportedOf outs).map (·.sid) = [zeros 7 ++ [3], zeros 7 ++ [2], zeros 7 ++ [1]]
    ∧ (outs.map (·.ctx.tid)) = [zeros 15 ++ [7], zeros 15 ++ [7], zeros 15 ++ [7], zeros 15 ++ [4]] := by
  decide

/-- the hypothesis `WellFormed` cannot be dropped: a node naming itself as its parent is started by the model
under the zero-length default context (the harness never produces such a tree), and the result fails
`Spec.treeOK` -/
example :
    let nodes : List NodeIn := [⟨0, false, zeros 15 ++ [1], zeros 7 ++ [2], ⟨2, none⟩⟩]
    ¬ WellFormed nodes
    ∧ Spec.treeOK .always Ctx.zero nodes ((runTree (build 0 .always) Ctx.zero nodes []).map Spec.obsOf) = false := by
  decide

/-! ## provider.go: option / environment / default precedence of the provider's sampler -/

private theorem foldl_withSampler (opts : List (Option Sampler)) (init : Option Sampler) :
    opts.foldl withSampler init =
      match opts.reverse.find? (·.isSome) with
      | some (some s) => some s
      | _ => init := by
  induction opts generalizing init with
  | nil => rfl
  | cons o rest ih =>
    rw [List.foldl_cons, ih, List.reverse_cons, List.find?_append]
    cases h : rest.reverse.find? (·.isSome) with
    | some x =>
      cases x with
      | some s => simp
      | none => have := List.find?_some h; simp at this
    | none => cases o <;> simp [withSampler]

/-- **the provider's sampler**: the LAST non-nil `WithSampler` option wins (a `WithSampler(nil)` anywhere is ignored);
without one, the sampler `OTEL_TRACES_SAMPLER` names; without that, `ParentBased(AlwaysSample())`; an error is handed
to the global handler exactly when the environment was set and not understood — for every option list and every
environment (`Spec.providerRef` is also the oracle of the `prov` lines) -/
theorem provider_sampler_precedence (env : Option Sampler × EnvErr) (opts : List (Option Sampler)) :
    Spec.providerOK env opts (providerSampler env opts) = true := by
  simp only [Spec.providerOK, Spec.providerRef, providerSampler, foldl_withSampler, beq_iff_eq]
  cases h : opts.reverse.find? (·.isSome) with
  | some x =>
    cases x with
    | some s => simp
    | none => have := List.find?_some h; simp at this
  | none => cases env.1 <;> simp [withSampler, parentBasedDefault]

/-- the option overrides the environment, whatever the environment says (even an erroneous one) -/
theorem provider_last_option_wins (env : Option Sampler × EnvErr) (opts : List (Option Sampler)) (s : Sampler)
    (nils : Nat) : (providerSampler env (opts ++ [some s] ++ List.replicate nils none)).1 = s := by
  simp only [providerSampler, List.foldl_append, List.foldl_cons, List.foldl_nil, withSampler]
  induction nils with
  | zero => simp
  | succ n ih => simp [List.replicate_succ', List.foldl_append, withSampler] at ih ⊢; exact ih

/-- `WithSampler(nil)` changes nothing, wherever it stands -/
theorem provider_nil_option_ignored (env : Option Sampler × EnvErr) (a b : List (Option Sampler)) :
    providerSampler env (a ++ none :: b) = providerSampler env (a ++ b) := by
  simp [providerSampler, List.foldl_append, withSampler]

/-- no option, nothing (usable) in the environment: `ParentBased(AlwaysSample())` — a child follows its parent's
sampled flag, a root is sampled; an unsupported sampler name is reported and gives the same default -/
theorem provider_default (e : EnvErr) (nils : Nat) (sc : Script) (psc : Ctx) (tid : Bytes) :
    (providerSampler (none, e) (List.replicate nils none)).1 = parentBasedDefault .always
    ∧ shouldSample (providerSampler (none, e) (List.replicate nils none)).1 sc psc tid =
        (if psc.valid then (if psc.sampled then (dRecordAndSample, psc.ts, "always") else (dDrop, psc.ts, "never"))
         else (dRecordAndSample, psc.ts, "always"))
    ∧ ((providerSampler (none, e) (List.replicate nils none)).2 = true ↔ e ≠ .ok) := by
  have h1 : (providerSampler (none, e) (List.replicate nils none)).1 = parentBasedDefault .always := by
    have := provider_sampler_precedence (none, e) (List.replicate nils none)
    simp only [Spec.providerOK, Spec.providerRef, beq_iff_eq] at this
    rw [this]
    simp [parentBasedDefault]
  refine ⟨h1, ?_, ?_⟩
  · rw [h1, parent_based_follows_parent]; simp [shouldSample]
  · simp [providerSampler]

/-- non-vacuity: an unsupported name in the environment, two options, the second one nil -/
example : providerSampler (samplerFromEnv (some (str "jaeger_remote")) false .err 0) [some .never, none]
    = (.never, true) := by decide
example : providerSampler (samplerFromEnv (some (str "always_off")) false .err 0) [none]
    = (.never, false) := by decide

/-! ## tracer.go: SamplingParameters and SamplingResult.Attributes -/

/-- **the sampler is shown the start configuration as given**: name, RAW span kind (not yet validated), the start
attributes and the links, whatever it then decides -/
theorem sampler_sees_start_config (kind : Nat) (name : Bytes) (cfg : List AttrKV) (nLinks dec : Nat) (sa : List AttrKV) :
    let o := startParams kind name cfg nLinks dec sa
    o.seenName = name ∧ o.seenKind = kind ∧ o.seenAttrs = cfg ∧ o.seenLinks = nLinks ∧ o.recording = isRecording dec :=
  ⟨rfl, rfl, rfl, rfl, rfl⟩

/-- a recording span carries the VALIDATED kind: the five defined kinds as they are, everything else Internal -/
theorem span_kind_validated (kind : Nat) (name : Bytes) (cfg : List AttrKV) (nLinks dec : Nat) (sa : List AttrKV)
    (hr : isRecording dec = true) :
    (startParams kind name cfg nLinks dec sa).spanKind = (if kind = 0 ∨ kind > 5 then 1 else kind) := by
  simp only [startParams, hr, if_true, validateKind]
  by_cases h : 1 ≤ kind ∧ kind ≤ 5
  · have : ¬ (kind = 0 ∨ kind > 5) := by omega
    simp [h, this]
  · have : kind = 0 ∨ kind > 5 := by omega
    simp [h, this]

/-- **the sampler's attributes are set first, the start options' after them**: under every key a reader of the started
span finds the LAST value set in the order sampler attributes, start attributes -/
theorem start_attribute_values (sa cfg : List AttrKV) (k : Nat) :
    getKV (startAttrs sa cfg) k = Spec.lastValue (sa ++ cfg) k := by
  unfold startAttrs
  rw [getKV_foldl]
  cases Spec.lastValue (sa ++ cfg) k <;> simp [getKV]

/-- … so a start option overrides the sampler's attribute of the same key, and a key only the sampler sets is kept -/
theorem start_option_overrides_sampler_attribute (sa cfg : List AttrKV) (k : Nat) :
    (∀ v, Spec.lastValue cfg k = some v → getKV (startAttrs sa cfg) k = some v) ∧
    (Spec.lastValue cfg k = none → getKV (startAttrs sa cfg) k = Spec.lastValue sa k) := by
  rw [start_attribute_values]
  simp only [Spec.lastValue, List.reverse_append, List.find?_append]
  constructor
  · intro v hv
    cases h : cfg.reverse.find? (·.1 == k) with
    | some x => rw [h] at hv; simpa using hv
    | none => rw [h] at hv; simp at hv
  · intro hn
    cases h : cfg.reverse.find? (·.1 == k) with
    | some x => rw [h] at hn; simp at hn
    | none => simp

example : startAttrs [(1, 10), (2, 20)] [(2, 21), (3, 30), (2, 22)] = [(1, 10), (2, 22), (3, 30)] := by decide

/-- the full oracle of the `sparams` lines (distinct keys, order by first occurrence) — evaluated on every line, not
proved -/
def start_params_ok_statement : Prop :=
  ∀ (kind : Nat) (name : Bytes) (cfg : List AttrKV) (nLinks dec : Nat) (sa : List AttrKV),
    let o := startParams kind name cfg nLinks dec sa
    Spec.startParamsOK kind name cfg nLinks dec sa o.seenName o.seenKind o.seenAttrs o.seenLinks o.recording o.spanKind
      o.attrs = true

/-! ## Sampler.Description() -/

/-- **the description determines the sampler**: two stock samplers (AlwaysSample, NeverSample, TraceIDRatioBased,
ParentBased with any combination of its four options, nested to any depth) with the same Description() have the same
structure — same constructor at every position, same rendered ratio at every TraceIDRatioBased leaf. (`wf`: a `%g`
rendering contains no `}`.) In particular no two different ParentBased option combinations print the same text. -/
theorem description_determines_sampler (a b : DS) (ha : a.wf = true) (hb : b.wf = true)
    (h : describe a = describe b) : a = b :=
  (describe_prefix_free a b [] [] ha hb (by simpa using h)).1

/-- which text TraceIDRatioBased prints: `fraction >= 1` is AlwaysSample (its description, not a ratio's), `fraction <= 0`
prints 0, NaN and everything in between print the fraction as rendered -/
theorem description_of_ratio (bits : UInt64) (g : List Char) :
    describe (ratioDS bits g) =
      if geOne bits then litA else if leZero bits then litR ++ ['0', '}'] else litR ++ (g ++ ['}']) := by
  unfold ratioDS
  by_cases h1 : geOne bits = true
  · simp [h1, describe]
  · by_cases h2 : leZero bits = true <;> simp [h1, h2, describe]

/-- non-vacuity: two ParentBased samplers that differ in one option print different texts -/
example : describe (.pb .always .never .never .always .never) ≠ describe (.pb .always .always .never .always .never) :=
  fun h => absurd (description_determines_sampler _ _ rfl rfl h) (by decide)

example : describe (ratioDS 0x3FE0000000000000 ['0', '.', '5']) = litR ++ ['0', '.', '5', '}'] := by decide

end Otel.C09
