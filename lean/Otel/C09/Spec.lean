/-
C09 — the property restated independently of the model's functions (executable, Bool-valued).
Only the *data types* of Model.lean are shared (Ctx, SExpr, Script, GenCall, Exported, PF, EnvErr);
none of `newSpan`, `shouldSample`, `floorBound`, `traceIDRatioBased`, `readValid`, `samplerFromEnv`
is used here. The same predicates are (a) conclusions of the theorems in Props.lean and (b) the oracle the
driver evaluates on what the implementation returned.
-/
import Otel.C09.Model
namespace Otel.C09.Spec
open Otel Otel.C09

/-! ## ratios as exact rationals -/

/-- sign-magnitude key: the IEEE order on non-NaN bit patterns is the order of the keys (-0 = +0) -/
def key (b : UInt64) : Int :=
  if b.toNat < 2 ^ 63 then (b.toNat : Int) else - ((b.toNat - 2 ^ 63 : Nat) : Int)

def nan (b : UInt64) : Bool := (b.toNat % 2 ^ 63) > 0x7FF0000000000000

/-- IEEE `a ≤ b` for non-NaN values -/
def ieeeLe (a b : UInt64) : Bool := key a ≤ key b

/-- the exact value of a non-negative binary64 (including +Inf, read as a huge number) is
`num b / 2^1075` -/
def num (b : UInt64) : Nat :=
  let e := (b.toNat / 2 ^ 52) % 2048
  let f := b.toNat % 2 ^ 52
  if e = 0 then f * 2 else (2 ^ 52 + f) * 2 ^ e

def negOrZero (b : UInt64) : Bool := b.toNat ≥ 2 ^ 63 || b.toNat = 0

/-- the 63-bit number the ratio sampler looks at: bits 1..63 of the low half of the trace id -/
def tidLow63 (tid : Bytes) : Nat := (beNat tid % 2 ^ 64) / 2

/-- Reference decision for ratio `r` (not NaN) on the 63-bit number `x`:
r ≥ 1 samples everything, r ≤ 0 nothing, otherwise `x` is sampled iff `x + 1 ≤ r · 2^63`
(cross-multiplied: `(x+1) · 2^1012 ≤ num r`), i.e. exactly the `⌊r · 2^63⌋` smallest numbers. -/
def ratioRef (r : UInt64) (x : Nat) : Bool :=
  if negOrZero r then false
  else if num r ≥ 2 ^ 1075 then true
  else (x + 1) * 2 ^ 1012 ≤ num r

/-! ## reference semantics of a sampler expression -/

/-- which delegate of a parent-based sampler is consulted: by the span context the sampler sees -/
def pick : SExpr → Ctx → SExpr
  | .pb root rs rns ls lns, p =>
    if !(idValid p.tid && idValid p.sid) then pick root p
    else match p.remote, p.flags % 2 == 1 with
      | true, true => pick rs p
      | true, false => pick rns p
      | false, true => pick ls p
      | false, false => pick lns p
  | s, _ => s

/-- the answer a sampler built from `e` must give; none = not determined by the specification
(NaN ratio: the Go conversion is platform-defined) -/
def refAnswer (e : SExpr) (sc : Script) (seenP : Ctx) (seenTid : Bytes) : Option (Nat × Bytes) :=
  match pick e seenP with
  | .always => some (2, seenP.ts)
  | .never => some (0, seenP.ts)
  | .ratio r => if nan r then none else some (if ratioRef r (tidLow63 seenTid) then 2 else 0, seenP.ts)
  | .custom => some (sc.dec, match sc.ts with | some t => t | none => seenP.ts)
  | .pb .. => none

/-! ## one started span -/

/-- what is observed of one `Start` -/
structure Obs where
  ctx : Ctx
  recording : Bool
  call : GenCall
  ansDec : Nat
  ansTs : Bytes
  seenTid : Bytes
  seenP : Ctx
deriving DecidableEq, Repr, Inhabited

/-- the observable part of a model result -/
def obsOf (o : StartOut) : Obs := ⟨o.ctx, o.recording, o.call, o.ansDec, o.ansTs, o.seenTid, o.seenP⟩

/-- sampled flag ⇔ the sampler answered RecordAndSample; the other flag bits are the parent's -/
def flagsOK (parentFlags : Nat) (o : Obs) : Bool :=
  ((o.ctx.flags % 2 == 1) == (o.ansDec == 2)) && o.ctx.flags / 2 == parentFlags / 2

/-- records ⇔ the answer is RecordOnly or RecordAndSample (for the three valid decisions: ⇔ not Drop) -/
def recordingOK (o : Obs) : Bool := o.recording == (o.ansDec == 1 || o.ansDec == 2)

/-- trace id: the parent's iff the parent's trace id is valid and the span is not a new root;
otherwise the generator's fresh one. The span id is always the generator's. -/
def idsOK (parent : Ctx) (newRoot : Bool) (genTid genSid : Bytes) (o : Obs) : Bool :=
  let inherit := !newRoot && idValid parent.tid
  o.ctx.sid == genSid
  && o.ctx.tid == (if inherit then parent.tid else genTid)
  && o.call == (if inherit then GenCall.newSpanID else GenCall.newIDs)

/-- the span's tracestate is the one the sampler returned; the new span context is local -/
def tracestateOK (o : Obs) : Bool := o.ctx.ts == o.ansTs && o.ctx.remote == false

/-- the sampler is asked about the span's own trace id and sees the parent (nothing for a new root) -/
def seenOK (parent : Ctx) (newRoot : Bool) (o : Obs) : Bool :=
  o.seenTid == o.ctx.tid && o.seenP == (if newRoot then Ctx.zero else parent)

def spanOK (parent : Ctx) (newRoot : Bool) (genTid genSid : Bytes) (o : Obs) : Bool :=
  flagsOK (if newRoot then 0 else parent.flags) o && recordingOK o && idsOK parent newRoot genTid genSid o
  && tracestateOK o && seenOK parent newRoot o

/-- the sampler's answer is the reference answer (when the specification determines it) -/
def answerOK (e : SExpr) (sc : Script) (o : Obs) : Bool :=
  match refAnswer e sc o.seenP o.seenTid with
  | none => true
  | some (d, ts) => o.ansDec == d && o.ansTs == ts

/-! ## a tree of spans and what the exporter received -/

def parentOf (ext : Ctx) (obs : List Obs) (idx : Int) : Ctx :=
  if idx < 0 then ext else (obs.getD idx.toNat default).ctx

/-- every node satisfies `spanOK`/`answerOK` w.r.t. the *observed* context of its parent -/
def treeOK (e : SExpr) (ext : Ctx) (nodes : List NodeIn) (obs : List Obs) : Bool :=
  nodes.length == obs.length &&
  (nodes.zip obs).all (fun (n, o) =>
    spanOK (parentOf ext obs n.parentIdx) n.newRoot n.genTid n.genSid o && answerOK e n.script o)

/-- spans are ended in reverse start order: the exporter holds exactly the spans whose sampled flag is set,
once each, in that order, each naming its parent (zero for a new root) -/
def exportOK (ext : Ctx) (nodes : List NodeIn) (obs : List Obs) (exp : List Exported) : Bool :=
  let want := ((nodes.zip obs).reverse.filter (fun (_, o) => o.ctx.flags % 2 == 1)).map (fun (n, o) =>
    let p := if n.newRoot then Ctx.zero else parentOf ext obs n.parentIdx
    (⟨o.ctx.sid, o.ctx.tid, p.tid, p.sid⟩ : Exported))
  exp == want

/-! ## id generator -/

/-- `id` is the first chunk of `n` bytes of the stream that is not all zero (chunks before it are all
zero); returns the rest of the stream -/
def stripTo (n : Nat) (id : Bytes) : Nat → Bytes → Option Bytes
  | 0, _ => none
  | fuel + 1, st =>
    if st.length < n then none
    else if st.take n == id then (if id.all (· == 0) then none else some (st.drop n))
    else if (st.take n).all (· == 0) then stripTo n id fuel (st.drop n)
    else none

/-- the ids returned for a script of generator calls are non-zero, of the right sizes, and are read off
the stream in order skipping only all-zero chunks -/
def genOK : List Bool → Bytes → List Bytes → Bool
  | [], _, [] => true
  | true :: ops, st, tid :: sid :: ids =>
    tid.length == 16 && sid.length == 8 && tid.any (· != 0) && sid.any (· != 0) &&
    (match stripTo 16 tid (st.length + 1) st with
     | none => false
     | some st1 => match stripTo 8 sid (st1.length + 1) st1 with
       | none => false
       | some st2 => genOK ops st2 ids)
  | false :: ops, st, sid :: ids =>
    sid.length == 8 && sid.any (· != 0) &&
    (match stripTo 8 sid (st.length + 1) st with
     | none => false
     | some st1 => genOK ops st1 ids)
  | _, _, _ => false

/-! ## OTEL_TRACES_SAMPLER table -/

inductive ArgClass where | absent | garbage | negative | tooBig | ratio (bits : UInt64)
deriving DecidableEq, Repr

/-- classification of OTEL_TRACES_SAMPLER_ARG by the *value* ParseFloat produced -/
def argClass (hasArg : Bool) (pf : PF) : ArgClass :=
  if !hasArg then .absent else
  match pf with
  | .err => .garbage
  | .val v =>
    if nan v then .ratio v
    else if key v < 0 then .negative
    else if key v > key onePointZero then .tooBig
    else .ratio v

def table : List (String × Bool × (SExpr → SExpr)) :=
  [ ("always_on", false, fun _ => .always),
    ("always_off", false, fun _ => .never),
    ("traceidratio", true, fun r => r),
    ("parentbased_always_on", false, fun _ => .pb .always .always .never .always .never),
    ("parentbased_always_off", false, fun _ => .pb .never .always .never .always .never),
    ("parentbased_traceidratio", true, fun r => .pb r .always .never .always .never) ]

def lowerTrim (s : Bytes) : Bytes :=
  let sp := fun (b : UInt8) => b == 32 || b == 9 || b == 10 || b == 11 || b == 12 || b == 13
  let t := (s.dropWhile sp).reverse.dropWhile sp |>.reverse
  t.map (fun b => if b ≥ 65 && b ≤ 90 then b + 32 else b)

/-- expected sampler expression and error class for an environment setting -/
def envRef (name : Option Bytes) (hasArg : Bool) (pf : PF) : Option SExpr × EnvErr :=
  match name with
  | none => (none, .ok)
  | some raw =>
    match table.find? (fun (n, _, _) => lowerTrim raw == str n) with
    | none => (none, .unsupported)
    | some (_, usesArg, mk) =>
      if !usesArg then (some (mk .always), .ok)
      else match argClass hasArg pf with
        | .absent => (some (mk (.ratio onePointZero)), .ok)
        | .garbage => (some (mk (.ratio onePointZero)), .parse)
        | .negative => (some (mk (.ratio onePointZero)), .negative)
        | .tooBig => (some (mk (.ratio onePointZero)), .gt1)
        | .ratio v => (some (mk (.ratio v)), .ok)

/-- two samplers are the same for the observer when they have the same shape and the ratio leaves
have the same bound (`always` ≙ every 63-bit number below the bound) -/
def ratioLeaf (r : UInt64) (nanConv : Nat) : Sampler :=
  if nan r then .ratioB nanConv
  else if negOrZero r then .ratioB 0
  else if num r ≥ 2 ^ 1075 then .always
  else .ratioB (num r / 2 ^ 1012)

def shape (nanConv : Nat) : SExpr → Sampler
  | .always => .always
  | .never => .never
  | .ratio r => ratioLeaf r nanConv
  | .custom => .custom
  | .pb a b c d e => .parentBased (shape nanConv a) (shape nanConv b) (shape nanConv c) (shape nanConv d) (shape nanConv e)

/-- oracle for an `env` line: observed sampler structure and error class are the table's -/
def envOK (name : Option Bytes) (hasArg : Bool) (pf : PF) (nanConv : Nat) (obs : Option Sampler × EnvErr) : Bool :=
  let (e, err) := envRef name hasArg pf
  obs == (e.map (shape nanConv), err)


/-- reference for `NewTracerProvider`'s sampler: the LAST non-nil `WithSampler` option; without one the sampler the
environment names; without that `ParentBased(AlwaysSample())`. An environment error is reported exactly when the
environment is set and not understood. -/
def providerRef (env : Option Sampler × EnvErr) (opts : List (Option Sampler)) : Sampler × Bool :=
  let pick : Option Sampler := match opts.reverse.find? (·.isSome) with
    | some (some s) => some s
    | _ => env.1
  (match pick with
   | some s => s
   | none => .parentBased .always .always .never .always .never,
   env.2 != .ok)

def providerOK (env : Option Sampler × EnvErr) (opts : List (Option Sampler)) (obs : Sampler × Bool) : Bool :=
  obs == providerRef env opts

/-- the value a reader finds under key `k` when the attributes `l` were set in this order: the LAST one -/
def lastValue (l : List (Nat × Int)) (k : Nat) : Option Int := (l.reverse.find? (·.1 == k)).map (·.2)

/-- oracle of a `sparams` line, on the observation alone: the sampler saw exactly the start configuration (raw kind);
a recording span has the validated kind, distinct keys, and under every key the last value set — start options after
the sampler's attributes; a non-recording span shows nothing -/
def startParamsOK (kind : Nat) (name : Bytes) (cfgAttrs : List (Nat × Int)) (nLinks dec : Nat)
    (samplerAttrs : List (Nat × Int)) (seenName : Bytes) (seenKind : Nat) (seenAttrs : List (Nat × Int))
    (seenLinks : Nat) (recording : Bool) (spanKind : Nat) (attrs : List (Nat × Int)) : Bool :=
  let all := samplerAttrs ++ cfgAttrs
  seenName == name && seenKind == kind && seenAttrs == cfgAttrs && seenLinks == nLinks &&
  recording == (dec == 1 || dec == 2) &&
  (if recording then
     spanKind == (if kind == 0 || kind > 5 then 1 else kind) &&
     decide (attrs.map (·.1)).Nodup &&
     all.all (fun a => (attrs.find? (·.1 == a.1)).map (·.2) == lastValue all a.1) &&
     attrs.all (fun a => all.any (·.1 == a.1)) &&
     -- order: by first occurrence
     attrs.map (·.1) == (all.map (·.1)).eraseDups
   else attrs.isEmpty)

end Otel.C09.Spec
