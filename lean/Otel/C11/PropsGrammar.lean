/-
C11 — property theorems, third part: the property API (constructors, accessors, String) as inverse
pairs, the property grammar ⇔ `parsePropertyInternal` for every byte string, and the exactness of the
per-member limit.
-/
import Otel.C11.PropsDeep
namespace Otel.C11
open Otel Otel.Utf8 Otel.C11.Spec

/-! ## helpers -/

private theorem isOWS_eq : isOWS = isOWSb := funext fun _ => rfl
private theorem keyChar_fun : (fun b : UInt8 => validateKeyChar b.toNat) = tchar := funext keyChar_tchar'
private theorem valueChar_fun : (fun b : UInt8 => validateValueChar b.toNat) = baggageOctet := funext valueChar_octet'

set_option maxRecDepth 100000 in
private theorem hex_facts : ∀ n : Nat, n < 256 →
    ishex (UInt8.ofNat n) = isHexDigit (UInt8.ofNat n) ∧
    (isHexDigit (UInt8.ofNat n) = true → unhex (UInt8.ofNat n) = hexVal (UInt8.ofNat n)) := by decide

private theorem hex_facts' (c : UInt8) : ishex c = isHexDigit c ∧ (isHexDigit c = true → unhex c = hexVal c) := by
  have := hex_facts c.toNat c.toNat_lt
  rwa [UInt8.ofNat_toNat] at this

private theorem pctOK_pct (a b : UInt8) (r : Bytes) :
    pctOK (0x25 :: a :: b :: r) = (isHexDigit a && isHexDigit b && pctOK r) := by
  rw [pctOK]; simp
private theorem pctDecode_pct (a b : UInt8) (r : Bytes) :
    pctDecode (0x25 :: a :: b :: r) = (hexVal a <<< 4 ||| hexVal b) :: pctDecode r := by
  rw [pctDecode]; simp
private theorem pctDecode_other (c : UInt8) (r : Bytes) (h : c ≠ 0x25) :
    pctDecode (c :: r) = c :: pctDecode r := by
  cases r with
  | nil => simp [pctDecode, h]
  | cons a t => cases t <;> simp [pctDecode, h]

/-- `url.PathUnescape` succeeds exactly on texts in which every `%` starts a `%XX` triplet, and then
gives the percent-decoding -/
private theorem pathUnescape_eq (s : Bytes) :
    pathUnescape s = if pctOK s then some (pctDecode s) else none := by
  induction s using pctOK.induct with
  | case1 => rfl
  | case2 a b r ih =>
    show pathUnescape (cPct :: a :: b :: r) = _
    rw [pathUnescape_pct, pctOK_pct, pctDecode_pct, (hex_facts' a).1, (hex_facts' b).1]
    by_cases ha : isHexDigit a = true
    · by_cases hb : isHexDigit b = true
      · simp only [ha, hb, Bool.and_self, if_true, Bool.true_and, ih, (hex_facts' a).2 ha, (hex_facts' b).2 hb]
        split <;> simp
      · simp [ha, hb]
    · simp [ha]
  | case3 rest hnot =>
    match rest, hnot with
    | [], _ => rfl
    | [_], _ => rfl
    | a :: b :: r, h => exact absurd rfl (h a b r)
  | case4 c rest hc ih =>
    rw [pathUnescape_other c rest hc, pctOK_other c rest hc, pctDecode_other c rest hc, ih]
    split <;> simp

/-! ## grammar ⇔ parser -/

/-- **`parsePropertyInternal` is the property grammar, for every byte string**: it accepts exactly
the strings `propertyAccepts` describes (OWS = space/tab only, token key, optional `=` + OWS +
baggage-octets with well-formed `%XX` + OWS) and returns exactly `propertyDecode`. -/
theorem parseProperty_eq_grammar (s : Bytes) :
    parsePropertyInternal s = if propertyAccepts s then some (propertyDecode s) else none := by
  unfold parsePropertyInternal propertyAccepts propertyDecode propTail propRawOf propAfterKey propKeyOf
  simp only [skipSpace, isOWS_eq]
  generalize hs1 : s.dropWhile isOWSb = s1
  rw [take_keyRun, runeRun_eq _ validateKeyChar_lt, drop_length_takeWhile, keyChar_fun]
  by_cases hk : (s1.takeWhile tchar).length = 0
  · have : s1.takeWhile tchar = [] := List.eq_nil_of_length_eq_zero hk
    simp [this]
  · have hne : (s1.takeWhile tchar).isEmpty = false := by
      cases h : s1.takeWhile tchar with
      | nil => rw [h] at hk; simp at hk
      | cons _ _ => rfl
    simp only [hk, if_false, hne, Bool.not_false, Bool.true_and]
    generalize hs2 : (s1.dropWhile tchar).dropWhile isOWSb = s2
    cases s2 with
    | nil => simp
    | cons c s3 =>
      simp only [List.drop_succ_cons, List.drop_zero]
      by_cases hc : c = cEq
      · subst hc
        generalize hs4 : s3.dropWhile isOWSb = s4
        rw [take_valueRun, runeRun_eq _ validateValueChar_lt, drop_length_takeWhile, valueChar_fun,
          pathUnescape_eq]
        simp only [bne_self_eq_false, Bool.false_eq_true, if_false]
        have : (cEq == (0x3D : UInt8)) = true := by decide
        simp only [this, Bool.true_and]
        by_cases ht : ((s4.dropWhile baggageOctet).dropWhile isOWSb).isEmpty = true
        · by_cases hp : pctOK (s4.takeWhile baggageOctet) = true
          · simp [ht, hp]
          · simp [ht, hp]
        · simp [ht]
      · have h1 : (c != cEq) = true := by simpa using hc
        have h2 : (c == (0x3D : UInt8)) = false := by
          have : cEq = (0x3D : UInt8) := rfl
          rw [← this]; simpa using hc
        simp [h1, h2]

/-- key-only, `key=`, OWS on every side (space and tab), a second `=` inside the value -/
example : parsePropertyInternal [0x20, 0x70, 0x09] = some ⟨[0x70], [], false⟩ ∧
    parsePropertyInternal [0x70, 0x20, 0x3D] = some ⟨[0x70], [], true⟩ ∧
    parsePropertyInternal [0x09, 0x70, 0x20, 0x3D, 0x20, 0x61, 0x3D, 0x25, 0x32, 0x43, 0x09] = some ⟨[0x70], [0x61, 0x3D, 0x2C], true⟩ := by decide
/-- rejected: empty key, two words, unicode space U+00A0 or a newline as "whitespace", a bare `%`,
text after the value -/
example : propertyAccepts [0x3D, 0x31] = false ∧ propertyAccepts [0x70, 0x20, 0x71] = false ∧
    propertyAccepts [0x70, 0xC2, 0xA0] = false ∧ propertyAccepts [0x70, 0x0A] = false ∧
    propertyAccepts [0x70, 0x3D, 0x25] = false ∧ propertyAccepts [0x70, 0x3D, 0x31, 0x20, 0x32] = false := by decide

/-- the grammar read as a decomposition: an accepted string **is** `OWS key OWS` or
`OWS key OWS "=" OWS raw OWS` with a non-empty token key and a run of baggage-octets `raw` — so
whatever the scanner accepts is a property in the sense of the ABNF. -/
theorem propertyAccepts_decomposition (s : Bytes) (h : propertyAccepts s = true) :
    isToken (propKeyOf s) = true ∧ (propRawOf s).all baggageOctet = true ∧ pctOK (propRawOf s) = true ∧
    ∃ o1 o2 o3 o4 : Bytes, o1.all isOWSb = true ∧ o2.all isOWSb = true ∧ o3.all isOWSb = true ∧ o4.all isOWSb = true ∧
      (s = o1 ++ propKeyOf s ++ o2 ∨ s = o1 ++ propKeyOf s ++ o2 ++ 0x3D :: o3 ++ propRawOf s ++ o4) := by
  have tw : ∀ (p : UInt8 → Bool) (l : Bytes), l = l.takeWhile p ++ l.dropWhile p :=
    fun p l => (List.takeWhile_append_dropWhile).symm
  unfold propertyAccepts at h
  simp only [Bool.and_eq_true, Bool.not_eq_true', List.isEmpty_eq_false_iff] at h
  obtain ⟨hkne, hrest⟩ := h
  have htok : isToken (propKeyOf s) = true := by
    simp only [isToken, Bool.and_eq_true, Bool.not_eq_true', List.isEmpty_eq_false_iff]
    exact ⟨hkne, all_takeWhile _ _⟩
  have hraw : (propRawOf s).all baggageOctet = true := all_takeWhile _ _
  have hs : s = s.takeWhile isOWSb ++ (propKeyOf s ++
      (((s.dropWhile isOWSb).dropWhile tchar).takeWhile isOWSb ++ propAfterKey s)) := by
    unfold propKeyOf propAfterKey
    rw [← tw, ← tw, ← tw]
  cases hak : propAfterKey s with
  | nil =>
    rw [hak] at hs
    refine ⟨htok, hraw, ?_, s.takeWhile isOWSb, ((s.dropWhile isOWSb).dropWhile tchar).takeWhile isOWSb, [], [],
      all_takeWhile _ _, all_takeWhile _ _, rfl, rfl, Or.inl ?_⟩
    · unfold propRawOf; rw [hak]; rfl
    · simpa using hs
  | cons c t =>
    rw [hak] at hrest
    simp only [Bool.and_eq_true, beq_iff_eq, List.isEmpty_iff] at hrest
    obtain ⟨⟨hc, htail⟩, hpct⟩ := hrest
    subst hc
    have ht : t = t.takeWhile isOWSb ++ (propRawOf s ++
        ((t.dropWhile isOWSb).dropWhile baggageOctet).takeWhile isOWSb) := by
      have e1 : propRawOf s = (t.dropWhile isOWSb).takeWhile baggageOctet := by
        unfold propRawOf; rw [hak]; rfl
      have e2 : ((t.dropWhile isOWSb).dropWhile baggageOctet).dropWhile isOWSb = [] := by
        unfold propTail at htail; rw [hak] at htail; exact htail
      have e3 := tw isOWSb ((t.dropWhile isOWSb).dropWhile baggageOctet)
      rw [e2, List.append_nil] at e3
      rw [e1, ← e3, ← tw, ← tw]
    refine ⟨htok, hraw, hpct, s.takeWhile isOWSb, ((s.dropWhile isOWSb).dropWhile tchar).takeWhile isOWSb,
      t.takeWhile isOWSb, ((t.dropWhile isOWSb).dropWhile baggageOctet).takeWhile isOWSb,
      all_takeWhile _ _, all_takeWhile _ _, all_takeWhile _ _, all_takeWhile _ _, Or.inr ?_⟩
    rw [hak] at hs
    conv => lhs; rw [hs, ht]
    simp [List.append_assoc]

/-! ## the property API: constructors, accessors, String — inverse pairs -/

/-- **accessor laws**: `Key()`/`Value()` of a constructed property return the constructor's
arguments — for `NewKeyValueProperty` the *decoded* value (and the text must be well-formed
percent-encoding); a key-only property reports `("", false)`, as does the zero `Property{}` that a
failing constructor returns. -/
theorem property_accessor_laws (k v : Bytes) :
    (∀ p, newKeyProperty k = some p → p.getKey = k ∧ p.getValue = ([], false)) ∧
    (∀ p, newKeyValuePropertyRaw k v = some p → p.getKey = k ∧ p.getValue = (v, true)) ∧
    (∀ p, newKeyValueProperty k v = some p →
      p.getKey = k ∧ pctOK v = true ∧ p.getValue = (pctDecode v, true) ∧ newKeyValuePropertyRaw k (pctDecode v) = some p) ∧
    zeroProperty.getKey = [] ∧ zeroProperty.getValue = ([], false) := by
  have raw : ∀ k v p, newKeyValuePropertyRaw k v = some p → p.getKey = k ∧ p.getValue = (v, true) := by
    intro k v p h
    unfold newKeyValuePropertyRaw at h
    split at h
    · cases h
    · split at h
      · cases h
      · cases h; exact ⟨rfl, rfl⟩
  refine ⟨?_, raw k v, ?_, rfl, rfl⟩
  · intro p h
    unfold newKeyProperty at h
    split at h
    · cases h; exact ⟨rfl, rfl⟩
    · cases h
  · intro p h
    unfold newKeyValueProperty at h
    split at h
    · cases h
    · split at h
      · cases h
      · rw [pathUnescape_eq] at h
        by_cases hp : pctOK v = true
        · simp only [hp, if_true] at h
          have := raw k _ p h
          exact ⟨this.1, hp, this.2, h⟩
        · simp [hp] at h

example : newKeyValueProperty [0x70] [0x25, 0x32, 0x43, 0x3D] = some ⟨[0x70], [0x2C, 0x3D], true⟩ ∧
    newKeyValueProperty [0x70] [0x25] = none ∧ newKeyValueProperty [0x70] [0x2C] = none ∧
    newKeyValuePropertyRaw [0x70] [0x2C] = some ⟨[0x70], [0x2C], true⟩ ∧ newKeyProperty [] = none := by decide

private theorem ctor_prop_ok (k v : Bytes) (p : Property)
    (h : newKeyProperty k = some p ∨ newKeyValuePropertyRaw k v = some p ∨ newKeyValueProperty k v = some p) :
    validString p.value = true ∧ (p.hasValue || p.value.isEmpty) = true := by
  have raw : ∀ k v p, newKeyValuePropertyRaw k v = some p → validString p.value = true ∧ (p.hasValue || p.value.isEmpty) = true := by
    intro k v p h
    unfold newKeyValuePropertyRaw at h
    split at h
    · cases h
    · split at h
      · cases h
      · rename_i hv
        cases h
        simp only [validateBaggageValue, Bool.not_eq_true] at hv
        exact ⟨by simpa using hv, rfl⟩
  rcases h with h | h | h
  · unfold newKeyProperty at h
    split at h
    · cases h; exact ⟨validString_nil, rfl⟩
    · cases h
  · exact raw k v p h
  · exact raw k _ p ((property_accessor_laws k v).2.2.1 p h).2.2.2

/-- **`String()` and the property parser are inverse** on everything the three constructors can
produce with a token key — any valid UTF-8 value incl. delimiters, `%`, spaces, quotes, `=`; the empty
value *with* `hasValue` (`key=`) as opposed to key-only (`key`): parsing `Property.String()` gives back
exactly the property, the string is in the grammar and decodes to the property. -/
theorem property_string_parse_inverse (k v : Bytes) (p : Property)
    (h : newKeyProperty k = some p ∨ newKeyValuePropertyRaw k v = some p ∨ newKeyValueProperty k v = some p)
    (htok : isToken p.key = true) :
    parsePropertyInternal p.string = some p ∧ propertyAccepts p.string = true ∧ propertyDecode p.string = p := by
  have ⟨h1, h2⟩ := ctor_prop_ok k v p h
  have hok : propOK p = true := by simp [propOK, htok, h1, h2]
  have hp := parseProperty_string p hok
  refine ⟨hp, ?_⟩
  rw [parseProperty_eq_grammar] at hp
  by_cases ha : propertyAccepts p.string = true
  · simp only [ha, if_true, Option.some.injEq] at hp
    exact ⟨ha, hp⟩
  · simp [ha] at hp

example : (⟨[0x70], [], true⟩ : Property).string = [0x70, 0x3D] ∧ (⟨[0x70], [], false⟩ : Property).string = [0x70] ∧
    parsePropertyInternal [0x70, 0x3D] = some ⟨[0x70], [], true⟩ ∧ parsePropertyInternal [0x70] = some ⟨[0x70], [], false⟩ := by decide

/-- a property is dropped from the header (`String() == ""`) exactly when its key is not a token -/
theorem property_string_empty_iff (p : Property) : p.string = [] ↔ isToken p.key = false := by
  unfold Property.string
  rw [validateKey_eq_isToken]
  cases ht : isToken p.key with
  | false => simp
  | true =>
    have hne := (token_all p.key ht).1
    simp only [Bool.not_true, Bool.false_eq_true, if_false]
    cases p.hasValue <;> simp [hne]

/-! ## `Member.String()` / `parseMember`, and the per-member limit is exact -/

/-- **`Member.String()` and `parseMember` are inverse** on every member the constructors can produce
(token keys), *exactly* up to the size limit: the member is parsed back from its own string if and
only if that string has at most 4096 bytes. -/
theorem member_string_parse_inverse (k v : Bytes) (ps : List Property) (m : Member)
    (h : newMemberRaw k v ps = some m ∨ newMember k v ps = some m)
    (htok : (isToken m.key && m.props.all (fun p => isToken p.key)) = true) :
    parseMember m.string = .ok m ↔ m.string.length ≤ maxBytesPerMembers := by
  have hok := ctor_token_memberOK m (constructors_validate k v ps m h) htok
  constructor
  · intro hp; exact (parseMember_sound _ _ hp).2
  · exact parseMember_string m hok

/-- **the 4096-byte limit of `Parse` is exact, for every list-member**: any piece longer than 4096
bytes is rejected with `errMemberBytes` whatever it contains; a well-formed member whose string has
at most 4096 bytes (in particular exactly 4096) is accepted, alone in a header as well; with 4097 to
8192 bytes the header is rejected with `errMemberBytes`. -/
theorem parse_member_limit_exact :
    (∀ s : Bytes, s.length > maxBytesPerMembers → parseMember s = .error .memberBytes) ∧
    (∀ m : Member, memberOK m = true →
      (parseMember m.string = .ok m ↔ m.string.length ≤ maxBytesPerMembers) ∧
      (m.string.length ≤ maxBytesPerMembers → parse (serialize [m]) = .ok [m]) ∧
      (maxBytesPerMembers < m.string.length → m.string.length ≤ maxBytesPerBaggageString →
        parse (serialize [m]) = .error .memberBytes)) := by
  have big : ∀ s : Bytes, s.length > maxBytesPerMembers → parseMember s = .error .memberBytes := by
    intro s h
    unfold parseMember
    simp [h]
  refine ⟨big, ?_⟩
  intro m hok
  have hall : [m].all memberOK = true := by simp [hok]
  have hser : serialize [m] = m.string := by rw [serialize_eq _ hall]; rfl
  have hfacts := memberString_octets_or m hok
  refine ⟨⟨fun hp => (parseMember_sound _ _ hp).2, parseMember_string m hok⟩, ?_, ?_⟩
  · intro hlen
    apply (parse_serialize_iff [m]).mpr
    have h1 : ¬ (maxBytesPerMembers < m.string.length) := by omega
    have h2 : ¬ (maxBytesPerBaggageString < m.string.length) := by
      simp only [maxBytesPerMembers, maxBytesPerBaggageString] at *; omega
    simp [representable, wellFormed, F30_applies, F10_applies, hser, hok, keysNodup, maxMembers, h1, h2]
  · intro h1 h2
    rw [hser]
    have hne : m.string.isEmpty = false := hfacts.2
    have h3 : ¬ (m.string.length > maxBytesPerBaggageString) := by omega
    unfold parse
    simp only [hne, Bool.false_eq_true, if_false, h3]
    rw [splitOn_nosep cComma _ hfacts.1]
    simp [parseLoop, big _ h1]

/-- **`New` does not look at member sizes at all** (F10, general form): with valid members, `New`
accepts as soon as the de-duplicated count is at most 180 and the total serialisation at most 8192 —
whether or not some member serialises above 4096 bytes (corollary of `new_accepts_iff`). -/
theorem new_acceptance_ignores_member_size (ms : List Member) (hne : ms ≠ [])
    (hcnt : (ms.foldl setMember []).length ≤ maxMembers)
    (htot : (serialize (ms.foldl setMember [])).length ≤ maxBytesPerBaggageString) :
    new (ms.map some) = .ok (ms.foldl setMember []) ∧
    (F10_applies (ms.foldl setMember []) = true → representable (ms.foldl setMember []) = false) := by
  refine ⟨(new_accepts_iff ms hne _).mpr ⟨rfl, hcnt, htot⟩, ?_⟩
  intro hf
  simp [representable, F30_applies, hf]

/-! ## grammar ⇔ parser, one level up: list-members -/

private theorem parseProps_eq (l : List Bytes) :
    parseProps l = if l.all (fun p => p.isEmpty || propertyAccepts p) then
      .ok ((l.filter (fun p => !p.isEmpty)).map propertyDecode) else .error .property := by
  induction l with
  | nil => rfl
  | cons p t ih =>
    unfold parseProps
    by_cases he : p.isEmpty = true
    · simp [he, ih]
    · have he' : p.isEmpty = false := by simpa using he
      simp only [he', Bool.false_eq_true, if_false, parseProperty_eq_grammar, List.all_cons, Bool.false_or]
      by_cases ha : propertyAccepts p = true
      · simp only [ha, if_true, ih, Bool.true_and]
        by_cases hr : t.all (fun p => p.isEmpty || propertyAccepts p) = true
        · simp [hr, he']
        · simp [hr]
      · simp [ha]

/-- **`parseMember` is the list-member grammar, for every byte string**: it accepts exactly the
strings `memberAccepts` describes and returns exactly `memberDecode`; everything else is an error. -/
theorem parseMember_eq_grammar (m : Bytes) :
    (memberAccepts m = true → parseMember m = .ok (memberDecode m)) ∧
    (memberAccepts m = false → ∃ e, parseMember m = .error e) := by
  unfold parseMember memberAccepts memberDecode memberPropsOK memberPropsDecode
  rcases hcs : cut cSemi m with ⟨kv, rest, found⟩
  rcases hce : cut cEq kv with ⟨k, v, f⟩
  simp only [hce, parseProps_eq, validateKey_eq_isToken, validateValue_eq, pathUnescape_eq]
  by_cases hlen : m.length > maxBytesPerMembers
  · have : ¬ m.length ≤ maxBytesPerMembers := by omega
    simp [hlen, this]
  · have hle : m.length ≤ maxBytesPerMembers := by omega
    simp only [hlen, if_false, hle, decide_true, Bool.true_and]
    cases found with
    | true =>
      simp only [if_true, Bool.not_true, Bool.false_or]
      by_cases hp : (splitOn cSemi rest).all (fun p => p.isEmpty || propertyAccepts p) = true
      · simp only [hp, if_true, Bool.true_and]
        cases f <;> cases ht : isToken (trimSpace k) <;> cases ho : (trimSpace v).all baggageOctet <;>
          cases hq : pctOK (trimSpace v) <;> simp_all
      · simp [hp]
    | false =>
      simp only [Bool.false_eq_true, if_false, Bool.not_false, Bool.true_or, Bool.true_and]
      cases f <;> cases ht : isToken (trimSpace k) <;> cases ho : (trimSpace v).all baggageOctet <;>
        cases hq : pctOK (trimSpace v) <;> simp_all

/-- OWS (here also U+00A0 and newline, through TrimSpace) around key and value, `=` inside the value,
empty and OWS-padded properties, trailing `;` -/
example : parseMember [0xC2, 0xA0, 0x6B, 0x20, 0x3D, 0x0A, 0x61, 0x3D, 0x62, 0x20, 0x3B, 0x3B, 0x20, 0x70, 0x20, 0x3D, 0x09, 0x31, 0x20, 0x3B] =
    .ok ⟨[0x6B], [0x61, 0x3D, 0x62], [⟨[0x70], [0x31], true⟩]⟩ := by decide
example : memberAccepts [0x6B, 0x3D, 0x31, 0x3B, 0x70, 0xC2, 0xA0] = false ∧ memberAccepts [0x6B] = false ∧
    memberAccepts [0x3D, 0x31] = false ∧ memberAccepts [0x6B, 0x3D, 0x31, 0x3B, 0x3D] = false := by decide

private theorem pieces_eq_grammar (l : List Bytes) (ms : List Member) :
    l.map parseMember = ms.map .ok ↔ l.all memberAccepts = true ∧ ms = l.map memberDecode := by
  induction l generalizing ms with
  | nil => cases ms <;> simp
  | cons p t ih =>
    have hg := parseMember_eq_grammar p
    cases ms with
    | nil => simp
    | cons x u =>
      simp only [List.map_cons, List.cons.injEq, List.all_cons, Bool.and_eq_true, ih]
      cases ha : memberAccepts p with
      | true =>
        rw [hg.1 ha]
        simp only [Except.ok.injEq, true_and]
        constructor
        · rintro ⟨rfl, h1, h2⟩; exact ⟨h1, rfl, h2⟩
        · rintro ⟨h1, rfl, h2⟩; exact ⟨rfl, h1, h2⟩
      | false =>
        obtain ⟨e, he⟩ := hg.2 ha
        rw [he]
        simp

/-- **`Parse` is the header grammar, for every non-empty byte string**: it succeeds exactly when the
header has at most 8192 bytes, every comma-separated piece is a list-member (`memberAccepts`) and the
map built from the decoded members, later ones winning, has at most 180 entries — and returns that map. -/
theorem parse_eq_grammar (s : Bytes) (hne : s ≠ []) (b : Baggage) :
    parse s = .ok b ↔ s.length ≤ maxBytesPerBaggageString ∧ (splitOn cComma s).all memberAccepts = true ∧
      b = ((splitOn cComma s).map memberDecode).foldl setMember [] ∧ b.length ≤ maxMembers := by
  rw [parse_accepts_iff s hne b]
  constructor
  · rintro ⟨h1, ms, h2, h3, h4⟩
    obtain ⟨h5, rfl⟩ := (pieces_eq_grammar _ ms).mp h2
    exact ⟨h1, h5, h3, h4⟩
  · rintro ⟨h1, h2, h3, h4⟩
    exact ⟨h1, _, (pieces_eq_grammar _ _).mpr ⟨h2, rfl⟩, h3, h4⟩

/-- **member accessor laws**: `Key()`, `Value()`, `Properties()` of a constructed member are the
constructor's arguments — for `NewMember` the *decoded* value, and the text must be well-formed
percent-encoding. -/
theorem member_accessor_laws (k v : Bytes) (ps : List Property) (m : Member) :
    (newMemberRaw k v ps = some m → m.getKey = k ∧ m.getValue = v ∧ m.getProperties = ps) ∧
    (newMember k v ps = some m → m.getKey = k ∧ pctOK v = true ∧ m.getValue = pctDecode v ∧ m.getProperties = ps ∧
      newMemberRaw k (pctDecode v) ps = some m) := by
  have raw : ∀ k v, newMemberRaw k v ps = some m → m.getKey = k ∧ m.getValue = v ∧ m.getProperties = ps := by
    intro k v h
    unfold newMemberRaw at h
    split at h
    · cases h
    · split at h
      · cases h
      · split at h
        · cases h; exact ⟨rfl, rfl, rfl⟩
        · cases h
  refine ⟨raw k v, ?_⟩
  intro h
  unfold newMember at h
  split at h
  · cases h
  · split at h
    · cases h
    · rw [pathUnescape_eq] at h
      by_cases hp : pctOK v = true
      · simp only [hp, if_true] at h
        have := raw k _ h
        exact ⟨this.1, hp, this.2.1, this.2.2, h⟩
      · simp [hp] at h

example : newMember [0x6B] [0x25, 0x32, 0x43, 0x3D] [] = some ⟨[0x6B], [0x2C, 0x3D], []⟩ ∧ newMember [0x6B] [0x25] [] = none := by decide

end Otel.C11
