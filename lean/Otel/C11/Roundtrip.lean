/-
C11 — lemmas for the round trip: parsing the serialisation of a well-formed member list gives the
list back.
-/
import Otel.C11.Lemmas
namespace Otel.C11
open Otel Otel.Utf8 Otel.C11.Spec

theorem trimSpace_id (s : Bytes) (h : s.all baggageOctet = true) : trimSpace s = s := by
  cases s with
  | nil => rfl
  | cons c r =>
    have hall : ∀ x ∈ c :: r, asciiSpace x = false ∧ x.toNat < 0x80 := fun x hx =>
      let f := octet_facts' x (List.all_eq_true.mp h x hx); ⟨f.2.2.2.1, f.2.2.2.2.1⟩
    have hc := hall c (by simp)
    unfold trimSpace
    have h1 : (c :: r).dropWhile asciiSpace = c :: r := by simp [hc.1]
    rw [h1]
    simp only
    have hcl : ¬ c.toNat ≥ 0x80 := by omega
    simp only [hcl, if_false]
    cases hrev : (c :: r).reverse with
    | nil => simp at hrev
    | cons d q =>
      have hd := hall d (by
        have : d ∈ (c :: r).reverse := by rw [hrev]; simp
        exact List.mem_reverse.mp this)
      have h2 : (d :: q).dropWhile asciiSpace = d :: q := by simp [hd.1]
      rw [h2]
      simp only
      have : ¬ d.toNat ≥ 0x80 := by omega
      simp only [this, if_false]
      rw [← hrev, List.reverse_reverse]

theorem token_all (k : Bytes) (h : isToken k = true) : k ≠ [] ∧ k.all tchar = true := by
  simpa [isToken] using h

theorem token_octets (k : Bytes) (h : isToken k = true) : k.all baggageOctet = true :=
  all_imp _ _ _ (token_all k h).2 (fun x hx => (tchar_facts' x hx).1)

theorem dropWhile_head {α} (p : α → Bool) (l rest : List α) (hne : l ≠ [])
    (h : l.all (fun x => !p x) = true) : (l ++ rest).dropWhile p = l ++ rest := by
  cases l with
  | nil => exact absurd rfl hne
  | cons a t =>
    simp only [List.all_cons, Bool.and_eq_true, Bool.not_eq_true'] at h
    simp [h.1]

theorem octets_notOWS (s : Bytes) (h : s.all baggageOctet = true) : s.all (fun x => !isOWS x) = true :=
  all_imp _ _ _ h (fun x hx => by simp [(octet_facts' x hx).2.2.1])

theorem octets_valueChars (s : Bytes) (h : s.all baggageOctet = true) :
    s.all (fun b => validateValueChar b.toNat) = true :=
  all_imp _ _ _ h (fun x hx => (octet_facts' x hx).2.2.2.2.2)

theorem octets_ne (s : Bytes) (h : s.all baggageOctet = true) :
    s.all (fun c => c != cComma) = true ∧ s.all (fun c => c != cSemi) = true :=
  ⟨all_imp _ _ _ h (fun x hx => (octet_facts' x hx).1), all_imp _ _ _ h (fun x hx => (octet_facts' x hx).2.1)⟩

/-- a well-formed property is parsed back from its own serialisation -/
theorem parseProperty_string (p : Property) (h : propOK p = true) :
    parsePropertyInternal p.string = some p := by
  obtain ⟨key, value, hasValue⟩ := p
  simp only [propOK, Bool.and_eq_true, Bool.or_eq_true] at h
  obtain ⟨⟨hk, hv⟩, hc⟩ := h
  have ⟨hne, hall⟩ := token_all key hk
  have hkeyOWS : key.all (fun x => !isOWS x) = true := octets_notOWS key (token_octets key hk)
  have hkeyKC : key.all (fun b => validateKeyChar b.toNat) = true :=
    all_imp _ _ _ hall (fun x hx => (tchar_facts' x hx).2.2)
  have hvk : validateKey key = true := by rw [validateKey_eq_isToken]; exact hk
  have hlen0 : key.length ≠ 0 := by intro e; exact hne (List.eq_nil_of_length_eq_zero e)
  unfold Property.string
  simp only [hvk, Bool.not_true, Bool.false_eq_true, if_false]
  cases hasValue with
  | false =>
    have hv0 : value = [] := by simpa using hc
    subst hv0
    simp only [Bool.false_eq_true, if_false]
    unfold parsePropertyInternal
    simp only [skipSpace, dropWhile_none _ _ hkeyOWS]
    rw [runeRun_eq _ validateKeyChar_lt, takeWhile_all _ _ hkeyKC]
    simp [hlen0]
  | true =>
    simp only [if_true]
    have hesc := valueEscape_octets value
    have hescOWS := octets_notOWS _ hesc
    have hescVC := octets_valueChars _ hesc
    have hrun : runeRun validateKeyChar (key ++ cEq :: valueEscape value) = key.length := by
      rw [runeRun_eq _ validateKeyChar_lt, takeWhile_append_sep _ key cEq _ hkeyKC (by decide)]
    have hrun2 : runeRun validateValueChar (valueEscape value) = (valueEscape value).length := by
      rw [runeRun_eq _ validateValueChar_lt, takeWhile_all _ _ hescVC]
    unfold parsePropertyInternal
    simp only [skipSpace, dropWhile_head _ key _ hne hkeyOWS, hrun, hlen0, if_false,
      List.take_left' rfl, List.drop_left' rfl]
    have hd : List.dropWhile isOWS (cEq :: valueEscape value) = cEq :: valueEscape value := by
      simp [show isOWS cEq = false by decide]
    rw [hd]
    simp only [bne_self_eq_false, Bool.false_eq_true, if_false, dropWhile_none _ _ hescOWS, hrun2,
      List.take_length, List.drop_length, List.dropWhile_nil, List.isEmpty_nil, Bool.not_true,
      pathUnescape_valueEscape, replaceInvalid_of_valid _ hv]

theorem propString_octets (p : Property) (h : propOK p = true) :
    p.string.all baggageOctet = true ∧ p.string.isEmpty = false := by
  obtain ⟨key, value, hasValue⟩ := p
  simp only [propOK, Bool.and_eq_true, Bool.or_eq_true] at h
  obtain ⟨⟨hk, _⟩, _⟩ := h
  have hvk : validateKey key = true := by rw [validateKey_eq_isToken]; exact hk
  have hko := token_octets key hk
  have hne := (token_all key hk).1
  unfold Property.string
  simp only [hvk, Bool.not_true, Bool.false_eq_true, if_false]
  cases hasValue with
  | false =>
    simp only [Bool.false_eq_true, if_false]
    exact ⟨hko, by simpa using hne⟩
  | true =>
    simp only [if_true]
    refine ⟨?_, by simp⟩
    simp [hko, valueEscape_octets, show baggageOctet cEq = true by decide]

theorem parseProps_strings (ps : List Property) (h : ps.all propOK = true) :
    parseProps (ps.map Property.string) = .ok ps := by
  induction ps with
  | nil => rfl
  | cons p t ih =>
    simp only [List.all_cons, Bool.and_eq_true] at h
    simp only [List.map_cons, parseProps]
    simp [(propString_octets p h.1).2, parseProperty_string p h.1, ih h.2]

theorem filter_nonempty_strings {α} (f : α → Bytes) (l : List α) (h : ∀ x ∈ l, (f x).isEmpty = false) :
    (l.map f).filter (fun s => !s.isEmpty) = l.map f := by
  apply List.filter_eq_self.mpr
  intro s hs
  obtain ⟨x, hx, rfl⟩ := List.mem_map.mp hs
  simp [h x hx]

theorem joinWith_all (q : UInt8 → Bool) (sep : UInt8) (parts : List Bytes) (hs : q sep = true)
    (h : ∀ p ∈ parts, p.all q = true) : (joinWith sep parts).all q = true := by
  induction parts with
  | nil => rfl
  | cons a t ih =>
    cases t with
    | nil => simpa [joinWith] using h a (by simp)
    | cons b t' =>
      simp only [joinWith, List.all_append, List.all_cons, Bool.and_eq_true]
      exact ⟨h a (by simp), hs, ih (fun p hp => h p (List.mem_cons_of_mem _ hp))⟩

theorem propsString_eq (ps : List Property) (h : ps.all propOK = true) :
    propsString ps = joinWith cSemi (ps.map Property.string) := by
  unfold propsString
  rw [filter_nonempty_strings]
  intro p hp
  exact (propString_octets p (List.all_eq_true.mp h p hp)).2

theorem split_propsString (ps : List Property) (h : ps.all propOK = true) (hne : ps ≠ []) :
    splitOn cSemi (propsString ps) = ps.map Property.string := by
  rw [propsString_eq ps h]
  apply splitOn_join
  · simpa using hne
  · intro s hs
    obtain ⟨p, hp, rfl⟩ := List.mem_map.mp hs
    exact (octets_ne _ (propString_octets p (List.all_eq_true.mp h p hp)).1).2

/-- key=escaped-value part of a member string -/
def kvString (m : Member) : Bytes := m.key ++ cEq :: valueEscape m.value

theorem member_string_eq (m : Member) (hk : isToken m.key = true) :
    m.string = if m.props.length > 0 then kvString m ++ cSemi :: propsString m.props else kvString m := by
  have hvk : validateKey m.key = true := by rw [validateKey_eq_isToken]; exact hk
  unfold Member.string kvString
  simp [hvk]

theorem kvString_octets (m : Member) (hk : isToken m.key = true) : (kvString m).all baggageOctet = true := by
  unfold kvString
  simp [token_octets _ hk, valueEscape_octets, show baggageOctet cEq = true by decide]

/-- a well-formed member within the size limit is parsed back from its own serialisation -/
theorem parseMember_string (m : Member) (hok : memberOK m = true)
    (hlen : m.string.length ≤ maxBytesPerMembers) : parseMember m.string = .ok m := by
  simp only [memberOK, Bool.and_eq_true] at hok
  obtain ⟨⟨hk, hv⟩, hps⟩ := hok
  have hko := token_octets _ hk
  have hkv := kvString_octets m hk
  have hkvSemi := (octets_ne _ hkv).2
  have hkeyEq : m.key.all (fun c => c != cEq) = true :=
    all_imp _ _ _ (token_all _ hk).2 (fun x hx => (tchar_facts' x hx).2.1)
  have hvk : validateKey m.key = true := by rw [validateKey_eq_isToken]; exact hk
  have hvv : validateValue (valueEscape m.value) = true := by
    rw [validateValue_eq]; exact valueEscape_octets _
  have hcutEq : cut cEq (kvString m) = (m.key, valueEscape m.value, true) := cut_sep cEq _ _ hkeyEq
  have hlen' : ¬ m.string.length > maxBytesPerMembers := by omega
  unfold parseMember
  simp only [hlen', if_false]
  rw [member_string_eq m hk]
  by_cases hp : m.props.length > 0
  · have hpne : m.props ≠ [] := by intro e; rw [e] at hp; simp at hp
    simp only [hp, if_true]
    rw [cut_sep cSemi _ _ hkvSemi]
    simp only [if_true, split_propsString _ hps hpne, parseProps_strings _ hps, hcutEq,
      Bool.not_true, Bool.false_eq_true, if_false, trimSpace_id _ hko, hvk,
      trimSpace_id _ (valueEscape_octets _), hvv, pathUnescape_valueEscape, replaceInvalid_of_valid _ hv]
  · have hpe : m.props = [] := by
      cases hm : m.props with
      | nil => rfl
      | cons a t => rw [hm] at hp; simp at hp
    simp only [hp, if_false]
    rw [cut_nosep cSemi _ hkvSemi]
    simp only [Bool.false_eq_true, if_false, hcutEq,
      Bool.not_true, trimSpace_id _ hko, hvk,
      trimSpace_id _ (valueEscape_octets _), hvv, pathUnescape_valueEscape, replaceInvalid_of_valid _ hv]
    cases m
    simp_all


theorem setMember_fresh (b : Baggage) (m : Member) (h : ∀ e ∈ b, (e.key == m.key) = false) :
    setMember b m = b ++ [m] := by
  unfold setMember
  congr 1
  apply List.filter_eq_self.mpr
  intro e he
  have := h e he
  simpa using this

theorem keysNodup_append_mem (acc : List Member) (m : Member) (t : List Member)
    (h : keysNodup (acc ++ m :: t) = true) : ∀ e ∈ acc, (e.key == m.key) = false := by
  induction acc with
  | nil => intro e he; cases he
  | cons a tl ih =>
    simp only [List.cons_append] at h
    rw [keysNodup_cons] at h
    simp only [Bool.and_eq_true, Bool.not_eq_true', List.any_eq_false] at h
    intro e he
    rcases List.mem_cons.mp he with he | he
    · subst he
      have := h.1 m (by simp)
      have h3 : ¬ m.key = e.key := by simpa using this
      have h4 : ¬ e.key = m.key := fun e' => h3 e'.symm
      simpa using h4
    · exact ih h.2 e he

theorem memberString_octets_or (m : Member) (hok : memberOK m = true) :
    m.string.all (fun c => c != cComma) = true ∧ m.string.isEmpty = false := by
  simp only [memberOK, Bool.and_eq_true] at hok
  obtain ⟨⟨hk, _⟩, hps⟩ := hok
  have hkv := (octets_ne _ (kvString_octets m hk)).1
  have hkvne : (kvString m).isEmpty = false := by simp [kvString]
  rw [member_string_eq m hk]
  split
  · refine ⟨?_, by simp⟩
    simp only [List.all_append, List.all_cons, Bool.and_eq_true]
    refine ⟨hkv, by decide, ?_⟩
    rw [propsString_eq _ hps]
    apply joinWith_all _ _ _ (by decide)
    intro s hs
    obtain ⟨p, hp, rfl⟩ := List.mem_map.mp hs
    exact (octets_ne _ (propString_octets p (List.all_eq_true.mp hps p hp)).1).1
  · exact ⟨hkv, hkvne⟩

theorem parseLoop_strings (l acc : List Member) (hk : keysNodup (acc ++ l) = true)
    (hok : l.all memberOK = true) (hlen : ∀ m ∈ l, m.string.length ≤ maxBytesPerMembers) :
    parseLoop (l.map Member.string) acc = .ok (acc ++ l) := by
  induction l generalizing acc with
  | nil => simp [parseLoop]
  | cons m t ih =>
    simp only [List.all_cons, Bool.and_eq_true] at hok
    simp only [List.map_cons, parseLoop, parseMember_string m hok.1 (hlen m (by simp))]
    rw [setMember_fresh acc m (keysNodup_append_mem acc m t hk)]
    rw [ih (acc ++ [m]) (by simpa using hk) hok.2 (fun x hx => hlen x (List.mem_cons_of_mem _ hx))]
    simp

theorem serialize_eq (l : List Member) (hok : l.all memberOK = true) :
    serialize l = joinWith cComma (l.map Member.string) := by
  unfold serialize
  rw [filter_nonempty_strings]
  intro m hm
  exact (memberString_octets_or m (List.all_eq_true.mp hok m hm)).2

theorem joinWith_isEmpty (sep : UInt8) (a : Bytes) (t : List Bytes) (h : a.isEmpty = false) :
    (joinWith sep (a :: t)).isEmpty = false := by
  cases t with
  | nil => simpa [joinWith] using h
  | cons b t' =>
    cases a with
    | nil => simp at h
    | cons x y => simp [joinWith]

/-- the core of the round trip: a key-unique list of well-formed members that serialises within
the three limits is parsed back, in the same order -/
theorem roundtrip_core (l : List Member) (hk : keysNodup l = true) (hok : l.all memberOK = true)
    (hcnt : l.length ≤ maxMembers) (hlen : (serialize l).length ≤ maxBytesPerBaggageString)
    (hmem : ∀ m ∈ l, m.string.length ≤ maxBytesPerMembers) : parse (serialize l) = .ok l := by
  cases hl : l with
  | nil => rfl
  | cons m t =>
    subst hl
    have hser := serialize_eq _ hok
    have hne : (serialize (m :: t)).isEmpty = false := by
      rw [hser]
      simp only [List.map_cons]
      apply joinWith_isEmpty
      exact (memberString_octets_or m (List.all_eq_true.mp hok m (by simp))).2
    have hlen' : ¬ (serialize (m :: t)).length > maxBytesPerBaggageString := by omega
    have hcnt' : ¬ (m :: t).length > maxMembers := by omega
    unfold parse
    simp only [hne, Bool.false_eq_true, if_false, hlen']
    rw [hser, splitOn_join cComma _ (by simp)
      (fun s hs => by
        obtain ⟨x, hx, rfl⟩ := List.mem_map.mp hs
        exact (memberString_octets_or x (List.all_eq_true.mp hok x hx)).1)]
    rw [parseLoop_strings (m :: t) [] (by simpa using hk) hok hmem]
    simp only [List.nil_append, hcnt', if_false]

/-! ### invariance under Go's iteration order -/

theorem keysNodup_iff (l : List Member) : keysNodup l = true ↔ (l.map (·.key)).Nodup := by
  induction l with
  | nil => simp [keysNodup]
  | cons m t ih =>
    rw [keysNodup_cons]
    simp only [Bool.and_eq_true, Bool.not_eq_true', List.any_eq_false, List.map_cons, List.nodup_cons, ih]
    constructor
    · intro ⟨h1, h2⟩
      refine ⟨?_, h2⟩
      intro hmem
      obtain ⟨e, he, hek⟩ := List.mem_map.mp hmem
      have := h1 e he
      simp [hek] at this
    · intro ⟨h1, h2⟩
      refine ⟨?_, h2⟩
      intro e he
      cases hb : (e.key == m.key) with
      | false => simp
      | true =>
        have : e.key = m.key := by simpa using hb
        exact absurd (List.mem_map.mpr ⟨e, he, this⟩) h1

theorem keysNodup_perm (a b : List Member) (h : a.Perm b) (hb : keysNodup b = true) : keysNodup a = true := by
  rw [keysNodup_iff] at hb ⊢
  exact ((h.map _).nodup_iff).mpr hb

theorem all_perm {α} (p : α → Bool) (a b : List α) (h : a.Perm b) (hb : b.all p = true) : a.all p = true := by
  rw [List.all_eq_true] at hb ⊢
  exact fun x hx => hb x (h.mem_iff.mp hx)

theorem serialize_length_perm (a b : List Member) (h : a.Perm b) :
    (serialize a).length = (serialize b).length := by
  unfold serialize
  have hp : ((a.map Member.string).filter (fun s => !s.isEmpty)).Perm ((b.map Member.string).filter (fun s => !s.isEmpty)) :=
    (h.map _).filter _
  have h1 := joinWith_length cComma ((a.map Member.string).filter (fun s => !s.isEmpty))
  have h2 := joinWith_length cComma ((b.map Member.string).filter (fun s => !s.isEmpty))
  have h3 : (((a.map Member.string).filter (fun s => !s.isEmpty)).map (fun p => p.length + 1)).sum =
      (((b.map Member.string).filter (fun s => !s.isEmpty)).map (fun p => p.length + 1)).sum :=
    (hp.map _).sum_nat
  have h4 : ((a.map Member.string).filter (fun s => !s.isEmpty)).isEmpty =
      ((b.map Member.string).filter (fun s => !s.isEmpty)).isEmpty := by
    have := hp.length_eq
    cases hx : (a.map Member.string).filter (fun s => !s.isEmpty) <;>
      cases hy : (b.map Member.string).filter (fun s => !s.isEmpty) <;> simp_all
  rw [h3, h4] at h1
  omega


/-! ### New -/

theorem newLoop_sound (ms : List (Option Member)) (acc b : Baggage) (h : newLoop ms acc = .ok b)
    (hk : keysNodup acc = true) :
    keysNodup b = true ∧ ∀ m ∈ b, m ∈ acc ∨ some m ∈ ms := by
  induction ms generalizing acc with
  | nil => simp only [newLoop] at h; cases h; exact ⟨hk, fun m hm => Or.inl hm⟩
  | cons x tl ih =>
    cases x with
    | none => simp [newLoop] at h
    | some m =>
      simp only [newLoop] at h
      have ⟨h1, h2⟩ := ih _ h (keysNodup_setMember acc m hk)
      refine ⟨h1, ?_⟩
      intro e he
      rcases h2 e he with h3 | h3
      · unfold setMember at h3
        rcases List.mem_append.mp h3 with h4 | h4
        · exact Or.inl (List.mem_filter.mp h4).1
        · simp only [List.mem_singleton] at h4
          subst h4
          exact Or.inr (by simp)
      · exact Or.inr (List.mem_cons_of_mem _ h3)

theorem new_sound (ms : List (Option Member)) (b : Baggage) (h : new ms = .ok b) :
    keysNodup b = true ∧ b.length ≤ maxMembers ∧ (serialize b).length ≤ maxBytesPerBaggageString ∧
    ∀ m ∈ b, some m ∈ ms := by
  unfold new at h
  by_cases he : ms.isEmpty = true
  · simp only [he, if_true] at h
    cases h; exact ⟨rfl, by decide, by decide, fun m hm => by cases hm⟩
  · simp only [he] at h
    cases hb' : newLoop ms [] with
    | error e => simp [hb'] at h
    | ok b' =>
      simp only [hb'] at h
      by_cases h1 : b'.length > maxMembers
      · simp [h1] at h
      · by_cases h2 : (serialize b').length > maxBytesPerBaggageString
        · simp [h1, h2] at h
        · simp only [h1, h2, if_false] at h
          cases h
          have ⟨h3, h4⟩ := newLoop_sound ms [] _ hb' rfl
          refine ⟨h3, by omega, by omega, ?_⟩
          intro m hm
          rcases h4 m hm with h5 | h5
          · cases h5
          · exact h5

theorem ctor_token_memberOK (m : Member) (hc : ctorMemberOK m = true)
    (ht : (isToken m.key && m.props.all (fun p => isToken p.key)) = true) : memberOK m = true := by
  simp only [ctorMemberOK, Bool.and_eq_true, List.all_eq_true] at hc
  simp only [Bool.and_eq_true, List.all_eq_true] at ht
  simp only [memberOK, Bool.and_eq_true, List.all_eq_true]
  refine ⟨⟨ht.1, hc.1.2⟩, ?_⟩
  intro p hp
  have h1 := hc.2 p hp
  have h2 := ht.2 p hp
  simp only [propOK, Bool.and_eq_true]
  exact ⟨⟨h2, h1.1.2⟩, h1.2⟩

/-! ### lookup after set / delete -/

theorem find_filter_ne (b : Baggage) (k : Bytes) :
    (b.filter (fun e => e.key != k)).find? (fun e => e.key == k) = none := by
  induction b with
  | nil => rfl
  | cons a t ih =>
    simp only [List.filter_cons]
    split
    · rename_i h
      have : (a.key == k) = false := by simpa using h
      simp [this, ih]
    · exact ih

theorem find_filter_other (b : Baggage) (k k' : Bytes) (h : k' ≠ k) :
    (b.filter (fun e => e.key != k)).find? (fun e => e.key == k') = b.find? (fun e => e.key == k') := by
  induction b with
  | nil => rfl
  | cons a t ih =>
    simp only [List.filter_cons]
    split
    · simp only [List.find?_cons, ih]
    · rename_i hh
      have hak : a.key = k := by simpa using hh
      have : (a.key == k') = false := by
        rw [hak]; simpa using fun e => h e.symm
      simp [this, ih]

theorem lookup_setMember (b : Baggage) (m : Member) (k : Bytes) :
    lookup (setMember b m) k = if m.key = k then some m else lookup b k := by
  unfold lookup setMember
  rw [List.find?_append]
  by_cases h : m.key = k
  · subst h
    rw [find_filter_ne]
    simp
  · have hk : (m.key == k) = false := by simpa using h
    rw [find_filter_other b m.key k (fun e => h e.symm)]
    simp [hk, h]

theorem lookup_deleteMember (b : Baggage) (key k : Bytes) :
    lookup (deleteMember b key) k = if key = k then none else lookup b k := by
  unfold lookup deleteMember
  by_cases h : key = k
  · subst h; rw [find_filter_ne]; simp
  · rw [find_filter_other b key k (fun e => h e.symm)]; simp [h]

theorem parseLoop_append (l1 l2 : List Bytes) (acc : Baggage) :
    parseLoop (l1 ++ l2) acc = match parseLoop l1 acc with
      | .error e => .error e
      | .ok b => parseLoop l2 b := by
  induction l1 generalizing acc with
  | nil => simp [parseLoop]
  | cons a t ih =>
    simp only [List.cons_append, parseLoop]
    split
    · rfl
    · exact ih _

/-- what the member loop computes: later list-members overwrite earlier ones key by key -/
theorem parseLoop_lookup (l : List Bytes) (acc b : Baggage) (h : parseLoop l acc = .ok b) (k : Bytes) :
    ∃ ms : List Member, l.map parseMember = ms.map .ok ∧
      lookup b k = match ms.reverse.find? (fun m => m.key == k) with
        | some m => some m
        | none => lookup acc k := by
  induction l generalizing acc with
  | nil => simp only [parseLoop] at h; cases h; exact ⟨[], rfl, rfl⟩
  | cons a t ih =>
    unfold parseLoop at h
    split at h
    · cases h
    · rename_i m hm
      obtain ⟨ms, h1, h2⟩ := ih _ h
      refine ⟨m :: ms, by simp [hm, h1], ?_⟩
      rw [h2, List.reverse_cons, List.find?_append]
      cases hf : ms.reverse.find? (fun m => m.key == k) with
      | some x => simp
      | none =>
        simp only [Option.none_or, List.find?_cons, List.find?_nil]
        rw [lookup_setMember]
        by_cases hk : m.key = k
        · simp [hk]
        · have : (m.key == k) = false := by simpa using hk
          simp [hk, this]

end Otel.C11
