/-
C11 — specification predicates (executable; they are the conclusions of the theorems in `Props.lean`
*and* the oracle that `Main.lean` evaluates on what the implementation returned).
Written from the W3C Baggage ABNF / RFC 7230 and from the statement in properties.jsonl, not from
the code's tables.
-/
import Otel.C11.Model
namespace Otel.C11.Spec
open Otel Otel.Utf8 Otel.C11

/-- RFC 7230 §3.2.6 `tchar` -/
def tchar (c : UInt8) : Bool :=
  [0x21, 0x23, 0x24, 0x25, 0x26, 0x27, 0x2A, 0x2B, 0x2D, 0x2E, 0x5E, 0x5F, 0x60, 0x7C, 0x7E].contains c ||
  (0x30 ≤ c && c ≤ 0x39) || (0x41 ≤ c && c ≤ 0x5A) || (0x61 ≤ c && c ≤ 0x7A)

/-- RFC 7230 `token` = 1*tchar -/
def isToken (k : Bytes) : Bool := !k.isEmpty && k.all tchar

/-- W3C `baggage-octet` = %x21 / %x23-2B / %x2D-3A / %x3C-5B / %x5D-7E
(US-ASCII excluding CTLs, whitespace, DQUOTE, comma, semicolon and backslash) -/
def baggageOctet (c : UInt8) : Bool :=
  c == 0x21 || (0x23 ≤ c && c ≤ 0x2B) || (0x2D ≤ c && c ≤ 0x3A) || (0x3C ≤ c && c ≤ 0x5B) ||
  (0x5D ≤ c && c ≤ 0x7E)

def isHexDigit (c : UInt8) : Bool :=
  (0x30 ≤ c && c ≤ 0x39) || (0x41 ≤ c && c ≤ 0x46) || (0x61 ≤ c && c ≤ 0x66)

/-- every `%` starts a `%XX` triplet (no bare percent sign) -/
def pctOK : Bytes → Bool
  | [] => true
  | c :: rest =>
    if c = 0x25 then
      match rest with
      | a :: b :: r => isHexDigit a && isHexDigit b && pctOK r
      | _ => false
    else pctOK rest

/-- what an escaped value must look like: only baggage-octets (hence none of `, ; space " \`, no
control or non-ASCII byte) and no bare `%` -/
def escapedOK (e : Bytes) : Bool := e.all baggageOctet && pctOK e

def propOK (p : Property) : Bool :=
  isToken p.key && validString p.value && (p.hasValue || p.value.isEmpty)

def memberOK (m : Member) : Bool := isToken m.key && validString m.value && m.props.all propOK

def keysNodup : List Member → Bool
  | [] => true
  | m :: tl => !(tl.any (fun e => e.key == m.key)) && keysNodup tl

/-- a baggage as the statement wants it after a successful parse: unique token keys, valid UTF-8
values, token property keys, at most 180 members -/
def wellFormed (b : Baggage) : Bool := keysNodup b && b.all memberOK && b.length ≤ maxMembers

/-- the header respected the size limits: 8192 bytes in total, 4096 per list-member -/
def headerWithinLimits (h : Bytes) : Bool :=
  h.length ≤ maxBytesPerBaggageString && (splitOn cComma h).all (fun m => m.length ≤ maxBytesPerMembers)

/-- oracle for a successful parse of header `h` into `b` -/
def parsedOK (h : Bytes) (b : Baggage) : Bool := headerWithinLimits h && wellFormed b

/-- F10: some member serialises to more than 4096 bytes (the constructor does not check this) -/
def F10_applies (b : Baggage) : Bool := b.any (fun m => m.string.length > maxBytesPerMembers)

/-- F30: the (parsed) baggage does not serialise within the limits any more — per member (as F10)
or in total (possible after `Parse` because each invalid byte obtained from a `%XX` escape, 3 header
bytes, becomes U+FFFD, which is re-escaped as 9 bytes) -/
def F30_applies (b : Baggage) : Bool :=
  F10_applies b || (serialize b).length > maxBytesPerBaggageString

/-- the limits "which the constructor enforces as well" -/
def ctorLimitsOK (b : Baggage) : Bool :=
  b.length ≤ maxMembers && (serialize b).length ≤ maxBytesPerBaggageString && !F10_applies b

/-- lexicographic byte order = Go's string `<` -/
def bytesLt : Bytes → Bytes → Bool
  | [], [] => false
  | [], _ :: _ => true
  | _ :: _, [] => false
  | a :: as, b :: bs => if a < b then true else if b < a then false else bytesLt as bs

def insertSorted (m : Member) : List Member → List Member
  | [] => [m]
  | e :: tl => if bytesLt m.key e.key then m :: e :: tl else e :: insertSorted m tl

/-- members sorted by key (how both sides print a baggage) -/
def canon (b : List Member) : List Member := b.foldr insertSorted []

/-- equality as maps -/
def sameMap (a b : List Member) : Bool := canon a == canon b

/-- right-biased union: the reference for "duplicate keys resolve to the last one" -/
def unionRight (a b : Baggage) : Baggage := a.filter (fun e => !(b.any (fun f => f.key == e.key))) ++ b

/-- reference for `SetMember`: the member is there, every other key is as before -/
def setOK (old : Baggage) (m : Member) (new : Baggage) : Bool :=
  lookup new m.key == some m && new.length == (old.filter (fun e => e.key != m.key)).length + 1 &&
  (old.all (fun e => e.key == m.key || lookup new e.key == some e))

/-- reference for `DeleteMember`: the key is gone, every other key is as before -/
def deleteOK (old : Baggage) (k : Bytes) (new : Baggage) : Bool :=
  (lookup new k).isNone && new.length == (old.filter (fun e => e.key != k)).length &&
  (old.all (fun e => e.key == k || lookup new e.key == some e))

/-- all keys (members and properties) are tokens: what a W3C header can carry -/
def tokenKeys (b : Baggage) : Bool := b.all (fun m => isToken m.key && m.props.all (fun p => isToken p.key))

/-- what the constructors accept: non-empty valid UTF-8 keys, valid UTF-8 values, consistent
properties -/
def ctorMemberOK (m : Member) : Bool :=
  !m.key.isEmpty && validString m.key && validString m.value &&
  m.props.all (fun p => !p.key.isEmpty && validString p.key && validString p.value && (p.hasValue || p.value.isEmpty))

/-! ## deepening (session 3): exact round-trip predicate, size formula, finite-map reference -/

/-- exactly the member lists a W3C header can carry there and back: well formed and still within the
three limits when serialised (= `wellFormed` and not F30) -/
def representable (l : List Member) : Bool := wellFormed l && !F30_applies l

/-- a byte that must be percent-encoded inside a value: `%` itself and everything that is not a W3C
baggage-octet -/
def needsEscape (c : UInt8) : Bool := c == 0x25 || !baggageOctet c

/-- length of the percent-encoded form: one byte, or three for each byte that needs escaping -/
def escLen (v : Bytes) : Nat := v.length + 2 * v.countP needsEscape

/-- `key` or `key=escaped` -/
def propLen (p : Property) : Nat := p.key.length + (if p.hasValue then 1 + escLen p.value else 0)

/-- `key=escaped` followed by `;property` for each property -/
def memberLen (m : Member) : Nat :=
  m.key.length + 1 + escLen m.value + (m.props.map (fun p => propLen p + 1)).sum

/-- members separated by one comma each -/
def headerLen (l : List Member) : Nat := (l.map (fun m => memberLen m + 1)).sum - 1

/-- the size limits as sums over the members (no serialisation needed) -/
def withinLimitsBySum (l : List Member) : Bool :=
  l.length ≤ maxMembers && headerLen l ≤ maxBytesPerBaggageString && l.all (fun m => memberLen m ≤ maxBytesPerMembers)

/-- one step of an edit script on a single value -/
inductive MapOp
  | set (m : Member)
  | del (key : Bytes)
deriving Repr

/-- the reference: a finite map key -> member, as a function -/
def specStep (f : Bytes → Option Member) : MapOp → Bytes → Option Member
  | .set m => fun k => if m.key = k then some m else f k
  | .del key => fun k => if key = k then none else f k

/-- the code's step -/
def applyOp (b : Baggage) : MapOp → Baggage
  | .set m => setMember b m
  | .del key => deleteMember b key

/-- reference for `Extract`: the parent's baggage is kept unless the header is non-empty and parses;
then the result is a non-empty well-formed baggage the header accounts for (it *replaces* the parent's:
no more members than the header has list-members) -/
def extractOK (parent : Baggage) (hdr : Bytes) (result : Baggage) : Bool :=
  sameMap result parent ||
    (!hdr.isEmpty && !result.isEmpty && parsedOK hdr result && result.length ≤ (splitOn cComma hdr).length)

/-! ## the property grammar (W3C: `property = OWS key OWS [ "=" OWS value OWS ]`), positional -/

/-- RFC 7230 `OWS = *( SP / HTAB )` — the only whitespace the property scanner skips (no unicode spaces,
no CR/LF/VT/FF) -/
def isOWSb (c : UInt8) : Bool := c == 0x20 || c == 0x09

/-- value of one hex digit -/
def hexVal (c : UInt8) : UInt8 :=
  if 0x30 ≤ c && c ≤ 0x39 then c - 0x30 else if 0x61 ≤ c && c ≤ 0x66 then c - 0x61 + 10 else c - 0x41 + 10

/-- percent-decoding of a text in which every `%` starts a `%XX` triplet (`pctOK`) -/
def pctDecode : Bytes → Bytes
  | [] => []
  | c :: rest =>
    if c = 0x25 then
      match rest with
      | a :: b :: r => (hexVal a <<< 4 ||| hexVal b) :: pctDecode r
      | _ => []
    else c :: pctDecode rest

/-- the key of a property string: the longest run of `tchar` after the leading OWS -/
def propKeyOf (s : Bytes) : Bytes := (s.dropWhile isOWSb).takeWhile tchar

/-- what follows the key and the OWS after it -/
def propAfterKey (s : Bytes) : Bytes := ((s.dropWhile isOWSb).dropWhile tchar).dropWhile isOWSb

/-- the raw (still percent-encoded) value: the longest run of baggage-octets after `=` and OWS -/
def propRawOf (s : Bytes) : Bytes := (((propAfterKey s).drop 1).dropWhile isOWSb).takeWhile baggageOctet

/-- what follows the raw value and the OWS after it (must be nothing) -/
def propTail (s : Bytes) : Bytes :=
  ((((propAfterKey s).drop 1).dropWhile isOWSb).dropWhile baggageOctet).dropWhile isOWSb

/-- **which strings are properties**: a non-empty token key after optional OWS; then either nothing
but OWS (key-only property), or `=` — the *first* byte after the key and its OWS — followed by OWS, a
(possibly empty) run of baggage-octets in which every `%` starts a `%XX` triplet, and OWS up to the
end. A second `=` is an ordinary value byte; any other byte (`;` `,` quote, unicode space, CR/LF, a
second word) after the key or after the value makes the string invalid. -/
def propertyAccepts (s : Bytes) : Bool :=
  !(propKeyOf s).isEmpty &&
  (match propAfterKey s with
   | [] => true
   | c :: _ => c == 0x3D && (propTail s).isEmpty && pctOK (propRawOf s))

/-- **what an accepted property string denotes**: key-only ⇒ no value; otherwise the percent-decoded
raw value with every invalid UTF-8 byte replaced by U+FFFD -/
def propertyDecode (s : Bytes) : Property :=
  match propAfterKey s with
  | [] => ⟨propKeyOf s, [], false⟩
  | _ :: _ => ⟨propKeyOf s, replaceInvalid (pctDecode (propRawOf s)), true⟩

/-! ## the list-member grammar, positional: `OWS key OWS "=" OWS value OWS *( ";" property )` -/

/-- the property pieces after the first `;`: empty pieces (`;;`, trailing `;`) are skipped, every
other piece must be a property -/
def memberPropsOK (rest : Bytes) : Bool := (splitOn cSemi rest).all (fun p => p.isEmpty || propertyAccepts p)

def memberPropsDecode (rest : Bytes) : List Property :=
  ((splitOn cSemi rest).filter (fun p => !p.isEmpty)).map propertyDecode

/-- **which strings are list-members**: at most 4096 bytes; everything before the first `;` is
`key=value` split at the *first* `=` (a value may contain `=`), both sides trimmed with
`strings.TrimSpace` (so here, unlike inside properties, unicode spaces and CR/LF are stripped too);
the key a token, the value baggage-octets with well-formed `%XX`; every non-empty `;`-piece after it a
property. -/
def memberAccepts (m : Bytes) : Bool :=
  m.length ≤ maxBytesPerMembers &&
  (!(cut cSemi m).2.2 || memberPropsOK (cut cSemi m).2.1) &&
  (cut cEq (cut cSemi m).1).2.2 &&
  isToken (trimSpace (cut cEq (cut cSemi m).1).1) &&
  (trimSpace (cut cEq (cut cSemi m).1).2.1).all baggageOctet &&
  pctOK (trimSpace (cut cEq (cut cSemi m).1).2.1)

def memberDecode (m : Bytes) : Member :=
  ⟨trimSpace (cut cEq (cut cSemi m).1).1,
   replaceInvalid (pctDecode (trimSpace (cut cEq (cut cSemi m).1).2.1)),
   if (cut cSemi m).2.2 then memberPropsDecode (cut cSemi m).2.1 else []⟩

end Otel.C11.Spec
