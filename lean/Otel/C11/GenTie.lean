/-
C11 — generated tie.  `Otel.Gen.C11` is regenerated from /repo's current source by tools/go2lean on every run of
bin/check (checks/gentie.json); the theorems below are re-checked against the regenerated text.
Site: the W3C baggage limits and delimiters of baggage/baggage.go, tied to the constants of the C11 model
(`Otel.C11.maxMembers`, `maxBytesPerMembers`, `maxBytesPerBaggageString`, `cComma`, `cSemi`, `cEq`); and the places
where the limits are *enforced*, as decision skeletons cut around the loops the translator does not follow: the head
of `Parse` (empty string, byte limit before splitting), the tail of `Parse` and of `New` (member count after
de-duplication, then — `New` only — the byte limit of the serialised string), the head of `parseMember` (byte limit
per list-member).  Each comparison is tied to the model constant it must use (`>` not `≥`).
-/
import Otel.Gen.C11
import Otel.C11.Model

namespace Otel.C11.GenTie
open Otel.C11

/-- the three limits enforced by `New` and `Parse` / `parseMember` (`SetMember` and `DeleteMember` enforce none) are the model's -/
theorem gen_limits_eq_model :
    Otel.Gen.C11.maxMembers = (maxMembers : Int) ∧
    Otel.Gen.C11.maxBytesPerMembers = (maxBytesPerMembers : Int) ∧
    Otel.Gen.C11.maxBytesPerBaggageString = (maxBytesPerBaggageString : Int) := by decide

/-- W3C values: 180 list-members, 4096 bytes per member, 8192 bytes per baggage-string -/
theorem gen_limits_values :
    Otel.Gen.C11.maxMembers = 180 ∧ Otel.Gen.C11.maxBytesPerMembers = 4096 ∧
    Otel.Gen.C11.maxBytesPerBaggageString = 8192 := by decide

/-- the delimiters are single bytes and the ones the model splits and joins on -/
theorem gen_delimiters_eq_model :
    Otel.Gen.C11.listDelimiter.toList.map (fun c => c.toNat) = [cComma.toNat] ∧
    Otel.Gen.C11.keyValueDelimiter.toList.map (fun c => c.toNat) = [cEq.toNat] ∧
    Otel.Gen.C11.propertyDelimiter.toList.map (fun c => c.toNat) = [cSemi.toNat] := by decide

/-- a member that fits its own limit always fits the string limit alone (the limits are ordered) -/
theorem gen_limits_ordered :
    Otel.Gen.C11.maxBytesPerMembers ≤ Otel.Gen.C11.maxBytesPerBaggageString ∧ 0 < Otel.Gen.C11.maxMembers := by decide

/-! ### where the limits are enforced -/

/-- `Parse`: an empty string is the empty baggage; otherwise more than `maxBytesPerBaggageString` bytes is an error
before anything is split -/
theorem gen_parse_head (n : Int) (s : String) :
    Otel.Gen.C11.parseHead n s =
      (if s = "" then "empty" else if n > (maxBytesPerBaggageString : Int) then "errBaggageBytes" else "<cut>") := by
  unfold Otel.Gen.C11.parseHead maxBytesPerBaggageString
  by_cases h : s = "" <;> by_cases h2 : n > 8192 <;> simp [h, h2] <;> (try omega) <;> (repeat' split) <;> (try simp_all) <;> omega

/-- `Parse` (after de-duplication): more than `maxMembers` members is an error -/
theorem gen_parse_tail (m : Int) :
    Otel.Gen.C11.parseTail m = (if m > (maxMembers : Int) then "errMemberNumber" else "ok") := by
  unfold Otel.Gen.C11.parseTail maxMembers
  by_cases h : m > 180 <;> simp [h] <;> (try omega) <;> (repeat' split) <;> (try simp_all) <;> omega

/-- `New` (after de-duplication): the member count is checked first, then the size of the serialised string -/
theorem gen_new_tail (m n : Int) :
    Otel.Gen.C11.newTail m n =
      (if m > (maxMembers : Int) then "errMemberNumber"
       else if n > (maxBytesPerBaggageString : Int) then "errBaggageBytes" else "ok") := by
  unfold Otel.Gen.C11.newTail maxMembers maxBytesPerBaggageString
  by_cases h : m > 180 <;> by_cases h2 : n > 8192 <;> simp [h, h2] <;> (try omega) <;> (repeat' split) <;> (try simp_all) <;> omega

/-- `New()` without members is the empty baggage -/
theorem gen_new_head (k : Int) (hk : 0 ≤ k) :
    Otel.Gen.C11.newHead k = (if k = 0 then "empty" else "<cut>") := by
  unfold Otel.Gen.C11.newHead
  by_cases h : k = 0 <;> simp [h] <;> (try omega) <;> (repeat' split) <;> (try simp_all) <;> omega

/-- `parseMember`: a list-member longer than `maxBytesPerMembers` bytes is rejected before it is parsed -/
theorem gen_parse_member_head (n : Int) :
    Otel.Gen.C11.parseMemberHead n = (if n > (maxBytesPerMembers : Int) then "errMemberBytes" else "<cut>") := by
  unfold Otel.Gen.C11.parseMemberHead maxBytesPerMembers
  by_cases h : n > 4096 <;> simp [h] <;> (try omega) <;> (repeat' split) <;> (try simp_all) <;> omega

/-! ### the two character tables and the escaping predicate -/

/-- table lookup in a generated keyed-array literal (absent index = zero value `false`) -/
def tableAt (t : List (Int × Bool)) (n : Nat) : Bool := (t.lookup (n : Int)).getD false

/-- the 128-entry tables `safeKeyCharset` / `safeValueCharset` are the model's `keyCharN` / `valueCharN`, entry by
entry, and have no entry outside 0..127 -/
theorem gen_charsets_eq_model :
    (List.range 128).all (fun n => tableAt Otel.Gen.C11.safeKeyCharset n == keyCharN n) = true ∧
    (List.range 128).all (fun n => tableAt Otel.Gen.C11.safeValueCharset n == valueCharN n) = true ∧
    (Otel.Gen.C11.safeKeyCharset ++ Otel.Gen.C11.safeValueCharset).all (fun e => decide (0 ≤ e.1 ∧ e.1 < 128)) = true := by
  decide

/-- `validateKeyChar` / `validateValueChar`: inside 0..127 the table decides, outside the answer is no — the shape of
the model's `validateKeyChar r = r < 0x80 && keyCharN r` -/
theorem gen_validate_char_shape (inTable : Bool) (c : Int) :
    Otel.Gen.C11.validateKeyChar inTable c = (decide (0 ≤ c ∧ c < 128) && inTable) ∧
    Otel.Gen.C11.validateValueChar inTable c = (decide (0 ≤ c ∧ c < 128) && inTable) := by
  unfold Otel.Gen.C11.validateKeyChar Otel.Gen.C11.validateValueChar
  by_cases h : (0 ≤ c ∧ c < 128) <;> cases inTable <;> simp [h] <;> omega

/-- `shouldEscape` as written today is the model's: '%' is always escaped, any other byte iff it is not a valid value
character -/
theorem gen_should_escape_eq_model (c : UInt8) :
    Otel.Gen.C11.shouldEscape (validateValueChar c.toNat) (c.toNat : Int) = shouldEscape c := by
  unfold Otel.Gen.C11.shouldEscape shouldEscape cPct
  by_cases h : c = 0x25
  · subst h; decide
  · have h1 : ¬ ((c.toNat : Int) = 37) := by
      intro hc; apply h; apply UInt8.toNat_inj.mp; simp; omega
    have h2 : (c == (0x25 : UInt8)) = false := by simpa using h
    simp [h1, h2]

end Otel.C11.GenTie
