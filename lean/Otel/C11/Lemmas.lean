/-
C11 — helper lemmas.
-/
import Otel.C11.Spec
namespace Otel.C11
open Otel Otel.Utf8 Otel.C11.Spec

/-! ### pathUnescape / valueEscape -/

theorem pathUnescape_pct (a b : UInt8) (rest : Bytes) :
    pathUnescape (cPct :: a :: b :: rest) =
      if ishex a && ishex b then (pathUnescape rest).map (fun t => (unhex a <<< 4 ||| unhex b) :: t) else none := by
  rw [pathUnescape]; simp

theorem pathUnescape_other (c : UInt8) (rest : Bytes) (h : c ≠ cPct) :
    pathUnescape (c :: rest) = (pathUnescape rest).map (fun t => c :: t) := by
  conv => lhs; unfold pathUnescape
  simp [h]

set_option maxRecDepth 100000 in
theorem esc_byte : ∀ n : Nat, n < 256 →
    (ishex (upperhex (UInt8.ofNat n >>> 4)) && ishex (upperhex (UInt8.ofNat n &&& 15))) = true ∧
    (unhex (upperhex (UInt8.ofNat n >>> 4)) <<< 4 ||| unhex (upperhex (UInt8.ofNat n &&& 15))) = UInt8.ofNat n := by
  decide

theorem valueEscape_cons (c : UInt8) (r : Bytes) :
    valueEscape (c :: r) =
      (if shouldEscape c then [cPct, upperhex (c >>> 4), upperhex (c &&& 15)] else [c]) ++ valueEscape r := by
  simp [valueEscape]


/-! ### runes vs bytes for ASCII-only predicates -/

theorem chunks_ascii (b : UInt8) (r : Bytes) (h : b.toNat < 0x80) :
    chunks (b :: r) = ⟨[b], b.toNat, false⟩ :: chunks r := by
  rw [chunks_cons]
  have hd : decode (b :: r) = (b.toNat, 1) := by simp [decode, h]
  simp only [hd, List.take_succ_cons, List.take_zero, List.drop_succ_cons, List.drop_zero]
  congr 1
  congr 1
  have : b.toNat ≠ 0xFFFD := by omega
  simp [this]

set_option maxRecDepth 100000 in
private theorem r2 : ∀ n : Nat, n < 256 → 0xC2 ≤ n → n < 0xE0 → 0x80 ≤ (n &&& 0x1F) <<< 6 := by decide
set_option maxRecDepth 100000 in
private theorem r3a : ∀ n : Nat, n < 256 → 0xA0 ≤ n → n ≤ 0xBF → 0x80 ≤ (n &&& 0x3F) <<< 6 := by decide
set_option maxRecDepth 100000 in
private theorem r3b : ∀ n : Nat, n < 256 → 0xE1 ≤ n → n < 0xF0 → 0x80 ≤ (n &&& 0x0F) <<< 12 := by decide
set_option maxRecDepth 100000 in
private theorem r4a : ∀ n : Nat, n < 256 → 0x90 ≤ n → n ≤ 0xBF → 0x80 ≤ (n &&& 0x3F) <<< 12 := by decide
set_option maxRecDepth 100000 in
private theorem r4b : ∀ n : Nat, n < 256 → 0xF1 ≤ n → n < 0xF5 → 0x80 ≤ (n &&& 0x07) <<< 18 := by decide

theorem rune2_ge (b0 b1 : UInt8) (h : valid2 b0 b1) : 0x80 ≤ rune2 b0 b1 := by
  simp only [valid2, Bool.and_eq_true, decide_eq_true_eq] at h
  exact Nat.le_trans (r2 b0.toNat (UInt8.toNat_lt b0) h.1.1 h.1.2) Nat.left_le_or

theorem rune3_ge (b0 b1 b2 : UInt8) (h : valid3 b0 b1 b2) : 0x80 ≤ rune3 b0 b1 b2 := by
  simp only [valid3, Bool.and_eq_true, decide_eq_true_eq] at h
  obtain ⟨⟨⟨⟨h1, h2⟩, h3⟩, h4⟩, _⟩ := h
  unfold rune3
  by_cases he : b0.toNat = 0xE0
  · simp only [he, if_true] at h3
    have h5 : b1.toNat ≤ 0xBF := by
      have := h4; split at this <;> omega
    exact Nat.le_trans (Nat.le_trans (r3a b1.toNat (UInt8.toNat_lt b1) h3 h5) Nat.right_le_or) Nat.left_le_or
  · exact Nat.le_trans (Nat.le_trans (r3b b0.toNat (UInt8.toNat_lt b0) (by omega) h2) Nat.left_le_or) Nat.left_le_or

theorem rune4_ge (b0 b1 b2 b3 : UInt8) (h : valid4 b0 b1 b2 b3) : 0x80 ≤ rune4 b0 b1 b2 b3 := by
  simp only [valid4, Bool.and_eq_true, decide_eq_true_eq] at h
  obtain ⟨⟨⟨⟨⟨h1, h2⟩, h3⟩, h4⟩, _⟩, _⟩ := h
  unfold rune4
  by_cases he : b0.toNat = 0xF0
  · simp only [he, if_true] at h3
    have h5 : b1.toNat ≤ 0xBF := by
      have := h4; split at this <;> omega
    exact Nat.le_trans (Nat.le_trans (Nat.le_trans (r4a b1.toNat (UInt8.toNat_lt b1) h3 h5) Nat.right_le_or) Nat.left_le_or) Nat.left_le_or
  · exact Nat.le_trans (Nat.le_trans (Nat.le_trans (r4b b0.toNat (UInt8.toNat_lt b0) (by omega) h2) Nat.left_le_or) Nat.left_le_or) Nat.left_le_or

/-- a non-ASCII lead byte never decodes to an ASCII rune -/
theorem decode_rune_ge (b : UInt8) (r : Bytes) (h : 0x80 ≤ b.toNat) : 0x80 ≤ (decode (b :: r)).1 := by
  have hb : ¬ b.toNat < 0x80 := by omega
  unfold decode
  simp only [hb, if_false]
  split
  · simp
  · split
    · rename_i h2; exact rune2_ge _ _ h2
    · split
      · simp
      · split
        · rename_i h3; exact rune3_ge _ _ _ h3
        · split
          · simp
          · split
            · rename_i h4; exact rune4_ge _ _ _ _ h4
            · simp

theorem chunks_nonascii (b : UInt8) (r : Bytes) (h : 0x80 ≤ b.toNat) :
    ∃ c cs, chunks (b :: r) = c :: cs ∧ 0x80 ≤ c.rune := by
  rw [chunks_cons]
  exact ⟨_, _, rfl, decode_rune_ge b r h⟩

theorem allRunes_eq (p : Nat → Bool) (hp : ∀ n, p n = true → n < 0x80) (s : Bytes) :
    allRunes p s = s.all (fun b => p b.toNat) := by
  induction s with
  | nil => simp [allRunes]
  | cons b r ih =>
    unfold allRunes at ih ⊢
    by_cases hb : b.toNat < 0x80
    · rw [chunks_ascii b r hb]
      simp [ih]
    · obtain ⟨c, cs, hc, hr⟩ := chunks_nonascii b r (by omega)
      rw [hc]
      have h1 : p c.rune = false := by
        cases hpc : p c.rune with
        | false => rfl
        | true => have := hp _ hpc; omega
      have h2 : p b.toNat = false := by
        cases hpc : p b.toNat with
        | false => rfl
        | true => have := hp _ hpc; omega
      simp [h1, h2]

theorem runeRun_eq (p : Nat → Bool) (hp : ∀ n, p n = true → n < 0x80) (s : Bytes) :
    runeRun p s = (s.takeWhile (fun b => p b.toNat)).length := by
  induction s with
  | nil => simp [runeRun]
  | cons b r ih =>
    unfold runeRun at ih ⊢
    by_cases hb : b.toNat < 0x80
    · rw [chunks_ascii b r hb]
      simp only [List.takeWhile_cons]
      split <;> simp [ih]
    · obtain ⟨c, cs, hc, hr⟩ := chunks_nonascii b r (by omega)
      rw [hc]
      have h1 : p c.rune = false := by
        cases hpc : p c.rune with
        | false => rfl
        | true => have := hp _ hpc; omega
      have h2 : p b.toNat = false := by
        cases hpc : p b.toNat with
        | false => rfl
        | true => have := hp _ hpc; omega
      simp [h1, h2]

theorem validateKeyChar_lt (n : Nat) (h : validateKeyChar n = true) : n < 0x80 := by
  simp [validateKeyChar] at h; exact h.1
theorem validateValueChar_lt (n : Nat) (h : validateValueChar n = true) : n < 0x80 := by
  simp [validateValueChar] at h; exact h.1

set_option maxRecDepth 100000 in
theorem keyChar_tchar : ∀ n : Nat, n < 256 → validateKeyChar n = tchar (UInt8.ofNat n) := by decide
set_option maxRecDepth 100000 in
theorem valueChar_octet : ∀ n : Nat, n < 256 → validateValueChar n = baggageOctet (UInt8.ofNat n) := by decide

theorem keyChar_tchar' (b : UInt8) : validateKeyChar b.toNat = tchar b := by
  have := keyChar_tchar b.toNat (UInt8.toNat_lt b); simpa using this
theorem valueChar_octet' (b : UInt8) : validateValueChar b.toNat = baggageOctet b := by
  have := valueChar_octet b.toNat (UInt8.toNat_lt b); simpa using this

/-- the code's `validateKey` (over runes, table lookup) is exactly RFC 7230 `token` (over bytes) -/
theorem validateKey_eq_isToken (s : Bytes) : validateKey s = isToken s := by
  unfold validateKey isToken
  rw [allRunes_eq _ validateKeyChar_lt]
  congr 1
  apply List.all_congr rfl
  exact keyChar_tchar'

/-- the code's `validateValue` is "every byte is a W3C baggage-octet" -/
theorem validateValue_eq (s : Bytes) : validateValue s = s.all baggageOctet := by
  unfold validateValue
  rw [allRunes_eq _ validateValueChar_lt]
  apply List.all_congr rfl
  exact valueChar_octet'


/-! ### replaceInvalid -/

def fffdChunk : Chunk := ⟨replacementBytes, 0xFFFD, false⟩

theorem fffdChunk_wf : fffdChunk.WF ∧ fffdChunk.invalid = false := by
  refine ⟨⟨by decide, by decide, by decide⟩, rfl⟩

theorem validString_nil : validString [] = true := by decide

/-- the result of `replaceInvalidUTF8Sequences` is always valid UTF-8 -/
theorem replaceInvalid_valid (s : Bytes) : validString (replaceInvalid s) = true := by
  unfold replaceInvalid
  split
  · assumption
  · have hflat : (chunks s).flatMap (fun c => if c.invalid then replacementBytes else c.bytes) =
        flat ((chunks s).map (fun c => if c.invalid then fffdChunk else c)) := by
      simp only [flat, List.flatMap_def, List.map_map]
      congr 1
      apply List.map_congr_left
      intro c _
      simp only [Function.comp]
      split <;> rfl
    have hwf : ∀ c ∈ (chunks s).map (fun c => if c.invalid then fffdChunk else c), c.WF ∧ c.invalid = false := by
      intro c hc
      obtain ⟨d, hd, rfl⟩ := List.mem_map.mp hc
      by_cases hi : d.invalid
      · simp only [hi, if_true]; exact fffdChunk_wf
      · simp only [hi]
        exact ⟨chunks_wf s d hd, by simpa using hi⟩
    rw [hflat]
    unfold validString
    rw [chunks_flat _ hwf]
    simp only [List.all_eq_true]
    intro c hc
    simp [(hwf c hc).2]

theorem replaceInvalid_of_valid (s : Bytes) (h : validString s = true) : replaceInvalid s = s := by
  simp [replaceInvalid, h]

/-! ### small list facts -/

theorem take_length_takeWhile {α} (p : α → Bool) (l : List α) :
    l.take (l.takeWhile p).length = l.takeWhile p := by
  induction l with
  | nil => rfl
  | cons a t ih =>
    simp only [List.takeWhile_cons]
    split <;> simp [ih]

theorem drop_length_takeWhile {α} (p : α → Bool) (l : List α) :
    l.drop (l.takeWhile p).length = l.dropWhile p := by
  induction l with
  | nil => rfl
  | cons a t ih =>
    simp only [List.takeWhile_cons, List.dropWhile_cons]
    split <;> simp [ih]

theorem all_takeWhile {α} (p : α → Bool) (l : List α) : (l.takeWhile p).all p = true := by
  induction l with
  | nil => rfl
  | cons a t ih =>
    simp only [List.takeWhile_cons]
    split
    · rename_i h; simp [h, ih]
    · rfl

/-! ### soundness of the property parser -/

theorem take_keyRun (s : Bytes) :
    s.take (runeRun validateKeyChar s) = s.takeWhile (fun b => validateKeyChar b.toNat) := by
  rw [runeRun_eq _ validateKeyChar_lt, take_length_takeWhile]

theorem take_valueRun (s : Bytes) :
    s.take (runeRun validateValueChar s) = s.takeWhile (fun b => validateValueChar b.toNat) := by
  rw [runeRun_eq _ validateValueChar_lt, take_length_takeWhile]

theorem keyRun_isToken (s : Bytes) (h : runeRun validateKeyChar s ≠ 0) :
    isToken (s.take (runeRun validateKeyChar s)) = true := by
  have hlen : (s.take (runeRun validateKeyChar s)).length ≠ 0 := by
    rw [take_keyRun, ← runeRun_eq _ validateKeyChar_lt]; exact h
  rw [take_keyRun] at hlen ⊢
  unfold isToken
  have h1 := all_takeWhile (fun b : UInt8 => validateKeyChar b.toNat) s
  simp only [Bool.and_eq_true, Bool.not_eq_true', List.isEmpty_eq_false_iff]
  refine ⟨by intro e; rw [e] at hlen; simp at hlen, ?_⟩
  rw [List.all_eq_true] at h1 ⊢
  intro b hb
  rw [← keyChar_tchar']; exact h1 b hb

theorem parsePropertyInternal_sound (s : Bytes) (p : Property) (h : parsePropertyInternal s = some p) :
    propOK p = true := by
  unfold parsePropertyInternal at h
  simp only at h
  split at h
  · cases h
  · rename_i hk
    split at h
    · cases h
      simp [propOK, keyRun_isToken _ hk, validString_nil]
    · split at h
      · cases h
      · split at h
        · cases h
        · split at h
          · cases h
          · cases h
            simp [propOK, keyRun_isToken _ hk, replaceInvalid_valid]

theorem parseProps_sound (l : List Bytes) (ps : List Property) (h : parseProps l = .ok ps) :
    ps.all propOK = true := by
  induction l generalizing ps with
  | nil => simp [parseProps] at h; subst h; rfl
  | cons a t ih =>
    unfold parseProps at h
    split at h
    · exact ih ps h
    · split at h
      · cases h
      · rename_i q hq
        split at h
        · cases h
        · rename_i qs hqs
          cases h
          simp [parsePropertyInternal_sound _ _ hq, ih qs hqs]

theorem parseMember_sound (m : Bytes) (r : Member) (h : parseMember m = .ok r) :
    memberOK r = true ∧ m.length ≤ maxBytesPerMembers := by
  unfold parseMember at h
  split at h
  · cases h
  · rename_i hlen
    simp only at h
    split at h
    · cases h
    · rename_i props hprops
      split at h
      · cases h
      · split at h
        · cases h
        · rename_i hkey
          split at h
          · cases h
          · split at h
            · cases h
            · cases h
              have hps : props.all propOK = true := by
                split at hprops
                · exact parseProps_sound _ _ hprops
                · cases hprops; rfl
              refine ⟨?_, by omega⟩
              rw [validateKey_eq_isToken] at hkey
              have hkey' : isToken (trimSpace (cut cEq (cut cSemi m).fst).fst) = true := by
                simpa using hkey
              simp [memberOK, hkey', replaceInvalid_valid, hps]


/-! ### the map operations keep keys unique -/

theorem keysNodup_cons (m : Member) (tl : List Member) :
    keysNodup (m :: tl) = (!(tl.any (fun e => e.key == m.key)) && keysNodup tl) := rfl

theorem keysNodup_filter (p : Member → Bool) (b : List Member) (h : keysNodup b = true) :
    keysNodup (b.filter p) = true := by
  induction b with
  | nil => rfl
  | cons m tl ih =>
    rw [keysNodup_cons] at h
    simp only [Bool.and_eq_true, Bool.not_eq_true', List.any_eq_false] at h
    simp only [List.filter_cons]
    split
    · rw [keysNodup_cons]
      simp only [Bool.and_eq_true, Bool.not_eq_true', List.any_eq_false]
      refine ⟨?_, ih h.2⟩
      intro e he
      exact h.1 e (List.mem_filter.mp he).1
    · exact ih h.2

theorem keysNodup_append_single (b : List Member) (m : Member) (h : keysNodup b = true)
    (hm : ∀ e ∈ b, (e.key == m.key) = false) : keysNodup (b ++ [m]) = true := by
  induction b with
  | nil => rfl
  | cons a tl ih =>
    rw [keysNodup_cons] at h
    simp only [Bool.and_eq_true, Bool.not_eq_true', List.any_eq_false] at h
    simp only [List.cons_append]
    rw [keysNodup_cons]
    simp only [Bool.and_eq_true, Bool.not_eq_true', List.any_eq_false]
    refine ⟨?_, ih h.2 (fun e he => hm e (List.mem_cons_of_mem _ he))⟩
    intro e he
    rcases List.mem_append.mp he with he | he
    · exact h.1 e he
    · simp only [List.mem_singleton] at he
      rw [he]
      have := hm a (List.mem_cons_self)
      have h3 : ¬ a.key = m.key := by simpa using this
      have h4 : ¬ m.key = a.key := fun e' => h3 e'.symm
      simpa using h4

theorem keysNodup_setMember (b : Baggage) (m : Member) (h : keysNodup b = true) :
    keysNodup (setMember b m) = true := by
  unfold setMember
  apply keysNodup_append_single _ _ (keysNodup_filter _ _ h)
  intro e he
  have := (List.mem_filter.mp he).2
  simpa using this

theorem all_setMember (p : Member → Bool) (b : Baggage) (m : Member) (h : b.all p = true) (hm : p m = true) :
    (setMember b m).all p = true := by
  unfold setMember
  simp only [List.all_append, List.all_cons, List.all_nil, Bool.and_true, Bool.and_eq_true]
  refine ⟨?_, hm⟩
  rw [List.all_eq_true] at h ⊢
  intro e he
  exact h e (List.mem_filter.mp he).1

theorem parseLoop_sound (l : List Bytes) (b b' : Baggage) (h : parseLoop l b = .ok b')
    (h1 : keysNodup b = true) (h2 : b.all memberOK = true) :
    keysNodup b' = true ∧ b'.all memberOK = true ∧ l.all (fun m => m.length ≤ maxBytesPerMembers) = true := by
  induction l generalizing b with
  | nil => simp only [parseLoop] at h; cases h; exact ⟨h1, h2, rfl⟩
  | cons ms tl ih =>
    unfold parseLoop at h
    split at h
    · cases h
    · rename_i m hm
      have ⟨hok, hlen⟩ := parseMember_sound _ _ hm
      have := ih _ h (keysNodup_setMember b m h1) (all_setMember _ b m h2 hok)
      refine ⟨this.1, this.2.1, ?_⟩
      simp only [List.all_cons, Bool.and_eq_true, decide_eq_true_eq]
      exact ⟨hlen, this.2.2⟩


/-! ### generic list facts for the scanners -/

theorem dropWhile_all {α} (p : α → Bool) (l : List α) (h : l.all p = true) : l.dropWhile p = [] := by
  induction l with
  | nil => rfl
  | cons a t ih =>
    simp only [List.all_cons, Bool.and_eq_true] at h
    simp [h.1, ih h.2]

theorem takeWhile_all {α} (p : α → Bool) (l : List α) (h : l.all p = true) : l.takeWhile p = l := by
  induction l with
  | nil => rfl
  | cons a t ih =>
    simp only [List.all_cons, Bool.and_eq_true] at h
    simp [h.1, ih h.2]

theorem dropWhile_append_sep {α} (p : α → Bool) (a : List α) (c : α) (b : List α)
    (ha : a.all p = true) (hc : p c = false) : (a ++ c :: b).dropWhile p = c :: b := by
  induction a with
  | nil => simp [hc]
  | cons x t ih =>
    simp only [List.all_cons, Bool.and_eq_true] at ha
    simp [ha.1, ih ha.2]

theorem takeWhile_append_sep {α} (p : α → Bool) (a : List α) (c : α) (b : List α)
    (ha : a.all p = true) (hc : p c = false) : (a ++ c :: b).takeWhile p = a := by
  induction a with
  | nil => simp [hc]
  | cons x t ih =>
    simp only [List.all_cons, Bool.and_eq_true] at ha
    simp [ha.1, ih ha.2]

theorem dropWhile_none {α} (p : α → Bool) (l : List α) (h : l.all (fun x => !p x) = true) : l.dropWhile p = l := by
  cases l with
  | nil => rfl
  | cons a t =>
    simp only [List.all_cons, Bool.and_eq_true, Bool.not_eq_true'] at h
    simp [h.1]

theorem all_imp {α} (p q : α → Bool) (l : List α) (h : l.all p = true) (hpq : ∀ x, p x = true → q x = true) :
    l.all q = true := by
  rw [List.all_eq_true] at h ⊢
  exact fun x hx => hpq x (h x hx)

/-! ### strings.Cut / Split / Join -/

theorem cut_nosep (sep : UInt8) (a : Bytes) (h : a.all (fun c => c != sep) = true) :
    cut sep a = (a, [], false) := by
  unfold cut
  rw [dropWhile_all _ _ h]

theorem cut_sep (sep : UInt8) (a b : Bytes) (h : a.all (fun c => c != sep) = true) :
    cut sep (a ++ sep :: b) = (a, b, true) := by
  unfold cut
  rw [dropWhile_append_sep _ a sep b h (by simp), takeWhile_append_sep _ a sep b h (by simp)]

theorem splitOn_nosep (sep : UInt8) (a : Bytes) (h : a.all (fun c => c != sep) = true) :
    splitOn sep a = [a] := by
  induction a with
  | nil => rfl
  | cons c r ih =>
    simp only [List.all_cons, Bool.and_eq_true, bne_iff_ne, ne_eq] at h
    simp only [splitOn, h.1, if_false]
    rw [ih (by simpa using h.2)]

theorem splitOn_append (sep : UInt8) (a b : Bytes) (h : a.all (fun c => c != sep) = true) :
    splitOn sep (a ++ sep :: b) = a :: splitOn sep b := by
  induction a with
  | nil => simp [splitOn]
  | cons c r ih =>
    simp only [List.all_cons, Bool.and_eq_true, bne_iff_ne, ne_eq] at h
    simp only [List.cons_append, splitOn, h.1, if_false]
    rw [ih (by simpa using h.2)]

theorem splitOn_join (sep : UInt8) (parts : List Bytes) (hne : parts ≠ [])
    (h : ∀ p ∈ parts, p.all (fun c => c != sep) = true) : splitOn sep (joinWith sep parts) = parts := by
  induction parts with
  | nil => exact absurd rfl hne
  | cons a t ih =>
    cases t with
    | nil => simp only [joinWith]; exact splitOn_nosep sep a (h a (by simp))
    | cons b t' =>
      simp only [joinWith]
      rw [splitOn_append sep a _ (h a (by simp))]
      rw [ih (by simp) (fun p hp => h p (List.mem_cons_of_mem _ hp))]

theorem joinWith_length (sep : UInt8) (parts : List Bytes) :
    (joinWith sep parts).length + 1 = (parts.map (fun p => p.length + 1)).sum + (if parts.isEmpty then 1 else 0) := by
  induction parts with
  | nil => rfl
  | cons a t ih =>
    cases t with
    | nil => simp [joinWith]
    | cons b t' =>
      simp only [joinWith, List.length_append, List.length_cons, List.map_cons, List.sum_cons,
        List.isEmpty_cons] at ih ⊢
      omega

/-! ### byte class facts -/

set_option maxRecDepth 100000 in
theorem octet_facts : ∀ n : Nat, n < 256 → baggageOctet (UInt8.ofNat n) = true →
    (UInt8.ofNat n != cComma) = true ∧ (UInt8.ofNat n != cSemi) = true ∧ isOWS (UInt8.ofNat n) = false ∧
    asciiSpace (UInt8.ofNat n) = false ∧ n < 0x80 ∧ validateValueChar n = true := by decide

set_option maxRecDepth 100000 in
theorem tchar_facts : ∀ n : Nat, n < 256 → tchar (UInt8.ofNat n) = true →
    baggageOctet (UInt8.ofNat n) = true ∧ (UInt8.ofNat n != cEq) = true ∧ validateKeyChar n = true := by decide

set_option maxRecDepth 100000 in
theorem esc_facts : ∀ n : Nat, n < 256 →
    baggageOctet (upperhex (UInt8.ofNat n >>> 4)) = true ∧ baggageOctet (upperhex (UInt8.ofNat n &&& 15)) = true ∧
    isHexDigit (upperhex (UInt8.ofNat n >>> 4)) = true ∧ isHexDigit (upperhex (UInt8.ofNat n &&& 15)) = true ∧
    (shouldEscape (UInt8.ofNat n) = false → baggageOctet (UInt8.ofNat n) = true ∧ UInt8.ofNat n ≠ 0x25) := by decide

theorem octet_facts' (c : UInt8) (h : baggageOctet c = true) :
    (c != cComma) = true ∧ (c != cSemi) = true ∧ isOWS c = false ∧ asciiSpace c = false ∧ c.toNat < 0x80 ∧
    validateValueChar c.toNat = true := by
  have := octet_facts c.toNat (UInt8.toNat_lt c); simpa using this (by simpa using h)

theorem tchar_facts' (c : UInt8) (h : tchar c = true) :
    baggageOctet c = true ∧ (c != cEq) = true ∧ validateKeyChar c.toNat = true := by
  have := tchar_facts c.toNat (UInt8.toNat_lt c); simpa using this (by simpa using h)

theorem esc_facts' (c : UInt8) :
    baggageOctet (upperhex (c >>> 4)) = true ∧ baggageOctet (upperhex (c &&& 15)) = true ∧
    isHexDigit (upperhex (c >>> 4)) = true ∧ isHexDigit (upperhex (c &&& 15)) = true ∧
    (shouldEscape c = false → baggageOctet c = true ∧ c ≠ 0x25) := by
  have := esc_facts c.toNat (UInt8.toNat_lt c); simpa using this

theorem valueEscape_octets (v : Bytes) : (valueEscape v).all baggageOctet = true := by
  induction v with
  | nil => rfl
  | cons c r ih =>
    rw [valueEscape_cons]
    have hf := esc_facts' c
    cases h : shouldEscape c with
    | true =>
      have hp : baggageOctet cPct = true := by decide
      simp [hf.1, hf.2.1, ih, hp]
    | false => simp [(hf.2.2.2.2 h).1, ih]

theorem pctOK_other (c : UInt8) (r : Bytes) (h : c ≠ 0x25) : pctOK (c :: r) = pctOK r := by
  conv => lhs; unfold pctOK
  simp [h]

theorem valueEscape_pctOK (v : Bytes) : pctOK (valueEscape v) = true := by
  induction v with
  | nil => rfl
  | cons c r ih =>
    rw [valueEscape_cons]
    have hf := esc_facts' c
    cases h : shouldEscape c with
    | true => simp [pctOK, cPct, hf.2.2.1, hf.2.2.2.1, ih]
    | false =>
      have hne := (hf.2.2.2.2 h).2
      simp only [Bool.false_eq_true, if_false, List.cons_append, List.nil_append]
      rw [pctOK_other _ _ hne]; exact ih


/-- `PathUnescape(valueEscape(v)) = v` -/
theorem pathUnescape_valueEscape (v : Bytes) : pathUnescape (valueEscape v) = some v := by
  induction v with
  | nil => rfl
  | cons c r ih =>
    have hc := esc_byte c.toNat (UInt8.toNat_lt c)
    simp only [UInt8.ofNat_toNat] at hc
    rw [valueEscape_cons]
    by_cases h : shouldEscape c
    · simp only [h, if_true, List.cons_append, List.nil_append]
      rw [pathUnescape_pct]
      simp [hc.1, ih, hc.2]
    · have hne : c ≠ cPct := by
        intro e; subst e; simp [shouldEscape] at h
      have h' : shouldEscape c = false := by simpa using h
      simp only [h', Bool.false_eq_true, if_false, List.cons_append, List.nil_append]
      rw [pathUnescape_other _ _ hne]
      simp [ih]

end Otel.C11
