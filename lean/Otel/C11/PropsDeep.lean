/-
C11 — property theorems, second part (deepening): exactness of the F10/F30 exclusion predicates, the
exact round-trip predicate, size accounting, the finite-map refinement of edit scripts, accessors,
contexts and the propagator on arbitrary parent contexts. Helper lemmas are `private`.
-/
import Otel.C11.Props
namespace Otel.C11
open Otel Otel.Utf8 Otel.C11.Spec

/-! ## helpers -/

private theorem pieces_of_serialize (l : List Member) (hok : l.all memberOK = true) (hne : l ≠ []) :
    splitOn cComma (serialize l) = l.map Member.string := by
  rw [serialize_eq _ hok]
  apply splitOn_join cComma _ (by simpa using hne)
  intro s hs
  obtain ⟨x, hx, rfl⟩ := List.mem_map.mp hs
  exact (memberString_octets_or x (List.all_eq_true.mp hok x hx)).1

private theorem F10_perm (a b : List Member) (h : a.Perm b) : F10_applies a = F10_applies b := by
  unfold F10_applies
  exact h.any_eq

private theorem F30_perm (a b : List Member) (h : a.Perm b) : F30_applies a = F30_applies b := by
  unfold F30_applies
  rw [F10_perm a b h, serialize_length_perm a b h]

/-- an accepted header never has an oversize list-member or an oversize total -/
private theorem parse_ok_not_F30 (l x : List Member) (hok : l.all memberOK = true)
    (h : parse (serialize l) = .ok x) : F30_applies l = false := by
  have hs := parse_sound _ _ h
  simp only [parsedOK, headerWithinLimits, Bool.and_eq_true, decide_eq_true_eq] at hs
  obtain ⟨⟨htot, hpieces⟩, _⟩ := hs
  simp only [F30_applies, F10_applies, Bool.or_eq_false_iff, decide_eq_false_iff_not, Nat.not_lt]
  refine ⟨?_, htot⟩
  cases l with
  | nil => rfl
  | cons m t =>
    rw [pieces_of_serialize _ hok (by simp)] at hpieces
    rw [List.any_eq_false]
    intro e he
    have := List.all_eq_true.mp hpieces e.string (List.mem_map_of_mem he)
    simpa using this

/-! ## the exact round-trip predicate; F10 and F30 are exact -/

/-- **`Parse(String(b)) = b` exactly for the representable lists**: a member list (in any order) is
parsed back from its own serialisation *if and only if* it is well formed (unique token keys, valid
UTF-8 values, token property keys, at most 180 members) and serialises within the three limits. -/
theorem parse_serialize_iff (l : List Member) :
    parse (serialize l) = .ok l ↔ representable l = true := by
  constructor
  · intro h
    have hs := parse_sound _ _ h
    simp only [parsedOK, Bool.and_eq_true] at hs
    have hw := hs.2
    have hok : l.all memberOK = true := by
      simp only [wellFormed, Bool.and_eq_true] at hw
      exact hw.1.2
    simp [representable, hw, parse_ok_not_F30 l l hok h]
  · intro h
    simp only [representable, wellFormed, F30_applies, F10_applies, Bool.and_eq_true, decide_eq_true_eq,
      Bool.not_eq_true', Bool.or_eq_false_iff, decide_eq_false_iff_not, Nat.not_lt] at h
    obtain ⟨⟨⟨hk, hok⟩, hcnt⟩, hf10, htot⟩ := h
    apply roundtrip_core l hk hok hcnt htot
    intro m hm
    have := List.any_eq_false.mp hf10 m hm
    simpa using this

example : representable [⟨[0x6B], [0x2C, 0x25, 0x20, 0xC5, 0xA1], [⟨[0x70], [0x3B], true⟩]⟩, ⟨[0x61], [], []⟩] = true := by decide
example : representable [⟨[0x6B], [], []⟩, ⟨[0x6B], [0x31], []⟩] = false := by decide

/-- outside `representable` the failure is a *rejection*: a well-formed list is rejected by
`Parse(String())` (some error, never a different baggage) exactly when `F30_applies` holds — the
exclusion predicate of `parse_string_stable_partial` describes exactly the failing inputs. -/
theorem reserialise_rejected_iff_F30 (l : List Member) (hw : wellFormed l = true) :
    (∃ e, parse (serialize l) = .error e) ↔ F30_applies l = true := by
  have hok : l.all memberOK = true := by
    simp only [wellFormed, Bool.and_eq_true] at hw
    exact hw.1.2
  constructor
  · rintro ⟨e, he⟩
    cases hf : F30_applies l with
    | true => rfl
    | false =>
      have : parse (serialize l) = .ok l := (parse_serialize_iff l).mpr (by simp [representable, hw, hf])
      rw [this] at he
      cases he
  · intro hf
    cases hp : parse (serialize l) with
    | error e => exact ⟨e, rfl⟩
    | ok x =>
      have := parse_ok_not_F30 l x hok hp
      rw [hf] at this
      cases this

/-- **F10 is exact**: for a baggage accepted by the constructors and `New` (token keys), and every
iteration order, the round trip succeeds *if and only if* no member serialises above 4096 bytes. -/
theorem baggage_roundtrip_iff_not_F10 (ms : List (Option Member)) (b : Baggage)
    (hctor : ∀ m, some m ∈ ms → ctorMemberOK m = true)
    (hnew : new ms = .ok b) (htok : tokenKeys b = true)
    (order : List Member) (hperm : order.Perm b) :
    parse (serialize order) = .ok order ↔ F10_applies b = false := by
  constructor
  · intro h
    have hr := (parse_serialize_iff order).mp h
    simp only [representable, F30_applies, Bool.and_eq_true, Bool.not_eq_true', Bool.or_eq_false_iff] at hr
    rw [← F10_perm order b hperm]
    exact hr.2.1
  · intro hf
    exact baggage_roundtrip_partial ms b hctor hnew htok hf order hperm

/-- **F30 is exact**: after a successful `Parse`, for every iteration order, re-parsing the
re-serialised result gives the same baggage *if and only if* `F30_applies` is false; when it is true
the re-parse is an error. -/
theorem parse_string_stable_iff_not_F30 (s : Bytes) (b : Baggage) (h : parse s = .ok b)
    (order : List Member) (hperm : order.Perm b) :
    (parse (serialize order) = .ok order ↔ F30_applies b = false) ∧
    (F30_applies b = true → ∃ e, parse (serialize order) = .error e) := by
  have hs := parse_sound s b h
  simp only [parsedOK, Bool.and_eq_true] at hs
  have hwb := hs.2
  have hwo : wellFormed order = true := by
    simp only [wellFormed, Bool.and_eq_true, decide_eq_true_eq] at hwb ⊢
    exact ⟨⟨keysNodup_perm _ _ hperm hwb.1.1, all_perm _ _ _ hperm hwb.1.2⟩, by rw [hperm.length_eq]; exact hwb.2⟩
  refine ⟨⟨?_, fun hf => parse_string_stable_partial s b h hf order hperm⟩, ?_⟩
  · intro hp
    have hr := (parse_serialize_iff order).mp hp
    simp only [representable, Bool.and_eq_true, Bool.not_eq_true'] at hr
    rw [← F30_perm order b hperm]
    exact hr.2
  · intro hf
    apply (reserialise_rejected_iff_F30 order hwo).mpr
    rw [F30_perm order b hperm]
    exact hf

/-! ## size accounting -/

private theorem shouldEscape_eq (c : UInt8) : shouldEscape c = needsEscape c := by
  simp [shouldEscape, needsEscape, valueChar_octet', cPct]

private theorem valueEscape_length' (v : Bytes) : (valueEscape v).length = escLen v := by
  induction v with
  | nil => rfl
  | cons c r ih =>
    rw [valueEscape_cons, List.length_append, ih]
    unfold escLen
    rw [List.countP_cons, ← shouldEscape_eq]
    cases shouldEscape c <;> simp <;> omega

/-- the escaped length is the sum formula: one byte per safe byte, three per byte that needs
escaping (`%` and everything outside W3C baggage-octet) — between `len` and `3·len`. -/
theorem valueEscape_length (v : Bytes) :
    (valueEscape v).length = escLen v ∧ v.length ≤ escLen v ∧ escLen v ≤ 3 * v.length := by
  refine ⟨valueEscape_length' v, by unfold escLen; omega, ?_⟩
  have := List.countP_le_length (p := needsEscape) (l := v)
  unfold escLen
  omega

example : escLen [0x2C, 0x25, 0x20, 0xC5, 0xA1, 0x61] = 16 := by decide

private theorem propString_length (p : Property) (h : propOK p = true) : p.string.length = propLen p := by
  obtain ⟨key, value, hv⟩ := p
  simp only [propOK, Bool.and_eq_true] at h
  have hvk : validateKey key = true := by rw [validateKey_eq_isToken]; exact h.1.1
  unfold Property.string propLen
  cases hv <;> simp [hvk, valueEscape_length'] <;> omega

private theorem propStrings_sum (ps : List Property) (h : ps.all propOK = true) :
    ((ps.map Property.string).map (fun s => s.length + 1)).sum = (ps.map (fun p => propLen p + 1)).sum := by
  induction ps with
  | nil => rfl
  | cons p t ih =>
    simp only [List.all_cons, Bool.and_eq_true] at h
    simp only [List.map_cons, List.sum_cons, ih h.2, propString_length p h.1]

private theorem memberString_length (m : Member) (hok : memberOK m = true) : m.string.length = memberLen m := by
  have hok' := hok
  simp only [memberOK, Bool.and_eq_true] at hok'
  obtain ⟨⟨hk, _⟩, hps⟩ := hok'
  rw [member_string_eq m hk]
  unfold memberLen kvString
  cases hp : m.props with
  | nil => simp [valueEscape_length']; omega
  | cons p t =>
    rw [hp] at hps
    have hj := joinWith_length cSemi ((p :: t).map Property.string)
    rw [propStrings_sum _ hps] at hj
    simp only [List.length_cons, Nat.zero_lt_succ, if_true, List.length_append,
      valueEscape_length', propsString_eq _ hps, gt_iff_lt]
    simp only [List.map_cons, List.isEmpty_cons, Bool.false_eq_true, if_false, Nat.add_zero] at hj
    simp only [List.map_cons]
    omega

private theorem memberStrings_sum (l : List Member) (h : l.all memberOK = true) :
    ((l.map Member.string).map (fun s => s.length + 1)).sum = (l.map (fun m => memberLen m + 1)).sum := by
  induction l with
  | nil => rfl
  | cons m t ih =>
    simp only [List.all_cons, Bool.and_eq_true] at h
    simp only [List.map_cons, List.sum_cons, ih h.2, memberString_length m h.1]

/-- **`len(String())` is the sum formula**: for well-formed members, every member serialises to
`len(key) + 1 + escLen(value) + Σ (1 + propLen)` bytes and the header to the sum of the member
lengths plus one comma between neighbours — for the order given (hence any order). -/
theorem string_length_formula (l : List Member) (hok : l.all memberOK = true) :
    (serialize l).length = headerLen l ∧ ∀ m ∈ l, m.string.length = memberLen m := by
  refine ⟨?_, fun m hm => memberString_length m (List.all_eq_true.mp hok m hm)⟩
  have hj := joinWith_length cComma (l.map Member.string)
  rw [memberStrings_sum l hok, ← serialize_eq l hok] at hj
  unfold headerLen
  cases l with
  | nil => simp [serialize, joinWith]
  | cons m t =>
    simp only [List.map_cons, List.isEmpty_cons, Bool.false_eq_true, if_false, Nat.add_zero] at hj
    simp only [List.map_cons]
    omega

example :
    let m1 : Member := ⟨[0x6B], [0x2C, 0x25, 0x20, 0xC5, 0xA1], [⟨[0x70], [0x3B, 0x3D], true⟩, ⟨[0x71], [], false⟩]⟩
    let m2 : Member := ⟨[0x61], [], []⟩
    headerLen [m1, m2] = 29 ∧ (serialize [m1, m2]).length = 29 := by decide

private theorem F10_by_sum (l : List Member) (hok : l.all memberOK = true) :
    F10_applies l = !(l.all (fun m => decide (memberLen m ≤ maxBytesPerMembers))) := by
  unfold F10_applies
  induction l with
  | nil => rfl
  | cons m t ih =>
    simp only [List.all_cons, Bool.and_eq_true] at hok
    simp only [List.any_cons, List.all_cons, ih hok.2, memberString_length m hok.1, Bool.not_and]
    congr 1
    by_cases h : memberLen m ≤ maxBytesPerMembers <;> simp [h] <;> omega

/-- **the limits as `New` and `Parse` check them, as sums**: a well-formed list is representable
(round-trips through a header) exactly when it has at most 180 members, the sum formula is at most
8192 and every member's sum is at most 4096. -/
theorem limits_by_sum (l : List Member) (hw : wellFormed l = true) :
    representable l = withinLimitsBySum l := by
  have hw' := hw
  simp only [wellFormed, Bool.and_eq_true, decide_eq_true_eq] at hw'
  obtain ⟨⟨_, hok⟩, hcnt⟩ := hw'
  unfold representable withinLimitsBySum F30_applies
  rw [hw, F10_by_sum l hok, (string_length_formula l hok).1]
  by_cases h1 : headerLen l ≤ maxBytesPerBaggageString <;>
    cases h2 : l.all (fun m => decide (memberLen m ≤ maxBytesPerMembers)) <;> simp [h1, hcnt] <;> omega

/-- `New` exactly: with valid members only, `New` accepts *if and only if* the de-duplicated map has
at most 180 entries and serialises to at most 8192 bytes — and nothing else is checked (F10). -/
theorem new_accepts_iff (ms : List Member) (hne : ms ≠ []) (b : Baggage) :
    new (ms.map some) = .ok b ↔
      b = ms.foldl setMember [] ∧ b.length ≤ maxMembers ∧ (serialize b).length ≤ maxBytesPerBaggageString := by
  have hloop : ∀ (l : List Member) (acc : Baggage), newLoop (l.map some) acc = .ok (l.foldl setMember acc) := by
    intro l
    induction l with
    | nil => intro acc; rfl
    | cons m t ih => intro acc; simp only [List.map_cons, newLoop, List.foldl_cons, ih]
  have he : (ms.map some).isEmpty = false := by cases ms <;> simp_all
  unfold new
  simp only [he, Bool.false_eq_true, if_false, hloop]
  by_cases h1 : (ms.foldl setMember []).length > maxMembers
  · simp only [h1, if_true]
    constructor
    · intro h; cases h
    · rintro ⟨rfl, h2, _⟩; omega
  · by_cases h2 : (serialize (ms.foldl setMember [])).length > maxBytesPerBaggageString
    · simp only [h1, h2, if_true, if_false]
      constructor
      · intro h; cases h
      · rintro ⟨rfl, _, h3⟩; omega
    · simp only [h1, h2, if_false]
      constructor
      · intro h; cases h; exact ⟨rfl, by omega, by omega⟩
      · rintro ⟨rfl, _, _⟩; rfl

example : new ([⟨[0x6B], [0x31], []⟩, ⟨[0x61], [], []⟩, ⟨[0x6B], [0x32], []⟩].map some) =
    .ok [⟨[0x61], [], []⟩, ⟨[0x6B], [0x32], []⟩] := by decide

/-- the zero `Member{}` (`hasData = false`) anywhere in the arguments makes `New` fail with
`errInvalidMember`, whatever the other members are -/
theorem new_rejects_zero_member (ms : List (Option Member)) (h : none ∈ ms) : new ms = .error .member := by
  have hloop : ∀ (l : List (Option Member)) (acc : Baggage), none ∈ l → newLoop l acc = .error .member := by
    intro l
    induction l with
    | nil => intro _ h; cases h
    | cons x t ih =>
      intro acc h
      cases x with
      | none => rfl
      | some m =>
        simp only [newLoop]
        apply ih
        simpa using h
  have he : ms.isEmpty = false := by cases ms <;> simp_all
  unfold new
  simp [he, hloop ms [] h]

example : new [some ⟨[0x6B], [0x31], []⟩, none] = .error .member := by decide

/-- `Parse` checks the total size first: more than 8192 bytes ⇒ `errBaggageBytes`, whatever the
content -/
theorem parse_rejects_oversize (s : Bytes) (h : s.length > maxBytesPerBaggageString) :
    parse s = .error .baggageBytes := by
  have he : s.isEmpty = false := by cases s <;> simp_all [maxBytesPerBaggageString]
  unfold parse
  simp [he, h]

/-! ## edit scripts refine a finite map -/

/-- **refinement**: any sequence of `SetMember`/`DeleteMember` on a key-unique baggage behaves like
the same sequence on the reference finite map `key -> member` (a function updated pointwise), and
keeps the keys unique. -/
theorem edit_script_refines_finite_map (b : Baggage) (hk : keysNodup b = true) (ops : List MapOp) :
    keysNodup (ops.foldl applyOp b) = true ∧
    ∀ k, lookup (ops.foldl applyOp b) k = (ops.foldl specStep (lookup b)) k := by
  induction ops generalizing b with
  | nil => exact ⟨hk, fun _ => rfl⟩
  | cons op t ih =>
    simp only [List.foldl_cons]
    have hk' : keysNodup (applyOp b op) = true := by
      cases op with
      | set m => exact keysNodup_setMember b m hk
      | del key => exact keysNodup_filter _ b hk
    have hstep : lookup (applyOp b op) = specStep (lookup b) op := by
      funext k
      cases op with
      | set m => simp [applyOp, specStep, lookup_setMember]
      | del key => simp [applyOp, specStep, lookup_deleteMember]
    have := ih (applyOp b op) hk'
    rw [hstep] at this
    exact this

example : lookup ([MapOp.set ⟨[0x6B], [0x32], []⟩, .del [0x61], .set ⟨[0x62], [], []⟩].foldl applyOp
    [⟨[0x6B], [0x31], []⟩, ⟨[0x61], [], []⟩]) [0x6B] = some ⟨[0x6B], [0x32], []⟩ := by decide

/-- every member predicate that holds for the receiver and for the members that are set holds after
any edit script (with `ctorMemberOK`: what the constructors established is never lost; with
`memberOK`: a parsed baggage stays well formed member by member). Limits are *not* re-checked by
`SetMember` (count and sizes can grow past 180 / 8192). -/
theorem edit_script_preserves (p : Member → Bool) (b : Baggage) (hb : b.all p = true) (ops : List MapOp)
    (hops : ∀ m, MapOp.set m ∈ ops → p m = true) : (ops.foldl applyOp b).all p = true := by
  induction ops generalizing b with
  | nil => exact hb
  | cons op t ih =>
    simp only [List.foldl_cons]
    apply ih
    · cases op with
      | set m => exact all_setMember p b m hb (hops m (by simp))
      | del key =>
        rw [List.all_eq_true] at hb ⊢
        intro e he
        exact hb e (List.mem_filter.mp he).1
    · intro m hm
      exact hops m (List.mem_cons_of_mem _ hm)

/-! ## constructors: the percent-encoded variants are the raw ones after decoding -/

/-- `NewMember(k, valueEscape(v), props…)` is `NewMemberRaw(k, v, props…)` for a token key, and
`NewKeyValueProperty(k, valueEscape(v))` is `NewKeyValuePropertyRaw(k, v)`: the encoded constructors
only add the W3C key check and the decoding. -/
theorem encoded_constructors_decode (k v : Bytes) (ps : List Property) (hk : isToken k = true) :
    newMember k (valueEscape v) ps = newMemberRaw k v ps ∧
    newKeyValueProperty k (valueEscape v) = newKeyValuePropertyRaw k v := by
  have hvk : validateKey k = true := by rw [validateKey_eq_isToken]; exact hk
  have hvv : validateValue (valueEscape v) = true := by rw [validateValue_eq]; exact valueEscape_octets _
  constructor
  · simp [newMember, hvk, hvv, pathUnescape_valueEscape]
  · simp [newKeyValueProperty, hvk, hvv, pathUnescape_valueEscape]

example : newMember [0x6B] [0x25, 0x32, 0x43] [] = some ⟨[0x6B], [0x2C], []⟩ := by decide

/-- the encoded constructors reject what the raw ones accept when the key is not a token or the
text is not clean percent-encoding (here: a bare `%`) -/
example : newMemberRaw [0xC3, 0xA9] [0x25] [] = some ⟨[0xC3, 0xA9], [0x25], []⟩ ∧
    newMember [0xC3, 0xA9] [0x25] [] = none ∧ newMember [0x6B] [0x25] [] = none := by decide

/-! ## accessors -/

private theorem find_key {b : Baggage} {k : Bytes} {e : Member}
    (h : b.find? (fun e => e.key == k) = some e) : e.key = k := by
  have := List.find?_some h
  simpa using this

/-- `Member(key)`, `Members()`, `Len()` are views of the same map: `Members()` lists the map,
`Len()` is its size, `Member(key)` is the entry under `key` and the zero `Member{}` exactly when no
listed member has that key; the zero member is refused by `New` and `SetMember`. -/
theorem accessors_consistent (b : Baggage) (k : Bytes) :
    members b = b ∧ len b = (members b).length ∧ member b k = lookup b k ∧
    (member b k = none ↔ (members b).all (fun e => e.key != k) = true) ∧
    (member b k = none → new [member b k] = .error .member ∧ ∀ b', setMemberOpt b' (member b k) = (b', false)) := by
  have hm : members b = b := by
    unfold members
    cases b with
    | nil => rfl
    | cons x t => simp
  have hl : member b k = lookup b k := by
    unfold member lookup
    cases h : b.find? (fun e => e.key == k) with
    | none => rfl
    | some e =>
      have := find_key h
      subst this
      rfl
  refine ⟨hm, by rw [hm]; rfl, hl, ?_, ?_⟩
  · rw [hm, hl]
    unfold lookup
    rw [List.find?_eq_none, List.all_eq_true]
    constructor
    · intro h e he; simpa using h e he
    · intro h e he; simpa using h e he
  · intro h
    rw [h]
    exact ⟨rfl, fun _ => rfl⟩

example : member [⟨[0x6B], [0x31], []⟩] [0x6B] = some ⟨[0x6B], [0x31], []⟩ ∧ member [⟨[0x6B], [0x31], []⟩] [0x61] = none := by decide

/-! ## contexts and the propagator on arbitrary parent contexts -/

/-- `FromContext(ContextWithBaggage(p, b)) = b`, `FromContext(ContextWithoutBaggage(p))` is empty
whatever `p` holds, and a context that never had baggage yields the empty baggage. -/
theorem context_get_set (p : Ctx) (b : Baggage) :
    fromContext (contextWithBaggage p b) = b ∧ fromContext (contextWithoutBaggage p) = [] ∧
    fromContext none = [] ∧ len (fromContext none) = 0 ∧ injectCtx (contextWithoutBaggage p) = none :=
  ⟨rfl, rfl, rfl, rfl, rfl⟩

private theorem parseLoop_nonempty (l : List Bytes) (acc b : Baggage) (h : parseLoop l acc = .ok b)
    (hne : acc ≠ [] ∨ l ≠ []) : b ≠ [] := by
  induction l generalizing acc with
  | nil =>
    simp only [parseLoop] at h
    cases h
    rcases hne with h | h
    · exact h
    · exact absurd rfl h
  | cons x t ih =>
    unfold parseLoop at h
    split at h
    · cases h
    · rename_i m _
      apply ih _ h
      left
      unfold setMember
      simp

private theorem splitOn_ne_nil (sep : UInt8) (s : Bytes) : splitOn sep s ≠ [] := by
  induction s with
  | nil => simp [splitOn]
  | cons c r ih =>
    unfold splitOn
    split
    · simp
    · split <;> simp

private theorem parse_nonempty (s : Bytes) (b : Baggage) (h : parse s = .ok b) (hne : s ≠ []) : b ≠ [] := by
  unfold parse at h
  have he : s.isEmpty = false := by simpa using hne
  simp only [he, Bool.false_eq_true, if_false] at h
  split at h
  · cases h
  · split at h
    · cases h
    · rename_i b' hb'
      split at h
      · cases h
      · cases h
        exact parseLoop_nonempty _ _ _ hb' (Or.inr (splitOn_ne_nil _ _))

private theorem parseLoop_length (l : List Bytes) (acc b : Baggage) (h : parseLoop l acc = .ok b) :
    b.length ≤ acc.length + l.length := by
  induction l generalizing acc with
  | nil => simp only [parseLoop] at h; cases h; simp
  | cons x t ih =>
    cases hpm : parseMember x with
    | error e => simp [parseLoop, hpm] at h
    | ok m =>
      simp only [parseLoop, hpm] at h
      have h1 := ih _ h
      have h2 : (setMember acc m).length ≤ acc.length + 1 := by
        unfold setMember
        have := List.length_filter_le (fun e => e.key != m.key) acc
        simp only [List.length_append, List.length_cons, List.length_nil]
        omega
      simp only [List.length_cons]
      omega

private theorem parse_length (s : Bytes) (b : Baggage) (h : parse s = .ok b) (hne : s ≠ []) :
    b.length ≤ (splitOn cComma s).length := by
  unfold parse at h
  have he : s.isEmpty = false := by simpa using hne
  simp only [he, Bool.false_eq_true, if_false] at h
  split at h
  · cases h
  · split at h
    · cases h
    · rename_i b' hb'
      split at h
      · cases h
      · cases h
        have := parseLoop_length _ _ _ hb'
        simpa using this

private theorem sameMap_refl (a : List Member) : sameMap a a = true := by simp [sameMap]

/-- **`Extract` on any parent context**: the baggage found afterwards is the parent's own (absent or
empty header, parse error) or else a non-empty baggage that is a sound parse of the header — the
reference `extractOK`; an absent/empty header never changes the context. -/
theorem extract_keeps_parent_or_parses (parent : Ctx) (h : Bytes) :
    extractOK (fromContext parent) h (fromContext (extractCtx parent (some h))) = true ∧
    extractCtx parent none = parent ∧ extractCtx parent (some []) = parent := by
  refine ⟨?_, rfl, rfl⟩
  unfold extractCtx extractOK
  by_cases he : h.isEmpty = true
  · simp [he, sameMap_refl]
  · simp only [he, Bool.false_eq_true, if_false]
    cases hp : parse h with
    | error e => simp [sameMap_refl]
    | ok b =>
      have hs := parse_sound h b hp
      have hne : b ≠ [] := parse_nonempty h b hp (by simpa using he)
      have hbe : b.isEmpty = false := by cases b <;> simp_all
      have hl := parse_length h b hp (by simpa using he)
      simp [contextWithBaggage, fromContext, hs, hbe, hl]

example : fromContext (extractCtx (some [⟨[0x61], [], []⟩]) (some [0x6B, 0x3D, 0x31])) = [⟨[0x6B], [0x31], []⟩] ∧
    fromContext (extractCtx (some [⟨[0x61], [], []⟩]) (some [0x6B])) = [⟨[0x61], [], []⟩] := by decide

/-- **Inject then Extract onto any parent**: a representable baggage (in any iteration order)
injected and extracted onto an arbitrary parent context replaces the parent's baggage; the *empty*
baggage sets no header, so the parent's baggage is kept. -/
theorem inject_extract_any_parent (order : List Member) (hr : representable order = true) (parent : Ctx) :
    fromContext (extractCtx parent (injectCtx (some order))) =
      if order.isEmpty then fromContext parent else order := by
  have hrt := (parse_serialize_iff order).mpr hr
  unfold injectCtx inject extractCtx
  simp only [fromContext]
  by_cases he : (serialize order).isEmpty = true
  · have hnil : serialize order = [] := by simpa using he
    rw [hnil] at hrt
    have : order = [] := by
      have h0 : parse [] = .ok [] := rfl
      rw [h0] at hrt
      cases hrt; rfl
    subst this
    simp [serialize, joinWith]
  · have hone : order ≠ [] := by
      intro h0; subst h0; simp [serialize, joinWith] at he
    have hoe : order.isEmpty = false := by cases order <;> simp_all
    simp [he, hrt, contextWithBaggage, hoe]

/-- contexts are immutable values: whatever the script of `ContextWithBaggage` /
`ContextWithoutBaggage` / `Extract` / `Inject` calls, every context that existed before is unchanged. -/
theorem ctx_ops_never_touch_existing (heap : List Ctx) (ops : List CtxOp) (i : Nat) (hi : i < heap.length) :
    (runCtxOps heap ops)[i]? = heap[i]? := by
  induction ops generalizing heap with
  | nil => rfl
  | cons e t ih =>
    simp only [runCtxOps, List.foldl_cons] at ih ⊢
    have hlen : i < (applyCtxOp heap e).length := by
      cases e <;> simp [applyCtxOp] <;> omega
    rw [ih (applyCtxOp heap e) hlen]
    cases e <;> simp [applyCtxOp, List.getElem?_append_left hi]

example : (runCtxOps [none] [.withBag 0 [⟨[0x6B], [0x31], []⟩], .without 1, .extract 1 (some [0x61, 0x3D]), .extract 1 (some [0x61])]).map fromContext =
    [[], [⟨[0x6B], [0x31], []⟩], [], [⟨[0x61], [], []⟩], [⟨[0x6B], [0x31], []⟩]] := by decide

/-! ## escaping, further -/

set_option maxRecDepth 100000 in
private theorem octet_clean_facts : ∀ n : Nat, n < 256 → baggageOctet (UInt8.ofNat n) = true →
    (needsEscape (UInt8.ofNat n) = false ∨ UInt8.ofNat n = 0x25) ∧ UInt8.ofNat n ≠ 0x2C ∧ UInt8.ofNat n ≠ 0x3B ∧
    UInt8.ofNat n ≠ 0x20 ∧ UInt8.ofNat n ≠ 0x09 ∧ UInt8.ofNat n ≠ 0x22 ∧ UInt8.ofNat n ≠ 0x5C ∧
    0x20 < (UInt8.ofNat n).toNat ∧ (UInt8.ofNat n).toNat < 0x7F := by decide

/-- the escaped text contains no list/property delimiter (`,` `;`), no space/tab, quote or
backslash, no control or non-ASCII byte (`=` is a baggage-octet and is kept as is), and no byte that
would itself need escaping except the `%` that starts a triplet; and escaping is injective (two
values never share an encoding). -/
theorem escape_output_clean (v : Bytes) :
    (∀ c ∈ valueEscape v, (needsEscape c = false ∨ c = 0x25) ∧ c ≠ 0x2C ∧ c ≠ 0x3B ∧ c ≠ 0x20 ∧ c ≠ 0x09 ∧
      c ≠ 0x22 ∧ c ≠ 0x5C ∧ 0x20 < c.toNat ∧ c.toNat < 0x7F) ∧
    (∀ w, valueEscape w = valueEscape v → w = v) := by
  constructor
  · intro c hc
    have ho : baggageOctet c = true := List.all_eq_true.mp (valueEscape_octets v) c hc
    have := octet_clean_facts c.toNat c.toNat_lt
    rw [UInt8.ofNat_toNat] at this
    exact this ho
  · intro w h
    have h1 := pathUnescape_valueEscape w
    rw [h, pathUnescape_valueEscape v] at h1
    cases h1
    rfl

/-! ## the three full statements are refuted (not merely unproved) -/

/-- F10: the clause "the constructor enforces 4096 bytes per member" is false on the current tree -/
theorem new_enforces_member_limit_refuted : ¬ new_enforces_member_limit_full_statement := by
  intro h
  have w := new_accepts_oversize_member_witness
  have := h _ _ w.2.1
  rw [w.2.2.1] at this
  cases this

/-- F10: the unrestricted round-trip clause is false on the current tree -/
theorem baggage_roundtrip_refuted : ¬ baggage_roundtrip_full_statement := by
  intro h
  have w := new_accepts_oversize_member_witness
  have hc : ∀ m, some m ∈ [some (aMember 4095)] → ctorMemberOK m = true := by
    intro m hm
    simp only [List.mem_singleton, Option.some.injEq] at hm
    subst hm
    exact constructors_validate _ _ _ _ (Or.inl w.1)
  have ht : tokenKeys [aMember 4095] = true := by
    simp only [tokenKeys, aMember, List.all_cons, List.all_nil, Bool.and_true]
    decide
  have := h _ _ hc w.2.1 ht [aMember 4095] (List.Perm.refl _)
  rw [w.2.2.2] at this
  cases this

/-- F30: the unrestricted stability clause is false on the current tree -/
theorem parse_string_stable_refuted : ¬ parse_string_stable_full_statement := by
  intro h
  have w := parse_string_unstable_witness
  have := h _ _ w.1 f30Baggage (List.Perm.refl _)
  rw [w.2.2] at this
  cases this

/-! ## what the constructors establish, and what `SetMember` does not re-check -/

/-- the constructors + `New` establish the round-trip predicate up to F10: a baggage built from
constructor-validated members with token keys is representable *if and only if* no member serialises
above 4096 bytes (everything else in `representable` is established by the constructors and `New`). -/
theorem constructed_representable_iff (ms : List (Option Member)) (b : Baggage)
    (hctor : ∀ m, some m ∈ ms → ctorMemberOK m = true)
    (hnew : new ms = .ok b) (htok : tokenKeys b = true) :
    representable b = true ↔ F10_applies b = false := by
  rw [← parse_serialize_iff b]
  exact baggage_roundtrip_iff_not_F10 ms b hctor hnew htok b (List.Perm.refl _)

/-- `SetMember` never re-checks the limits: on a baggage that already has 180 members, setting a
member with a new key succeeds and gives 181 members — a value that is not representable and that
`Parse(String())` rejects (the limits are enforced by `New` and `Parse` only). -/
theorem setMember_does_not_recheck_limits (b : Baggage) (m : Member) (hlen : b.length = maxMembers)
    (hfresh : ∀ e ∈ b, (e.key == m.key) = false) :
    setMemberOpt b (some m) = (setMember b m, true) ∧ (setMember b m).length = maxMembers + 1 ∧
    representable (setMember b m) = false ∧ parse (serialize (setMember b m)) ≠ .ok (setMember b m) := by
  have hl : (setMember b m).length = maxMembers + 1 := by
    rw [setMember_fresh b m hfresh]; simp [hlen]
  have hr : representable (setMember b m) = false := by
    have : ¬ (maxMembers + 1 ≤ maxMembers) := by omega
    simp [representable, wellFormed, hl, this]
  refine ⟨rfl, hl, hr, ?_⟩
  intro h
  rw [(parse_serialize_iff _).mp h] at hr
  cases hr

example : setMember [⟨[0x61], [], []⟩] ⟨[0x6B], [0x31], []⟩ = [⟨[0x61], [], []⟩, ⟨[0x6B], [0x31], []⟩] := by decide

/-! ## concatenated headers: later list-members win, map-wise -/

private theorem splitOn_append_sep (sep : UInt8) (a b : Bytes) :
    splitOn sep (a ++ sep :: b) = splitOn sep a ++ splitOn sep b := by
  induction a with
  | nil => simp [splitOn]
  | cons c r ih =>
    by_cases hc : c = sep
    · simp only [List.cons_append, splitOn, hc, if_true, ih]
    · simp only [List.cons_append, splitOn, hc, if_false, ih]
      cases hr : splitOn sep r with
      | nil => exact absurd hr (splitOn_ne_nil sep r)
      | cons h t => simp

private theorem parseLoop_ok_any_acc (l : List Bytes) (acc b : Baggage) (h : parseLoop l acc = .ok b)
    (acc' : Baggage) : ∃ b', parseLoop l acc' = .ok b' := by
  induction l generalizing acc acc' with
  | nil => exact ⟨acc', rfl⟩
  | cons s t ih =>
    cases hpm : parseMember s with
    | error e => simp [parseLoop, hpm] at h
    | ok m =>
      simp only [parseLoop, hpm] at h ⊢
      exact ih _ h _

private theorem parse_ok_loop (s : Bytes) (b : Baggage) (h : parse s = .ok b) (hne : s ≠ []) :
    parseLoop (splitOn cComma s) [] = .ok b := by
  unfold parse at h
  have he : s.isEmpty = false := by simpa using hne
  simp only [he, Bool.false_eq_true, if_false] at h
  split at h
  · cases h
  · split at h
    · cases h
    · rename_i b' hb'
      split at h
      · cases h
      · cases h; exact hb'

private theorem map_ok_inj (a b : List Member) (h : a.map (Except.ok (ε := Err)) = b.map .ok) : a = b := by
  induction a generalizing b with
  | nil => cases b <;> simp_all
  | cons x t ih =>
    cases b with
    | nil => simp at h
    | cons y u =>
      simp only [List.map_cons, List.cons.injEq, Except.ok.injEq] at h
      rw [h.1, ih u h.2]

/-- "resolves duplicate keys to the last one", for whole headers: when `a` and `b` parse on their own
and `a,b` is within the total size, `Parse(a + "," + b)` is the right-biased union of the two maps
(every key of `b` as in `b`, every other key as in `a`), or `errMemberNumber` if that union has more
than 180 members — what the `lastwins` lines check on the real code. -/
theorem parse_concat_last_wins (a b : Bytes) (x y : Baggage) (ha : parse a = .ok x) (hb : parse b = .ok y)
    (hane : a ≠ []) (hbne : b ≠ []) (hlen : (a ++ cComma :: b).length ≤ maxBytesPerBaggageString) :
    ∃ z : Baggage, (∀ k, lookup z k = match lookup y k with | some m => some m | none => lookup x k) ∧
      parse (a ++ cComma :: b) = if z.length > maxMembers then .error .memberNumber else .ok z := by
  have hla := parse_ok_loop a x ha hane
  have hlb := parse_ok_loop b y hb hbne
  obtain ⟨z, hz⟩ := parseLoop_ok_any_acc _ _ _ hlb x
  refine ⟨z, ?_, ?_⟩
  · intro k
    obtain ⟨ms, h1, h2⟩ := parseLoop_lookup _ _ _ hz k
    obtain ⟨ms', h1', h2'⟩ := parseLoop_lookup _ _ _ hlb k
    have : ms = ms' := map_ok_inj ms ms' (h1.symm.trans h1')
    subst this
    rw [h2, h2']
    cases ms.reverse.find? (fun m => m.key == k) with
    | some m => rfl
    | none => simp [lookup]
  · have he : (a ++ cComma :: b).isEmpty = false := by cases a <;> simp
    have hl : ¬ (a ++ cComma :: b).length > maxBytesPerBaggageString := by omega
    unfold parse
    simp only [he, Bool.false_eq_true, if_false, hl, splitOn_append_sep, parseLoop_append, hla, hz]

example : parse ([0x6B, 0x3D, 0x31, 0x2C, 0x61, 0x3D] ++ cComma :: [0x6B, 0x3D, 0x32]) =
    .ok [⟨[0x61], [], []⟩, ⟨[0x6B], [0x32], []⟩] := by decide

/-! ## the serialised header, byte-wise -/

/-- a byte that may occur in a serialised header: a W3C baggage-octet or one of the two delimiters
`,` `;` (so: printable ASCII without space, double quote and backslash) -/
def headerByte (c : UInt8) : Bool := baggageOctet c || c == cComma || c == cSemi

/-- **what `String()` / `Inject` put on the wire**: for well-formed members the header consists of
baggage-octets and the delimiters `,` `;` only — no whitespace, control, quote, backslash or non-ASCII
byte, whatever the values contain — and it is empty only for the empty baggage. -/
theorem serialized_header_clean (l : List Member) (hok : l.all memberOK = true) :
    (serialize l).all headerByte = true ∧ ((serialize l).isEmpty = true ↔ l = []) := by
  have hoct : ∀ s : Bytes, s.all baggageOctet = true → s.all headerByte = true :=
    fun s h => all_imp _ _ s h (fun x hx => by simp [headerByte, hx])
  have hmem : ∀ m ∈ l, m.string.all headerByte = true := by
    intro m hm
    have hmo := List.all_eq_true.mp hok m hm
    simp only [memberOK, Bool.and_eq_true] at hmo
    obtain ⟨⟨hk, _⟩, hps⟩ := hmo
    rw [member_string_eq m hk]
    split
    · simp only [List.all_append, List.all_cons, Bool.and_eq_true]
      refine ⟨hoct _ (kvString_octets m hk), by decide, ?_⟩
      rw [propsString_eq _ hps]
      apply joinWith_all _ _ _ (by decide)
      intro s hs
      obtain ⟨p, hp, rfl⟩ := List.mem_map.mp hs
      exact hoct _ (propString_octets p (List.all_eq_true.mp hps p hp)).1
    · exact hoct _ (kvString_octets m hk)
  constructor
  · rw [serialize_eq l hok]
    apply joinWith_all _ _ _ (by decide)
    intro s hs
    obtain ⟨m, hm, rfl⟩ := List.mem_map.mp hs
    exact hmem m hm
  · constructor
    · intro he
      cases l with
      | nil => rfl
      | cons m t =>
        rw [serialize_eq _ hok] at he
        have := joinWith_isEmpty cComma m.string (t.map Member.string)
          (memberString_octets_or m (List.all_eq_true.mp hok m (by simp))).2
        simp only [List.map_cons] at he
        rw [this] at he
        cases he
    · intro h; subst h; rfl

example : (serialize [⟨[0x6B], [0x20, 0x22, 0x5C, 0x0A, 0xC3, 0xA9], [⟨[0x70], [0x2C], true⟩]⟩]).all headerByte = true := by decide

/-! ## the accept/reject boundary of `Parse` at the list level -/

private theorem parseLoop_ok_iff (l : List Bytes) (acc b : Baggage) :
    parseLoop l acc = .ok b ↔ ∃ ms : List Member, l.map parseMember = ms.map .ok ∧ b = ms.foldl setMember acc := by
  induction l generalizing acc with
  | nil =>
    simp only [parseLoop, List.map_nil]
    constructor
    · intro h; cases h; exact ⟨[], rfl, rfl⟩
    · rintro ⟨ms, h1, h2⟩
      cases ms with
      | nil => rw [h2]; rfl
      | cons x t => simp at h1
  | cons s t ih =>
    cases hpm : parseMember s with
    | error e =>
      simp only [parseLoop, hpm, List.map_cons]
      constructor
      · intro h; cases h
      · rintro ⟨ms, h1, _⟩
        cases ms with
        | nil => simp at h1
        | cons x u => simp at h1
    | ok m =>
      simp only [parseLoop, hpm, List.map_cons, ih]
      constructor
      · rintro ⟨ms, h1, h2⟩
        exact ⟨m :: ms, by simp [h1], by simpa using h2⟩
      · rintro ⟨ms, h1, h2⟩
        cases ms with
        | nil => simp at h1
        | cons x u =>
          simp only [List.map_cons, List.cons.injEq, Except.ok.injEq] at h1
          obtain ⟨rfl, h1⟩ := h1
          exact ⟨u, h1, by simpa using h2⟩

/-- **`Parse` accepts exactly when** the header is at most 8192 bytes, *every* list-member (the
pieces between commas, empty ones included) parses on its own, and the map obtained by setting the
members from left to right has at most 180 entries; the result is that map. -/
theorem parse_accepts_iff (s : Bytes) (hne : s ≠ []) (b : Baggage) :
    parse s = .ok b ↔ s.length ≤ maxBytesPerBaggageString ∧
      ∃ ms : List Member, (splitOn cComma s).map parseMember = ms.map .ok ∧
        b = ms.foldl setMember [] ∧ b.length ≤ maxMembers := by
  have he : s.isEmpty = false := by simpa using hne
  unfold parse
  simp only [he, Bool.false_eq_true, if_false]
  by_cases hl : s.length > maxBytesPerBaggageString
  · simp only [hl, if_true]
    constructor
    · intro h; cases h
    · rintro ⟨h, _⟩; omega
  · simp only [hl, if_false]
    cases hp : parseLoop (splitOn cComma s) [] with
    | error e =>
      simp only []
      constructor
      · intro h; cases h
      · rintro ⟨_, ms, h1, h2, _⟩
        have := (parseLoop_ok_iff _ [] b).mpr ⟨ms, h1, h2⟩
        rw [hp] at this
        cases this
    | ok b' =>
      obtain ⟨ms, h1, h2⟩ := (parseLoop_ok_iff _ [] b').mp hp
      simp only []
      by_cases hc : b'.length > maxMembers
      · simp only [hc, if_true]
        constructor
        · intro h; cases h
        · rintro ⟨_, ms', h1', h2', h3'⟩
          have : ms = ms' := map_ok_inj ms ms' (h1.symm.trans h1')
          subst this
          rw [← h2] at h2'
          subst h2'
          omega
      · simp only [hc, if_false]
        constructor
        · intro h
          cases h
          exact ⟨by omega, ms, h1, h2, by omega⟩
        · rintro ⟨_, ms', h1', h2', _⟩
          have : ms = ms' := map_ok_inj ms ms' (h1.symm.trans h1')
          subst this
          rw [h2', h2]

/-- a trailing comma, a doubled comma or a lone comma is an empty list-member and makes `Parse` fail -/
example : parse [0x6B, 0x3D, 0x31, 0x2C] = .error .member ∧ parse [0x2C] = .error .member ∧
    parse [0x6B, 0x3D, 0x31, 0x2C, 0x2C, 0x61, 0x3D] = .error .member := by decide

end Otel.C11
