/-
C11 — executable model of `baggage/baggage.go` (core Lean only), written from the code as it is
after the F29 repair (commit 6202400).  Go strings are byte lists.  Everything the code takes from
the standard library is modelled here and differentially tested on its own line kinds:
`url.PathUnescape` (mode encodePathSegment), `strings.TrimSpace` (fast ASCII path + unicode slow
path, `utf8.DecodeLastRuneInString`), `strings.Split`, `strings.Cut`; `range s`/`utf8.ValidString`
come from `Otel.Utf8`.

Go's `map[string]Item` is modelled as a key-unique list in insertion order; Go's iteration order is
*not* modelled: `serialize` takes the members in the order of the list it is given and the theorems
quantify over every permutation of that list.
-/
import Otel.Base.Utf8
namespace Otel.C11
open Otel Otel.Utf8

/-! ## constants -/
def maxMembers : Nat := 180
def maxBytesPerMembers : Nat := 4096
def maxBytesPerBaggageString : Nat := 8192

def cComma : UInt8 := 0x2C
def cSemi : UInt8 := 0x3B
def cEq : UInt8 := 0x3D
def cPct : UInt8 := 0x25

/-! ## the two charset tables (transcribed; the harness compares all 256 bytes on every run) -/

/-- `safeKeyCharset[n]` for a rune/byte value `n` (false outside 0..127) -/
def keyCharN (n : Nat) : Bool :=
  n == 0x21 || (0x23 ≤ n && n ≤ 0x27) || n == 0x2A || n == 0x2B || n == 0x2D || n == 0x2E ||
  (0x30 ≤ n && n ≤ 0x39) || (0x41 ≤ n && n ≤ 0x5A) || (0x5E ≤ n && n ≤ 0x7A) || n == 0x7C || n == 0x7E

/-- `safeValueCharset[n]` (false outside 0..127) -/
def valueCharN (n : Nat) : Bool :=
  n == 0x21 || (0x23 ≤ n && n ≤ 0x2B) || (0x2D ≤ n && n ≤ 0x3A) || (0x3C ≤ n && n ≤ 0x5B) ||
  (0x5D ≤ n && n ≤ 0x7E)

/-- `validateKeyChar(c int32)`: `c >= 0 && c < utf8.RuneSelf && safeKeyCharset[c]` -/
def validateKeyChar (r : Nat) : Bool := r < 0x80 && keyCharN r
/-- `validateValueChar(c int32)` -/
def validateValueChar (r : Nat) : Bool := r < 0x80 && valueCharN r

/-- `for _, c := range s { if !p(c) { return false } }; return true` — over *runes* -/
def allRunes (p : Nat → Bool) (s : Bytes) : Bool := (chunks s).all (fun c => p c.rune)

/-- the loop `for _, c := range s[start:] { if !p(c) { break }; end++ }`: `end - start`
(one per *rune*, as written) -/
def runeRun (p : Nat → Bool) (s : Bytes) : Nat := ((chunks s).takeWhile (fun c => p c.rune)).length

/-- `validateKey`: non-empty and every rune is a key character -/
def validateKey (s : Bytes) : Bool := !s.isEmpty && allRunes validateKeyChar s
/-- `validateValue` (for percent-encoded text): every rune is a value character -/
def validateValue (s : Bytes) : Bool := allRunes validateValueChar s
/-- `validateBaggageName`: non-empty valid UTF-8 -/
def validateBaggageName (s : Bytes) : Bool := !s.isEmpty && validString s
/-- `validateBaggageValue`: valid UTF-8 -/
def validateBaggageValue (s : Bytes) : Bool := validString s

/-! ## escaping -/

/-- `shouldEscape(c byte)` -/
def shouldEscape (c : UInt8) : Bool := c == cPct || !validateValueChar c.toNat

/-- `"0123456789ABCDEF"[n]` -/
def upperhex (n : UInt8) : UInt8 := if n < 10 then 0x30 + n else 0x37 + n

/-- `valueEscape` (the `hexCount == 0` fast path returns `s`, which is what the general loop
produces as well) -/
def valueEscape (s : Bytes) : Bytes :=
  s.flatMap (fun c => if shouldEscape c then [cPct, upperhex (c >>> 4), upperhex (c &&& 15)] else [c])

/-- net/url `ishex` -/
def ishex (c : UInt8) : Bool :=
  (0x30 ≤ c && c ≤ 0x39) || (0x61 ≤ c && c ≤ 0x66) || (0x41 ≤ c && c ≤ 0x46)
/-- net/url `unhex` -/
def unhex (c : UInt8) : UInt8 :=
  if 0x30 ≤ c && c ≤ 0x39 then c - 0x30
  else if 0x61 ≤ c && c ≤ 0x66 then c - 0x61 + 10
  else if 0x41 ≤ c && c ≤ 0x46 then c - 0x41 + 10
  else 0

/-- `url.PathUnescape` = `unescape(s, encodePathSegment)`: every `%` must be followed by two hex
digits (`i+2 >= len(s)` ⇒ error); `+` is kept; `none` = `EscapeError`. The two passes of the Go
code (validate, then build) are fused. -/
def pathUnescape : Bytes → Option Bytes
  | [] => some []
  | c :: rest =>
    if c = cPct then
      match rest with
      | a :: b :: rest' =>
        if ishex a && ishex b then (pathUnescape rest').map (fun t => (unhex a <<< 4 ||| unhex b) :: t)
        else none
      | _ => none
    else (pathUnescape rest).map (fun t => c :: t)

/-- U+FFFD encoded -/
def replacementBytes : Bytes := [0xEF, 0xBF, 0xBD]

/-- `replaceInvalidUTF8Sequences`: valid input is returned as is; otherwise every invalid byte
becomes U+FFFD and every other rune is re-encoded (`WriteRune(r)` of a correctly decoded rune is its
own bytes). -/
def replaceInvalid (s : Bytes) : Bytes :=
  if validString s then s
  else (chunks s).flatMap (fun c => if c.invalid then replacementBytes else c.bytes)

/-! ## strings.Split / Cut / TrimSpace -/

/-- `strings.Split(s, string(sep))` for a one-byte separator (`Split("", sep) = [""]`) -/
def splitOn (sep : UInt8) : Bytes → List Bytes
  | [] => [[]]
  | c :: r =>
    if c = sep then [] :: splitOn sep r
    else match splitOn sep r with
      | [] => [[c]]
      | h :: t => (c :: h) :: t

/-- `strings.Cut(s, string(sep))` = (before, after, found) -/
def cut (sep : UInt8) (s : Bytes) : Bytes × Bytes × Bool :=
  match s.dropWhile (fun c => c != sep) with
  | [] => (s, [], false)
  | _ :: after => (s.takeWhile (fun c => c != sep), after, true)

/-- `strings.Join(parts, string(sep))` -/
def joinWith (sep : UInt8) : List Bytes → Bytes
  | [] => []
  | [a] => a
  | a :: b :: t => a ++ sep :: joinWith sep (b :: t)

/-- strings' `asciiSpace` table: `\t \n \v \f \r` and space -/
def asciiSpace (b : UInt8) : Bool := b == 9 || b == 10 || b == 11 || b == 12 || b == 13 || b == 32

/-- `unicode.IsSpace` -/
def isSpaceRune (r : Nat) : Bool :=
  r == 9 || r == 10 || r == 11 || r == 12 || r == 13 || r == 32 || r == 0x85 || r == 0xA0 ||
  r == 0x1680 || (0x2000 ≤ r && r ≤ 0x200A) || r == 0x2028 || r == 0x2029 || r == 0x202F ||
  r == 0x205F || r == 0x3000

/-- `utf8.RuneStart` -/
def runeStart (b : UInt8) : Bool := b &&& 0xC0 != 0x80

/-- `utf8.DecodeLastRuneInString` on the *reversed* string (`b0` is the last byte): look back at
most three more bytes for a rune start, decode forward from there, accept only if the rune ends
exactly at the end of the string; otherwise `(RuneError, 1)`. -/
def decodeLastRev : Bytes → Nat × Nat
  | [] => (0xFFFD, 0)
  | b0 :: rest =>
    let chk := fun (d : Nat × Nat) (k : Nat) => if d.2 = k then d else (0xFFFD, 1)
    if b0.toNat < 0x80 then (b0.toNat, 1)
    else match rest with
      | [] => (0xFFFD, 1)
      | b1 :: rest1 =>
        if runeStart b1 then chk (decode [b1, b0]) 2
        else match rest1 with
          | [] => (0xFFFD, 1)
          | b2 :: rest2 =>
            if runeStart b2 then chk (decode [b2, b1, b0]) 3
            else match rest2 with
              | [] => (0xFFFD, 1)
              | b3 :: _ => if runeStart b3 then chk (decode [b3, b2, b1, b0]) 4 else (0xFFFD, 1)

/-- `lastIndexFunc(s, IsSpace, false)` + the slice of `TrimRightFunc`, on the reversed string:
drop trailing runes (decoded backwards) while they are spaces. Fuel = length. -/
def trimRightRev : Nat → Bytes → Bytes
  | 0, r => r
  | f + 1, r =>
    let d := decodeLastRev r
    if !r.isEmpty && isSpaceRune d.1 then trimRightRev f (r.drop d.2) else r

/-- `strings.TrimRightFunc(s, unicode.IsSpace)` -/
def trimRightFunc (s : Bytes) : Bytes := (trimRightRev s.length s.reverse).reverse
/-- `strings.TrimLeftFunc(s, unicode.IsSpace)` (`indexFunc` walks `range s`) -/
def trimLeftFunc (s : Bytes) : Bytes := flat ((chunks s).dropWhile (fun c => isSpaceRune c.rune))

/-- `strings.TrimSpace`: ASCII fast path from the left; at the first non-ASCII byte fall back to
`TrimFunc(s[start:], unicode.IsSpace)`; then the same from the right with `TrimRightFunc`. -/
def trimSpace (s : Bytes) : Bytes :=
  match s.dropWhile asciiSpace with
  | [] => []
  | c :: r =>
    if c.toNat ≥ 0x80 then trimRightFunc (trimLeftFunc (c :: r))
    else match (c :: r).reverse.dropWhile asciiSpace with
      | [] => []
      | d :: q => if d.toNat ≥ 0x80 then trimRightFunc (d :: q).reverse else (d :: q).reverse

/-! ## data -/

structure Property where
  key : Bytes
  value : Bytes
  hasValue : Bool
deriving DecidableEq, Repr

/-- a list-member with data (`hasData = true`); the invalid zero `Member{}` is `none` wherever a
Go `Member` may be invalid -/
structure Member where
  key : Bytes
  value : Bytes
  props : List Property
deriving DecidableEq, Repr

/-- `baggage.List`: key-unique, insertion order (order is not observable in Go) -/
abbrev Baggage := List Member

inductive Err
  | baggageBytes   -- errBaggageBytes
  | memberBytes    -- errMemberBytes
  | member         -- errInvalidMember
  | key            -- errInvalidKey
  | value          -- errInvalidValue
  | property       -- errInvalidProperty
  | memberNumber   -- errMemberNumber
deriving DecidableEq, Repr

deriving instance DecidableEq for Except

/-! ## constructors -/

/-- `NewKeyProperty`; `none` = error (the returned `Property{}` is the zero value) -/
def newKeyProperty (key : Bytes) : Option Property :=
  if validateBaggageName key then some ⟨key, [], false⟩ else none

/-- `NewKeyValuePropertyRaw` -/
def newKeyValuePropertyRaw (key value : Bytes) : Option Property :=
  if !validateBaggageName key then none
  else if !validateBaggageValue value then none
  else some ⟨key, value, true⟩

/-- `NewKeyValueProperty` (percent-encoded value) -/
def newKeyValueProperty (key value : Bytes) : Option Property :=
  if !validateKey key then none
  else if !validateValue value then none
  else match pathUnescape value with
    | none => none
    | some d => newKeyValuePropertyRaw key d

/-- the zero `Property{}` that a failed constructor returns -/
def zeroProperty : Property := ⟨[], [], false⟩

/-- `Property.validate` -/
def Property.validate (p : Property) : Bool :=
  if !validateBaggageName p.key then false
  else if !p.hasValue && !p.value.isEmpty then false
  else if p.hasValue && !validateBaggageValue p.value then false
  else true

/-- `NewMemberRaw` → `Member.validate` -/
def newMemberRaw (key value : Bytes) (props : List Property) : Option Member :=
  if !validateBaggageName key then none
  else if !validateBaggageValue value then none
  else if props.all Property.validate then some ⟨key, value, props⟩ else none

/-- `NewMember` (percent-encoded value) -/
def newMember (key value : Bytes) (props : List Property) : Option Member :=
  if !validateKey key then none
  else if !validateValue value then none
  else match pathUnescape value with
    | none => none
    | some d => newMemberRaw key d props

/-! ## serialisation -/

/-- `Property.String` -/
def Property.string (p : Property) : Bytes :=
  if !validateKey p.key then []
  else if p.hasValue then p.key ++ cEq :: valueEscape p.value
  else p.key

/-- `properties.String`: non-empty property strings joined with `;` -/
def propsString (ps : List Property) : Bytes :=
  joinWith cSemi ((ps.map Property.string).filter (fun s => !s.isEmpty))

/-- `Member.String` -/
def Member.string (m : Member) : Bytes :=
  if !validateKey m.key then []
  else
    let s := m.key ++ cEq :: valueEscape m.value
    if m.props.length > 0 then s ++ cSemi :: propsString m.props else s

/-- `Baggage.String` for the iteration order given by the list -/
def serialize (b : List Member) : Bytes :=
  joinWith cComma ((b.map Member.string).filter (fun s => !s.isEmpty))

/-! ## map operations -/

/-- `list[m.key] = item` / the copy loop of `SetMember`: everything but the key, then the member -/
def setMember (b : Baggage) (m : Member) : Baggage := b.filter (fun e => e.key != m.key) ++ [m]

/-- `DeleteMember` -/
def deleteMember (b : Baggage) (key : Bytes) : Baggage := b.filter (fun e => e.key != key)

def lookup (b : Baggage) (key : Bytes) : Option Member := b.find? (fun e => e.key == key)

/-- `SetMember` on a possibly invalid member: `!member.hasData` ⇒ the receiver and an error -/
def setMemberOpt (b : Baggage) (m : Option Member) : Baggage × Bool :=
  match m with
  | none => (b, false)
  | some m => (setMember b m, true)

/-! ## New -/

/-- the loop of `New`: an invalid member aborts, later duplicates win -/
def newLoop : List (Option Member) → Baggage → Except Err Baggage
  | [], b => .ok b
  | none :: _, _ => .error .member
  | some m :: tl, b => newLoop tl (setMember b m)

/-- `New`: member count after de-duplication and total size **only** (no per-member check: F10) -/
def new (ms : List (Option Member)) : Except Err Baggage :=
  if ms.isEmpty then .ok []
  else match newLoop ms [] with
    | .error e => .error e
    | .ok b =>
      if b.length > maxMembers then .error .memberNumber
      else if (serialize b).length > maxBytesPerBaggageString then .error .baggageBytes
      else .ok b

/-! ## Parse -/

def isOWS (b : UInt8) : Bool := b == 0x20 || b == 0x09
/-- `skipSpace(s, offset)`, as the remaining suffix -/
def skipSpace (s : Bytes) : Bytes := s.dropWhile isOWS

/-- `parsePropertyInternal` with its index arithmetic turned into suffixes:
OWS key OWS [ "=" OWS value OWS ] -/
def parsePropertyInternal (s : Bytes) : Option Property :=
  let s1 := skipSpace s
  let klen := runeRun validateKeyChar s1
  if klen = 0 then none
  else
    let key := s1.take klen
    match skipSpace (s1.drop klen) with
    | [] => some ⟨key, [], false⟩
    | c :: s3 =>
      if c != cEq then none
      else
        let s4 := skipSpace s3
        let vlen := runeRun validateValueChar s4
        let raw := s4.take vlen
        if !(skipSpace (s4.drop vlen)).isEmpty then none
        else match pathUnescape raw with
          | none => none
          | some u => some ⟨key, replaceInvalid u, true⟩

/-- the property loop of `parseMember` (after the F29 repair: empty strings are skipped) -/
def parseProps : List Bytes → Except Err (List Property)
  | [] => .ok []
  | p :: tl =>
    if p.isEmpty then parseProps tl
    else match parsePropertyInternal p with
      | none => .error .property
      | some q => match parseProps tl with
        | .error e => .error e
        | .ok qs => .ok (q :: qs)

/-- `parseMember` (order of the checks as written) -/
def parseMember (m : Bytes) : Except Err Member :=
  if m.length > maxBytesPerMembers then .error .memberBytes
  else
    let (keyValue, rest, found) := cut cSemi m
    match (if found then parseProps (splitOn cSemi rest) else .ok []) with
    | .error e => .error e
    | .ok props =>
      let (k, v, found2) := cut cEq keyValue
      if !found2 then .error .member
      else
        let key := trimSpace k
        if !validateKey key then .error .key
        else
          let rawVal := trimSpace v
          if !validateValue rawVal then .error .value
          else match pathUnescape rawVal with
            | none => .error .value
            | some u => .ok ⟨key, replaceInvalid u, props⟩

/-- the member loop of `Parse`: the first failing member aborts, later duplicates win -/
def parseLoop : List Bytes → Baggage → Except Err Baggage
  | [], b => .ok b
  | ms :: tl, b =>
    match parseMember ms with
    | .error e => .error e
    | .ok m => parseLoop tl (setMember b m)

/-- `Parse` -/
def parse (s : Bytes) : Except Err Baggage :=
  if s.isEmpty then .ok []
  else if s.length > maxBytesPerBaggageString then .error .baggageBytes
  else match parseLoop (splitOn cComma s) [] with
    | .error e => .error e
    | .ok b => if b.length > maxMembers then .error .memberNumber else .ok b

/-! ## propagator (`propagation/baggage.go`) -/

/-- `Inject`: the header is set only when the serialisation is non-empty -/
def inject (order : List Member) : Option Bytes :=
  let s := serialize order
  if s.isEmpty then none else some s

/-- `Extract` into a context without baggage: absent/empty header or a parse error leave the parent
context (empty baggage) -/
def extract (hdr : Option Bytes) : Baggage :=
  match hdr with
  | none => []
  | some h => if h.isEmpty then [] else match parse h with
    | .error _ => []
    | .ok b => b

/-! ## a heap of immutable values for edit scripts: `SetMember`/`DeleteMember` allocate a new map
and never write to an existing one, so the heap only grows -/

inductive Edit
  | set (recv : Nat) (m : Option Member)
  | del (recv : Nat) (key : Bytes)
deriving Repr

def applyEdit (heap : List Baggage) : Edit → List Baggage
  | .set r m => heap ++ [(setMemberOpt (heap.getD r []) m).1]
  | .del r k => heap ++ [deleteMember (heap.getD r []) k]

def runEdits (heap : List Baggage) (es : List Edit) : List Baggage := es.foldl applyEdit heap

/-! ## accessors (`Member`, `Members`, `Len`) -/

/-- `Baggage.Member(key)`: `v, ok := b.list[key]`; absent ⇒ `newInvalidMember()` = the zero
`Member{}` (`hasData = false`, here `none`); present ⇒ the member rebuilt from the item under the
*argument* key with `hasData = true` -/
def member (b : Baggage) (key : Bytes) : Option Member :=
  match b.find? (fun e => e.key == key) with
  | none => none
  | some e => some ⟨key, e.value, e.props⟩

/-- `Baggage.Members()`: `nil` for an empty list, otherwise one member per map entry (order not
significant) -/
def members (b : Baggage) : List Member := if b.length = 0 then [] else b.map (fun e => ⟨e.key, e.value, e.props⟩)

/-- `Baggage.Len()` -/
def len (b : Baggage) : Nat := b.length

/-! ## contexts (`baggage/context.go`, `internal/baggage/context.go`; no hooks installed) -/

/-- what a context holds under `baggageKey`: `none` = no `baggageState` value at all, `some l` = a
state with list `l` (the nil list of `ContextWithoutBaggage` is the empty list) -/
abbrev Ctx := Option Baggage

/-- `ContextWithBaggage(parent, b)` → `ContextWithList(parent, b.list)`: the state of the parent is
copied, its list replaced -/
def contextWithBaggage (_parent : Ctx) (b : Baggage) : Ctx := some b

/-- `ContextWithoutBaggage(parent)` → `ContextWithList(parent, nil)` -/
def contextWithoutBaggage (parent : Ctx) : Ctx := contextWithBaggage parent []

/-- `FromContext(ctx)` → `ListFromContext`: the list of the state, `nil` when there is no state -/
def fromContext : Ctx → Baggage
  | none => []
  | some b => b

/-- `propagation.Baggage.Inject(ctx, carrier)` -/
def injectCtx (ctx : Ctx) : Option Bytes := inject (fromContext ctx)

/-- `propagation.Baggage.Extract(parent, carrier)`: `carrier.Get` of an absent key is `""`; an empty
header or a parse error return `parent` itself; otherwise the parsed baggage *replaces* the parent's -/
def extractCtx (parent : Ctx) (hdr : Option Bytes) : Ctx :=
  match hdr with
  | none => parent
  | some h =>
    if h.isEmpty then parent
    else match parse h with
      | .error _ => parent
      | .ok b => contextWithBaggage parent b

inductive CtxOp
  | withBag (recv : Nat) (b : Baggage)
  | without (recv : Nat)
  | extract (recv : Nat) (hdr : Option Bytes)
  | inject (recv : Nat)
deriving Repr

/-- contexts are immutable values: every operation appends a new context to the heap -/
def applyCtxOp (heap : List Ctx) : CtxOp → List Ctx
  | .withBag r b => heap ++ [contextWithBaggage (heap.getD r none) b]
  | .without r => heap ++ [contextWithoutBaggage (heap.getD r none)]
  | .extract r h => heap ++ [extractCtx (heap.getD r none) h]
  | .inject r => heap ++ [heap.getD r none]

def runCtxOps (heap : List Ctx) (ops : List CtxOp) : List Ctx := ops.foldl applyCtxOp heap

/-! ## property accessors -/

/-- `Property.Key()` -/
def Property.getKey (p : Property) : Bytes := p.key
/-- `Property.Value()`: `(p.value, p.hasValue)` -/
def Property.getValue (p : Property) : Bytes × Bool := (p.value, p.hasValue)
/-- `Member.Key()`, `Member.Value()`, `Member.Properties()` (a copy) -/
def Member.getKey (m : Member) : Bytes := m.key
def Member.getValue (m : Member) : Bytes := m.value
def Member.getProperties (m : Member) : List Property := m.props

end Otel.C11
