/-
C11 driver: one self-contained trace line per case (see harness/wb/baggage/zz_verif_c11_core_test.go
for the line grammar). For each line: run the model, compare with the observed result, evaluate the
Spec oracle on the *observed* result.
-/
import Otel.C11.Spec
open Otel Otel.Wire Otel.Utf8 Otel.C11 Otel.C11.Spec

namespace Otel.C11.Drv

/-! ### wire: parsing -/

def splitC (s : String) (c : Char) : List String := s.splitOn (String.singleton c)

/-- property spec: `k.<xkey>` | `r.<xkey>.<xval>` | `e.<xkey>.<xval>` | `z`; a failing constructor
returns the zero `Property{}` and the harness passes it on -/
def propOfSpec (s : String) : Option Property :=
  match splitC s '.' with
  | ["z"] => some zeroProperty
  | ["k", k] => do let k ← parseHex k; pure ((newKeyProperty k).getD zeroProperty)
  | ["r", k, v] => do let k ← parseHex k; let v ← parseHex v; pure ((newKeyValuePropertyRaw k v).getD zeroProperty)
  | ["e", k, v] => do let k ← parseHex k; let v ← parseHex v; pure ((newKeyValueProperty k v).getD zeroProperty)
  | _ => none

def propsOfSpec (s : String) : Option (List Property) :=
  if s == "-" then some [] else (splitC s '+').mapM propOfSpec

/-- member spec `<raw|enc|zero>/<xkey>/<xval>/<props>`; inner `none` = invalid zero `Member{}` -/
def memberOfSpec (s : String) : Option (Option Member) :=
  match splitC s '/' with
  | [c, k, v, ps] => do
    let k ← parseHex k
    let v ← parseHex v
    let ps ← propsOfSpec ps
    match c with
    | "raw" => pure (newMemberRaw k v ps)
    | "enc" => pure (newMember k v ps)
    | "zero" => pure none
    | _ => none
  | _ => none

def membersOfSpec (s : String) : Option (List (Option Member)) :=
  if s == "-" then some [] else (splitC s ',').mapM memberOfSpec

/-- observed property `<xkey>.<0|1>.<xval>` -/
def propOfObs (s : String) : Option Property :=
  match splitC s '.' with
  | [k, h, v] => do
    let k ← parseHex k
    let v ← parseHex v
    if h == "1" then pure ⟨k, v, true⟩ else if h == "0" then pure ⟨k, v, false⟩ else none
  | _ => none

/-- observed member `<xkey>/<xval>/<props>` -/
def memberOfObs (s : String) : Option Member :=
  match splitC s '/' with
  | [k, v, ps] => do
    let k ← parseHex k
    let v ← parseHex v
    let ps ← if ps == "-" then some [] else (splitC ps '+').mapM propOfObs
    pure ⟨k, v, ps⟩
  | _ => none

def bagOfObs (s : String) : Option Baggage :=
  if s == "-" then some [] else (splitC s ',').mapM memberOfObs

/-- observed result `ok:<bag>` | `err:<class>` -/
def resOfObs (s : String) : Option (Except String Baggage) :=
  if s.startsWith "ok:" then (bagOfObs (s.drop 3).toString).map .ok
  else if s.startsWith "err:" then some (.error (s.drop 4).toString)
  else none

/-! ### wire: rendering -/

def renderProp (p : Property) : String := s!"{hexOf p.key}.{if p.hasValue then 1 else 0}.{hexOf p.value}"
def renderMember (m : Member) : String :=
  s!"{hexOf m.key}/{hexOf m.value}/{if m.props.isEmpty then "-" else "+".intercalate (m.props.map renderProp)}"
def renderBag (b : Baggage) : String :=
  if b.isEmpty then "-" else ",".intercalate ((canon b).map renderMember)

def errName : Err → String
  | .baggageBytes => "bytes"
  | .memberBytes => "member-bytes"
  | .member => "member"
  | .key => "key"
  | .value => "value"
  | .property => "property"
  | .memberNumber => "count"

def renderRes (r : Except Err Baggage) : String :=
  match r with
  | .ok b => "ok:" ++ renderBag b
  | .error e => "err:" ++ errName e

def b2s (b : Bool) : String := if b then "1" else "0"

/-- compare a model result with an observed one (as maps) -/
def sameRes (m : Except Err Baggage) (o : Except String Baggage) : Bool :=
  match m, o with
  | .ok a, .ok b => sameMap a b
  | .error e, .error s => errName e == s
  | _, _ => false

def sameObs (a b : Except String Baggage) : Bool :=
  match a, b with
  | .ok a, .ok b => sameMap a b
  | .error e, .error s => e == s
  | _, _ => false

def verdict (agree : Bool) (spec : String) (nt : Bool) (br : String) (model : String) : Option Verdict :=
  some { agree := agree, spec := spec, nontrivial := nt, branches := br, model := model }

def okFail (b : Bool) : String := if b then "ok" else "FAIL"

/-- tags for the size class of a header / baggage (branch accounting) -/
def sizeTag (n : Nat) : String :=
  if n > 8192 then "gt8192" else if n > 4096 then "gt4096" else if n > 256 then "mid" else "small"

def resTag (r : Except Err Baggage) : String :=
  match r with
  | .ok b => if b.isEmpty then "ok-empty" else if b.length ≥ 180 then "ok-180" else if b.any (fun m => !m.props.isEmpty) then "ok-props" else "ok"
  | .error e => "err-" ++ errName e

/-- sorted pieces of a header, to compare serialisations independently of Go's map order -/
def sortedPieces (h : Bytes) : List Bytes :=
  ((splitOn cComma h).map (fun p => (⟨p, [], []⟩ : Member)) |> canon).map (·.key)

/-! ### edit scripts -/

def editOfSpec (s : String) : Option Edit :=
  match splitC s ':' with
  | ["s", r, m] => do let r ← parseNat r; let m ← memberOfSpec m; pure (.set r m)
  | ["d", r, k] => do let r ← parseNat r; let k ← parseHex k; pure (.del r k)
  | _ => none

/-- the oracle for an edit script, on observed dumps only: `created[i]` is the dump of value `i`
when it was created, `final[i]` its dump after all edits -/
def editsOK (created final : List Baggage) (es : List Edit) : Bool :=
  created.length == es.length + 1 && final.length == created.length &&
  (List.range created.length).all (fun i => sameMap (created.getD i []) (final.getD i [])) &&
  (List.range es.length).all (fun i =>
    let res := created.getD (i + 1) []
    match es.getD i (.del 0 []) with
    | .set r none => sameMap res (created.getD r [])
    | .set r (some m) => setOK (created.getD r []) m res
    | .del r k => deleteOK (created.getD r []) k res)

/-! ### context scripts -/

def ctxOpOfSpec (s : String) : Option CtxOp :=
  match splitC s ':' with
  | ["w", r, ms] => do
    let r ← parseNat r
    let ms ← membersOfSpec ms
    pure (.withBag r (match new ms with | .ok b => b | .error _ => []))
  | ["o", r] => do let r ← parseNat r; pure (.without r)
  | ["x", r, h] => do
    let r ← parseNat r
    if h == "-" then pure (.extract r none) else do let h ← parseHex h; pure (.extract r (some h))
  | ["i", r] => do let r ← parseNat r; pure (.inject r)
  | _ => none

/-- model heap, one agreement bit and one oracle bit per op; `oheap` = bags observed in the contexts -/
def ctxWalk : List CtxOp → List String → List Ctx → List Baggage → Bool → Bool → List String → Option (List Ctx × List Baggage × Bool × Bool × List String)
  | [], [], heap, oheap, a, sp, ms => some (heap, oheap, a, sp, ms.reverse)
  | op :: ops, o :: os, heap, oheap, a, sp, ms =>
    let heap' := applyCtxOp heap op
    let nc := heap'.getD heap.length none
    match op with
    | .inject r =>
      let mh := injectCtx (heap.getD r none)
      let parent := oheap.getD r []
      let oh := if o == "-" then some none else (parseHex o).map some
      match oh with
      | none => none
      | some oh =>
        let ag := match mh, oh with
          | none, none => true
          | some x, some y => sortedPieces x == sortedPieces y
          | _, _ => false
        -- oracle: no header only if nothing can be serialised; a header is never empty
        let ok := match oh with
          | none => parent.all (fun m => !isToken m.key)
          | some h => !h.isEmpty
        ctxWalk ops os heap' (oheap ++ [parent]) (a && ag) (sp && ok)
          ((match mh with | none => "-" | some x => hexOf x) :: ms)
    | .withBag _ _ =>
      match bagOfObs o with
      | none => none
      | some ob => ctxWalk ops os heap' (oheap ++ [ob]) (a && sameMap (fromContext nc) ob) sp (renderBag (fromContext nc) :: ms)
    | .without _ =>
      match bagOfObs o with
      | none => none
      | some ob => ctxWalk ops os heap' (oheap ++ [ob]) (a && sameMap (fromContext nc) ob) (sp && ob.isEmpty) (renderBag (fromContext nc) :: ms)
    | .extract r h =>
      match bagOfObs o with
      | none => none
      | some ob =>
        let parent := oheap.getD r []
        let ok := match h with
          | none => sameMap ob parent
          | some h => extractOK parent h ob
        ctxWalk ops os heap' (oheap ++ [ob]) (a && sameMap (fromContext nc) ob) (sp && ok) (renderBag (fromContext nc) :: ms)
  | _, _, _, _, _, _, _ => none

/-! ### alias scripts: shared argument tables, mutated after the calls; values are immutable in the model -/

inductive AStep
  | nm (enc : Bool) (k v : Bytes) (lo hi : Nat)
  | op (i : Nat) (p : Property)
  | ap (lo hi : Nat) (p : Property)
  | tm (i j : Nat)
  | am (lo hi j : Nat)
  | nb (lo hi : Nat)
  | sm (b j : Nat)
  | dm (b : Nat) (k : Bytes)
  | nop

def aStepOfSpec (s : String) : Option AStep :=
  match splitC s ':' with
  | ["nm", c, k, v, lo, hi] => do
    let k ← parseHex k; let v ← parseHex v; let lo ← parseNat lo; let hi ← parseNat hi
    if c == "e" then pure (.nm true k v lo hi) else if c == "r" then pure (.nm false k v lo hi) else none
  | ["op", i, p] => do let i ← parseNat i; let p ← propOfSpec p; pure (.op i p)
  | ["ap", lo, hi, p] => do let lo ← parseNat lo; let hi ← parseNat hi; let p ← propOfSpec p; pure (.ap lo hi p)
  | ["tm", i, j] => do let i ← parseNat i; let j ← parseNat j; pure (.tm i j)
  | ["am", lo, hi, j] => do let lo ← parseNat lo; let hi ← parseNat hi; let j ← parseNat j; pure (.am lo hi j)
  | ["nb", lo, hi] => do let lo ← parseNat lo; let hi ← parseNat hi; pure (.nb lo hi)
  | ["sm", b, j] => do let b ← parseNat b; let j ← parseNat j; pure (.sm b j)
  | ["dm", b, k] => do let b ← parseNat b; let k ← parseHex k; pure (.dm b k)
  | ["mm", _] => some .nop
  | ["mp", _] => some .nop
  | ["mq", _, _] => some .nop
  | _ => none

def clampLoHi (lo hi n : Nat) : Nat × Nat :=
  let lo := min lo n
  (lo, max lo (min hi n))

def sliceL {α} (l : List α) (lo hi : Nat) : List α := (l.drop lo).take (hi - lo)

structure AState where
  pt : List Property
  mt : List (Option Member)
  mems : List (Option Member)
  bags : List Baggage
  omt : List (Option Member)
  omems : List (Option Member)
  obags : List Baggage
  agree : Bool
  spec : Bool
  tags : List String
  model : List String

/-- reference for `New` on valid members: later duplicates win -/
def refNew (l : List Member) : Baggage := l.foldl (fun acc m => unionRight acc [m]) []

def aStep (st : AState) (step : AStep) (bit dump : String) : Option AState :=
  let st := { st with agree := st.agree && bit == "1", spec := st.spec && bit == "1" }
  let plain := fun (st : AState) (tag : String) => some { st with agree := st.agree && dump == "-", tags := tag :: st.tags, model := "-" :: st.model }
  match step with
  | .nm enc k v lo hi =>
    let (lo, hi) := clampLoHi lo hi st.pt.length
    let ps := sliceL st.pt lo hi
    let m := if enc then newMember k v ps else newMemberRaw k v ps
    let ms := match m with | none => "err" | some m => "ok:" ++ renderMember m
    let om : Option (Option Member) :=
      if dump == "err" then some none
      else if dump.startsWith "ok:" then (memberOfObs (dump.drop 3).toString).map some else none
    match om with
    | none => none
    | some om =>
      let ok := match om with | none => true | some x => ctorMemberOK x
      some { st with mems := st.mems ++ [m], omems := st.omems ++ [om], agree := st.agree && ms == dump,
                     spec := st.spec && ok, tags := (if m.isSome then (if ps.isEmpty then "nm" else "nm-props") else "nm-err") :: st.tags,
                     model := ms :: st.model }
  | .op i p => plain { st with pt := st.pt.set i p } "op"
  | .ap lo hi p =>
    let (_, hi) := clampLoHi lo hi st.pt.length
    plain { st with pt := if hi < st.pt.length then st.pt.set hi p else st.pt } (if hi < st.pt.length then "ap-spare" else "ap-full")
  | .tm i j =>
    if i < st.mt.length && j < st.mems.length then
      plain { st with mt := st.mt.set i (st.mems.getD j none), omt := st.omt.set i (st.omems.getD j none) } "tm"
    else plain st "noop"
  | .am lo hi j =>
    let (_, hi) := clampLoHi lo hi st.mt.length
    if j < st.mems.length && hi < st.mt.length then
      plain { st with mt := st.mt.set hi (st.mems.getD j none), omt := st.omt.set hi (st.omems.getD j none) } "am-spare"
    else plain st "am-full"
  | .nb lo hi =>
    let (lo, hi) := clampLoHi lo hi st.mt.length
    let r := new (sliceL st.mt lo hi)
    let b := match r with | .ok b => b | .error _ => []
    match resOfObs dump with
    | none => none
    | some ob =>
      let osl := sliceL st.omt lo hi
      let ok := match ob with
        | .ok x => osl.all Option.isSome && sameMap x (refNew (osl.filterMap id))
        | .error e => e != "panic"
      let obag := match ob with | .ok x => x | .error _ => []
      some { st with bags := st.bags ++ [b], obags := st.obags ++ [obag], agree := st.agree && sameRes r ob,
                     spec := st.spec && ok, tags := ("nb-" ++ resTag r) :: st.tags, model := renderRes r :: st.model }
  | .sm bi j =>
    if bi < st.bags.length && j < st.mems.length then
      let m := st.mems.getD j none
      let b := (setMemberOpt (st.bags.getD bi []) m).1
      match resOfObs dump with
      | some (.ok ob) =>
        let old := st.obags.getD bi []
        let ok := match st.omems.getD j none with
          | none => sameMap ob old
          | some om => setOK old om ob
        some { st with bags := st.bags ++ [b], obags := st.obags ++ [ob], agree := st.agree && sameMap b ob,
                       spec := st.spec && ok, tags := (if m.isSome then "sm" else "sm-invalid") :: st.tags, model := ("ok:" ++ renderBag b) :: st.model }
      | _ => none
    else plain st "noop"
  | .dm bi k =>
    if bi < st.bags.length then
      let b := deleteMember (st.bags.getD bi []) k
      match resOfObs dump with
      | some (.ok ob) =>
        some { st with bags := st.bags ++ [b], obags := st.obags ++ [ob], agree := st.agree && sameMap b ob,
                       spec := st.spec && deleteOK (st.obags.getD bi []) k ob, tags := "dm" :: st.tags, model := ("ok:" ++ renderBag b) :: st.model }
      | _ => none
    else plain st "noop"
  | .nop => plain st "mutate-returned"

def aWalk : List AStep → List String → AState → Option AState
  | [], [], st => some st
  | s :: ss, bit :: dump :: os, st =>
    match aStep st s bit dump with
    | none => none
    | some st' => aWalk ss os st'
  | _, _, _ => none

/-- per-key part of a `lookup` line: (agree, oracle, model text) -/
def lookupWalk (b ob : Baggage) : List Bytes → List String → Option (Bool × Bool × List String)
  | [], [] => some (true, true, [])
  | k :: ks, mo :: ro :: os =>
    match resOfObs ro, lookupWalk b ob ks os with
    | some r, some (a, sp, ms) =>
      let m := member b k
      let mm := match m with | none => "-" | some x => renderMember x
      let mr := new [m]
      -- oracle: Member(key) is the listed member with that key or the zero Member; New accepts it back
      let om := lookup ob k
      let ok1 := mo == (match om with | none => "-" | some x => renderMember x)
      let ok2 := match om with
        | none => sameObs r (.error "member")
        | some x => if (serialize [x]).length > maxBytesPerBaggageString then sameObs r (.error "bytes") else sameObs r (.ok [x])
      some (a && mm == mo && sameRes mr r, sp && ok1 && ok2, (mm ++ " " ++ renderRes mr) :: ms)
    | _, _ => none
  | _, _ => none

/-! ### the grammar as an oracle (Spec predicates only) -/

/-- what the header grammar says about `h`: `none` = not a baggage header, `some b` = denotes `b` -/
def headerGrammar (h : Bytes) : Option Baggage :=
  if h.isEmpty then some []
  else if h.length > maxBytesPerBaggageString then none
  else
    let pieces := splitOn cComma h
    if pieces.all memberAccepts then
      let b := refNew (pieces.map memberDecode)
      if b.length > maxMembers then none else some b
    else none

/-- observed result vs grammar: ok ⇔ accepted, and the same map -/
def grammarOK (h : Bytes) (ob : Except String Baggage) : Bool :=
  match ob, headerGrammar h with
  | .ok b, some g => sameMap b g
  | .error e, none => e != "panic"
  | _, _ => false

/-- property constructor spec: outer none = unparseable, inner none = constructor error -/
def propCtorOfSpec (s : String) : Option (Option Property × String × Bytes × Bytes) :=
  match splitC s '.' with
  | ["k", k] => do let k ← parseHex k; pure (newKeyProperty k, "k", k, [])
  | ["r", k, v] => do let k ← parseHex k; let v ← parseHex v; pure (newKeyValuePropertyRaw k v, "r", k, v)
  | ["e", k, v] => do let k ← parseHex k; let v ← parseHex v; pure (newKeyValueProperty k v, "e", k, v)
  | _ => none

/-! ### one line -/

def stepLine (_ : Unit) (toks : List String) : Unit × Option Verdict :=
  let (inp, obs) := splitObs toks
  ((), match inp, obs with
  | ["charset", _, n], [k, v, e] =>
    match parseNat n with
    | some n =>
      let mk := validateKeyChar n
      let mv := validateValueChar n
      let me := if n < 256 then b2s (shouldEscape (UInt8.ofNat n)) else "-"
      let model := s!"{b2s mk} {b2s mv} {me}"
      -- oracle: the code's tables are RFC 7230 tchar / W3C baggage-octet
      let spec := n ≥ 256 || ((k == b2s (tchar (UInt8.ofNat n))) && (v == b2s (baggageOctet (UInt8.ofNat n))))
      let spec := if n ≥ 256 then (k == "0" && v == "0") else spec
      verdict (model == s!"{k} {v} {e}") (okFail spec) (mk || mv) (if n < 128 then "ascii" else if n < 256 then "latin1" else "rune") model
    | none => none
  | ["unesc", _, s], [o] =>
    match parseHex s with
    | some s =>
      let m := pathUnescape s
      let model := match m with | some u => "ok:" ++ hexOf u | none => "err"
      verdict (model == o) "na" (s.contains cPct) (if m.isSome then (if s.contains cPct then "decoded" else "plain") else "error") model
    | none => none
  | ["trim", _, s], [o] =>
    match parseHex s with
    | some s =>
      let m := trimSpace s
      let br := match s.dropWhile asciiSpace with
        | [] => "all-space"
        | c :: r => if c.toNat ≥ 0x80 then "slow-left"
          else match (c :: r).reverse.dropWhile asciiSpace with
            | d :: _ => if d.toNat ≥ 0x80 then "slow-right" else "fast"
            | [] => "fast"
      verdict (hexOf m == o) "na" (m != s) br (hexOf m)
    | none => none
  | ["esc", _, s], [e, u] =>
    match parseHex s, parseHex e with
    | some s, some eo =>
      let m := valueEscape s
      let model := s!"{hexOf m} ok:{hexOf s}"
      -- oracle: the escaped text is clean and decodes back to the input
      let spec := escapedOK eo && u == "ok:" ++ hexOf s
      verdict (hexOf m == e && u == "ok:" ++ hexOf s) (okFail spec) (m != s) (if m == s then "plain" else "escaped") model
    | _, _ => none
  | ["member", _, ms], [o] =>
    match memberOfSpec ms with
    | some m =>
      let model := match m with
        | none => "err"
        | some m => s!"ok:{renderMember m}:{hexOf m.string}"
      let br := match m with
        | none => "rejected"
        | some m => if m.string.isEmpty then "dropped-key" else if m.props.isEmpty then "plain" else "props"
      -- oracle, on the observed member: valid UTF-8 only; Key()/Value() are the constructor's arguments (decoded
      -- for the encoded constructor); String() is empty iff the key is no token, otherwise it is a list-member of
      -- the grammar and (all property keys tokens, <= 4096 bytes) denotes exactly the member
      let args : Option (String × Bytes × Bytes) := match splitC ms '/' with
        | [c, k, v, _] => do let k ← parseHex k; let v ← parseHex v; pure (c, k, v)
        | _ => none
      let spec := match splitC o ':', args with
        | ["err"], _ => true
        | ["ok", mo, hs], some (c, k, v) =>
          match memberOfObs mo, parseHex hs with
          | some om, some str =>
            ctorMemberOK om && om.key == k &&
            (if c == "enc" then pctOK v && om.value == pctDecode v else om.value == v) &&
            (str.isEmpty == !isToken om.key) &&
            (str.isEmpty || str.length > maxBytesPerMembers || !om.props.all (fun p => isToken p.key) ||
              (memberAccepts str && memberDecode str == om))
          | _, _ => false
        | _, _ => false
      verdict (model == o) (okFail spec) m.isSome br model
    | none => none
  | ["new", _, ms], [o] =>
    match membersOfSpec ms, resOfObs o with
    | some ms, some ob =>
      let m := new ms
      -- oracle: an accepted baggage respects the limits the constructor must enforce
      let spec := match ob with
        | .ok b => if b.length ≤ maxMembers && (serialize b).length ≤ maxBytesPerBaggageString && keysNodup b
                   then (if F10_applies b then "KNOWN:F10" else "ok") else "FAIL"
        | .error _ => "ok"
      verdict (sameRes m ob) spec (ms.length > 0) (resTag m) (renderRes m)
    | _, _ => none
  | ["string", _, ms], [o] =>
    match membersOfSpec ms with
    | some ms =>
      match new ms with
      | .error _ => verdict (o == "err") "na" false "new-error" "err"
      | .ok b =>
        match parseHex o with
        | some h =>
          let m := serialize b
          let agree := sortedPieces m == sortedPieces h
          -- oracle: every list-member is key=escaped-value[;props] with clean escaped text
          let spec := h.isEmpty || (splitOn cComma h).all (fun p =>
            let (kv, rest, _) := cut cSemi p
            let (k, v, f) := cut cEq kv
            f && isToken k && escapedOK v && (splitOn cSemi rest).all (fun q =>
              let (pk, pv, _) := cut cEq q
              q.isEmpty || (isToken pk && escapedOK pv)))
          verdict agree (okFail spec) (!b.isEmpty) (sizeTag m.length) (hexOf m)
        | none => verdict false "na" false "-" (hexOf (serialize b))
    | none => none
  | ["parse", _, h], [o, o2] =>
    match parseHex h, resOfObs o with
    | some h, some ob =>
      let m := parse h
      -- the re-parse of the re-serialised result, in the model for the model's own order
      let m2 := match m with
        | .ok b => renderRes (parse (serialize b))
        | .error _ => "-"
      let ob2 := if o2 == "-" then none else resOfObs o2
      let agree2 := match m, ob2 with
        | .ok b, some r2 => sameRes (parse (serialize b)) r2
        | .error _, none => o2 == "-"
        | _, _ => false
      -- oracle on the observed result: sound, and stable unless it no longer fits the limits (F30)
      let spec := match ob with
        | .error e => if e == "panic" || !grammarOK h ob then "FAIL" else "ok"   -- "parsing arbitrary bytes never panics"; rejected ⇔ not in the grammar
        | .ok b =>
          if !parsedOK h b || !grammarOK h ob then "FAIL"
          else match ob2 with
            | none => "FAIL"
            | some r2 =>
              if sameObs r2 (.ok b) then "ok"
              else if F30_applies b then "KNOWN:F30" else "FAIL"
      verdict (sameRes m ob && agree2) spec (match m with | .ok b => !b.isEmpty | _ => false)
        (resTag m ++ "," ++ sizeTag h.length) (renderRes m ++ " " ++ m2)
    | _, _ => none
  | ["lastwins", _, a, b], [oa, ob, oab] =>
    match parseHex a, parseHex b, resOfObs oa, resOfObs ob, resOfObs oab with
    | some a, some b, some ra, some rb, some rab =>
      let ab := a ++ cComma :: b
      let ma := parse a; let mb := parse b; let mab := parse ab
      -- oracle: when both halves parse and the whole fits, the whole is the right-biased union
      let spec := match ra, rb with
        | .ok x, .ok y =>
          if a.isEmpty || b.isEmpty then "ok"   -- an empty half is an empty list-member of the whole: error expected
          else if ab.length > maxBytesPerBaggageString then okFail (sameObs rab (.error "bytes"))
          else if (unionRight x y).length > maxMembers then okFail (sameObs rab (.error "count"))
          else okFail (sameObs rab (.ok (unionRight x y)))
        | _, _ => okFail (match rab with | .error e => e != "panic" | .ok _ => a.isEmpty || b.isEmpty)
      let dup := match ma, mb with
        | .ok x, .ok y => x.any (fun e => y.any (fun f => f.key == e.key))
        | _, _ => false
      verdict (sameRes ma ra && sameRes mb rb && sameRes mab rab) spec dup
        (if dup then "dup" else resTag mab) (renderRes mab)
    | _, _, _, _, _ => none
  | ["roundtrip", _, ms], [o1, o2] =>
    match membersOfSpec ms, resOfObs o1 with
    | some ms, some r1 =>
      let m1 := new ms
      let m2 := match m1 with
        | .ok b => renderRes (parse (serialize b))
        | .error _ => "-"
      let r2 := if o2 == "-" then none else resOfObs o2
      let agree2 := match m1, r2 with
        | .ok b, some r2 => sameRes (parse (serialize b)) r2
        | .error _, none => o2 == "-"
        | _, _ => false
      -- oracle: a constructor-accepted baggage with token keys comes back unchanged (except F10)
      let spec := match r1, r2 with
        | .error _, _ => "ok"
        | .ok b, some r2 =>
          if sameObs r2 (.error "panic") then "FAIL"
          else if !tokenKeys b then "na"
          else if sameObs r2 (.ok b) then "ok"
          else if F10_applies b then "KNOWN:F10" else "FAIL"
        | .ok _, none => "FAIL"
      let br := match m1 with
        | .ok b => if !tokenKeys b then "non-token-key" else if F10_applies b then "f10" else resTag m1 ++ "," ++ sizeTag (serialize b).length
        | .error _ => resTag m1
      verdict (sameRes m1 r1 && agree2) spec (match m1 with | .ok b => !b.isEmpty | _ => false) br (renderRes m1 ++ " " ++ m2)
    | _, _ => none
  | ["injext", _, ms], [oh, ob] =>
    match membersOfSpec ms, bagOfObs ob with
    | some ms, some rb =>
      match new ms with
      | .error _ => verdict (oh == "err") "na" false "new-error" "err"
      | .ok b =>
        let mh := inject b
        let hdr := if oh == "-" then some none else (parseHex oh).map some
        match hdr with
        | none => none
        | some hdr =>
          let agreeH := match mh, hdr with
            | none, none => true
            | some x, some y => sortedPieces x == sortedPieces y
            | _, _ => false
          let mb := extract mh
          -- oracle: Inject then Extract is the identity (token keys, except F10)
          let spec := if !tokenKeys b then "na"
            else if sameMap rb b then "ok"
            else if F10_applies b then "KNOWN:F10" else "FAIL"
          verdict (agreeH && sameMap mb rb) spec (!b.isEmpty)
            (if mh.isNone then "no-header" else if F10_applies b then "f10" else "header") (renderBag mb)
    | _, _ => none
  | "setdel" :: _ :: ms :: "|" :: ops, _ =>
    let created := (obs.takeWhile (· ≠ "|")).mapM bagOfObs
    let final := ((obs.dropWhile (· ≠ "|")).drop 1).mapM bagOfObs
    match membersOfSpec ms, ops.mapM editOfSpec, created, final with
    | some ms, some es, some created, some final =>
      match new ms with
      | .error _ => verdict (obs == ["err"]) "na" false "new-error" "err"
      | .ok b =>
        let heap := runEdits [b] es
        let agree := heap.length == created.length && heap.length == final.length &&
          (List.range heap.length).all (fun i =>
            sameMap (heap.getD i []) (created.getD i []) && sameMap (heap.getD i []) (final.getD i []))
        let spec := editsOK created final es
        let br := ",".intercalate ((es.map (fun e => match e with
          | .set _ none => "set-invalid" | .set _ (some _) => "set" | .del _ _ => "del")).eraseDups)
        verdict agree (okFail spec) (es.length > 0) (if br.isEmpty then "-" else br)
          (" ".intercalate (heap.map renderBag))
    | _, _, _, _ => none
  | "lookup" :: _ :: ms :: "|" :: keys, ro :: lo :: no :: "|" :: rest =>
    match membersOfSpec ms, keys.mapM parseHex, resOfObs ro, parseNat lo, parseNat no with
    | some ms, some keys, some ob, some ol, some on =>
      let r := new ms
      let b := match r with | .ok b => b | .error _ => []
      let obag := match ob with | .ok x => x | .error _ => []
      match lookupWalk b obag keys rest with
      | some (a, sp, mtxt) =>
        let hit := keys.any (fun k => (member b k).isSome)
        let miss := keys.any (fun k => (member b k).isNone)
        verdict (sameRes r ob && len b == ol && (members b).length == on && a)
          (okFail (ol == obag.length && on == obag.length && sp)) (!b.isEmpty)
          ((if hit then "hit" else "no-hit") ++ "," ++ (if miss then "miss" else "no-miss") ++ "," ++ resTag r)
          (renderRes r ++ s!" {len b} {(members b).length} | " ++ " ".intercalate mtxt)
      | none => none
    | _, _, _, _, _ => none
  | "alias" :: _ :: pt :: "|" :: steps, _ =>
    match propsOfSpec pt, steps.mapM aStepOfSpec with
    | some pt, some asteps =>
      let st0 : AState := ⟨pt, List.replicate 8 none, [], [], List.replicate 8 none, [], [], true, true, [], []⟩
      match aWalk asteps obs st0 with
      | some st =>
        verdict st.agree (okFail st.spec) (!st.bags.isEmpty || !st.mems.isEmpty)
          (",".intercalate st.tags.eraseDups) (" ".intercalate st.model.reverse)
      | none => none
    | _, _ => none
  | ["prop", _, ps], [st, k, hv, v, str, re] =>
    match propCtorOfSpec ps, parseHex k, parseHex v, parseHex str with
    | some (mp, kind, ak, av), some ok, some ov, some ostr =>
      let p := mp.getD zeroProperty
      let mre := if p.string.isEmpty then "-" else match parsePropertyInternal p.string with
        | some q => "ok:" ++ renderProp q
        | none => "err"
      let model := s!"{if mp.isSome then "ok" else "err"} {hexOf p.getKey} {b2s p.getValue.2} {hexOf p.getValue.1} {hexOf p.string} {mre}"
      -- oracle, on the observed values only: accessor laws, String() in the grammar, String/parse inverse
      let op : Property := ⟨ok, ov, hv == "1"⟩
      let laws := if st == "err" then ok.isEmpty && ov.isEmpty && hv == "0" && ostr.isEmpty
        else st == "ok" && ok == ak && (match kind with
          | "k" => hv == "0" && ov.isEmpty
          | "r" => hv == "1" && ov == av
          | _ => hv == "1" && pctOK av && ov == pctDecode av)
      let inv := if ostr.isEmpty then (st == "err" || !isToken ok) && re == "-"
        else isToken ok && propertyAccepts ostr && propertyDecode ostr == op && re == "ok:" ++ renderProp op
      verdict (model == s!"{st} {k} {hv} {v} {str} {re}") (okFail (laws && inv)) mp.isSome
        (kind ++ (if mp.isNone then "-err" else if p.string.isEmpty then "-dropped" else if p.hasValue && p.value.isEmpty then "-emptyvalue" else "")) model
    | _, _, _, _ => none
  | ["pparse", _, s], [o] =>
    match parseHex s with
    | some s =>
      let m := parsePropertyInternal s
      let model := match m with | some q => "ok:" ++ renderProp q | none => "err"
      -- oracle: accepted ⇔ in the property grammar, value = what the grammar denotes
      let g := if propertyAccepts s then "ok:" ++ renderProp (propertyDecode s) else "err"
      verdict (model == o) (okFail (o == g)) m.isSome
        (match m with | none => "reject" | some q => if q.hasValue then (if s.any isOWSb then "kv-ows" else "kv") else (if s.any isOWSb then "key-ows" else "key")) model
    | none => none
  | ["conc", _, ms], [bit, ob] =>
    match membersOfSpec ms with
    | some ms =>
      match new ms with
      | .error _ => verdict (bit == "err") "na" false "new-error" "err"
      | .ok b =>
        match bagOfObs ob with
        | some ob =>
          -- oracle: a value used by several goroutines at once, and its copy in a context, are never altered
          verdict (bit == "1" && sameMap b ob) (okFail (bit == "1")) (!b.isEmpty) (if b.isEmpty then "empty" else "shared") ("1 " ++ renderBag b)
        | none => none
    | none => none
  | "ctx" :: _ :: "|" :: ops, _ =>
    let created := obs.takeWhile (· ≠ "|")
    let final := ((obs.dropWhile (· ≠ "|")).drop 1).mapM bagOfObs
    match ops.mapM ctxOpOfSpec, final with
    | some cops, some final =>
      match ctxWalk cops created [none] [[]] true true [] with
      | some (heap, oheap, a, sp, mtxt) =>
        let same := fun (x y : List Baggage) => x.length == y.length &&
          (List.range x.length).all (fun i => sameMap (x.getD i []) (y.getD i []))
        -- oracle: every context still holds at the end what it held when it was created
        let imm := same oheap final
        let br := ",".intercalate ((cops.map (fun o => match o with
          | .withBag _ b => if b.isEmpty then "with-empty" else "with"
          | .without _ => "without"
          | .extract _ none => "extract-nohdr"
          | .extract _ (some h) => if h.isEmpty then "extract-empty" else match parse h with | .ok _ => "extract-ok" | .error _ => "extract-err"
          | .inject _ => "inject")).eraseDups)
        verdict (a && same (heap.map fromContext) final) (okFail (sp && imm)) (cops.length > 1) br
          (" ".intercalate mtxt ++ " | " ++ " ".intercalate ((heap.map fromContext).map renderBag))
      | none => none
    | _, _ => none
  | _, _ => none)

end Otel.C11.Drv

def main : IO Unit := Wire.run () Otel.C11.Drv.stepLine
